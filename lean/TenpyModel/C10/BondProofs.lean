import TenpyModel.C10.TermsProofs
import TenpyModel.C10.GraphProofs
import TenpyModel.Ops.Bond
/-!
# C10: the nearest-neighbour bond operators add up to the operator of the terms
-/
namespace TenpyModel.Ops

section
variable {α : Type} [Semiring α]

theorem embedBond_append (L j : Nat) (a b : Sym α) :
    embedBond L j (a ++ b) = embedBond L j a ++ embedBond L j b := by
  simp [embedBond]

/-- `Σ_j H_bond[j]` changes by the embedded addend when bond `j ≥ 1` is incremented -/
theorem bonds_addAt (L : Nat) (b : Bonds α) (j : Nat) (hj1 : 1 ≤ j) (hjL : j < b.length) (x : Sym α) :
    Sym.Equiv (Bonds.denote L (b.addAt j x)) (Bonds.denote L b ++ embedBond L j x) := by
  unfold Bonds.denote Bonds.addAt
  -- generalise the index offset of zipIdx
  suffices ∀ (l : List (Sym α)) (n j : Nat), n ≤ j → j - n < l.length →
      Sym.Equiv (((l.modify (j - n) (· ++ x)).zipIdx n).flatMap (fun p => embedBond L p.2 p.1))
        ((l.zipIdx n).flatMap (fun p => embedBond L p.2 p.1) ++ embedBond L j x) by
    cases b with
    | nil => simp at hjL
    | cons s0 b' =>
      cases j with
      | zero => omega
      | succ j' =>
        simp only [List.modify_succ_cons, List.zipIdx_cons, List.drop_succ_cons, List.drop_zero]
        have := this b' 1 (j' + 1) (by omega) (by simpa using hjL)
        simpa using this
  intro l
  induction l with
  | nil => intro n j _ h; simp at h
  | cons s l ih =>
    intro n j hn hl
    by_cases hjn : j = n
    · subst hjn
      simp only [Nat.sub_self, List.modify_zero_cons, List.zipIdx_cons, List.flatMap_cons]
      intro t
      simp only [coeff_append, embedBond_append]
      rw [add_assoc, add_assoc, add_comm (coeff (embedBond L j x) t)]
    · have : j - n = (j - (n + 1)) + 1 := by omega
      rw [this]
      simp only [List.modify_succ_cons, List.zipIdx_cons, List.flatMap_cons]
      intro t
      have h2 := ih (n + 1) j (by omega) (by simp at hl; omega) t
      simp only [coeff_append] at h2 ⊢
      rw [h2, add_assoc]

theorem addAt_length (b : Bonds α) (j : Nat) (x : Sym α) : (b.addAt j x).length = b.length := by
  simp [Bonds.addAt]

end
end TenpyModel.Ops

namespace TenpyModel.Ops
section
variable {α : Type} [Semiring α]

theorem idStr_append_one (n : Nat) : idStr n ++ ["Id"] = idStr (n + 1) := by
  simp [idStr, List.replicate_succ']

theorem embed_left (L j : Nat) (h1 : 1 ≤ j) (d : Dict String α) (c : α) :
    embedBond L j (d.map (fun q => (["Id", q.1], c * q.2))) = d.map (fun q => (onsiteStr L j q.1, c * q.2)) := by
  unfold embedBond onsiteStr
  rw [List.map_map]
  apply List.map_congr_left
  intro q _
  simp only [Function.comp]
  have : idStr (j - 1) ++ ["Id", q.1] = idStr j ++ [q.1] := by
    have e : j = (j - 1) + 1 := by omega
    conv_rhs => rw [e, ← idStr_append_one]
    simp
  rw [this]
  simp

theorem embed_right (L j : Nat) (h : j + 1 < L) (d : Dict String α) (c : α) :
    embedBond L (j + 1) (d.map (fun q => ([q.1, "Id"], c * q.2))) = d.map (fun q => (onsiteStr L j q.1, c * q.2)) := by
  unfold embedBond onsiteStr
  rw [List.map_map]
  apply List.map_congr_left
  intro q _
  simp only [Function.comp, Nat.add_sub_cancel]
  have e : L - j - 1 = (L - (j + 1) - 1) + 1 := by omega
  rw [e, idStr_succ]
  simp

end
end TenpyModel.Ops

namespace TenpyModel.Ops
section
variable {α : Type} [Semiring α] [DecidableEq α]

def bondStep (half : α) (N : Nat) (b : Bonds α) (p : Dict String α × Nat) : Bonds α :=
  if p.1.isEmpty then b else
    let dLR : α × α := if p.2 = 0 then (0, 1) else if p.2 = N - 1 then (1, 0) else (half, half)
    let b1 := if dLR.1 ≠ 0 then b.addAt p.2 (p.1.map (fun q => (["Id", q.1], dLR.1 * q.2))) else b
    if dLR.2 ≠ 0 then b1.addAt ((p.2 + 1) % N) (p.1.map (fun q => ([q.1, "Id"], dLR.2 * q.2))) else b1

theorem addToNNBonds_eq (ot : OnsiteTerms α) (half : α) (b : Bonds α) :
    ot.addToNNBonds half true b = (ot.terms.zipIdx).foldl (bondStep half ot.L) b := by
  unfold OnsiteTerms.addToNNBonds
  apply List.foldl_ext
  intro b p _
  obtain ⟨d, j⟩ := p
  simp only [bondStep, Bool.true_and, decide_eq_true_eq]

end
end TenpyModel.Ops

namespace TenpyModel.Ops
section
variable {α : Type} [Semiring α] [DecidableEq α]

theorem coeff_map_add_scale (d : Dict String α) (f : String → OpStr) (c c' : α) (t : OpStr) :
    coeff (d.map (fun q => (f q.1, c * q.2))) t + coeff (d.map (fun q => (f q.1, c' * q.2))) t
      = coeff (d.map (fun q => (f q.1, (c + c') * q.2))) t := by
  induction d with
  | nil => simp
  | cons q d ih =>
    simp only [List.map_cons, coeff_cons]
    split
    · rw [← ih, add_mul]
      rw [add_add_add_comm]
    · exact ih

theorem bondStep_spec (half : α) (hh : half + half = 1) (h10 : (1 : α) ≠ 0) (hh0 : half ≠ 0) (L : Nat)
    (hL : 2 ≤ L) (b : Bonds α) (hb : b.length = L) (d : Dict String α) (j : Nat) (hj : j < L) :
    (bondStep half L b (d, j)).length = L ∧
    Sym.Equiv (Bonds.denote L (bondStep half L b (d, j)))
      (Bonds.denote L b ++ d.map (fun q => (onsiteStr L j q.1, q.2))) := by
  by_cases he : d.isEmpty
  · have : d = [] := List.isEmpty_iff.1 he
    subst this
    simp only [bondStep, List.isEmpty_nil, if_true]
    exact ⟨hb, by simpa using Sym.Equiv.refl _⟩
  · by_cases h0 : j = 0
    · subst h0
      have hstep : bondStep half L b (d, 0) = b.addAt 1 (d.map (fun q => ([q.1, "Id"], 1 * q.2))) := by
        have hm : (0 + 1) % L = 1 := Nat.mod_eq_of_lt (by omega)
        simp [bondStep, he, h10, hm]
      rw [hstep]
      refine ⟨by rw [addAt_length]; exact hb, ?_⟩
      refine (bonds_addAt L b 1 (le_refl 1) (by omega) _).trans (Sym.Equiv.append (Sym.Equiv.refl _) ?_)
      have := embed_right L 0 (by omega) d (1 : α)
      simp only [Nat.zero_add] at this
      rw [this]
      simp only [one_mul]
      exact Sym.Equiv.refl _
    · by_cases h1 : j = L - 1
      · have hstep : bondStep half L b (d, j) = b.addAt j (d.map (fun q => (["Id", q.1], 1 * q.2))) := by
          have h1' : (j = L - 1) = True := eq_true h1
          simp [bondStep, he, h0, h1', h10]
        rw [hstep]
        refine ⟨by rw [addAt_length]; exact hb, ?_⟩
        refine (bonds_addAt L b j (by omega) (by omega) _).trans (Sym.Equiv.append (Sym.Equiv.refl _) ?_)
        rw [embed_left L j (by omega) d (1 : α)]
        simp only [one_mul]
        exact Sym.Equiv.refl _
      · have hstep : bondStep half L b (d, j) =
            (b.addAt j (d.map (fun q => (["Id", q.1], half * q.2)))).addAt (j + 1)
              (d.map (fun q => ([q.1, "Id"], half * q.2))) := by
          have hm : (j + 1) % L = j + 1 := Nat.mod_eq_of_lt (by omega)
          simp [bondStep, he, h0, h1, hh0, hm]
        rw [hstep]
        refine ⟨by rw [addAt_length, addAt_length]; exact hb, ?_⟩
        have e1 := bonds_addAt L (b.addAt j (d.map (fun q => (["Id", q.1], half * q.2)))) (j + 1) (by omega)
          (by rw [addAt_length]; omega) (d.map (fun q => ([q.1, "Id"], half * q.2)))
        have e2 := bonds_addAt L b j (by omega) (by omega) (d.map (fun q => (["Id", q.1], half * q.2)))
        refine e1.trans ?_
        rw [embed_right L j (by omega) d half]
        refine (Sym.Equiv.append e2 (Sym.Equiv.refl _)).trans ?_
        rw [embed_left L j (by omega) d half, List.append_assoc]
        apply Sym.Equiv.append (Sym.Equiv.refl _)
        intro t
        rw [coeff_append, coeff_map_add_scale d (onsiteStr L j) half half t, hh]
        simp only [one_mul]

end
end TenpyModel.Ops

namespace TenpyModel.Ops
section
variable {α : Type} [Semiring α] [DecidableEq α]

theorem onsite_bonds_fold (half : α) (hh : half + half = 1) (h10 : (1 : α) ≠ 0) (hh0 : half ≠ 0) (L : Nat)
    (hL : 2 ≤ L) (l : List (Dict String α)) (n : Nat) (hn : n + l.length ≤ L) (b : Bonds α) (hb : b.length = L) :
    ((l.zipIdx n).foldl (bondStep half L) b).length = L ∧
    Sym.Equiv (Bonds.denote L ((l.zipIdx n).foldl (bondStep half L) b))
      (Bonds.denote L b ++ (l.zipIdx n).flatMap (fun p => p.1.map (fun q => (onsiteStr L p.2 q.1, q.2)))) := by
  induction l generalizing n b with
  | nil => exact ⟨hb, by simpa using Sym.Equiv.refl _⟩
  | cons d l ih =>
    simp only [List.zipIdx_cons, List.foldl_cons, List.flatMap_cons]
    have hlen : n + 1 + l.length ≤ L := by simp at hn; omega
    obtain ⟨s1, s2⟩ := bondStep_spec half hh h10 hh0 L hL b hb d n (by simp at hn; omega)
    obtain ⟨r1, r2⟩ := ih (n + 1) hlen (bondStep half L b (d, n)) s1
    refine ⟨r1, ?_⟩
    refine r2.trans ?_
    rw [← List.append_assoc]
    exact Sym.Equiv.append s2 (Sym.Equiv.refl _)

/-- `add_to_nn_bond_Arrays`: the onsite terms, distributed 1/2–1/2 in the bulk and entirely onto the
only neighbouring bond at the two ends, add up to the onsite part of the operator -/
theorem onsite_bonds (ot : OnsiteTerms α) (hlen : ot.terms.length = ot.L) (hL : 2 ≤ ot.L) (half : α)
    (hh : half + half = 1) (h10 : (1 : α) ≠ 0) (hh0 : half ≠ 0) (b : Bonds α) (hb : b.length = ot.L) :
    (ot.addToNNBonds half true b).length = ot.L ∧
    Sym.Equiv (Bonds.denote ot.L (ot.addToNNBonds half true b)) (Bonds.denote ot.L b ++ ot.denote) := by
  rw [addToNNBonds_eq]
  exact onsite_bonds_fold half hh h10 hh0 ot.L hL ot.terms 0 (by omega) b hb

end
end TenpyModel.Ops

namespace TenpyModel.Ops
section
variable {α : Type} [Semiring α]

/-- entries in the order of `to_TermList` -/
def CouplingTerms.sortedEntries (ct : CouplingTerms α) : List (Int × String × String × Int × String × α) :=
  (Dict.sortedItems intLt ct.terms).flatMap (fun p1 =>
    (Dict.sortedItems pairLt p1.2).flatMap (fun p2 =>
      (Dict.sortedItems intLt p2.2).flatMap (fun p3 =>
        (Dict.sortedItems strLt p3.2).map (fun p4 => (p1.1, p2.1.1, p2.1.2, p3.1, p4.1, p4.2)))))

def entryTerm (e : Int × String × String × Int × String × α) : List SOp × α :=
  ([⟨e.2.1, e.1, e.2.2.1⟩, ⟨e.2.2.2.2.1, e.2.2.2.1, ""⟩], e.2.2.2.2.2)

theorem toTermListS_eq (ct : CouplingTerms α) : ct.toTermListS = ct.sortedEntries.map entryTerm := by
  unfold CouplingTerms.toTermListS CouplingTerms.sortedEntries entryTerm
  simp only [List.map_flatMap, List.map_map]
  rfl

theorem mem_sortedEntries (Q : Int → Int → Prop) (ct : CouplingTerms α) (h : ct.WFP Q)
    (e : Int × String × String × Int × String × α) (he : e ∈ ct.sortedEntries) : Q e.1 e.2.2.2.1 := by
  unfold CouplingTerms.sortedEntries at he
  obtain ⟨p1, hp1, he⟩ := List.mem_flatMap.1 he
  obtain ⟨p2, hp2, he⟩ := List.mem_flatMap.1 he
  obtain ⟨p3, hp3, he⟩ := List.mem_flatMap.1 he
  obtain ⟨p4, _, rfl⟩ := List.mem_map.1 he
  have m1 : p1 ∈ ct.terms := (Dict.sortedItems_perm intLt ct.terms h.1).subset hp1
  have m2 : p2 ∈ p1.2 := (Dict.sortedItems_perm pairLt p1.2 (h.2 p1 m1).1).subset hp2
  have m3 : p3 ∈ p2.2 := (Dict.sortedItems_perm intLt p2.2 ((h.2 p1 m1).2 p2 m2).2.1).subset hp3
  exact (((h.2 p1 m1).2 p2 m2).2.2 p3 m3).1

def nnStep (L : Nat) (ob : Option (Bonds α)) (t : List SOp × α) : Option (Bonds α) :=
  match ob, t.1 with
  | some b, [o1, o2] =>
    if o1.site + 1 = o2.site then some (b.addAt (o2.site.emod L).toNat [([o1.op, o2.op], t.2)])
    else none
  | _, _ => none

theorem toNNBonds_eq (ct : CouplingTerms α) :
    ct.toNNBonds = ct.toTermListS.foldl (nnStep ct.L) (some (List.replicate ct.L [])) := rfl

theorem nn_fold (L : Nat) (es : List (Int × String × String × Int × String × α))
    (hes : ∀ e ∈ es, 0 ≤ e.1 ∧ e.2.2.2.1 = e.1 + 1 ∧ e.2.2.2.1 < (L : Int)) (b : Bonds α) (hb : b.length = L) :
    ∃ b', (es.map entryTerm).foldl (nnStep L) (some b) = some b' ∧ b'.length = L ∧
      Sym.Equiv (Bonds.denote L b') (Bonds.denote L b ++
        es.map (fun e => (couplingStr L e.1.toNat e.2.2.2.1.toNat e.2.1 e.2.2.1 e.2.2.2.2.1, e.2.2.2.2.2))) := by
  induction es generalizing b with
  | nil => exact ⟨b, rfl, hb, by simpa using Sym.Equiv.refl _⟩
  | cons e es ih =>
    obtain ⟨h0, h1, h2⟩ := hes e List.mem_cons_self
    obtain ⟨i, opi, str, j, opj, s⟩ := e
    simp only at h0 h1 h2
    have hj : (j.emod L).toNat = j.toNat := by
      have : j.emod (L : Int) = j := Int.emod_eq_of_lt (by omega) h2
      rw [this]
    have hstep : nnStep L (some b) (entryTerm (i, opi, str, j, opj, s))
        = some (b.addAt j.toNat [([opi, opj], s)]) := by
      simp only [nnStep, entryTerm]
      rw [if_pos h1.symm, hj]
    simp only [List.map_cons, List.foldl_cons, hstep]
    obtain ⟨b', e1, e2, e3⟩ := ih (fun e' he' => hes e' (List.mem_cons_of_mem _ he'))
      (b.addAt j.toNat [([opi, opj], s)]) (by rw [addAt_length]; exact hb)
    refine ⟨b', e1, e2, e3.trans ?_⟩
    rw [show ∀ (x : OpStr × α) (l : Sym α), Bonds.denote L b ++ x :: l = (Bonds.denote L b ++ [x]) ++ l from
      fun x l => by simp]
    apply Sym.Equiv.append _ (Sym.Equiv.refl _)
    refine (bonds_addAt L b j.toNat (by omega) (by omega) _).trans
      (Sym.Equiv.append (Sym.Equiv.refl _) ?_)
    have : embedBond L j.toNat [([opi, opj], s)] = [(couplingStr L i.toNat j.toNat opi str opj, s)] := by
      have e1 : j.toNat - 1 = i.toNat := by omega
      have e2 : j.toNat - i.toNat - 1 = 0 := by omega
      simp [embedBond, couplingStr, e1, e2]
    rw [this]
    exact Sym.Equiv.refl _

end
end TenpyModel.Ops

namespace TenpyModel.Ops
section
variable {α : Type} [Semiring α]

theorem denote_replicate_nil (L : Nat) : Bonds.denote (α := α) L (List.replicate L []) = [] := by
  unfold Bonds.denote
  rw [List.flatMap_eq_nil_iff]
  intro p hp
  have := (List.mem_zipIdx (List.mem_of_mem_drop hp)).2.2
  simp at this
  simp [this, embedBond]

/-- `to_nn_bond_Arrays`: for nearest-neighbour couplings the bond operators exist and add up to the
coupling part of the operator -/
theorem coupling_bonds (ct : CouplingTerms α) (L : Nat) (hL : ct.L = L)
    (h : ct.WFP (fun i j => 0 ≤ i ∧ j = i + 1 ∧ j < (L : Int))) :
    ∃ b, ct.toNNBonds = some b ∧ b.length = L ∧ Sym.Equiv (Bonds.denote L b) ct.denote := by
  have hes : ∀ e ∈ ct.sortedEntries, 0 ≤ e.1 ∧ e.2.2.2.1 = e.1 + 1 ∧ e.2.2.2.1 < (L : Int) :=
    fun e he => mem_sortedEntries _ ct h e he
  obtain ⟨b', e1, e2, e3⟩ := nn_fold L ct.sortedEntries hes (List.replicate L []) (by simp)
  refine ⟨b', ?_, e2, ?_⟩
  · rw [toNNBonds_eq, toTermListS_eq, hL]; exact e1
  · refine e3.trans ?_
    rw [denote_replicate_nil, List.nil_append]
    have hwf : ct.WF := CouplingTerms.WF_of_WF' ct
      (CouplingTerms.WFP_mono (fun i j hq => by omega) ct h)
    refine Sym.Equiv.trans ?_ (CouplingTerms.termlist_equiv ct hwf)
    rw [toTermListS_eq, hL]
    unfold STermList.denote
    rw [List.map_map]
    apply Sym.Equiv.of_perm
    apply List.Perm.of_eq
    apply List.map_congr_left
    intro e he
    have := hes e he
    simp only [Function.comp, entryTerm]
    rw [stermStr_pair L e.1 e.2.2.2.1 (by omega)]

end
end TenpyModel.Ops
