import TenpyModel.C10.P2_MT10
/-!
# C10 / Props2 (`MultiCouplingTerms.to_TermList`), part 5: any sequence of valid calls satisfying `SwitchOpOK`
-/
namespace TenpyModel.Ops

open MultiCouplingTerms

section
variable {α : Type} [AddCommMonoid α]

theorem SwInv.add {mt : MultiCouplingTerms α} (h : MInv mt) (hs : SwInv mt) (s : α) (ijkl : List Int)
    (ops strs : List String) (sw : Switch) (hc : MultiCallOK mt.L ijkl ops strs sw)
    (hsw : SwitchOpOK ijkl ops strs sw) : SwInv (mt.add s ijkl ops strs sw) := by
  have hsh : ijkl.getLastD 0 - pymod (ijkl.getLastD 0) mt.L = 0 := by
    obtain ⟨_, _, _, _, h0, hlo, hhi, hL⟩ := hc
    exact shift_zero mt.L _ (by omega) hL
  rw [add_eq, hsh]
  exact SwInv.insert h hs _ _ _ (call_swCond mt.L s ijkl ops strs sw hc hsw)

theorem addCalls_swInv (L : Nat) : ∀ (calls : List (α × List Int × List String × List String × Switch))
    (mt : MultiCouplingTerms α),
    (∀ c ∈ calls, MultiCallOK L c.2.1 c.2.2.1 c.2.2.2.1 c.2.2.2.2) →
    (∀ c ∈ calls, SwitchOpOK c.2.1 c.2.2.1 c.2.2.2.1 c.2.2.2.2) → mt.L = L → MInv mt → SwInv mt →
    SwInv (addCalls mt calls) := by
  intro calls
  induction calls with
  | nil => intro mt _ _ _ _ hs; exact hs
  | cons c calls ih =>
    intro mt h hsw hL hinv hs
    have hc := h c List.mem_cons_self
    rw [← hL] at hc
    obtain ⟨hinv', hL'⟩ := hinv.add c.1 c.2.1 c.2.2.1 c.2.2.2.1 c.2.2.2.2 hc
    exact ih (mt.add c.1 c.2.1 c.2.2.1 c.2.2.2.1 c.2.2.2.2)
      (fun c' hc' => h c' (List.mem_cons_of_mem _ hc')) (fun c' hc' => hsw c' (List.mem_cons_of_mem _ hc'))
      (hL'.trans hL) hinv' (hs.add hinv c.1 c.2.1 c.2.2.1 c.2.2.2.1 c.2.2.2.2 hc (hsw c List.mem_cons_self))

end

end TenpyModel.Ops
