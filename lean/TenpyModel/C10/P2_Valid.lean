import Mathlib.Tactic.Linarith
import TenpyModel.C10.P2_MultiDefs
/-!
# C10 / Props2: python's argument checks of `add_multi_coupling_term` (`addValid`) imply `MultiCallOK`
-/
namespace TenpyModel.Ops

theorem pairwise_of_zip_all : ∀ (l : List Int), (l.zip (l.drop 1)).all (fun p => decide (p.1 < p.2)) = true →
    l.Pairwise (· < ·) := by
  intro l
  induction l with
  | nil => intro _; exact List.Pairwise.nil
  | cons a l ih =>
    intro h
    cases l with
    | nil => exact List.pairwise_singleton _ _
    | cons b rest =>
      simp only [List.drop_succ_cons, List.drop_zero, List.zip_cons_cons, List.all_cons, Bool.and_eq_true,
        decide_eq_true_eq] at h
      have hp : (b :: rest).Pairwise (· < ·) := ih (by simpa using h.2)
      rw [List.pairwise_cons]
      refine ⟨?_, hp⟩
      intro x hx
      rcases List.mem_cons.1 hx with rfl | hx
      · exact h.1
      · exact lt_trans h.1 ((List.pairwise_cons.1 hp).1 x hx)

/-- the checks of `add_multi_coupling_term` plus "the last site is inside the finite chain" -/
theorem multiCallOK_of_addValid {α : Type} (L : Nat) (mt : MultiCouplingTerms α) (_hL : mt.L = L)
    (ijkl : List Int) (ops strs : List String) (sw : MultiCouplingTerms.Switch)
    (h : mt.addValid ijkl ops strs sw = true) (hlast : ijkl.getLastD 0 < (L : Int)) :
    MultiCallOK L ijkl ops strs sw := by
  unfold MultiCouplingTerms.addValid at h
  simp only [Bool.and_eq_true, decide_eq_true_eq, beq_iff_eq] at h
  obtain ⟨⟨⟨⟨⟨⟨⟨h1, h2⟩, h3⟩, h4⟩, h5⟩, h6⟩, h7⟩, _⟩ := h
  exact ⟨h1, h2, h3, pairwise_of_zip_all ijkl h4, h5, h6, h7, hlast⟩

end TenpyModel.Ops
