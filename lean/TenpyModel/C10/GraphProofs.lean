import Mathlib.Data.List.Perm.Basic
import TenpyModel.Ops.PathProofs
import TenpyModel.Ops.GraphSpec
import TenpyModel.C10.TermsProofs
/-!
# C10: the closed form of the MPO graph (`GraphSpec.specLayers`) denotes the sum of the onsite and
coupling terms — path sums evaluated from the right end of the chain
-/
namespace TenpyModel.Ops

section congr
variable {α : Type} [Semiring α]

theorem Sym.Equiv.consOp (op : String) (c : α) {a b : Sym α} (h : Sym.Equiv a b) :
    Sym.Equiv (Sym.consOp op c a) (Sym.consOp op c b) := by
  intro t
  cases t with
  | nil => rw [coeff_consOp_nil, coeff_consOp_nil]
  | cons o t => rw [coeff_consOp_cons, coeff_consOp_cons, h t]

theorem Sym.Equiv.flatMap_congr {β : Type} (l : List β) (f g : β → Sym α)
    (h : ∀ x ∈ l, Sym.Equiv (f x) (g x)) : Sym.Equiv (l.flatMap f) (l.flatMap g) := by
  intro t
  rw [coeff_flatMap, coeff_flatMap]
  congr 1
  apply List.map_congr_left
  intro x hx
  exact h x hx t

theorem Sym.Equiv.flatMap_append {β : Type} (l : List β) (f g : β → Sym α) :
    Sym.Equiv (l.flatMap (fun x => f x ++ g x)) (l.flatMap f ++ l.flatMap g) := by
  intro t
  rw [coeff_append, coeff_flatMap, coeff_flatMap, coeff_flatMap]
  induction l with
  | nil => simp
  | cons x l ih =>
    simp only [List.map_cons, List.sum_cons, coeff_append] at ih ⊢
    rw [ih, add_add_add_comm]

theorem consOp_append (op : String) (c : α) (a b : Sym α) :
    Sym.consOp op c (a ++ b) = Sym.consOp op c a ++ Sym.consOp op c b := by
  simp [Sym.consOp]

theorem consOp_flatMap {β : Type} (op : String) (c : α) (l : List β) (f : β → Sym α) :
    Sym.consOp op c (l.flatMap f) = l.flatMap (fun x => Sym.consOp op c (f x)) := by
  simp [Sym.consOp, List.map_flatMap]

theorem consOp_nil (op : String) (c : α) : Sym.consOp op c ([] : Sym α) = [] := rfl

theorem consOp_singleton (op : String) (c : α) (u : OpStr) (d : α) :
    Sym.consOp op c [(u, d)] = [(op :: u, c * d)] := rfl

/-- only one element of the list contributes -/
theorem flatMap_eq_single {β : Type} [DecidableEq β] (l : List β) (a : β) (f : β → Sym α)
    (ha : a ∈ l) (hnd : l.Nodup) (hf : ∀ x ∈ l, x ≠ a → f x = []) : Sym.Equiv (l.flatMap f) (f a) := by
  induction l with
  | nil => simp at ha
  | cons x l ih =>
    rw [List.nodup_cons] at hnd
    intro t
    rw [List.flatMap_cons, coeff_append]
    by_cases hx : x = a
    · subst hx
      have : l.flatMap f = [] := by
        rw [List.flatMap_eq_nil_iff]
        intro y hy
        exact hf y (List.mem_cons_of_mem _ hy) (fun e => hnd.1 (e ▸ hy))
      rw [this, coeff_nil, add_zero]
    · rw [hf x List.mem_cons_self hx, coeff_nil, zero_add]
      have ha' : a ∈ l := by
        rcases List.mem_cons.1 ha with e | h'
        · exact absurd e.symm hx
        · exact h'
      exact ih ha' hnd.2 (fun y hy => hf y (List.mem_cons_of_mem _ hy)) t

end congr
end TenpyModel.Ops
