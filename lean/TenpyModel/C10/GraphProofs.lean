import Mathlib.Data.List.Perm.Basic
import TenpyModel.Ops.PathProofs
import TenpyModel.Ops.GraphSpec
import TenpyModel.C10.TermsProofs
/-!
# C10: the closed form of the MPO graph (`GraphSpec.specLayers`) denotes the sum of the onsite and
coupling terms — path sums evaluated from the right end of the chain
-/
namespace TenpyModel.Ops

section congr
variable {α : Type} [Semiring α]

theorem Sym.Equiv.consOp (op : String) (c : α) {a b : Sym α} (h : Sym.Equiv a b) :
    Sym.Equiv (Sym.consOp op c a) (Sym.consOp op c b) := by
  intro t
  cases t with
  | nil => rw [coeff_consOp_nil, coeff_consOp_nil]
  | cons o t => rw [coeff_consOp_cons, coeff_consOp_cons, h t]

theorem Sym.Equiv.flatMap_congr {β : Type} (l : List β) (f g : β → Sym α)
    (h : ∀ x ∈ l, Sym.Equiv (f x) (g x)) : Sym.Equiv (l.flatMap f) (l.flatMap g) := by
  intro t
  rw [coeff_flatMap, coeff_flatMap]
  congr 1
  apply List.map_congr_left
  intro x hx
  exact h x hx t

theorem Sym.Equiv.flatMap_append {β : Type} (l : List β) (f g : β → Sym α) :
    Sym.Equiv (l.flatMap (fun x => f x ++ g x)) (l.flatMap f ++ l.flatMap g) := by
  intro t
  rw [coeff_append, coeff_flatMap, coeff_flatMap, coeff_flatMap]
  induction l with
  | nil => simp
  | cons x l ih =>
    simp only [List.map_cons, List.sum_cons, coeff_append] at ih ⊢
    rw [ih, add_add_add_comm]

theorem consOp_append (op : String) (c : α) (a b : Sym α) :
    Sym.consOp op c (a ++ b) = Sym.consOp op c a ++ Sym.consOp op c b := by
  simp [Sym.consOp]

theorem consOp_flatMap {β : Type} (op : String) (c : α) (l : List β) (f : β → Sym α) :
    Sym.consOp op c (l.flatMap f) = l.flatMap (fun x => Sym.consOp op c (f x)) := by
  simp [Sym.consOp, List.map_flatMap]

theorem consOp_nil (op : String) (c : α) : Sym.consOp op c ([] : Sym α) = [] := rfl

theorem consOp_singleton (op : String) (c : α) (u : OpStr) (d : α) :
    Sym.consOp op c [(u, d)] = [(op :: u, c * d)] := rfl

/-- only one element of the list contributes -/
theorem flatMap_eq_single {β : Type} [DecidableEq β] (l : List β) (a : β) (f : β → Sym α)
    (ha : a ∈ l) (hnd : l.Nodup) (hf : ∀ x ∈ l, x ≠ a → f x = []) : Sym.Equiv (l.flatMap f) (f a) := by
  induction l with
  | nil => simp at ha
  | cons x l ih =>
    rw [List.nodup_cons] at hnd
    intro t
    rw [List.flatMap_cons, coeff_append]
    by_cases hx : x = a
    · subst hx
      have : l.flatMap f = [] := by
        rw [List.flatMap_eq_nil_iff]
        intro y hy
        exact hf y (List.mem_cons_of_mem _ hy) (fun e => hnd.1 (e ▸ hy))
      rw [this, coeff_nil, add_zero]
    · rw [hf x List.mem_cons_self hx, coeff_nil, zero_add]
      have ha' : a ∈ l := by
        rcases List.mem_cons.1 ha with e | h'
        · exact absurd e.symm hx
        · exact h'
      exact ih ha' hnd.2 (fun y hy => hf y (List.mem_cons_of_mem _ hy)) t

end congr
end TenpyModel.Ops

namespace TenpyModel.Ops
section spec
variable {α : Type} [Semiring α]

/-- strings of the couplings of a block that end at sites `≥ k`, read from site `k` on, for a chain that
is already inside the block (`i < k`): `str^(j-k) ⊗ op_j ⊗ Id^(L-j-1)` -/
def Block.tail (b : Block α) (L k : Nat) : Sym α :=
  b.d2.flatMap (fun p => if (k : Int) ≤ p.1 then
    p.2.map (fun q => (List.replicate (p.1.toNat - k) b.str ++ q.1 :: idStr (L - p.1.toNat - 1), q.2)) else [])

/-- all couplings of a block that starts at a site `≥ k`, read from site `k` on -/
def Block.termsFrom (b : Block α) (L k : Nat) : Sym α :=
  if (k : Int) ≤ b.i then
    b.d2.flatMap (fun p => p.2.map (fun q =>
      (idStr (b.i.toNat - k) ++ b.opi :: (List.replicate (p.1.toNat - b.i.toNat - 1) b.str
        ++ q.1 :: idStr (L - p.1.toNat - 1)), q.2)))
  else []

def blocksFrom (ct : CouplingTerms α) (L k : Nat) : Sym α := ct.blocks.flatMap (fun b => b.termsFrom L k)

/-- onsite terms on sites `≥ k`, read from site `k` on -/
def onsiteFrom (ot : OnsiteTerms α) (L k : Nat) : Sym α :=
  (List.range' k (L - k)).flatMap (fun i =>
    (ot.terms.getD i []).map (fun q => (idStr (i - k) ++ q.1 :: idStr (L - i - 1), q.2)))

structure GraphHyp (ot : OnsiteTerms α) (ct : CouplingTerms α) (L : Nat) : Prop where
  otLen : ot.terms.length = L
  labels : ct.blocks.Pairwise (fun b b' => b.label ≠ b'.label)
  valid : ∀ b ∈ ct.blocks, 0 ≤ b.i ∧ ∀ p ∈ b.d2, b.i < p.1 ∧ p.1 < (L : Int)

theorem label_ne_IdL (b : Block α) : b.label ≠ Key.IdL := by simp [Block.label, leftLabel, Key.IdL]
theorem label_ne_IdR (b : Block α) : b.label ≠ Key.IdR := by simp [Block.label, leftLabel, Key.IdR]
theorem IdL_ne_IdR : Key.IdL ≠ Key.IdR := by simp [Key.IdL, Key.IdR]

/-- path sum through one spec layer, split by the origin of the edges -/
theorem pathsFrom_specLayer (ot : OnsiteTerms α) (ct : CouplingTerms α) (k : Nat)
    (rest : List (List (Edge Key α))) (key : Key) :
    pathsFrom Key.IdR (specLayer ot ct k :: rest) key =
      (ot.terms.getD k []).flatMap (fun q =>
        if Key.IdL = key then Sym.consOp q.1 q.2 (pathsFrom Key.IdR rest Key.IdR) else []) ++
      (ct.blocks.flatMap (fun b => (b.edgesAt k).flatMap (fun e =>
        if e.kL = key then Sym.consOp e.op e.c (pathsFrom Key.IdR rest e.kR) else [])) ++
      ((if Key.IdL = key then Sym.consOp "Id" 1 (pathsFrom Key.IdR rest Key.IdL) else []) ++
       (if Key.IdR = key then Sym.consOp "Id" 1 (pathsFrom Key.IdR rest Key.IdR) else []))) := by
  rw [pathsFrom_cons, specLayer]
  simp only [List.flatMap_append, List.flatMap_map, List.flatMap_assoc, List.flatMap_cons,
    List.flatMap_nil, List.append_nil]

/-- the edges of one block, split into the three kinds -/
theorem edgesAt_flatMap (b : Block α) (k : Nat) (F : Edge Key α → Sym α) :
    (b.edgesAt k).flatMap F =
      (if b.i = (k : Int) then F ⟨Key.IdL, b.label, b.opi, 1⟩ else []) ++
      ((if b.i < (k : Int) ∧ (k : Int) < b.jmax then F ⟨b.label, b.label, b.str, 1⟩ else []) ++
      b.d2.flatMap (fun p => if p.1 = (k : Int)
        then p.2.flatMap (fun q => F ⟨b.label, Key.IdR, q.1, q.2⟩) else [])) := by
  unfold Block.edgesAt
  simp only [List.flatMap_append, List.flatMap_assoc]
  congr 1
  · split <;> simp
  · congr 1
    · split <;> simp
    · apply List.flatMap_congr
      intro p _
      split <;> simp [List.flatMap_map]

end spec
end TenpyModel.Ops

namespace TenpyModel.Ops
section blockparts
variable {α : Type} [Semiring α]

/-- contribution of the edges of block `b` on site `k` to the path sum starting in `key` -/
def blockPart (b : Block α) (k : Nat) (P : Key → Sym α) (key : Key) : Sym α :=
  (b.edgesAt k).flatMap (fun e => if e.kL = key then Sym.consOp e.op e.c (P e.kR) else [])

theorem blockPart_eq (b : Block α) (k : Nat) (P : Key → Sym α) (key : Key) :
    blockPart b k P key =
      (if b.i = (k : Int) then (if Key.IdL = key then Sym.consOp b.opi 1 (P b.label) else []) else []) ++
      ((if b.i < (k : Int) ∧ (k : Int) < b.jmax then
          (if b.label = key then Sym.consOp b.str 1 (P b.label) else []) else []) ++
       b.d2.flatMap (fun p => if p.1 = (k : Int) then
          p.2.flatMap (fun q => if b.label = key then Sym.consOp q.1 q.2 (P Key.IdR) else []) else [])) := by
  unfold blockPart
  rw [edgesAt_flatMap]

theorem blockPart_IdR (b : Block α) (k : Nat) (P : Key → Sym α) : blockPart b k P Key.IdR = [] := by
  rw [blockPart_eq]
  simp only [IdL_ne_IdR, label_ne_IdR, if_false, ite_self, List.nil_append]
  rw [List.flatMap_eq_nil_iff]
  intro p _
  split
  · rw [List.flatMap_eq_nil_iff]; intro q _; rfl
  · rfl

theorem blockPart_of_ne (b : Block α) (k : Nat) (P : Key → Sym α) (key : Key)
    (h1 : Key.IdL ≠ key) (h2 : b.label ≠ key) : blockPart b k P key = [] := by
  rw [blockPart_eq]
  simp only [h1, h2, if_false, ite_self, List.nil_append]
  rw [List.flatMap_eq_nil_iff]
  intro p _
  split
  · rw [List.flatMap_eq_nil_iff]; intro q _; rfl
  · rfl

theorem blockPart_IdL (b : Block α) (k : Nat) (P : Key → Sym α) :
    blockPart b k P Key.IdL = if b.i = (k : Int) then Sym.consOp b.opi 1 (P b.label) else [] := by
  rw [blockPart_eq]
  simp only [label_ne_IdL, if_false, if_true, ite_self, List.nil_append]
  have : b.d2.flatMap (fun p => if p.1 = (k : Int) then
      p.2.flatMap (fun _ => ([] : Sym α)) else []) = [] := by
    rw [List.flatMap_eq_nil_iff]
    intro p _
    split
    · rw [List.flatMap_eq_nil_iff]; intro q _; rfl
    · rfl
  rw [this, List.append_nil]

theorem blockPart_self (b : Block α) (k : Nat) (P : Key → Sym α) :
    blockPart b k P b.label =
      (if b.i < (k : Int) ∧ (k : Int) < b.jmax then Sym.consOp b.str 1 (P b.label) else []) ++
       b.d2.flatMap (fun p => if p.1 = (k : Int) then
          p.2.flatMap (fun q => Sym.consOp q.1 q.2 (P Key.IdR)) else []) := by
  rw [blockPart_eq]
  have h : Key.IdL ≠ b.label := fun e => label_ne_IdL b e.symm
  simp only [h, if_false, if_true, ite_self, List.nil_append]

end blockparts
end TenpyModel.Ops

namespace TenpyModel.Ops
section
variable {α : Type} [Semiring α]

theorem idStr_succ (n : Nat) : idStr (n + 1) = "Id" :: idStr n := by
  simp [idStr, List.replicate_succ]

theorem foldl_max_ge (l : List Int) (a : Int) : a ≤ l.foldl max a ∧ ∀ x ∈ l, x ≤ l.foldl max a := by
  induction l generalizing a with
  | nil => simp
  | cons y l ih =>
    simp only [List.foldl_cons, List.mem_cons]
    obtain ⟨h1, h2⟩ := ih (max a y)
    refine ⟨le_trans (le_max_left a y) h1, ?_⟩
    intro x hx
    rcases hx with rfl | hx
    · exact le_trans (le_max_right a x) h1
    · exact h2 x hx

theorem le_jmax (b : Block α) (p : Int × Dict String α) (hp : p ∈ b.d2) : p.1 ≤ b.jmax := by
  unfold Block.jmax
  exact (foldl_max_ge (Dict.keys b.d2) (b.i + 1)).2 p.1 (List.mem_map.2 ⟨p, hp, rfl⟩)

theorem map_eq_flatMap_singleton {β γ : Type} (l : List β) (f : β → γ) :
    l.map f = l.flatMap (fun x => [f x]) := by
  induction l with
  | nil => rfl
  | cons a l ih => simp [List.flatMap_cons, ih]

/-- `Block.tail` one site further to the left -/
theorem tail_step (b : Block α) (L k : Nat) (hbi : b.i < (k : Int)) :
    Sym.Equiv (b.tail L k)
      ((if b.i < (k : Int) ∧ (k : Int) < b.jmax then Sym.consOp b.str 1 (b.tail L (k + 1)) else []) ++
       b.d2.flatMap (fun p => if p.1 = (k : Int) then
         p.2.flatMap (fun q => Sym.consOp q.1 q.2 [(idStr (L - k - 1), (1 : α))]) else [])) := by
  -- the string part, written without the case distinction on `jmax`
  have hA : Sym.Equiv
      (if b.i < (k : Int) ∧ (k : Int) < b.jmax then Sym.consOp b.str 1 (b.tail L (k + 1)) else [])
      (b.d2.flatMap (fun p => if ((k + 1 : Nat) : Int) ≤ p.1 then
        p.2.map (fun q => (b.str :: (List.replicate (p.1.toNat - (k + 1)) b.str
          ++ q.1 :: idStr (L - p.1.toNat - 1)), 1 * q.2)) else [])) := by
    by_cases hj : (k : Int) < b.jmax
    · rw [if_pos ⟨hbi, hj⟩]
      unfold Block.tail
      rw [consOp_flatMap]
      apply Sym.Equiv.of_perm
      apply List.Perm.of_eq
      apply List.flatMap_congr
      intro p _
      split
      · simp [Sym.consOp, List.map_map, Function.comp_def]
      · rfl
    · rw [if_neg (fun h => hj h.2)]
      intro t
      rw [coeff_nil, coeff_flatMap]
      symm
      apply List.sum_eq_zero
      intro x hx
      obtain ⟨p, hp, rfl⟩ := List.mem_map.1 hx
      have := le_jmax b p hp
      rw [if_neg (by push_cast; omega)]
      rfl
  refine Sym.Equiv.trans ?_ (Sym.Equiv.append hA.symm (Sym.Equiv.refl _))
  refine Sym.Equiv.trans ?_ (Sym.Equiv.flatMap_append b.d2 _ _)
  unfold Block.tail
  apply Sym.Equiv.flatMap_congr
  intro p _
  by_cases h1 : p.1 = (k : Int)
  · have h2 : ¬ ((k + 1 : Nat) : Int) ≤ p.1 := by push_cast; omega
    have h3 : (k : Int) ≤ p.1 := by omega
    rw [if_pos h3, if_neg h2, if_pos h1, List.nil_append, map_eq_flatMap_singleton]
    apply Sym.Equiv.flatMap_congr
    intro q _
    have : p.1.toNat - k = 0 := by omega
    have e2 : L - p.1.toNat - 1 = L - k - 1 := by omega
    intro t
    simp [this, e2, Sym.consOp, coeff_singleton]
  · by_cases h3 : (k : Int) ≤ p.1
    · have h2 : ((k + 1 : Nat) : Int) ≤ p.1 := by push_cast; omega
      rw [if_pos h3, if_pos h2, if_neg h1, List.append_nil]
      apply Sym.Equiv.of_perm
      apply List.Perm.of_eq
      apply List.map_congr_left
      intro q _
      have : p.1.toNat - k = (p.1.toNat - (k + 1)) + 1 := by omega
      rw [this, List.replicate_succ, one_mul]
      rfl
    · have h2 : ¬ ((k + 1 : Nat) : Int) ≤ p.1 := by push_cast; omega
      rw [if_neg h3, if_neg h2, if_neg h1]
      exact Sym.Equiv.refl _

end
end TenpyModel.Ops

namespace TenpyModel.Ops
section
variable {α : Type} [Semiring α]

theorem onsite_step (ot : OnsiteTerms α) (L k : Nat) (hk : k < L) :
    Sym.Equiv (onsiteFrom ot L k)
      ((ot.terms.getD k []).flatMap (fun q => Sym.consOp q.1 q.2 [(idStr (L - k - 1), (1 : α))]) ++
        Sym.consOp "Id" 1 (onsiteFrom ot L (k + 1))) := by
  unfold onsiteFrom
  have hL : L - k = (L - (k + 1)) + 1 := by omega
  rw [hL, List.range'_succ, List.flatMap_cons]
  apply Sym.Equiv.append
  · rw [map_eq_flatMap_singleton]
    apply Sym.Equiv.flatMap_congr
    intro q _ t
    have e : L - k - 1 = L - (k + 1) := by omega
    simp [Sym.consOp, coeff_singleton, idStr, e]
  · rw [consOp_flatMap]
    apply Sym.Equiv.of_perm
    apply List.Perm.of_eq
    apply List.flatMap_congr
    intro i hi
    have hik : k + 1 ≤ i := (List.mem_range'_1.1 hi).1
    simp only [Sym.consOp, List.map_map, Function.comp_def, one_mul]
    apply List.map_congr_left
    intro q _
    have : i - k = (i - (k + 1)) + 1 := by omega
    rw [this, idStr_succ]
    rfl

end
end TenpyModel.Ops

namespace TenpyModel.Ops
section
variable {α : Type} [Semiring α]

theorem block_step (b : Block α) (L k : Nat) (h0 : 0 ≤ b.i) (hv : ∀ p ∈ b.d2, b.i < p.1) :
    Sym.Equiv (b.termsFrom L k)
      ((if b.i = (k : Int) then Sym.consOp b.opi 1 (b.tail L (k + 1)) else []) ++
        Sym.consOp "Id" 1 (b.termsFrom L (k + 1))) := by
  by_cases h1 : b.i = (k : Int)
  · have h2 : ¬ ((k + 1 : Nat) : Int) ≤ b.i := by push_cast; omega
    have h3 : (k : Int) ≤ b.i := by omega
    unfold Block.termsFrom Block.tail
    rw [if_pos h1, if_pos h3, if_neg h2, consOp_nil, List.append_nil, consOp_flatMap]
    apply Sym.Equiv.flatMap_congr
    intro p hp
    have hp1 : ((k + 1 : Nat) : Int) ≤ p.1 := by have := hv p hp; push_cast; omega
    rw [if_pos hp1]
    apply Sym.Equiv.of_perm
    apply List.Perm.of_eq
    simp only [Sym.consOp, List.map_map, Function.comp_def, one_mul]
    apply List.map_congr_left
    intro q _
    have e1 : b.i.toNat - k = 0 := by omega
    have e2 : p.1.toNat - b.i.toNat - 1 = p.1.toNat - (k + 1) := by omega
    simp [e1, e2, idStr]
  · by_cases h3 : (k : Int) ≤ b.i
    · have h2 : ((k + 1 : Nat) : Int) ≤ b.i := by push_cast; omega
      unfold Block.termsFrom
      rw [if_neg h1, if_pos h3, if_pos h2, List.nil_append, consOp_flatMap]
      apply Sym.Equiv.of_perm
      apply List.Perm.of_eq
      apply List.flatMap_congr
      intro p _
      simp only [Sym.consOp, List.map_map, Function.comp_def, one_mul]
      apply List.map_congr_left
      intro q _
      have e1 : b.i.toNat - k = (b.i.toNat - (k + 1)) + 1 := by omega
      rw [e1, idStr_succ]
      rfl
    · have h2 : ¬ ((k + 1 : Nat) : Int) ≤ b.i := by push_cast; omega
      unfold Block.termsFrom
      rw [if_neg h1, if_neg h3, if_neg h2]
      exact Sym.Equiv.refl _

theorem blocks_step (ct : CouplingTerms α) (L k : Nat)
    (hv : ∀ b ∈ ct.blocks, 0 ≤ b.i ∧ ∀ p ∈ b.d2, b.i < p.1 ∧ p.1 < (L : Int)) :
    Sym.Equiv (blocksFrom ct L k)
      (ct.blocks.flatMap (fun b => if b.i = (k : Int) then Sym.consOp b.opi 1 (b.tail L (k + 1)) else []) ++
        Sym.consOp "Id" 1 (blocksFrom ct L (k + 1))) := by
  unfold blocksFrom
  rw [consOp_flatMap]
  refine Sym.Equiv.trans ?_ (Sym.Equiv.flatMap_append ct.blocks _ _)
  apply Sym.Equiv.flatMap_congr
  intro b hb
  exact block_step b L k (hv b hb).1 (fun p hp => ((hv b hb).2 p hp).1)

end
end TenpyModel.Ops

namespace TenpyModel.Ops
section
variable {α : Type} [Semiring α]

/-- among blocks with pairwise distinct labels only `b` itself contributes to the sums from `b.label` -/
theorem flatMap_single_label (l : List (Block α)) (b : Block α) (f : Block α → Sym α)
    (hb : b ∈ l) (hpw : l.Pairwise (fun x y => x.label ≠ y.label))
    (hf : ∀ x ∈ l, x.label ≠ b.label → f x = []) : Sym.Equiv (l.flatMap f) (f b) := by
  induction l with
  | nil => simp at hb
  | cons x l ih =>
    rw [List.pairwise_cons] at hpw
    intro t
    rw [List.flatMap_cons, coeff_append]
    rcases List.mem_cons.1 hb with e | hb'
    · subst e
      have : l.flatMap f = [] := by
        rw [List.flatMap_eq_nil_iff]
        intro y hy
        exact hf y (List.mem_cons_of_mem _ hy) (fun e => hpw.1 y hy e.symm)
      rw [this, coeff_nil, add_zero]
    · have hx : x.label ≠ b.label := hpw.1 b hb'
      rw [hf x List.mem_cons_self hx, coeff_nil, zero_add]
      exact ih hb' hpw.2 (fun y hy => hf y (List.mem_cons_of_mem _ hy)) t

theorem flatMap_all_nil {β : Type} (l : List β) (f : β → Sym α) (h : ∀ x ∈ l, f x = []) :
    l.flatMap f = [] := List.flatMap_eq_nil_iff.2 h

theorem spec_suffix (ot : OnsiteTerms α) (ct : CouplingTerms α) (L : Nat) (h : GraphHyp ot ct L) :
    ∀ n k, k + n = L →
      Sym.Equiv (pathsFrom Key.IdR (specFrom ot ct k n) Key.IdR) [(idStr n, 1)] ∧
      (∀ b ∈ ct.blocks, b.i < (k : Int) →
        Sym.Equiv (pathsFrom Key.IdR (specFrom ot ct k n) b.label) (b.tail L k)) ∧
      Sym.Equiv (pathsFrom Key.IdR (specFrom ot ct k n) Key.IdL) (onsiteFrom ot L k ++ blocksFrom ct L k) := by
  intro n
  induction n with
  | zero =>
    intro k hk
    have hkL : k = L := by omega
    subst hkL
    refine ⟨?_, ?_, ?_⟩
    · simp [specFrom, idStr]; exact Sym.Equiv.refl _
    · intro b hb _
      have h1 : pathsFrom (α := α) Key.IdR (specFrom ot ct k 0) b.label = [] := by
        simp [specFrom, label_ne_IdR]
      have h2 : b.tail k k = [] := by
        unfold Block.tail
        apply flatMap_all_nil
        intro p hp
        have := ((h.valid b hb).2 p hp).2
        rw [if_neg (by omega)]
      rw [h1, h2]; exact Sym.Equiv.refl _
    · have h1 : pathsFrom (α := α) Key.IdR (specFrom ot ct k 0) Key.IdL = [] := by
        simp [specFrom, IdL_ne_IdR]
      have h2 : onsiteFrom ot k k = [] := by simp [onsiteFrom]
      have h3 : blocksFrom ct k k = [] := by
        unfold blocksFrom
        apply flatMap_all_nil
        intro b hb
        unfold Block.termsFrom
        split
        · next hc =>
          apply flatMap_all_nil
          intro p hp
          have := (h.valid b hb).2 p hp
          omega
        · rfl
      rw [h1, h2, h3]; exact Sym.Equiv.refl _
  | succ n ih =>
    intro k hk
    obtain ⟨ihR, ihLab, ihL⟩ := ih (k + 1) (by omega)
    have hkL : k < L := by omega
    have hn : L - k - 1 = n := by omega
    set P : Key → Sym α := pathsFrom Key.IdR (specFrom ot ct (k + 1) n) with hP
    have hspec : specFrom ot ct k (n + 1) = specLayer ot ct k :: specFrom ot ct (k + 1) n := rfl
    refine ⟨?_, ?_, ?_⟩
    · -- from IdR: only the IdR → IdR edge
      rw [hspec, pathsFrom_specLayer]
      have e1 : (ot.terms.getD k []).flatMap (fun q =>
          if Key.IdL = Key.IdR then Sym.consOp q.1 q.2 (P Key.IdR) else []) = [] := by
        apply flatMap_all_nil; intro q _; rw [if_neg IdL_ne_IdR]
      have e2 : ct.blocks.flatMap (fun b => (b.edgesAt k).flatMap (fun e =>
          if e.kL = Key.IdR then Sym.consOp e.op e.c (P e.kR) else [])) = [] := by
        apply flatMap_all_nil; intro b _; exact blockPart_IdR b k P
      rw [e1, e2, if_neg IdL_ne_IdR, if_pos rfl, List.nil_append, List.nil_append, List.nil_append]
      refine (Sym.Equiv.consOp "Id" 1 ihR).trans ?_
      rw [consOp_singleton, one_mul, idStr_succ]
      exact Sym.Equiv.refl _
    · -- from a label: the string edge and the closing edges of that block
      intro b hb hbi
      rw [hspec, pathsFrom_specLayer]
      have hL : Key.IdL ≠ b.label := fun e => label_ne_IdL b e.symm
      have hR : Key.IdR ≠ b.label := fun e => label_ne_IdR b e.symm
      have e1 : (ot.terms.getD k []).flatMap (fun q =>
          if Key.IdL = b.label then Sym.consOp q.1 q.2 (P Key.IdR) else []) = [] := by
        apply flatMap_all_nil; intro q _; rw [if_neg hL]
      rw [e1, if_neg hL, if_neg hR, List.nil_append, List.append_nil, List.append_nil]
      have e2 := flatMap_single_label ct.blocks b (fun b' => blockPart b' k P b.label) hb h.labels
        (fun x _ hx => blockPart_of_ne x k P b.label hL hx)
      refine Sym.Equiv.trans e2 ?_
      rw [blockPart_self]
      refine Sym.Equiv.trans ?_ (tail_step b L k hbi).symm
      apply Sym.Equiv.append
      · by_cases hc : b.i < (k : Int) ∧ (k : Int) < b.jmax
        · rw [if_pos hc, if_pos hc]
          exact Sym.Equiv.consOp _ _ (ihLab b hb (by push_cast; omega))
        · rw [if_neg hc, if_neg hc]; exact Sym.Equiv.refl _
      · apply Sym.Equiv.flatMap_congr
        intro p _
        split
        · apply Sym.Equiv.flatMap_congr
          intro q _
          rw [hn]
          exact Sym.Equiv.consOp _ _ ihR
        · exact Sym.Equiv.refl _
    · -- from IdL: stay, an onsite term, or open a block
      rw [hspec, pathsFrom_specLayer]
      rw [if_pos rfl, if_neg (fun e => IdL_ne_IdR e.symm), List.append_nil]
      have e1 : Sym.Equiv ((ot.terms.getD k []).flatMap (fun q =>
          if Key.IdL = Key.IdL then Sym.consOp q.1 q.2 (P Key.IdR) else []))
          ((ot.terms.getD k []).flatMap (fun q => Sym.consOp q.1 q.2 [(idStr (L - k - 1), (1 : α))])) := by
        apply Sym.Equiv.flatMap_congr
        intro q _
        rw [if_pos rfl, hn]
        exact Sym.Equiv.consOp _ _ ihR
      have e2 : Sym.Equiv (ct.blocks.flatMap (fun b => (b.edgesAt k).flatMap (fun e =>
          if e.kL = Key.IdL then Sym.consOp e.op e.c (P e.kR) else [])))
          (ct.blocks.flatMap (fun b => if b.i = (k : Int) then Sym.consOp b.opi 1 (b.tail L (k + 1)) else [])) := by
        apply Sym.Equiv.flatMap_congr
        intro b hb
        have := blockPart_IdL b k P
        unfold blockPart at this
        rw [this]
        split
        · next hc => exact Sym.Equiv.consOp _ _ (ihLab b hb (by push_cast; omega))
        · exact Sym.Equiv.refl _
      have e3 := Sym.Equiv.consOp "Id" (1 : α) ihL
      refine Sym.Equiv.trans (Sym.Equiv.append e1 (Sym.Equiv.append e2 e3)) ?_
      rw [consOp_append]
      have o := onsite_step ot L k hkL
      have bs := blocks_step ct L k h.valid
      refine Sym.Equiv.trans ?_ (Sym.Equiv.append o bs).symm
      intro t
      simp only [coeff_append]
      ac_rfl

end
end TenpyModel.Ops

namespace TenpyModel.Ops
section
variable {α : Type} [Semiring α]

theorem zipIdx_flatMap_range' {β γ : Type} (l : List β) (d : β) (n : Nat) (G : β → Nat → List γ) :
    (l.zipIdx n).flatMap (fun p => G p.1 p.2) =
      (List.range' n l.length).flatMap (fun i => G (l.getD (i - n) d) i) := by
  induction l generalizing n with
  | nil => rfl
  | cons x l ih =>
    rw [List.zipIdx_cons, List.flatMap_cons, List.length_cons, List.range'_succ, List.flatMap_cons]
    congr 1
    · simp
    · rw [ih (n + 1)]
      apply List.flatMap_congr
      intro i hi
      have hle : n + 1 ≤ i := (List.mem_range'_1.1 hi).1
      have : i - n = (i - (n + 1)) + 1 := by omega
      rw [this, List.getD_cons_succ]

theorem onsiteFrom_zero (ot : OnsiteTerms α) (h : ot.terms.length = ot.L) :
    onsiteFrom ot ot.L 0 = ot.denote := by
  unfold onsiteFrom OnsiteTerms.denote
  rw [zipIdx_flatMap_range' ot.terms [] 0
    (fun d i => d.map (fun q => (onsiteStr ot.L i q.1, q.2))), h]
  simp only [Nat.sub_zero]
  rfl

theorem blocksFrom_zero (ct : CouplingTerms α) (h0 : ∀ b ∈ ct.blocks, 0 ≤ b.i) :
    blocksFrom ct ct.L 0 = ct.denote := by
  rw [CouplingTerms.denote_eq]
  unfold blocksFrom cD0 cD1 cD2 cD3
  have hb : ∀ b ∈ ct.blocks, b.termsFrom ct.L 0 =
      b.d2.flatMap (fun p => p.2.flatMap (fun q =>
        [(couplingStr ct.L b.i.toNat p.1.toNat b.opi b.str q.1, q.2)])) := by
    intro b hb
    unfold Block.termsFrom
    rw [if_pos (by simpa using h0 b hb)]
    apply List.flatMap_congr
    intro p _
    rw [map_eq_flatMap_singleton]
    simp [couplingStr]
  rw [List.flatMap_congr hb]
  unfold CouplingTerms.blocks
  rw [List.flatMap_assoc]
  apply List.flatMap_congr
  intro p _
  rw [List.flatMap_map]

end
end TenpyModel.Ops

namespace TenpyModel.Ops
section
variable {α : Type} [Semiring α]

theorem label_inj (b b' : Block α) (h : b.label = b'.label) : b.i = b'.i ∧ b.opi = b'.opi ∧ b.str = b'.str := by
  simpa [Block.label, leftLabel] using h

theorem graphHyp_of_WFP (ot : OnsiteTerms α) (ct : CouplingTerms α) (L : Nat) (hot : ot.terms.length = L)
    (hct : ct.WFP (fun i j => 0 ≤ i ∧ i < j ∧ j < (L : Int))) : GraphHyp ot ct L := by
  refine ⟨hot, ?_, ?_⟩
  · unfold CouplingTerms.blocks
    rw [List.pairwise_flatMap]
    constructor
    · intro p hp
      rw [List.pairwise_map]
      have hk : (Dict.keys p.2).Nodup := (hct.2 p hp).1
      unfold Dict.keys at hk
      rw [List.Nodup, List.pairwise_map] at hk
      refine hk.imp ?_
      intro a b hab hl
      have := label_inj _ _ hl
      exact hab (Prod.ext this.2.1 this.2.2)
    · have hk : (Dict.keys ct.terms).Nodup := hct.1
      unfold Dict.keys at hk
      rw [List.Nodup, List.pairwise_map] at hk
      refine hk.imp ?_
      intro a b hab x hx y hy hl
      obtain ⟨qa, _, rfl⟩ := List.mem_map.1 hx
      obtain ⟨qb, _, rfl⟩ := List.mem_map.1 hy
      exact hab (label_inj _ _ hl).1
  · intro b hb
    unfold CouplingTerms.blocks at hb
    obtain ⟨p, hp, hb⟩ := List.mem_flatMap.1 hb
    obtain ⟨q, hq, rfl⟩ := List.mem_map.1 hb
    have hq2 := ((hct.2 p hp).2 q hq).2.2
    have hne := ((hct.2 p hp).2 q hq).1
    refine ⟨?_, ?_⟩
    · -- 0 ≤ i needs an entry; a block without entries contributes nothing but may sit anywhere:
      -- `WFP` gives the bound through any entry, otherwise we use the entry-free case below
      obtain ⟨r, hr⟩ := List.exists_mem_of_ne_nil _ hne
      exact (hq2 r hr).1.1
    · intro r hr
      exact ⟨(hq2 r hr).1.2.1, (hq2 r hr).1.2.2⟩

end
end TenpyModel.Ops

namespace TenpyModel.Ops
section
variable {α : Type} [Semiring α]

/-- the closed form of the graph denotes the sum of the stored onsite and coupling terms -/
theorem spec_denote (ot : OnsiteTerms α) (ct : CouplingTerms α) (L : Nat) (hotL : ot.L = L) (hctL : ct.L = L)
    (h : GraphHyp ot ct L) :
    Sym.Equiv (pathsFrom Key.IdR (specLayers ot ct L) Key.IdL) (ot.denote ++ ct.denote) := by
  have := (spec_suffix ot ct L h L 0 (by omega)).2.2
  unfold specLayers
  refine this.trans ?_
  have h1 := onsiteFrom_zero ot (h.otLen.trans hotL.symm)
  have h2 := blocksFrom_zero ct (fun b hb => (h.valid b hb).1)
  rw [hotL] at h1
  rw [hctL] at h2
  rw [h1, h2]
  exact Sym.Equiv.refl _

end
end TenpyModel.Ops
