import TenpyModel.C10.P2_MT4
/-!
# C10 / Props2 (container level of `MultiCouplingTerms`), part 5: one call adds one term

`connDenote` after `_insert_connection`: a new connection appends its string; a merged connection gets the
strength added, and it is the connection with the same left path, right path, `switchLR` and `op_switch`, i.e.
with the same string.
-/
namespace TenpyModel.Ops

open MultiCouplingTerms

section
variable {α : Type}

/-- the summand of one entry of `connections` -/
def connTerm (L : Nat) (left right : List MPath) (p : Option (Conn α) × Nat) : Option (OpStr × α) :=
  match p.1 with
  | none => none
  | some k =>
    some (connStr L ((pathOf left p.2).getD []) k.switchLR k.opSwitch ((pathOf right p.2).getD []), k.strength)

theorem connDenote_eq (mt : MultiCouplingTerms α) :
    mt.connDenote = (mt.conns.zipIdx).filterMap (connTerm mt.L mt.left mt.right) := rfl

theorem connTerm_congr (L : Nat) (left right left' right' : List MPath) (p : Option (Conn α) × Nat)
    (hl : pathOf left' p.2 = pathOf left p.2) (hr : pathOf right' p.2 = pathOf right p.2) :
    connTerm L left' right' p = connTerm L left right p := by
  unfold connTerm
  rw [hl, hr]

end

section
variable {α : Type} [AddCommMonoid α]

/-- merging the strength `k.strength` into entry `c` adds one summand -/
theorem coeff_modify_merge (L : Nat) (left right : List MPath) (k k' : Conn α)
    (hs : k'.switchLR = k.switchLR) (ho : k'.opSwitch = k.opSwitch) (t : OpStr) :
    ∀ (conns : List (Option (Conn α))) (n c : Nat), conns.getD c none = some k' →
      coeff ((conns.modify c (mergeConn k)).zipIdx n |>.filterMap (connTerm L left right)) t =
        coeff ((conns.zipIdx n).filterMap (connTerm L left right)) t +
          coeff [(connStr L ((pathOf left (n + c)).getD []) k.switchLR k.opSwitch
            ((pathOf right (n + c)).getD []), k.strength)] t := by
  intro conns
  induction conns with
  | nil => intro n c h; cases c <;> cases h
  | cons x conns ih =>
    intro n c h
    cases c with
    | zero =>
      have hx : x = some k' := h
      subst hx
      simp only [List.modify_zero_cons, List.zipIdx_cons, List.filterMap_cons, connTerm, mergeConn,
        Option.map_some, hs, ho, Nat.add_zero, coeff_cons, coeff_nil]
      split
      · rw [add_zero, add_right_comm]
      · rw [add_zero]
    | succ c =>
      have h' : conns.getD c none = some k' := h
      have := ih (n + 1) c h'
      rw [show n + 1 + c = n + (c + 1) by omega] at this
      simp only [List.modify_succ_cons, List.zipIdx_cons, List.filterMap_cons]
      cases hx : connTerm L left right (x, n) with
      | none => exact this
      | some y =>
        obtain ⟨u, d⟩ := y
        rw [coeff_cons, coeff_cons, this]
        by_cases hu : u = t
        · rw [if_pos hu, if_pos hu, add_assoc]
        · rw [if_neg hu, if_neg hu]

theorem connDenote_insert {mt : MultiCouplingTerms α} (h : MInv mt) (lp rp : List MKey) (k : Conn α) :
    Sym.Equiv (mt.insertConnection lp rp k).connDenote
      (mt.connDenote ++ [(connStr mt.L lp k.switchLR k.opSwitch rp, k.strength)]) := by
  rw [insertConnection_eq]
  cases hf : (countersAt mt.left lp).find? (sameConn mt rp k) with
  | some c =>
    obtain ⟨k', hk', hsw, hop, _, hcr⟩ := sameConn_spec mt rp k c (by simpa using List.find?_some hf)
    have hcl : c ∈ countersAt mt.left lp := List.mem_of_find?_eq_some hf
    have hpl : pathOf mt.left c = some lp := pathOf_of_mem_countersAt lp c mt.left h.left.disj hcl
    have hpr : pathOf mt.right c = some rp := pathOf_of_mem_countersAt rp c mt.right h.right.disj hcr
    intro t
    rw [coeff_append, connDenote_eq, connDenote_eq]
    show coeff ((mt.conns.modify c (mergeConn k)).zipIdx.filterMap
      (connTerm mt.L (touch mt.left lp) (touch mt.right rp))) t = _
    have hfun : connTerm (α := α) mt.L (touch mt.left lp) (touch mt.right rp) = connTerm mt.L mt.left mt.right := by
      funext p
      exact connTerm_congr _ _ _ _ _ p (pathOf_touch _ _ _) (pathOf_touch _ _ _)
    rw [hfun, coeff_modify_merge mt.L mt.left mt.right k k' hsw hop t mt.conns 0 c hk', Nat.zero_add, hpl, hpr]
    rfl
  | none =>
    apply Sym.Equiv.of_perm
    apply List.Perm.of_eq
    rw [connDenote_eq, connDenote_eq]
    show ((mt.conns ++ [some k]).zipIdx).filterMap
      (connTerm mt.L (pushCounter mt.left lp mt.conns.length) (pushCounter mt.right rp mt.conns.length)) = _
    rw [List.zipIdx_append, List.filterMap_append]
    have hfl : ∀ p ∈ mt.left, mt.conns.length ∉ p.counters := by
      intro p hp hc
      have := h.left.bound p hp _ hc
      omega
    have hfr : ∀ p ∈ mt.right, mt.conns.length ∉ p.counters := by
      intro p hp hc
      have := h.right.bound p hp _ hc
      omega
    congr 1
    · apply List.filterMap_congr
      intro p hp
      have hlt := (mem_zipIdx_getD mt.conns none p hp).1
      exact connTerm_congr _ _ _ _ _ p (pathOf_pushCounter_ne _ _ _ _ (by omega))
        (pathOf_pushCounter_ne _ _ _ _ (by omega))
    · simp only [List.zipIdx_cons, List.zipIdx_nil, List.filterMap_cons, List.filterMap_nil, connTerm,
        Nat.zero_add, pathOf_pushCounter_self _ _ _ hfl, pathOf_pushCounter_self _ _ _ hfr, Option.getD_some]

/-- one valid `add_multi_coupling_term` call adds the positional string of the call -/
theorem connDenote_add {mt : MultiCouplingTerms α} (h : MInv mt) (s : α) (ijkl : List Int)
    (ops strs : List String) (sw : Switch) (hc : MultiCallOK mt.L ijkl ops strs sw) :
    Sym.Equiv (mt.add s ijkl ops strs sw).connDenote (mt.connDenote ++ [(multiStr mt.L ijkl ops strs, s)]) := by
  have hsh : ijkl.getLastD 0 - pymod (ijkl.getLastD 0) mt.L = 0 := by
    obtain ⟨_, _, _, _, h0, hlo, hhi, hL⟩ := hc
    exact shift_zero mt.L _ (by omega) hL
  have := connDenote_insert h (leftPathOf ijkl ops strs (resolveSwitch ijkl sw))
    (rightPathOf ijkl ops strs (resolveSwitch ijkl sw) 0)
    ⟨resolveSwitch ijkl sw, opSwitchOf (resolveSwitch ijkl sw) ijkl ops strs 0, 0, s⟩
  rw [connStr_call mt.L ijkl ops strs sw hc] at this
  rw [add_eq, hsh]
  exact this

end

end TenpyModel.Ops
