import TenpyModel.C10.P2_MT7
/-!
# C10 / Props2 (`MultiCouplingTerms.to_TermList`), part 2: the emitted term spells the string of the connection
-/
namespace TenpyModel.Ops

open MultiCouplingTerms

section
variable {α : Type}

theorem stermStr_connSOps (L : Nat) (tL tRs : List MKey) (k : Conn α)
    (hLb : ∀ t ∈ tL, 0 ≤ t.1 ∧ t.1 < k.switchLR) (hRb : ∀ t ∈ tRs, k.switchLR < t.1)
    (hsh : k.shift = 0) (hc : SwCond tL tRs k) :
    stermStr L 0 (connSOps tL tRs k) = connStr L tL k.switchLR k.opSwitch tRs := by
  unfold connSOps connStr
  rw [hsh]
  by_cases hmid : k.opSwitch ≠ lastStrOf tL
  · -- the switch site carries an operator of the term
    rw [if_pos hmid]
    have hm : ∀ d, (⟨k.opSwitch, k.switchLR, headStr tRs.reverse d⟩ : SOp).str =
        headStr tRs.reverse (⟨k.opSwitch, k.switchLR, headStr tRs.reverse d⟩ : SOp).str := by
      intro d
      unfold headStr
      cases tRs.reverse.head? <;> rfl
    cases tL with
    | nil =>
      simp only [List.map_nil, List.nil_append, List.singleton_append, stermStr_cons, Nat.sub_zero,
        List.reverse_nil, leftStrRev]
      rw [stermStrTail_right L _ _ (hm _)]
    | cons t rest =>
      rw [leftStrRev_reverse_cons, List.map_cons, List.cons_append, List.cons_append, stermStr_cons,
        List.append_assoc, List.singleton_append, stermStrTail_append, stermStrTail_right L _ _ (hm _),
        sChain_left]
      simp [sopL]
  · -- the string of the last left operator passes over the switch site
    rw [if_neg hmid, List.append_nil]
    have hop : k.opSwitch = lastStrOf tL := by
      by_contra hh
      exact hmid hh
    obtain ⟨hne, r, hr, hrs⟩ := hc hop
    cases tL with
    | nil => exact absurd rfl hne
    | cons t rest =>
      have hrev : tRs.reverse.head? = some r := by rw [List.head?_reverse]; exact hr
      obtain ⟨tR', htR⟩ : ∃ tR', tRs.reverse = r :: tR' := by
        cases hh : tRs.reverse with
        | nil => rw [hh] at hrev; cases hrev
        | cons a b =>
          rw [hh] at hrev
          simp only [List.head?_cons, Option.some.injEq] at hrev
          exact ⟨b, by rw [hrev]⟩
      have hrmem : r ∈ tRs := List.mem_reverse.1 (by rw [htR]; exact List.mem_cons_self)
      have hrsw := hRb r hrmem
      have hsw0 : 0 ≤ k.switchLR := by have := hLb t List.mem_cons_self; omega
      rw [htR, rightOpsOf_cons, leftStrRev_reverse_cons, List.map_cons, List.cons_append, stermStr_cons,
        stermStrTail_append, stermStrTail_right L _ _ (by cases tR' <;> rfl)]
      have hext := sChain_extend (rest.map sopL) (sopL t) (k.switchLR.toNat) ((r.1 + 0).toNat) (by
        intro a ha
        rcases List.mem_cons.1 ha with rfl | ha
        · have := hLb t List.mem_cons_self
          show t.1.toNat + 1 ≤ _
          omega
        · obtain ⟨u, hu, rfl⟩ := List.mem_map.1 ha
          have := hLb u (List.mem_cons_of_mem _ hu)
          show u.1.toNat + 1 ≤ _
          omega) (by omega)
      have hrs' : List.replicate (r.1.toNat - (k.switchLR.toNat + 1)) r.2.2 =
          List.replicate (r.1.toNat - (k.switchLR.toNat + 1)) (lastStrOf (t :: rest)) := by
        rcases hrs with hrs | hrs
        · rw [hrs]
        · have : r.1.toNat - (k.switchLR.toNat + 1) = 0 := by omega
          rw [this]
          rfl
      simp only [rightFrom]
      rw [hext, lastStrS_left, sChain_left, hrs', hop]
      have hrep : List.replicate ((r.1 + 0).toNat - k.switchLR.toNat) (lastStrOf (t :: rest)) =
          lastStrOf (t :: rest) ::
            List.replicate (r.1.toNat - (k.switchLR.toNat + 1)) (lastStrOf (t :: rest)) := by
        rw [← List.replicate_succ]
        congr 1
        omega
      rw [hrep]
      simp [sopL]

/-- with ascending sites the emitted term needs no sorting -/
theorem stermStr_sort_connSOps (L : Nat) (tL tRs : List MKey) (k : Conn α)
    (hLasc : (tL.map (·.1)).Pairwise (· < ·)) (hLb : ∀ t ∈ tL, 0 ≤ t.1 ∧ t.1 < k.switchLR)
    (hRdesc : (tRs.map (·.1)).Pairwise (· > ·)) (hRb : ∀ t ∈ tRs, k.switchLR < t.1)
    (hsh : k.shift = 0) (hc : SwCond tL tRs k) :
    stermStr L 0 (sortSOps (connSOps tL tRs k)) = connStr L tL k.switchLR k.opSwitch tRs := by
  rw [sortSOps_sorted _ (connSOps_sorted tL tRs k hLasc (fun t ht => (hLb t ht).2) hRdesc hRb hsh)]
  exact stermStr_connSOps L tL tRs k hLb hRb hsh hc

end

end TenpyModel.Ops
