import TenpyModel.C10.P2_Exp7
/-!
# C10 / Props2: exponentially decaying terms, part 8: the one-label automaton of a centred term
-/
namespace TenpyModel.Ops

section
variable {α : Type} [CommSemiring α] [Inhabited α]

/-- one step of the suffix induction from the label of a plain term (stated for an arbitrary continuation) -/
theorem ExpTerm.step_lab (t : ExpTerm α) (L : Nat) (hok : t.OK L) (lab : Key) (hL : lab ≠ Key.IdL) (k n : Nat)
    (hn : L - k - 1 = n) (hfk : t.first < k) (P : Key → Sym α)
    (hPR : Sym.Equiv (P Key.IdR) [(idStr n, 1)])
    (hPlab : k < t.last → Sym.Equiv (P lab) (t.tail L (k + 1))) :
    Sym.Equiv ((t.cleanAt lab k).flatMap (edgeTerm P lab)) (t.tail L k) := by
  have hLa : ∀ j ∈ t.subsites, j ≤ t.last := fun j hj => le_getLastD_of_sorted _ hok.subs 0 j hj
  rw [t.cleanAt_lab lab hL]
  refine Sym.Equiv.trans ?_ (t.tail_step hok.subs L k).symm
  refine (Sym.Equiv.append_comm _ _).trans ?_
  apply Sym.Equiv.append
  · by_cases hs : k ∈ t.subsites
    · rw [if_pos ⟨hs, hfk⟩, if_pos hs]
      refine (Sym.Equiv.consOp _ _ hPR).trans ?_
      rw [consOp_singleton, mul_one, hn]
      exact Sym.Equiv.refl _
    · rw [if_neg (fun h => hs h.1), if_neg hs]
      exact Sym.Equiv.refl _
  · by_cases hl : k < t.last
    · rw [if_pos ⟨hfk, hl⟩]
      exact Sym.Equiv.consOp _ _ (hPlab hl)
    · rw [if_neg (fun h => hl h.2), t.tail_eq_nil L (k + 1) (fun j hj => by have := hLa j hj; omega)]
      exact Sym.Equiv.refl _

theorem ExpTerm.step_IdL (t : ExpTerm α) (L : Nat) (hok : t.OK L) (lab : Key) (hL : lab ≠ Key.IdL) (k : Nat)
    (P : Key → Sym α)
    (hPlab : k ∈ t.subsitesStart → k < t.last → Sym.Equiv (P lab) (t.tail L (k + 1))) :
    Sym.Equiv ((t.cleanAt lab k).flatMap (edgeTerm P Key.IdL))
      (if k ∈ t.subsitesStart then Sym.consOp t.opi (lamAt t.lam k) (t.tail L (k + 1)) else []) := by
  have hLa : ∀ j ∈ t.subsites, j ≤ t.last := fun j hj => le_getLastD_of_sorted _ hok.subs 0 j hj
  rw [t.cleanAt_IdL lab hL]
  by_cases hs : k ∈ t.subsitesStart
  · rw [if_pos hs]
    by_cases hl : k < t.last
    · rw [if_pos ⟨hs, hl⟩]
      exact Sym.Equiv.consOp _ _ (hPlab hs hl)
    · rw [if_neg (fun h => hl h.2), t.tail_eq_nil L (k + 1) (fun j hj => by have := hLa j hj; omega)]
      exact Sym.Equiv.refl _
  · rw [if_neg (fun h => hs h.1), if_neg hs]
    exact Sym.Equiv.refl _

theorem CenteredTerm.cleanL_lab (t : CenteredTerm α) (lab : Key) (hL : lab ≠ Key.IdL) (k : Nat) (P : Key → Sym α) :
    (t.cleanL lab k).flatMap (edgeTerm P lab) =
      (if t.first < k ∧ k < t.i then Sym.consOp t.str (t.lc k) (P lab) else []) ++
      (if k = t.i ∧ t.first < t.i then Sym.consOp t.opi (lamAt t.lam t.i) (P Key.IdR) else []) := by
  unfold CenteredTerm.cleanL
  simp only [List.flatMap_append, ite_singleton_flatMap, edgeTerm, hL.symm, if_false, if_true, ite_self,
    List.nil_append]

theorem CenteredTerm.cleanL_IdL (t : CenteredTerm α) (lab : Key) (hL : lab ≠ Key.IdL) (k : Nat) (P : Key → Sym α) :
    (t.cleanL lab k).flatMap (edgeTerm P Key.IdL) =
      (if k ∈ t.subsites ∧ k < t.i then Sym.consOp t.opj t.strength (P lab) else []) := by
  unfold CenteredTerm.cleanL
  simp only [List.flatMap_append, ite_singleton_flatMap, edgeTerm, hL, if_false, if_true, ite_self,
    List.append_nil]

/-- the component of a centred term -/
def CenteredTerm.comp (t : CenteredTerm α) (lab : Key) : Comp α := ⟨lab, t.edgesAt lab⟩

theorem CenteredTerm.comp_paths (t : CenteredTerm α) (L : Nat) (hok : t.OK L) (lab : Key) (k : Nat)
    (rest : List (List (Edge Key α))) (key : Key) :
    Sym.Equiv (pathsFrom Key.IdR ((t.comp lab).layer k :: rest) key)
      (((t.cleanL lab k).flatMap (edgeTerm (pathsFrom Key.IdR rest) key) ++
        (t.rightTerm.cleanAt lab k).flatMap (edgeTerm (pathsFrom Key.IdR rest) key)) ++
        (idLoops (α := α)).flatMap (edgeTerm (pathsFrom Key.IdR rest) key)) := by
  rw [pathsFrom_cons']
  show Sym.Equiv (((t.edgesL lab k ++ t.edgesR lab k) ++ idLoops).flatMap _) _
  rw [List.flatMap_append, List.flatMap_append, t.edgesL_eq L hok, t.edgesR_eq L hok]
  exact Sym.Equiv.append (Sym.Equiv.append (Sym.Equiv.refl _)
    (Sym.Equiv.of_perm ((t.rightTerm.edgesAt_perm L (t.rightTerm_OK L hok) lab k).flatMap_right _)))
    (Sym.Equiv.refl _)

theorem CenteredTerm.comp_OK (t : CenteredTerm α) (L : Nat) (hok : t.OK L) (lab : Key) (hL : lab ≠ Key.IdL)
    (hR : lab ≠ Key.IdR) : (t.comp lab).OK := by
  refine ⟨hL, hR, ?_⟩
  intro k e he
  have he0 : e ∈ t.edgesL lab k ++ t.edgesR lab k := he
  rcases List.mem_append.1 he0 with he' | he'
  · rw [t.edgesL_eq L hok] at he'
    unfold CenteredTerm.cleanL at he'
    rcases List.mem_append.1 he' with h | h
    · rcases List.mem_append.1 h with h | h
      · split at h
        · rw [List.mem_singleton] at h; subst h; exact ⟨Or.inl rfl, Or.inr rfl⟩
        · simp at h
      · split at h
        · rw [List.mem_singleton] at h; subst h; exact ⟨Or.inr rfl, Or.inr rfl⟩
        · simp at h
    · split at h
      · rw [List.mem_singleton] at h; subst h; exact ⟨Or.inr rfl, Or.inl rfl⟩
      · simp at h
  · rw [t.edgesR_eq L hok] at he'
    exact (t.rightTerm.comp_OK L (t.rightTerm_OK L hok) lab hL hR).keys k e he'

theorem CenteredTerm.suffix (t : CenteredTerm α) (L : Nat) (hok : t.OK L) (lab : Key) (hL : lab ≠ Key.IdL)
    (hR : lab ≠ Key.IdR) : ∀ n k, k + n = L →
      (t.i < k → Sym.Equiv (pathsFrom Key.IdR (layersFrom (t.comp lab).layer k n) lab) (t.rightTerm.tail L k)) ∧
      (t.first < k → k ≤ t.i →
        Sym.Equiv (pathsFrom Key.IdR (layersFrom (t.comp lab).layer k n) lab) (t.tailL L k)) ∧
      Sym.Equiv (pathsFrom Key.IdR (layersFrom (t.comp lab).layer k n) Key.IdL)
        (t.leftFrom L k ++ t.rightTerm.termsFrom L k) := by
  have hokR := t.rightTerm_OK L hok
  have hiL : t.i < L := hok.subsL _ hok.mem
  have hF : ∀ s ∈ t.subsites, t.first ≤ s := fun s hs => headD_le_of_sorted _ hok.subs 0 s hs
  have hRfirst : t.rightTerm.first = t.i := rfl
  intro n
  induction n with
  | zero =>
    intro k hk
    have hkL : k = L := by omega
    subst hkL
    refine ⟨fun _ => ?_, fun _ h => ?_, ?_⟩
    · rw [layersFrom_zero, pathsFrom_nil, if_neg hR, t.rightTerm.tail_eq_nil k k hokR.subsL]
      exact Sym.Equiv.refl _
    · omega
    · rw [layersFrom_zero, pathsFrom_nil, if_neg IdL_ne_IdR, t.rightTerm.termsFrom_eq_nil k k hokR.startsL,
        t.leftFrom_eq_nil k k (by omega)]
      exact Sym.Equiv.refl _
  | succ n ih =>
    intro k hk
    obtain ⟨ihA, ihB, ihC⟩ := ih (k + 1) (by omega)
    have ihR := paths_IdR (t.comp lab).E (comp_kL_ne_IdR _ (t.comp_OK L hok lab hL hR)) n (k + 1)
    have hn : L - k - 1 = n := by omega
    refine ⟨?_, ?_, ?_⟩
    · intro hik
      rw [layersFrom_succ]
      refine (t.comp_paths L hok lab k _ lab).trans ?_
      rw [idLoops_other _ _ hL hR, List.append_nil, t.cleanL_lab lab hL, if_neg (by omega), if_neg (by omega),
        List.nil_append, List.nil_append]
      exact t.rightTerm.step_lab L hokR lab hL k n hn (by rw [hRfirst]; exact hik) _ ihR
        (fun _ => ihA (by omega))
    · intro hfk hki
      rw [layersFrom_succ]
      refine (t.comp_paths L hok lab k _ lab).trans ?_
      rw [idLoops_other _ _ hL hR, List.append_nil, t.rightTerm.cleanAt_lab lab hL, hRfirst,
        if_neg (by omega), if_neg (by omega), List.append_nil, List.append_nil, t.cleanL_lab lab hL]
      by_cases hk' : k < t.i
      · rw [if_pos ⟨hfk, hk'⟩, if_neg (by omega), List.append_nil, t.tailL_step hok.subs L k hk']
        exact Sym.Equiv.consOp _ _ (ihB (by omega) (by omega))
      · have hki' : k = t.i := by omega
        subst hki'
        rw [if_neg (by omega), if_pos ⟨rfl, hfk⟩, List.nil_append, t.tailL_self]
        refine (Sym.Equiv.consOp _ _ ihR).trans ?_
        rw [consOp_singleton, mul_one, hn]
        exact Sym.Equiv.refl _
    · rw [layersFrom_succ]
      refine (t.comp_paths L hok lab k _ Key.IdL).trans ?_
      rw [idLoops_IdL, t.cleanL_IdL lab hL]
      have e1 : Sym.Equiv
          (if k ∈ t.subsites ∧ k < t.i then
            Sym.consOp t.opj t.strength (pathsFrom Key.IdR (layersFrom (t.comp lab).layer (k + 1) n) lab) else [])
          (if k ∈ t.subsites ∧ k < t.i then Sym.consOp t.opj t.strength (t.tailL L (k + 1)) else []) := by
        by_cases hc : k ∈ t.subsites ∧ k < t.i
        · rw [if_pos hc, if_pos hc]
          exact Sym.Equiv.consOp _ _ (ihB (by have := hF k hc.1; omega) (by omega))
        · rw [if_neg hc, if_neg hc]
          exact Sym.Equiv.refl _
      have e2 := t.rightTerm.step_IdL L hokR lab hL k
        (pathsFrom Key.IdR (layersFrom (t.comp lab).layer (k + 1) n))
        (fun hs _ => ihA (by
          have : k = t.i := by simpa [CenteredTerm.rightTerm] using hs
          omega))
      have e3 := Sym.Equiv.consOp "Id" (1 : α) ihC
      refine (Sym.Equiv.append (Sym.Equiv.append e1 e2) e3).trans ?_
      refine Sym.Equiv.trans ?_
        (Sym.Equiv.append (t.leftFrom_step hok.subs L k) (t.rightTerm.termsFrom_step hokR.starts L k)).symm
      rw [consOp_append]
      intro u
      simp only [coeff_append]
      ac_rfl

end

end TenpyModel.Ops
