import Mathlib.Algebra.Ring.Hom.Defs
import TenpyModel.Ops.SymProofs
/-!
# C10: algebra of `plus_hc` / `explicit_plus_hc` and Hermiticity at the level of formal sums
-/
namespace TenpyModel.Ops

section
variable {α : Type} [CommSemiring α]

theorem dagger_append (hc : String → String) (cj : α → α) (a b : Sym α) :
    Sym.dagger hc cj (a ++ b) = Sym.dagger hc cj a ++ Sym.dagger hc cj b := by
  simp [Sym.dagger]

theorem dagger_dagger (hc : String → String) (cj : α → α) (hhc : ∀ x, hc (hc x) = x)
    (hcj : ∀ x, cj (cj x) = x) (a : Sym α) : Sym.dagger hc cj (Sym.dagger hc cj a) = a := by
  simp only [Sym.dagger, List.map_map]
  conv_rhs => rw [← List.map_id a]
  apply List.map_congr_left
  intro p _
  obtain ⟨u, c⟩ := p
  simp only [Function.comp, id, hcj, Prod.mk.injEq, and_true]
  conv_rhs => rw [← List.map_id u]
  rw [List.map_map]
  apply List.map_congr_left
  intro x _
  simp [hhc]

theorem dagger_smul (hc : String → String) (cj : α →+* α) (c : α) (a : Sym α) :
    Sym.dagger hc cj (Sym.smul c a) = Sym.smul (cj c) (Sym.dagger hc cj a) := by
  simp [Sym.dagger, Sym.smul, List.map_map, Function.comp_def, map_mul]

/-- a formal sum of the form `T + T†` is self-adjoint -/
theorem hermitian_of_closed (hc : String → String) (cj : α → α) (hhc : ∀ x, hc (hc x) = x)
    (hcj : ∀ x, cj (cj x) = x) (T : Sym α) :
    Sym.Equiv (Sym.dagger hc cj (T ++ Sym.dagger hc cj T)) (T ++ Sym.dagger hc cj T) := by
  rw [dagger_append, dagger_dagger hc cj hhc hcj]
  exact Sym.Equiv.append_comm _ _

/-- `explicit_plus_hc`: storing `A/2 + B` and representing `stored + stored†` gives `A + B + B†`,
provided the part `A` added without `plus_hc` is self-adjoint -/
theorem explicit_eq_implicit (hc : String → String) (cj : α →+* α) (half : α)
    (hhalf : half + half = 1) (hcjh : cj half = half) (A B : Sym α)
    (hA : Sym.Equiv (Sym.dagger hc cj A) A) :
    Sym.Equiv ((Sym.smul half A ++ B) ++ Sym.dagger hc cj (Sym.smul half A ++ B))
      (A ++ B ++ Sym.dagger hc cj B) := by
  intro t
  rw [dagger_append, dagger_smul, hcjh]
  simp only [coeff_append, coeff_smul]
  rw [hA t]
  have : half * coeff A t + coeff B t + (half * coeff A t + coeff (Sym.dagger hc (⇑cj) B) t)
      = (half + half) * coeff A t + coeff B t + coeff (Sym.dagger hc (⇑cj) B) t := by ring
  rw [this, hhalf, one_mul]

end
end TenpyModel.Ops
