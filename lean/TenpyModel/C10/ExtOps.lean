import TenpyModel.C10.ExtMPO
/-!
# C10 extension, model part 2: the representation-changing methods of `MPO` (tenpy/networks/mpo.py)

* `groupSites`        `MPO.group_sites(n)` (`grouped_sites=None`: groups of `n` sites, a shorter last group):
                      product of the `W` of a group, `IdL`/`IdR` at the group boundaries, `max_range`, `grouped`
* `enlargeUnitCell`   `MPO.enlarge_mps_unit_cell(factor)` with its three `ValueError`s
* `extractSegment`    `MPO.extract_segment(first, last)` (`sites_per_ring = L // unit_cell_width`, `divmod`,
                      `ZeroDivisionError`, `ValueError`, index checks of `get_W` for finite MPOs)
* `sortLegcharges`    `MPO.sort_legcharges()`: per bond the stable permutation sorting the charges of the leg
                      (`LegPipe` of one leg with `sort=True`: `np.lexsort`, stable; bunching does not move indices),
                      `W'[a', b'] = W[p[a'], q[b']]`, `IdL`/`IdR` ↦ their new positions
-/
namespace TenpyModel.C10Ext
open TenpyModel.Ops

/-! ## `group_sites` -/

/-- `npc.tensordot(new_W, W, axes=[-1, 0])` on operator-valued matrices -/
def gridMul {α : Type} [Mul α] (G1 G2 : Grid α) : Grid α :=
  let nc := (G2.headD []).length
  G1.map (fun row => (List.range nc).map (fun c =>
    (row.zipIdx).flatMap (fun sb => tensor sb.1 ((G2.getD sb.2 []).getD c []))))

/-- `new_W = W(i); for j in 1 … n_sites-1: new_W = new_W · W(i+j)` -/
def groupGrids {α : Type} [Mul α] : List (Grid α) → Grid α
  | [] => []
  | G :: rest => rest.foldl gridMul G

/-- `sites[i : i + n] for i in range(0, len(sites), n)` (`fuel` ≥ length) -/
def chunksAux {β : Type} (n : Nat) : Nat → List β → List (List β)
  | 0, _ => []
  | _ + 1, [] => []
  | fuel + 1, x :: l => (x :: l).take n :: chunksAux n fuel ((x :: l).drop n)

def chunks {β : Type} (n : Nat) (l : List β) : List (List β) := chunksAux n l.length l

/-- start index of every group and the end of the last one -/
def groupStarts (sizes : List Nat) : List Nat :=
  (sizes.foldl (fun (acc : List Nat × Nat) s => (acc.1 ++ [acc.2], acc.2 + s)) ([], 0)).1

/-- `int(np.ceil(r / n))` for `r ≥ 0`, `n ≥ 1` -/
def ceilDiv (r : Int) (n : Nat) : Int := (r + (n : Int) - 1) / (n : Int)

def groupSites {α Q : Type} [Mul α] (m : GMPO α Q) (n : Nat) : Except Err (GMPO α Q) :=
  if n = 0 then .error .value            -- `range(0, len(sites), 0)`
  else
    let groups := chunks n m.grids
    let sizes := groups.map List.length
    let starts := groupStarts sizes
    let ends := (starts.zip sizes).map (fun p => p.1 + p.2)
    let minN := max (sizes.foldl min (sizes.headD 1)) 1
    .ok { m with
      grids := groups.map groupGrids
      idL := starts.map (fun i => m.idL.getD i none) ++ [m.idL.getLastD none]
      idR := m.idR.headD none :: ends.map (fun i => m.idR.getD i none)
      legs := starts.map (fun i => m.legs.getD i []) ++ [m.legs.getLastD []]
      maxRange := match m.maxRange with
        | .fin r => .fin (ceilDiv r minN)
        | r => r
      grouped := m.grouped * n }

/-! ## `enlarge_mps_unit_cell` -/

/-- `factor` is passed as a rational `num/den` to cover `int(factor) != factor` -/
def enlargeUnitCell {α Q : Type} (m : GMPO α Q) (num : Int) (den : Nat) : Except Err (GMPO α Q) :=
  if den ≠ 1 then .error .value            -- '`factor` should be integer!'
  else if num ≤ 1 then .error .value       -- "can't shrink!"
  else if m.isFinite then .error .value    -- "can't enlarge finite MPO"
  else
    let f := num.toNat
    .ok { m with
      grids := (List.replicate f m.grids).flatten
      idL := (List.replicate f m.idL.dropLast).flatten ++ [m.idL.getLastD none]
      idR := (List.replicate f m.idR.dropLast).flatten ++ [m.idR.getLastD none]
      legs := (List.replicate f m.legs.dropLast).flatten ++ [m.legs.getLastD []]
      ucw := m.ucw * f }

/-! ## `extract_segment` -/

/-- python `i % L` -/
def pmod (i : Int) (L : Nat) : Nat := (i.emod (L : Int)).toNat

def extractSegment {α Q : Type} [DecidableEq Q] (m : GMPO α Q) (first last : Int) : Except Err (GMPO α Q) :=
  let L := m.L
  if m.ucw = 0 then .error .zeroDiv else
  let spr := L / m.ucw                       -- sites_per_ring
  if spr = 0 then .error .zeroDiv else       -- divmod(last + 1 - first, 0)
  let len := last + 1 - first
  if len.emod (spr : Int) ≠ 0 then .error .value else
  if len ≤ 0 then .error .other else         -- an MPO without sites: the constructor fails
  let idx : List Int := (List.range len.toNat).map (fun (d : Nat) => first + (d : Int))
  -- `get_W(i)`: a finite MPO accepts `-L ≤ i < L` only
  if m.isFinite && idx.any (fun i => i < -(L : Int) || (L : Int) ≤ i) then .error .value else
  -- `MPO.test_sanity` of the new MPO: consecutive `W` must have contractible legs (fails when a finite MPO is
  -- wrapped around with negative indices and the outer legs differ)
  if !(idx.zip (idx.drop 1)).all (fun ii => decide (m.legs.getD (pmod ii.1 L + 1) [] = m.legs.getD (pmod ii.2 L) []))
  then .error .value else
  let newUcw := (len / (spr : Int)).toNat
  .ok { m with
    bc := .segment
    grids := idx.map (fun i => m.grids.getD (pmod i L) [])
    idL := idx.map (fun i => m.idL.getD (pmod i L) none) ++ [m.idL.getD (pmod last L + 1) none]
    idR := idx.map (fun i => m.idR.getD (pmod i L) none) ++ [m.idR.getD (pmod last L + 1) none]
    legs := idx.map (fun i => m.legs.getD (pmod i L) []) ++ [m.legs.getD (pmod last L + 1) []]
    ucw := newUcw }

/-! ## `sort_legcharges` -/

/-- insert `x`, which preceded all of the list, behind the entries strictly smaller than it -/
def insStable {β : Type} (lt : β → β → Bool) (x : β) : List β → List β
  | [] => [x]
  | q :: qs => if lt q x then q :: insStable lt x qs else x :: q :: qs

def stableSort {β : Type} (lt : β → β → Bool) : List β → List β
  | [] => []
  | x :: rest => insStable lt x (stableSort lt rest)

/-- permutation sorting the flat charge list of a leg: `new[k] = old[perm[k]]` -/
def sortPerm {Q : Type} (lt : Q → Q → Bool) (leg : List Q) : List Nat :=
  (stableSort (fun a b => lt a.1 b.1) leg.zipIdx).map (·.2)

/-- position of `x` in the permutation (`np.nonzero(p == x)[0][0]`); `IndexError` if absent -/
def posIn (p : List Nat) (x : Nat) : Option Nat :=
  match p.findIdx? (· = x) with
  | some k => some k
  | none => none

def permuteGrid {α : Type} (G : Grid α) (p q : List Nat) : Grid α :=
  p.map (fun a => q.map (fun b => (G.getD a []).getD b []))

def mapId (perms : List (List Nat)) (chi : List Nat) (ids : List (Option Nat)) : Except Err (List (Option Nat)) :=
  if (ids.zipIdx).all (fun ib => match ib.1 with
      | none => true
      | some x => (posIn (perms.getD ib.2 []) (x % max (chi.getD ib.2 1) 1)).isSome) then
    .ok ((ids.zipIdx).map (fun ib => match ib.1 with
      | none => none
      | some x => posIn (perms.getD ib.2 []) (x % max (chi.getD ib.2 1) 1)))
  else .error .index

/-- consecutive grids with their left and right permutation -/
def permuteGrids {α : Type} : List (Grid α) → List (List Nat) → List (Grid α)
  | G :: Gs, p :: q :: ps => permuteGrid G p q :: permuteGrids Gs (q :: ps)
  | _, _ => []

def sortLegcharges {α Q : Type} (m : GMPO α Q) (lt : Q → Q → Bool) : Except Err (GMPO α Q) :=
  let perms := m.legs.map (sortPerm lt)
  match mapId perms m.chi m.idL, mapId perms m.chi m.idR with
  | .ok idL, .ok idR =>
    .ok { m with
      grids := permuteGrids m.grids perms
      idL := idL, idR := idR
      legs := (m.legs.zip perms).map (fun lp => lp.2.filterMap (fun k => lp.1[k]?)) }
  | .error e, _ => .error e
  | _, .error e => .error e

end TenpyModel.C10Ext
