import Mathlib.Tactic.Abel
import TenpyModel.C10.ExtProofsB
import TenpyModel.C10.ExtProofsE
import TenpyModel.C10.ExtProofsF
/-!
# C10 extension, proofs part G: shape of the grids of `_build_grids`
-/
namespace TenpyModel.C10Ext
open TenpyModel.Ops

theorem gridOf_rect {α : Type} [Monoid α] (layer : List (Edge Key α)) (stL stR : List Key) :
    Rect (gridOf layer stL stR) := by
  intro row hrow
  have hlen : ∀ r ∈ gridOf layer stL stR, r.length = stR.length := by
    intro r hr
    simp only [gridOf, List.mem_map] at hr
    obtain ⟨kL, _, rfl⟩ := hr
    simp
  rw [hlen row hrow]
  cases hg : gridOf layer stL stR with
  | nil => rw [hg] at hrow; cases hrow
  | cons r0 rs =>
    have := hlen r0 (by rw [hg]; exact List.mem_cons_self ..)
    simp [this]

theorem gridsOf_rect {α : Type} [Monoid α] : ∀ (layers : List (List (Edge Key α))) (sts : List (List Key)),
    ∀ G ∈ gridsOf layers sts, Rect G
  | [], sts => by
    intro G hG
    have : gridsOf ([] : List (List (Edge Key α))) sts = [] := by cases sts <;> rfl
    rw [this] at hG; cases hG
  | _ :: _, [] => by intro G hG; simp [gridsOf] at hG
  | _ :: _, [_] => by intro G hG; simp [gridsOf] at hG
  | layer :: layers, stL :: stR :: sts => by
    intro G hG
    rw [gridsOf, List.mem_cons] at hG
    rcases hG with rfl | hG
    · exact gridOf_rect layer stL stR
    · exact gridsOf_rect layers (stR :: sts) G hG

theorem gridsOf_length {α : Type} : ∀ (layers : List (List (Edge Key α))) (sts : List (List Key)),
    sts.length = layers.length + 1 → (gridsOf layers sts).length = layers.length
  | [], sts, _ => by
    have : gridsOf ([] : List (List (Edge Key α))) sts = [] := by cases sts <;> rfl
    rw [this]; rfl
  | _ :: _, [], h => by simp at h
  | _ :: _, [_], h => by simp at h
  | layer :: layers, stL :: stR :: sts, h => by
    rw [gridsOf, List.length_cons, gridsOf_length layers (stR :: sts) (by simpa using h)]
    rfl


end TenpyModel.C10Ext
