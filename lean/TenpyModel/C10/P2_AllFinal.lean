import TenpyModel.C10.P2_MultiFinal
import TenpyModel.C10.P2_ExpMain
import TenpyModel.C10.P2_Comp
/-!
# C10 / Props2: onsite + multi-site + exponentially decaying terms in one MPO graph (finite chain)

The multi-site edges use the keys of the two tries, the exponentially decaying terms their labels
`(nr, 'exp-decay')`: two components that share only `IdL` and `IdR` (`paths_components`).
-/
namespace TenpyModel.Ops

section
variable {α : Type}

theorem Key.isLeft_cases (k : Key) (h : k.isLeft = true) : k = Key.IdL ∨ k.isTrie = true := by
  unfold Key.isLeft at h
  split at h
  · exact Or.inl rfl
  · exact Or.inr rfl
  · cases h

theorem Key.isRight_cases (k : Key) (h : k.isRight = true) : k = Key.IdR ∨ k.isTrie = true := by
  unfold Key.isRight at h
  split at h
  · exact Or.inl rfl
  · exact Or.inr rfl
  · cases h

theorem expLabel_not_trie (nr : Nat) : (ExpDecayTerms.expLabel nr).isTrie = false := rfl

theorem isTrie_ne_Id (k : Key) (h : k.isTrie = true) : k ≠ Key.IdL ∧ k ≠ Key.IdR := by
  constructor <;> (intro hc; rw [hc] at h; cases h)

end

section main
variable {α : Type} [CommSemiring α] [Inhabited α]

/-- the multi-site component: onsite edges and the new edges of the two tries -/
theorem comp_multi (L : Nat) (ot : OnsiteTerms α) (mt : MultiCouplingTerms α) (N : Nat → List (Edge Key α))
    (hN : MNew L mt N) :
    CompEdges L (fun k => k.isTrie = true) (fun k => onsiteEdges (ot.terms.getD k []) ++ N k) := by
  intro k hk e he
  rcases List.mem_append.1 he with he | he
  · unfold onsiteEdges dictEdges at he
    obtain ⟨q, _, rfl⟩ := List.mem_map.1 he
    exact ⟨Or.inl rfl, Or.inl rfl⟩
  · obtain ⟨hnl, hnr⟩ := hN.ends k hk e he
    rcases hN.classes k hk e he with ⟨h1, h2⟩ | ⟨h1, h2⟩
    · refine ⟨Key.isLeft_cases _ h1, ?_⟩
      rcases h2 with h2 | h2
      · rcases Key.isLeft_cases _ h2 with h | h
        · exact absurd h hnl
        · exact Or.inr h
      · exact Key.isRight_cases _ h2
    · refine ⟨?_, Key.isRight_cases _ h2⟩
      rcases Key.isRight_cases _ h1 with h | h
      · exact absurd h hnr
      · exact Or.inr h

theorem comp_exp (L : Nat) (e : ExpDecayTerms α) :
    CompEdges L (fun k => ∃ nr, k = ExpDecayTerms.expLabel nr) (fun k => expNew e k) := by
  intro k _ x hx
  exact expNew_keys e k x hx

/-- **MPO graph of onsite + multi-site + exponentially decaying terms (container level)** -/
theorem all_fromTerms (L : Nat) (ot : OnsiteTerms α) (mt : MultiCouplingTerms α) (e : ExpDecayTerms α)
    (hotL : ot.L = L) (hot : ot.terms.length = L) (hL : mt.L = L) (hwf : mt.GWF) (he : e.L = L) (hewf : e.FWF) :
    Sym.Equiv (denoteGraph (Graph.fromTerms L false [.onsite ot, .multi mt, .expdecay e]))
      (ot.denote ++ mt.connDenote ++ STermList.denote L (e.toTermListFinite (fun _ => false))) := by
  classical
  have e0 : Graph.fromTerms L false [.onsite ot, .multi mt, .expdecay e] =
      (e.addToGraph (mt.addToGraph (ot.addToGraph (Graph.empty L false)))).addMissingIdLIdR true := rfl
  rw [e0]
  have r1 := rep_onsite ot hot _ _ (Rep.empty (α := α) L false)
  have hinf1 : (ot.addToGraph (Graph.empty L false : Graph α)).infinite = false := by
    rw [onsite_addToGraph_infinite]; rfl
  have hfree : TrieFree (ot.addToGraph (Graph.empty L false : Graph α)) := by
    apply trieFree_of_rep r1
    intro k _ x hx
    rw [List.nil_append] at hx
    unfold onsiteEdges dictEdges at hx
    obtain ⟨q, _, rfl⟩ := List.mem_map.1 hx
    exact ⟨rfl, rfl⟩
  obtain ⟨N, hN, r2, hinf2⟩ := multi_addToGraph_new L mt hL hwf _ r1.1 r1.2.1 hinf1 hfree
  have r2' : Rep L (mt.addToGraph (ot.addToGraph (Graph.empty L false)))
      (fun k => onsiteEdges (ot.terms.getD k []) ++ N k) := by
    refine r2.congr ?_
    intro k hk
    apply List.Perm.append_right
    have := r1.2.2 k hk
    simpa using this
  obtain ⟨r3, _⟩ := exp_addToGraph_rep L e he hewf _ _ r2' hinf2
  rw [addMissing_eq, r3.1]
  have hA := comp_multi L ot mt N hN
  have hB := comp_exp L e
  have r4 := rep_idFold Key.IdL _ _ r3 (by
    intro k hk x hx hc
    rcases List.mem_append.1 hx with hx | hx
    · rcases (hA k hk x hx).2 with h | h
      · exact absurd (hc.2.symm.trans h) (by simp [Key.IdL, Key.IdR])
      · exact (isTrie_ne_Id _ h).1 hc.2
    · rcases (hB k hk x hx).2 with h | ⟨nr, h⟩
      · exact absurd (hc.2.symm.trans h) (by simp [Key.IdL, Key.IdR])
      · exact expLabel_ne_IdL nr (h.symm.trans hc.2)) L (le_refl _)
  have r5 := rep_idFold Key.IdR _ _ r4 (by
    intro k hk x hx hc
    rcases List.mem_append.1 hx with hx | hx
    · rcases List.mem_append.1 hx with hx | hx
      · rcases (hA k hk x hx).1 with h | h
        · exact absurd (h.symm.trans hc.1) (by simp [Key.IdL, Key.IdR])
        · exact (isTrie_ne_Id _ h).2 hc.1
      · rcases (hB k hk x hx).1 with h | ⟨nr, h⟩
        · exact absurd (h.symm.trans hc.1) (by simp [Key.IdL, Key.IdR])
        · exact expLabel_ne_IdR nr (h.symm.trans hc.1)
    · by_cases c : k < L
      · rw [if_pos c, List.mem_singleton] at hx
        subst hx
        exact absurd hc.1 (by simp [Key.IdL, Key.IdR])
      · rw [if_neg c] at hx
        simp at hx) L (le_refl _)
  unfold denoteGraph
  refine (pathsFrom_equiv_of_forall2 Key.IdR (rep_forall2_layersOf r5) Key.IdL).trans ?_
  have hcomp := paths_components L (fun k => onsiteEdges (ot.terms.getD k []) ++ N k) (fun k => expNew e k)
    (fun k => k.isTrie = true) (fun k => ∃ nr, k = ExpDecayTerms.expLabel nr) hA hB
    (fun κ h => isTrie_ne_Id κ h)
    (fun κ ⟨nr, h⟩ => ⟨h ▸ expLabel_ne_IdL nr, h ▸ expLabel_ne_IdR nr⟩)
    (fun κ h ⟨nr, h'⟩ => by rw [h', expLabel_not_trie] at h; cases h)
  refine Sym.Equiv.trans ?_ (hcomp.trans (Sym.Equiv.append
    (multi_paths L ot mt hotL hot hL hwf N hN) (exp_paths L e he hewf)))
  apply pathsFrom_equiv_of_forall2
  apply forall2_layersOf
  intro k hk
  simp only [if_pos hk]
  unfold idLoops
  rw [List.append_assoc]
  exact List.Perm.refl _

end main

end TenpyModel.Ops
