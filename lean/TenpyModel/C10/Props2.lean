import TenpyModel.C10.P2_MultiFinal
import TenpyModel.C10.P2_MTMain
import TenpyModel.C10.P2_Valid
import TenpyModel.C10.P2_AllFinal
import TenpyModel.C10.P2_Merged
/-!
# C10 — property theorems, part 2: multi-site couplings and exponentially decaying terms

`Props.lean` proves the path theorem `denoteGraph (fromTerms ts) = Σ denote ts` for onsite and two-site terms.
This file extends it to `MultiCouplingTerms` (nested left / right dictionaries joined by a connection on the switch
site) and `ExponentiallyDecayingTerms`, and relates `MultiCouplingTerms.to_TermList` to the same formal sum.
Strengths live in an arbitrary commutative semiring.  Helper files: `C10/P2_*.lean`.
-/
open TenpyModel.Ops TenpyModel.Ops.MultiCouplingTerms

/-- **MPO graph of a `MultiCouplingTerms` container (finite chain).**  For every well-formed container
(`GWF`: every live connection is stored in one path of `terms_left` and one of `terms_right`, left paths ascend
towards the switch site, right paths descend towards it, all sites inside the chain, `shift = 0`) and every
`OnsiteTerms`, the graph built by the imperative model of `MPOGraph.from_terms((onsite, multi))` —
`_insert_to_graph` for both tries with `add(skip_existing=True)`, `add_string_left_to_right` /
`add_string_right_to_left` with their `has_edge` tests, the connection edges on the switch sites,
`add_missing_IdL_IdR` — denotes (Σ over `IdL → IdR` paths of product of strengths · operator string) the onsite
terms plus, for every connection, `strength · (left path ⊗ op_switch ⊗ right path)`: every term exactly once
although all terms with a common prefix (suffix) share their states in the left (right) trie. -/
theorem C10_graph_paths_multi_container {α : Type} [CommSemiring α] [Inhabited α] (L : Nat)
    (ot : OnsiteTerms α) (mt : MultiCouplingTerms α) (hotL : ot.L = L) (hot : ot.terms.length = L)
    (hL : mt.L = L) (hwf : mt.GWF) :
    Sym.Equiv (denoteGraph (Graph.fromTerms L false [.onsite ot, .multi mt])) (ot.denote ++ mt.connDenote) :=
  multi_fromTerms L ot mt hotL hot hL hwf

/-- **MPO graph paths, multi-site couplings.**  For every sequence of `add_onsite_term` calls (`i < L`) and
`add_multi_coupling_term(strength, ijkl, ops_ijkl, op_string, switchLR)` calls on a finite chain that pass the
argument checks of the implementation (`MultiCallOK`: ≥ 2 strictly ascending sites, `0 ≤ ijkl[0] ≤ switchLR ≤
ijkl[-1] < L`, `switchLR` an integer, `'middle_i'` or `'middle_op'`; see `multiCallOK_of_addValid`), the graph
built by `MPOGraph.from_terms((onsite, multi))` denotes (Σ over `IdL → IdR` paths of product of strengths ·
operator string) the sum of all added terms `Id^i₀ ⊗ op₀ ⊗ str₀ ⊗ … ⊗ op_n ⊗ Id…` — each exactly once, whatever the
switch sites, although terms share the states of the left trie (common prefix up to the switch site), of the right
trie (common suffix) and connections that differ only in the strength are merged.  Extends `C10_graph_paths`. -/
theorem C10_graph_paths_multi {α : Type} [CommSemiring α] [Inhabited α] (L : Nat)
    (ocalls : List (α × Nat × String)) (mcalls : List (α × List Int × List String × List String × Switch))
    (ho : ∀ c ∈ ocalls, c.2.1 < L)
    (hm : ∀ c ∈ mcalls, MultiCallOK L c.2.1 c.2.2.1 c.2.2.2.1 c.2.2.2.2) :
    Sym.Equiv
      (denoteGraph (Graph.fromTerms L false
        [.onsite (ocalls.foldl (fun ot c => ot.add c.1 c.2.1 c.2.2) (OnsiteTerms.empty L)),
         .multi (mcalls.foldl (fun mt c => mt.add c.1 c.2.1 c.2.2.1 c.2.2.2.1 c.2.2.2.2)
            (MultiCouplingTerms.empty L))]))
      (ocalls.map (fun c => (onsiteStr L c.2.1 c.2.2, c.1)) ++
       mcalls.map (fun c => (multiStr L c.2.1 c.2.2.1 c.2.2.2.1, c.1))) := by
  obtain ⟨hwf, hotL, hoden⟩ := OnsiteTerms.build_denote L ocalls ho
  obtain ⟨hmL, hgwf, hmden⟩ := multi_build L mcalls hm
  exact (multi_fromTerms L _ _ hotL (hwf.len.trans hotL) hmL hgwf).trans (Sym.Equiv.append hoden hmden)

/-- **Two-site couplings converted into a `MultiCouplingTerms`.**  `CouplingModel` converts its two-site
`CouplingTerms` into a `MultiCouplingTerms` as soon as a multi-site term is present (`self += other`: every entry
`(i, op_i, op_str, j, op_j, strength)` is re-added by `add_multi_coupling_term(strength, [i, j], [op_i, op_j], [op_str])`
with `switchLR = 'middle_i'`).  For onsite calls, `add_coupling_term` calls (`0 ≤ i < j < L`) accumulated in a
`CouplingTerms`, its conversion, and further valid multi-site calls: the MPO graph denotes the sum of all added
onsite, two-site and multi-site terms. -/
theorem C10_graph_paths_coupling_merged {α : Type} [CommSemiring α] [Inhabited α] (L : Nat)
    (ocalls : List (α × Nat × String)) (ccalls : List (α × Int × Int × String × String × String))
    (mcalls : List (α × List Int × List String × List String × Switch))
    (ho : ∀ c ∈ ocalls, c.2.1 < L) (hc : ∀ c ∈ ccalls, 0 ≤ c.2.1 ∧ c.2.1 < c.2.2.1 ∧ c.2.2.1 < (L : Int))
    (hm : ∀ c ∈ mcalls, MultiCallOK L c.2.1 c.2.2.1 c.2.2.2.1 c.2.2.2.2) :
    Sym.Equiv
      (denoteGraph (Graph.fromTerms L false
        [.onsite (ocalls.foldl (fun ot c => ot.add c.1 c.2.1 c.2.2) (OnsiteTerms.empty L)),
         .multi (mcalls.foldl (fun mt c => mt.add c.1 c.2.1 c.2.2.1 c.2.2.2.1 c.2.2.2.2)
           ((MultiCouplingTerms.empty L).iaddCoupling
             (ccalls.foldl (fun ct c => ct.add c.1 c.2.1 c.2.2.1 c.2.2.2.1 c.2.2.2.2.1 c.2.2.2.2.2)
               (CouplingTerms.empty L))))]))
      (ocalls.map (fun c => (onsiteStr L c.2.1 c.2.2, c.1)) ++
       (ccalls.map (fun c => (couplingStr L c.2.1.toNat c.2.2.1.toNat c.2.2.2.1 c.2.2.2.2.2 c.2.2.2.2.1, c.1)) ++
        mcalls.map (fun c => (multiStr L c.2.1 c.2.2.1 c.2.2.2.1, c.1)))) :=
  merged_fromTerms L ocalls ccalls mcalls ho hc hm

/-- **`MultiCouplingTerms.to_TermList`.**  For every sequence of valid `add_multi_coupling_term` calls on a finite
chain none of which triggers the `op_switch != op_str` heuristic wrongly (`SwitchOpOK`: if the switch site is a
site of the term whose operator is named like the operator string to its left — `""` for the first site — then it
is an inner site and the string to its right is the same one or occupies no site), `to_TermList()` (with the
operator strings kept as annotation) denotes the sum of the added terms: the term list, the container and (by
`C10_graph_paths_multi`) the MPO graph are the same formal sum.  The hypothesis excludes exactly the known finding
"operator on `switchLR` named like the string" (`C10_terms_termlist_multi_counterexample`). -/
theorem C10_terms_termlist_multi {α : Type} [AddCommMonoid α] (L : Nat)
    (calls : List (α × List Int × List String × List String × Switch))
    (h : ∀ c ∈ calls, MultiCallOK L c.2.1 c.2.2.1 c.2.2.2.1 c.2.2.2.2)
    (hsw : ∀ c ∈ calls, SwitchOpOK c.2.1 c.2.2.1 c.2.2.2.1 c.2.2.2.2) :
    Sym.Equiv (STermList.denote L
        (calls.foldl (fun mt c => mt.add c.1 c.2.1 c.2.2.1 c.2.2.2.1 c.2.2.2.2) (MultiCouplingTerms.empty L)).toTermListS)
      (calls.map (fun c => (multiStr L c.2.1 c.2.2.1 c.2.2.2.1, c.1))) :=
  multi_termlist L calls h hsw

/-- **The hypothesis `SwitchOpOK` is needed (known finding 6).**  The valid call
`add_multi_coupling_term(1, [0,1,3], ['A','N','B'], ['N','s'], switchLR=1)` on 5 sites: `to_TermList` leaves the
operator on site 1 out and the string `'N'` runs on to site 3 — the term list denotes `A₀ N₁ N₂ B₃`, the added
term (and the MPO graph) is `A₀ N₁ s₂ B₃`. -/
theorem C10_terms_termlist_multi_counterexample :
    (∀ c ∈ badCalls, MultiCallOK 5 c.2.1 c.2.2.1 c.2.2.2.1 c.2.2.2.2) ∧
    ¬ (∀ c ∈ badCalls, SwitchOpOK c.2.1 c.2.2.1 c.2.2.2.1 c.2.2.2.2) ∧
    canon 0 (STermList.denote 5
        (badCalls.foldl (fun mt c => mt.add c.1 c.2.1 c.2.2.1 c.2.2.2.1 c.2.2.2.2) (MultiCouplingTerms.empty 5)).toTermListS)
      = [([(0, "A"), (1, "N"), (2, "N"), (3, "B")], 1)] ∧
    canon 0 (badCalls.map (fun c => (multiStr 5 c.2.1 c.2.2.1 c.2.2.2.1, c.1)))
      = [([(0, "A"), (1, "N"), (2, "s"), (3, "B")], 1)] :=
  multi_termlist_counterexample

/-- **MPO graph paths, exponentially decaying terms (weighted-automaton identity).**  For every
`ExponentiallyDecayingTerms` container on a finite chain whose terms passed the checks of the adders (`FWF`:
`subsites`, `subsites_start` strictly ascending inside the chain, `subsites_start` non-empty; centred terms:
`subsites` strictly ascending, `i ∈ subsites`), the graph built by `add_to_graph` — per term one state
`(nr, 'exp-decay')` with the self-loop `(op_string, λ_i)` on the sites of `subsites` (`(op_string, 1)` elsewhere),
opened from `IdL` by `(op_i, λ_i)` on the sites of `subsites_start`, closed into `IdR` by `(op_j, strength)` on the sites
of `subsites`; two such parts sharing one state for a centred term — denotes the term list
`to_TermList(cutoff=0, bc='finite')`: `Σ_{i ∈ start} Σ_{j ∈ subsites, j > i} strength · λ_i · Π_{n ∈ subsites, i<n<j} λ_n ·
op_i ⊗ str … ⊗ op_j` (the sum `Σ_r λ^r` along the self-loop), centred terms included. -/
theorem C10_graph_paths_exp {α : Type} [CommSemiring α] [Inhabited α] (L : Nat) (e : ExpDecayTerms α)
    (he : e.L = L) (hwf : e.FWF) :
    Sym.Equiv (denoteGraph (Graph.fromTerms L false [.expdecay e]))
      (STermList.denote L (e.toTermListFinite (fun _ => false))) :=
  exp_fromTerms L e he hwf

/-- **MPO graph = sum of terms, all kinds of terms in one graph** (the statement left open in `Props.lean`): for
onsite calls, valid `add_multi_coupling_term` calls and a well-formed container of exponentially decaying terms on
a finite chain, `MPOGraph.from_terms((onsite, multi, exp_decay))` denotes the sum of the onsite terms, the
multi-site terms and the term list of the exponentially decaying terms.  (Two-site `CouplingTerms` are merged into
the `MultiCouplingTerms` by `CouplingModel.calc_H_MPO` whenever multi-site terms are present; the key-disjoint
components — tries vs. `(nr, 'exp-decay')` states — add up by `paths_components`.) -/
theorem C10_graph_paths_all {α : Type} [CommSemiring α] [Inhabited α] (L : Nat)
    (ocalls : List (α × Nat × String)) (mcalls : List (α × List Int × List String × List String × Switch))
    (e : ExpDecayTerms α) (ho : ∀ c ∈ ocalls, c.2.1 < L)
    (hm : ∀ c ∈ mcalls, MultiCallOK L c.2.1 c.2.2.1 c.2.2.2.1 c.2.2.2.2) (he : e.L = L) (hwf : e.FWF) :
    Sym.Equiv
      (denoteGraph (Graph.fromTerms L false
        [.onsite (ocalls.foldl (fun ot c => ot.add c.1 c.2.1 c.2.2) (OnsiteTerms.empty L)),
         .multi (mcalls.foldl (fun mt c => mt.add c.1 c.2.1 c.2.2.1 c.2.2.2.1 c.2.2.2.2)
            (MultiCouplingTerms.empty L)),
         .expdecay e]))
      (ocalls.map (fun c => (onsiteStr L c.2.1 c.2.2, c.1)) ++
       mcalls.map (fun c => (multiStr L c.2.1 c.2.2.1 c.2.2.2.1, c.1)) ++
       STermList.denote L (e.toTermListFinite (fun _ => false))) := by
  obtain ⟨hwfo, hotL, hoden⟩ := OnsiteTerms.build_denote L ocalls ho
  obtain ⟨hmL, hgwf, hmden⟩ := multi_build L mcalls hm
  exact (all_fromTerms L _ _ e hotL (hwfo.len.trans hotL) hmL hgwf he hwf).trans
    (Sym.Equiv.append (Sym.Equiv.append hoden hmden) (Sym.Equiv.refl _))

/-! ## non-vacuity -/
section examples

/-- four calls: two of them identical up to the strength (merged into one connection), three sharing the left
prefix `(0, A, s)`, switch sites at an operator (`middle_i`), on a string site (`3`) and on the first site (`0`) -/
def ex2Calls : List (Int × List Int × List String × List String × Switch) :=
  [ (2, [0, 2, 3], ["A", "B", "C"], ["s", "t"], .middleI),
    (3, [0, 2, 4], ["A", "B", "D"], ["s", "t"], .at 3),
    (5, [0, 3], ["A", "E"], ["s"], .at 0),
    (7, [0, 2, 3], ["A", "B", "C"], ["s", "t"], .middleI) ]

def ex2Mt : MultiCouplingTerms Int :=
  ex2Calls.foldl (fun mt c => mt.add c.1 c.2.1 c.2.2.1 c.2.2.2.1 c.2.2.2.2) (MultiCouplingTerms.empty 5)

def ex2Ot : OnsiteTerms Int := (OnsiteTerms.empty 5).add 11 1 "Z"

/-- the imperative graph of the example has exactly the four expected path sums -/
example : canon 0 (denoteGraph (Graph.fromTerms 5 false [.onsite ex2Ot, .multi ex2Mt]))
    = [([(0, "A"), (1, "s"), (2, "B"), (3, "C")], 9), ([(0, "A"), (1, "s"), (2, "B"), (3, "t"), (4, "D")], 3),
       ([(0, "A"), (1, "s"), (2, "s"), (3, "E")], 5), ([(1, "Z")], 11)] := by decide +kernel

/-- … and so has the formal sum of the container -/
example : canon 0 (ex2Ot.denote ++ ex2Mt.connDenote)
    = [([(0, "A"), (1, "s"), (2, "B"), (3, "C")], 9), ([(0, "A"), (1, "s"), (2, "B"), (3, "t"), (4, "D")], 3),
       ([(0, "A"), (1, "s"), (2, "s"), (3, "E")], 5), ([(1, "Z")], 11)] := by decide +kernel

/-- the calls of the example meet the hypotheses of `C10_graph_paths_multi` and `C10_terms_termlist_multi` -/
example : ∀ c ∈ ex2Calls, MultiCallOK 5 c.2.1 c.2.2.1 c.2.2.2.1 c.2.2.2.2 := by
  intro c hc
  simp only [ex2Calls, List.mem_cons, List.not_mem_nil, or_false] at hc
  rcases hc with rfl | rfl | rfl | rfl <;>
    refine ⟨by decide, by decide, by decide, by decide, by decide, by decide, by decide, by decide⟩

example : ∀ c ∈ ex2Calls, SwitchOpOK c.2.1 c.2.2.1 c.2.2.2.1 c.2.2.2.2 := by decide

/-- the sum of the added terms, and the term list of the container -/
example : canon 0 (ex2Calls.map (fun c => (multiStr 5 c.2.1 c.2.2.1 c.2.2.2.1, c.1)))
    = [([(0, "A"), (1, "s"), (2, "B"), (3, "C")], 9), ([(0, "A"), (1, "s"), (2, "B"), (3, "t"), (4, "D")], 3),
       ([(0, "A"), (1, "s"), (2, "s"), (3, "E")], 5)] := by decide +kernel

example : canon 0 (STermList.denote 5 ex2Mt.toTermListS)
    = [([(0, "A"), (1, "s"), (2, "B"), (3, "C")], 9), ([(0, "A"), (1, "s"), (2, "B"), (3, "t"), (4, "D")], 3),
       ([(0, "A"), (1, "s"), (2, "s"), (3, "E")], 5)] := by decide +kernel

/-- a two-site coupling converted into the `MultiCouplingTerms`, followed by the calls of `ex2Calls` -/
example : canon 0 (denoteGraph (Graph.fromTerms 5 false [.multi
      (ex2Calls.foldl (fun mt c => mt.add c.1 c.2.1 c.2.2.1 c.2.2.2.1 c.2.2.2.2)
        ((MultiCouplingTerms.empty 5).iaddCoupling ((CouplingTerms.empty 5 : CouplingTerms Int).add 13 1 4 "X" "Y" "JW")))]))
    = [([(0, "A"), (1, "s"), (2, "B"), (3, "C")], 9), ([(0, "A"), (1, "s"), (2, "B"), (3, "t"), (4, "D")], 3),
       ([(0, "A"), (1, "s"), (2, "s"), (3, "E")], 5), ([(1, "X"), (2, "JW"), (3, "JW"), (4, "Y")], 13)] := by
  decide +kernel

/-- exponentially decaying terms: two plain terms (`subsites_start ≠ subsites` in the second, site-dependent
`lambda`) and a centred term on 5 sites meet `FWF`; graph and term list have the same 12 strings -/
example : expExE2.FWF := ⟨by decide, by decide, by decide⟩
example : canon 0 (denoteGraph (Graph.fromTerms 5 false [.expdecay expExE2])) =
    canon 0 (STermList.denote 5 (expExE2.toTermListFinite (fun _ => false))) := by decide +kernel

/-- all three kinds of terms in one graph -/
example : canon 0 (denoteGraph (Graph.fromTerms 5 false [.onsite ex2Ot, .multi ex2Mt, .expdecay expExE2])) =
    canon 0 (ex2Ot.denote ++ ex2Mt.connDenote ++ STermList.denote 5 (expExE2.toTermListFinite (fun _ => false))) := by
  decide +kernel

end examples
