import TenpyModel.C10.P2_MT9
/-!
# C10 / Props2 (`MultiCouplingTerms.to_TermList`), part 4: the hypothesis `SwitchOpOK` on a call

`to_TermList` decides by `op_switch != op_str` whether the switch site carries an operator of the term
(notes/C10.md, finding 6).  `SwitchOpOK` excludes exactly the calls for which this heuristic is wrong.
-/
namespace TenpyModel.Ops

open MultiCouplingTerms

/-- the call does not trigger the `op_switch != op_str` heuristic of `to_TermList` wrongly: if the resolved
switch site is the `n`-th site of the term and its operator has the same name as the operator string to its
left (`""` for `n = 0`, the model's string of an empty left path), then the site is an inner one and the
string to its right is the same string (or occupies no site) — so that leaving the site out does no harm.
If the switch site is none of the sites of the term nothing is required. -/
def SwitchOpOK (ijkl : List Int) (ops strs : List String) (sw : Switch) : Prop :=
  ∀ n, n < ijkl.length → ijkl.getD n 0 = resolveSwitch ijkl sw →
    ops.getD n "" = (if n = 0 then "" else strs.getD (n - 1) "") →
    0 < n ∧ n + 1 < ijkl.length ∧
      (strs.getD n "" = strs.getD (n - 1) "" ∨ ijkl.getD (n + 1) 0 = ijkl.getD n 0 + 1)

instance (ijkl : List Int) (ops strs : List String) (sw : Switch) : Decidable (SwitchOpOK ijkl ops strs sw) := by
  unfold SwitchOpOK
  infer_instance

/-- `SwitchOpOK` for the sites after the first one; `strsP[n]` = string left of `js[n]` -/
def TailIdx (swi : Int) (js : List Int) (os strsP : List String) : Prop :=
  ∀ n, n < js.length → js.getD n 0 = swi → os.getD n "" = strsP.getD n "" →
    n + 1 < js.length ∧ (strsP.getD (n + 1) "" = strsP.getD n "" ∨ js.getD (n + 1) 0 = js.getD n 0 + 1)

theorem TailIdx.tail {swi : Int} {j : Int} {js : List Int} {o : String} {os : List String} {s : String}
    {ss : List String} (h : TailIdx swi (j :: js) (o :: os) (s :: ss)) : TailIdx swi js os ss := by
  intro n hn h1 h2
  have := h (n + 1) (by simpa using hn) (by simpa using h1) (by simpa using h2)
  simpa using this

theorem lastStrOf_cons_cons (a b : MKey) (l : List MKey) : lastStrOf (a :: b :: l) = lastStrOf (b :: l) := by
  unfold lastStrOf
  rw [List.getLast?_cons_cons]

theorem tail_cond (swi : Int) : ∀ (js : List Int) (os ss : List String) (i : Int) (op s : String),
    os.length = js.length → ss.length + 1 = js.length → (i :: js).Pairwise (· < ·) → i < swi →
    (∃ x ∈ js, swi ≤ x) → TailIdx swi js os (s :: ss) →
    opSwFrom swi s js os ss =
      lastStrOf ((i, op, s) :: (js.zip (os.zip ss)).takeWhile (fun t => decide (t.1 < swi))) →
    ∃ r, ((js.zip (os.zip (s :: ss))).filter (fun t => decide (swi < t.1))).head? = some r ∧
      (r.2.2 = lastStrOf ((i, op, s) :: (js.zip (os.zip ss)).takeWhile (fun t => decide (t.1 < swi))) ∨
        r.1 = swi + 1) := by
  intro js
  induction js with
  | nil => intro os ss i op s _ _ _ _ hex; obtain ⟨x, hx, _⟩ := hex; cases hx
  | cons j js ih =>
    intro os ss i op s h1 h2 hasc hlt hex hidx heq
    cases os with
    | nil => simp at h1
    | cons o os =>
      simp only [List.length_cons, Nat.add_right_cancel_iff] at h1 h2
      have hasc' := hasc
      rw [List.pairwise_cons] at hasc'
      rcases lt_trichotomy j swi with hj | hj | hj
      · obtain ⟨x, hx, hxs⟩ := hex
        have hxj : x ∈ js := by
          rcases List.mem_cons.1 hx with rfl | hx
          · omega
          · exact hx
        cases ss with
        | nil =>
          have : js = [] := List.eq_nil_of_length_eq_zero (by simpa using h2.symm)
          rw [this] at hxj; cases hxj
        | cons s' ss =>
          have hne : ¬ swi = j := by omega
          have hnl : ¬ swi < j := by omega
          simp only [List.zip_cons_cons, List.takeWhile_cons, hj, decide_true, if_true, lastStrOf_cons_cons,
            List.filter_cons, hnl, decide_false, Bool.false_eq_true, if_false] at heq ⊢
          simp only [opSwFrom, hne, hnl, if_false, List.headD_cons, List.tail_cons] at heq
          exact ih os ss j o s' h1 h2 hasc'.2 hj ⟨x, hxj, hxs⟩ hidx.tail heq
      · subst hj
        cases ss with
        | nil =>
          have hjs : js = [] := List.eq_nil_of_length_eq_zero (by simpa using h2.symm)
          subst hjs
          simp only [opSwFrom, if_true, List.headD_cons, List.zip_nil_right,
            List.takeWhile_nil] at heq
          have hl : lastStrOf [(i, op, s)] = s := rfl
          rw [hl] at heq
          have := hidx 0 (by simp) (by simp) (by simpa using heq)
          simp at this
        | cons s' ss =>
          simp only [opSwFrom, if_true, List.headD_cons, List.zip_cons_cons, List.takeWhile_cons, lt_irrefl,
            decide_false, Bool.false_eq_true, if_false] at heq
          have hl : lastStrOf [(i, op, s)] = s := rfl
          rw [hl] at heq
          obtain ⟨hlen, hor⟩ := hidx 0 (by simp) (by simp) (by simpa using heq)
          cases js with
          | nil => simp at hlen
          | cons j' js =>
            cases os with
            | nil => simp at h1
            | cons o' os =>
              have hjj' : j < j' := (List.pairwise_cons.1 hasc'.2).1 j' List.mem_cons_self
              refine ⟨(j', o', s'), ?_, ?_⟩
              · simp [hjj']
              · simp only [List.zip_cons_cons, List.takeWhile_cons, lt_irrefl, decide_false,
                  Bool.false_eq_true, if_false, hl]
                simpa using hor
      · have hnl : ¬ j < swi := by omega
        refine ⟨(j, o, s), ?_, Or.inl ?_⟩
        · simp [hj]
        · cases ss with
          | nil => simp [lastStrOf]
          | cons s' ss => simp [hnl, lastStrOf]

section
variable {α : Type}

/-- the connection of a valid call satisfying `SwitchOpOK` fulfils the switch condition -/
theorem call_swCond (L : Nat) (s : α) (ijkl : List Int) (ops strs : List String) (sw : Switch)
    (h : MultiCallOK L ijkl ops strs sw) (hsw : SwitchOpOK ijkl ops strs sw) :
    SwCond (leftPathOf ijkl ops strs (resolveSwitch ijkl sw)) (rightPathOf ijkl ops strs (resolveSwitch ijkl sw) 0)
      (⟨resolveSwitch ijkl sw, opSwitchOf (resolveSwitch ijkl sw) ijkl ops strs 0, 0, s⟩ : Conn α) := by
  obtain ⟨hlen, hops, hstrs, hasc, h0, hlo, hhi, _⟩ := h
  unfold SwitchOpOK at hsw
  generalize resolveSwitch ijkl sw = swi at *
  cases ijkl with
  | nil => simp at hlen
  | cons i is =>
    cases ops with
    | nil => simp at hops
    | cons op ops =>
      simp only [List.length_cons, Nat.add_right_cancel_iff] at hops hstrs
      simp only [List.headD_cons] at h0 hlo
      have hasc' := hasc
      rw [List.pairwise_cons] at hasc'
      have hne : is ≠ [] := by
        intro hh; subst hh; simp at hlen
      cases strs with
      | nil => exact absurd (List.eq_nil_of_length_eq_zero hstrs.symm) hne
      | cons s' ss =>
        unfold SwCond
        show opSwitchOf swi (i :: is) (op :: ops) (s' :: ss) 0 = _ → _ ∧ ∃ r : MKey, _ ∧ (_ ∨ r.1 = swi + 1)
        rw [← List.head?_reverse, rightPathOf_zero,
          rightPath_reverse i is op ops (s' :: ss) swi hops hstrs hasc'.2, opSwitchOf_eq]
        simp only [leftPathOf, List.zip_cons_cons, List.drop_zero]
        rcases lt_or_eq_of_le hlo with hi | hi
        · have hex : ∃ x ∈ is, swi ≤ x := by
            refine ⟨(i :: is).getLastD 0, ?_, hhi⟩
            rcases List.mem_cons.1 (getLastD_mem_of_ne_nil (i :: is) (by simp)) with hh | hh
            · omega
            · exact hh
          have hn1 : ¬ swi = i := by omega
          have hn2 : ¬ swi < i := by omega
          rw [List.takeWhile_cons_of_pos (by simpa using hi)]
          simp only [opSwFrom, hn1, hn2, if_false, List.headD_cons, List.tail_cons]
          intro heq
          refine ⟨by simp, ?_⟩
          have hidx : TailIdx swi is ops (s' :: ss) := by
            intro n hn e1 e2
            have := hsw (n + 1) (by simpa using hn) (by simpa using e1) (by simpa using e2)
            simpa using this.2
          exact tail_cond swi is ops ss i op s' hops (by simpa using hstrs) hasc hi hex hidx heq
        · subst hi
          rw [List.takeWhile_cons_of_neg (by simp)]
          simp only [opSwFrom, if_true, List.headD_cons]
          intro heq
          have := hsw 0 (by simp) (by simp) (by simpa [lastStrOf] using heq)
          simp at this

end

end TenpyModel.Ops
