import TenpyModel.C10.P2_Chain
/-!
# C10 / Props2: "insert the edge unless it is there" — the common content of `MPOGraph.add(skip_existing=True)`
and of the `has_edge` test in `add_string_left_to_right` / `add_string_right_to_left` for edges that are
determined by their two keys
-/
namespace TenpyModel.Ops

section inj

theorem keyAtoms_inj : ∀ (q q' : List MKey), keyAtoms q = keyAtoms q' → q = q' := by
  intro q
  induction q with
  | nil =>
    intro q' h
    cases q' with
    | nil => rfl
    | cons t q' => simp [keyAtoms] at h
  | cons t q ih =>
    intro q' h
    cases q' with
    | nil => simp [keyAtoms] at h
    | cons t' q' =>
      simp only [keyAtoms, List.flatMap_cons, List.cons_append, List.nil_append, List.cons.injEq,
        Atom.n.injEq, Atom.s.injEq] at h
      obtain ⟨h1, h2, h3, h4⟩ := h
      have := ih q' h4
      subst this
      congr 1
      exact Prod.ext h1 (Prod.ext h2 h3)

theorem lkey_snoc_inj (q q' : List MKey) (t t' : MKey) (h : lkey (q ++ [t]) = lkey (q' ++ [t'])) :
    q = q' ∧ t = t' := by
  rw [lkey_snoc, lkey_snoc] at h
  simp only [Key.tup.injEq, List.cons.injEq, true_and] at h
  have := keyAtoms_inj _ _ h
  exact List.append_singleton_inj.1 this

theorem rkey_snoc_inj (q q' : List MKey) (t t' : MKey) (h : rkey (q ++ [t]) = rkey (q' ++ [t'])) :
    q = q' ∧ t = t' := by
  rw [rkey_snoc, rkey_snoc] at h
  simp only [Key.tup.injEq, List.cons.injEq, true_and] at h
  have := keyAtoms_inj _ _ h
  exact List.append_singleton_inj.1 this

theorem lkey_snoc_isTrie (q : List MKey) (t : MKey) : (lkey (q ++ [t])).isTrie = true := by
  rw [lkey_snoc]; rfl

theorem rkey_snoc_isTrie (q : List MKey) (t : MKey) : (rkey (q ++ [t])).isTrie = true := by
  rw [rkey_snoc]; rfl

theorem lkey_snoc_ne_IdL (q : List MKey) (t : MKey) : lkey (q ++ [t]) ≠ Key.IdL := by
  rw [lkey_snoc]; simp [Key.IdL]

theorem rkey_snoc_ne_IdR (q : List MKey) (t : MKey) : rkey (q ++ [t]) ≠ Key.IdR := by
  rw [rkey_snoc]; simp [Key.IdR]

end inj

section canon
variable {α : Type} [One α]

/-- the edge entering the left-trie key `lkey (q ++ [t])` on site `k`: the step `lkey q → …` on the site of
`t`, the loop with the string of `t` on later sites -/
def CanonL (k : Nat) (e : Edge Key α) : Prop :=
  ∃ (q : List MKey) (t : MKey), e.kR = lkey (q ++ [t]) ∧ e.c = 1 ∧
    ((t.1 = (k : Int) ∧ e.kL = lkey q ∧ e.op = t.2.1) ∨ (t.1 < (k : Int) ∧ e.kL = lkey (q ++ [t]) ∧ e.op = t.2.2))

/-- the edge leaving the right-trie key `rkey (q ++ [t])` on site `k` -/
def CanonR (k : Nat) (e : Edge Key α) : Prop :=
  ∃ (q : List MKey) (t : MKey), e.kL = rkey (q ++ [t]) ∧ e.c = 1 ∧
    ((t.1 = (k : Int) ∧ e.kR = rkey q ∧ e.op = t.2.1) ∨ ((k : Int) < t.1 ∧ e.kR = rkey (q ++ [t]) ∧ e.op = t.2.2))

theorem canonL_det (k : Nat) (e e' : Edge Key α) (h : CanonL k e) (h' : CanonL k e') (hk : e.kR = e'.kR) :
    e = e' := by
  obtain ⟨q, t, h1, h2, h3⟩ := h
  obtain ⟨q', t', h1', h2', h3'⟩ := h'
  obtain ⟨rfl, rfl⟩ := lkey_snoc_inj q q' t t' (h1.symm.trans (hk.trans h1'))
  obtain ⟨a, b, c, d⟩ := e
  obtain ⟨a', b', c', d'⟩ := e'
  simp only at h1 h2 h3 h1' h2' h3' hk
  subst h1 h1' h2 h2'
  rcases h3 with ⟨x1, x2, x3⟩ | ⟨x1, x2, x3⟩ <;> rcases h3' with ⟨y1, y2, y3⟩ | ⟨y1, y2, y3⟩
  · subst x2 y2 x3 y3; rfl
  · omega
  · omega
  · subst x2 y2 x3 y3; rfl

theorem canonR_det (k : Nat) (e e' : Edge Key α) (h : CanonR k e) (h' : CanonR k e') (hk : e.kL = e'.kL) :
    e = e' := by
  obtain ⟨q, t, h1, h2, h3⟩ := h
  obtain ⟨q', t', h1', h2', h3'⟩ := h'
  obtain ⟨rfl, rfl⟩ := rkey_snoc_inj q q' t t' (h1.symm.trans (hk.trans h1'))
  obtain ⟨a, b, c, d⟩ := e
  obtain ⟨a', b', c', d'⟩ := e'
  simp only at h1 h2 h3 h1' h2' h3' hk
  subst h1 h1' h2 h2'
  rcases h3 with ⟨x1, x2, x3⟩ | ⟨x1, x2, x3⟩ <;> rcases h3' with ⟨y1, y2, y3⟩ | ⟨y1, y2, y3⟩
  · subst x2 y2 x3 y3; rfl
  · omega
  · omega
  · subst x2 y2 x3 y3; rfl

/-- every edge is an old one without trie keys or a canonical edge of one of the two tries -/
def AllCanon (L : Nat) (S : Nat → List (Edge Key α)) : Prop :=
  ∀ k, k < L → ∀ e ∈ S k, (e.kL.isTrie = false ∧ e.kR.isTrie = false) ∨ CanonL k e ∨ CanonR k e

theorem canonL_kR_trie (k : Nat) (e : Edge Key α) (h : CanonL k e) : e.kR.isTrie = true := by
  obtain ⟨q, t, h1, _⟩ := h
  rw [h1]; exact lkey_snoc_isTrie q t

theorem canonR_kL_trie (k : Nat) (e : Edge Key α) (h : CanonR k e) : e.kL.isTrie = true := by
  obtain ⟨q, t, h1, _⟩ := h
  rw [h1]; exact rkey_snoc_isTrie q t

theorem Key.isTrie_left_right (k : Key) (h1 : k.isLeft = true) (h2 : k.isRight = true) : False := by
  rw [Key.not_left_of_right k h2] at h1
  cases h1

theorem canonL_kL_not_right (k : Nat) (e : Edge Key α) (h : CanonL k e) : e.kL.isRight = false := by
  obtain ⟨q, t, _, _, h3⟩ := h
  rcases h3 with ⟨_, h, _⟩ | ⟨_, h, _⟩ <;> rw [h] <;> exact lkey_not_isRight _

theorem canonR_kR_not_left (k : Nat) (e : Edge Key α) (h : CanonR k e) : e.kR.isLeft = false := by
  obtain ⟨q, t, _, _, h3⟩ := h
  rcases h3 with ⟨_, h, _⟩ | ⟨_, h, _⟩ <;> rw [h] <;> exact rkey_not_isLeft _

/-- in a graph of old and canonical edges a canonical edge is determined by its two keys -/
theorem det_of_allCanon (L : Nat) (S : Nat → List (Edge Key α)) (h : AllCanon L S) (k : Nat) (hk : k < L)
    (e : Edge Key α) (he : CanonL k e ∨ CanonR k e) :
    ∀ e' ∈ S k, e'.kL = e.kL → e'.kR = e.kR → e' = e := by
  intro e' he' hkl hkr
  rcases he with he | he
  · have ht := canonL_kR_trie k e he
    rcases h k hk e' he' with ⟨_, h2⟩ | h2 | h2
    · rw [hkr, ht] at h2; cases h2
    · exact canonL_det k e' e h2 he hkr
    · exfalso
      have := canonR_kR_not_left k e' h2
      obtain ⟨q, t, h1, _⟩ := he
      rw [hkr, h1, lkey_isLeft] at this
      cases this
  · have ht := canonR_kL_trie k e he
    rcases h k hk e' he' with ⟨h1, _⟩ | h2 | h2
    · rw [hkl, ht] at h1; cases h1
    · exfalso
      have := canonL_kL_not_right k e' h2
      obtain ⟨q, t, h1, _⟩ := he
      rw [hkl, h1, rkey_isRight] at this
      cases this
    · exact canonR_det k e' e h2 he hkl

end canon

section ens
variable {α : Type} [DecidableEq α]

/-- insert `e` on site `k` unless it is already there -/
def ensS (S : Nat → List (Edge Key α)) (k : Nat) (e : Edge Key α) : Nat → List (Edge Key α) :=
  fun k' => if k' = k then (if e ∈ S k' then S k' else S k' ++ [e]) else S k'

def ensList (S : Nat → List (Edge Key α)) (xs : List (Nat × Edge Key α)) : Nat → List (Edge Key α) :=
  xs.foldl (fun S x => ensS S x.1 x.2) S

theorem ensS_of_mem (S : Nat → List (Edge Key α)) (k : Nat) (e : Edge Key α) (h : e ∈ S k) : ensS S k e = S := by
  funext k'
  unfold ensS
  by_cases hk : k' = k
  · subst hk; simp [h]
  · simp [hk]

theorem ensS_of_not_mem (S : Nat → List (Edge Key α)) (k : Nat) (e : Edge Key α) (h : e ∉ S k) :
    ensS S k e = upd S k e := by
  funext k'
  unfold ensS upd
  by_cases hk : k' = k
  · subst hk; simp [h]
  · simp [hk]

theorem ensS_mono (S : Nat → List (Edge Key α)) (k : Nat) (e e' : Edge Key α) (k' : Nat) (h : e' ∈ S k') :
    e' ∈ ensS S k e k' := by
  unfold ensS
  split
  · split
    · exact h
    · exact List.mem_append_left _ h
  · exact h

theorem ensS_mem (S : Nat → List (Edge Key α)) (k : Nat) (e : Edge Key α) : e ∈ ensS S k e k := by
  unfold ensS
  simp only [if_true]
  split
  · assumption
  · simp

theorem ensS_prov (S : Nat → List (Edge Key α)) (k : Nat) (e e' : Edge Key α) (k' : Nat)
    (h : e' ∈ ensS S k e k') : e' ∈ S k' ∨ (k' = k ∧ e' = e) := by
  unfold ensS at h
  split at h
  · next hk =>
    split at h
    · exact Or.inl h
    · rcases List.mem_append.1 h with h | h
      · exact Or.inl h
      · exact Or.inr ⟨hk, by simpa using h⟩
  · exact Or.inl h

theorem ensList_nil (S : Nat → List (Edge Key α)) : ensList S [] = S := rfl

theorem ensList_cons (S : Nat → List (Edge Key α)) (x : Nat × Edge Key α) (xs : List (Nat × Edge Key α)) :
    ensList S (x :: xs) = ensList (ensS S x.1 x.2) xs := rfl

theorem ensList_append (S : Nat → List (Edge Key α)) (xs ys : List (Nat × Edge Key α)) :
    ensList S (xs ++ ys) = ensList (ensList S xs) ys := by
  unfold ensList
  rw [List.foldl_append]

theorem ensList_mono (xs : List (Nat × Edge Key α)) : ∀ (S : Nat → List (Edge Key α)) (e' : Edge Key α) (k' : Nat),
    e' ∈ S k' → e' ∈ ensList S xs k' := by
  induction xs with
  | nil => intro S e' k' h; exact h
  | cons x xs ih =>
    intro S e' k' h
    rw [ensList_cons]
    exact ih _ _ _ (ensS_mono S x.1 x.2 e' k' h)

theorem ensList_mem (xs : List (Nat × Edge Key α)) : ∀ (S : Nat → List (Edge Key α)) (x : Nat × Edge Key α),
    x ∈ xs → x.2 ∈ ensList S xs x.1 := by
  induction xs with
  | nil => intro S x h; simp at h
  | cons y xs ih =>
    intro S x h
    rw [ensList_cons]
    rcases List.mem_cons.1 h with rfl | h
    · exact ensList_mono xs _ _ _ (ensS_mem S _ _)
    · exact ih _ x h

theorem ensList_prov (xs : List (Nat × Edge Key α)) : ∀ (S : Nat → List (Edge Key α)) (e' : Edge Key α) (k' : Nat),
    e' ∈ ensList S xs k' → e' ∈ S k' ∨ (k', e') ∈ xs := by
  induction xs with
  | nil => intro S e' k' h; exact Or.inl h
  | cons x xs ih =>
    intro S e' k' h
    rw [ensList_cons] at h
    rcases ih _ _ _ h with h | h
    · rcases ensS_prov S x.1 x.2 e' k' h with h | ⟨h1, h2⟩
      · exact Or.inl h
      · right; rw [h1, h2]; exact List.mem_cons_self
    · exact Or.inr (List.mem_cons_of_mem _ h)

/-- the new edges are appended and pairwise distinct -/
theorem ensList_form (xs : List (Nat × Edge Key α)) : ∀ (S : Nat → List (Edge Key α)),
    ∃ N : Nat → List (Edge Key α), (∀ k, ensList S xs k = S k ++ N k) ∧ (∀ k, (N k).Nodup) ∧
      (∀ k, ∀ e ∈ N k, e ∉ S k) := by
  induction xs with
  | nil => intro S; exact ⟨fun _ => [], by simp [ensList_nil], by simp, by simp⟩
  | cons x xs ih =>
    intro S
    rw [ensList_cons]
    obtain ⟨N, h1, h2, h3⟩ := ih (ensS S x.1 x.2)
    by_cases hx : x.2 ∈ S x.1
    · rw [ensS_of_mem S _ _ hx] at h1 h3 ⊢
      exact ⟨N, h1, h2, h3⟩
    · rw [ensS_of_not_mem S _ _ hx] at h1 h3 ⊢
      refine ⟨fun k => if k = x.1 then x.2 :: N k else N k, ?_, ?_, ?_⟩
      · intro k
        rw [h1]
        unfold upd
        by_cases hk : k = x.1
        · simp [hk]
        · simp [hk]
      · intro k
        by_cases hk : k = x.1
        · simp only [hk, if_true, List.nodup_cons]
          refine ⟨?_, h2 _⟩
          intro hmem
          have := h3 x.1 x.2 hmem
          apply this
          unfold upd
          simp
        · simp only [hk, if_false]; exact h2 k
      · intro k e he
        by_cases hk : k = x.1
        · simp only [hk, if_true, List.mem_cons] at he
          subst hk
          rcases he with rfl | he
          · exact hx
          · have := h3 _ e he
            intro hc
            apply this
            unfold upd
            simp [hc]
        · simp only [hk, if_false] at he
          have := h3 k e he
          intro hc
          apply this
          unfold upd
          simp [hk, hc]

end ens

section repens
variable {α : Type} [DecidableEq α] [One α]

omit [DecidableEq α] [One α] in
theorem add_layers_noPush (g : Graph α) (i : Int) (kL kR : Key) (op : String) (c : α) (e' : Edge Key α)
    (he' : e' ∈ g.layers.getD (g.siteOf i) []) (h1 : e'.kL = kL) (h2 : e'.kR = kR) (h3 : e'.op = op) :
    (g.add i kL kR op c true).layers = g.layers := by
  rw [add_layers]
  have hmem : e' ∈ (g.layers.getD (g.siteOf i) []).filter (fun e => e.kL = kL && e.kR = kR) :=
    List.mem_filter.2 ⟨he', by simp [h1, h2]⟩
  have hne : ((g.layers.getD (g.siteOf i) []).filter (fun e => e.kL = kL && e.kR = kR)).isEmpty = false := by
    cases hf : (g.layers.getD (g.siteOf i) []).filter (fun e => e.kL = kL && e.kR = kR) with
    | nil => rw [hf] at hmem; simp at hmem
    | cons _ _ => rfl
  have hany : ((g.layers.getD (g.siteOf i) []).filter (fun e => e.kL = kL && e.kR = kR)).any (fun e => e.op = op)
      = true := List.any_eq_true.2 ⟨e', hmem, by simp [h3]⟩
  rw [hne, hany]
  rfl

omit [DecidableEq α] [One α] in
theorem Rep.of_layers {L : Nat} {g g' : Graph α} {S : Nat → List (Edge Key α)} (h : Rep L g S)
    (hL : g'.L = g.L) (hl : g'.layers = g.layers) : Rep L g' S :=
  ⟨hL.trans h.1, hl ▸ h.2.1, fun k hk => hl ▸ h.2.2 k hk⟩

/-- `add(…, skip_existing=True)` of an edge that is determined by its keys -/
theorem rep_ensure_add {L : Nat} {g : Graph α} {S : Nat → List (Edge Key α)} (h : Rep L g S) (i : Int)
    (h0 : 0 ≤ i) (h1 : i < (L : Int)) (e : Edge Key α)
    (hdet : ∀ e' ∈ S i.toNat, e'.kL = e.kL → e'.kR = e.kR → e' = e) :
    Rep L (g.add i e.kL e.kR e.op e.c true) (ensS S i.toNat e) := by
  have hk : i.toNat < L := by omega
  by_cases he : e ∈ S i.toNat
  · rw [ensS_of_mem S _ _ he]
    have he' : e ∈ g.layers.getD (g.siteOf i) [] := by
      rw [siteOf_of h.1 i h0 h1]
      exact (h.2.2 _ hk).mem_iff.2 he
    exact h.of_layers (add_L _ _ _ _ _ _ _) (add_layers_noPush g i e.kL e.kR e.op e.c e he' rfl rfl rfl)
  · rw [ensS_of_not_mem S _ _ he]
    exact h.add i h0 h1 e.kL e.kR e.op e.c true
      (Or.inr (fun e' he' hc => he ((hdet e' he' hc.1 hc.2) ▸ he')))

/-- the `has_edge` guard of the string loops -/
theorem rep_ensure_guard {L : Nat} {g : Graph α} {S : Nat → List (Edge Key α)} (h : Rep L g S) (i : Int)
    (h0 : 0 ≤ i) (h1 : i < (L : Int)) (e : Edge Key α)
    (hdet : ∀ e' ∈ S i.toNat, e'.kL = e.kL → e'.kR = e.kR → e' = e) :
    Rep L (if g.hasEdge (g.siteOf i) e.kL e.kR then g else g.add i e.kL e.kR e.op e.c true)
      (ensS S i.toNat e) := by
  have hk : i.toNat < L := by omega
  rw [siteOf_of h.1 i h0 h1]
  by_cases hex : g.hasEdge i.toNat e.kL e.kR = true
  · rw [if_pos hex]
    obtain ⟨e', he', hc⟩ := (hasEdge_iff h i.toNat hk e.kL e.kR).1 hex
    have : e ∈ S i.toNat := (hdet e' he' hc.1 hc.2) ▸ he'
    rw [ensS_of_mem S _ _ this]
    exact h
  · rw [if_neg hex]
    exact rep_ensure_add h i h0 h1 e hdet

theorem allCanon_ensS (L : Nat) (S : Nat → List (Edge Key α)) (h : AllCanon L S) (k : Nat) (e : Edge Key α)
    (he : CanonL k e ∨ CanonR k e) : AllCanon L (ensS S k e) := by
  intro k' hk' e' he'
  rcases ensS_prov S k e e' k' he' with h' | ⟨rfl, rfl⟩
  · exact h k' hk' e' h'
  · exact Or.inr he

theorem allCanon_ensList (L : Nat) (xs : List (Nat × Edge Key α)) : ∀ (S : Nat → List (Edge Key α)),
    AllCanon L S → (∀ x ∈ xs, CanonL x.1 x.2 ∨ CanonR x.1 x.2) → AllCanon L (ensList S xs) := by
  induction xs with
  | nil => intro S h _; exact h
  | cons x xs ih =>
    intro S h hx
    rw [ensList_cons]
    exact ih _ (allCanon_ensS L S h x.1 x.2 (hx x List.mem_cons_self))
      (fun y hy => hx y (List.mem_cons_of_mem _ hy))

end repens

end TenpyModel.Ops
