import TenpyModel.C10.P2_MT3
/-!
# C10 / Props2 (container level of `MultiCouplingTerms`), part 4: which path a counter sits on

`pathOf` (the lookup of `_fill_term_list`) after `pushCounter` / `touch`, and for a counter found in the counter
list of a given path (`countersAt`) when the counter lists are pairwise disjoint.
-/
namespace TenpyModel.Ops

open MultiCouplingTerms

theorem pathOf_cons (p : MPath) (ps : List MPath) (c : Nat) :
    pathOf (p :: ps) c = if p.counters.contains c then some p.path else pathOf ps c := by
  unfold pathOf
  rw [List.find?_cons]
  split <;> simp_all

theorem pathOf_map (f : MPath → MPath) (c : Nat) : ∀ (ps : List MPath),
    (∀ p ∈ ps, (f p).path = p.path ∧ (f p).counters.contains c = p.counters.contains c) →
    pathOf (ps.map f) c = pathOf ps c := by
  intro ps
  induction ps with
  | nil => intro _; rfl
  | cons p ps ih =>
    intro h
    rw [List.map_cons, pathOf_cons, pathOf_cons, (h p List.mem_cons_self).1, (h p List.mem_cons_self).2,
      ih (fun q hq => h q (List.mem_cons_of_mem _ hq))]

theorem pathOf_append_singleton (ps : List MPath) (q : MPath) (c : Nat) :
    pathOf (ps ++ [q]) c = (pathOf ps c).or (if q.counters.contains c then some q.path else none) := by
  induction ps with
  | nil =>
    rw [List.nil_append, pathOf_cons]
    simp [pathOf]
  | cons p ps ih =>
    rw [List.cons_append, pathOf_cons, pathOf_cons, ih]
    split <;> simp

theorem pathOf_none_of_fresh (c : Nat) : ∀ (ps : List MPath), (∀ p ∈ ps, c ∉ p.counters) → pathOf ps c = none := by
  intro ps
  induction ps with
  | nil => intro _; rfl
  | cons p ps ih =>
    intro h
    rw [pathOf_cons, ih (fun q hq => h q (List.mem_cons_of_mem _ hq))]
    have := h p List.mem_cons_self
    simp [this]

/-- other counters keep their path when a counter is pushed -/
theorem pathOf_pushCounter_ne (ps : List MPath) (path : List MKey) (c c' : Nat) (hne : c' ≠ c) :
    pathOf (pushCounter ps path c) c' = pathOf ps c' := by
  unfold pushCounter
  split
  · apply pathOf_map
    intro p _
    split
    · refine ⟨rfl, ?_⟩
      simp [hne]
    · exact ⟨rfl, rfl⟩
  · rw [pathOf_append_singleton]
    simp [hne]

/-- a fresh counter sits on the path it was pushed to -/
theorem pathOf_pushCounter_self (ps : List MPath) (path : List MKey) (c : Nat)
    (hfresh : ∀ p ∈ ps, c ∉ p.counters) : pathOf (pushCounter ps path c) c = some path := by
  unfold pushCounter
  split
  · rename_i hany
    obtain ⟨p0, hp0, hpp⟩ := List.any_eq_true.1 hany
    have hpp' : p0.path = path := by simpa using hpp
    clear hany hpp
    induction ps with
    | nil => cases hp0
    | cons p ps ih =>
      rw [List.map_cons, pathOf_cons]
      by_cases hp : p.path = path
      · simp [hp]
      · have hc := hfresh p List.mem_cons_self
        simp only [hp, if_false]
        rw [if_neg (by simpa using hc)]
        rcases List.mem_cons.1 hp0 with rfl | hp0
        · exact absurd hpp' hp
        · exact ih (fun q hq => hfresh q (List.mem_cons_of_mem _ hq)) hp0
  · rw [pathOf_append_singleton, pathOf_none_of_fresh c ps hfresh]
    simp

theorem pathOf_touch (ps : List MPath) (path : List MKey) (c : Nat) :
    pathOf (touch ps path) c = pathOf ps c := by
  unfold touch
  split
  · rfl
  · rw [pathOf_append_singleton]
    simp

theorem countersAt_cons (p : MPath) (ps : List MPath) (path : List MKey) :
    countersAt (p :: ps) path = if p.path = path then p.counters else countersAt ps path := by
  unfold countersAt
  rw [List.find?_cons]
  by_cases h : p.path = path <;> simp [h]

theorem mem_countersAt (path : List MKey) (c : Nat) : ∀ (ps : List MPath), c ∈ countersAt ps path →
    ∃ p ∈ ps, p.path = path ∧ c ∈ p.counters := by
  intro ps
  induction ps with
  | nil => intro h; simp [countersAt] at h
  | cons p ps ih =>
    intro h
    rw [countersAt_cons] at h
    split at h
    · rename_i hp
      exact ⟨p, List.mem_cons_self, hp, h⟩
    · obtain ⟨q, hq, h1, h2⟩ := ih h
      exact ⟨q, List.mem_cons_of_mem _ hq, h1, h2⟩

/-- a counter stored at the end of `path` is found there by `_fill_term_list` -/
theorem pathOf_of_mem_countersAt (path : List MKey) (c : Nat) : ∀ (ps : List MPath),
    ps.Pairwise (fun p q => p.path ≠ q.path ∧ ∀ c ∈ p.counters, c ∉ q.counters) →
    c ∈ countersAt ps path → pathOf ps c = some path := by
  intro ps
  induction ps with
  | nil => intro _ h; simp [countersAt] at h
  | cons p ps ih =>
    intro hd h
    rw [List.pairwise_cons] at hd
    rw [countersAt_cons] at h
    rw [pathOf_cons]
    split at h
    · rename_i hp
      rw [if_pos (by simpa using h), hp]
    · obtain ⟨q, hq, _, hcq⟩ := mem_countersAt path c ps h
      have : c ∉ p.counters := fun hcp => (hd.1 q hq).2 c hcp hcq
      rw [if_neg (by simpa using this)]
      exact ih hd.2 h

end TenpyModel.Ops
