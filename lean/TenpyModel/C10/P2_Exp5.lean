import TenpyModel.C10.P2_Exp4
/-!
# C10 / Props2: exponentially decaying terms, part 5: the one-label automaton of a plain term
-/
namespace TenpyModel.Ops

section
variable {α : Type} [CommSemiring α] [Inhabited α]

structure ExpTerm.OK (t : ExpTerm α) (L : Nat) : Prop where
  subs : t.subsites.Pairwise (· < ·)
  subsL : ∀ j ∈ t.subsites, j < L
  starts : t.subsitesStart.Pairwise (· < ·)
  startsL : ∀ j ∈ t.subsitesStart, j < L
  ne : t.subsitesStart ≠ []

/-- the edges of a plain term on site `k`, conditions simplified with the help of `ExpTerm.OK` -/
def ExpTerm.cleanAt (t : ExpTerm α) (lab : Key) (k : Nat) : List (Edge Key α) :=
  ((if k ∈ t.subsitesStart ∧ k < t.last then [⟨Key.IdL, lab, t.opi, lamAt t.lam k⟩] else []) ++
   (if t.first < k ∧ k < t.last then [⟨lab, lab, t.str, t.lc k⟩] else [])) ++
   (if k ∈ t.subsites ∧ t.first < k then [⟨lab, Key.IdR, t.opj, t.strength⟩] else [])

theorem ExpTerm.edgesAt_perm (t : ExpTerm α) (L : Nat) (hok : t.OK L) (lab : Key) (k : Nat) :
    (t.edgesAt lab k).Perm (t.cleanAt lab k) := by
  have hF : ∀ s ∈ t.subsitesStart, t.first ≤ s := fun s hs => headD_le_of_sorted _ hok.starts 0 s hs
  have hF0 : t.first ∈ t.subsitesStart := headD_mem _ 0 hok.ne
  have hLa : ∀ j ∈ t.subsites, j ≤ t.last := fun j hj => le_getLastD_of_sorted _ hok.subs 0 j hj
  unfold ExpTerm.edgesAt ExpTerm.cleanAt
  by_cases hfl : t.first < t.last
  · have hne : t.subsites ≠ [] := by
      intro e
      unfold ExpTerm.last at hfl
      rw [e] at hfl
      simp at hfl
    have hL0 : t.last ∈ t.subsites := getLastD_mem _ 0 hne
    have hlast' : t.first + 1 + (t.last - t.first - 1) = t.last := by omega
    rw [if_pos hfl, hlast']
    by_cases h1 : k = t.first
    · subst h1
      rw [if_pos rfl, if_neg (by omega), if_neg (by omega), if_pos ⟨hF0, hfl⟩, if_neg (by omega),
        if_neg (by omega)]
    · by_cases h2 : k = t.last
      · subst h2
        rw [if_neg h1, if_neg (by omega), if_pos rfl, if_neg (by omega), if_neg (by omega), if_pos ⟨hL0, hfl⟩]
      · by_cases h3 : t.first + 1 ≤ k ∧ k < t.last
        · rw [if_neg h1, if_pos h3, if_neg h2]
          have hk : t.first < k := by omega
          unfold ExpTerm.bodyEdges ExpTerm.lc
          by_cases hs : k ∈ t.subsites <;> by_cases hst : k ∈ t.subsitesStart
          · simp only [List.contains_eq_mem, hs, hst, decide_true, if_true, Bool.not_true, Bool.false_eq_true,
              if_false, h3.2, and_self, hk, List.nil_append, List.append_nil,
              List.cons_append]
            exact (List.perm_append_comm (l₁ := [_, _]) (l₂ := [_]))
          · simp only [List.contains_eq_mem, hs, hst, decide_true, decide_false, if_true, Bool.not_true,
              Bool.false_eq_true, if_false, h3.2, and_self, false_and, hk,
              List.nil_append, List.append_nil, List.cons_append]
            exact List.Perm.refl _
          · simp only [List.contains_eq_mem, hs, hst, decide_true, decide_false, if_true, Bool.not_false,
              Bool.false_eq_true, if_false, h3.2, and_self, false_and, hk,
              List.nil_append, List.append_nil, List.cons_append]
            exact List.Perm.refl _
          · simp only [List.contains_eq_mem, hs, hst, decide_false, if_true, Bool.not_false,
              Bool.false_eq_true, if_false, h3.2, and_self, false_and, hk,
              List.nil_append, List.append_nil]
            exact List.Perm.refl _
        · have c1 : ¬ (k ∈ t.subsitesStart ∧ k < t.last) := by
            rintro ⟨a, b⟩
            have := hF k a
            omega
          have c2 : ¬ (t.first < k ∧ k < t.last) := by omega
          have c3 : ¬ (k ∈ t.subsites ∧ t.first < k) := by
            rintro ⟨a, b⟩
            have := hLa k a
            omega
          rw [if_neg h1, if_neg h3, if_neg h2, if_neg c1, if_neg c2, if_neg c3]
  · have c1 : ¬ (k ∈ t.subsitesStart ∧ k < t.last) := by
      rintro ⟨a, b⟩
      have := hF k a
      omega
    have c2 : ¬ (t.first < k ∧ k < t.last) := by omega
    have c3 : ¬ (k ∈ t.subsites ∧ t.first < k) := by
      rintro ⟨a, b⟩
      have := hLa k a
      omega
    rw [if_neg hfl, if_neg c1, if_neg c2, if_neg c3]
    exact List.Perm.refl _

theorem ite_singleton_flatMap {β γ : Type} (c : Prop) [Decidable c] (e : β) (F : β → List γ) :
    (if c then [e] else []).flatMap F = if c then F e else [] := by
  split <;> simp

theorem ExpTerm.cleanAt_lab (t : ExpTerm α) (lab : Key) (hL : lab ≠ Key.IdL) (k : Nat) (P : Key → Sym α) :
    (t.cleanAt lab k).flatMap (edgeTerm P lab) =
      (if t.first < k ∧ k < t.last then Sym.consOp t.str (t.lc k) (P lab) else []) ++
      (if k ∈ t.subsites ∧ t.first < k then Sym.consOp t.opj t.strength (P Key.IdR) else []) := by
  unfold ExpTerm.cleanAt
  simp only [List.flatMap_append, ite_singleton_flatMap, edgeTerm, hL.symm, if_false, if_true, ite_self,
    List.nil_append]

theorem ExpTerm.cleanAt_IdL (t : ExpTerm α) (lab : Key) (hL : lab ≠ Key.IdL) (k : Nat) (P : Key → Sym α) :
    (t.cleanAt lab k).flatMap (edgeTerm P Key.IdL) =
      (if k ∈ t.subsitesStart ∧ k < t.last then Sym.consOp t.opi (lamAt t.lam k) (P lab) else []) := by
  unfold ExpTerm.cleanAt
  simp only [List.flatMap_append, ite_singleton_flatMap, edgeTerm, hL, if_false, if_true, ite_self,
    List.append_nil]

/-- the component of a plain term -/
def ExpTerm.comp (t : ExpTerm α) (lab : Key) : Comp α := ⟨lab, t.edgesAt lab⟩

theorem ExpTerm.comp_paths (t : ExpTerm α) (L : Nat) (hok : t.OK L) (lab : Key) (k : Nat)
    (rest : List (List (Edge Key α))) (key : Key) :
    Sym.Equiv (pathsFrom Key.IdR ((t.comp lab).layer k :: rest) key)
      ((t.cleanAt lab k).flatMap (edgeTerm (pathsFrom Key.IdR rest) key) ++
        (idLoops (α := α)).flatMap (edgeTerm (pathsFrom Key.IdR rest) key)) := by
  rw [pathsFrom_cons']
  show Sym.Equiv ((t.edgesAt lab k ++ idLoops).flatMap _) _
  rw [List.flatMap_append]
  exact Sym.Equiv.append (Sym.Equiv.of_perm ((t.edgesAt_perm L hok lab k).flatMap_right _)) (Sym.Equiv.refl _)

theorem ExpTerm.comp_OK (t : ExpTerm α) (L : Nat) (hok : t.OK L) (lab : Key) (hL : lab ≠ Key.IdL)
    (hR : lab ≠ Key.IdR) : (t.comp lab).OK := by
  refine ⟨hL, hR, ?_⟩
  intro k e he
  have he' : e ∈ t.cleanAt lab k := (t.edgesAt_perm L hok lab k).mem_iff.1 he
  unfold ExpTerm.cleanAt at he'
  rcases List.mem_append.1 he' with h | h
  · rcases List.mem_append.1 h with h | h
    · split at h
      · rw [List.mem_singleton] at h; subst h; exact ⟨Or.inl rfl, Or.inr rfl⟩
      · simp at h
    · split at h
      · rw [List.mem_singleton] at h; subst h; exact ⟨Or.inr rfl, Or.inr rfl⟩
      · simp at h
  · split at h
    · rw [List.mem_singleton] at h; subst h; exact ⟨Or.inr rfl, Or.inl rfl⟩
    · simp at h

theorem ExpTerm.suffix (t : ExpTerm α) (L : Nat) (hok : t.OK L) (lab : Key) (hL : lab ≠ Key.IdL)
    (hR : lab ≠ Key.IdR) : ∀ n k, k + n = L →
      (t.first < k → Sym.Equiv (pathsFrom Key.IdR (layersFrom (t.comp lab).layer k n) lab) (t.tail L k)) ∧
      Sym.Equiv (pathsFrom Key.IdR (layersFrom (t.comp lab).layer k n) Key.IdL) (t.termsFrom L k) := by
  have hLa : ∀ j ∈ t.subsites, j ≤ t.last := fun j hj => le_getLastD_of_sorted _ hok.subs 0 j hj
  have hF : ∀ s ∈ t.subsitesStart, t.first ≤ s := fun s hs => headD_le_of_sorted _ hok.starts 0 s hs
  intro n
  induction n with
  | zero =>
    intro k hk
    have hkL : k = L := by omega
    subst hkL
    refine ⟨fun _ => ?_, ?_⟩
    · rw [layersFrom_zero, pathsFrom_nil, if_neg hR, t.tail_eq_nil k k hok.subsL]
      exact Sym.Equiv.refl _
    · rw [layersFrom_zero, pathsFrom_nil, if_neg IdL_ne_IdR, t.termsFrom_eq_nil k k hok.startsL]
      exact Sym.Equiv.refl _
  | succ n ih =>
    intro k hk
    obtain ⟨ihLab, ihL⟩ := ih (k + 1) (by omega)
    have ihR := paths_IdR (t.comp lab).E (comp_kL_ne_IdR _ (t.comp_OK L hok lab hL hR)) n (k + 1)
    have hn : L - k - 1 = n := by omega
    refine ⟨?_, ?_⟩
    · intro hfk
      rw [layersFrom_succ]
      refine (t.comp_paths L hok lab k _ lab).trans ?_
      rw [idLoops_other _ _ hL hR, List.append_nil, t.cleanAt_lab lab hL]
      refine Sym.Equiv.trans ?_ (t.tail_step hok.subs L k).symm
      refine (Sym.Equiv.append_comm _ _).trans ?_
      apply Sym.Equiv.append
      · by_cases hs : k ∈ t.subsites
        · rw [if_pos ⟨hs, hfk⟩, if_pos hs]
          refine (Sym.Equiv.consOp _ _ ihR).trans ?_
          rw [consOp_singleton, mul_one, hn]
          exact Sym.Equiv.refl _
        · rw [if_neg (fun h => hs h.1), if_neg hs]
          exact Sym.Equiv.refl _
      · by_cases hl : k < t.last
        · rw [if_pos ⟨hfk, hl⟩]
          exact Sym.Equiv.consOp _ _ (ihLab (by omega))
        · rw [if_neg (fun h => hl h.2), t.tail_eq_nil L (k + 1) (fun j hj => by have := hLa j hj; omega)]
          exact Sym.Equiv.refl _
    · rw [layersFrom_succ]
      refine (t.comp_paths L hok lab k _ Key.IdL).trans ?_
      rw [idLoops_IdL, t.cleanAt_IdL lab hL]
      refine Sym.Equiv.trans ?_ (t.termsFrom_step hok.starts L k).symm
      apply Sym.Equiv.append
      · by_cases hs : k ∈ t.subsitesStart
        · rw [if_pos hs]
          by_cases hl : k < t.last
          · rw [if_pos ⟨hs, hl⟩]
            exact Sym.Equiv.consOp _ _ (ihLab (by have := hF k hs; omega))
          · rw [if_neg (fun h => hl h.2), t.tail_eq_nil L (k + 1) (fun j hj => by have := hLa j hj; omega)]
            exact Sym.Equiv.refl _
        · rw [if_neg (fun h => hs h.1), if_neg hs]
          exact Sym.Equiv.refl _
      · exact Sym.Equiv.consOp _ _ ihL

end

end TenpyModel.Ops
