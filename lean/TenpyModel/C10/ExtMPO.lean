import TenpyModel.Ops.Graph
/-!
# C10 extension, model part 1: from the `MPOGraph` to the `MPO` (tenpy/networks/mpo.py)

* `testSanity`            `MPOGraph.test_sanity` (lengths, every key of an edge registered as a state, operator names)
* `gridsOf`/`buildGrids`  `MPOGraph._set_ordered_states` (= `Graph.orderedStates`) + `MPOGraph._build_grids`:
                          per site the matrix `grid[a][b] = [(opname, strength), …]` of the edges from the
                          `a`-th to the `b`-th ordered state; `KeyError` for a state without outgoing edge
                          (`graph[keyL]`) or an unregistered right key (`stR[keyR]`)
* `legcharges`            `MPOGraph._calc_legcharges`: `travel_q_LR` (explicit stack), the check of the right-most
                          leg, the sweeps of `travel_q_RL` (at most `max_checks` = 1000), `make_valid`
* `ruleOk`                what `MPO.from_grids` (`grid_insert_ops`, `npc.grid_outer`) rejects with `ValueError`:
                          an entry violating the charge rule `q_left - q_right + q_op = Ws_qtotal`
* `buildMPO`              `MPOGraph.build_MPO`
* `gridPaths`, `GMPO.denote`, `GMPO.denoteWindow`
                          the operator of an MPO given by grids: entry `[IdL, IdR]` of the ordered product of
                          the operator-valued matrices, as a formal sum.  An entry of a grid is itself a formal sum of
                          strings over the sites of the (possibly grouped) site, so the same functions serve the
                          grouped MPO of part 2.

Charges are elements of an arbitrary type `Q` with `+`, `-`, `0`; the driver uses integer vectors.  Given (not
modelled): `Site.valid_opname`, the charge `qtotal` of every operator (C12), trivial shift symmetry
(`shift_charges_unit_cells` is the identity for every `ChargeInfo` without dipole-like charges).
-/
namespace TenpyModel.C10Ext
open TenpyModel.Ops

/-- python exception classes raised by the modelled code (`other`: any exception) -/
inductive Err where
  | key | value | zeroDiv | assertion | index | type | other
deriving DecidableEq, Repr

/-! ## operator-valued matrices -/

/-- `grid[a][b]` = formal sum of strings over the sites of one (grouped) site; python `None` = `[]` -/
abbrev Grid (α : Type) := List (List (Sym α))

/-- product of two formal sums acting on consecutive groups of sites -/
def tensor {α : Type} [Mul α] (a b : Sym α) : Sym α :=
  a.flatMap (fun p => b.map (fun q => (p.1 ++ q.1, p.2 * q.2)))

/-- Σ over index paths from `a` through the grids ending in `fin`: the `a`-th entry of the column vector
`W_i · W_{i+1} ⋯ W_{L-1} · e_fin` -/
def gridPaths {α : Type} [Mul α] [One α] (fin : Nat) : List (Grid α) → Nat → Sym α
  | [], a => if a = fin then [([], 1)] else []
  | G :: rest, a => ((G.getD a []).zipIdx).flatMap (fun sb =>
      -- (an empty entry contributes nothing; the test only keeps the evaluation from walking all index paths)
      if sb.1.isEmpty then [] else tensor sb.1 (gridPaths fin rest sb.2))

/-- `states[i][key]` of the ordered states (python dict `{state: index}`) -/
def keyIdx : List Key → Key → Option Nat
  | [], _ => none
  | k' :: rest, k => if k' = k then some 0 else (keyIdx rest k).map (· + 1)

/-! ## `MPOGraph.test_sanity`, `_build_grids` -/

/-- `MPOGraph.test_sanity` (`okOp i name` = `sites[i].valid_opname(name)`) -/
def testSanity {α : Type} (g : Graph α) (okOp : Nat → String → Bool) : Bool :=
  g.layers.length == g.L && g.states.length == g.L + 1 &&
  (g.layers.zipIdx).all (fun li => li.1.all (fun e =>
    (g.states.getD li.2 []).contains e.kL && (g.states.getD (li.2 + 1) []).contains e.kR && okOp li.2 e.op))

/-- the grid of one site: rows = ordered left states, columns = ordered right states, entry = the list
`graph[keyL][keyR]` in insertion order -/
def gridOf {α : Type} (layer : List (Edge Key α)) (stL stR : List Key) : Grid α :=
  stL.map (fun kL => stR.map (fun kR =>
    (layer.filter (fun e => e.kL = kL && e.kR = kR)).map (fun e => ([e.op], e.c))))

/-- no `KeyError` in the loops of `_build_grids` on one site: `graph[keyL]` exists for every left state,
`stR[keyR]` for every edge leaving one -/
def gridOk {α : Type} (layer : List (Edge Key α)) (stL stR : List Key) : Bool :=
  stL.all (fun kL =>
    let out := layer.filter (fun e => e.kL = kL)
    !out.isEmpty && out.all (fun e => stR.contains e.kR))

def gridsOf {α : Type} : List (List (Edge Key α)) → List (List Key) → List (Grid α)
  | layer :: layers, stL :: stR :: sts => gridOf layer stL stR :: gridsOf layers (stR :: sts)
  | _, _ => []

def gridsOk {α : Type} : List (List (Edge Key α)) → List (List Key) → Bool
  | layer :: layers, stL :: stR :: sts => gridOk layer stL stR && gridsOk layers (stR :: sts)
  | [], _ => true
  | _ :: _, _ => false

/-- `_set_ordered_states()` + `_build_grids()` -/
def buildGrids {α : Type} (g : Graph α) : Except Err (List (Grid α)) :=
  if gridsOk g.layers g.orderedStates then .ok (gridsOf g.layers g.orderedStates) else .error .key

/-! ## `_calc_legcharges` -/

structure ChargeData (Q : Type) where
  /-- `sites[i].valid_opname(name)`: `get_op` raises `ValueError` for an unknown name -/
  known : Nat → String → Bool
  /-- `sites[i].get_op(name).qtotal` -/
  qop : Nat → String → Q
  /-- `Ws_qtotal[i]` -/
  wq : Nat → Q
  /-- `chinfo.make_valid` -/
  valid : Q → Q
  /-- order of `np.lexsort(charges.T)` (used by `sort_legcharges`, part 2) -/
  lt : Q → Q → Bool
  /-- `chinfo.qnumber == 0`: charge vectors are empty arrays, `None - Ws_qtotal[i]` is an empty array, not a `TypeError` -/
  noCharges : Bool

abbrev Charges (Q : Type) := List (List (Option Q))

def getCh {Q : Type} (ch : Charges Q) (b idx : Nat) : Option Q := (ch.getD b []).getD idx none

def setCh {Q : Type} (ch : Charges Q) (b idx : Nat) (q : Q) : Charges Q :=
  ch.modify b (fun l => l.set idx (some q))

/-- `graph[i][keyL].items()` reduced to what the charge pass reads: the right keys in insertion order with the
name of the first operator of the edge (`ops[0][0]`) -/
def outDict {α : Type} (layer : List (Edge Key α)) (kL : Key) : List (Key × String) :=
  (layer.filter (fun e => e.kL = kL)).foldl
    (fun acc e => if acc.any (fun p => p.1 = e.kR) then acc else acc ++ [(e.kR, e.op)]) []

section charges
variable {α Q : Type} [Add Q] [Sub Q] [Zero Q]

/-- the `for keyR, ops in edges.items()` loop of `travel_q_LR`; returns the charges and `edge_stack` -/
def lrEdges (L : Nat) (infinite : Bool) (ost : List (List Key)) (cd : ChargeData Q) (i : Nat) (qLW : Q) :
    List (Key × String) → Charges Q × List (Nat × Key) → Except Err (Charges Q × List (Nat × Key))
  | [], acc => .ok acc
  | (kR, op) :: rest, acc =>
    match keyIdx (ost.getD (i + 1) []) kR with
    | none => .error .key
    | some r =>
      match getCh acc.1 (i + 1) r with
      | some _ => lrEdges L infinite ost cd i qLW rest acc
      | none =>
        if !cd.known i op then .error .value else
        let q := qLW + cd.qop i op
        let ch1 := setCh acc.1 (i + 1) r q
        let es := if infinite || i + 1 < L then acc.2 ++ [((i + 1) % L, kR)] else acc.2
        if infinite && i + 1 == L then
          -- `charges[0][r] = shift_charges_unit_cells(ch_r[r], -1)` (trivial shift)
          if r < (ost.getD 0 []).length then lrEdges L infinite ost cd i qLW rest (setCh ch1 0 r q, es)
          else .error .index
        else lrEdges L infinite ost cd i qLW rest (ch1, es)

/-- one iteration of the `while len(stack)` loop of `travel_q_LR` for the popped `(i, keyL)` -/
def lrVisit (L : Nat) (infinite : Bool) (layers : List (List (Edge Key α))) (ost : List (List Key))
    (cd : ChargeData Q) (ch : Charges Q) (i : Nat) (keyL : Key) : Except Err (Charges Q × List (Nat × Key)) :=
  match keyIdx (ost.getD i []) keyL with
  | none => .error .key
  | some l =>
    match (match getCh ch i l with
      | some qL => some qL
      | none => if cd.noCharges then some 0 else none) with
    | none => .error .type
    | some qL =>
      let out := outDict (layers.getD i []) keyL
      if out.isEmpty then .error .key
      else lrEdges L infinite ost cd i (qL - cd.wq i) out (ch, [])

/-- `travel_q_LR`; the python stack is kept reversed (`pop(-1)` = head; `stack = edge_stack + stack` appends the
reversed `edge_stack` at the end).  `fuel` bounds the number of iterations (every push follows the assignment of a
so far unknown charge, so `#slots + 2` suffices); exhausted fuel is reported as `Err.other`. -/
def lrLoop (L : Nat) (infinite : Bool) (layers : List (List (Edge Key α))) (ost : List (List Key))
    (cd : ChargeData Q) : Nat → List (Nat × Key) → Charges Q → Except Err (Charges Q)
  | _, [], ch => .ok ch
  | 0, _ :: _, _ => .error .other
  | fuel + 1, (i, keyL) :: rest, ch =>
    match lrVisit L infinite layers ost cd ch i keyL with
    | .error e => .error e
    | .ok (ch', es) => lrLoop L infinite layers ost cd fuel (rest ++ es.reverse) ch'

/-- the loop of `travel_q_RL` over the edges leaving `keyL`: the first right state with a known charge decides -/
def rlEdges (ost : List (List Key)) (cd : ChargeData Q) (ch : Charges Q) (i l : Nat) :
    List (Key × String) → Except Err (Charges Q × Bool)
  | [] => .ok (ch, false)
  | (kR, op) :: rest =>
    match keyIdx (ost.getD (i + 1) []) kR with
    | none => .error .key
    | some r =>
      match getCh ch (i + 1) r with
      | some qR =>
        if !cd.known i op then .error .value
        else .ok (setCh ch i l (cd.wq i + qR - cd.qop i op), true)
      | none => rlEdges ost cd ch i l rest

def rlVisit (layers : List (List (Edge Key α))) (ost : List (List Key)) (cd : ChargeData Q) (ch : Charges Q)
    (i l : Nat) (keyL : Key) : Except Err (Charges Q × Bool) :=
  let out := outDict (layers.getD i []) keyL
  if out.isEmpty then .error .key else rlEdges ost cd ch i l out

/-- `for keyL, l in states[i].items(): if ch[l] is None: …` for one bond; result: charges, `repeat`, progress -/
def rlBond (layers : List (List (Edge Key α))) (ost : List (List Key)) (cd : ChargeData Q) (i : Nat) :
    List (Key × Nat) → Charges Q × Bool × Bool → Except Err (Charges Q × Bool × Bool)
  | [], acc => .ok acc
  | (keyL, l) :: rest, (ch, rep, prog) =>
    match getCh ch i l with
    | some _ => rlBond layers ost cd i rest (ch, rep, prog)
    | none =>
      match rlVisit layers ost cd ch i l keyL with
      | .error e => .error e
      | .ok (ch', found) => rlBond layers ost cd i rest (ch', rep || !found, prog || found)

/-- `for i in reversed(range(L))` -/
def rlSweep (layers : List (List (Edge Key α))) (ost : List (List Key)) (cd : ChargeData Q) :
    List Nat → Charges Q × Bool × Bool → Except Err (Charges Q × Bool × Bool)
  | [], acc => .ok acc
  | i :: is, acc =>
    match rlBond layers ost cd i (ost.getD i []).zipIdx acc with
    | .error e => .error e
    | .ok acc' => rlSweep layers ost cd is acc'

/-- `for _ in range(max_checks)`: a sweep that had to `repeat` without assigning anything is repeated unchanged
until `max_checks` is used up, i.e. it ends in the `ValueError` of the `else` branch -/
def rlLoop (L : Nat) (layers : List (List (Edge Key α))) (ost : List (List Key)) (cd : ChargeData Q) :
    Nat → Charges Q → Except Err (Charges Q)
  | 0, _ => .error .value
  | n + 1, ch =>
    match rlSweep layers ost cd (List.range L).reverse (ch, false, false) with
    | .error e => .error e
    | .ok (ch', rep, prog) =>
      if !rep then .ok ch' else if !prog then .error .value else rlLoop L layers ost cd n ch'

/-- conversion of the charge lists (`chinfo.make_valid(ch)` bond by bond); a list of unknown charges only is a
`TypeError` (`int(None)`), a list mixing known and unknown charges a `ValueError` (inhomogeneous array) -/
def finishCharges (cd : ChargeData Q) (ch : Charges Q) : Except Err (List (List Q)) :=
  if ch.all (fun l => l.all (fun o => o.isSome)) then
    .ok (ch.map (fun l => l.filterMap (fun o => o.map cd.valid)))
  else
    match ch.find? (fun l => !l.all (fun o => o.isSome)) with
    | some l => if l.all (fun o => o.isNone) then .error .type else .error .value
    | none => .error .type

/-- `MPOGraph._calc_legcharges(Ws_qtotal)`; result: the charges of the `L + 1` legs as flat lists -/
def legcharges (g : Graph α) (cd : ChargeData Q) : Except Err (List (List Q)) :=
  let ost := g.orderedStates
  match keyIdx (ost.getD 0 []) Key.IdL with
  | none => .error .key
  | some l0 =>
    let ch0 : Charges Q := setCh (ost.map (fun st => st.map (fun _ => none))) 0 l0 (cd.valid 0)
    let fuel := (ost.map List.length).sum + 2
    match lrLoop g.L g.infinite g.layers ost cd fuel [(0, Key.IdL)] ch0 with
    | .error e => .error e
    | .ok ch1 =>
      if !g.infinite && (ch1.getLastD []).any (fun o => o.isNone) then .error .value
      else
        match rlLoop g.L g.layers ost cd 1000 ch1 with
        | .error e => .error e
        | .ok ch2 => finishCharges cd ch2

/-- charge rule of every entry of every grid: `valid(q_left - q_right + q_op - Ws_qtotal) = valid(0)` -/
def ruleOk [DecidableEq Q] (layers : List (List (Edge Key α))) (ost : List (List Key)) (cd : ChargeData Q)
    (legs : List (List Q)) : Bool :=
  (layers.zipIdx).all (fun li => li.1.all (fun e =>
    match keyIdx (ost.getD li.2 []) e.kL, keyIdx (ost.getD (li.2 + 1) []) e.kR with
    | some a, some b =>
      match (legs.getD li.2 [])[a]?, (legs.getD (li.2 + 1) [])[b]? with
      | some qa, some qb => cd.valid (qa - qb + cd.qop li.2 e.op - cd.wq li.2) = cd.valid 0
      | _, _ => false
    | _, _ => true))

end charges

/-! ## the MPO -/

inductive Bc where
  | finite | segment | infinite
deriving DecidableEq, Repr

structure GMPO (α Q : Type) where
  bc : Bc
  grids : List (Grid α)
  idL : List (Option Nat)
  idR : List (Option Nat)
  /-- charges of the virtual legs, `L + 1` flat lists -/
  legs : List (List Q)
  maxRange : MaxRange
  grouped : Nat
  /-- `unit_cell_width` -/
  ucw : Nat

namespace GMPO
variable {α Q : Type}

def L (m : GMPO α Q) : Nat := m.grids.length
def chi (m : GMPO α Q) : List Nat := m.legs.map List.length
def isFinite (m : GMPO α Q) : Bool := m.bc ≠ Bc.infinite

/-- operator of a finite (or segment) MPO: entry `[IdL[0], IdR[-1]]` of the product of its grids -/
def denote [Mul α] [One α] (m : GMPO α Q) : Sym α :=
  match m.idL.head?, m.idR.getLast? with
  | some (some l), some (some r) => gridPaths r m.grids l
  | _, _ => []

/-- an infinite MPO on a window of `n` unit cells -/
def denoteWindow [Mul α] [One α] (m : GMPO α Q) (n : Nat) : Sym α :=
  match m.idL.head?, m.idR.getLast? with
  | some (some l), some (some r) => gridPaths r (List.replicate n m.grids).flatten l
  | _, _ => []
end GMPO

/-- `MPOGraph.build_MPO(Ws_qtotal)` (the charge data carries `Ws_qtotal`) -/
def buildMPO {α Q : Type} [Add Q] [Sub Q] [Zero Q] [DecidableEq Q] (g : Graph α)
    (cd : ChargeData Q) (ucw : Nat) : Except Err (GMPO α Q) :=
  if !testSanity g cd.known then .error .assertion else
  match buildGrids g with
  | .error e => .error e
  | .ok grids =>
    let ost := g.orderedStates
    match legcharges g cd with
    | .error e => .error e
    | .ok legs =>
      if !ruleOk g.layers ost cd legs then .error .value
      -- `MPO.test_sanity`: the last `wR` leg of an infinite MPO must be contractible with the first `wL` leg
      else if g.infinite && legs.head? ≠ legs.getLast? then .error .value
      else .ok { bc := if g.infinite then .infinite else .finite, grids := grids,
                 idL := ost.map (fun s => keyIdx s Key.IdL), idR := ost.map (fun s => keyIdx s Key.IdR),
                 legs := legs, maxRange := g.maxRange, grouped := 1, ucw := ucw }

end TenpyModel.C10Ext
