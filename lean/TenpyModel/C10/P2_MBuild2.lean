import TenpyModel.C10.P2_MBuild
/-!
# C10 / Props2: the edges inserted by `MultiCouplingTerms.add_to_graph` satisfy `MNew`
-/
namespace TenpyModel.Ops

section sub
variable {α : Type} [DecidableEq α] [One α]

omit [DecidableEq α] in
theorem leftChainFrom_cons' (q : List MKey) (t : MKey) (rest : List MKey) (sw : Int) :
    leftChainFrom (α := α) q (t :: rest) sw =
      (t.1.toNat, ⟨lkey q, lkey (q ++ [t]), t.2.1, 1⟩) ::
        ((List.range ((match rest with | [] => sw | t' :: _ => t'.1) - t.1 - 1).toNat).map
          (fun d => (t.1.toNat + 1 + d, (⟨lkey (q ++ [t]), lkey (q ++ [t]), t.2.2, 1⟩ : Edge Key α)))
          ++ leftChainFrom (q ++ [t]) rest sw) := rfl

omit [DecidableEq α] in
theorem rightChainFrom_cons' (q : List MKey) (t : MKey) (rest : List MKey) (sw : Int) :
    rightChainFrom (α := α) q (t :: rest) sw =
      (t.1.toNat, ⟨rkey (q ++ [t]), rkey q, t.2.1, 1⟩) ::
        ((List.range (t.1 - (match rest with | [] => sw | t' :: _ => t'.1) - 1).toNat).map
          (fun d => ((match rest with | [] => sw | t' :: _ => t'.1).toNat + 1 + d,
            (⟨rkey (q ++ [t]), rkey (q ++ [t]), t.2.2, 1⟩ : Edge Key α)))
          ++ rightChainFrom (q ++ [t]) rest sw) := rfl

theorem mem_loopsL (q : List MKey) (t : MKey) (n : Nat) (x : Nat × Edge Key α) :
    x ∈ loopsL q t n ↔ ∃ d, d < n ∧ x = (t.1.toNat + 1 + d, ⟨lkey (q ++ [t]), lkey (q ++ [t]), t.2.2, 1⟩) := by
  unfold loopsL
  simp only [List.mem_map, List.mem_range]
  constructor
  · rintro ⟨d, hd, rfl⟩; exact ⟨d, hd, rfl⟩
  · rintro ⟨d, hd, rfl⟩; exact ⟨d, hd, rfl⟩

theorem mem_loopsR (q : List MKey) (t : MKey) (n : Nat) (x : Nat × Edge Key α) :
    x ∈ loopsR q t n ↔ ∃ d, d < n ∧ x = (t.1.toNat - 1 - d, ⟨rkey (q ++ [t]), rkey (q ++ [t]), t.2.2, 1⟩) := by
  unfold loopsR
  simp only [List.mem_map, List.mem_range]
  constructor
  · rintro ⟨d, hd, rfl⟩; exact ⟨d, hd, rfl⟩
  · rintro ⟨d, hd, rfl⟩; exact ⟨d, hd, rfl⟩

/-- the declarative chain is contained in step ∪ tail ∪ final loops -/
theorem leftChainFrom_sub (sw : Int) : ∀ (rest : List MKey) (q : List MKey) (t : MKey) (qf : List MKey) (tf : MKey),
    qf ++ [tf] = q ++ t :: rest → ∀ x ∈ leftChainFrom (α := α) q (t :: rest) sw,
      x = (t.1.toNat, ⟨lkey q, lkey (q ++ [t]), t.2.1, 1⟩) ∨ x ∈ tailChainL q t rest ∨
        x ∈ loopsL qf tf (sw - tf.1 - 1).toNat := by
  intro rest
  induction rest with
  | nil =>
    intro q t qf tf hq x hx
    obtain ⟨rfl, rfl⟩ := List.append_singleton_inj.1 hq
    rw [leftChainFrom_cons'] at hx
    simp only [List.mem_cons, List.mem_append, leftChainFrom, List.not_mem_nil, or_false] at hx
    rcases hx with rfl | hx
    · exact Or.inl rfl
    · right; right
      exact hx
  | cons t' rest ih =>
    intro q t qf tf hq x hx
    rw [leftChainFrom_cons'] at hx
    simp only [List.mem_cons, List.mem_append] at hx
    rcases hx with rfl | hx | hx
    · exact Or.inl rfl
    · right; left
      show x ∈ loopsL q t (t'.1 - t.1 - 1).toNat ++ _ :: tailChainL (q ++ [t]) t' rest
      exact List.mem_append_left _ hx
    · have := ih (q ++ [t]) t' qf tf (by rw [hq]; simp) x hx
      rcases this with rfl | h | h
      · right; left
        show _ ∈ loopsL q t (t'.1 - t.1 - 1).toNat ++ _ :: tailChainL (q ++ [t]) t' rest
        exact List.mem_append_right _ List.mem_cons_self
      · right; left
        show x ∈ loopsL q t (t'.1 - t.1 - 1).toNat ++ _ :: tailChainL (q ++ [t]) t' rest
        exact List.mem_append_right _ (List.mem_cons_of_mem _ h)
      · exact Or.inr (Or.inr h)

theorem rightChainFrom_sub (sw : Int) (hsw : 0 ≤ sw) :
    ∀ (rest : List MKey) (q : List MKey) (t : MKey) (qf : List MKey) (tf : MKey),
    qf ++ [tf] = q ++ t :: rest → ((t :: rest).map (·.1)).Pairwise (· > ·) → (∀ y ∈ t :: rest, sw < y.1) →
    ∀ x ∈ rightChainFrom (α := α) q (t :: rest) sw,
      x = (t.1.toNat, ⟨rkey (q ++ [t]), rkey q, t.2.1, 1⟩) ∨ x ∈ tailChainR q t rest ∨
        x ∈ loopsR qf tf (tf.1 - sw - 1).toNat := by
  intro rest
  induction rest with
  | nil =>
    intro q t qf tf hq _ hb x hx
    obtain ⟨rfl, rfl⟩ := List.append_singleton_inj.1 hq
    have ht := hb tf List.mem_cons_self
    rw [rightChainFrom_cons'] at hx
    simp only [List.mem_cons, List.mem_append, rightChainFrom, List.not_mem_nil, or_false, List.mem_map,
      List.mem_range] at hx
    rcases hx with rfl | ⟨d, hd, rfl⟩
    · exact Or.inl rfl
    · right; right
      rw [mem_loopsR]
      refine ⟨(tf.1 - sw - 1).toNat - 1 - d, by omega, ?_⟩
      congr 1
      omega
  | cons t' rest ih =>
    intro q t qf tf hq hdesc hb x hx
    have ht := hb t List.mem_cons_self
    have ht' := hb t' (by simp)
    have hlt : t'.1 < t.1 := by
      simp only [List.map_cons, List.pairwise_cons] at hdesc
      exact hdesc.1 t'.1 (by simp)
    rw [rightChainFrom_cons'] at hx
    simp only [List.mem_cons, List.mem_append, List.mem_map, List.mem_range] at hx
    rcases hx with rfl | ⟨d, hd, rfl⟩ | hx
    · exact Or.inl rfl
    · right; left
      show _ ∈ loopsR q t (t.1 - t'.1 - 1).toNat ++ _ :: tailChainR (q ++ [t]) t' rest
      apply List.mem_append_left
      rw [mem_loopsR]
      refine ⟨(t.1 - t'.1 - 1).toNat - 1 - d, by omega, ?_⟩
      congr 1
      omega
    · have := ih (q ++ [t]) t' qf tf (by rw [hq]; simp)
        (by simp only [List.map_cons, List.pairwise_cons] at hdesc ⊢; exact hdesc.2)
        (fun y hy => hb y (List.mem_cons_of_mem _ hy)) x hx
      rcases this with rfl | h | h
      · right; left
        show _ ∈ loopsR q t (t.1 - t'.1 - 1).toNat ++ _ :: tailChainR (q ++ [t]) t' rest
        exact List.mem_append_right _ List.mem_cons_self
      · right; left
        show x ∈ loopsR q t (t.1 - t'.1 - 1).toNat ++ _ :: tailChainR (q ++ [t]) t' rest
        exact List.mem_append_right _ (List.mem_cons_of_mem _ h)
      · exact Or.inr (Or.inr h)

theorem dropLast_getLast_eq {β : Type} (l : List β) (h : l ≠ []) : l.dropLast ++ [l.getLast h] = l :=
  List.dropLast_append_getLast h

theorem leftChain_sub_edgesL (mt : MultiCouplingTerms α) (p : MPath) (c : Nat) (hc : c ∈ p.counters)
    (kk : Conn α) (hk : mt.conns.getD c none = some kk) :
    ∀ x ∈ leftChain (α := α) p.path kk.switchLR, x ∈ edgesL mt p := by
  intro x hx
  unfold leftChain at hx
  unfold edgesL
  cases hp : p.path with
  | nil => rw [hp] at hx; simp [leftChainFrom] at hx
  | cons t0 rest =>
    rw [hp] at hx
    simp only
    have := leftChainFrom_sub kk.switchLR rest [] t0 (t0 :: rest).dropLast ((t0 :: rest).getLast (by simp))
      (by rw [dropLast_getLast_eq]; rfl) x hx
    rcases this with rfl | h | h
    · exact List.mem_cons_self
    · exact List.mem_cons_of_mem _ (List.mem_append_left _ h)
    · apply List.mem_cons_of_mem
      apply List.mem_append_right
      unfold finalL
      rw [List.mem_flatMap]
      refine ⟨c, hc, ?_⟩
      rw [hk]
      exact h

theorem rightChain_sub_edgesR (mt : MultiCouplingTerms α) (p : MPath) (c : Nat) (hc : c ∈ p.counters)
    (kk : Conn α) (hk : mt.conns.getD c none = some kk) (hsw : 0 ≤ kk.switchLR)
    (hdesc : (p.path.map (·.1)).Pairwise (· > ·)) (hb : ∀ y ∈ p.path, kk.switchLR < y.1) :
    ∀ x ∈ rightChain (α := α) p.path kk.switchLR, x ∈ edgesR mt p := by
  intro x hx
  unfold rightChain at hx
  unfold edgesR
  cases hp : p.path with
  | nil => rw [hp] at hx; simp [rightChainFrom] at hx
  | cons t0 rest =>
    rw [hp] at hx hdesc hb
    simp only
    have := rightChainFrom_sub kk.switchLR hsw rest [] t0 (t0 :: rest).dropLast ((t0 :: rest).getLast (by simp))
      (by rw [dropLast_getLast_eq]; rfl) hdesc hb x hx
    rcases this with rfl | h | h
    · exact List.mem_cons_self
    · exact List.mem_cons_of_mem _ (List.mem_append_left _ h)
    · apply List.mem_cons_of_mem
      apply List.mem_append_right
      unfold finalR
      rw [List.mem_flatMap]
      refine ⟨c, hc, ?_⟩
      rw [hk]
      exact h

end sub

section canonlists
variable {α : Type} [DecidableEq α] [One α]

theorem canon_loopsL (q : List MKey) (t : MKey) (h0 : 0 ≤ t.1) (n : Nat) :
    ∀ x ∈ loopsL (α := α) q t n, CanonL x.1 x.2 := by
  intro x hx
  obtain ⟨d, _, rfl⟩ := (mem_loopsL q t n x).1 hx
  exact canonL_loop q t _ (by push_cast; omega)

theorem canon_loopsR (q : List MKey) (t : MKey) (h0 : 0 ≤ t.1) (n : Nat) (hn : (n : Int) ≤ t.1) :
    ∀ x ∈ loopsR (α := α) q t n, CanonR x.1 x.2 := by
  intro x hx
  obtain ⟨d, hd, rfl⟩ := (mem_loopsR q t n x).1 hx
  exact canonR_loop q t _ (by omega)

theorem canon_tailChainL : ∀ (rest : List MKey) (q : List MKey) (t : MKey),
    (∀ y ∈ t :: rest, 0 ≤ y.1) → ∀ x ∈ tailChainL (α := α) q t rest, CanonL x.1 x.2 := by
  intro rest
  induction rest with
  | nil => intro q t _ x hx; simp [tailChainL] at hx
  | cons t' rest ih =>
    intro q t h0 x hx
    have hx' : x ∈ loopsL q t (t'.1 - t.1 - 1).toNat ++
        (t'.1.toNat, (⟨lkey (q ++ [t]), lkey (q ++ [t] ++ [t']), t'.2.1, 1⟩ : Edge Key α)) ::
          tailChainL (q ++ [t]) t' rest := hx
    rcases List.mem_append.1 hx' with h | h
    · exact canon_loopsL q t (h0 t List.mem_cons_self) _ x h
    · rcases List.mem_cons.1 h with rfl | h
      · exact canonL_step (q ++ [t]) t' _ (by have := h0 t' (by simp); omega)
      · exact ih (q ++ [t]) t' (fun y hy => h0 y (List.mem_cons_of_mem _ hy)) x h

theorem canon_tailChainR : ∀ (rest : List MKey) (q : List MKey) (t : MKey),
    (∀ y ∈ t :: rest, 0 ≤ y.1) → ((t :: rest).map (·.1)).Pairwise (· > ·) →
    ∀ x ∈ tailChainR (α := α) q t rest, CanonR x.1 x.2 := by
  intro rest
  induction rest with
  | nil => intro q t _ _ x hx; simp [tailChainR] at hx
  | cons t' rest ih =>
    intro q t h0 hdesc x hx
    have hlt : t'.1 < t.1 := by
      simp only [List.map_cons, List.pairwise_cons] at hdesc
      exact hdesc.1 t'.1 (by simp)
    have ht' := h0 t' (by simp)
    have hx' : x ∈ loopsR q t (t.1 - t'.1 - 1).toNat ++
        (t'.1.toNat, (⟨rkey (q ++ [t] ++ [t']), rkey (q ++ [t]), t'.2.1, 1⟩ : Edge Key α)) ::
          tailChainR (q ++ [t]) t' rest := hx
    rcases List.mem_append.1 hx' with h | h
    · exact canon_loopsR q t (h0 t List.mem_cons_self) _ (by omega) x h
    · rcases List.mem_cons.1 h with rfl | h
      · exact canonR_step (q ++ [t]) t' _ (by omega)
      · exact ih (q ++ [t]) t' (fun y hy => h0 y (List.mem_cons_of_mem _ hy))
          (by simp only [List.map_cons, List.pairwise_cons] at hdesc ⊢; exact hdesc.2) x h

theorem canon_edgesL (L : Nat) (mt : MultiCouplingTerms α) (p : MPath) (hp : LeftPathOK L mt p) :
    ∀ x ∈ edgesL mt p, CanonL x.1 x.2 := by
  intro x hx
  unfold edgesL at hx
  obtain ⟨_, hb, _⟩ := hp
  cases hpp : p.path with
  | nil => rw [hpp] at hx; simp at hx
  | cons t0 rest =>
    rw [hpp] at hx hb
    simp only at hx
    have h0 : ∀ y ∈ t0 :: rest, 0 ≤ y.1 := fun y hy => (hb y hy).1
    rcases List.mem_cons.1 hx with rfl | hx
    · exact canonL_step [] t0 _ (by have := h0 t0 List.mem_cons_self; omega)
    · rcases List.mem_append.1 hx with h | h
      · exact canon_tailChainL rest [] t0 h0 x h
      · unfold finalL at h
        obtain ⟨c, _, hc⟩ := List.mem_flatMap.1 h
        cases hk : mt.conns.getD c none with
        | none => rw [hk] at hc; simp at hc
        | some kk =>
          rw [hk] at hc
          exact canon_loopsL _ _ (h0 _ (List.getLast_mem _)) _ x hc

theorem canon_edgesR (L : Nat) (mt : MultiCouplingTerms α) (p : MPath) (hp : RightPathOK L mt p) :
    ∀ x ∈ edgesR mt p, CanonR x.1 x.2 := by
  intro x hx
  unfold edgesR at hx
  obtain ⟨hdesc, hb, hc'⟩ := hp
  cases hpp : p.path with
  | nil => rw [hpp] at hx; simp at hx
  | cons t0 rest =>
    rw [hpp] at hx hb hdesc hc'
    simp only at hx
    have h0 : ∀ y ∈ t0 :: rest, 0 ≤ y.1 := fun y hy => (hb y hy).1
    rcases List.mem_cons.1 hx with rfl | hx
    · exact canonR_step [] t0 _ (by have := h0 t0 List.mem_cons_self; omega)
    · rcases List.mem_append.1 hx with h | h
      · exact canon_tailChainR rest [] t0 h0 hdesc x h
      · unfold finalR at h
        obtain ⟨c, hcc, hc⟩ := List.mem_flatMap.1 h
        cases hk : mt.conns.getD c none with
        | none => rw [hk] at hc; simp at hc
        | some kk =>
          rw [hk] at hc
          have hl := List.getLast_mem (l := t0 :: rest) (by simp)
          have h1 := (hc' c hcc kk hk).1 _ hl
          have h2 := (hc' c hcc kk hk).2.1
          exact canon_loopsR _ _ (h0 _ hl) _ (by omega) x hc

end canonlists

end TenpyModel.Ops
