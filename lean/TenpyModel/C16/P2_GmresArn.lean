import TenpyModel.C16.P2_Span
import TenpyModel.C16.P2_GmresSolve
import Mathlib.Algebra.BigOperators.Fin
import Mathlib.Algebra.BigOperators.Pi
/-!
The Arnoldi part of the GMRES model: `mgs` yields the Arnoldi relation and keeps the basis orthonormal (exact roots),
and the residual of the iterate has the Krylov coordinates `β e₀ - H̄ y`, hence `‖b - A x'‖² = Σ ρ_i²`
(helper lemmas for `C16_gmres_residual`).
-/
namespace TenpyModel.C16.P2
open TenpyModel.C16

/-! ### `dot` as a finite sum -/

theorem toFn_cons_zero (n : ℕ) (a : Rat) (x : Vec) : toFn (n + 1) (a :: x) 0 = a := by simp [toFn]

theorem toFn_cons_succ (n : ℕ) (a : Rat) (x : Vec) (i : Fin n) : toFn (n + 1) (a :: x) i.succ = toFn n x i := by
  simp [toFn]

theorem dot_eq_sum (n : ℕ) (x y : Vec) (hx : x.length = n) (hy : y.length = n) :
    dot x y = ∑ a : Fin n, toFn n x a * toFn n y a := by
  induction n generalizing x y with
  | zero =>
    have : x = [] := List.eq_nil_of_length_eq_zero hx
    subst this
    simp [dot_nil_left]
  | succ n ih =>
    match x, y, hx, hy with
    | a :: x, b :: y, hx, hy =>
      rw [dot_cons, Fin.sum_univ_succ, toFn_cons_zero, toFn_cons_zero, ih x y (by simpa using hx) (by simpa using hy)]
      simp only [toFn_cons_succ]

/-! ### `mgs` -/

theorem mgs_snd (cs : List Vec) (w : Vec) : (mgs cs w).2 = projOut cs w := by
  induction cs generalizing w with
  | nil => rfl
  | cons c cs ih => simp only [mgs]; rw [ih, projOut_cons]

theorem mgs_fst_length (cs : List Vec) (w : Vec) : (mgs cs w).1.length = cs.length := by
  induction cs generalizing w with
  | nil => rfl
  | cons c cs ih => simp only [mgs, List.length_cons, ih]

/-- what `mgs` removes: `w = rest + Σ_i h_i c_i` -/
theorem mgs_relation (n : ℕ) (cs : List Vec) (hcs : ∀ c ∈ cs, c.length = n) (w : Vec) (hw : w.length = n) :
    toFn n w = toFn n (mgs cs w).2 + ∑ i ∈ Finset.range cs.length, seq (mgs cs w).1 i • toFn n (cs.getD i []) := by
  induction cs generalizing w with
  | nil => simp [mgs]
  | cons c cs ih =>
    have hc := hcs c (List.mem_cons_self ..)
    have hw' : (axpy (-(dot c w)) c w).length = n := by rw [axpy_length _ _ _ (by rw [hc, hw]), hw]
    have h1 := ih (fun b hb => hcs b (List.mem_cons_of_mem _ hb)) _ hw'
    rw [toFn_axpy n _ _ _ (by rw [hc, hw])] at h1
    simp only [mgs, List.length_cons]
    rw [Finset.sum_range_succ']
    simp only [seq_cons_succ, seq_cons_zero, List.getD_cons_succ, List.getD_cons_zero]
    rw [← add_assoc, ← h1]
    funext a
    simp only [Pi.add_apply, Pi.smul_apply, smul_eq_mul]
    ring

/-! ### the invariant of the Arnoldi part -/

/-- after `k = hs.length` steps: `k+1` orthonormal basis vectors of length `n` and the Arnoldi relation
`A q_j = Σ_{r ≤ k} hs[j][r] q_r` for `j < k` -/
structure ArnInv (n : ℕ) (A : Vec → Vec) (hs : List (List Rat)) (qs : List Vec) : Prop where
  hq : qs.length = hs.length + 1
  hon : ON n qs
  harn : ∀ j < hs.length, toFn n (A (qs.getD j []))
    = ∑ r ∈ Finset.range (hs.length + 1), seq (hs.getD j []) r • toFn n (qs.getD r [])
  hlen : ∀ j < hs.length, (hs.getD j []).length = j + 2

theorem rawCol_length (A : Vec → Vec) (ar : Arith) (s : GState) : (rawCol A ar s).length = s.qs.length + 1 := by
  simp [rawCol, mgs_fst_length]

theorem getLastD_eq_getD (qs : List Vec) (k : ℕ) (h : qs.length = k + 1) : qs.getLastD [] = qs.getD k [] := by
  rw [List.getLastD_eq_getLast?, List.getLast?_eq_getElem?, h, List.getD_eq_getElem?_getD]
  simp

theorem arnInv_step (n : ℕ) (A : Vec → Vec) (hAlen : ∀ v : Vec, v.length = n → (A v).length = n) (ar : Arith)
    (hrnd : ∀ x, ar.rnd x = x) (hs : List (List Rat)) (s : GState) (inv : ArnInv n A hs s.qs)
    (hsq : ar.sq (dot (mgs s.qs (A (s.qs.getLastD []))).2 (mgs s.qs (A (s.qs.getLastD []))).2)
        * ar.sq (dot (mgs s.qs (A (s.qs.getLastD []))).2 (mgs s.qs (A (s.qs.getLastD []))).2)
      = dot (mgs s.qs (A (s.qs.getLastD []))).2 (mgs s.qs (A (s.qs.getLastD []))).2)
    (hpos : 0 < ar.sq (dot (mgs s.qs (A (s.qs.getLastD []))).2 (mgs s.qs (A (s.qs.getLastD []))).2)) :
    ArnInv n A (hs ++ [rawCol A ar s]) (s.qs ++ [newQ A ar s]) := by
  obtain ⟨hq, hon, harn, hlen⟩ := inv
  have hqlen : ∀ c ∈ s.qs, c.length = n := fun c hc => (hon.1 c hc).1
  have hlast : s.qs.getLastD [] = s.qs.getD hs.length [] := getLastD_eq_getD _ _ hq
  have hlastmem : s.qs.getD hs.length [] ∈ s.qs := by
    rw [List.getD_eq_getElem?_getD, List.getElem?_eq_getElem (by omega)]
    exact List.getElem_mem _
  have hwlen : (A (s.qs.getLastD [])).length = n := by rw [hlast]; exact hAlen _ (hqlen _ hlastmem)
  generalize hw : A (s.qs.getLastD []) = w at *
  have hrem : (mgs s.qs w).2 = projOut s.qs w := mgs_snd _ _
  have hnq : newQ A ar s = scale (1 / ar.sq (dot (mgs s.qs w).2 (mgs s.qs w).2)) (mgs s.qs w).2 := by
    unfold newQ
    rw [hw]
    simp only [gt_iff_lt, hpos, if_true]
    unfold normalize; exact map_rnd_id ar hrnd _
  have hne : ar.sq (dot (mgs s.qs w).2 (mgs s.qs w).2) ≠ 0 := ne_of_gt hpos
  -- orthonormality through the Gram-Schmidt step lemma
  have hon' : ON n (s.qs ++ [newQ A ar s]) := by
    have h := gs_orthonormal ar hrnd 0 le_rfl n [w] s.qs hon (by simpa using hwlen)
      ⟨by rw [← hrem]; exact hsq, trivial⟩
    simp only [List.foldl_cons, List.foldl_nil, gsStep] at h
    rw [← hrem] at h
    simp only [gt_iff_lt, hpos, if_true] at h
    have e : newQ A ar s = normalize ar (ar.sq (dot (mgs s.qs w).2 (mgs s.qs w).2)) (mgs s.qs w).2 := by
      unfold newQ; rw [hw]; simp only [gt_iff_lt, hpos, if_true]
    rw [e]; exact h
  have hrel := mgs_relation n s.qs hqlen w hwlen
  refine ⟨by simp [hq], hon', ?_, ?_⟩
  · intro j hj
    simp only [List.length_append, List.length_singleton] at hj ⊢
    rw [Finset.sum_range_succ]
    by_cases h1 : j < hs.length
    · rw [getD_append_lt _ _ _ _ h1, getD_append_lt _ _ _ _ (by omega), harn j h1]
      rw [seq_of_le (hs.getD j []) (hs.length + 1) (by rw [hlen j h1]; omega), zero_smul, add_zero]
      refine Finset.sum_congr rfl fun r hr => ?_
      rw [Finset.mem_range] at hr
      rw [getD_append_lt _ _ _ _ (by omega)]
    · have : j = hs.length := by omega
      subst this
      rw [getD_append_eq, getD_append_lt _ _ _ _ (by omega), ← hlast, hw]
      have hql : (s.qs ++ [newQ A ar s]).getD (hs.length + 1) [] = newQ A ar s := by
        rw [← hq]; exact getD_append_eq _ _ _
      rw [hql, hnq, toFn_scale]
      have hlastcoef : seq (rawCol A ar s) (hs.length + 1) = ar.sq (dot (mgs s.qs w).2 (mgs s.qs w).2) := by
        unfold rawCol
        rw [hw, seq_append, mgs_fst_length, hq]
        simp [seq]
      rw [hlastcoef, smul_smul, mul_one_div_cancel hne, one_smul]
      conv_lhs => rw [hrel]
      rw [add_comm, hq]
      congr 1
      refine Finset.sum_congr rfl fun r hr => ?_
      rw [Finset.mem_range] at hr
      rw [getD_append_lt _ _ _ _ (by omega)]
      congr 1
      unfold rawCol
      rw [hw, seq_append, mgs_fst_length, hq]
      simp only [hr, if_true]
  · intro j hj
    simp only [List.length_append, List.length_singleton] at hj
    by_cases h1 : j < hs.length
    · rw [getD_append_lt _ _ _ _ h1]; exact hlen j h1
    · have : j = hs.length := by omega
      subst this
      rw [getD_append_eq, rawCol_length, hq]

/-! ### the iterate and its residual -/

theorem zip_map_sum {M : Type} [AddCommMonoid M] (f : Rat → Vec → M) (y : List Rat) (qs : List Vec) (h : y.length ≤ qs.length) :
    ((List.zip y qs).map (fun yq => f yq.1 yq.2)).sum = ∑ j ∈ Finset.range y.length, f (seq y j) (qs.getD j []) := by
  induction y generalizing qs with
  | nil => simp
  | cons a y ih =>
    match qs, h with
    | q :: qs, h =>
      simp only [List.zip_cons_cons, List.map_cons, List.sum_cons, List.length_cons]
      rw [Finset.sum_range_succ', ih qs (by simpa using h)]
      simp only [seq_cons_succ, seq_cons_zero, List.getD_cons_succ, List.getD_cons_zero]
      rw [add_comm]

theorem foldl_axpy_length (n : ℕ) (l : List (Rat × Vec)) (hl : ∀ yq ∈ l, yq.2.length = n) (x : Vec) (hx : x.length = n) :
    (l.foldl (fun x yq => axpy yq.1 yq.2 x) x).length = n := by
  induction l generalizing x with
  | nil => exact hx
  | cons a l ih =>
    rw [List.foldl_cons]
    apply ih (fun b hb => hl b (List.mem_cons_of_mem _ hb))
    rw [axpy_length _ _ _ (by rw [hl a (List.mem_cons_self ..), hx]), hx]

theorem foldl_axpy_toFn (n : ℕ) (l : List (Rat × Vec)) (hl : ∀ yq ∈ l, yq.2.length = n) (x : Vec) (hx : x.length = n) :
    toFn n (l.foldl (fun x yq => axpy yq.1 yq.2 x) x) = toFn n x + (l.map (fun yq => yq.1 • toFn n yq.2)).sum := by
  induction l generalizing x with
  | nil => simp
  | cons a l ih =>
    have ha := hl a (List.mem_cons_self ..)
    rw [List.foldl_cons, ih (fun b hb => hl b (List.mem_cons_of_mem _ hb)) _
      (by rw [axpy_length _ _ _ (by rw [ha, hx]), hx]), toFn_axpy n _ _ _ (by rw [ha, hx])]
    simp only [List.map_cons, List.sum_cons]
    rw [add_assoc]

/-- linearity of `A` carried through the accumulation loop `for i: x += y[i] q[i]` -/
theorem foldl_axpy_apply (n : ℕ) (A : Vec → Vec) (hAlen : ∀ v : Vec, v.length = n → (A v).length = n)
    (hAlin : ∀ (a : Rat) (u v : Vec), u.length = n → v.length = n → A (axpy a u v) = axpy a (A u) (A v))
    (l : List (Rat × Vec)) (hl : ∀ yq ∈ l, yq.2.length = n) (x : Vec) (hx : x.length = n) :
    toFn n (A (l.foldl (fun x yq => axpy yq.1 yq.2 x) x))
      = toFn n (A x) + (l.map (fun yq => yq.1 • toFn n (A yq.2))).sum := by
  induction l generalizing x with
  | nil => simp
  | cons a l ih =>
    have ha := hl a (List.mem_cons_self ..)
    rw [List.foldl_cons, ih (fun b hb => hl b (List.mem_cons_of_mem _ hb)) _
      (by rw [axpy_length _ _ _ (by rw [ha, hx]), hx]), hAlin _ _ _ ha hx,
      toFn_axpy n _ _ _ (by rw [hAlen _ ha, hAlen _ hx])]
    simp only [List.map_cons, List.sum_cons]
    rw [add_assoc]

/-- orthonormality in index form -/
theorem on_index (n : ℕ) (qs : List Vec) (hon : ON n qs) (r r' : ℕ) (hr : r < qs.length) (hr' : r' < qs.length) :
    dot (qs.getD r []) (qs.getD r' []) = if r = r' then 1 else 0 := by
  have e : ∀ i, i < qs.length → qs.getD i [] = qs[i]! := by
    intro i hi; simp [List.getD_eq_getElem?_getD, hi]
  have hp := List.pairwise_iff_getElem.1 hon.2
  rw [List.getD_eq_getElem?_getD, List.getD_eq_getElem?_getD, List.getElem?_eq_getElem hr,
    List.getElem?_eq_getElem hr']
  simp only [Option.getD_some]
  rcases Nat.lt_trichotomy r r' with h | h | h
  · rw [hp r r' hr hr' h]; simp [Nat.ne_of_lt h]
  · subst h; simp [(hon.1 _ (List.getElem_mem hr)).2]
  · rw [dot_comm, hp r' r hr' hr h]; simp [Nat.ne_of_gt h]

/-- Pythagoras: `‖Σ_r ρ_r q_r‖² = Σ_r ρ_r²` for orthonormal `q` -/
theorem dot_of_coords (n m : ℕ) (qs : List Vec) (hon : ON n qs) (hm : m ≤ qs.length) (ρ : ℕ → ℚ) (v : Vec)
    (hv : v.length = n) (hcoord : toFn n v = ∑ r ∈ Finset.range m, ρ r • toFn n (qs.getD r [])) :
    dot v v = sumsq m ρ := by
  have hql : ∀ r < m, (qs.getD r []).length = n := by
    intro r hr
    have : qs.getD r [] ∈ qs := by
      rw [List.getD_eq_getElem?_getD, List.getElem?_eq_getElem (by omega)]
      exact List.getElem_mem _
    exact (hon.1 _ this).1
  rw [dot_eq_sum n v v hv hv, hcoord]
  simp only [Finset.sum_apply, Pi.smul_apply, smul_eq_mul]
  have h1 : ∀ a : Fin n, (∑ r ∈ Finset.range m, ρ r * toFn n (qs.getD r []) a)
        * (∑ r ∈ Finset.range m, ρ r * toFn n (qs.getD r []) a)
      = ∑ r ∈ Finset.range m, ∑ r' ∈ Finset.range m,
          ρ r * ρ r' * (toFn n (qs.getD r []) a * toFn n (qs.getD r' []) a) := by
    intro a
    rw [Finset.sum_mul_sum]
    refine Finset.sum_congr rfl fun r _ => Finset.sum_congr rfl fun r' _ => ?_
    ring
  simp only [h1]
  rw [Finset.sum_comm]
  unfold sumsq
  refine Finset.sum_congr rfl fun r hr => ?_
  rw [Finset.mem_range] at hr
  rw [Finset.sum_comm]
  have h2 : ∀ r' ∈ Finset.range m, ∑ a : Fin n, ρ r * ρ r' * (toFn n (qs.getD r []) a * toFn n (qs.getD r' []) a)
      = ρ r * ρ r' * (if r = r' then 1 else 0) := by
    intro r' hr'
    rw [Finset.mem_range] at hr'
    rw [← Finset.mul_sum, ← dot_eq_sum n _ _ (hql r hr) (hql r' hr'), on_index n qs hon r r' (by omega) (by omega)]
  rw [Finset.sum_congr rfl h2]
  simp only [mul_ite, mul_one, mul_zero]
  rw [Finset.sum_ite_eq]
  simp [hr]

end TenpyModel.C16.P2
