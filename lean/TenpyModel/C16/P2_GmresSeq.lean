import TenpyModel.C16.Lanczos
import Mathlib.Algebra.BigOperators.Intervals
import Mathlib.Algebra.Order.Field.Rat
import Mathlib.Tactic.Ring
import Mathlib.Tactic.Linarith
/-!
Givens rotations on sequences `ℕ → ℚ` (a list read with default 0), and the bridge to the model function
`applyRots` (helper lemmas for `C16_gmres_residual`).
-/
namespace TenpyModel.C16.P2
open TenpyModel.C16

/-- a list of numbers read as a sequence (0 beyond the end) -/
def seq (l : List Rat) : ℕ → ℚ := fun i => l.getD i 0

/-- the Givens rotation `(c, s)` acting on the entries `i, i+1` -/
def rot (c s : ℚ) (i : ℕ) (f : ℕ → ℚ) : ℕ → ℚ := fun j =>
  if j = i then c * f i + s * f (i + 1) else if j = i + 1 then -s * f i + c * f (i + 1) else f j

/-- the rotations of the list act on the entries `(i, i+1), (i+1, i+2), …` in this order -/
def rotsFrom : ℕ → List (Rat × Rat) → (ℕ → ℚ) → (ℕ → ℚ)
  | _, [], f => f
  | i, (c, s) :: rs, f => rotsFrom (i + 1) rs (rot c s i f)

theorem seq_nil (j : ℕ) : seq [] j = 0 := by simp [seq]

theorem seq_cons_zero (a : Rat) (l : List Rat) : seq (a :: l) 0 = a := by simp [seq]

theorem seq_cons_succ (a : Rat) (l : List Rat) (j : ℕ) : seq (a :: l) (j + 1) = seq l j := by simp [seq]

theorem seq_of_le (l : List Rat) (j : ℕ) (h : l.length ≤ j) : seq l j = 0 := by
  simp [seq, List.getD_eq_getElem?_getD, List.getElem?_eq_none h]

theorem seq_append (pre l : List Rat) (j : ℕ) :
    seq (pre ++ l) j = if j < pre.length then seq pre j else seq l (j - pre.length) := by
  simp only [seq, List.getD_eq_getElem?_getD]
  split
  · rename_i h; rw [List.getElem?_append_left h]
  · rename_i h; rw [List.getElem?_append_right (by omega)]

theorem applyRots_cons (c s a b : Rat) (rs : List (Rat × Rat)) (rest : List Rat) :
    applyRots ((c, s) :: rs) (a :: b :: rest) = (c * a + s * b) :: applyRots rs ((-s * a + c * b) :: rest) := rfl

theorem applyRots_length (rots : List (Rat × Rat)) (col : List Rat) : (applyRots rots col).length = col.length := by
  induction rots generalizing col with
  | nil => cases col <;> rfl
  | cons cs rs ih =>
    obtain ⟨c, s⟩ := cs
    match col with
    | [] => rfl
    | [_] => rfl
    | a :: b :: rest => rw [applyRots_cons, List.length_cons, ih]; rfl

/-- `applyRots` is the sequence of rotations on `(0,1), (1,2), …` -/
theorem applyRots_seq_aux (rots : List (Rat × Rat)) (pre col : List Rat) (h : rots.length + 1 ≤ col.length) :
    seq (pre ++ applyRots rots col) = rotsFrom pre.length rots (seq (pre ++ col)) := by
  induction rots generalizing pre col with
  | nil => cases col <;> rfl
  | cons cs rs ih =>
    obtain ⟨c, s⟩ := cs
    match col, h with
    | a :: b :: rest, h =>
      rw [applyRots_cons]
      have e1 : pre ++ (c * a + s * b) :: applyRots rs ((-s * a + c * b) :: rest)
          = (pre ++ [c * a + s * b]) ++ applyRots rs ((-s * a + c * b) :: rest) := by simp
      rw [e1, ih (pre ++ [c * a + s * b]) ((-s * a + c * b) :: rest) (by simp at h ⊢; omega)]
      have e2 : (pre ++ [c * a + s * b]).length = pre.length + 1 := by simp
      rw [e2]
      show _ = rotsFrom (pre.length + 1) rs (rot c s pre.length (seq (pre ++ a :: b :: rest)))
      congr 1
      funext j
      have ha : seq (pre ++ a :: b :: rest) pre.length = a := by
        rw [seq_append]; simp [seq]
      have hb : seq (pre ++ a :: b :: rest) (pre.length + 1) = b := by
        rw [seq_append]; simp [seq]
      simp only [rot, ha, hb]
      rw [List.append_assoc, seq_append]
      by_cases h1 : j < pre.length
      · have h2 : j ≠ pre.length := by omega
        have h3 : j ≠ pre.length + 1 := by omega
        simp only [h1, h2, h3, if_true, if_false]
        rw [seq_append]; simp only [h1, if_true]
      · simp only [h1, if_false]
        by_cases h2 : j = pre.length
        · subst h2; simp [seq]
        · by_cases h3 : j = pre.length + 1
          · subst h3; simp [seq]
          · simp only [h2, h3, if_false]
            rw [seq_append, seq_append pre]
            obtain ⟨d, hd⟩ : ∃ d, j - pre.length = d + 2 := ⟨j - pre.length - 2, by omega⟩
            simp only [h1, if_false, hd]
            simp [seq]

theorem applyRots_seq (rots : List (Rat × Rat)) (col : List Rat) (h : rots.length + 1 ≤ col.length) :
    seq (applyRots rots col) = rotsFrom 0 rots (seq col) := by
  simpa using applyRots_seq_aux rots [] col h

/-! ### linearity -/

theorem rot_lin (c s : ℚ) (i : ℕ) (f g : ℕ → ℚ) (a : ℚ) :
    rot c s i (fun j => f j + a * g j) = fun j => rot c s i f j + a * rot c s i g j := by
  funext j
  simp only [rot]
  split_ifs <;> ring

theorem rotsFrom_lin (i : ℕ) (rots : List (Rat × Rat)) (f g : ℕ → ℚ) (a : ℚ) :
    rotsFrom i rots (fun j => f j + a * g j) = fun j => rotsFrom i rots f j + a * rotsFrom i rots g j := by
  induction rots generalizing i f g with
  | nil => rfl
  | cons cs rs ih =>
    obtain ⟨c, s⟩ := cs
    simp only [rotsFrom]
    rw [rot_lin, ih]

theorem rotsFrom_sub_sum (i : ℕ) (rots : List (Rat × Rat)) (f : ℕ → ℚ) (C : ℕ → ℕ → ℚ) (y : ℕ → ℚ) (k : ℕ) :
    rotsFrom i rots (fun r => f r - ∑ j ∈ Finset.range k, y j * C j r)
      = fun r => rotsFrom i rots f r - ∑ j ∈ Finset.range k, y j * rotsFrom i rots (C j) r := by
  induction k with
  | zero => simp
  | succ k ih =>
    have e : (fun r => f r - ∑ j ∈ Finset.range (k + 1), y j * C j r)
        = fun r => (fun r => f r - ∑ j ∈ Finset.range k, y j * C j r) r + (-(y k)) * C k r := by
      funext r; rw [Finset.sum_range_succ]; ring
    rw [e, rotsFrom_lin, ih]
    funext r
    rw [Finset.sum_range_succ]; ring

/-! ### what a rotation leaves alone -/

theorem rot_of_zero (c s : ℚ) (i : ℕ) (f : ℕ → ℚ) (h1 : f i = 0) (h2 : f (i + 1) = 0) : rot c s i f = f := by
  funext j
  simp only [rot, h1, h2]
  split_ifs with h3 h4
  · subst h3; simp [h1]
  · subst h4; simp [h2]
  · rfl

theorem rotsFrom_of_zero (i : ℕ) (rots : List (Rat × Rat)) (f : ℕ → ℚ) (h : ∀ j, i ≤ j → f j = 0) :
    rotsFrom i rots f = f := by
  induction rots generalizing i with
  | nil => rfl
  | cons cs rs ih =>
    obtain ⟨c, s⟩ := cs
    simp only [rotsFrom]
    rw [rot_of_zero c s i f (h i le_rfl) (h (i + 1) (by omega))]
    exact ih (i + 1) (fun j hj => h j (by omega))

theorem rotsFrom_append (i : ℕ) (r1 r2 : List (Rat × Rat)) (f : ℕ → ℚ) :
    rotsFrom i (r1 ++ r2) f = rotsFrom (i + r1.length) r2 (rotsFrom i r1 f) := by
  induction r1 generalizing i f with
  | nil => rfl
  | cons cs rs ih =>
    obtain ⟨c, s⟩ := cs
    simp only [List.cons_append, rotsFrom, List.length_cons]
    rw [ih]
    congr 1
    omega

/-- entries below the rotated range are untouched -/
theorem rot_below (c s : ℚ) (i : ℕ) (f : ℕ → ℚ) (j : ℕ) (h : j < i) : rot c s i f j = f j := by
  simp only [rot]
  have h1 : j ≠ i := by omega
  have h2 : j ≠ i + 1 := by omega
  simp [h1, h2]

theorem rotsFrom_below (i : ℕ) (rots : List (Rat × Rat)) (f : ℕ → ℚ) (j : ℕ) (h : j < i) :
    rotsFrom i rots f j = f j := by
  induction rots generalizing i f with
  | nil => rfl
  | cons cs rs ih =>
    obtain ⟨c, s⟩ := cs
    simp only [rotsFrom]
    rw [ih (i + 1) _ (by omega), rot_below _ _ _ _ _ h]

/-- entries above the rotated range are untouched -/
theorem rotsFrom_above (i : ℕ) (rots : List (Rat × Rat)) (f : ℕ → ℚ) (j : ℕ) (h : i + rots.length < j) :
    rotsFrom i rots f j = f j := by
  induction rots generalizing i f with
  | nil => rfl
  | cons cs rs ih =>
    obtain ⟨c, s⟩ := cs
    simp only [rotsFrom]
    simp only [List.length_cons] at h
    rw [ih (i + 1) _ (by omega)]
    simp only [rot]
    have h1 : j ≠ i := by omega
    have h2 : j ≠ i + 1 := by omega
    simp [h1, h2]

/-! ### rotations preserve the sum of squares -/

def sumsq (m : ℕ) (f : ℕ → ℚ) : ℚ := ∑ j ∈ Finset.range m, f j * f j

theorem rot_sumsq (c s : ℚ) (hcs : c * c + s * s = 1) (i m : ℕ) (hi : i + 1 < m) (f : ℕ → ℚ) :
    sumsq m (rot c s i f) = sumsq m f := by
  unfold sumsq
  have hsub : ({i, i + 1} : Finset ℕ) ⊆ Finset.range m := by
    intro j hj
    simp only [Finset.mem_insert, Finset.mem_singleton] at hj
    simp only [Finset.mem_range]
    omega
  rw [← Finset.sum_sdiff hsub, ← Finset.sum_sdiff (f := fun j => f j * f j) hsub]
  have hne : i ≠ i + 1 := by omega
  rw [Finset.sum_pair hne, Finset.sum_pair hne]
  congr 1
  · refine Finset.sum_congr rfl fun j hj => ?_
    simp only [Finset.mem_sdiff, Finset.mem_insert, Finset.mem_singleton, not_or] at hj
    simp only [rot, hj.2.1, hj.2.2, if_false]
  · have e1 : rot c s i f i = c * f i + s * f (i + 1) := by simp [rot]
    have e2 : rot c s i f (i + 1) = -s * f i + c * f (i + 1) := by simp [rot]
    rw [e1, e2]
    have : (c * f i + s * f (i + 1)) * (c * f i + s * f (i + 1))
        + (-s * f i + c * f (i + 1)) * (-s * f i + c * f (i + 1))
        = (c * c + s * s) * (f i * f i + f (i + 1) * f (i + 1)) := by ring
    rw [this, hcs, one_mul]

theorem rotsFrom_sumsq (i m : ℕ) (rots : List (Rat × Rat)) (hcs : ∀ cs ∈ rots, cs.1 * cs.1 + cs.2 * cs.2 = 1)
    (hi : i + rots.length < m) (f : ℕ → ℚ) : sumsq m (rotsFrom i rots f) = sumsq m f := by
  induction rots generalizing i f with
  | nil => rfl
  | cons cs rs ih =>
    obtain ⟨c, s⟩ := cs
    simp only [rotsFrom]
    simp only [List.length_cons] at hi
    rw [ih (i + 1) (fun x hx => hcs x (List.mem_cons_of_mem _ hx)) (by omega),
      rot_sumsq c s (hcs (c, s) (List.mem_cons_self ..)) i m (by omega)]

end TenpyModel.C16.P2
