import TenpyModel.C16.P2_GmresArn
import Mathlib.Algebra.Module.BigOperators
import Mathlib.Algebra.BigOperators.GroupWithZero.Action
import Mathlib.Tactic.Abel
/-!
The run of the GMRES model (`gmresCycle`): both invariants hold along the run (exact roots, no breakdown), the
residual of the iterate after `i` inner steps has squared norm `g_i²`, and the reported estimates are `|g_{i+1}|`.
-/
namespace TenpyModel.C16.P2
open TenpyModel.C16

/-- initial state of a restart cycle (`GMRES.__init__` / `reset`) -/
def gmInit (A : Vec → Vec) (ar : Arith) (x b : Vec) : GState :=
  { qs := [normalize ar (ar.sq (dot (axpy (-1) (A x) b) (axpy (-1) (A x) b))) (axpy (-1) (A x) b)], rots := [],
    cols := [], g := [ar.sq (dot (axpy (-1) (A x) b) (axpy (-1) (A x) b))], errs := [] }

/-- the state after `i` inner iterations -/
def gmState (A : Vec → Vec) (ar : Arith) (x b : Vec) (i : ℕ) : GState :=
  (List.range i).foldl (fun s _ => gmresStep A ar s) (gmInit A ar x b)

theorem gmState_succ (A : Vec → Vec) (ar : Arith) (x b : Vec) (i : ℕ) :
    gmState A ar x b (i + 1) = gmresStep A ar (gmState A ar x b i) := by
  simp [gmState, List.range_succ, List.foldl_append]

theorem gmresCycle_eq (A : Vec → Vec) (ar : Arith) (n : ℕ) (x b : Vec) :
    gmresCycle A ar n x b =
      ((List.zip (backsolve ar (gmState A ar x b n).cols (gmState A ar x b n).g) (gmState A ar x b n).qs).foldl
        (fun x yq => axpy yq.1 yq.2 x) x, (gmState A ar x b n).errs) := rfl

/-- the raw Hessenberg columns of the run (ghost) -/
def gmRaw (A : Vec → Vec) (ar : Arith) (x b : Vec) (i : ℕ) : List (List Rat) :=
  (List.range i).map (fun j => rawCol A ar (gmState A ar x b j))

theorem gmRaw_succ (A : Vec → Vec) (ar : Arith) (x b : Vec) (i : ℕ) :
    gmRaw A ar x b (i + 1) = gmRaw A ar x b i ++ [rawCol A ar (gmState A ar x b i)] := by
  simp [gmRaw, List.range_succ]

theorem gmRaw_length (A : Vec → Vec) (ar : Arith) (x b : Vec) (i : ℕ) : (gmRaw A ar x b i).length = i := by
  simp [gmRaw]

/-- the roots taken in one inner iteration are exact, and there is no breakdown (`H[k+1,k] > 0`) -/
def StepExact (A : Vec → Vec) (ar : Arith) (s : GState) : Prop :=
  ar.sq (dot (mgs s.qs (A (s.qs.getLastD []))).2 (mgs s.qs (A (s.qs.getLastD []))).2)
      * ar.sq (dot (mgs s.qs (A (s.qs.getLastD []))).2 (mgs s.qs (A (s.qs.getLastD []))).2)
    = dot (mgs s.qs (A (s.qs.getLastD []))).2 (mgs s.qs (A (s.qs.getLastD []))).2 ∧
  0 < ar.sq (dot (mgs s.qs (A (s.qs.getLastD []))).2 (mgs s.qs (A (s.qs.getLastD []))).2) ∧
  GivensExact ar (applyRots s.rots (rawCol A ar s))

/-- the root of the initial residual is exact and the residual is not zero -/
def InitExact (A : Vec → Vec) (ar : Arith) (x b : Vec) : Prop :=
  ar.sq (dot (axpy (-1) (A x) b) (axpy (-1) (A x) b)) * ar.sq (dot (axpy (-1) (A x) b) (axpy (-1) (A x) b))
    = dot (axpy (-1) (A x) b) (axpy (-1) (A x) b) ∧
  ar.sq (dot (axpy (-1) (A x) b) (axpy (-1) (A x) b)) ≠ 0

theorem gm_invariants (d : ℕ) (A : Vec → Vec) (hAlen : ∀ v : Vec, v.length = d → (A v).length = d) (ar : Arith)
    (hrnd : ∀ x, ar.rnd x = x) (x b : Vec) (hx : x.length = d) (hb : b.length = d) (h0 : InitExact A ar x b)
    (n : ℕ) (hex : ∀ i < n, StepExact A ar (gmState A ar x b i)) :
    ArnInv d A (gmRaw A ar x b n) (gmState A ar x b n).qs ∧
    RotInv (ar.sq (dot (axpy (-1) (A x) b) (axpy (-1) (A x) b))) (gmRaw A ar x b n)
      (gmState A ar x b n).rots (gmState A ar x b n).cols (gmState A ar x b n).g ∧
    (gmState A ar x b n).qs.getD 0 []
      = scale (1 / ar.sq (dot (axpy (-1) (A x) b) (axpy (-1) (A x) b))) (axpy (-1) (A x) b) := by
  induction n with
  | zero =>
    obtain ⟨hsq, hne⟩ := h0
    have hr0 : (axpy (-1) (A x) b).length = d := by rw [axpy_length _ _ _ (by rw [hAlen x hx, hb]), hb]
    have hq0 : normalize ar (ar.sq (dot (axpy (-1) (A x) b) (axpy (-1) (A x) b))) (axpy (-1) (A x) b)
        = scale (1 / ar.sq (dot (axpy (-1) (A x) b) (axpy (-1) (A x) b))) (axpy (-1) (A x) b) := by
      unfold normalize; exact map_rnd_id ar hrnd _
    refine ⟨⟨rfl, ⟨?_, List.pairwise_singleton _ _⟩, fun j hj => by simp [gmRaw] at hj,
      fun j hj => by simp [gmRaw] at hj⟩, rotInv_init _, ?_⟩
    · intro o ho
      have : o = scale (1 / ar.sq (dot (axpy (-1) (A x) b) (axpy (-1) (A x) b))) (axpy (-1) (A x) b) := by
        rw [← hq0]; simpa [gmState, gmInit] using ho
      subst this
      refine ⟨by rw [scale_length, hr0], ?_⟩
      rw [dot_scale_left, dot_scale_right]
      have key : ∀ q dd : Rat, q ≠ 0 → q * q = dd → 1 / q * (1 / q * dd) = 1 := by
        intro q dd hq h; rw [← h]; field_simp
      exact key _ _ hne hsq
    · rw [← hq0]; rfl
  | succ n ih =>
    obtain ⟨ha, hro, hq0⟩ := ih (fun i hi => hex i (by omega))
    obtain ⟨e1, e2, e3⟩ := hex n (by omega)
    rw [gmState_succ, gmRaw_succ, gmresStep_qs, gmresStep_rots, gmresStep_cols, gmresStep_g]
    refine ⟨arnInv_step d A hAlen ar hrnd _ _ ha e1 e2, ?_, ?_⟩
    · apply rotInv_step ar hrnd _ _ _ _ _ hro _ _ e3
      rw [rawCol_length, ha.hq]
    · rw [getD_append_lt _ _ _ _ (by rw [ha.hq]; omega), hq0]

/-- the estimate appended by step `i` is `|g_{i+1}|` of the new state -/
theorem gm_errs (d : ℕ) (A : Vec → Vec) (hAlen : ∀ v : Vec, v.length = d → (A v).length = d) (ar : Arith)
    (hrnd : ∀ x, ar.rnd x = x) (x b : Vec) (hx : x.length = d) (hb : b.length = d) (h0 : InitExact A ar x b)
    (n : ℕ) (hex : ∀ i < n, StepExact A ar (gmState A ar x b i)) :
    (gmState A ar x b n).errs
      = (List.range n).map (fun i => rabs (seq (gmState A ar x b (i + 1)).g (i + 1))) := by
  induction n with
  | zero => rfl
  | succ n ih =>
    obtain ⟨_, hro, _⟩ := gm_invariants d A hAlen ar hrnd x b hx hb h0 n (fun i hi => hex i (by omega))
    rw [List.range_succ, List.map_append, ← ih (fun i hi => hex i (by omega))]
    simp only [List.map_cons, List.map_nil]
    rw [gmState_succ, gmresStep_errs, gmresStep_g]
    congr 2
    have hc : (gmState A ar x b n).cols.length = n := by rw [hro.hc, gmRaw_length]
    have hg : (gmState A ar x b n).g.length = n + 1 := by rw [hro.hg, gmRaw_length]
    rw [hc, seq_take_append_pair _ n (by omega)]
    simp

theorem rabs_mul_self (a : Rat) : rabs a * rabs a = a * a := by
  unfold rabs; split <;> ring

theorem rabs_nonneg (a : Rat) : 0 ≤ rabs a := by
  unfold rabs; split
  · rename_i h; linarith
  · rename_i h; exact not_lt.1 h

/-- **the residual of the iterate after `n` inner steps has squared norm `g_n²`** -/
theorem gm_residual (d : ℕ) (A : Vec → Vec) (hAlen : ∀ v : Vec, v.length = d → (A v).length = d)
    (hAlin : ∀ (a : Rat) (u v : Vec), u.length = d → v.length = d → A (axpy a u v) = axpy a (A u) (A v))
    (ar : Arith) (hrnd : ∀ x, ar.rnd x = x) (x b : Vec) (hx : x.length = d) (hb : b.length = d)
    (h0 : InitExact A ar x b) (n : ℕ) (hex : ∀ i < n, StepExact A ar (gmState A ar x b i)) :
    dot (axpy (-1) (A (gmresCycle A ar n x b).1) b) (axpy (-1) (A (gmresCycle A ar n x b).1) b)
      = seq (gmState A ar x b n).g n * seq (gmState A ar x b n).g n := by
  obtain ⟨ha, hro, hq0⟩ := gm_invariants d A hAlen ar hrnd x b hx hb h0 n hex
  have hres := rot_residual ar hrnd _ _ _ _ _ hro
  rw [gmRaw_length] at hres
  rw [← hres, gmresCycle_eq]
  simp only
  generalize hs : gmState A ar x b n = s at *
  generalize hhs : gmRaw A ar x b n = hsr at *
  have hhl : hsr.length = n := by rw [← hhs]; exact gmRaw_length _ _ _ _ _
  generalize hy : backsolve ar s.cols s.g = y at *
  have hyl : y.length = n := by
    have := (backsolve_correct ar hrnd s.cols s.g (by rw [hro.hc]; exact hro.cdiag) (by rw [hro.hc]; exact hro.ctri)).1
    rw [hy, hro.hc, hhl] at this; exact this
  have hql : s.qs.length = n + 1 := by rw [ha.hq, hhl]
  have hqlen : ∀ c ∈ s.qs, c.length = d := fun c hc => (ha.hon.1 c hc).1
  have hzl : ∀ yq ∈ List.zip y s.qs, yq.2.length = d := by
    intro yq hyq
    exact hqlen _ (List.of_mem_zip hyq).2
  have hx'len : ((List.zip y s.qs).foldl (fun x yq => axpy yq.1 yq.2 x) x).length = d :=
    foldl_axpy_length d _ hzl x hx
  have hAx' := foldl_axpy_apply d A hAlen hAlin _ hzl x hx
  rw [zip_map_sum (fun a q => a • toFn d (A q)) y s.qs (by omega), hyl] at hAx'
  have hrlen : (axpy (-1) (A ((List.zip y s.qs).foldl (fun x yq => axpy yq.1 yq.2 x) x)) b).length = d := by
    rw [axpy_length _ _ _ (by rw [hAlen _ hx'len, hb]), hb]
  apply dot_of_coords d (n + 1) s.qs ha.hon (by omega) _ _ hrlen
  rw [toFn_axpy d _ _ _ (by rw [hAlen _ hx'len, hb]), hAx']
  -- the initial residual is `β q_0`
  obtain ⟨hsq, hne⟩ := h0
  have hr0 : toFn d b + (-1 : ℚ) • toFn d (A x)
      = ar.sq (dot (axpy (-1) (A x) b) (axpy (-1) (A x) b)) • toFn d (s.qs.getD 0 []) := by
    rw [hq0, toFn_scale, smul_smul, mul_one_div_cancel hne, one_smul, toFn_axpy d _ _ _ (by rw [hAlen x hx, hb])]
  -- expand the right-hand side
  have hrhs : ∑ r ∈ Finset.range (n + 1),
        (seq [ar.sq (dot (axpy (-1) (A x) b) (axpy (-1) (A x) b))] r
          - ∑ j ∈ Finset.range n, seq y j * seq (hsr.getD j []) r) • toFn d (s.qs.getD r [])
      = ar.sq (dot (axpy (-1) (A x) b) (axpy (-1) (A x) b)) • toFn d (s.qs.getD 0 [])
        - ∑ j ∈ Finset.range n, seq y j • ∑ r ∈ Finset.range (n + 1), seq (hsr.getD j []) r • toFn d (s.qs.getD r []) := by
    simp only [sub_smul, Finset.sum_sub_distrib]
    congr 1
    · rw [Finset.sum_range_succ']
      simp [seq]
    · simp only [Finset.sum_smul, Finset.smul_sum, smul_smul]
      rw [Finset.sum_comm]
  rw [hrhs, ← hr0]
  have harn : ∀ j ∈ Finset.range n, seq y j • toFn d (A (s.qs.getD j []))
      = seq y j • ∑ r ∈ Finset.range (n + 1), seq (hsr.getD j []) r • toFn d (s.qs.getD r []) := by
    intro j hj
    rw [Finset.mem_range] at hj
    have := ha.harn j (by omega)
    rw [hhl] at this
    rw [this]
  rw [Finset.sum_congr rfl harn]
  simp only [smul_add, neg_smul, one_smul]
  abel

/-! ### a dense matrix is a linear, length-preserving operator (to instantiate the hypotheses on `A`) -/

theorem matvec_length (M : List Vec) (v : Vec) : (matvec M v).length = M.length := by simp [matvec]

theorem matvec_axpy (d : ℕ) (M : List Vec) (hM : ∀ r ∈ M, r.length = d) (a : Rat) (u v : Vec) (hu : u.length = d)
    (hv : v.length = d) : matvec M (axpy a u v) = axpy a (matvec M u) (matvec M v) := by
  induction M with
  | nil => simp [matvec, axpy]
  | cons r M ih =>
    have e1 : ∀ w, matvec (r :: M) w = dot r w :: matvec M w := fun w => by simp [matvec]
    rw [e1, e1, e1, ih (fun r' hr' => hM r' (List.mem_cons_of_mem _ hr')),
      dot_axpy_right _ _ _ _ (by rw [hu, hv])]
    simp [axpy]

end TenpyModel.C16.P2
