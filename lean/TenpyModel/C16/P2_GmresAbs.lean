import Mathlib.Analysis.InnerProductSpace.Basic
import Mathlib.Analysis.InnerProductSpace.Orthonormal
import Mathlib.LinearAlgebra.UnitaryGroup
import Mathlib.Analysis.RCLike.Basic
import Mathlib.LinearAlgebra.Matrix.Notation
import Mathlib.Tactic.FinCases
import Mathlib.Tactic.LinearCombination
/-!
The algebraic core of GMRES (helper lemmas for `C16_gmres_residual*`), over `𝕜 = ℝ` or `ℂ`:

* a unitary matrix preserves `∑ i ‖w i‖²`;
* if `Q` is unitary, `Q H̄ = [R; 0]` and `Q (β e₀) = [g; γ]`, then for every `y`
  `‖β e₀ - H̄ y‖² = ‖g - R y‖² + ‖γ‖²`;
* for an orthonormal family `q`, `‖∑ c i • q i‖² = ∑ ‖c i‖²`;
* Arnoldi relation ⇒ `b - A (x₀ + ∑ y j • q j) = ∑ (β e₀ - H̄ y) i • q i`.
-/
open scoped InnerProductSpace
open Matrix

namespace TenpyModel.C16.P2

section core
variable {𝕜 : Type*} [RCLike 𝕜]

theorem gm_sum_norm_sq {n : Type*} [Fintype n] (w : n → 𝕜) : ((∑ i, ‖w i‖ ^ 2 : ℝ) : 𝕜) = star w ⬝ᵥ w := by
  rw [dotProduct, RCLike.ofReal_sum]
  refine Finset.sum_congr rfl fun i _ => ?_
  rw [Pi.star_apply, RCLike.star_def, RCLike.conj_mul]
  norm_cast

/-- a unitary matrix preserves the Euclidean norm -/
theorem gm_unitary_norm {n : Type*} [Fintype n] [DecidableEq n] (Q : Matrix n n 𝕜) (hQ : Q ∈ Matrix.unitaryGroup n 𝕜)
    (w : n → 𝕜) : ∑ i, ‖(Q *ᵥ w) i‖ ^ 2 = ∑ i, ‖w i‖ ^ 2 := by
  have h : star Q * Q = 1 := (Matrix.mem_unitaryGroup_iff').1 hQ
  have h1 : star (Q *ᵥ w) ⬝ᵥ (Q *ᵥ w) = star w ⬝ᵥ w := by
    rw [Matrix.star_mulVec, Matrix.dotProduct_mulVec, Matrix.vecMul_vecMul, ← Matrix.star_eq_conjTranspose, h,
      Matrix.vecMul_one]
  have h2 : ((∑ i, ‖(Q *ᵥ w) i‖ ^ 2 : ℝ) : 𝕜) = ((∑ i, ‖w i‖ ^ 2 : ℝ) : 𝕜) := by
    rw [gm_sum_norm_sq, gm_sum_norm_sq, h1]
  exact RCLike.ofReal_injective h2

/-- **least-squares identity of GMRES**: `Q` unitary, `Q H̄ = [R; 0]`, `Q (β e₀) = [g; γ]`; then for every `y`
`‖β e₀ - H̄ y‖² = ‖g - R y‖² + ‖γ‖²`. -/
theorem gm_lsq_identity {k : ℕ} (Q : Matrix (Fin (k + 1)) (Fin (k + 1)) 𝕜)
    (hQ : Q ∈ Matrix.unitaryGroup (Fin (k + 1)) 𝕜)
    (Hb : Matrix (Fin (k + 1)) (Fin k) 𝕜) (R : Matrix (Fin k) (Fin k) 𝕜) (g : Fin k → 𝕜) (γ β : 𝕜)
    (hR : ∀ i j, (Q * Hb) (Fin.castSucc i) j = R i j) (h0 : ∀ j, (Q * Hb) (Fin.last k) j = 0)
    (hg : ∀ i, (Q *ᵥ Pi.single 0 β) (Fin.castSucc i) = g i) (hγ : (Q *ᵥ Pi.single 0 β) (Fin.last k) = γ)
    (y : Fin k → 𝕜) :
    ∑ i, ‖((Pi.single 0 β : Fin (k + 1) → 𝕜) - Hb *ᵥ y) i‖ ^ 2 = ∑ i, ‖(g - R *ᵥ y) i‖ ^ 2 + ‖γ‖ ^ 2 := by
  rw [← gm_unitary_norm Q hQ ((Pi.single 0 β : Fin (k + 1) → 𝕜) - Hb *ᵥ y), Fin.sum_univ_castSucc]
  have e : Q *ᵥ ((Pi.single 0 β : Fin (k + 1) → 𝕜) - Hb *ᵥ y) = Q *ᵥ Pi.single 0 β - (Q * Hb) *ᵥ y := by
    rw [Matrix.mulVec_sub, Matrix.mulVec_mulVec]
  rw [e]
  congr 1
  · refine Finset.sum_congr rfl fun i _ => ?_
    congr 2
    rw [Pi.sub_apply, Pi.sub_apply, hg]
    simp only [Matrix.mulVec, dotProduct, hR]
  · congr 2
    rw [Pi.sub_apply, hγ]
    simp only [Matrix.mulVec, dotProduct, h0, zero_mul, Finset.sum_const_zero, sub_zero]

open scoped ComplexConjugate in
/-- the rotation `[[conj c, conj s], [-s, c]]` of `GMRES.apply_givens_rotation` is unitary when `|c|² + |s|² = 1` -/
theorem gm_givens_unitary (c s : 𝕜) (h : conj c * c + conj s * s = 1) :
    (!![conj c, conj s; -s, c] : Matrix (Fin 2) (Fin 2) 𝕜) ∈ Matrix.unitaryGroup (Fin 2) 𝕜 := by
  rw [Matrix.mem_unitaryGroup_iff']
  ext i j
  fin_cases i <;> fin_cases j <;>
    simp [Matrix.mul_apply, Fin.sum_univ_two, Matrix.star_apply]
  · linear_combination h
  · ring
  · ring
  · linear_combination h

end core

section space
variable {𝕜 E : Type*} [RCLike 𝕜] [NormedAddCommGroup E] [InnerProductSpace 𝕜 E]

/-- Pythagoras for an orthonormal family -/
theorem gm_norm_sq_sum {m : ℕ} (q : Fin m → E) (hq : Orthonormal 𝕜 q) (c : Fin m → 𝕜) :
    ‖∑ i, c i • q i‖ ^ 2 = ∑ i, ‖c i‖ ^ 2 := by
  have h1 : ⟪∑ i, c i • q i, ∑ i, c i • q i⟫_𝕜 = ((∑ i, ‖c i‖ ^ 2 : ℝ) : 𝕜) := by
    rw [hq.inner_sum, RCLike.ofReal_sum]
    refine Finset.sum_congr rfl fun i _ => ?_
    rw [RCLike.conj_mul]; norm_cast
  have h2 : ((‖∑ i, c i • q i‖ ^ 2 : ℝ) : 𝕜) = ((∑ i, ‖c i‖ ^ 2 : ℝ) : 𝕜) := by
    rw [← h1, inner_self_eq_norm_sq_to_K]; norm_cast
  exact RCLike.ofReal_injective h2

/-- the residual of the iterate `x₀ + ∑ y j • q j` in Krylov coordinates (Arnoldi relation) -/
theorem gm_residual_coords {k : ℕ} (A : E →ₗ[𝕜] E) (b x0 : E) (q : Fin (k + 1) → E)
    (Hb : Matrix (Fin (k + 1)) (Fin k) 𝕜) (hArn : ∀ j : Fin k, A (q (Fin.castSucc j)) = ∑ i, Hb i j • q i)
    (β : 𝕜) (hr0 : b - A x0 = β • q 0) (y : Fin k → 𝕜) :
    b - A (x0 + ∑ j, y j • q (Fin.castSucc j)) = ∑ i, ((Pi.single 0 β : Fin (k + 1) → 𝕜) - Hb *ᵥ y) i • q i := by
  have h1 : b - A (x0 + ∑ j, y j • q (Fin.castSucc j)) = β • q 0 - ∑ j, y j • A (q (Fin.castSucc j)) := by
    rw [map_add, map_sum, ← hr0]
    simp only [map_smul]
    abel
  rw [h1]
  simp only [Pi.sub_apply, sub_smul, Finset.sum_sub_distrib]
  congr 1
  · rw [Finset.sum_eq_single 0]
    · simp
    · intro i _ hi; simp [hi]
    · intro h; exact absurd (Finset.mem_univ _) h
  · simp only [hArn, Finset.smul_sum, Matrix.mulVec, dotProduct, Finset.sum_smul, smul_smul]
    rw [Finset.sum_comm]
    refine Finset.sum_congr rfl fun i _ => Finset.sum_congr rfl fun j _ => ?_
    rw [mul_comm]

end space

end TenpyModel.C16.P2
