import TenpyModel.C16.Lanczos
import Mathlib.Tactic.Ring
import Mathlib.Algebra.Ring.Rat
import Mathlib.Data.List.Perm.Basic
import Mathlib.Data.List.Nodup
/-!
Helper lemmas for the list-level C16 theorems: the FIFO cache holds the last `nc` vectors of the full
history, the rebuild loop regenerates the history, accumulation order does not matter.
-/
namespace TenpyModel.C16

/-! ### `axpy` commutes with itself -/

theorem axpy_comm (a b : Rat) (x y z : Vec) : axpy a x (axpy b y z) = axpy b y (axpy a x z) := by
  induction z generalizing x y with
  | nil => simp [axpy]
  | cons z0 z ih =>
    cases y with
    | nil => cases x <;> simp [axpy]
    | cons y0 y =>
      cases x with
      | nil => simp [axpy]
      | cons x0 x =>
        have := ih x y
        simp only [axpy, List.zipWith_cons_cons] at this ⊢
        rw [this]
        congr 1
        ring

/-! ### the last `n` elements of a list -/

def takeLast {α : Type} (n : Nat) (l : List α) : List α := l.drop (l.length - n)

theorem takeLast_length {α : Type} (n : Nat) (l : List α) : (takeLast n l).length = min n l.length := by
  simp [takeLast]; omega

theorem toCache_takeLast (nc : Nat) (hnc : 1 ≤ nc) (vs : List Vec) (v : Vec) :
    toCache nc (takeLast nc vs) v = takeLast nc (vs ++ [v]) := by
  unfold toCache takeLast
  by_cases h : vs.length < nc
  · have h1 : vs.length - nc = 0 := by omega
    have h2 : (vs ++ [v]).length - nc = 0 := by simp; omega
    rw [h1, h2, List.drop_zero, List.drop_zero]
    have h3 : ¬ ((vs ++ [v]).length > nc) := by simp; omega
    simp only [h3, if_false]
  · have hl : (List.drop (vs.length - nc) vs).length = nc := by rw [List.length_drop]; omega
    have h3 : (List.drop (vs.length - nc) vs ++ [v]).length > nc := by
      rw [List.length_append, hl]; simp
    simp only [h3, if_true]
    have h4 : (vs ++ [v]).length - nc = vs.length - nc + 1 := by simp; omega
    rw [h4, List.drop_append_of_le_length (by rw [hl]; exact hnc),
      List.drop_append_of_le_length (by omega), List.drop_drop]

theorem takeLast_append_getLastD (nc : Nat) (hnc : 1 ≤ nc) (vs : List Vec) (v : Vec) :
    (takeLast nc (vs ++ [v])).getLastD [] = v := by
  unfold takeLast
  rw [List.drop_append_of_le_length (by simp; omega)]
  simp [List.getLastD_eq_getLast?]

theorem takeLast_getD_second (nc : Nat) (hnc : 2 ≤ nc) (l : List Vec) :
    (takeLast nc l).getD ((takeLast nc l).length - 2) [] = l.getD (l.length - 2) [] := by
  rw [takeLast_length]
  unfold takeLast
  by_cases h : l.length ≤ nc
  · have : l.length - nc = 0 := by omega
    rw [this, List.drop_zero, Nat.min_eq_right h]
  · rw [Nat.min_eq_left (by omega)]
    simp only [List.getD_eq_getElem?_getD, List.getElem?_drop]
    congr 2
    omega

/-! ### reference run: the whole history is kept, the orthogonalisation sees its last `nc` vectors -/

structure Ref where
  vs : List Vec
  w : Vec
  beta : Rat
  alphas : List Rat
  betas : List Rat

def refStep (A : Vec → Vec) (ar : Arith) (reortho : Bool) (nc : Nat) (k : Nat) (r : Ref) : Ref :=
  let v := normalize ar r.beta r.w
  let vs := r.vs ++ [v]
  let w := A v
  let alpha := dot w v
  let w := axpy (-alpha) v w
  let w := orth reortho k r.beta (takeLast nc vs) w
  let beta := ar.sq (dot w w)
  { vs := vs, w := w, beta := beta, alphas := r.alphas ++ [alpha], betas := r.betas ++ [beta] }

def refInit (ar : Arith) (psi0 : Vec) : Ref :=
  { vs := [], w := psi0, beta := ar.sq (dot psi0 psi0), alphas := [], betas := [] }

def refState (A : Vec → Vec) (ar : Arith) (reortho : Bool) (nc : Nat) (psi0 : Vec) : Nat → Ref
  | 0 => refInit ar psi0
  | k + 1 => refStep A ar reortho nc k (refState A ar reortho nc psi0 k)

/-- the coded state is the reference state with the history cut to the last `nc` vectors -/
def Sim (nc : Nat) (s : BState) (r : Ref) : Prop :=
  s.cache = takeLast nc r.vs ∧ s.w = r.w ∧ s.beta = r.beta ∧ s.alphas = r.alphas ∧ s.betas = r.betas

theorem sim_init (nc : Nat) (ar : Arith) (psi0 : Vec) : Sim nc (initState ar psi0) (refInit ar psi0) := by
  simp [Sim, initState, refInit, takeLast]

theorem sim_step (A : Vec → Vec) (ar : Arith) (o : Opts) (hnc : 1 ≤ o.nCache) (k : Nat) (s : BState) (r : Ref)
    (h : Sim o.nCache s r) : Sim o.nCache (buildStep A ar o k s) (refStep A ar o.reortho o.nCache k r) := by
  obtain ⟨hc, hw, hb, ha, hbs⟩ := h
  have hcache : toCache o.nCache s.cache (normalize ar s.beta s.w)
      = takeLast o.nCache (r.vs ++ [normalize ar r.beta r.w]) := by
    rw [hc, hw, hb]; exact toCache_takeLast _ hnc _ _
  have hlast : (takeLast o.nCache (r.vs ++ [normalize ar r.beta r.w])).getLastD [] = normalize ar r.beta r.w :=
    takeLast_append_getLastD _ hnc _ _
  refine ⟨?_, ?_, ?_, ?_, ?_⟩
  · simp only [buildStep, refStep]; exact hcache
  · simp only [buildStep, refStep]; rw [hcache, hlast, hw, hb]
  · simp only [buildStep, refStep]; rw [hcache, hlast, hw, hb]
  · simp only [buildStep, refStep]; rw [hcache, hlast, hw, hb, ha]
  · simp only [buildStep, refStep]; rw [hcache, hlast, hw, hb, hbs]

/-- number of steps, computed from the reference run alone -/
def refLoop (R : Nat → Ref) (o : Opts) (conv : Nat → List Rat → List Rat → Bool) : Nat → Nat → Nat
  | 0, k => k
  | fuel + 1, k =>
    if rabs (R (k + 1)).beta < o.cutoff || (k + 1 ≥ o.nMin && conv k (R (k + 1)).alphas (R (k + 1)).betas) then k + 1
    else refLoop R o conv fuel (k + 1)

theorem sim_loop (A : Vec → Vec) (ar : Arith) (o : Opts) (hnc : 1 ≤ o.nCache)
    (conv : Nat → List Rat → List Rat → Bool) (psi0 : Vec) (fuel k : Nat) (s : BState)
    (h : Sim o.nCache s (refState A ar o.reortho o.nCache psi0 k)) :
    (buildLoop A ar o conv fuel k s).1 = refLoop (refState A ar o.reortho o.nCache psi0) o conv fuel k ∧
    Sim o.nCache (buildLoop A ar o conv fuel k s).2
      (refState A ar o.reortho o.nCache psi0 (refLoop (refState A ar o.reortho o.nCache psi0) o conv fuel k)) := by
  induction fuel generalizing k s with
  | zero => exact ⟨rfl, h⟩
  | succ fuel ih =>
    have hs := sim_step A ar o hnc k s _ h
    have hs' : Sim o.nCache (buildStep A ar o k s) (refState A ar o.reortho o.nCache psi0 (k + 1)) := hs
    obtain ⟨_, _, hb, ha, hbs⟩ := hs'
    simp only [buildLoop, refLoop]
    rw [hb, ha, hbs]
    split
    · exact ⟨rfl, hs⟩
    · exact ih (k + 1) _ hs

theorem refLoop_bounds (R : Nat → Ref) (o : Opts) (conv : Nat → List Rat → List Rat → Bool) (fuel k : Nat) :
    k ≤ refLoop R o conv fuel k ∧ refLoop R o conv fuel k ≤ k + fuel ∧ (0 < fuel → k < refLoop R o conv fuel k) := by
  induction fuel generalizing k with
  | zero => simp [refLoop]
  | succ fuel ih =>
    simp only [refLoop]
    split
    · omega
    · have := ih (k + 1); omega

/-! ### without re-orthogonalisation the reference run does not depend on `nc ≥ 2` -/

theorem orth_false_indep (nc nc' : Nat) (h : 2 ≤ nc) (h' : 2 ≤ nc') (k : Nat) (b : Rat) (l : List Vec) (w : Vec) :
    orth false k b (takeLast nc l) w = orth false k b (takeLast nc' l) w := by
  simp only [orth]
  rw [takeLast_getD_second nc h, takeLast_getD_second nc' h']
  simp

theorem refState_false_indep (A : Vec → Vec) (ar : Arith) (nc nc' : Nat) (h : 2 ≤ nc) (h' : 2 ≤ nc') (psi0 : Vec)
    (k : Nat) : refState A ar false nc psi0 k = refState A ar false nc' psi0 k := by
  induction k with
  | zero => rfl
  | succ k ih =>
    simp only [refState, refStep]
    rw [ih, orth_false_indep nc nc' h h']

/-! ### the history as a sequence: `vAt j`, `aAt j`, `bAt j` -/

section history
variable (A : Vec → Vec) (ar : Arith) (reortho : Bool) (nc : Nat) (psi0 : Vec)

def vAt (j : Nat) : Vec :=
  normalize ar (refState A ar reortho nc psi0 j).beta (refState A ar reortho nc psi0 j).w
def aAt (j : Nat) : Rat := dot (A (vAt A ar reortho nc psi0 j)) (vAt A ar reortho nc psi0 j)
def bAt (j : Nat) : Rat := (refState A ar reortho nc psi0 (j + 1)).beta

theorem ref_vs (k : Nat) : (refState A ar reortho nc psi0 k).vs = (List.range k).map (vAt A ar reortho nc psi0) := by
  induction k with
  | zero => rfl
  | succ k ih => simp only [refState, refStep, ih, List.range_succ, List.map_append, List.map_cons, List.map_nil, vAt]

theorem ref_alphas (k : Nat) :
    (refState A ar reortho nc psi0 k).alphas = (List.range k).map (aAt A ar reortho nc psi0) := by
  induction k with
  | zero => rfl
  | succ k ih => simp only [refState, refStep, ih, List.range_succ, List.map_append, List.map_cons, List.map_nil, aAt, vAt]

theorem ref_betas (k : Nat) :
    (refState A ar reortho nc psi0 k).betas = (List.range k).map (bAt A ar reortho nc psi0) := by
  induction k with
  | zero => rfl
  | succ k ih =>
    have : (refState A ar reortho nc psi0 (k + 1)).betas
        = (refState A ar reortho nc psi0 k).betas ++ [(refState A ar reortho nc psi0 (k + 1)).beta] := rfl
    rw [this, ih, List.range_succ, List.map_append]; rfl

theorem ref_w_succ (k : Nat) :
    (refState A ar reortho nc psi0 (k + 1)).w =
      orth reortho k (refState A ar reortho nc psi0 k).beta
        (takeLast nc ((List.range (k + 1)).map (vAt A ar reortho nc psi0)))
        (axpy (-(aAt A ar reortho nc psi0 k)) (vAt A ar reortho nc psi0 k) (A (vAt A ar reortho nc psi0 k))) := by
  have h := ref_vs A ar reortho nc psi0 k
  simp only [refState, refStep, h, List.range_succ, List.map_append, List.map_cons, List.map_nil, aAt, vAt]

theorem getD_map_range {α : Type} (f : Nat → α) (N n : Nat) (d : α) (h : n < N) :
    ((List.range N).map f).getD n d = f n := by
  simp [List.getD_eq_getElem?_getD, h]

theorem orth_zero_beta (re : Bool) (b b' : Rat) (c : List Vec) (w : Vec) : orth re 0 b c w = orth re 0 b' c w := by
  simp [orth]

end history

/-! ### the rebuild loop regenerates the history -/

/-- accumulate `vf[i] * v_i` -/
def acc (A : Vec → Vec) (ar : Arith) (reortho : Bool) (nc : Nat) (psi0 : Vec) (vf : List Rat) (p : Vec) (i : Nat) : Vec :=
  axpy (vf.getD i 0) (vAt A ar reortho nc psi0 i) p

theorem acc_comm (A : Vec → Vec) (ar : Arith) (reortho : Bool) (nc : Nat) (psi0 : Vec) (vf : List Rat) (p : Vec)
    (i j : Nat) : acc A ar reortho nc psi0 vf (acc A ar reortho nc psi0 vf p i) j
      = acc A ar reortho nc psi0 vf (acc A ar reortho nc psi0 vf p j) i := by
  simp only [acc]; exact axpy_comm _ _ _ _ _

theorem rebuild_state (A : Vec → Vec) (ar : Arith) (o : Opts) (hnc : 1 ≤ o.nCache) (psi0 : Vec) (N : Nat)
    (vf : List Rat) (psif0 : Vec) (n : Nat) (hn : n < N) :
    (List.range n).foldl
      (rebuildStep A ar o ((List.range N).map (aAt A ar o.reortho o.nCache psi0))
        ((List.range N).map (bAt A ar o.reortho o.nCache psi0)) vf)
      { cache := [], w := vAt A ar o.reortho o.nCache psi0 0, beta := 0, psif := psif0 }
    = { cache := takeLast o.nCache ((List.range n).map (vAt A ar o.reortho o.nCache psi0)),
        w := vAt A ar o.reortho o.nCache psi0 n,
        beta := if n = 0 then 0 else bAt A ar o.reortho o.nCache psi0 (n - 1),
        psif := (List.range' 1 n).foldl (acc A ar o.reortho o.nCache psi0 vf) psif0 } := by
  induction n with
  | zero => simp [takeLast]
  | succ n ih =>
    rw [List.range_succ, List.foldl_append, ih (by omega)]
    simp only [List.foldl_cons, List.foldl_nil, rebuildStep]
    have hcache : toCache o.nCache (takeLast o.nCache ((List.range n).map (vAt A ar o.reortho o.nCache psi0)))
        (vAt A ar o.reortho o.nCache psi0 n)
        = takeLast o.nCache ((List.range (n + 1)).map (vAt A ar o.reortho o.nCache psi0)) := by
      rw [toCache_takeLast _ hnc, List.range_succ, List.map_append]; rfl
    have hlast : (takeLast o.nCache ((List.range (n + 1)).map (vAt A ar o.reortho o.nCache psi0))).getLastD []
        = vAt A ar o.reortho o.nCache psi0 n := by
      rw [List.range_succ, List.map_append]; exact takeLast_append_getLastD _ hnc _ _
    have ha := getD_map_range (aAt A ar o.reortho o.nCache psi0) N n 0 (by omega)
    have hb := getD_map_range (bAt A ar o.reortho o.nCache psi0) N n 0 (by omega)
    have hbeta : orth o.reortho n (if n = 0 then 0 else bAt A ar o.reortho o.nCache psi0 (n - 1))
        (takeLast o.nCache ((List.range (n + 1)).map (vAt A ar o.reortho o.nCache psi0)))
        (axpy (-(aAt A ar o.reortho o.nCache psi0 n)) (vAt A ar o.reortho o.nCache psi0 n)
          (A (vAt A ar o.reortho o.nCache psi0 n)))
        = (refState A ar o.reortho o.nCache psi0 (n + 1)).w := by
      rw [ref_w_succ]
      cases n with
      | zero => exact orth_zero_beta _ _ _ _ _
      | succ m => simp [bAt]
    have hv : normalize ar (bAt A ar o.reortho o.nCache psi0 n) (refState A ar o.reortho o.nCache psi0 (n + 1)).w
        = vAt A ar o.reortho o.nCache psi0 (n + 1) := rfl
    rw [hcache, hlast, ha, hb, hbeta, hv]
    have hr : List.range' 1 (n + 1) = List.range' 1 n ++ [n + 1] := by
      rw [List.range'_1_concat, Nat.add_comm 1 n]
    rw [hr, List.foldl_append]
    simp [acc, List.range_succ]

/-! ### `_calc_result_full`: cached part + rebuilt part = every index once -/

theorem idx_perm (N lc : Nat) (h1 : 1 ≤ lc) (h2 : lc ≤ N) :
    (((List.range' 1 (min (lc + 1) N - 1)).map (fun k => N - k)) ++ List.range' 1 (N - lc - 1)).Perm
      (List.range' 1 (N - 1)) := by
  apply (List.perm_ext_iff_of_nodup ?_ ?_).2
  · intro a
    simp only [List.mem_append, List.mem_map, List.mem_range'_1]
    constructor
    · rintro (⟨k, hk, rfl⟩ | hb) <;> omega
    · intro ha
      by_cases hlt : a < N - lc
      · right; omega
      · left; exact ⟨N - a, by omega, by omega⟩
  · rw [List.nodup_append]
    refine ⟨?_, List.nodup_range' 1, ?_⟩
    · apply List.Nodup.map_on _ (List.nodup_range' 1)
      intro x hx y hy hxy
      simp only [List.mem_range'_1] at hx hy
      omega
    · intro a ha b hb
      simp only [List.mem_map, List.mem_range'_1] at ha hb
      obtain ⟨k, hk, rfl⟩ := ha
      omega
  · exact List.nodup_range' 1

theorem takeLast_getD (nc N : Nat) (l : List Vec) (hl : l.length = N) (k : Nat) (hk1 : 1 ≤ k) (hk : k ≤ min nc N) :
    (takeLast nc l).getD ((takeLast nc l).length - k) [] = l.getD (N - k) [] := by
  rw [takeLast_length, hl]
  unfold takeLast
  simp only [List.getD_eq_getElem?_getD, List.getElem?_drop, hl]
  congr 2
  omega

theorem addCached_eq (A : Vec → Vec) (ar : Arith) (reortho : Bool) (nc : Nat) (psi0 : Vec) (N : Nat)
    (vf : List Rat) (p : Vec) :
    addCached vf N (takeLast nc ((List.range N).map (vAt A ar reortho nc psi0))) p
      = ((List.range' 1 (min (min nc N + 1) N - 1)).map (fun k => N - k)).foldl (acc A ar reortho nc psi0 vf) p := by
  have hlen : ((List.range N).map (vAt A ar reortho nc psi0)).length = N := by simp
  unfold addCached
  rw [List.foldl_map, takeLast_length, hlen]
  apply List.foldl_ext
  intro a k hk
  rw [List.mem_range'_1] at hk
  have h1 : 1 ≤ k := hk.1
  have h2 : k ≤ min nc N := by omega
  have h3 := takeLast_getD nc N _ hlen k h1 h2
  rw [takeLast_length, hlen] at h3
  rw [h3, getD_map_range _ _ _ _ (by omega)]
  rfl

theorem calcResultFull_eq (A : Vec → Vec) (ar : Arith) (o : Opts) (hnc : 1 ≤ o.nCache) (psi0 : Vec) (N : Nat)
    (hN : 1 ≤ N) (vf : List Rat) :
    calcResultFull A ar o N vf (vAt A ar o.reortho o.nCache psi0 0)
      (takeLast o.nCache ((List.range N).map (vAt A ar o.reortho o.nCache psi0)))
      ((List.range N).map (aAt A ar o.reortho o.nCache psi0)) ((List.range N).map (bAt A ar o.reortho o.nCache psi0))
    = (let X := (List.range' 1 (N - 1)).foldl (acc A ar o.reortho o.nCache psi0 vf)
                  (scale (vf.getD 0 0) (vAt A ar o.reortho o.nCache psi0 0))
       normalize ar (ar.sq (dot X X)) X) := by
  have hlen : ((List.range N).map (vAt A ar o.reortho o.nCache psi0)).length = N := by simp
  have hX : rebuild A ar o ((List.range N).map (aAt A ar o.reortho o.nCache psi0))
        ((List.range N).map (bAt A ar o.reortho o.nCache psi0)) vf
        (N - (takeLast o.nCache ((List.range N).map (vAt A ar o.reortho o.nCache psi0))).length - 1)
        (vAt A ar o.reortho o.nCache psi0 0)
        (addCached vf N (takeLast o.nCache ((List.range N).map (vAt A ar o.reortho o.nCache psi0)))
          (scale (vf.getD 0 0) (vAt A ar o.reortho o.nCache psi0 0)))
      = (List.range' 1 (N - 1)).foldl (acc A ar o.reortho o.nCache psi0 vf)
          (scale (vf.getD 0 0) (vAt A ar o.reortho o.nCache psi0 0)) := by
    unfold rebuild
    rw [takeLast_length, hlen, rebuild_state A ar o hnc psi0 N vf _ _ (by omega), addCached_eq]
    simp only
    rw [← List.foldl_append]
    apply List.Perm.foldl_eq' (idx_perm N (min o.nCache N) (by omega) (by omega))
    intro x _ y _ z
    exact acc_comm _ _ _ _ _ _ _ _ _
  simp only [calcResultFull]
  rw [hX]

end TenpyModel.C16
