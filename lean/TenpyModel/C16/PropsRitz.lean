import Mathlib.Analysis.InnerProductSpace.Rayleigh
import Mathlib.Analysis.InnerProductSpace.PiL2
import Mathlib.Analysis.Matrix.Hermitian
/-!
# C16 — the linear algebra behind "Krylov solvers return Ritz data" (abstract part)

Stated for an arbitrary inner product space `E` over `𝕜 = ℝ` or `ℂ` (a charge sector of the block-sparse
vector space), an arbitrary linear operator `H` and an arbitrary orthonormal family `v 0 … v (m-1)`
(the Krylov basis kept by the solver — Lanczos, Arnoldi or anything else).

* `C16_ritz`               `T = Vᴴ H V`, `T y = θ y`, `‖y‖ = 1`  ⇒  `x = V y` has `‖x‖ = 1` and `⟨x, H x⟩ = θ`
* `C16_rayleigh_ge_min`    symmetric `H`, finite dimension: there is a least eigenvalue and every Rayleigh
                           quotient is ≥ it
* `C16_ritz_bound`         hence the Ritz value is never below the smallest eigenvalue
* `C16_full_dim`           if the family is an orthonormal basis, Ritz pairs are eigenpairs and vice versa
* `C16_shift*`             `H + s`: same eigenvectors, eigenvalues `+ s`, Rayleigh quotient `+ s‖x‖²`, same
                           Krylov spaces; the value returned after subtracting `s` is the Rayleigh quotient of `H`
* `C16_projection*`        sequential projection `for o in os: x -= ⟨o,x⟩ o` is the orthogonal projection onto
                           the complement; `P H P` is symmetric, kills every `o`, maps into the complement
* `C16_tridiagonal`        three-term recurrence with a symmetric operator ⇒ orthonormal basis and tridiagonal `T`
-/
open scoped InnerProductSpace
open Module.End

section ritz
variable {𝕜 E : Type*} [RCLike 𝕜] [NormedAddCommGroup E] [InnerProductSpace 𝕜 E]

/-- **Ritz certificate.**  `V` with orthonormal columns `v i`, `T i j = ⟪v i, H (v j)⟫`, `T y = θ y`,
`‖y‖ = 1`.  Then `x = V y` is normalised and its Rayleigh quotient is `θ`.  No assumption on `H`
(holds for the non-Hermitian operators given to Arnoldi as well). -/
theorem C16_ritz {m : ℕ} (H : E →ₗ[𝕜] E) (v : Fin m → E) (hv : Orthonormal 𝕜 v)
    (y : Fin m → 𝕜) (θ : 𝕜) (hT : ∀ i, ∑ j, ⟪v i, H (v j)⟫_𝕜 * y j = θ * y i)
    (hy : ∑ i, ‖y i‖ ^ 2 = 1) :
    ‖∑ i, y i • v i‖ = 1 ∧ ⟪∑ i, y i • v i, H (∑ i, y i • v i)⟫_𝕜 = θ := by
  have hnorm : ⟪∑ i, y i • v i, ∑ i, y i • v i⟫_𝕜 = 1 := by
    rw [hv.inner_sum]
    have : ∀ i, (starRingEnd 𝕜) (y i) * y i = ((‖y i‖ ^ 2 : ℝ) : 𝕜) := by
      intro i; rw [RCLike.conj_mul]; norm_cast
    simp only [this]
    rw [← RCLike.ofReal_sum, hy]; simp
  refine ⟨?_, ?_⟩
  · have h2 : (‖∑ i, y i • v i‖ : 𝕜) ^ 2 = 1 := by rw [← inner_self_eq_norm_sq_to_K, hnorm]
    have h3 : ‖∑ i, y i • v i‖ ^ 2 = 1 := by exact_mod_cast h2
    have h4 : 0 ≤ ‖∑ i, y i • v i‖ := norm_nonneg _
    nlinarith [sq_nonneg (‖∑ i, y i • v i‖ - 1), sq_nonneg (‖∑ i, y i • v i‖ + 1)]
  · rw [map_sum, sum_inner]
    simp only [map_smul, inner_smul_left, inner_sum, inner_smul_right]
    have : ∀ i, ∑ j, y j * ((starRingEnd 𝕜) (y i) * ⟪v i, H (v j)⟫_𝕜) = (starRingEnd 𝕜) (y i) * (θ * y i) := by
      intro i; rw [← hT i, Finset.mul_sum]; exact Finset.sum_congr rfl fun j _ => by ring
    simp only [this]
    have h5 : ∀ i, (starRingEnd 𝕜) (y i) * (θ * y i) = θ * ((‖y i‖ ^ 2 : ℝ) : 𝕜) := by
      intro i
      have : (starRingEnd 𝕜) (y i) * y i = ((‖y i‖ ^ 2 : ℝ) : 𝕜) := by rw [RCLike.conj_mul]; norm_cast
      rw [← this]; ring
    simp only [h5]
    rw [← Finset.mul_sum, ← RCLike.ofReal_sum, hy]; simp

/-- non-vacuity: `H = 2·id` on `ℝ²`, `v` the standard basis, `y = (1, 0)`, `θ = 2`. -/
example : ∃ (v : Fin 2 → EuclideanSpace ℝ (Fin 2)) (y : Fin 2 → ℝ), Orthonormal ℝ v ∧
    (∀ i, ∑ j, ⟪v i, ((2 : ℝ) • LinearMap.id : _ →ₗ[ℝ] _) (v j)⟫_ℝ * y j = 2 * y i) ∧ ∑ i, ‖y i‖ ^ 2 = 1 := by
  refine ⟨fun i => EuclideanSpace.single i 1, ![1, 0], ?_, ?_, ?_⟩
  · exact EuclideanSpace.orthonormal_single
  · intro i; fin_cases i <;> simp [inner_smul_right, EuclideanSpace.inner_single_left]
  · simp [Fin.sum_univ_two]


/-- non-vacuity of the next theorem: the identity on `ℝ²` is symmetric -/
example : (LinearMap.id : EuclideanSpace ℝ (Fin 2) →ₗ[ℝ] EuclideanSpace ℝ (Fin 2)).IsSymmetric := fun _ _ => rfl

/-- **Rayleigh bound.**  A symmetric operator on a finite-dimensional space has a least eigenvalue `μ`, and
every Rayleigh quotient is `≥ μ`. -/
theorem C16_rayleigh_ge_min [FiniteDimensional 𝕜 E] [Nontrivial E] (T : E →ₗ[𝕜] E) (hT : T.IsSymmetric) :
    ∃ μ : ℝ, HasEigenvalue T (μ : 𝕜) ∧ (∀ ν : ℝ, HasEigenvalue T (ν : 𝕜) → μ ≤ ν) ∧
      ∀ x : E, x ≠ 0 → μ ≤ RCLike.re ⟪T x, x⟫_𝕜 / ‖x‖ ^ 2 := by
  have hbdd : BddBelow (Set.range fun x : { x : E // x ≠ 0 } => RCLike.re ⟪T x, x⟫_𝕜 / ‖(x : E)‖ ^ 2) := by
    refine ⟨-‖LinearMap.toContinuousLinearMap T‖, ?_⟩
    rintro _ ⟨⟨x, hx⟩, rfl⟩
    have hx' : 0 < ‖x‖ ^ 2 := by positivity
    have h1 : |RCLike.re ⟪T x, x⟫_𝕜| ≤ ‖T x‖ * ‖x‖ := (RCLike.abs_re_le_norm _).trans (norm_inner_le_norm _ _)
    have h2 : ‖T x‖ ≤ ‖LinearMap.toContinuousLinearMap T‖ * ‖x‖ := (LinearMap.toContinuousLinearMap T).le_opNorm x
    have h3 : |RCLike.re ⟪T x, x⟫_𝕜| ≤ ‖LinearMap.toContinuousLinearMap T‖ * ‖x‖ ^ 2 := by
      calc _ ≤ ‖T x‖ * ‖x‖ := h1
        _ ≤ (‖LinearMap.toContinuousLinearMap T‖ * ‖x‖) * ‖x‖ := by gcongr
        _ = _ := by ring
    show -‖LinearMap.toContinuousLinearMap T‖ ≤ RCLike.re ⟪T x, x⟫_𝕜 / ‖x‖ ^ 2
    rw [le_div_iff₀ hx']
    have := neg_abs_le (RCLike.re ⟪T x, x⟫_𝕜)
    nlinarith
  have hray : ∀ x : E, x ≠ 0 → (⨅ x : { x : E // x ≠ 0 }, RCLike.re ⟪T x, x⟫_𝕜 / ‖(x : E)‖ ^ 2) ≤
      RCLike.re ⟪T x, x⟫_𝕜 / ‖x‖ ^ 2 := fun x hx => ciInf_le hbdd ⟨x, hx⟩
  refine ⟨_, hT.hasEigenvalue_iInf_of_finiteDimensional, ?_, hray⟩
  intro ν hν
  obtain ⟨x, hx⟩ := hν.exists_hasEigenvector
  have hx0 : x ≠ 0 := hx.2
  have hTx : T x = (ν : 𝕜) • x := hx.apply_eq_smul
  have := hray x hx0
  rw [hTx, inner_smul_left, inner_self_eq_norm_sq_to_K] at this
  have hx' : ‖x‖ ^ 2 ≠ 0 := by positivity
  simp only [RCLike.conj_ofReal] at this
  have h4 : RCLike.re ((ν : 𝕜) * (‖x‖ : 𝕜) ^ 2) = ν * ‖x‖ ^ 2 := by
    rw [← RCLike.ofReal_pow, ← RCLike.ofReal_mul, RCLike.ofReal_re]
  rw [h4, mul_div_assoc, div_self hx', mul_one] at this
  exact this

/-- **Ritz values are never below the smallest eigenvalue** (Lanczos ground-state search: `E0 ≥ λ_min`). -/
theorem C16_ritz_bound [FiniteDimensional 𝕜 E] [Nontrivial E] {m : ℕ} (H : E →ₗ[𝕜] E) (hH : H.IsSymmetric)
    (v : Fin m → E) (hv : Orthonormal 𝕜 v) (y : Fin m → 𝕜) (θ : 𝕜)
    (hT : ∀ i, ∑ j, ⟪v i, H (v j)⟫_𝕜 * y j = θ * y i) (hy : ∑ i, ‖y i‖ ^ 2 = 1) :
    ∃ μ : ℝ, HasEigenvalue H (μ : 𝕜) ∧ (∀ ν : ℝ, HasEigenvalue H (ν : 𝕜) → μ ≤ ν) ∧ μ ≤ RCLike.re θ := by
  obtain ⟨μ, h1, h2, h3⟩ := C16_rayleigh_ge_min H hH
  obtain ⟨hn, hq⟩ := C16_ritz H v hv y θ hT hy
  refine ⟨μ, h1, h2, ?_⟩
  have hx0 : (∑ i, y i • v i) ≠ 0 := by
    intro h; rw [h, norm_zero] at hn; exact zero_ne_one hn
  have := h3 _ hx0
  rw [hn, one_pow, div_one, ← inner_conj_symm, hq, RCLike.conj_re] at this
  exact this

/-- Ritz pairs w.r.t. an orthonormal *basis* are eigenpairs … -/
theorem C16_full_dim {m : ℕ} (H : E →ₗ[𝕜] E) (b : OrthonormalBasis (Fin m) 𝕜 E) (y : Fin m → 𝕜) (θ : 𝕜)
    (hT : ∀ i, ∑ j, ⟪b i, H (b j)⟫_𝕜 * y j = θ * y i) :
    H (∑ i, y i • b i) = θ • ∑ i, y i • b i := by
  rw [← sub_eq_zero]
  apply b.repr.injective
  ext i
  rw [map_zero, b.repr_apply_apply, inner_sub_right, inner_smul_right, b.orthonormal.inner_right_fintype,
    map_sum, inner_sum]
  simp only [map_smul, inner_smul_right]
  rw [← hT i]
  simp [mul_comm]

/-- … and conversely every eigenpair of `H` gives an eigenpair of `T = Vᴴ H V`. -/
theorem C16_full_dim_conv {m : ℕ} (H : E →ₗ[𝕜] E) (b : OrthonormalBasis (Fin m) 𝕜 E) (x : E) (θ : 𝕜)
    (hx : H x = θ • x) (i : Fin m) :
    ∑ j, ⟪b i, H (b j)⟫_𝕜 * ⟪b j, x⟫_𝕜 = θ * ⟪b i, x⟫_𝕜 := by
  have h1 : ∑ j, ⟪b i, H (b j)⟫_𝕜 * ⟪b j, x⟫_𝕜 = ⟪b i, H (∑ j, ⟪b j, x⟫_𝕜 • b j)⟫_𝕜 := by
    rw [map_sum, inner_sum]; simp [inner_smul_right, mul_comm]
  rw [h1, b.sum_repr' x, hx, inner_smul_right]


end ritz

namespace TenpyModel.C16.Abs
variable {𝕜 E : Type*} [RCLike 𝕜] [NormedAddCommGroup E] [InnerProductSpace 𝕜 E]
/-- `ShiftNpcLinearOperator`: `H + s` -/
def shiftOp (H : E →ₗ[𝕜] E) (s : 𝕜) : E →ₗ[𝕜] E := H + s • LinearMap.id

/-- Krylov space `span {ψ, Aψ, …, A^(n-1) ψ}` -/
def krylov (A : E →ₗ[𝕜] E) (ψ : E) (n : ℕ) : Submodule 𝕜 E :=
  Submodule.span 𝕜 (Set.range fun k : Fin n => (A ^ (k : ℕ)) ψ)

variable (𝕜) in
/-- `for o in os: x -= ⟨o|x⟩ o` (`OrthogonalNpcLinearOperator.matvec`, both loops) -/
def seqProj (os : List E) (x : E) : E := os.foldl (fun x o => x - ⟪o, x⟫_𝕜 • o) x

variable (𝕜) in
/-- `P = 1 - Σ |o⟩⟨o|` -/
def projCompl {k : ℕ} (o : Fin k → E) (x : E) : E := x - ∑ i, ⟪o i, x⟫_𝕜 • o i

/-- coefficient of `v (k-1)` in step `k` of the three-term recurrence (`elif k > 0: w -= beta * cache[-2]`) -/
def prevCoef (β : ℕ → ℝ) (k : ℕ) : ℝ := if k = 0 then 0 else β (k - 1)

end TenpyModel.C16.Abs

open TenpyModel.C16.Abs

section wrappers
variable {𝕜 E : Type*} [RCLike 𝕜] [NormedAddCommGroup E] [InnerProductSpace 𝕜 E]

theorem C16_shift_rayleigh (H : E →ₗ[𝕜] E) (s : 𝕜) (x : E) (hx : ‖x‖ = 1) :
    ⟪x, shiftOp H s x⟫_𝕜 - s = ⟪x, H x⟫_𝕜 := by
  simp [shiftOp, inner_add_right, inner_smul_right, inner_self_eq_norm_sq_to_K, hx]

theorem C16_shift_eigen (H : E →ₗ[𝕜] E) (s θ : 𝕜) (x : E) :
    shiftOp H s x = (θ + s) • x ↔ H x = θ • x := by
  simp [shiftOp, add_smul]

theorem C16_shift_projected {m : ℕ} (H : E →ₗ[𝕜] E) (s : 𝕜) (v : Fin m → E) (hv : Orthonormal 𝕜 v) (i j : Fin m) :
    ⟪v i, shiftOp H s (v j)⟫_𝕜 = ⟪v i, H (v j)⟫_𝕜 + if i = j then s else 0 := by
  simp only [shiftOp, LinearMap.add_apply, LinearMap.smul_apply, LinearMap.id_apply, inner_add_right,
    inner_smul_right, orthonormal_iff_ite.mp hv i j]
  split_ifs <;> simp

theorem krylov_mem (A : E →ₗ[𝕜] E) (ψ : E) {k n : ℕ} (h : k < n) : (A ^ k) ψ ∈ krylov A ψ n :=
  Submodule.subset_span ⟨⟨k, h⟩, rfl⟩

theorem krylov_mono (A : E →ₗ[𝕜] E) (ψ : E) {n n' : ℕ} (h : n ≤ n') : krylov A ψ n ≤ krylov A ψ n' := by
  apply Submodule.span_le.2
  rintro _ ⟨k, rfl⟩
  exact krylov_mem A ψ (lt_of_lt_of_le k.2 h)

theorem krylov_apply (A : E →ₗ[𝕜] E) (ψ : E) (n : ℕ) {z : E} (hz : z ∈ krylov A ψ n) :
    A z ∈ krylov A ψ (n + 1) := by
  induction hz using Submodule.span_induction with
  | mem x hx =>
    obtain ⟨k, rfl⟩ := hx
    have : A ((A ^ (k : ℕ)) ψ) = (A ^ ((k : ℕ) + 1)) ψ := by rw [pow_succ']; rfl
    rw [this]
    exact krylov_mem A ψ (Nat.succ_lt_succ k.2)
  | zero => simp
  | add x y _ _ hx hy => rw [map_add]; exact Submodule.add_mem _ hx hy
  | smul c x _ hx => rw [map_smul]; exact Submodule.smul_mem _ c hx

theorem krylov_shift_le (A : E →ₗ[𝕜] E) (t : 𝕜) (ψ : E) (n : ℕ) :
    krylov (shiftOp A t) ψ n ≤ krylov A ψ n := by
  have key : ∀ k, ((shiftOp A t) ^ k) ψ ∈ krylov A ψ (k + 1) := by
    intro k
    induction k with
    | zero => simpa using krylov_mem A ψ (Nat.zero_lt_one)
    | succ k ih =>
      have : ((shiftOp A t) ^ (k + 1)) ψ = A (((shiftOp A t) ^ k) ψ) + t • (((shiftOp A t) ^ k) ψ) := by
        rw [pow_succ']; simp [shiftOp]
      rw [this]
      exact Submodule.add_mem _ (krylov_apply A ψ _ ih)
        (Submodule.smul_mem _ t (krylov_mono A ψ (Nat.le_succ _) ih))
  apply Submodule.span_le.2
  rintro _ ⟨k, rfl⟩
  exact krylov_mono A ψ (Nat.succ_le_of_lt k.2) (key k)

/-- the Krylov space of the shifted operator is the Krylov space of the operator -/
theorem C16_shift_krylov (H : E →ₗ[𝕜] E) (s : 𝕜) (ψ : E) (n : ℕ) :
    krylov (shiftOp H s) ψ n = krylov H ψ n := by
  apply le_antisymm (krylov_shift_le H s ψ n)
  have : shiftOp (shiftOp H s) (-s) = H := by ext x; simp [shiftOp]
  conv_lhs => rw [← this]
  exact krylov_shift_le (shiftOp H s) (-s) ψ n

theorem seqProj_eq_sub_sum (os : List E) (hos : os.Pairwise fun a b => ⟪a, b⟫_𝕜 = 0) (x : E) :
    seqProj 𝕜 os x = x - (os.map fun o => ⟪o, x⟫_𝕜 • o).sum := by
  induction os generalizing x with
  | nil => simp [seqProj]
  | cons a os ih =>
    rw [List.pairwise_cons] at hos
    have h1 : seqProj 𝕜 (a :: os) x = seqProj 𝕜 os (x - ⟪a, x⟫_𝕜 • a) := rfl
    rw [h1, ih hos.2]
    have h2 : ∀ o ∈ os, ⟪o, x - ⟪a, x⟫_𝕜 • a⟫_𝕜 • o = ⟪o, x⟫_𝕜 • o := by
      intro o ho
      have : ⟪o, a⟫_𝕜 = 0 := inner_eq_zero_symm.1 (hos.1 o ho)
      rw [inner_sub_right, inner_smul_right, this, mul_zero, sub_zero]
    rw [List.map_congr_left h2, List.map_cons, List.sum_cons]
    abel

/-- the sequential loops of the code compute the orthogonal projection onto the complement -/
theorem C16_projection_seq {k : ℕ} (o : Fin k → E) (ho : Orthonormal 𝕜 o) (x : E) :
    seqProj 𝕜 (List.ofFn o) x = projCompl 𝕜 o x ∧
    seqProj 𝕜 (List.ofFn o).reverse x = projCompl 𝕜 o x := by
  have hp : (List.ofFn o).Pairwise fun a b => ⟪a, b⟫_𝕜 = 0 := by
    rw [List.pairwise_ofFn]
    intro i j hij
    exact ho.2 (ne_of_lt hij)
  have hp' : (List.ofFn o).reverse.Pairwise fun a b => ⟪a, b⟫_𝕜 = 0 := by
    rw [List.pairwise_reverse]
    exact hp.imp fun h => inner_eq_zero_symm.1 h
  constructor
  · rw [seqProj_eq_sub_sum _ hp, projCompl, List.map_ofFn, List.sum_ofFn]; rfl
  · rw [seqProj_eq_sub_sum _ hp', projCompl, List.map_reverse, List.sum_reverse, List.map_ofFn, List.sum_ofFn]; rfl

theorem projCompl_inner {k : ℕ} (o : Fin k → E) (ho : Orthonormal 𝕜 o) (x : E) (i : Fin k) :
    ⟪o i, projCompl 𝕜 o x⟫_𝕜 = 0 := by
  rw [projCompl, inner_sub_right, ho.inner_right_fintype, sub_self]

theorem projCompl_self {k : ℕ} (o : Fin k → E) (ho : Orthonormal 𝕜 o) (i : Fin k) :
    projCompl 𝕜 o (o i) = 0 := by
  classical
  rw [projCompl, sub_eq_zero]
  simp [orthonormal_iff_ite.mp ho]

theorem projCompl_symm {k : ℕ} (o : Fin k → E) (x y : E) :
    ⟪projCompl 𝕜 o x, y⟫_𝕜 = ⟪x, projCompl 𝕜 o y⟫_𝕜 := by
  simp only [projCompl, inner_sub_left, inner_sub_right, sum_inner, inner_sum, inner_smul_left, inner_smul_right,
    inner_conj_symm]
  congr 1
  exact Finset.sum_congr rfl fun i _ => mul_comm _ _

theorem projCompl_of_orth {k : ℕ} (o : Fin k → E) (x : E) (hx : ∀ i, ⟪o i, x⟫_𝕜 = 0) : projCompl 𝕜 o x = x := by
  simp [projCompl, hx]

/-- **`OrthogonalNpcLinearOperator`** `= P H P` with `P` the projection onto the complement of orthonormal `o`:
symmetric if `H` is, annihilates every `o i` (eigenvalue 0, independent of any shift inside), maps into the
complement, and agrees with `H` compressed to the complement there. -/
theorem C16_projection {k : ℕ} (H : E →ₗ[𝕜] E) (o : Fin k → E) (ho : Orthonormal 𝕜 o) :
    (H.IsSymmetric → ∀ x y, ⟪projCompl 𝕜 o (H (projCompl 𝕜 o x)), y⟫_𝕜 = ⟪x, projCompl 𝕜 o (H (projCompl 𝕜 o y))⟫_𝕜) ∧
    (∀ i, projCompl 𝕜 o (H (projCompl 𝕜 o (o i))) = 0) ∧
    (∀ x i, ⟪o i, projCompl 𝕜 o (H (projCompl 𝕜 o x))⟫_𝕜 = 0) ∧
    (∀ x, (∀ i, ⟪o i, x⟫_𝕜 = 0) → ⟪x, projCompl 𝕜 o (H (projCompl 𝕜 o x))⟫_𝕜 = ⟪x, H x⟫_𝕜) := by
  refine ⟨?_, ?_, ?_, ?_⟩
  · intro hH x y
    rw [projCompl_symm, hH, projCompl_symm]
  · intro i
    rw [projCompl_self (𝕜 := 𝕜) o ho, map_zero]
    simp [projCompl]
  · intro x i
    exact projCompl_inner o ho _ i
  · intro x hx
    rw [← projCompl_symm, projCompl_of_orth o x hx]

theorem C16_lanczos_orthonormal (H : E →ₗ[𝕜] E) (hH : H.IsSymmetric) (v : ℕ → E) (α β : ℕ → ℝ) (m : ℕ)
    (h0 : ‖v 0‖ = 1)
    (hrec : ∀ k < m, (β k : 𝕜) • v (k + 1) = H (v k) - (α k : 𝕜) • v k - (prevCoef β k : 𝕜) • v (k - 1))
    (hα : ∀ k < m, (α k : 𝕜) = ⟪v k, H (v k)⟫_𝕜)
    (hβ : ∀ k < m, β k ≠ 0)
    (hn : ∀ k < m, ‖v (k + 1)‖ = 1) :
    ∀ n ≤ m, ∀ i ≤ n, ∀ j ≤ n, ⟪v i, v j⟫_𝕜 = if i = j then 1 else 0 := by
  have hHv : ∀ k < m, H (v k) = (β k : 𝕜) • v (k + 1) + (α k : 𝕜) • v k + (prevCoef β k : 𝕜) • v (k - 1) := by
    intro k hk; rw [hrec k hk]; abel
  have hself : ∀ k ≤ m, ⟪v k, v k⟫_𝕜 = 1 := by
    intro k hk
    rw [inner_self_eq_norm_sq_to_K]
    cases k with
    | zero => simp [h0]
    | succ k => simp [hn k (Nat.lt_of_succ_le hk)]
  intro n
  induction n with
  | zero =>
    intro _ i hi j hj
    obtain rfl : i = 0 := Nat.le_zero.1 hi
    obtain rfl : j = 0 := Nat.le_zero.1 hj
    simpa using hself 0 (Nat.zero_le _)
  | succ n ih =>
    intro hn1 
    have hnm : n < m := Nat.lt_of_succ_le hn1
    have P := ih (Nat.le_of_lt hnm)
    -- the new vector is orthogonal to all previous ones
    have key : ∀ i ≤ n, ⟪v i, v (n + 1)⟫_𝕜 = 0 := by
      intro i hi
      have hb : (β n : 𝕜) ≠ 0 := by exact_mod_cast hβ n hnm
      apply (mul_eq_zero.1 _).resolve_left hb
      rw [← inner_smul_right, hrec n hnm, inner_sub_right, inner_sub_right, inner_smul_right, inner_smul_right]
      rcases Nat.lt_or_eq_of_le hi with hlt | rfl
      · -- i < n
        have hi_m : i < m := lt_trans hlt hnm
        have h1 : ⟪v i, H (v n)⟫_𝕜 = ⟪H (v i), v n⟫_𝕜 := (hH (v i) (v n)).symm
        rw [h1, hHv i hi_m, inner_add_left, inner_add_left, inner_smul_left, inner_smul_left, inner_smul_left]
        simp only [RCLike.conj_ofReal]
        rw [P (i + 1) hlt n le_rfl, P i hi n le_rfl, P (i - 1) (le_trans (Nat.sub_le _ _) hi) n le_rfl,
          P i hi (n - 1) (Nat.sub_le _ _)]
        have e1 : i ≠ n := ne_of_lt hlt
        have e2 : i - 1 ≠ n := by omega
        simp only [e1, e2, if_false, mul_zero, add_zero, sub_zero]
        by_cases h : i + 1 = n
        · have h' : i = n - 1 := by omega
          have hn0 : n ≠ 0 := by omega
          simp only [h', if_true, mul_one, prevCoef, hn0, if_false]
          subst h'; simp [h]
        · have h' : i ≠ n - 1 := by omega
          simp [h, h']
      · -- i = n
        rw [← hα i hnm, hself i (Nat.le_of_lt hnm)]
        have : ⟪v i, v (i - 1)⟫_𝕜 = if i = i - 1 then 1 else 0 := P i le_rfl (i - 1) (Nat.sub_le _ _)
        rw [this]
        by_cases h : i = 0
        · simp [prevCoef, h]
        · have : i ≠ i - 1 := by omega
          simp [this]
    intro i hi j hj
    rcases Nat.lt_or_eq_of_le hi with hi' | rfl
    · rcases Nat.lt_or_eq_of_le hj with hj' | rfl
      · exact P i (Nat.le_of_lt_succ hi') j (Nat.le_of_lt_succ hj')
      · rw [key i (Nat.le_of_lt_succ hi')]
        have : i ≠ n + 1 := by omega
        simp [this]
    · rcases Nat.lt_or_eq_of_le hj with hj' | rfl
      · rw [← inner_conj_symm, key j (Nat.le_of_lt_succ hj')]
        have : n + 1 ≠ j := by omega
        simp [this]
      · simpa using hself (n + 1) hn1

theorem C16_tridiagonal (H : E →ₗ[𝕜] E) (hH : H.IsSymmetric) (v : ℕ → E) (α β : ℕ → ℝ) (m : ℕ)
    (h0 : ‖v 0‖ = 1)
    (hrec : ∀ k < m, (β k : 𝕜) • v (k + 1) = H (v k) - (α k : 𝕜) • v k - (prevCoef β k : 𝕜) • v (k - 1))
    (hα : ∀ k < m, (α k : 𝕜) = ⟪v k, H (v k)⟫_𝕜)
    (hβ : ∀ k < m, β k ≠ 0)
    (hn : ∀ k < m, ‖v (k + 1)‖ = 1) :
    ∀ i ≤ m, ∀ j < m, ⟪v i, H (v j)⟫_𝕜 =
      (if i = j + 1 then (β j : 𝕜) else 0) + (if i = j then (α j : 𝕜) else 0) + (if i + 1 = j then (β i : 𝕜) else 0) := by
  have P := C16_lanczos_orthonormal H hH v α β m h0 hrec hα hβ hn m le_rfl
  intro i hi j hj
  have hHv : H (v j) = (β j : 𝕜) • v (j + 1) + (α j : 𝕜) • v j + (prevCoef β j : 𝕜) • v (j - 1) := by
    rw [hrec j hj]; abel
  rw [hHv, inner_add_right, inner_add_right, inner_smul_right, inner_smul_right, inner_smul_right,
    P i hi (j + 1) hj, P i hi j (Nat.le_of_lt hj), P i hi (j - 1) (le_trans (Nat.sub_le _ _) (Nat.le_of_lt hj))]
  congr 1
  · congr 1 <;> split_ifs <;> simp
  · cases j with
    | zero => simp [prevCoef]
    | succ j =>
      simp only [prevCoef, Nat.succ_ne_zero, if_false, Nat.add_sub_cancel]
      by_cases h : i = j
      · subst h; simp
      · have : ¬ (i + 1 = j + 1) := by omega
        simp [h]


/-- non-vacuity of `C16_lanczos_orthonormal` / `C16_tridiagonal`: one Lanczos step of the swap matrix on `ℝ²`
from `e₀` (`α₀ = 0`, `β₀ = 1`, `v₁ = e₁`). -/
example : ∃ (H : EuclideanSpace ℝ (Fin 2) →ₗ[ℝ] EuclideanSpace ℝ (Fin 2)) (v : ℕ → EuclideanSpace ℝ (Fin 2))
    (α β : ℕ → ℝ), H.IsSymmetric ∧ ‖v 0‖ = 1 ∧
    (∀ k < 1, ((β k : ℝ)) • v (k + 1) = H (v k) - (α k : ℝ) • v k - (prevCoef β k : ℝ) • v (k - 1)) ∧
    (∀ k < 1, (α k : ℝ) = ⟪v k, H (v k)⟫_ℝ) ∧ (∀ k < 1, β k ≠ 0) ∧ (∀ k < 1, ‖v (k + 1)‖ = 1) := by
  have hsw : Matrix.toEuclideanLin (!![0,1;1,0] : Matrix (Fin 2) (Fin 2) ℝ) (EuclideanSpace.single 0 1)
      = EuclideanSpace.single 1 1 := by
    ext i; fin_cases i <;> simp [Matrix.toLpLin_apply]
  refine ⟨Matrix.toEuclideanLin !![0,1;1,0], fun k => if k = 0 then EuclideanSpace.single 0 1 else EuclideanSpace.single 1 1,
    fun _ => 0, fun _ => 1, ?_, by simp, ?_, ?_, by simp, by simp⟩
  · rw [Matrix.isSymmetric_toEuclideanLin_iff]
    ext i j; fin_cases i <;> fin_cases j <;> simp
  · intro k hk
    obtain rfl : k = 0 := by omega
    simp [prevCoef, hsw]
  · intro k hk
    obtain rfl : k = 0 := by omega
    simp [hsw, EuclideanSpace.inner_single_left]

end wrappers
