import TenpyModel.C16.LanczosProofs
import Mathlib.Tactic.FieldSimp
import Mathlib.Tactic.Linarith
import Mathlib.Algebra.Order.Field.Rat
/-!
Bilinearity of the list dot product on vectors of equal length, sequential projection against an
orthonormal list, Gram-Schmidt with exact square roots (helper lemmas for `Props.lean`).
-/
namespace TenpyModel.C16

/-! ### bilinearity of `dot` on vectors of equal length -/

theorem dot_nil_left (z : Vec) : dot [] z = 0 := by simp [dot]
theorem dot_nil_right (z : Vec) : dot z [] = 0 := by cases z <;> simp [dot]
theorem dot_cons (a b : Rat) (x y : Vec) : dot (a :: x) (b :: y) = a * b + dot x y := by
  simp [dot, List.sum_cons]

theorem dot_comm (x y : Vec) : dot x y = dot y x := by
  induction x generalizing y with
  | nil => rw [dot_nil_left, dot_nil_right]
  | cons a x ih =>
    cases y with
    | nil => rw [dot_nil_left, dot_nil_right]
    | cons b y => rw [dot_cons, dot_cons, ih y, Rat.mul_comm]

theorem axpy_length (a : Rat) (x y : Vec) (h : x.length = y.length) : (axpy a x y).length = y.length := by
  simp [axpy, h]

theorem scale_length (a : Rat) (x : Vec) : (scale a x).length = x.length := by simp [scale]

theorem dot_axpy_left (a : Rat) (x y z : Vec) (h : x.length = y.length) :
    dot (axpy a x y) z = dot y z + a * dot x z := by
  induction y generalizing x z with
  | nil =>
    cases x with
    | nil => simp [axpy, dot_nil_left]
    | cons _ _ => simp at h
  | cons y0 y ih =>
    cases x with
    | nil => simp at h
    | cons x0 x =>
      cases z with
      | nil => simp [dot_nil_right]
      | cons z0 z =>
        have hx : x.length = y.length := by simpa using h
        have e : axpy a (x0 :: x) (y0 :: y) = (y0 + a * x0) :: axpy a x y := by simp [axpy]
        rw [e, dot_cons, dot_cons, dot_cons, ih x z hx]
        ring

theorem dot_axpy_right (a : Rat) (x y z : Vec) (h : x.length = y.length) :
    dot z (axpy a x y) = dot z y + a * dot z x := by
  rw [dot_comm, dot_axpy_left a x y z h, dot_comm y z, dot_comm x z]

theorem dot_scale_left (a : Rat) (x z : Vec) : dot (scale a x) z = a * dot x z := by
  induction x generalizing z with
  | nil => simp [scale, dot_nil_left]
  | cons x0 x ih =>
    cases z with
    | nil => simp [dot_nil_right]
    | cons z0 z =>
      have e : scale a (x0 :: x) = (a * x0) :: scale a x := by simp [scale]
      rw [e, dot_cons, dot_cons, ih z]; ring

theorem dot_scale_right (a : Rat) (x z : Vec) : dot z (scale a x) = a * dot z x := by
  rw [dot_comm, dot_scale_left, dot_comm]


/-! ### orthonormal lists and sequential projection -/

/-- all vectors have length `n`, unit norm, and are pairwise orthogonal -/
def ON (n : Nat) (L : List Vec) : Prop :=
  (∀ o ∈ L, o.length = n ∧ dot o o = 1) ∧ L.Pairwise (fun a b => dot a b = 0)

theorem projOut_cons (o : Vec) (L : List Vec) (x : Vec) :
    projOut (o :: L) x = projOut L (axpy (-(dot o x)) o x) := rfl

theorem projOut_length (n : Nat) (L : List Vec) (hL : ∀ o ∈ L, o.length = n) (x : Vec) (hx : x.length = n) :
    (projOut L x).length = n := by
  induction L generalizing x with
  | nil => exact hx
  | cons o L ih =>
    rw [projOut_cons]
    apply ih (fun b hb => hL b (List.mem_cons_of_mem _ hb))
    rw [axpy_length _ _ _ (by rw [hL o (List.mem_cons_self ..), hx]), hx]

theorem dot_projOut_of_orth (n : Nat) (a : Vec) (L : List Vec) (hL : ∀ o ∈ L, o.length = n ∧ dot a o = 0)
    (x : Vec) (hx : x.length = n) : dot a (projOut L x) = dot a x := by
  induction L generalizing x with
  | nil => rfl
  | cons o L ih =>
    have ho := hL o (List.mem_cons_self ..)
    rw [projOut_cons, ih (fun b hb => hL b (List.mem_cons_of_mem _ hb)),
      dot_axpy_right _ _ _ _ (by rw [ho.1, hx]), ho.2]
    · ring
    · rw [axpy_length _ _ _ (by rw [ho.1, hx]), hx]

theorem dot_projOut_eq_zero (n : Nat) (L : List Vec) (hL : ON n L) (x : Vec) (hx : x.length = n) :
    ∀ o ∈ L, dot o (projOut L x) = 0 := by
  induction L generalizing x with
  | nil => intro o ho; cases ho
  | cons o1 L ih =>
    obtain ⟨h1, h2⟩ := hL
    rw [List.pairwise_cons] at h2
    have ho1 := h1 o1 (List.mem_cons_self ..)
    have hL' : ON n L := ⟨fun b hb => h1 b (List.mem_cons_of_mem _ hb), h2.2⟩
    have hx' : (axpy (-(dot o1 x)) o1 x).length = n := by
      rw [axpy_length _ _ _ (by rw [ho1.1, hx]), hx]
    intro o ho
    rw [projOut_cons]
    rcases List.mem_cons.1 ho with rfl | ho
    · rw [dot_projOut_of_orth n o L (fun b hb => ⟨(h1 b (List.mem_cons_of_mem _ hb)).1, h2.1 b hb⟩) _ hx',
        dot_axpy_right _ _ _ _ (by rw [ho1.1, hx]), ho1.2]
      ring
    · exact ih hL' _ hx' o ho

/-! ### gram_schmidt with exact square roots -/

/-- every square root taken during the run is exact -/
def GSExact (ar : Arith) (rcond : Rat) : List Vec → List Vec → Prop
  | _, [] => True
  | res, vec :: vecs =>
    (ar.sq (dot (projOut res vec) (projOut res vec)) * ar.sq (dot (projOut res vec) (projOut res vec))
        = dot (projOut res vec) (projOut res vec)) ∧
      GSExact ar rcond (gsStep ar rcond res vec) vecs

theorem map_rnd_id (ar : Arith) (hr : ∀ x, ar.rnd x = x) (l : Vec) : l.map ar.rnd = l := by
  induction l with
  | nil => rfl
  | cons a l ih => simp [hr, ih]

theorem gs_orthonormal (ar : Arith) (hr : ∀ x, ar.rnd x = x) (rcond : Rat) (hrc : 0 ≤ rcond) (n : Nat)
    (vecs res : List Vec) (hres : ON n res) (hv : ∀ v ∈ vecs, v.length = n) (hex : GSExact ar rcond res vecs) :
    ON n (vecs.foldl (gsStep ar rcond) res) := by
  induction vecs generalizing res with
  | nil => exact hres
  | cons vec vecs ih =>
    rw [List.foldl_cons]
    obtain ⟨hsq, hex'⟩ := hex
    apply ih _ _ (fun v h => hv v (List.mem_cons_of_mem _ h)) hex'
    have hlen : (projOut res vec).length = n :=
      projOut_length n res (fun o ho => (hres.1 o ho).1) vec (hv vec (List.mem_cons_self ..))
    have horth := dot_projOut_eq_zero n res hres vec (hv vec (List.mem_cons_self ..))
    unfold gsStep
    simp only
    split
    · rename_i hgt
      have hpos : 0 < ar.sq (dot (projOut res vec) (projOut res vec)) := lt_of_le_of_lt hrc hgt
      have hne : ar.sq (dot (projOut res vec) (projOut res vec)) ≠ 0 := ne_of_gt hpos
      have hu : normalize ar (ar.sq (dot (projOut res vec) (projOut res vec))) (projOut res vec)
          = scale (1 / ar.sq (dot (projOut res vec) (projOut res vec))) (projOut res vec) := by
        unfold normalize; exact map_rnd_id ar hr _
      rw [hu]
      refine ⟨?_, ?_⟩
      · intro o ho
        rcases List.mem_append.1 ho with ho | ho
        · exact hres.1 o ho
        · rw [List.mem_singleton] at ho
          subst ho
          refine ⟨by rw [scale_length, hlen], ?_⟩
          rw [dot_scale_left, dot_scale_right]
          have key : ∀ q d : Rat, q ≠ 0 → q * q = d → 1 / q * (1 / q * d) = 1 := by
            intro q d hq h; rw [← h]; field_simp
          exact key _ _ hne hsq
      · rw [List.pairwise_append]
        refine ⟨hres.2, List.pairwise_singleton _ _, ?_⟩
        intro a ha b hb
        rw [List.mem_singleton] at hb
        subst hb
        rw [dot_scale_right, horth a ha, mul_zero]
    · exact hres

end TenpyModel.C16
