import TenpyModel.C16.P2_GmresRun
/-!
The exact ("lucky") breakdown of the GMRES model: if the remainder of the Arnoldi step is the zero vector
(`H[k+1,k] = 0`, the Krylov space is invariant), the estimate reported by that step is `0` and the iterate solves the
system exactly (helper lemmas for `C16_gmres_residual_breakdown`).
-/
namespace TenpyModel.C16.P2
open TenpyModel.C16

theorem getD_append_eq' {α : Type} (l : List α) (x d : α) (n : ℕ) (h : l.length = n) : (l ++ [x]).getD n d = x := by
  subst h; exact getD_append_eq _ _ _

/-- the residual of the iterate in Krylov coordinates — needs the Arnoldi relation only, no orthonormality -/
theorem gm_coords (d : ℕ) (A : Vec → Vec) (hAlen : ∀ v : Vec, v.length = d → (A v).length = d)
    (hAlin : ∀ (a : Rat) (u v : Vec), u.length = d → v.length = d → A (axpy a u v) = axpy a (A u) (A v))
    (qs : List Vec) (hsr : List (List Rat)) (n : ℕ) (hql : qs.length = n + 1) (hqlen : ∀ c ∈ qs, c.length = d)
    (harn : ∀ j < n, toFn d (A (qs.getD j []))
      = ∑ r ∈ Finset.range (n + 1), seq (hsr.getD j []) r • toFn d (qs.getD r []))
    (x b : Vec) (hx : x.length = d) (hb : b.length = d) (β : ℚ)
    (hr0 : toFn d b + (-1 : ℚ) • toFn d (A x) = β • toFn d (qs.getD 0 []))
    (y : List Rat) (hyl : y.length = n) :
    (axpy (-1) (A ((List.zip y qs).foldl (fun x yq => axpy yq.1 yq.2 x) x)) b).length = d ∧
    toFn d (axpy (-1) (A ((List.zip y qs).foldl (fun x yq => axpy yq.1 yq.2 x) x)) b)
      = ∑ r ∈ Finset.range (n + 1),
          (seq [β] r - ∑ j ∈ Finset.range n, seq y j * seq (hsr.getD j []) r) • toFn d (qs.getD r []) := by
  have hzl : ∀ yq ∈ List.zip y qs, yq.2.length = d := by
    intro yq hyq
    exact hqlen _ (List.of_mem_zip hyq).2
  have hx'len : ((List.zip y qs).foldl (fun x yq => axpy yq.1 yq.2 x) x).length = d :=
    foldl_axpy_length d _ hzl x hx
  have hAx' := foldl_axpy_apply d A hAlen hAlin _ hzl x hx
  rw [zip_map_sum (fun a q => a • toFn d (A q)) y qs (by omega), hyl] at hAx'
  have hrlen : (axpy (-1) (A ((List.zip y qs).foldl (fun x yq => axpy yq.1 yq.2 x) x)) b).length = d := by
    rw [axpy_length _ _ _ (by rw [hAlen _ hx'len, hb]), hb]
  refine ⟨hrlen, ?_⟩
  rw [toFn_axpy d _ _ _ (by rw [hAlen _ hx'len, hb]), hAx']
  have hrhs : ∑ r ∈ Finset.range (n + 1),
        (seq [β] r - ∑ j ∈ Finset.range n, seq y j * seq (hsr.getD j []) r) • toFn d (qs.getD r [])
      = β • toFn d (qs.getD 0 [])
        - ∑ j ∈ Finset.range n, seq y j • ∑ r ∈ Finset.range (n + 1), seq (hsr.getD j []) r • toFn d (qs.getD r []) := by
    simp only [sub_smul, Finset.sum_sub_distrib]
    congr 1
    · rw [Finset.sum_range_succ']
      simp [seq]
    · simp only [Finset.sum_smul, Finset.smul_sum, smul_smul]
      rw [Finset.sum_comm]
  rw [hrhs, ← hr0]
  have harn' : ∀ j ∈ Finset.range n, seq y j • toFn d (A (qs.getD j []))
      = seq y j • ∑ r ∈ Finset.range (n + 1), seq (hsr.getD j []) r • toFn d (qs.getD r []) := by
    intro j hj
    rw [Finset.mem_range] at hj
    rw [harn j hj]
  rw [Finset.sum_congr rfl harn']
  simp only [smul_add, neg_smul, one_smul]
  abel

theorem sumsq_eq_zero (m : ℕ) (f : ℕ → ℚ) (h : sumsq m f = 0) : ∀ r < m, f r = 0 := by
  intro r hr
  unfold sumsq at h
  have h1 := (Finset.sum_eq_zero_iff_of_nonneg (fun i _ => mul_self_nonneg (f i))).1 h r (Finset.mem_range.2 hr)
  exact mul_self_eq_zero.1 h1

/-- exact breakdown in state `s`: the remainder of the Arnoldi step has norm 0 (exact root), and the Givens root of
that step is exact and non-zero (`H[k,k] ≠ 0` after the previous rotations: the projected system is regular) -/
def BreakExact (A : Vec → Vec) (ar : Arith) (s : GState) : Prop :=
  dot (mgs s.qs (A (s.qs.getLastD []))).2 (mgs s.qs (A (s.qs.getLastD []))).2 = 0 ∧
  ar.sq (dot (mgs s.qs (A (s.qs.getLastD []))).2 (mgs s.qs (A (s.qs.getLastD []))).2) = 0 ∧
  GivensExact ar (applyRots s.rots (rawCol A ar s))

/-- **lucky breakdown**: `n` regular steps followed by a step with exact breakdown; the estimate reported by the last
step is 0 and the residual of the returned iterate is the zero vector. -/
theorem gm_breakdown (d : ℕ) (A : Vec → Vec) (hAlen : ∀ v : Vec, v.length = d → (A v).length = d)
    (hAlin : ∀ (a : Rat) (u v : Vec), u.length = d → v.length = d → A (axpy a u v) = axpy a (A u) (A v))
    (ar : Arith) (hrnd : ∀ x, ar.rnd x = x) (x b : Vec) (hx : x.length = d) (hb : b.length = d)
    (h0 : InitExact A ar x b) (n : ℕ) (hex : ∀ i < n, StepExact A ar (gmState A ar x b i))
    (hbr : BreakExact A ar (gmState A ar x b n)) :
    (gmresCycle A ar (n + 1) x b).2.getD n 1 = 0 ∧
    toFn d (axpy (-1) (A (gmresCycle A ar (n + 1) x b).1) b) = 0 ∧
    dot (axpy (-1) (A (gmresCycle A ar (n + 1) x b).1) b) (axpy (-1) (A (gmresCycle A ar (n + 1) x b).1) b) = 0 := by
  obtain ⟨ha, hro, hq0⟩ := gm_invariants d A hAlen ar hrnd x b hx hb h0 n hex
  obtain ⟨hd0, hs0, hgiv⟩ := hbr
  have hhl := gmRaw_length A ar x b n
  have herrs : (gmState A ar x b n).errs.length = n := by
    rw [gm_errs d A hAlen ar hrnd x b hx hb h0 n hex]; simp
  -- the rotation invariant survives the step
  have hro' := rotInv_step ar hrnd _ _ _ _ _ hro (rawCol A ar (gmState A ar x b n))
    (by rw [rawCol_length, ha.hq]) hgiv
  -- facts about the old state
  obtain ⟨hq, hon, harn, hlen⟩ := ha
  have hqlen : ∀ c ∈ (gmState A ar x b n).qs, c.length = d := fun c hc => (hon.1 c hc).1
  have hlast : (gmState A ar x b n).qs.getLastD [] = (gmState A ar x b n).qs.getD n [] := by
    rw [getLastD_eq_getD _ n (by rw [hq, hhl])]
  have hlastmem : (gmState A ar x b n).qs.getD n [] ∈ (gmState A ar x b n).qs := by
    rw [List.getD_eq_getElem?_getD, List.getElem?_eq_getElem (by rw [hq, hhl]; omega)]
    exact List.getElem_mem _
  have hwlen : (A ((gmState A ar x b n).qs.getLastD [])).length = d := by
    rw [hlast]; exact hAlen _ (hqlen _ hlastmem)
  have hrel := mgs_relation d (gmState A ar x b n).qs hqlen _ hwlen
  have hremlen : (mgs (gmState A ar x b n).qs (A ((gmState A ar x b n).qs.getLastD []))).2.length = d := by
    rw [mgs_snd]; exact projOut_length d _ hqlen _ hwlen
  have hrem0 : toFn d (mgs (gmState A ar x b n).qs (A ((gmState A ar x b n).qs.getLastD []))).2 = 0 :=
    eq_zero_of_dot_self d _ hd0
  have hnq : newQ A ar (gmState A ar x b n)
      = (mgs (gmState A ar x b n).qs (A ((gmState A ar x b n).qs.getLastD []))).2 := by
    unfold newQ
    rw [hs0]; simp
  -- the last rotation has sine 0
  have hsin : (newRot ar (applyRots (gmState A ar x b n).rots (rawCol A ar (gmState A ar x b n)))).2.2 = 0 := by
    have hcl : (applyRots (gmState A ar x b n).rots (rawCol A ar (gmState A ar x b n))).length = n + 2 := by
      rw [applyRots_length, rawCol_length, hq, hhl]
    have hv2 : (applyRots (gmState A ar x b n).rots (rawCol A ar (gmState A ar x b n))).getD (n + 1) 0 = 0 := by
      show seq (applyRots (gmState A ar x b n).rots (rawCol A ar (gmState A ar x b n))) (n + 1) = 0
      rw [applyRots_seq _ _ (by rw [rawCol_length, hq, hro.hr]; omega),
        rotsFrom_above _ _ _ _ (by rw [hro.hr, hhl]; omega)]
      unfold rawCol
      rw [seq_append, mgs_fst_length, hq, hhl, hs0]
      simp [seq]
    unfold newRot
    simp only [hcl, Nat.add_sub_cancel, hv2, zero_div, hrnd]
  -- new state
  have hgl : seq (gmState A ar x b (n + 1)).g (n + 1) = 0 := by
    rw [gmState_succ, gmresStep_g, hro.hc, hhl, seq_take_append_pair _ n (by rw [hro.hg, hhl]; omega), hsin]
    simp
  have hro'' : RotInv (ar.sq (dot (axpy (-1) (A x) b) (axpy (-1) (A x) b))) (gmRaw A ar x b (n + 1))
      (gmState A ar x b (n + 1)).rots (gmState A ar x b (n + 1)).cols (gmState A ar x b (n + 1)).g := by
    rw [gmState_succ, gmRaw_succ, gmresStep_rots, gmresStep_cols, gmresStep_g]; exact hro'
  have hhl' := gmRaw_length A ar x b (n + 1)
  have hres := rot_residual ar hrnd _ _ _ _ _ hro''
  rw [hhl', hgl, mul_zero] at hres
  have hρ := sumsq_eq_zero _ _ hres
  -- coordinates of the residual w.r.t. the extended (not orthonormal: last vector is 0) list
  have hqs' : (gmState A ar x b (n + 1)).qs
      = (gmState A ar x b n).qs ++ [(mgs (gmState A ar x b n).qs (A ((gmState A ar x b n).qs.getLastD []))).2] := by
    rw [gmState_succ, gmresStep_qs, hnq]
  have hqn : (gmState A ar x b n).qs.length = n + 1 := by rw [hq, hhl]
  have hyl : (backsolve ar (gmState A ar x b (n + 1)).cols (gmState A ar x b (n + 1)).g).length = n + 1 := by
    have h1 := (backsolve_correct ar hrnd (gmState A ar x b (n + 1)).cols (gmState A ar x b (n + 1)).g
      (by rw [hro''.hc]; exact hro''.cdiag) (by rw [hro''.hc]; exact hro''.ctri)).1
    rw [h1, hro''.hc, hhl']
  have hcoords := gm_coords d A hAlen hAlin (gmState A ar x b (n + 1)).qs (gmRaw A ar x b (n + 1)) (n + 1)
    (by rw [hqs', List.length_append, hqn]; rfl)
    (by
      intro c hc
      rw [hqs'] at hc
      rcases List.mem_append.1 hc with hc | hc
      · exact hqlen c hc
      · rw [List.mem_singleton] at hc; rw [hc]; exact hremlen)
    (by
      intro j hj
      rw [hqs', gmRaw_succ, Finset.sum_range_succ]
      have hlastq : ((gmState A ar x b n).qs ++
          [(mgs (gmState A ar x b n).qs (A ((gmState A ar x b n).qs.getLastD []))).2]).getD (n + 1) []
          = (mgs (gmState A ar x b n).qs (A ((gmState A ar x b n).qs.getLastD []))).2 := by
        exact getD_append_eq' _ _ _ _ hqn
      rw [hlastq, hrem0, smul_zero, add_zero]
      by_cases h1 : j < n
      · rw [getD_append_lt _ _ _ _ (by omega), getD_append_lt _ _ _ _ (by rw [hhl]; exact h1)]
        have := harn j (by rw [hhl]; exact h1)
        rw [hhl] at this
        rw [this]
        refine Finset.sum_congr rfl fun r hr => ?_
        rw [Finset.mem_range] at hr
        rw [getD_append_lt _ _ _ _ (by omega)]
      · have hjn : j = n := by omega
        subst hjn
        have e1 : (gmRaw A ar x b j ++ [rawCol A ar (gmState A ar x b j)]).getD j []
            = rawCol A ar (gmState A ar x b j) := by
          exact getD_append_eq' _ _ _ _ hhl
        rw [e1, getD_append_lt _ _ _ _ (by omega), ← hlast, hrel, hrem0, zero_add, hqn]
        refine Finset.sum_congr rfl fun r hr => ?_
        rw [Finset.mem_range] at hr
        rw [getD_append_lt _ _ _ _ (by omega)]
        congr 1
        unfold rawCol
        rw [seq_append, mgs_fst_length, hqn]
        simp only [hr, if_true])
    x b hx hb (ar.sq (dot (axpy (-1) (A x) b) (axpy (-1) (A x) b)))
    (by
      obtain ⟨hsq, hne⟩ := h0
      rw [hqs', getD_append_lt _ _ _ _ (by omega), hq0, toFn_scale, smul_smul, mul_one_div_cancel hne, one_smul,
        toFn_axpy d _ _ _ (by rw [hAlen x hx, hb])])
    (backsolve ar (gmState A ar x b (n + 1)).cols (gmState A ar x b (n + 1)).g) hyl
  obtain ⟨hrlen, hco⟩ := hcoords
  have hzero : toFn d (axpy (-1) (A (gmresCycle A ar (n + 1) x b).1) b) = 0 := by
    rw [gmresCycle_eq]
    simp only
    rw [hco]
    apply Finset.sum_eq_zero
    intro r hr
    rw [Finset.mem_range] at hr
    have := hρ r hr
    rw [this, zero_smul]
  refine ⟨?_, hzero, ?_⟩
  · have e : (gmresCycle A ar (n + 1) x b).2 = (gmState A ar x b (n + 1)).errs := rfl
    rw [e, gmState_succ, gmresStep_errs, getD_append_eq' _ _ _ _ herrs, hsin]
    simp [rabs]
  · have hl : (axpy (-1) (A (gmresCycle A ar (n + 1) x b).1) b).length = d := by
      rw [gmresCycle_eq]; exact hrlen
    rw [dot_eq_sum d _ _ hl hl, hzero]
    simp

end TenpyModel.C16.P2
