import TenpyModel.C16.PropsRitz
import TenpyModel.C16.P2_Span
import TenpyModel.C16.P2_GmresAbs
import TenpyModel.C16.P2_GmresRun
import TenpyModel.C16.P2_GmresBreak
import TenpyModel.C16.P2_Evo
/-!
# C16 — property theorems, part 2 (span of `gram_schmidt`, GMRES residual, norm of the Lanczos evolution)

List model (`TenpyModel/C16/Lanczos.lean`, exact arithmetic):

* `C16_gram_schmidt_span`  the output of the model function `gramSchmidt` spans the same space as its input: every
  output is a linear combination of the inputs; every input is, up to the remainder `r` it had when it was treated
  (`r` orthogonal to the outputs found so far), a combination of the outputs; it is kept iff `‖r‖ > rcond`; with
  `rcond = 0` the remainder of a dropped vector is zero and the two spans are equal.
* `C16_span_is_lincomb`    `InSpan` spelled out as an explicit finite linear combination.
* `C16_gmres_arnoldi_relation`  along a run of `gmresCycle` (exact roots, no breakdown): the basis `qs` is orthonormal,
  `A q_j = Σ_r H̄[r][j] q_r`, and `backsolve` solves the rotated triangular system `R y = g[:k]`.
* `C16_gmres_residual_breakdown`  exact ("lucky") breakdown in the last step: the reported estimate is `0` and the returned
  iterate solves the system exactly.
* `C16_gmres_residual`     every estimate `|e1[i+1]|` reported by the model equals `‖b - A x_{i+1}‖`, `x_{i+1}` the iterate the
  same cycle returns after `i+1` inner steps (Givens bookkeeping + Arnoldi relation + back-substitution).

Abstract (`𝕜 = ℝ` or `ℂ`):

* `C16_gmres_residual_abstract`  `Q` unitary, `Q H̄ = [R; 0]`, `Q (β e₀) = [g; γ]`, orthonormal Arnoldi vectors with
  `A q_j = Σ_i H̄ i j q_i`, `b - A x₀ = β q₀`: `‖b - A(x₀ + V z)‖² = ‖g - R z‖² + |γ|²` for every `z`; the minimum over
  `z` is `|γ|`, attained at `R y = g`.
* `C16_gmres_givens_unitary`     the complex Givens rotation of the repaired code is unitary and maps `(v1, v2)` to `(t, 0)`.
* `C16_evolution_norm*`          norm preservation of the Lanczos time evolution for anti-Hermitian exponents.
-/
open scoped InnerProductSpace Matrix ComplexConjugate
open TenpyModel.C16 TenpyModel.C16.P2

/-- **`gram_schmidt` keeps the span.**  Exact square roots, no rounding, `rcond ≥ 0`, all inputs of length `n`
(the hypotheses of `C16_gram_schmidt_orthonormal`).  `InSpan n L x` says that `x` lies in the `ℚ`-linear span
(`Submodule.span`) of the vectors of the list `L`; `spanL n L` is that span.

1. every output has length `n` and is a linear combination of the inputs;
2. every input `v` was treated against a prefix `pre` of the final output; with the remainder
   `r = v - Σ_{o ∈ pre} <o|v> o` (computed sequentially, `projOut`): `r` is orthogonal to `pre`, `v - r` is a combination
   of `pre`, and either `‖r‖ > rcond`, `r/‖r‖` is the next output and `v` is in the span of the outputs, or
   `‖r‖ ≤ rcond` and `v` was dropped (it is within `rcond` of the span of the outputs);
3. if the root is non-negative (it is a norm) and `rcond = 0`, dropped vectors have `r = 0`: every input is in
   the span of the outputs and the two spans coincide. -/
theorem C16_gram_schmidt_span (ar : Arith) (hr : ∀ x, ar.rnd x = x) (rcond : Rat) (hrc : 0 ≤ rcond) (n : Nat)
    (vecs : List Vec) (hv : ∀ v ∈ vecs, v.length = n) (hex : GSExact ar rcond [] vecs) :
    (∀ o ∈ gramSchmidt ar rcond vecs, o.length = n ∧ InSpan n vecs o) ∧
    (∀ v ∈ vecs, ∃ pre, pre <+: gramSchmidt ar rcond vecs ∧
      (∀ o ∈ pre, dot o (projOut pre v) = 0) ∧
      InSpan n pre (axpy (-1) (projOut pre v) v) ∧
      ((rcond < ar.sq (dot (projOut pre v) (projOut pre v)) ∧
          pre ++ [TenpyModel.C16.normalize ar (ar.sq (dot (projOut pre v) (projOut pre v))) (projOut pre v)]
            <+: gramSchmidt ar rcond vecs ∧
          InSpan n (gramSchmidt ar rcond vecs) v) ∨
        ar.sq (dot (projOut pre v) (projOut pre v)) ≤ rcond)) ∧
    ((∀ x, 0 ≤ ar.sq x) → rcond = 0 →
      (∀ v ∈ vecs, InSpan n (gramSchmidt ar rcond vecs) v) ∧
      spanL n (gramSchmidt ar rcond vecs) = spanL n vecs) := by
  have hON : ON n (gramSchmidt ar rcond vecs) := gs_orthonormal ar hr rcond hrc n vecs []
    ⟨fun _ h => (nomatch h), List.Pairwise.nil⟩ hv hex
  have hlen : ∀ o ∈ gramSchmidt ar rcond vecs, o.length = n := fun o ho => (hON.1 o ho).1
  have h1 : ∀ o ∈ gramSchmidt ar rcond vecs, o.length = n ∧ InSpan n vecs o := by
    intro o ho
    refine ⟨hlen o ho, ?_⟩
    have := gs_out_in_span ar hr rcond n vecs [] (fun _ h => (nomatch h)) hv o ho
    simpa [InSpan] using this
  -- the per-input statement, with the exactness of the root of that step kept for part 3
  have h2 : ∀ v ∈ vecs, ∃ pre, pre <+: gramSchmidt ar rcond vecs ∧
      (∀ o ∈ pre, dot o (projOut pre v) = 0) ∧
      InSpan n pre (axpy (-1) (projOut pre v) v) ∧
      ar.sq (dot (projOut pre v) (projOut pre v)) * ar.sq (dot (projOut pre v) (projOut pre v))
        = dot (projOut pre v) (projOut pre v) ∧
      ((rcond < ar.sq (dot (projOut pre v) (projOut pre v)) ∧
          pre ++ [TenpyModel.C16.normalize ar (ar.sq (dot (projOut pre v) (projOut pre v))) (projOut pre v)]
            <+: gramSchmidt ar rcond vecs ∧
          InSpan n (gramSchmidt ar rcond vecs) v) ∨
        ar.sq (dot (projOut pre v) (projOut pre v)) ≤ rcond) := by
    intro v hvm
    obtain ⟨pre, -, hsq, hcase⟩ := gs_trace ar rcond vecs [] hex v hvm
    have hpre : pre <+: gramSchmidt ar rcond vecs := by
      rcases hcase with ⟨_, h⟩ | ⟨_, h⟩
      · exact (List.prefix_append _ _).trans h
      · exact h
    have hpl : ∀ o ∈ pre, o.length = n := fun o ho => hlen o (hpre.subset ho)
    have hONpre : ON n pre := by
      obtain ⟨t, ht⟩ := hpre
      have h := hON
      rw [← ht] at h
      exact ⟨fun o ho => h.1 o (List.mem_append_left _ ho), (List.pairwise_append.1 h.2).1⟩
    have hvl := hv v hvm
    have hrl : (projOut pre v).length = n := projOut_length n pre hpl v hvl
    have hsub : InSpan n pre (axpy (-1) (projOut pre v) v) := by
      have := toFn_projOut n pre hpl v hvl
      unfold InSpan
      rw [toFn_axpy n _ _ _ (by rw [hrl, hvl])]
      convert this using 1
      funext i
      simp only [Pi.sub_apply, Pi.add_apply, Pi.smul_apply, smul_eq_mul]
      ring
    refine ⟨pre, hpre, dot_projOut_eq_zero n pre hONpre v hvl, hsub, hsq, ?_⟩
    rcases hcase with ⟨hgt, hp⟩ | ⟨hle, _⟩
    · left
      refine ⟨hgt, hp, ?_⟩
      -- v = (v - r) + ‖r‖ • (r/‖r‖)
      have hne : ar.sq (dot (projOut pre v) (projOut pre v)) ≠ 0 := ne_of_gt (lt_of_le_of_lt hrc hgt)
      have hmem : TenpyModel.C16.normalize ar (ar.sq (dot (projOut pre v) (projOut pre v))) (projOut pre v)
          ∈ gramSchmidt ar rcond vecs := hp.subset (by simp)
      have hq := mem_spanL n _ _ hmem
      have hu : TenpyModel.C16.normalize ar (ar.sq (dot (projOut pre v) (projOut pre v))) (projOut pre v)
          = scale (1 / ar.sq (dot (projOut pre v) (projOut pre v))) (projOut pre v) := by
        unfold TenpyModel.C16.normalize; exact map_rnd_id ar hr _
      rw [hu, toFn_scale] at hq
      have hq' := Submodule.smul_mem _ (ar.sq (dot (projOut pre v) (projOut pre v))) hq
      rw [smul_smul, mul_one_div_cancel hne, one_smul] at hq'
      have h3 := spanL_mono n pre _ (fun o ho => hpre.subset ho) (toFn_projOut n pre hpl v hvl)
      have := Submodule.add_mem _ h3 hq'
      unfold InSpan
      simpa using this
    · right
      exact not_lt.1 hle
  refine ⟨h1, ?_, ?_⟩
  · intro v hvm
    obtain ⟨pre, a, b, c, _, e⟩ := h2 v hvm
    exact ⟨pre, a, b, c, e⟩
  · intro hnn h0
    have h3 : ∀ v ∈ vecs, InSpan n (gramSchmidt ar rcond vecs) v := by
      intro v hvm
      obtain ⟨pre, hpre, _, hsub, hsq, hcase⟩ := h2 v hvm
      rcases hcase with ⟨_, _, h⟩ | hle
      · exact h
      · -- the root is 0, hence the remainder is the zero vector
        have hz : ar.sq (dot (projOut pre v) (projOut pre v)) = 0 :=
          le_antisymm (by rw [h0] at hle; exact hle) (hnn _)
        have hd : dot (projOut pre v) (projOut pre v) = 0 := by rw [← hsq, hz, mul_zero]
        have hr0 := eq_zero_of_dot_self n _ hd
        have hpl : ∀ o ∈ pre, o.length = n := fun o ho => hlen o (hpre.subset ho)
        have := spanL_mono n pre _ (fun o ho => hpre.subset ho) (toFn_projOut n pre hpl v (hv v hvm))
        rw [hr0, sub_zero] at this
        exact this
    refine ⟨h3, le_antisymm ?_ ?_⟩
    · apply Submodule.span_le.2
      rintro _ ⟨o, ho, rfl⟩
      exact (h1 o ho).2
    · apply Submodule.span_le.2
      rintro _ ⟨v, hvm, rfl⟩
      exact h3 v hvm

/-- non-vacuity: `[(3,4), (6,8), (1,0)]` with the exact roots `√25 = 5`, `√0 = 0`, `√(16/25) = 4/5` and `rcond = 0`
meets all hypotheses (the root is non-negative); the second vector is dropped, the model returns the orthonormal pair
`(3/5, 4/5), (4/5, -3/5)`, and the dropped vector is `10 · (3/5, 4/5)`. -/
example :
    let ar : Arith := { sq := fun x => if x = 25 then 5 else if x = 16 / 25 then 4 / 5 else 0, rnd := id }
    (∀ x, ar.rnd x = x) ∧ (∀ x, 0 ≤ ar.sq x) ∧ (∀ v ∈ [[3, 4], [6, 8], [1, 0]], v.length = 2) ∧
    GSExact ar 0 [] [[3, 4], [6, 8], [1, 0]] ∧
    gramSchmidt ar 0 [[3, 4], [6, 8], [1, 0]] = [[3 / 5, 4 / 5], [4 / 5, -3 / 5]] ∧
    ([6, 8] : Vec) = scale 10 [3 / 5, 4 / 5] := by
  refine ⟨fun _ => rfl, ?_, by decide, ⟨by decide +kernel, by decide +kernel, by decide +kernel, trivial⟩,
    by decide +kernel, by decide +kernel⟩
  intro x
  show (0 : Rat) ≤ if x = 25 then 5 else if x = 16 / 25 then 4 / 5 else 0
  split_ifs <;> norm_num

/-- non-vacuity of the `rcond > 0` branch: with `rcond = 1` the vector `(0, 1/2)` is dropped although its remainder
`(0, 1/2)` is not zero — it is only within `rcond` of the span of the output `[(1, 0)]`. -/
example :
    let ar : Arith := { sq := fun x => if x = 4 then 2 else if x = 1 / 4 then 1 / 2 else 0, rnd := id }
    GSExact ar 1 [] [[2, 0], [0, 1 / 2]] ∧ gramSchmidt ar 1 [[2, 0], [0, 1 / 2]] = [[1, 0]] ∧
    projOut [[1, 0]] [0, 1 / 2] = [0, 1 / 2] ∧ ar.sq (dot [0, 1 / 2] [0, 1 / 2]) ≤ 1 := by
  refine ⟨⟨by decide +kernel, by decide +kernel, trivial⟩, by decide +kernel, by decide +kernel, by decide +kernel⟩

/-- **`InSpan` is "is a finite linear combination"**: `x ∈ span L` iff `x = Σ_i c_i L[i]` for some rational
coefficients (entrywise, vectors read as functions on `Fin n`). -/
theorem C16_span_is_lincomb (n : Nat) (L : List Vec) (x : Vec) :
    InSpan n L x ↔ ∃ c : Fin L.length → ℚ, toFn n x = ∑ i, c i • toFn n (L.get i) :=
  inSpan_iff_coeffs n L x

/-- non-vacuity: `(6, 8) = 10 · (3/5, 4/5) + 0 · (4/5, -3/5)`. -/
example : InSpan 2 [[3 / 5, 4 / 5], [4 / 5, -3 / 5]] [6, 8] := by
  rw [C16_span_is_lincomb]
  refine ⟨![10, 0], ?_⟩
  funext i
  fin_cases i <;> simp [toFn, Fin.sum_univ_two] <;> norm_num

/-! ### GMRES -/

/-- **GMRES model, Arnoldi part and triangular solve.**  `d` = dimension, `A` length-preserving; exact roots and
no breakdown in the `n` inner steps (`InitExact`, `StepExact`), no rounding.  In the state after `n` steps
(`gmState`, the fold of `gmresStep` that `gmresCycle` runs), with `hs` the raw Hessenberg columns:
the `n+1` basis vectors are orthonormal, `A q_j = Σ_{r ≤ n} hs[j][r] q_r` for `j < n`, and `y = backsolve cols g` has
length `n` and solves the rotated upper-triangular system `Σ_j y_j cols[j][i] = g_i`, `i < n`. -/
theorem C16_gmres_arnoldi_relation (d : ℕ) (A : Vec → Vec) (hAlen : ∀ v : Vec, v.length = d → (A v).length = d)
    (ar : Arith) (hrnd : ∀ x, ar.rnd x = x) (x b : Vec) (hx : x.length = d) (hb : b.length = d)
    (h0 : InitExact A ar x b) (n : ℕ) (hex : ∀ i < n, StepExact A ar (gmState A ar x b i)) :
    (gmState A ar x b n).qs.length = n + 1 ∧ ON d (gmState A ar x b n).qs ∧
    (∀ j < n, toFn d (A ((gmState A ar x b n).qs.getD j []))
      = ∑ r ∈ Finset.range (n + 1),
          seq ((gmRaw A ar x b n).getD j []) r • toFn d ((gmState A ar x b n).qs.getD r [])) ∧
    (backsolve ar (gmState A ar x b n).cols (gmState A ar x b n).g).length = n ∧
    (∀ i < n, ∑ j ∈ Finset.range n,
        seq (backsolve ar (gmState A ar x b n).cols (gmState A ar x b n).g) j
          * seq ((gmState A ar x b n).cols.getD j []) i
      = seq (gmState A ar x b n).g i) := by
  obtain ⟨ha, hro, _⟩ := gm_invariants d A hAlen ar hrnd x b hx hb h0 n hex
  have hl := gmRaw_length A ar x b n
  obtain ⟨h1, h2⟩ := backsolve_correct ar hrnd (gmState A ar x b n).cols (gmState A ar x b n).g
    (by rw [hro.hc]; exact hro.cdiag) (by rw [hro.hc]; exact hro.ctri)
  rw [hro.hc, hl] at h1 h2
  refine ⟨by rw [ha.hq, hl], ha.hon, ?_, h1, h2⟩
  intro j hj
  have := ha.harn j (by rw [hl]; exact hj)
  rw [hl] at this
  exact this

/-- **GMRES returns a solution with the reported residual** (list model, real data, one restart cycle).
`A` linear and length-preserving on vectors of length `d`; exact roots, no breakdown, no rounding.  Then the cycle
reports `n` estimates, each is `≥ 0`, and the `i`-th estimate `|e1[i+1]|` (Givens-rotation bookkeeping:
`e1[k+1] = -sin_k e1[k]`) squares to `‖b - A x_{i+1}‖²`, where `x_{i+1}` is the iterate `x + Σ_j y_j q_j`
(`y` from `backsolve`) that the same cycle returns when it is stopped after `i+1` inner steps.  For `i = n-1`: the
last estimate is the norm of the true residual of the returned `x`. -/
theorem C16_gmres_residual (d : ℕ) (A : Vec → Vec) (hAlen : ∀ v : Vec, v.length = d → (A v).length = d)
    (hAlin : ∀ (a : Rat) (u v : Vec), u.length = d → v.length = d → A (axpy a u v) = axpy a (A u) (A v))
    (ar : Arith) (hrnd : ∀ x, ar.rnd x = x) (x b : Vec) (hx : x.length = d) (hb : b.length = d)
    (h0 : InitExact A ar x b) (n : ℕ) (hex : ∀ i < n, StepExact A ar (gmState A ar x b i)) :
    (gmresCycle A ar n x b).2.length = n ∧
    ∀ i < n, 0 ≤ (gmresCycle A ar n x b).2.getD i 0 ∧
      (gmresCycle A ar n x b).2.getD i 0 * (gmresCycle A ar n x b).2.getD i 0
        = dot (axpy (-1) (A (gmresCycle A ar (i + 1) x b).1) b) (axpy (-1) (A (gmresCycle A ar (i + 1) x b).1) b) := by
  have herr := gm_errs d A hAlen ar hrnd x b hx hb h0 n hex
  have e : (gmresCycle A ar n x b).2 = (gmState A ar x b n).errs := rfl
  rw [e, herr]
  refine ⟨by simp, ?_⟩
  intro i hi
  have hg : ((List.range n).map (fun i => rabs (seq (gmState A ar x b (i + 1)).g (i + 1)))).getD i 0
      = rabs (seq (gmState A ar x b (i + 1)).g (i + 1)) := by
    simp [List.getD_eq_getElem?_getD, hi]
  rw [hg, rabs_mul_self,
    gm_residual d A hAlen hAlin ar hrnd x b hx hb h0 (i + 1) (fun j hj => hex j (by omega))]
  exact ⟨rabs_nonneg _, rfl⟩

/-- non-vacuity, a concrete run: `A = [[3,0,0],[4,5,0],[0,4,1]]`, `b = e₀`, `x = 0`, two inner steps with the exact roots
`√1 = 1`, `√16 = 4`, `√25 = 5`.  All hypotheses hold (`A` is a matrix, hence linear), the kernel evaluates the model
to `x = (123/625, -12/125, 0)` with estimates `[4/5, 16/25]`, and `‖b - A x‖² = (16/25)²`. -/
example :
    let ar : Arith := { sq := fun x => if x = 1 then 1 else if x = 16 then 4 else if x = 25 then 5 else 0, rnd := id }
    let M : List Vec := [[3, 0, 0], [4, 5, 0], [0, 4, 1]]
    (∀ v : Vec, v.length = 3 → (matvec M v).length = 3) ∧
    (∀ (a : Rat) (u v : Vec), u.length = 3 → v.length = 3 → matvec M (axpy a u v) = axpy a (matvec M u) (matvec M v)) ∧
    (∀ x, ar.rnd x = x) ∧
    InitExact (matvec M) ar [0, 0, 0] [1, 0, 0] ∧
    (∀ i < 2, StepExact (matvec M) ar (gmState (matvec M) ar [0, 0, 0] [1, 0, 0] i)) ∧
    gmresCycle (matvec M) ar 2 [0, 0, 0] [1, 0, 0] = ([123 / 625, -12 / 125, 0], [4 / 5, 16 / 25]) ∧
    dot (axpy (-1) (matvec M [123 / 625, -12 / 125, 0]) [1, 0, 0])
        (axpy (-1) (matvec M [123 / 625, -12 / 125, 0]) [1, 0, 0]) = 16 / 25 * (16 / 25) := by
  intro ar M
  refine ⟨fun v _ => matvec_length M v, ?_, fun _ => rfl, ?_, ?_, by decide +kernel, by decide +kernel⟩
  · intro a u v hu hv
    exact matvec_axpy 3 M (by decide) a u v hu hv
  · unfold InitExact; decide +kernel
  · intro i hi
    match i, hi with
    | 0, _ => unfold StepExact GivensExact; decide +kernel
    | 1, _ => unfold StepExact GivensExact; decide +kernel

/-- **GMRES, exact ("lucky") breakdown** — the other branch of `GMRES.arnoldi` (`H[k+1,k] = 0`, nothing is left after
the orthogonalisation, the Krylov space is invariant; the repaired code stops there).  `n` regular inner steps followed
by one step whose remainder has norm exactly `0`, with a regular projected system (`GivensExact`: the rotated diagonal
entry is not 0): the estimate reported by that step is `0` (the entry exists: `getD n 1`), and the residual
`b - A x` of the returned iterate is the zero vector. -/
theorem C16_gmres_residual_breakdown (d : ℕ) (A : Vec → Vec) (hAlen : ∀ v : Vec, v.length = d → (A v).length = d)
    (hAlin : ∀ (a : Rat) (u v : Vec), u.length = d → v.length = d → A (axpy a u v) = axpy a (A u) (A v))
    (ar : Arith) (hrnd : ∀ x, ar.rnd x = x) (x b : Vec) (hx : x.length = d) (hb : b.length = d)
    (h0 : InitExact A ar x b) (n : ℕ) (hex : ∀ i < n, StepExact A ar (gmState A ar x b i))
    (hbr : BreakExact A ar (gmState A ar x b n)) :
    (gmresCycle A ar (n + 1) x b).2.getD n 1 = 0 ∧
    toFn d (axpy (-1) (A (gmresCycle A ar (n + 1) x b).1) b) = 0 ∧
    dot (axpy (-1) (A (gmresCycle A ar (n + 1) x b).1) b) (axpy (-1) (A (gmresCycle A ar (n + 1) x b).1) b) = 0 :=
  gm_breakdown d A hAlen hAlin ar hrnd x b hx hb h0 n hex hbr

/-- non-vacuity: `A = diag(2, 3)`, `b = e₀`: breakdown in the first step, `x = (1/2, 0)`, estimate `0`. -/
example :
    let ar : Arith := { sq := fun x => if x = 1 then 1 else if x = 4 then 2 else 0, rnd := id }
    let M : List Vec := [[2, 0], [0, 3]]
    InitExact (matvec M) ar [0, 0] [1, 0] ∧ BreakExact (matvec M) ar (gmState (matvec M) ar [0, 0] [1, 0] 0) ∧
    gmresCycle (matvec M) ar 1 [0, 0] [1, 0] = ([1 / 2, 0], [0]) := by
  intro ar M
  refine ⟨?_, ?_, by decide +kernel⟩
  · unfold InitExact; decide +kernel
  · unfold BreakExact GivensExact; decide +kernel

section gmres_abstract
variable {𝕜 E : Type*} [RCLike 𝕜] [NormedAddCommGroup E] [InnerProductSpace 𝕜 E]

/-- **The algebraic core of GMRES, real and complex.**  `q 0 … q k` orthonormal Arnoldi vectors with the Arnoldi
relation `A q_j = Σ_i H̄ i j q_i` (`H̄` of size `(k+1) × k`), `b - A x₀ = β q₀`; `Q` unitary (the product of the
Givens rotations) with `Q H̄ = [R; 0]` and `Q (β e₀) = [g; γ]`.  Then for every coefficient vector `z`
`‖b - A (x₀ + Σ z_j q_j)‖² = ‖g - R z‖² + |γ|²`; hence `|γ|` is a lower bound for the residual over the whole Krylov
space, and it IS the residual of the iterate built from the solution of `R y = g` — the number GMRES reports
(`|e1[k+1]|`). -/
theorem C16_gmres_residual_abstract {k : ℕ}
    (A : E →ₗ[𝕜] E) (b x0 : E) (q : Fin (k + 1) → E) (hq : Orthonormal 𝕜 q)
    (Hb : Matrix (Fin (k + 1)) (Fin k) 𝕜) (hArn : ∀ j : Fin k, A (q (Fin.castSucc j)) = ∑ i, Hb i j • q i)
    (β : 𝕜) (hr0 : b - A x0 = β • q 0)
    (Q : Matrix (Fin (k + 1)) (Fin (k + 1)) 𝕜) (hQ : Q ∈ Matrix.unitaryGroup (Fin (k + 1)) 𝕜)
    (R : Matrix (Fin k) (Fin k) 𝕜) (g : Fin k → 𝕜) (γ : 𝕜)
    (hR : ∀ i j, (Q * Hb) (Fin.castSucc i) j = R i j) (h0 : ∀ j, (Q * Hb) (Fin.last k) j = 0)
    (hg : ∀ i, (Q *ᵥ Pi.single 0 β) (Fin.castSucc i) = g i) (hγ : (Q *ᵥ Pi.single 0 β) (Fin.last k) = γ) :
    (∀ z : Fin k → 𝕜, ‖b - A (x0 + ∑ j, z j • q (Fin.castSucc j))‖ ^ 2 = ∑ i, ‖(g - R *ᵥ z) i‖ ^ 2 + ‖γ‖ ^ 2) ∧
    (∀ z : Fin k → 𝕜, ‖γ‖ ≤ ‖b - A (x0 + ∑ j, z j • q (Fin.castSucc j))‖) ∧
    (∀ y : Fin k → 𝕜, R *ᵥ y = g → ‖b - A (x0 + ∑ j, y j • q (Fin.castSucc j))‖ = ‖γ‖) := by
  have key : ∀ z : Fin k → 𝕜, ‖b - A (x0 + ∑ j, z j • q (Fin.castSucc j))‖ ^ 2
      = ∑ i, ‖(g - R *ᵥ z) i‖ ^ 2 + ‖γ‖ ^ 2 := by
    intro z
    rw [gm_residual_coords A b x0 q Hb hArn β hr0 z, gm_norm_sq_sum q hq,
      gm_lsq_identity Q hQ Hb R g γ β hR h0 hg hγ z]
  refine ⟨key, ?_, ?_⟩
  · intro z
    have h1 : ‖γ‖ ^ 2 ≤ ‖b - A (x0 + ∑ j, z j • q (Fin.castSucc j))‖ ^ 2 := by
      rw [key z]
      have : 0 ≤ ∑ i, ‖(g - R *ᵥ z) i‖ ^ 2 := Finset.sum_nonneg fun i _ => sq_nonneg _
      linarith
    exact le_of_sq_le_sq h1 (norm_nonneg _)
  · intro y hy
    have h1 : ‖b - A (x0 + ∑ j, y j • q (Fin.castSucc j))‖ ^ 2 = ‖γ‖ ^ 2 := by
      rw [key y, hy]; simp
    exact (pow_left_inj₀ (norm_nonneg _) (norm_nonneg _) two_ne_zero).1 h1

/-- non-vacuity (`k = 1`, `ℝ²`): `A = [[3,-4],[4,3]]`, `b = e₀`, `x₀ = 0`, `H̄ = (3, 4)ᵀ`, the Givens rotation
`Q = [[3/5, 4/5], [-4/5, 3/5]]`, `R = (5)`, `g = (3/5)`, `γ = -4/5` meet all hypotheses (the residual of the iterate
`x = 3/25 e₀` is `4/5`). -/
example : ∃ (A : EuclideanSpace ℝ (Fin 2) →ₗ[ℝ] EuclideanSpace ℝ (Fin 2)) (b x0 : EuclideanSpace ℝ (Fin 2))
    (q : Fin 2 → EuclideanSpace ℝ (Fin 2)) (Hb : Matrix (Fin 2) (Fin 1) ℝ) (Q : Matrix (Fin 2) (Fin 2) ℝ)
    (R : Matrix (Fin 1) (Fin 1) ℝ) (g : Fin 1 → ℝ) (γ β : ℝ),
    Orthonormal ℝ q ∧ (∀ j : Fin 1, A (q (Fin.castSucc j)) = ∑ i, Hb i j • q i) ∧ b - A x0 = β • q 0 ∧
    Q ∈ Matrix.unitaryGroup (Fin 2) ℝ ∧ (∀ i j, (Q * Hb) (Fin.castSucc i) j = R i j) ∧
    (∀ j, (Q * Hb) (Fin.last 1) j = 0) ∧ (∀ i, (Q *ᵥ Pi.single 0 β) (Fin.castSucc i) = g i) ∧
    (Q *ᵥ Pi.single 0 β) (Fin.last 1) = γ ∧ γ ≠ 0 := by
  refine ⟨Matrix.toEuclideanLin !![3, -4; 4, 3], EuclideanSpace.single 0 1, 0, fun i => EuclideanSpace.single i 1,
    !![3; 4], !![3 / 5, 4 / 5; -4 / 5, 3 / 5], !![5], ![3 / 5], -4 / 5, 1,
    EuclideanSpace.orthonormal_single, ?_, by simp, ?_, ?_, ?_, ?_, ?_, by norm_num⟩
  · intro j
    fin_cases j
    ext i
    fin_cases i <;> simp [Matrix.toLpLin_apply, Fin.sum_univ_two]
  · rw [Matrix.mem_unitaryGroup_iff]
    ext i j
    fin_cases i <;> fin_cases j <;> simp [Matrix.mul_apply, Fin.sum_univ_two, Matrix.star_apply] <;> norm_num
  · intro i j; fin_cases i; fin_cases j; simp [Matrix.mul_apply, Fin.sum_univ_two]; norm_num
  · intro j; fin_cases j; simp [Matrix.mul_apply, Fin.sum_univ_two]; norm_num
  · intro i; fin_cases i; simp [Matrix.mulVec, dotProduct, Fin.sum_univ_two]
  · simp [Matrix.mulVec, dotProduct, Fin.sum_univ_two]

/-- **The Givens rotation of the repaired code is unitary, also for complex data** (`givens_rotation`,
`apply_givens_rotation`: `cos = v1/t`, `sin = v2/t`, `t = √(|v1|² + |v2|²)`, rotation
`[[conj cos, conj sin], [-sin, cos]]`): `|cos|² + |sin|² = 1`, the pair `(v1, v2)` is mapped to `(t, 0)`, and the
`2 × 2` matrix lies in the unitary group — so the product `Q` of the rotations is unitary, as
`C16_gmres_residual_abstract` assumes. -/
theorem C16_gmres_givens_unitary (v1 v2 : 𝕜) (t : ℝ) (ht : t ^ 2 = ‖v1‖ ^ 2 + ‖v2‖ ^ 2) (h0 : t ≠ 0) :
    ‖v1 / (t : 𝕜)‖ ^ 2 + ‖v2 / (t : 𝕜)‖ ^ 2 = 1 ∧
    conj (v1 / (t : 𝕜)) * v1 + conj (v2 / (t : 𝕜)) * v2 = (t : 𝕜) ∧
    -(v2 / (t : 𝕜)) * v1 + (v1 / (t : 𝕜)) * v2 = 0 ∧
    (!![conj (v1 / (t : 𝕜)), conj (v2 / (t : 𝕜)); -(v2 / (t : 𝕜)), v1 / (t : 𝕜)] : Matrix (Fin 2) (Fin 2) 𝕜)
      ∈ Matrix.unitaryGroup (Fin 2) 𝕜 := by
  have ht0 : (t : 𝕜) ≠ 0 := by exact_mod_cast h0
  have hn : ‖v1 / (t : 𝕜)‖ ^ 2 + ‖v2 / (t : 𝕜)‖ ^ 2 = 1 := by
    rw [norm_div, norm_div, RCLike.norm_ofReal, div_pow, div_pow, sq_abs, ← add_div, ← ht]
    exact div_self (pow_ne_zero 2 h0)
  have hnK : conj (v1 / (t : 𝕜)) * (v1 / (t : 𝕜)) + conj (v2 / (t : 𝕜)) * (v2 / (t : 𝕜)) = 1 := by
    rw [RCLike.conj_mul, RCLike.conj_mul]
    have : ((‖v1 / (t : 𝕜)‖ ^ 2 + ‖v2 / (t : 𝕜)‖ ^ 2 : ℝ) : 𝕜) = 1 := by rw [hn]; simp
    rw [← this]; push_cast; ring
  have e1 : v1 = (v1 / (t : 𝕜)) * t := by field_simp
  have e2 : v2 = (v2 / (t : 𝕜)) * t := by field_simp
  generalize v1 / (t : 𝕜) = c at *
  generalize v2 / (t : 𝕜) = s at *
  refine ⟨hn, ?_, ?_, gm_givens_unitary c s hnK⟩
  · rw [e1, e2]; linear_combination (t : 𝕜) * hnK
  · rw [e1, e2]; ring

end gmres_abstract

/-- non-vacuity (complex data): `v1 = 3i`, `v2 = 4`, `t = 5`. -/
example : (5 : ℝ) ^ 2 = ‖(3 * Complex.I : ℂ)‖ ^ 2 + ‖(4 : ℂ)‖ ^ 2 ∧ (5 : ℝ) ≠ 0 := by
  refine ⟨?_, by norm_num⟩
  simp
  norm_num

/-! ### Lanczos time evolution -/

section evolution_abstract
variable {𝕜 E : Type*} [RCLike 𝕜] [NormedAddCommGroup E] [InnerProductSpace 𝕜 E]

/-- **Norm preservation of the Krylov time evolution.**  `v` the orthonormal Krylov basis, `T` the (Hermitian)
projected matrix, `Re δ = 0`, `expm` any routine mapping skew-Hermitian matrices to unitary ones, `c = ‖ψ0‖`.
With `y = expm(δT) e_{i0}`: `Σ|y_i|² = 1`, `‖Σ y_i v_i‖ = 1`, `‖c · Σ y_i v_i‖ = c`. -/
theorem C16_evolution_norm {m : ℕ} (v : Fin m → E) (hv : Orthonormal 𝕜 v)
    (T : Matrix (Fin m) (Fin m) 𝕜) (hT : T.IsHermitian) (δ : 𝕜) (hδ : RCLike.re δ = 0)
    (expm : Matrix (Fin m) (Fin m) 𝕜 → Matrix (Fin m) (Fin m) 𝕜)
    (hexp : ∀ A : Matrix (Fin m) (Fin m) 𝕜, Aᴴ = -A → expm A ∈ Matrix.unitaryGroup (Fin m) 𝕜)
    (i0 : Fin m) (c : ℝ) (hc : 0 ≤ c) :
    let y := expm (δ • T) *ᵥ Pi.single i0 1
    ∑ i, ‖y i‖ ^ 2 = 1 ∧ ‖∑ i, y i • v i‖ = 1 ∧ ‖(c : 𝕜) • ∑ i, y i • v i‖ = c := by
  intro y
  have hU := hexp (δ • T) (evo_smul_skew T hT δ hδ)
  have hy : ∑ i, ‖y i‖ ^ 2 = 1 := by
    rw [evo_unitary_mulVec_normsq _ hU, evo_single_normsq]
  have hn : ‖∑ i, y i • v i‖ = 1 :=
    (C16_ritz (0 : E →ₗ[𝕜] E) v hv y 0 (by intro i; simp) hy).1
  refine ⟨hy, hn, ?_⟩
  rw [norm_smul, hn, mul_one, RCLike.norm_ofReal, abs_of_nonneg hc]

/-- non-vacuity: `ℂ²`, standard basis, `T = 1`, `δ = i`, `expm` the true exponential. -/
example : ∃ (v : Fin 2 → EuclideanSpace ℂ (Fin 2)) (T : Matrix (Fin 2) (Fin 2) ℂ) (δ : ℂ)
    (expm : Matrix (Fin 2) (Fin 2) ℂ → Matrix (Fin 2) (Fin 2) ℂ),
    Orthonormal ℂ v ∧ T.IsHermitian ∧ RCLike.re δ = 0 ∧ δ ≠ 0 ∧
      ∀ A : Matrix (Fin 2) (Fin 2) ℂ, Aᴴ = -A → expm A ∈ Matrix.unitaryGroup (Fin 2) ℂ :=
  ⟨fun i => EuclideanSpace.single i 1, 1, Complex.I, NormedSpace.exp, EuclideanSpace.orthonormal_single,
    Matrix.isHermitian_one, by simp, Complex.I_ne_zero, evo_exp_skew_mem_unitaryGroup⟩

/-- **The unitarity hypothesis is dischargeable**: the matrix exponential maps skew-Hermitian matrices to unitary
ones (`(exp A)ᴴ = exp Aᴴ = exp(-A) = (exp A)⁻¹`); in particular `exp(δT)` is unitary for Hermitian `T`, `Re δ = 0`,
and the conclusion of `C16_evolution_norm` holds for `expm = exp` without further hypotheses. -/
theorem C16_evolution_norm_exp {m : ℕ} (v : Fin m → E) (hv : Orthonormal 𝕜 v)
    (T : Matrix (Fin m) (Fin m) 𝕜) (hT : T.IsHermitian) (δ : 𝕜) (hδ : RCLike.re δ = 0)
    (i0 : Fin m) (c : ℝ) (hc : 0 ≤ c) :
    (∀ A : Matrix (Fin m) (Fin m) 𝕜, Aᴴ = -A → NormedSpace.exp A ∈ Matrix.unitaryGroup (Fin m) 𝕜) ∧
    NormedSpace.exp (δ • T) ∈ Matrix.unitaryGroup (Fin m) 𝕜 ∧
    (let y := NormedSpace.exp (δ • T) *ᵥ Pi.single i0 1
     ∑ i, ‖y i‖ ^ 2 = 1 ∧ ‖∑ i, y i • v i‖ = 1 ∧ ‖(c : 𝕜) • ∑ i, y i • v i‖ = c) :=
  ⟨evo_exp_skew_mem_unitaryGroup, evo_exp_skew_mem_unitaryGroup _ (evo_smul_skew T hT δ hδ),
    C16_evolution_norm v hv T hT δ hδ NormedSpace.exp evo_exp_skew_mem_unitaryGroup i0 c hc⟩

/-- non-vacuity: a Hermitian, non-diagonal `T` and a purely imaginary `δ ≠ 0`. -/
example : (!![0, 1; 1, 0] : Matrix (Fin 2) (Fin 2) ℂ).IsHermitian ∧ RCLike.re (2 * Complex.I) = 0 ∧
    (2 * Complex.I ≠ 0) ∧ Orthonormal ℂ (fun i : Fin 2 => (EuclideanSpace.single i 1 : EuclideanSpace ℂ (Fin 2))) := by
  refine ⟨?_, by simp, by simp, EuclideanSpace.orthonormal_single⟩
  ext i j; fin_cases i <;> fin_cases j <;> simp [Matrix.conjTranspose_apply]

/-- **The `eigh` form of `_calc_result_krylov`.**  `W` unitary (the eigenvector matrix returned by `eigh`), `d` the
phases `exp(δ E_i)` with `|d_i| = 1`; `y = W · (d * conj(W[i0, :]))` is the vector `exp_dH_e0` of the code.  Then
`Σ|y_i|² = 1` (`_result_norm = 1`), `y = (W diag(d) Wᴴ) e_{i0}`, and the full-space result has norm `c`. -/
theorem C16_evolution_norm_eigh {m : ℕ} (v : Fin m → E) (hv : Orthonormal 𝕜 v)
    (W : Matrix (Fin m) (Fin m) 𝕜) (hW : W ∈ Matrix.unitaryGroup (Fin m) 𝕜)
    (d : Fin m → 𝕜) (hd : ∀ i, ‖d i‖ = 1) (i0 : Fin m) (c : ℝ) (hc : 0 ≤ c) :
    let y := W *ᵥ (fun i => d i * star (W i0 i))
    y = (W * Matrix.diagonal d * star W) *ᵥ Pi.single i0 1 ∧
    ∑ i, ‖y i‖ ^ 2 = 1 ∧ ‖∑ i, y i • v i‖ = 1 ∧ ‖(c : 𝕜) • ∑ i, y i • v i‖ = c := by
  intro y
  have hy : ∑ i, ‖y i‖ ^ 2 = 1 := by
    rw [evo_unitary_mulVec_normsq _ hW, evo_row_phase_normsq W hW d hd i0]
  have hn : ‖∑ i, y i • v i‖ = 1 :=
    (C16_ritz (0 : E →ₗ[𝕜] E) v hv y 0 (by intro i; simp) hy).1
  refine ⟨evo_eigh_eq_mulVec W d i0, hy, hn, ?_⟩
  rw [norm_smul, hn, mul_one, RCLike.norm_ofReal, abs_of_nonneg hc]

/-- non-vacuity: the unitary `W = [[0,1],[1,0]]` and the phases `(i, -1)`. -/
example : (!![0, 1; 1, 0] : Matrix (Fin 2) (Fin 2) ℂ) ∈ Matrix.unitaryGroup (Fin 2) ℂ ∧
    ∀ i : Fin 2, ‖(![Complex.I, -1] : Fin 2 → ℂ) i‖ = 1 := by
  refine ⟨?_, fun i => by fin_cases i <;> simp⟩
  rw [Matrix.mem_unitaryGroup_iff]
  ext i j; fin_cases i <;> fin_cases j <;> simp [Matrix.mul_apply, Fin.sum_univ_two, Matrix.star_apply]

end evolution_abstract

/-- **Complex case with the phases of the code.**  `E_i` real, `Re δ = 0`: `|exp(δ E_i)| = 1`, so
`C16_evolution_norm_eigh` applies; and if `W diag(E) Wᴴ = T` (the `eigh` post-condition) the computed coefficient
vector is exactly `exp(δ T) e_{i0}` for the true matrix exponential. -/
theorem C16_evolution_norm_eigh_complex {E : Type*} [NormedAddCommGroup E] [InnerProductSpace ℂ E] {m : ℕ}
    (v : Fin m → E) (hv : Orthonormal ℂ v)
    (W : Matrix (Fin m) (Fin m) ℂ) (hW : W ∈ Matrix.unitaryGroup (Fin m) ℂ)
    (ev : Fin m → ℝ) (δ : ℂ) (hδ : δ.re = 0) (i0 : Fin m) (c : ℝ) (hc : 0 ≤ c) :
    let y := W *ᵥ (fun i => Complex.exp (δ * (ev i : ℂ)) * star (W i0 i))
    (∀ i, ‖Complex.exp (δ * (ev i : ℂ))‖ = 1) ∧
    (∀ T : Matrix (Fin m) (Fin m) ℂ, T = W * Matrix.diagonal (fun i => (ev i : ℂ)) * star W →
      y = NormedSpace.exp (δ • T) *ᵥ Pi.single i0 1) ∧
    ∑ i, ‖y i‖ ^ 2 = 1 ∧ ‖∑ i, y i • v i‖ = 1 ∧ ‖(c : ℂ) • ∑ i, y i • v i‖ = c := by
  intro y
  have hd : ∀ i, ‖Complex.exp (δ * (ev i : ℂ))‖ = 1 := fun i => evo_phase_norm δ hδ (ev i)
  obtain ⟨h1, h2, h3, h4⟩ := C16_evolution_norm_eigh v hv W hW (fun i => Complex.exp (δ * (ev i : ℂ))) hd i0 c hc
  refine ⟨hd, ?_, h2, h3, h4⟩
  intro T hT
  rw [hT, evo_exp_eigh W hW, ← Complex.exp_eq_exp_ℂ]
  exact h1

/-- non-vacuity: `W = 1`, eigenvalues `(1, -2)`, `δ = i/2`. -/
example : (1 : Matrix (Fin 2) (Fin 2) ℂ) ∈ Matrix.unitaryGroup (Fin 2) ℂ ∧ (Complex.I / 2).re = 0 ∧
    Complex.I / 2 ≠ 0 :=
  ⟨one_mem _, by simp, by simp⟩

/-! ### the executable model -/

/-- **`run(normalize=False)` is `(‖ψ0‖ · _result_norm) ·` `run(normalize=True)`**, for every arithmetic instance. -/
theorem C16_evolution_norm_model_scale (H : Op) (ar : Arith) (o : Opts) (eShift : Option Rat)
    (conv : Nat → List Rat → List Rat → Bool) (small : Nat → List Rat → List Rat → List Rat × Rat)
    (psi0 : Vec) (N : Nat) (s : BState)
    (hb : build (withShift H eShift).apply ar o conv psi0 = some (N, s)) :
    ∃ full, runEvo H ar o eShift conv small true psi0 = some (full, N) ∧
      runEvo H ar o eShift conv small false psi0
        = some (scale (ar.sq (dot psi0 psi0) * (small N s.alphas s.betas).2) full, N) := by
  refine ⟨evo_full (withShift H eShift).apply ar o N (small N s.alphas s.betas).1 psi0 s, ?_, ?_⟩
  · rw [evo_runEvo_eq H ar o eShift conv small true psi0 N s hb]; rfl
  · rw [evo_runEvo_eq H ar o eShift conv small false psi0 N s hb]; rfl

/-- non-vacuity: a run where `build` succeeds (`N = 2`, convergence oracle fires at `k = 1`); the square root is a
crude approximation (`ar.sq = id`) — the scaling relation needs no exactness. -/
example :
    let ar : Arith := { sq := id, rnd := id }
    let H : Op := .mat [[0, 1, 0], [1, 0, 1], [0, 1, 0]]
    let o : Opts := ⟨2, 3, 2, false, 0⟩
    let conv : Nat → List Rat → List Rat → Bool := fun k _ _ => k == 1
    let small : Nat → List Rat → List Rat → List Rat × Rat := fun _ _ _ => ([3, 4], 5)
    ((build (withShift H none).apply ar o conv [2, 0, 0]).map (·.1)) = some 2 ∧
    (runEvo H ar o none conv small false [2, 0, 0]).map (·.1)
      = (runEvo H ar o none conv small true [2, 0, 0]).map (fun r => scale (ar.sq (dot [2, 0, 0] [2, 0, 0]) * 5) r.1) := by
  decide +kernel

/-- **`run(normalize=True)` returns a unit vector** when nothing is rounded and the one square root that
matters is exact: for `N > 1` the root of `⟨X, X⟩`, `X` the accumulated vector before the final
`iscale_prefactor(psif, 1/norm)`; for `N = 1` the root of `⟨ψ0, ψ0⟩`, and `_result_krylov[0]` is a phase (`= ±1`
on real data). -/
theorem C16_evolution_norm_model_normalized (H : Op) (ar : Arith) (o : Opts) (eShift : Option Rat)
    (conv : Nat → List Rat → List Rat → Bool) (small : Nat → List Rat → List Rat → List Rat × Rat)
    (psi0 : Vec) (N : Nat) (s : BState) (X : Vec) (hr : ∀ x, ar.rnd x = x)
    (hb : build (withShift H eShift).apply ar o conv psi0 = some (N, s))
    (hX : X = evo_preNorm (withShift H eShift).apply ar o N (small N s.alphas s.betas).1 (psi0n ar psi0)
      s.cache s.alphas s.betas)
    (h1 : N = 1 → ar.sq (dot psi0 psi0) * ar.sq (dot psi0 psi0) = dot psi0 psi0 ∧ ar.sq (dot psi0 psi0) ≠ 0 ∧
      ((small N s.alphas s.betas).1.getD 0 0) ^ 2 = 1)
    (h2 : N ≠ 1 → ar.sq (dot X X) * ar.sq (dot X X) = dot X X ∧ ar.sq (dot X X) ≠ 0)
    (res : Vec) (N' : Nat) (hrun : runEvo H ar o eShift conv small true psi0 = some (res, N')) :
    N' = N ∧ dot res res = 1 := by
  subst hX
  rw [evo_runEvo_eq H ar o eShift conv small true psi0 N s hb] at hrun
  simp only [if_true, Option.some.injEq, Prod.mk.injEq] at hrun
  obtain ⟨rfl, rfl⟩ := hrun
  exact ⟨rfl, evo_full_normalized _ ar hr o N _ psi0 s h1 h2⟩

/-- non-vacuity (`N = 1` branch, `E_shift` used, `_result_norm = 1/2 ≠ 1`): `ψ0 = 3 e_0` is an eigenvector, the loop
exits through the cutoff after one step; phase `-1`; `⟨res, res⟩ = 9/4 = ⟨ψ0, ψ0⟩ · (1/2)²`. -/
example :
    let ar : Arith := { sq := fun x => if x = 9 then 3 else 0, rnd := id }
    let H : Op := .mat [[2, 0], [0, 3]]
    let o : Opts := ⟨2, 3, 2, false, 1 / 100⟩
    let conv : Nat → List Rat → List Rat → Bool := fun _ _ _ => false
    let small : Nat → List Rat → List Rat → List Rat × Rat := fun _ _ _ => ([-1], 1 / 2)
    let psi0 : Vec := [3, 0]
    ((build (withShift H (some 1)).apply ar o conv psi0).any fun r =>
        decide (r.1 = 1 ∧ ar.sq (dot psi0 psi0) * ar.sq (dot psi0 psi0) = dot psi0 psi0 ∧ ar.sq (dot psi0 psi0) ≠ 0 ∧
          ((small r.1 r.2.alphas r.2.betas).1.getD 0 0) ^ 2 = 1)) = true ∧
    runEvo H ar o (some 1) conv small false psi0 = some ([-3 / 2, 0], 1) ∧
    runEvo H ar o (some 1) conv small true psi0 = some ([-1, 0], 1) ∧
    dot [-3 / 2, 0] [-3 / 2, 0] = dot psi0 psi0 * (1 / 2) * (1 / 2) := by
  decide +kernel

/-- **`run(normalize=False)`**: `⟨res, res⟩ = ⟨ψ0, ψ0⟩ · _result_norm²`; in particular the norm of `ψ0` is
preserved when `_result_norm² = 1` (the anti-Hermitian case, `C16_evolution_norm`).  Exactness needed: the root of
`⟨ψ0, ψ0⟩` and (for `N > 1`) the root of `⟨X, X⟩`. -/
theorem C16_evolution_norm_model (H : Op) (ar : Arith) (o : Opts) (eShift : Option Rat)
    (conv : Nat → List Rat → List Rat → Bool) (small : Nat → List Rat → List Rat → List Rat × Rat)
    (psi0 : Vec) (N : Nat) (s : BState) (X : Vec) (hr : ∀ x, ar.rnd x = x)
    (hb : build (withShift H eShift).apply ar o conv psi0 = some (N, s))
    (hX : X = evo_preNorm (withShift H eShift).apply ar o N (small N s.alphas s.betas).1 (psi0n ar psi0)
      s.cache s.alphas s.betas)
    (h0 : ar.sq (dot psi0 psi0) * ar.sq (dot psi0 psi0) = dot psi0 psi0)
    (h1 : N = 1 → ar.sq (dot psi0 psi0) ≠ 0 ∧ ((small N s.alphas s.betas).1.getD 0 0) ^ 2 = 1)
    (h2 : N ≠ 1 → ar.sq (dot X X) * ar.sq (dot X X) = dot X X ∧ ar.sq (dot X X) ≠ 0)
    (res : Vec) (N' : Nat) (hrun : runEvo H ar o eShift conv small false psi0 = some (res, N')) :
    N' = N ∧
    dot res res = dot psi0 psi0 * (small N s.alphas s.betas).2 * (small N s.alphas s.betas).2 ∧
    ((small N s.alphas s.betas).2 * (small N s.alphas s.betas).2 = 1 → dot res res = dot psi0 psi0) := by
  subst hX
  rw [evo_runEvo_eq H ar o eShift conv small false psi0 N s hb] at hrun
  simp only [Bool.false_eq_true, if_false, Option.some.injEq, Prod.mk.injEq] at hrun
  obtain ⟨rfl, rfl⟩ := hrun
  have hf := evo_full_normalized _ ar hr o N (small N s.alphas s.betas).1 psi0 s
    (fun hN => ⟨h0, (h1 hN).1, (h1 hN).2⟩) h2
  have key : dot (scale (ar.sq (dot psi0 psi0) * (small N s.alphas s.betas).2)
        (evo_full (withShift H eShift).apply ar o N (small N s.alphas s.betas).1 psi0 s))
      (scale (ar.sq (dot psi0 psi0) * (small N s.alphas s.betas).2)
        (evo_full (withShift H eShift).apply ar o N (small N s.alphas s.betas).1 psi0 s))
      = dot psi0 psi0 * (small N s.alphas s.betas).2 * (small N s.alphas s.betas).2 := by
    rw [evo_dot_scale_scale, hf, mul_one]
    calc ar.sq (dot psi0 psi0) * (small N s.alphas s.betas).2 * (ar.sq (dot psi0 psi0) * (small N s.alphas s.betas).2)
        = (ar.sq (dot psi0 psi0) * ar.sq (dot psi0 psi0)) * (small N s.alphas s.betas).2
            * (small N s.alphas s.betas).2 := by ring
      _ = _ := by rw [h0]
  refine ⟨rfl, key, fun h => ?_⟩
  rw [key, mul_assoc, h, mul_one]

/-- non-vacuity (`N > 1` branch, with rebuild): path graph on 3 sites, `ψ0 = 2 e_0`, `N_cache = 2`, exact roots
`√4 = 2`, `√1 = 1`, `√9 = 3`, small-problem oracle returning the un-normalised `(1, -2, 2)` and `_result_norm = 1`.
The hypotheses of `C16_evolution_norm_model` / `…_normalized` hold (first conjunct, evaluated on the state returned by
`build`), and the kernel evaluates both runs: `⟨res, res⟩ = 4 = ⟨ψ0, ψ0⟩` resp. `1`. -/
example :
    let ar : Arith := { sq := fun x => if x = 4 then 2 else if x = 1 then 1 else if x = 9 then 3 else 0, rnd := id }
    let H : Op := .mat [[0, 1, 0], [1, 0, 1], [0, 1, 0]]
    let o : Opts := ⟨2, 3, 2, false, 0⟩
    let conv : Nat → List Rat → List Rat → Bool := fun _ _ _ => false
    let small : Nat → List Rat → List Rat → List Rat × Rat := fun _ _ _ => ([1, -2, 2], 1)
    let psi0 : Vec := [2, 0, 0]
    ((build (withShift H none).apply ar o conv psi0).any fun r =>
        let X := evo_preNorm (withShift H none).apply ar o r.1 (small r.1 r.2.alphas r.2.betas).1 (psi0n ar psi0)
          r.2.cache r.2.alphas r.2.betas
        decide (r.1 = 3 ∧ X = [1, -2, 2] ∧ ar.sq (dot X X) * ar.sq (dot X X) = dot X X ∧ ar.sq (dot X X) ≠ 0 ∧
          ar.sq (dot psi0 psi0) * ar.sq (dot psi0 psi0) = dot psi0 psi0)) = true ∧
    runEvo H ar o none conv small false psi0 = some ([2 / 3, -4 / 3, 4 / 3], 3) ∧
    runEvo H ar o none conv small true psi0 = some ([1 / 3, -2 / 3, 2 / 3], 3) ∧
    dot [2 / 3, -4 / 3, 4 / 3] [2 / 3, -4 / 3, 4 / 3] = dot psi0 psi0 := by
  decide +kernel
