import TenpyModel.C16.LinAlgProofs
import Mathlib.Analysis.Normed.Algebra.MatrixExponential
import Mathlib.Analysis.InnerProductSpace.Basic
import Mathlib.LinearAlgebra.UnitaryGroup
import Mathlib.Analysis.SpecialFunctions.Exponential
/-!
Helper lemmas for `C16_evolution_norm*` (norm of the Lanczos time evolution).

* abstract part: a unitary matrix preserves `∑ i ‖x i‖²`; the matrix exponential of an anti-Hermitian
  matrix is unitary; the `eigh` form `W diag(d) Wᴴ e_{i0}` with phases `d`.
* list model: `dot` of the vector returned by `runEvo`.
-/
namespace TenpyModel.C16.P2

open scoped Matrix

section abstract
variable {𝕜 : Type*} [RCLike 𝕜] {m : ℕ}

theorem evo_normsq_eq_dotProduct (z : Fin m → 𝕜) :
    ((∑ i, ‖z i‖ ^ 2 : ℝ) : 𝕜) = star z ⬝ᵥ z := by
  rw [RCLike.ofReal_sum]
  unfold dotProduct
  refine Finset.sum_congr rfl fun i _ => ?_
  rw [Pi.star_apply, RCLike.star_def, RCLike.conj_mul]
  norm_cast

/-- a unitary matrix preserves the Euclidean norm of coefficient vectors -/
theorem evo_unitary_mulVec_normsq (U : Matrix (Fin m) (Fin m) 𝕜) (hU : U ∈ Matrix.unitaryGroup (Fin m) 𝕜)
    (x : Fin m → 𝕜) : ∑ i, ‖(U *ᵥ x) i‖ ^ 2 = ∑ i, ‖x i‖ ^ 2 := by
  have h : ((∑ i, ‖(U *ᵥ x) i‖ ^ 2 : ℝ) : 𝕜) = ((∑ i, ‖x i‖ ^ 2 : ℝ) : 𝕜) := by
    rw [evo_normsq_eq_dotProduct, evo_normsq_eq_dotProduct, Matrix.star_mulVec, Matrix.dotProduct_mulVec,
      Matrix.vecMul_vecMul, ← Matrix.star_eq_conjTranspose, Matrix.mem_unitaryGroup_iff'.1 hU, Matrix.vecMul_one]
  exact_mod_cast h

theorem evo_single_normsq (i0 : Fin m) : ∑ i, ‖(Pi.single i0 (1 : 𝕜) : Fin m → 𝕜) i‖ ^ 2 = 1 := by
  rw [Finset.sum_eq_single i0]
  · simp
  · intro b _ hb; simp [Pi.single_eq_of_ne hb]
  · intro h; exact absurd (Finset.mem_univ _) h

/-- row `i0` of a unitary matrix, multiplied entrywise by phases, has unit norm -/
theorem evo_row_phase_normsq (W : Matrix (Fin m) (Fin m) 𝕜) (hW : W ∈ Matrix.unitaryGroup (Fin m) 𝕜)
    (d : Fin m → 𝕜) (hd : ∀ i, ‖d i‖ = 1) (i0 : Fin m) :
    ∑ i, ‖d i * star (W i0 i)‖ ^ 2 = 1 := by
  have h1 : (W * star W) i0 i0 = 1 := by rw [Matrix.mem_unitaryGroup_iff.1 hW]; simp
  have h2 : ((∑ i, ‖d i * star (W i0 i)‖ ^ 2 : ℝ) : 𝕜) = 1 := by
    rw [← h1, Matrix.mul_apply, RCLike.ofReal_sum]
    refine Finset.sum_congr rfl fun i _ => ?_
    rw [norm_mul, hd, one_mul, norm_star, Matrix.star_apply, RCLike.star_def, RCLike.mul_conj]
    norm_cast
  exact_mod_cast h2

theorem evo_star_of_re_zero (δ : 𝕜) (hδ : RCLike.re δ = 0) : star δ = -δ := by
  rw [RCLike.star_def, RCLike.ext_iff]
  simp [hδ]

/-- `δ T` is skew-Hermitian for Hermitian `T` and purely imaginary `δ` -/
theorem evo_smul_skew (T : Matrix (Fin m) (Fin m) 𝕜) (hT : T.IsHermitian) (δ : 𝕜) (hδ : RCLike.re δ = 0) :
    (δ • T)ᴴ = -(δ • T) := by
  rw [Matrix.conjTranspose_smul, hT.eq, evo_star_of_re_zero δ hδ, neg_smul]

/-- the matrix exponential of a skew-Hermitian matrix is unitary:
`(exp A)ᴴ = exp Aᴴ = exp (-A) = (exp A)⁻¹`. -/
theorem evo_exp_skew_mem_unitaryGroup (A : Matrix (Fin m) (Fin m) 𝕜) (hA : Aᴴ = -A) :
    NormedSpace.exp A ∈ Matrix.unitaryGroup (Fin m) 𝕜 := by
  rw [Matrix.mem_unitaryGroup_iff', Matrix.star_eq_conjTranspose, ← Matrix.exp_conjTranspose, hA, Matrix.exp_neg]
  exact Matrix.nonsing_inv_mul _ ((Matrix.isUnit_iff_isUnit_det _).1 (Matrix.isUnit_exp _))

/-- the phases `exp(δ·E)` of the code have modulus one for `Re δ = 0` and real `E` -/
theorem evo_phase_norm (δ : ℂ) (hδ : δ.re = 0) (e : ℝ) : ‖Complex.exp (δ * (e : ℂ))‖ = 1 := by
  rw [Complex.norm_exp]
  simp [hδ]

/-- the vector the code forms, `v_kr @ (exp(E_kr δ) * conj(v_kr[0, :]))`, is `W diag(d) Wᴴ e_{i0}` -/
theorem evo_eigh_eq_mulVec (W : Matrix (Fin m) (Fin m) 𝕜) (d : Fin m → 𝕜) (i0 : Fin m) :
    W *ᵥ (fun i => d i * star (W i0 i)) = (W * Matrix.diagonal d * star W) *ᵥ Pi.single i0 1 := by
  rw [← Matrix.mulVec_mulVec, ← Matrix.mulVec_mulVec]
  congr 1
  ext i
  simp [Matrix.mulVec_diagonal, Matrix.star_apply]

/-- `exp(δ · W diag(E) Wᴴ) = W diag(exp(δ E)) Wᴴ` for unitary `W` -/
theorem evo_exp_eigh (W : Matrix (Fin m) (Fin m) 𝕜) (hW : W ∈ Matrix.unitaryGroup (Fin m) 𝕜)
    (ev : Fin m → 𝕜) (δ : 𝕜) :
    NormedSpace.exp (δ • (W * Matrix.diagonal ev * star W))
      = W * Matrix.diagonal (fun i => NormedSpace.exp (δ * ev i)) * star W := by
  have hinv : W⁻¹ = star W := Matrix.inv_eq_left_inv (Matrix.mem_unitaryGroup_iff'.1 hW)
  have hu : IsUnit W := by
    rw [Matrix.isUnit_iff_isUnit_det]
    exact Matrix.isUnit_det_of_left_inverse (Matrix.mem_unitaryGroup_iff'.1 hW)
  have h1 : δ • (W * Matrix.diagonal ev * star W) = W * Matrix.diagonal (fun i => δ * ev i) * W⁻¹ := by
    rw [hinv, ← Matrix.smul_mul, ← Matrix.mul_smul, ← Matrix.diagonal_smul]
    rfl
  rw [h1, Matrix.exp_conj _ _ hu, Matrix.exp_diagonal, hinv, Pi.exp_def]

end abstract

/-! ### list model -/

open TenpyModel.C16

/-- the accumulated vector `psif` of `_calc_result_full` right before `npc.norm(psif)` -/
def evo_preNorm (A : Vec → Vec) (ar : Arith) (o : Opts) (N : Nat) (vf : List Rat) (p0 : Vec)
    (cache : List Vec) (alphas betas : List Rat) : Vec :=
  rebuild A ar o alphas betas vf (N - cache.length - 1) p0 (addCached vf N cache (scale (vf.getD 0 0) p0))

theorem evo_calcResultFull_eq (A : Vec → Vec) (ar : Arith) (o : Opts) (N : Nat) (vf : List Rat) (p0 : Vec)
    (cache : List Vec) (alphas betas : List Rat) :
    calcResultFull A ar o N vf p0 cache alphas betas
      = normalize ar (ar.sq (dot (evo_preNorm A ar o N vf p0 cache alphas betas)
          (evo_preNorm A ar o N vf p0 cache alphas betas))) (evo_preNorm A ar o N vf p0 cache alphas betas) := rfl

theorem evo_dot_normalize (ar : Arith) (hr : ∀ x, ar.rnd x = x) (q : Rat) (X : Vec) (hq : q * q = dot X X)
    (hq0 : q ≠ 0) : dot (normalize ar q X) (normalize ar q X) = 1 := by
  unfold normalize
  rw [map_rnd_id ar hr, dot_scale_left, dot_scale_right, ← hq]
  field_simp

theorem evo_dot_scale_scale (a : Rat) (X : Vec) : dot (scale a X) (scale a X) = a * a * dot X X := by
  rw [dot_scale_left, dot_scale_right]; ring

/-- the `N = 1` branch: a phase times the normalised start vector -/
theorem evo_dot_phase_psi0n (ar : Arith) (hr : ∀ x, ar.rnd x = x) (psi0 : Vec) (ph : Rat) (hph : ph ^ 2 = 1)
    (h0 : ar.sq (dot psi0 psi0) * ar.sq (dot psi0 psi0) = dot psi0 psi0) (h0' : ar.sq (dot psi0 psi0) ≠ 0) :
    dot (scale ph (psi0n ar psi0)) (scale ph (psi0n ar psi0)) = 1 := by
  rw [evo_dot_scale_scale]
  unfold psi0n
  rw [evo_dot_normalize ar hr _ _ h0 h0', ← pow_two, hph, one_mul]

/-- `result_full` of `LanczosEvolution.run` -/
def evo_full (A : Vec → Vec) (ar : Arith) (o : Opts) (N : Nat) (vf : List Rat) (psi0 : Vec) (s : BState) : Vec :=
  if N = 1 then scale (vf.getD 0 0) (psi0n ar psi0)
  else calcResultFull A ar o N vf (psi0n ar psi0) s.cache s.alphas s.betas

theorem evo_runEvo_eq (H : Op) (ar : Arith) (o : Opts) (eShift : Option Rat)
    (conv : Nat → List Rat → List Rat → Bool) (small : Nat → List Rat → List Rat → List Rat × Rat)
    (nrmlz : Bool) (psi0 : Vec) (N : Nat) (s : BState)
    (hb : build (withShift H eShift).apply ar o conv psi0 = some (N, s)) :
    runEvo H ar o eShift conv small nrmlz psi0 =
      some (if nrmlz then evo_full (withShift H eShift).apply ar o N (small N s.alphas s.betas).1 psi0 s
            else scale (ar.sq (dot psi0 psi0) * (small N s.alphas s.betas).2)
              (evo_full (withShift H eShift).apply ar o N (small N s.alphas s.betas).1 psi0 s), N) := by
  unfold runEvo
  simp only [hb]
  unfold evo_full
  cases nrmlz <;> simp

/-- `result_full` is normalised -/
theorem evo_full_normalized (A : Vec → Vec) (ar : Arith) (hr : ∀ x, ar.rnd x = x) (o : Opts) (N : Nat)
    (vf : List Rat) (psi0 : Vec) (s : BState)
    (h1 : N = 1 → ar.sq (dot psi0 psi0) * ar.sq (dot psi0 psi0) = dot psi0 psi0 ∧ ar.sq (dot psi0 psi0) ≠ 0 ∧
      (vf.getD 0 0) ^ 2 = 1)
    (h2 : N ≠ 1 →
      ar.sq (dot (evo_preNorm A ar o N vf (psi0n ar psi0) s.cache s.alphas s.betas)
          (evo_preNorm A ar o N vf (psi0n ar psi0) s.cache s.alphas s.betas))
        * ar.sq (dot (evo_preNorm A ar o N vf (psi0n ar psi0) s.cache s.alphas s.betas)
          (evo_preNorm A ar o N vf (psi0n ar psi0) s.cache s.alphas s.betas))
        = dot (evo_preNorm A ar o N vf (psi0n ar psi0) s.cache s.alphas s.betas)
          (evo_preNorm A ar o N vf (psi0n ar psi0) s.cache s.alphas s.betas) ∧
      ar.sq (dot (evo_preNorm A ar o N vf (psi0n ar psi0) s.cache s.alphas s.betas)
          (evo_preNorm A ar o N vf (psi0n ar psi0) s.cache s.alphas s.betas)) ≠ 0) :
    dot (evo_full A ar o N vf psi0 s) (evo_full A ar o N vf psi0 s) = 1 := by
  unfold evo_full
  by_cases hN : N = 1
  · rw [if_pos hN]
    obtain ⟨a, b, c⟩ := h1 hN
    exact evo_dot_phase_psi0n ar hr psi0 _ c a b
  · rw [if_neg hN, evo_calcResultFull_eq]
    obtain ⟨a, b⟩ := h2 hN
    exact evo_dot_normalize ar hr _ _ a b

end TenpyModel.C16.P2
