import TenpyModel.C16.P2_GmresBook
/-!
Correctness of `backsolve` on an upper-triangular system with non-zero diagonal (exact arithmetic), and the
least-squares identity for the model: with `y = backsolve cols g`,
`Σ_{i ≤ k} (β e₀ - H̄ y)_i² = g_k²`.
-/
namespace TenpyModel.C16.P2
open TenpyModel.C16

theorem foldl_sub_sum (C Y : ℕ → ℚ) (g0 : ℚ) (m : ℕ) :
    (List.range m).foldl (fun acc j => acc - C j * Y j) g0 = g0 - ∑ j ∈ Finset.range m, C j * Y j := by
  induction m with
  | zero => simp
  | succ m ih => rw [List.range_succ, List.foldl_append, ih, Finset.sum_range_succ]; simp; ring

/-- body of the outer loop of `backsolve` -/
def bsF (ar : Arith) (cols : List (List Rat)) (g : List Rat) (i : ℕ) (y : List Rat) : List Rat :=
  ar.rnd (((List.range (cols.length - 1 - i)).foldl
      (fun acc j => acc - ((cols.getD (i + 1 + j) []).getD i 0) * y.getD j 0) (g.getD i 0))
    / ((cols.getD i []).getD i 0)) :: y

theorem backsolve_eq (ar : Arith) (cols : List (List Rat)) (g : List Rat) :
    backsolve ar cols g = (List.range' 0 cols.length).foldr (bsF ar cols g) [] := by
  unfold backsolve
  show List.foldr (bsF ar cols g) [] (List.range cols.length) = _
  rw [List.range_eq_range']

/-- the rows `i … k-1` of the triangular system hold for the partial solution `y[i:]` -/
theorem bs_rows (ar : Arith) (hrnd : ∀ x, ar.rnd x = x) (cols : List (List Rat)) (g : List Rat)
    (hd : ∀ j < cols.length, seq (cols.getD j []) j ≠ 0) (d : ℕ) (hdk : d ≤ cols.length) :
    ((List.range' (cols.length - d) d).foldr (bsF ar cols g) []).length = d ∧
    ∀ r < d, ∑ j ∈ Finset.range (d - r),
        seq (cols.getD (cols.length - d + r + j) []) (cols.length - d + r)
          * seq ((List.range' (cols.length - d) d).foldr (bsF ar cols g) []) (r + j)
      = seq g (cols.length - d + r) := by
  induction d with
  | zero => exact ⟨rfl, fun r hr => absurd hr (Nat.not_lt_zero _)⟩
  | succ d ih =>
    obtain ⟨ihl, ihr⟩ := ih (by omega)
    have hi : cols.length - (d + 1) + 1 = cols.length - d := by omega
    rw [List.range'_succ, List.foldr_cons, hi]
    generalize hl : (List.range' (cols.length - d) d).foldr (bsF ar cols g) [] = l at ihl ihr ⊢
    generalize hii : cols.length - (d + 1) = i at *
    have hkd : cols.length - 1 - i = d := by omega
    refine ⟨by simp [bsF, ihl], ?_⟩
    intro r hr
    cases r with
    | zero =>
      have hdi := hd i (by omega)
      rw [Nat.sub_zero, Finset.sum_range_succ']
      simp only [Nat.add_zero, Nat.zero_add]
      unfold bsF
      rw [hrnd, hkd, foldl_sub_sum (fun j => (cols.getD (i + 1 + j) []).getD i 0) (fun j => l.getD j 0)]
      rw [seq_cons_zero]
      simp only [seq_cons_succ]
      have e : ∀ j, seq (cols.getD (i + (j + 1)) []) i * seq l j = (cols.getD (i + 1 + j) []).getD i 0 * l.getD j 0 := by
        intro j
        have : i + (j + 1) = i + 1 + j := by omega
        rw [this]; rfl
      simp only [e]
      have hdi' : (cols.getD i []).getD i 0 = seq (cols.getD i []) i := rfl
      have hgi : g.getD i 0 = seq g i := rfl
      rw [hdi', hgi]
      field_simp
      ring
    | succ r =>
      have h1 := ihr r (by omega)
      have e1 : d + 1 - (r + 1) = d - r := by omega
      rw [e1]
      have e2 : i + (r + 1) = cols.length - d + r := by omega
      rw [e2]
      rw [← h1]
      refine Finset.sum_congr rfl fun j _ => ?_
      have e3 : r + 1 + j = (r + j) + 1 := by omega
      rw [e3]
      unfold bsF
      rw [seq_cons_succ]

/-- **`backsolve` solves the triangular system** `Σ_j R[i][j] y[j] = g[i]`, `i < k` (columns `cols[j]`, upper
triangular, non-zero diagonal, exact division). -/
theorem backsolve_correct (ar : Arith) (hrnd : ∀ x, ar.rnd x = x) (cols : List (List Rat)) (g : List Rat)
    (hd : ∀ j < cols.length, seq (cols.getD j []) j ≠ 0)
    (htri : ∀ j < cols.length, ∀ i, j < i → seq (cols.getD j []) i = 0) :
    (backsolve ar cols g).length = cols.length ∧
    ∀ i < cols.length, ∑ j ∈ Finset.range cols.length, seq (backsolve ar cols g) j * seq (cols.getD j []) i = seq g i := by
  obtain ⟨h1, h2⟩ := bs_rows ar hrnd cols g hd cols.length le_rfl
  rw [Nat.sub_self] at h1 h2
  rw [backsolve_eq]
  refine ⟨h1, ?_⟩
  intro i hi
  have h3 := h2 i hi
  simp only [Nat.zero_add] at h3
  rw [← h3, ← Finset.sum_range_add_sum_Ico _ (Nat.le_of_lt hi)]
  have hz : ∑ j ∈ Finset.range i,
      seq ((List.range' 0 cols.length).foldr (bsF ar cols g) []) j * seq (cols.getD j []) i = 0 := by
    apply Finset.sum_eq_zero
    intro j hj
    rw [Finset.mem_range] at hj
    rw [htri j (by omega) i hj, mul_zero]
  rw [hz, zero_add, Finset.sum_Ico_eq_sum_range]
  refine Finset.sum_congr rfl fun j _ => ?_
  rw [mul_comm]

/-- **least-squares identity of the model's bookkeeping**: for the invariant state after `k` steps and
`y = backsolve cols g`, the coordinates `ρ = β e₀ - H̄ y` of the residual satisfy `Σ_{i ≤ k} ρ_i² = g_k²`. -/
theorem rot_residual (ar : Arith) (hrnd : ∀ x, ar.rnd x = x) (β : ℚ) (hs : List (List Rat)) (rots : List (Rat × Rat))
    (cols : List (List Rat)) (g : List Rat) (inv : RotInv β hs rots cols g) :
    sumsq (hs.length + 1)
      (fun r => seq [β] r - ∑ j ∈ Finset.range hs.length, seq (backsolve ar cols g) j * seq (hs.getD j []) r)
    = seq g hs.length * seq g hs.length := by
  obtain ⟨hr, hc, hg, hlen, hcs, gseq, cseq, ctri, cdiag⟩ := inv
  obtain ⟨_, hsol⟩ := backsolve_correct ar hrnd cols g (by rw [hc]; exact cdiag) (by rw [hc]; exact ctri)
  rw [hc] at hsol
  rw [← rotsFrom_sumsq 0 (hs.length + 1) rots hcs (by omega), rotsFrom_sub_sum, ← gseq]
  have e : (fun r => seq g r - ∑ j ∈ Finset.range hs.length,
        seq (backsolve ar cols g) j * rotsFrom 0 rots (seq (hs.getD j [])) r)
      = fun r => seq g r - ∑ j ∈ Finset.range hs.length, seq (backsolve ar cols g) j * seq (cols.getD j []) r := by
    funext r
    congr 1
    refine Finset.sum_congr rfl fun j hj => ?_
    rw [Finset.mem_range] at hj
    rw [cseq j hj]
  rw [e]
  unfold sumsq
  rw [Finset.sum_range_succ]
  have hz : ∑ x ∈ Finset.range hs.length,
      (seq g x - ∑ j ∈ Finset.range hs.length, seq (backsolve ar cols g) j * seq (cols.getD j []) x)
      * (seq g x - ∑ j ∈ Finset.range hs.length, seq (backsolve ar cols g) j * seq (cols.getD j []) x) = 0 := by
    apply Finset.sum_eq_zero
    intro i hi
    rw [Finset.mem_range] at hi
    rw [hsol i hi, sub_self, mul_zero]
  have hl : ∑ j ∈ Finset.range hs.length, seq (backsolve ar cols g) j * seq (cols.getD j []) hs.length = 0 := by
    apply Finset.sum_eq_zero
    intro j hj
    rw [Finset.mem_range] at hj
    rw [ctri j hj _ hj, mul_zero]
  beta_reduce
  rw [hz, hl, zero_add, sub_zero]

end TenpyModel.C16.P2
