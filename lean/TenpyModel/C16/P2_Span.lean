import TenpyModel.C16.LinAlgProofs
import Mathlib.LinearAlgebra.Span.Basic
import Mathlib.Algebra.Module.Pi
import Mathlib.Tactic.Positivity
import Mathlib.LinearAlgebra.Finsupp.LinearCombination
/-!
Helper lemmas for `C16_gram_schmidt_span`: list vectors as functions on `Fin n`, the span of a list of vectors
(Mathlib `Submodule.span`), and the trace of the `gram_schmidt` fold.
-/
namespace TenpyModel.C16.P2
open TenpyModel.C16

/-- a list vector read as a function on `Fin n` (entries beyond the end are 0) -/
def toFn (n : Nat) (x : Vec) : Fin n → ℚ := fun i => x.getD i 0

/-- the linear span (over `ℚ`) of the vectors of the list `L` -/
def spanL (n : Nat) (L : List Vec) : Submodule ℚ (Fin n → ℚ) := Submodule.span ℚ (toFn n '' {o | o ∈ L})

/-- `x` is a finite linear combination of the vectors of `L` -/
def InSpan (n : Nat) (L : List Vec) (x : Vec) : Prop := toFn n x ∈ spanL n L

theorem toFn_injOn (n : Nat) (x y : Vec) (hx : x.length = n) (hy : y.length = n) (h : toFn n x = toFn n y) : x = y := by
  apply List.ext_getElem (by rw [hx, hy])
  intro i h1 h2
  have := congrFun h ⟨i, by omega⟩
  simpa [toFn, List.getD_eq_getElem?_getD, h1, h2] using this

theorem toFn_axpy (n : Nat) (a : Rat) (x y : Vec) (h : x.length = y.length) :
    toFn n (axpy a x y) = toFn n y + a • toFn n x := by
  funext i
  simp only [toFn, axpy, List.getD_eq_getElem?_getD, List.getElem?_zipWith, Pi.add_apply, Pi.smul_apply, smul_eq_mul]
  by_cases hi : (i : Nat) < y.length
  · have hi' : (i : Nat) < x.length := by omega
    simp [hi, hi']
  · have hi' : ¬ (i : Nat) < x.length := by omega
    simp [hi, hi']

theorem toFn_scale (n : Nat) (a : Rat) (x : Vec) : toFn n (scale a x) = a • toFn n x := by
  funext i
  simp only [toFn, scale, List.getD_eq_getElem?_getD, List.getElem?_map, Pi.smul_apply, smul_eq_mul]
  by_cases hi : (i : Nat) < x.length <;> simp [hi]

/-- membership in the span, spelled out: an explicit finite linear combination `Σ_i c_i L[i]` -/
theorem inSpan_iff_coeffs (n : Nat) (L : List Vec) (x : Vec) :
    InSpan n L x ↔ ∃ c : Fin L.length → ℚ, toFn n x = ∑ i, c i • toFn n (L.get i) := by
  unfold InSpan spanL
  have : toFn n '' {o | o ∈ L} = Set.range (fun i : Fin L.length => toFn n (L.get i)) := by
    ext f
    constructor
    · rintro ⟨o, ho, rfl⟩
      obtain ⟨i, hi⟩ := List.mem_iff_get.1 ho
      exact ⟨i, by subst hi; rfl⟩
    · rintro ⟨i, rfl⟩
      exact ⟨L.get i, List.get_mem _ _, rfl⟩
  rw [this, Submodule.mem_span_range_iff_exists_fun]
  constructor
  · rintro ⟨c, hc⟩; exact ⟨c, hc.symm⟩
  · rintro ⟨c, hc⟩; exact ⟨c, hc.symm⟩

theorem spanL_mono (n : Nat) (L L' : List Vec) (h : ∀ o ∈ L, o ∈ L') : spanL n L ≤ spanL n L' := by
  apply Submodule.span_mono
  rintro _ ⟨o, ho, rfl⟩
  exact ⟨o, h o ho, rfl⟩

theorem mem_spanL (n : Nat) (L : List Vec) (o : Vec) (h : o ∈ L) : toFn n o ∈ spanL n L :=
  Submodule.subset_span ⟨o, h, rfl⟩

/-- what `for o in L: x -= <o|x> o` removes is a combination of the `o`'s -/
theorem toFn_projOut (n : Nat) (L : List Vec) (hL : ∀ o ∈ L, o.length = n) (x : Vec) (hx : x.length = n) :
    toFn n x - toFn n (projOut L x) ∈ spanL n L := by
  induction L generalizing x with
  | nil => simp [projOut]
  | cons o L ih =>
    have ho := hL o (List.mem_cons_self ..)
    rw [projOut_cons]
    have hx' : (axpy (-(dot o x)) o x).length = n := by rw [axpy_length _ _ _ (by rw [ho, hx]), hx]
    have h1 := ih (fun b hb => hL b (List.mem_cons_of_mem _ hb)) _ hx'
    have h1' := spanL_mono n L (o :: L) (fun b hb => List.mem_cons_of_mem _ hb) h1
    rw [toFn_axpy n _ _ _ (by rw [ho, hx])] at h1'
    have h2 : toFn n o ∈ spanL n (o :: L) := mem_spanL n _ o (List.mem_cons_self ..)
    have h3 := Submodule.add_mem _ h1' (Submodule.smul_mem _ (dot o x) h2)
    convert h3 using 1
    funext i
    simp only [Pi.sub_apply, Pi.add_apply, Pi.smul_apply, smul_eq_mul]
    ring

theorem dot_self_nonneg (x : Vec) : 0 ≤ dot x x := by
  induction x with
  | nil => simp [dot]
  | cons a x ih => rw [dot_cons]; nlinarith [mul_self_nonneg a]

theorem eq_zero_of_dot_self (n : Nat) (x : Vec) (h : dot x x = 0) : toFn n x = 0 := by
  induction x generalizing n with
  | nil => funext i; simp [toFn]
  | cons a x ih =>
    rw [dot_cons] at h
    have h1 := dot_self_nonneg x
    have h2 := mul_self_nonneg a
    have ha : a = 0 := by
      have : a * a = 0 := by linarith
      exact mul_self_eq_zero.1 this
    have hx : dot x x = 0 := by rw [ha] at h; linarith
    funext i
    rcases i with ⟨i, hi⟩
    cases i with
    | zero => simp [toFn, ha]
    | succ i =>
      cases n with
      | zero => omega
      | succ n =>
        have := congrFun (ih n hx) ⟨i, by omega⟩
        simpa [toFn] using this

/-! ### the trace of the fold -/

theorem gs_prefix (ar : Arith) (rcond : Rat) (vecs res : List Vec) :
    res <+: vecs.foldl (gsStep ar rcond) res := by
  induction vecs generalizing res with
  | nil => exact List.prefix_refl _
  | cons vec vecs ih =>
    rw [List.foldl_cons]
    refine List.IsPrefix.trans ?_ (ih _)
    unfold gsStep
    simp only
    split
    · exact List.prefix_append _ _
    · exact List.prefix_refl _

/-- every input vector is treated against a prefix `pre` of the final output: with `r = vec - Σ <o|vec> o` (sequentially),
either `‖r‖ > rcond` and `r/‖r‖` is the next output, or `‖r‖ ≤ rcond` and the vector is dropped; the root taken at
that step is one of those `GSExact` speaks about. -/
theorem gs_trace (ar : Arith) (rcond : Rat) (vecs res : List Vec) (hex : GSExact ar rcond res vecs) :
    ∀ v ∈ vecs, ∃ pre, res <+: pre ∧
      ar.sq (dot (projOut pre v) (projOut pre v)) * ar.sq (dot (projOut pre v) (projOut pre v))
        = dot (projOut pre v) (projOut pre v) ∧
      ((rcond < ar.sq (dot (projOut pre v) (projOut pre v)) ∧
          pre ++ [normalize ar (ar.sq (dot (projOut pre v) (projOut pre v))) (projOut pre v)]
            <+: vecs.foldl (gsStep ar rcond) res) ∨
       (¬ rcond < ar.sq (dot (projOut pre v) (projOut pre v)) ∧ pre <+: vecs.foldl (gsStep ar rcond) res)) := by
  induction vecs generalizing res with
  | nil => intro v hv; cases hv
  | cons vec vecs ih =>
    obtain ⟨hsq, hex'⟩ := hex
    intro v hv
    rw [List.foldl_cons]
    rcases List.mem_cons.1 hv with rfl | hv
    · refine ⟨res, List.prefix_refl _, hsq, ?_⟩
      by_cases hgt : rcond < ar.sq (dot (projOut res v) (projOut res v))
      · left
        refine ⟨hgt, ?_⟩
        have : gsStep ar rcond res v
            = res ++ [normalize ar (ar.sq (dot (projOut res v) (projOut res v))) (projOut res v)] := by
          unfold gsStep; simp only [gt_iff_lt, hgt, if_true]
        rw [← this]
        exact gs_prefix _ _ _ _
      · right
        refine ⟨hgt, ?_⟩
        have : gsStep ar rcond res v = res := by
          unfold gsStep; simp only [gt_iff_lt, hgt, if_false]
        rw [this]
        exact gs_prefix _ _ _ _
    · obtain ⟨pre, hp, h1, h2⟩ := ih _ hex' v hv
      refine ⟨pre, List.IsPrefix.trans ?_ hp, h1, h2⟩
      unfold gsStep
      simp only
      split
      · exact List.prefix_append _ _
      · exact List.prefix_refl _

/-- all outputs have the common length -/
theorem gs_length (ar : Arith) (rcond : Rat) (n : Nat) (vecs res : List Vec) (hres : ∀ o ∈ res, o.length = n)
    (hv : ∀ v ∈ vecs, v.length = n) : ∀ o ∈ vecs.foldl (gsStep ar rcond) res, o.length = n := by
  induction vecs generalizing res with
  | nil => exact hres
  | cons vec vecs ih =>
    rw [List.foldl_cons]
    apply ih _ _ (fun v h => hv v (List.mem_cons_of_mem _ h))
    have hlen : (projOut res vec).length = n := projOut_length n res hres vec (hv vec (List.mem_cons_self ..))
    unfold gsStep
    simp only
    split
    · intro o ho
      rcases List.mem_append.1 ho with ho | ho
      · exact hres o ho
      · rw [List.mem_singleton] at ho
        subst ho
        simp [normalize, scale, hlen]
    · exact hres

/-- every output is a linear combination of what was there before and the inputs -/
theorem gs_out_in_span (ar : Arith) (hr : ∀ x, ar.rnd x = x) (rcond : Rat) (n : Nat) (vecs res : List Vec)
    (hres : ∀ o ∈ res, o.length = n) (hv : ∀ v ∈ vecs, v.length = n) :
    ∀ o ∈ vecs.foldl (gsStep ar rcond) res, toFn n o ∈ spanL n (res ++ vecs) := by
  induction vecs generalizing res with
  | nil => intro o ho; exact mem_spanL n _ o (by simpa using ho)
  | cons vec vecs ih =>
    rw [List.foldl_cons]
    have hvec := hv vec (List.mem_cons_self ..)
    have hlen : (projOut res vec).length = n := projOut_length n res hres vec hvec
    have hres' : ∀ o ∈ gsStep ar rcond res vec, o.length = n := by
      have := gs_length ar rcond n [vec] res hres (by simpa using hvec)
      simpa using this
    intro o ho
    have h1 := ih _ hres' (fun v h => hv v (List.mem_cons_of_mem _ h)) o ho
    -- the generators of the larger list are in the span of the smaller
    have hle : spanL n (gsStep ar rcond res vec ++ vecs) ≤ spanL n (res ++ vec :: vecs) := by
      apply Submodule.span_le.2
      rintro _ ⟨b, hb, rfl⟩
      rcases List.mem_append.1 hb with hb | hb
      · unfold gsStep at hb
        simp only at hb
        split at hb
        · rcases List.mem_append.1 hb with hb | hb
          · exact mem_spanL n _ b (List.mem_append_left _ hb)
          · rw [List.mem_singleton] at hb
            subst hb
            have hu : normalize ar (ar.sq (dot (projOut res vec) (projOut res vec))) (projOut res vec)
                = scale (1 / ar.sq (dot (projOut res vec) (projOut res vec))) (projOut res vec) := by
              unfold normalize; exact map_rnd_id ar hr _
            rw [hu, toFn_scale]
            apply Submodule.smul_mem
            have h2 := spanL_mono n res (res ++ vec :: vecs) (fun b hb => List.mem_append_left _ hb)
              (toFn_projOut n res hres vec hvec)
            have h3 : toFn n vec ∈ spanL n (res ++ vec :: vecs) :=
              mem_spanL n _ vec (List.mem_append_right _ (List.mem_cons_self ..))
            have := Submodule.sub_mem _ h3 h2
            simpa using this
        · exact mem_spanL n _ b (List.mem_append_left _ hb)
      · exact mem_spanL n _ b (List.mem_append_right _ (List.mem_cons_of_mem _ hb))
    exact hle h1

end TenpyModel.C16.P2
