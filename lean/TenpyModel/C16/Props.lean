import TenpyModel.C16.LanczosProofs
import TenpyModel.C16.LinAlgProofs
/-!
# C16 — property theorems on the executable list model (`TenpyModel/C16/Lanczos.lean`)

* `C16_rebuild_consistent`  the coded run (FIFO cache of `N_cache` vectors, `_calc_result_full` adding the cached
  vectors backwards and `_rebuild_krylov_for_result_full` regenerating the dropped ones) returns exactly
  `normalize (Σ_k vf[k] v_k)` over the basis `v_0 … v_{N-1}` of a run that keeps everything — for every operator,
  every `N_cache ≥ 1`, `reortho` on or off, every square-root / rounding instance `ar`, every convergence oracle
  and every small-eigenproblem oracle.
* `C16_cache_independent`   without `reortho`, energy, vector, number of steps and all `alpha/beta` are the same
  for any two cache sizes `≥ 2`.
* `C16_shift_removed`, `C16_shift_inside_projection`, `C16_*_matvec`  the wrappers and the `E_shift` bookkeeping.
* `C16_gram_schmidt`        exact square roots, no rounding ⇒ the output of `gram_schmidt` is orthonormal.
-/
open TenpyModel.C16

namespace TenpyModel.C16

/-- The specification run: keep the whole basis, form `Σ vf[i] v_i` in index order. -/
def runRef (H : Op) (ar : Arith) (o : Opts) (eShift : Option Rat)
    (conv : Nat → List Rat → List Rat → Bool) (eig : Nat → List Rat → List Rat → Rat × List Rat)
    (psi0 : Vec) : Option GSResult :=
  let A := (withShift H eShift).apply
  if (refInit ar psi0).beta < o.cutoff then none else
  let R := refState A ar o.reortho o.nCache psi0
  let N := refLoop R o conv o.nMax 0
  let Ee := eig N (R N).alphas (R N).betas
  let E0 := match eShift with | some sh => Ee.1 - sh | none => Ee.1
  let X := (List.range' 1 (N - 1)).foldl (acc A ar o.reortho o.nCache psi0 Ee.2)
             (scale (Ee.2.getD 0 0) (vAt A ar o.reortho o.nCache psi0 0))
  let psi := if N = 1 then vAt A ar o.reortho o.nCache psi0 0 else normalize ar (ar.sq (dot X X)) X
  some ⟨E0, psi, N, (R N).alphas, (R N).betas⟩

end TenpyModel.C16

/-- **The rebuild path is sound**: for every cache size the coded run equals the run that keeps the full basis. -/
theorem C16_rebuild_consistent (H : Op) (ar : Arith) (o : Opts) (hnc : 1 ≤ o.nCache) (hmax : 1 ≤ o.nMax)
    (eShift : Option Rat) (conv : Nat → List Rat → List Rat → Bool)
    (eig : Nat → List Rat → List Rat → Rat × List Rat) (psi0 : Vec) :
    runGS H ar o eShift conv eig psi0 = runRef H ar o eShift conv eig psi0 := by
  unfold runGS runRef build
  by_cases hb : (initState ar psi0).beta < o.cutoff
  · have hb' : (refInit ar psi0).beta < o.cutoff := hb
    simp only [hb, hb', if_true]
  · have hb' : ¬ (refInit ar psi0).beta < o.cutoff := hb
    simp only [hb, hb', if_false]
    obtain ⟨hN, hsim⟩ := sim_loop (withShift H eShift).apply ar o hnc conv psi0 o.nMax 0 (initState ar psi0)
      (sim_init _ _ _)
    have hNpos : 1 ≤ refLoop (refState (withShift H eShift).apply ar o.reortho o.nCache psi0) o conv o.nMax 0 :=
      (refLoop_bounds _ o conv o.nMax 0).2.2 hmax
    generalize buildLoop (withShift H eShift).apply ar o conv o.nMax 0 (initState ar psi0) = res at hN hsim ⊢
    obtain ⟨N, s⟩ := res
    simp only at hN hsim ⊢
    subst hN
    obtain ⟨hc, _, _, ha, hbs⟩ := hsim
    rw [hc, ha, hbs, ref_vs, ref_alphas, ref_betas]
    split
    · rfl
    · have := calcResultFull_eq (withShift H eShift).apply ar o hnc psi0 _ hNpos
        (eig (refLoop (refState (withShift H eShift).apply ar o.reortho o.nCache psi0) o conv o.nMax 0)
          ((List.range (refLoop (refState (withShift H eShift).apply ar o.reortho o.nCache psi0) o conv o.nMax 0)).map
            (aAt (withShift H eShift).apply ar o.reortho o.nCache psi0))
          ((List.range (refLoop (refState (withShift H eShift).apply ar o.reortho o.nCache psi0) o conv o.nMax 0)).map
            (bAt (withShift H eShift).apply ar o.reortho o.nCache psi0))).2
      simp only at this
      rw [← this]
      rfl

namespace TenpyModel.C16

theorem refLoop_congr (R : Nat → Ref) (o o' : Opts) (h1 : o.cutoff = o'.cutoff) (h2 : o.nMin = o'.nMin)
    (conv : Nat → List Rat → List Rat → Bool) (fuel k : Nat) : refLoop R o conv fuel k = refLoop R o' conv fuel k := by
  induction fuel generalizing k with
  | zero => rfl
  | succ fuel ih => simp only [refLoop, h1, h2, ih]

theorem refState_false_indep_fun (A : Vec → Vec) (ar : Arith) (nc nc' : Nat) (h : 2 ≤ nc) (h' : 2 ≤ nc') (psi0 : Vec) :
    refState A ar false nc psi0 = refState A ar false nc' psi0 :=
  funext fun k => refState_false_indep A ar nc nc' h h' psi0 k

theorem vAt_false_indep (A : Vec → Vec) (ar : Arith) (nc nc' : Nat) (h : 2 ≤ nc) (h' : 2 ≤ nc') (psi0 : Vec) :
    vAt A ar false nc psi0 = vAt A ar false nc' psi0 := by
  funext j; simp only [vAt, refState_false_indep A ar nc nc' h h' psi0 j]

theorem acc_false_indep (A : Vec → Vec) (ar : Arith) (nc nc' : Nat) (h : 2 ≤ nc) (h' : 2 ≤ nc') (psi0 : Vec)
    (vf : List Rat) : acc A ar false nc psi0 vf = acc A ar false nc' psi0 vf := by
  funext p i; simp only [acc, vAt_false_indep A ar nc nc' h h' psi0]

end TenpyModel.C16

/-- **The result does not depend on how many basis vectors are kept in memory** (`reortho = False`): energy,
vector, number of steps and all `alpha/beta` coincide for any two cache sizes `≥ 2` — for every operator (not
even symmetry is needed), start vector, option set, `E_shift`, convergence oracle and small-eigenproblem
oracle, and for exact as well as rounded arithmetic (`ar` arbitrary). -/
theorem C16_cache_independent (H : Op) (ar : Arith) (o : Opts) (hre : o.reortho = false) (nc' : Nat)
    (h : 2 ≤ o.nCache) (h' : 2 ≤ nc') (hmax : 1 ≤ o.nMax)
    (eShift : Option Rat) (conv : Nat → List Rat → List Rat → Bool)
    (eig : Nat → List Rat → List Rat → Rat × List Rat) (psi0 : Vec) :
    runGS H ar { o with nCache := nc' } eShift conv eig psi0 = runGS H ar o eShift conv eig psi0 := by
  rw [C16_rebuild_consistent H ar o (by omega) hmax, C16_rebuild_consistent H ar _ (by simp; omega) (by simpa using hmax)]
  simp only [runRef, hre]
  rw [refState_false_indep_fun _ ar nc' o.nCache h' h psi0, vAt_false_indep _ ar nc' o.nCache h' h psi0]
  simp only [acc_false_indep _ ar nc' o.nCache h' h psi0]
  rw [refLoop_congr _ (⟨o.nMin, o.nMax, nc', false, o.cutoff⟩ : Opts) o rfl rfl]

/-- non-vacuity / concrete run: the path graph on 3 sites from `e_0` with exact arithmetic, `N_cache = 2` (third
vector rebuilt) and `N_cache = 3` give the same normalised vector `(1/3, 2/3, 2/3)`·… — evaluated by the kernel. -/
example :
    let ar : Arith := { sq := fun x => if x = 1 then 1 else if x = 2 then 99 / 70 else x, rnd := id }
    let H : Op := .mat [[0, 1, 0], [1, 0, 1], [0, 1, 0]]
    let eig : Nat → List Rat → List Rat → Rat × List Rat := fun _ _ _ => (-1, [1, -1, 1])
    (runGS H ar ⟨2, 3, 2, false, 0⟩ none (fun _ _ _ => false) eig [1, 0, 0]).map (·.psi)
      = (runGS H ar ⟨2, 3, 3, false, 0⟩ none (fun _ _ _ => false) eig [1, 0, 0]).map (·.psi)
    ∧ ((runGS H ar ⟨2, 3, 2, false, 0⟩ none (fun _ _ _ => false) eig [1, 0, 0]).map (·.N)) = some 3 := by
  decide +kernel


/-! ### operator wrappers and `E_shift` bookkeeping -/

/-- `ShiftNpcLinearOperator.matvec`: `H v + s v` -/
theorem C16_shift_matvec (A : Op) (s : Rat) (v : Vec) : (Op.shift A s).apply v = axpy s v (A.apply v) := rfl

/-- `SumNpcLinearOperator.matvec` -/
theorem C16_sum_matvec (A B : Op) (v : Vec) : (Op.sum A B).apply v = vadd (A.apply v) (B.apply v) := rfl

/-- `OrthogonalNpcLinearOperator.matvec`: project out, apply, project out in reverse order -/
theorem C16_ortho_matvec (A : Op) (os : List Vec) (v : Vec) :
    (Op.ortho A os).apply v = projOut os.reverse (A.apply (projOut os v)) := rfl

/-- `KrylovBased.__init__`: with an `OrthogonalNpcLinearOperator` the shift goes *inside* the projection, so the
projected-out vectors stay at eigenvalue 0 whatever the shift: the operator used is `P (H + s) P`. -/
theorem C16_shift_inside_projection (A : Op) (os : List Vec) (s : Rat) (v : Vec) :
    (withShift (.ortho A os) (some s)).apply v
      = projOut os.reverse (axpy s (projOut os v) (A.apply (projOut os v))) := rfl

theorem TenpyModel.C16.axpy_shift_cancel (a s : Rat) (v w : Vec) :
    axpy (-(a + s)) v (axpy s v w) = axpy (-a) v w := by
  induction w generalizing v with
  | nil => simp [axpy]
  | cons w0 w ih =>
    cases v with
    | nil => simp [axpy]
    | cons v0 v =>
      have := ih v
      simp only [axpy, List.zipWith_cons_cons] at this ⊢
      rw [this]
      congr 1
      ring

/-- one Lanczos step of the shifted operator on a unit vector: `alpha` is shifted by `s`, the new direction
`H v - alpha v` is unchanged (hence all later vectors and all `beta` are those of the unshifted run). -/
theorem C16_shift_step (A : Vec → Vec) (s : Rat) (v : Vec) (hlen : v.length = (A v).length) (hv : dot v v = 1) :
    dot (axpy s v (A v)) v = dot (A v) v + s ∧
    axpy (-(dot (A v) v + s)) v (axpy s v (A v)) = axpy (-(dot (A v) v)) v (A v) := by
  constructor
  · rw [dot_axpy_left _ _ _ _ hlen, hv, mul_one]
  · exact axpy_shift_cancel _ _ _ _

/-- **`gram_schmidt` returns an orthonormal list** when the square roots are exact and nothing is rounded
(`rcond ≥ 0`; vectors whose remaining norm is `≤ rcond` are dropped, as coded). -/
theorem C16_gram_schmidt_orthonormal (ar : Arith) (hr : ∀ x, ar.rnd x = x) (rcond : Rat) (hrc : 0 ≤ rcond) (n : Nat)
    (vecs : List Vec) (hv : ∀ v ∈ vecs, v.length = n) (hex : GSExact ar rcond [] vecs) :
    ON n (gramSchmidt ar rcond vecs) :=
  gs_orthonormal ar hr rcond hrc n vecs [] ⟨fun _ h => (nomatch h), List.Pairwise.nil⟩ hv hex

/-- non-vacuity: `[(3,4), (1,0)]` with the exact roots `√25 = 5`, `√(16/25) = 4/5` meets the hypotheses, and the
model returns the orthonormal pair `(3/5, 4/5), (4/5, -3/5)`. -/
example :
    let ar : Arith := { sq := fun x => if x = 25 then 5 else if x = 16 / 25 then 4 / 5 else 0, rnd := id }
    GSExact ar 0 [] [[3, 4], [1, 0]] ∧ gramSchmidt ar 0 [[3, 4], [1, 0]] = [[3 / 5, 4 / 5], [4 / 5, -3 / 5]] := by
  refine ⟨⟨by decide +kernel, by decide +kernel, trivial⟩, by decide +kernel⟩

/- Not proved (kept as a statement): the span of the output equals the span of the input vectors that were not
   dropped, and every dropped vector is within `rcond` of that span.  The harness checks it numerically
   (`gram_schmidt.span-changed`, `gram_schmidt.wrong-number-of-vectors`). -/

/-- **GMRES, Givens step** (`givens_rotation` / `apply_givens_rotation` on real data, exact square root `t`): the
rotation is orthogonal, maps `(v1, v2)` to `(t, 0)` and preserves the Euclidean norm of every pair it is applied to —
which is why `|e1[k+1]|` is the residual norm of the least-squares iterate. -/
theorem C16_gmres_givens (v1 v2 t a b : Rat) (ht : t * t = v1 * v1 + v2 * v2) (h0 : t ≠ 0) :
    (v1 / t) * (v1 / t) + (v2 / t) * (v2 / t) = 1 ∧
    (v1 / t) * v1 + (v2 / t) * v2 = t ∧
    -(v2 / t) * v1 + (v1 / t) * v2 = 0 ∧
    ((v1 / t) * a + (v2 / t) * b) ^ 2 + (-(v2 / t) * a + (v1 / t) * b) ^ 2 = a ^ 2 + b ^ 2 := by
  have h1 : (v1 / t) * (v1 / t) + (v2 / t) * (v2 / t) = 1 := by
    field_simp; linarith
  refine ⟨h1, ?_, ?_, ?_⟩
  · field_simp; linarith
  · field_simp; ring
  · have : ((v1 / t) * a + (v2 / t) * b) ^ 2 + (-(v2 / t) * a + (v1 / t) * b) ^ 2
        = ((v1 / t) * (v1 / t) + (v2 / t) * (v2 / t)) * (a ^ 2 + b ^ 2) := by ring
    rw [this, h1, one_mul]

example : (5 : Rat) * 5 = 3 * 3 + 4 * 4 ∧ (5 : Rat) ≠ 0 := by decide +kernel
