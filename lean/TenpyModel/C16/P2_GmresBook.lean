import TenpyModel.C16.P2_GmresSeq
import Mathlib.Tactic.FieldSimp
/-!
The Givens-rotation bookkeeping of the GMRES model (`applyRots`, `newRot`, the update of `g = e1`, `backsolve`):
invariant of the rotated columns, correctness of the back-substitution, and the least-squares identity
`Σ_{i ≤ k} (β e₀ - H̄ y)_i² = g_k²` for the `y` returned by `backsolve` (helper lemmas for `C16_gmres_residual`).
-/
namespace TenpyModel.C16.P2
open TenpyModel.C16

/-- the raw (un-rotated) Hessenberg column computed by `GMRES.arnoldi` in state `s` -/
def rawCol (A : Vec → Vec) (ar : Arith) (s : GState) : List Rat :=
  (mgs s.qs (A (s.qs.getLastD []))).1
    ++ [ar.sq (dot (mgs s.qs (A (s.qs.getLastD []))).2 (mgs s.qs (A (s.qs.getLastD []))).2)]

/-- the new basis vector appended by `GMRES.arnoldi` in state `s` -/
def newQ (A : Vec → Vec) (ar : Arith) (s : GState) : Vec :=
  if ar.sq (dot (mgs s.qs (A (s.qs.getLastD []))).2 (mgs s.qs (A (s.qs.getLastD []))).2) > 0
  then normalize ar (ar.sq (dot (mgs s.qs (A (s.qs.getLastD []))).2 (mgs s.qs (A (s.qs.getLastD []))).2))
    (mgs s.qs (A (s.qs.getLastD []))).2
  else (mgs s.qs (A (s.qs.getLastD []))).2

theorem gmresStep_qs (A : Vec → Vec) (ar : Arith) (s : GState) :
    (gmresStep A ar s).qs = s.qs ++ [newQ A ar s] := rfl

theorem gmresStep_rots (A : Vec → Vec) (ar : Arith) (s : GState) :
    (gmresStep A ar s).rots = s.rots ++ [(newRot ar (applyRots s.rots (rawCol A ar s))).2] := rfl

theorem gmresStep_cols (A : Vec → Vec) (ar : Arith) (s : GState) :
    (gmresStep A ar s).cols = s.cols ++ [(newRot ar (applyRots s.rots (rawCol A ar s))).1] := rfl

theorem gmresStep_g (A : Vec → Vec) (ar : Arith) (s : GState) :
    (gmresStep A ar s).g = s.g.take s.cols.length ++
      [(newRot ar (applyRots s.rots (rawCol A ar s))).2.1 * s.g.getD s.cols.length 0,
       -(newRot ar (applyRots s.rots (rawCol A ar s))).2.2 * s.g.getD s.cols.length 0] := rfl

theorem gmresStep_errs (A : Vec → Vec) (ar : Arith) (s : GState) :
    (gmresStep A ar s).errs = s.errs ++
      [rabs (-(newRot ar (applyRots s.rots (rawCol A ar s))).2.2 * s.g.getD s.cols.length 0)] := rfl

/-- `l[:k] ++ [x, y]` as a sequence -/
theorem seq_take_append_pair (l : List Rat) (k : ℕ) (hk : k ≤ l.length) (x y : Rat) :
    seq (l.take k ++ [x, y]) = fun j => if j < k then seq l j else if j = k then x else if j = k + 1 then y else 0 := by
  funext j
  rw [seq_append]
  have hl : (l.take k).length = k := by rw [List.length_take]; omega
  rw [hl]
  split
  · rename_i h
    simp only [seq, List.getD_eq_getElem?_getD, List.getElem?_take, h, if_true]
  · rename_i h
    by_cases h2 : j = k
    · subst h2; simp [seq]
    · by_cases h3 : j = k + 1
      · subst h3; simp [seq]
      · simp only [h2, h3, if_false]
        obtain ⟨d, hd⟩ : ∃ d, j - k = d + 2 := ⟨j - k - 2, by omega⟩
        rw [hd]; simp [seq]

/-- Invariant of the rotation bookkeeping after `k = hs.length` steps; `hs` = the raw Hessenberg columns (ghost),
`β` = norm of the initial residual. -/
structure RotInv (β : ℚ) (hs : List (List Rat)) (rots : List (Rat × Rat)) (cols : List (List Rat)) (g : List Rat) :
    Prop where
  hr : rots.length = hs.length
  hc : cols.length = hs.length
  hg : g.length = hs.length + 1
  hlen : ∀ j < hs.length, (hs.getD j []).length = j + 2
  hcs : ∀ cs ∈ rots, cs.1 * cs.1 + cs.2 * cs.2 = 1
  gseq : seq g = rotsFrom 0 rots (seq [β])
  cseq : ∀ j < hs.length, seq (cols.getD j []) = rotsFrom 0 rots (seq (hs.getD j []))
  ctri : ∀ j < hs.length, ∀ i, j < i → seq (cols.getD j []) i = 0
  cdiag : ∀ j < hs.length, seq (cols.getD j []) j ≠ 0

theorem rotInv_init (β : ℚ) : RotInv β [] [] [] [β] where
  hr := rfl
  hc := rfl
  hg := rfl
  hlen := fun j hj => by simp at hj
  hcs := fun cs h => by cases h
  gseq := rfl
  cseq := fun j hj => by simp at hj
  ctri := fun j hj => by simp at hj
  cdiag := fun j hj => by simp at hj

theorem getD_append_lt {α : Type} (l : List α) (x d : α) (j : ℕ) (h : j < l.length) : (l ++ [x]).getD j d = l.getD j d := by
  simp [List.getD_eq_getElem?_getD, List.getElem?_append_left h]

theorem getD_append_eq {α : Type} (l : List α) (x d : α) : (l ++ [x]).getD l.length d = x := by
  simp [List.getD_eq_getElem?_getD]

/-- exactness of the Givens root taken for the rotated column `col` (`k = col.length - 2`) -/
def GivensExact (ar : Arith) (col : List Rat) : Prop :=
  ar.sq (col.getD (col.length - 2) 0 * col.getD (col.length - 2) 0
      + col.getD (col.length - 2 + 1) 0 * col.getD (col.length - 2 + 1) 0)
    * ar.sq (col.getD (col.length - 2) 0 * col.getD (col.length - 2) 0
      + col.getD (col.length - 2 + 1) 0 * col.getD (col.length - 2 + 1) 0)
    = col.getD (col.length - 2) 0 * col.getD (col.length - 2) 0
      + col.getD (col.length - 2 + 1) 0 * col.getD (col.length - 2 + 1) 0
  ∧ ar.sq (col.getD (col.length - 2) 0 * col.getD (col.length - 2) 0
      + col.getD (col.length - 2 + 1) 0 * col.getD (col.length - 2 + 1) 0) ≠ 0

theorem givens_facts (v1 v2 t : ℚ) (ht : t * t = v1 * v1 + v2 * v2) (h0 : t ≠ 0) :
    (v1 / t) * (v1 / t) + (v2 / t) * (v2 / t) = 1 ∧ (v1 / t) * v1 + (v2 / t) * v2 = t ∧
    -(v2 / t) * v1 + (v1 / t) * v2 = 0 := by
  refine ⟨?_, ?_, ?_⟩
  · field_simp; linarith
  · field_simp; linarith
  · field_simp; ring

/-- one step of the bookkeeping keeps the invariant -/
theorem rotInv_step (ar : Arith) (hrnd : ∀ x, ar.rnd x = x) (β : ℚ) (hs : List (List Rat)) (rots : List (Rat × Rat))
    (cols : List (List Rat)) (g : List Rat) (inv : RotInv β hs rots cols g) (h : List Rat)
    (hh : h.length = hs.length + 2) (hex : GivensExact ar (applyRots rots h)) :
    RotInv β (hs ++ [h]) (rots ++ [(newRot ar (applyRots rots h)).2])
      (cols ++ [(newRot ar (applyRots rots h)).1])
      (g.take cols.length ++ [(newRot ar (applyRots rots h)).2.1 * g.getD cols.length 0,
        -(newRot ar (applyRots rots h)).2.2 * g.getD cols.length 0]) := by
  obtain ⟨hr, hc, hg, hlen, hcs, gseq, cseq, ctri, cdiag⟩ := inv
  have hcl : (applyRots rots h).length = hs.length + 2 := by rw [applyRots_length, hh]
  have hk : (applyRots rots h).length - 2 = hs.length := by omega
  obtain ⟨hsq, hne⟩ := hex
  rw [hk] at hsq hne
  -- abbreviations
  generalize hcol : applyRots rots h = col at *
  have hv1 : col.getD hs.length 0 = seq col hs.length := rfl
  have hv2 : col.getD (hs.length + 1) 0 = seq col (hs.length + 1) := rfl
  generalize hv1' : col.getD hs.length 0 = v1 at *
  generalize hv2' : col.getD (hs.length + 1) 0 = v2 at *
  generalize ht' : ar.sq (v1 * v1 + v2 * v2) = t at *
  obtain ⟨f1, f2, f3⟩ := givens_facts v1 v2 t hsq hne
  have hnr : newRot ar col = (col.take hs.length ++ [v1 / t * v1 + v2 / t * v2, 0], (v1 / t, v2 / t)) := by
    unfold newRot
    simp only [hk, hv1', hv2', ht', hrnd]
  rw [hnr]
  simp only
  have hseqcol : seq col = rotsFrom 0 rots (seq h) := by
    rw [← hcol]; exact applyRots_seq rots h (by omega)
  have hcolhi : ∀ j, hs.length + 2 ≤ j → seq col j = 0 := fun j hj => seq_of_le col j (by omega)
  -- the new rotated column, as a sequence
  have hnewcol : seq (col.take hs.length ++ [v1 / t * v1 + v2 / t * v2, 0]) = rot (v1 / t) (v2 / t) hs.length (seq col) := by
    rw [seq_take_append_pair col hs.length (by omega)]
    funext j
    simp only [rot]
    by_cases h1 : j < hs.length
    · have h2 : j ≠ hs.length := by omega
      have h3 : j ≠ hs.length + 1 := by omega
      simp [h1, h2, h3]
    · by_cases h2 : j = hs.length
      · subst h2; simp [← hv1, ← hv2]
      · by_cases h3 : j = hs.length + 1
        · subst h3
          simp only [h1, h2, if_false, if_true, ← hv1, ← hv2]
          exact f3.symm
        · simp only [h1, h2, h3, if_false]
          exact (hcolhi j (by omega)).symm
  have hgk : g.getD cols.length 0 = seq g hs.length := by rw [hc]; rfl
  have hnewg : seq (g.take cols.length ++ [v1 / t * g.getD cols.length 0, -(v2 / t) * g.getD cols.length 0])
      = rot (v1 / t) (v2 / t) hs.length (seq g) := by
    rw [hc, seq_take_append_pair g hs.length (by omega)]
    have hg1 : seq g (hs.length + 1) = 0 := seq_of_le g _ (by omega)
    funext j
    simp only [rot, hg1]
    by_cases h1 : j < hs.length
    · have h2 : j ≠ hs.length := by omega
      have h3 : j ≠ hs.length + 1 := by omega
      simp [h1, h2, h3]
    · by_cases h2 : j = hs.length
      · subst h2; simp [seq]
      · by_cases h3 : j = hs.length + 1
        · subst h3; simp [seq]
        · simp only [h1, h2, h3, if_false]
          exact (seq_of_le g j (by omega)).symm
  have hrotapp : ∀ f, rotsFrom 0 (rots ++ [(v1 / t, v2 / t)]) f = rot (v1 / t) (v2 / t) hs.length (rotsFrom 0 rots f) := by
    intro f
    rw [rotsFrom_append, hr]
    simp [rotsFrom]
  refine ⟨by simp [hr], by simp [hc], by simp [hc, hg], ?_, ?_, ?_, ?_, ?_, ?_⟩
  · intro j hj
    simp only [List.length_append, List.length_singleton] at hj
    by_cases h1 : j < hs.length
    · rw [getD_append_lt _ _ _ _ h1]; exact hlen j h1
    · have : j = hs.length := by omega
      subst this
      rw [getD_append_eq]; exact hh
  · intro cs hmem
    rcases List.mem_append.1 hmem with hmem | hmem
    · exact hcs cs hmem
    · rw [List.mem_singleton] at hmem; subst hmem; exact f1
  · rw [hnewg, hrotapp, gseq]
  · intro j hj
    simp only [List.length_append, List.length_singleton] at hj
    rw [hrotapp]
    by_cases h1 : j < hs.length
    · rw [getD_append_lt _ _ _ _ (by omega), getD_append_lt _ _ _ _ h1, ← cseq j h1]
      rw [rot_of_zero _ _ _ _ (ctri j h1 _ h1) (ctri j h1 _ (by omega))]
    · have : j = hs.length := by omega
      subst this
      rw [getD_append_eq]
      have : (cols ++ [col.take hs.length ++ [v1 / t * v1 + v2 / t * v2, 0]]).getD hs.length []
          = col.take hs.length ++ [v1 / t * v1 + v2 / t * v2, 0] := by
        rw [← hc]; exact getD_append_eq _ _ _
      rw [this, hnewcol, hseqcol]
  · intro j hj i hji
    simp only [List.length_append, List.length_singleton] at hj
    by_cases h1 : j < hs.length
    · rw [getD_append_lt _ _ _ _ (by omega)]; exact ctri j h1 i hji
    · have : j = hs.length := by omega
      subst this
      have : (cols ++ [col.take hs.length ++ [v1 / t * v1 + v2 / t * v2, 0]]).getD hs.length []
          = col.take hs.length ++ [v1 / t * v1 + v2 / t * v2, 0] := by
        rw [← hc]; exact getD_append_eq _ _ _
      rw [this, seq_take_append_pair col hs.length (by omega)]
      have h2 : ¬ i < hs.length := by omega
      have h3 : i ≠ hs.length := by omega
      simp only [h2, h3, if_false]
      split <;> rfl
  · intro j hj
    simp only [List.length_append, List.length_singleton] at hj
    by_cases h1 : j < hs.length
    · rw [getD_append_lt _ _ _ _ (by omega)]; exact cdiag j h1
    · have : j = hs.length := by omega
      subst this
      have : (cols ++ [col.take hs.length ++ [v1 / t * v1 + v2 / t * v2, 0]]).getD hs.length []
          = col.take hs.length ++ [v1 / t * v1 + v2 / t * v2, 0] := by
        rw [← hc]; exact getD_append_eq _ _ _
      rw [this, seq_take_append_pair col hs.length (by omega)]
      simp only [lt_irrefl, if_false, if_true]
      rw [f2]; exact hne

end TenpyModel.C16.P2
