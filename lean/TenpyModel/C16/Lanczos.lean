/-
Executable exact-arithmetic model of `tenpy/linalg/krylov_based.py` (import-free).

Vectors are `List Rat`, an operator is any function `Vec → Vec` (`H.matvec`).  The only operation of
the source that leaves the rationals is `npc.norm` (a square root); it is a PARAMETER `ar.sq`
(`norm w = ar.sq (dot w w)`).  The second parameter `ar.rnd` is applied to every entry of a vector
right after `iscale_prefactor(w, 1/norm)`: `rnd = id` is exact arithmetic, the line-protocol
driver rounds to a multiple of `2^-p` (default p = 200) there, which keeps the exact rationals of a
run with an approximated square root from tripling in size at every step.  Theorems about the
bookkeeping (cache independence, rebuild) hold for EVERY `ar`, hence also for the instance the
driver executes; theorems that need a true square root / no rounding say so as hypotheses.  The
dense eigenproblem of the small tridiagonal / Hessenberg matrix (`np.linalg.eigh/eig`) and the
convergence test computed from it are parameters as well (`conv`, `vf`).

Source anchors (tenpy/linalg/krylov_based.py)
* `buildStep/buildLoop/build`      `LanczosGroundState._build_krylov`
* `toCache`                        `KrylovBased._to_cache`
* `addCached/rebuildStep/rebuild/calcResultFull`
                                   `KrylovBased._calc_result_full`,
                                   `LanczosGroundState._rebuild_krylov_for_result_full`
* `runGS`                          `LanczosGroundState.run`
* `runEvo`                         `LanczosEvolution.run`
* `Op`, `Op.apply`, `withShift`    `sparse.{Shift,Orthogonal,Sum}NpcLinearOperator.matvec`,
                                   `KrylovBased.__init__` (E_shift wrapping)
* `gramSchmidt`                    `gram_schmidt`
-/
namespace TenpyModel.C16

abbrev Vec := List Rat

/-- `npc.inner(a, b, axes='range', do_conj=True)` on real vectors -/
def dot (a b : Vec) : Rat := (List.zipWith (· * ·) a b).sum

/-- `y.iadd_prefactor_other(a, x)`: `y + a * x` -/
def axpy (a : Rat) (x y : Vec) : Vec := List.zipWith (fun yi xi => yi + a * xi) y x

/-- `x.iscale_prefactor(a)` -/
def scale (a : Rat) (x : Vec) : Vec := x.map (fun xi => a * xi)

def vadd (x y : Vec) : Vec := List.zipWith (· + ·) x y

def matvec (H : List Vec) (x : Vec) : Vec := H.map (fun r => dot r x)

def rabs (x : Rat) : Rat := if x < 0 then -x else x

/-- the two non-rational ingredients of a run -/
structure Arith where
  sq : Rat → Rat
  rnd : Rat → Rat

/-- `w.iscale_prefactor(1. / nrm)` -/
def normalize (ar : Arith) (nrm : Rat) (w : Vec) : Vec := (scale (1 / nrm) w).map ar.rnd

/-- sequentially project out the vectors `os` (`for o in os: v -= <o|v> o`) -/
def projOut (os : List Vec) (v : Vec) : Vec := os.foldl (fun v o => axpy (-(dot o v)) o v) v

/-! ### gram_schmidt -/

/-- one round of the outer loop of `gram_schmidt` -/
def gsStep (ar : Arith) (rcond : Rat) (res : List Vec) (vec : Vec) : List Vec :=
  let v := projOut res vec
  let n := ar.sq (dot v v)
  if n > rcond then res ++ [normalize ar n v] else res

def gramSchmidt (ar : Arith) (rcond : Rat) (vecs : List Vec) : List Vec :=
  vecs.foldl (gsStep ar rcond) []

/-! ### linear-operator wrappers (tenpy/linalg/sparse.py) -/

inductive Op where
  | mat (H : List Vec)                 -- an `npc.Array` used through its `matvec`
  | shift (A : Op) (s : Rat)           -- `ShiftNpcLinearOperator`
  | ortho (A : Op) (os : List Vec)     -- `OrthogonalNpcLinearOperator` (`os` already Gram-Schmidt-ed)
  | sum (A B : Op)                     -- `SumNpcLinearOperator`

def Op.apply : Op → Vec → Vec
  | .mat H, v => matvec H v
  | .shift A s, v => axpy s v (A.apply v)
  | .ortho A os, v => projOut os.reverse (A.apply (projOut os v))
  | .sum A B, v => vadd (A.apply v) (B.apply v)

/-- `KrylovBased.__init__`: how `E_shift` is wrapped into the operator -/
def withShift (H : Op) : Option Rat → Op
  | none => H
  | some s => match H with
    | .ortho A os => .ortho (.shift A s) os
    | H => .shift H s

/-! ### Lanczos -/

structure Opts where
  nMin : Nat
  nMax : Nat
  nCache : Nat
  reortho : Bool
  cutoff : Rat

/-- `_to_cache`: FIFO of at most `nc` vectors, newest last -/
def toCache (nc : Nat) (cache : List Vec) (psi : Vec) : List Vec :=
  let c := cache ++ [psi]
  if c.length > nc then c.drop 1 else c

/-- the orthogonalisation against older vectors, identical text in `_build_krylov` and in
`_rebuild_krylov_for_result_full`:
```
if self.reortho:
    for c in self._cache[:-1]: w -= inner(c, w) c
elif k > 0:
    w -= beta * self._cache[-2]
``` -/
def orth (reortho : Bool) (k : Nat) (beta : Rat) (cache : List Vec) (w : Vec) : Vec :=
  if reortho then projOut cache.dropLast w
  else if k > 0 then axpy (-beta) (cache.getD (cache.length - 2) []) w
  else w

structure BState where
  cache : List Vec
  w : Vec
  beta : Rat
  alphas : List Rat     -- h[k,k]
  betas : List Rat      -- h[k,k+1] = h[k+1,k]

/-- body of the `for k in range(N_max)` loop of `_build_krylov` up to `beta = norm(w)` -/
def buildStep (A : Vec → Vec) (ar : Arith) (o : Opts) (k : Nat) (s : BState) : BState :=
  let v := normalize ar s.beta s.w
  let cache := toCache o.nCache s.cache v
  let w := A v
  let last := cache.getLastD []
  let alpha := dot w last
  let w := axpy (-alpha) last w
  let w := orth o.reortho k s.beta cache w
  let beta := ar.sq (dot w w)
  { cache := cache, w := w, beta := beta, alphas := s.alphas ++ [alpha], betas := s.betas ++ [beta] }

/-- the loop with both exits: `abs(beta) < cutoff or (k + 1 >= N_min and self._converged(k))`.
`conv k alphas betas` stands for `_converged(k)` (computed from the dense eigen-decomposition).
Returns the number of steps `N = k + 1`. -/
def buildLoop (A : Vec → Vec) (ar : Arith) (o : Opts) (conv : Nat → List Rat → List Rat → Bool) :
    Nat → Nat → BState → Nat × BState
  | 0, k, s => (k, s)
  | fuel + 1, k, s =>
    let s' := buildStep A ar o k s
    if rabs s'.beta < o.cutoff || (k + 1 ≥ o.nMin && conv k s'.alphas s'.betas) then (k + 1, s')
    else buildLoop A ar o conv fuel (k + 1) s'

def initState (ar : Arith) (psi0 : Vec) : BState :=
  { cache := [], w := psi0, beta := ar.sq (dot psi0 psi0), alphas := [], betas := [] }

/-- `_build_krylov`; `none` = `ValueError('Norm of self.psi0 too small')` -/
def build (A : Vec → Vec) (ar : Arith) (o : Opts) (conv : Nat → List Rat → List Rat → Bool)
    (psi0 : Vec) : Option (Nat × BState) :=
  let s0 := initState ar psi0
  if s0.beta < o.cutoff then none else some (buildLoop A ar o conv o.nMax 0 s0)

/-- `for k in range(1, min(len_cache + 1, N)): psif += vf[N - k] * cache[-k]` -/
def addCached (vf : List Rat) (N : Nat) (cache : List Vec) (psif : Vec) : Vec :=
  (List.range' 1 (min (cache.length + 1) N - 1)).foldl
    (fun p k => axpy (vf.getD (N - k) 0) (cache.getD (cache.length - k) []) p) psif

structure RState where
  cache : List Vec
  w : Vec
  beta : Rat
  psif : Vec

/-- body of the loop of `_rebuild_krylov_for_result_full` -/
def rebuildStep (A : Vec → Vec) (ar : Arith) (o : Opts) (alphas betas vf : List Rat) (r : RState) (k : Nat) : RState :=
  let cache := toCache o.nCache r.cache r.w
  let w := A r.w
  let alpha := alphas.getD k 0
  let w := axpy (-alpha) (cache.getLastD []) w
  let w := orth o.reortho k r.beta cache w
  let beta := betas.getD k 0
  let w := normalize ar beta w
  { cache := cache, w := w, beta := beta, psif := axpy (vf.getD (k + 1) 0) w r.psif }

def rebuild (A : Vec → Vec) (ar : Arith) (o : Opts) (alphas betas vf : List Rat) (n : Nat) (psi0n psif : Vec) : Vec :=
  ((List.range n).foldl (rebuildStep A ar o alphas betas vf)
    { cache := [], w := psi0n, beta := 0, psif := psif }).psif

/-- `_calc_result_full(N)` with `self._result_krylov = vf`, `self.psi0 = psi0n` (already normalised in
place by the build loop), `self._cache = cache`. -/
def calcResultFull (A : Vec → Vec) (ar : Arith) (o : Opts) (N : Nat) (vf : List Rat) (psi0n : Vec)
    (cache : List Vec) (alphas betas : List Rat) : Vec :=
  let psif := scale (vf.getD 0 0) psi0n
  let psif := addCached vf N cache psif
  let psif := rebuild A ar o alphas betas vf (N - cache.length - 1) psi0n psif
  let nrm := ar.sq (dot psif psif)
  normalize ar nrm psif

/-- `self.psi0` after the first `iscale_prefactor(w, 1/beta)` of the build loop -/
def psi0n (ar : Arith) (psi0 : Vec) : Vec := normalize ar (ar.sq (dot psi0 psi0)) psi0

structure GSResult where
  E0 : Rat
  psi : Vec
  N : Nat
  alphas : List Rat
  betas : List Rat

/-- `LanczosGroundState.run`.  `eig N alphas betas = (E, vf)`: smallest eigenvalue and a normalised
eigenvector of the tridiagonal matrix `(alphas[:N], betas[:N-1])`, i.e. `Es[N-1, 0]` and
`_result_krylov` after `_calc_result_krylov(N-1)`. -/
def runGS (H : Op) (ar : Arith) (o : Opts) (eShift : Option Rat)
    (conv : Nat → List Rat → List Rat → Bool) (eig : Nat → List Rat → List Rat → Rat × List Rat)
    (psi0 : Vec) : Option GSResult :=
  let A := (withShift H eShift).apply
  match build A ar o conv psi0 with
  | none => none
  | some (N, s) =>
    let (E, vf) := eig N s.alphas s.betas
    let E0 := match eShift with | some sh => E - sh | none => E
    let p0 := psi0n ar psi0
    if N = 1 then some ⟨E0, p0, N, s.alphas, s.betas⟩
    else some ⟨E0, calcResultFull A ar o N vf p0 s.cache s.alphas s.betas, N, s.alphas, s.betas⟩

/-- `LanczosEvolution.run(delta, normalize)` (first call on a fresh object).  `small N alphas betas =
(vf, resultNorm)`: the normalised `expm(delta h) e_0` and its norm (`_result_krylov`, `_result_norm`). -/
def runEvo (H : Op) (ar : Arith) (o : Opts) (eShift : Option Rat)
    (conv : Nat → List Rat → List Rat → Bool) (small : Nat → List Rat → List Rat → List Rat × Rat)
    (normalize : Bool) (psi0 : Vec) : Option (Vec × Nat) :=
  let A := (withShift H eShift).apply
  match build A ar o conv psi0 with
  | none => none
  | some (N, s) =>
    let (vf, rn) := small N s.alphas s.betas
    let p0 := psi0n ar psi0
    let full := if N = 1 then scale (vf.getD 0 0) p0
                else calcResultFull A ar o N vf p0 s.cache s.alphas s.betas
    if normalize then some (full, N)
    else some (scale (ar.sq (dot psi0 psi0) * rn) full, N)

/-! ### Arnoldi (`Arnoldi._build_krylov`, `Arnoldi._calc_result_full`) -/

structure AState where
  cache : List Vec
  w : Vec
  norm : Rat
  cols : List (List Rat)     -- column k of `_h_krylov`: h[0..k+1, k]

/-- `for i, v_i in enumerate(cache): h[i,k] = ov = <v_i|w>; w -= ov v_i` -/
def mgs : List Vec → Vec → List Rat × Vec
  | [], w => ([], w)
  | c :: cs, w =>
    let ov := dot c w
    let r := mgs cs (axpy (-ov) c w)
    (ov :: r.1, r.2)

def arnoldiStep (A : Vec → Vec) (ar : Arith) (s : AState) : AState :=
  let v := normalize ar s.norm s.w
  let cache := s.cache ++ [v]
  let w := A v
  let r := mgs cache w
  let nrm := ar.sq (dot r.2 r.2)
  { cache := cache, w := r.2, norm := nrm, cols := s.cols ++ [r.1 ++ [nrm]] }

def arnoldiLoop (A : Vec → Vec) (ar : Arith) (nMin : Nat) (cutoff : Rat)
    (conv : Nat → List (List Rat) → Bool) : Nat → Nat → AState → Nat × AState
  | 0, k, s => (k, s)
  | fuel + 1, k, s =>
    let s' := arnoldiStep A ar s
    if s'.norm < cutoff || (k + 1 ≥ nMin && conv k s'.cols) then (k + 1, s')
    else arnoldiLoop A ar nMin cutoff conv fuel (k + 1) s'

def arnoldiBuild (A : Vec → Vec) (ar : Arith) (nMin nMax : Nat) (cutoff : Rat)
    (conv : Nat → List (List Rat) → Bool) (psi0 : Vec) : Nat × AState :=
  arnoldiLoop A ar nMin cutoff conv nMax 0
    { cache := [], w := psi0, norm := ar.sq (dot psi0 psi0), cols := [] }

/-- `psi = sum_k vf[k] basis[k]`, normalised -/
def lincomb (vf : List Rat) (basis : List Vec) : Vec :=
  match vf, basis with
  | c :: cs, b :: bs => (List.zip cs bs).foldl (fun p cb => axpy cb.1 cb.2 p) (scale c b)
  | _, _ => []

def arnoldiResult (ar : Arith) (vf : List Rat) (basis : List Vec) : Vec :=
  let psi := lincomb vf basis
  normalize ar (ar.sq (dot psi psi)) psi

/-! ### GMRES on real data (`GMRES.arnoldi/apply_givens_rotation/givens_rotation/backsolve`) -/

/-- apply the previous rotations to the new column `[h_0 … h_{k+1}]` -/
def applyRots : List (Rat × Rat) → List Rat → List Rat
  | [], col => col
  | (c, s) :: rs, a :: b :: rest => (c * a + s * b) :: applyRots rs ((-s * a + c * b) :: rest)
  | _, col => col

/-- new rotation from the last two entries `(v1, v2)` of the rotated column; returns the column with
`H[k,k] = c v1 + s v2`, `H[k+1,k] = 0` and the pair `(c, s)` -/
def newRot (ar : Arith) (col : List Rat) : List Rat × (Rat × Rat) :=
  let k := col.length - 2
  let v1 := col.getD k 0
  let v2 := col.getD (k + 1) 0
  let t := ar.sq (v1 * v1 + v2 * v2)
  let c := ar.rnd (v1 / t)
  let s := ar.rnd (v2 / t)
  (col.take k ++ [c * v1 + s * v2, 0], (c, s))

/-- solve the upper-triangular system `R y = g` given by columns (`backsolve`) -/
def backsolve (ar : Arith) (cols : List (List Rat)) (g : List Rat) : List Rat :=
  let k := cols.length
  (List.range k).foldr (fun i y =>
      -- y holds y[i+1..k-1]
      let s := (List.range (k - 1 - i)).foldl
        (fun acc j => acc - ((cols.getD (i + 1 + j) []).getD i 0) * y.getD j 0) (g.getD i 0)
      ar.rnd (s / ((cols.getD i []).getD i 0)) :: y) []

structure GState where
  qs : List Vec
  rots : List (Rat × Rat)
  cols : List (List Rat)    -- rotated columns (upper triangular part + trailing 0)
  g : List Rat              -- the rotated `e1`
  errs : List Rat           -- |g[k+1]| (un-normalised residual estimates)

def gmresStep (A : Vec → Vec) (ar : Arith) (s : GState) : GState :=
  let q := A (s.qs.getLastD [])
  -- note: GMRES.arnoldi updates q sequentially exactly like `mgs`
  let r := mgs s.qs q
  let nrm := ar.sq (dot r.2 r.2)
  let qn := if nrm > 0 then normalize ar nrm r.2 else r.2
  let col := applyRots s.rots (r.1 ++ [nrm])
  let (col', cs) := newRot ar col
  let k := s.cols.length
  let gk := s.g.getD k 0
  let g' := s.g.take k ++ [cs.1 * gk, -cs.2 * gk]
  { qs := s.qs ++ [qn], rots := s.rots ++ [cs], cols := s.cols ++ [col'], g := g',
    errs := s.errs ++ [rabs (-cs.2 * gk)] }

/-- one restart cycle with exactly `n` inner iterations from start guess `x`; returns the new `x`,
and the residual estimates `|e1[k+1]|` -/
def gmresCycle (A : Vec → Vec) (ar : Arith) (n : Nat) (x b : Vec) : Vec × List Rat :=
  let r0 := axpy (-1) (A x) b
  let rn := ar.sq (dot r0 r0)
  let s0 : GState := { qs := [normalize ar rn r0], rots := [], cols := [], g := [rn], errs := [] }
  let s := (List.range n).foldl (fun s _ => gmresStep A ar s) s0
  let y := backsolve ar s.cols s.g
  ((List.zip y s.qs).foldl (fun x yq => axpy yq.1 yq.2 x) x, s.errs)

end TenpyModel.C16
