import TenpyModel.C13.P2_InfPost
/-!
# C13 / Props2 — the first read of the first sweep

A new engine stores only `RP[L-1]`; the first `get_RP` of the first sweep contracts all the way from there
(`k = L - 1 - i` steps, no wrap-around).  Afterwards every read finds its part at distance 0 or 1.
-/
set_option linter.unusedSimpArgs false
namespace TenpyModel.C13.P2
open TenpyModel.C13

theorem findRP_found (e : Env) (hfin : e.finite = false) (i : Nat) : ∀ (fuel k0 k : Nat) (p : EnvPart),
    (∀ k', k0 ≤ k' → k' < k → e.rp.getD ((i + k') % e.L) none = none) →
    e.rp.getD ((i + k) % e.L) none = some p → k0 ≤ k → k < k0 + fuel → findRP e i fuel k0 = some (k, p) := by
  intro fuel
  induction fuel with
  | zero => intro k0 k p _ _ h1 h2; omega
  | succ fuel ih =>
    intro k0 k p hnone hsome h1 h2
    by_cases hk : k0 = k
    · subst hk; exact findRP_hit e i fuel k0 hfin p hsome
    · rw [findRP_miss e i fuel k0 hfin (hnone k0 le_rfl (by omega))]
      exact ih (k0 + 1) k p (fun k' h3 h4 => hnone k' (by omega) h4) hsome (by omega) (by omega)

/-- one contraction step of the loop in `get_RP` -/
def rpFoldStep (e : Env) (i k : Nat) (acc : EnvPart × Env) (t : Nat) : EnvPart × Env :=
  let s := (i + k - t) % e.L
  let p' : EnvPart := ⟨capDeps e.L ((s, acc.2.verOf s) :: acc.1.deps), acc.1.age + 1⟩
  let e' := if true = true then { acc.2 with rp := setAt acc.2.rp ((i + k - t - 1) % e.L) (some p') } else acc.2
  (p', e')

theorem getRP_of_find (e : Env) (i k : Nat) (p : EnvPart) (h : findRP e i e.L 0 = some (k, p)) :
    getRP e i true = some ((List.range k).foldl (rpFoldStep e i k) (p, e)) := by
  unfold getRP
  rw [h]
  rfl

theorem rpFold_inv (L : Nat) (e : Env) (w : WF L e) (i k : Nat) (p : EnvPart) (hik : i + k < L)
    (hp : e.rp.getD (i + k) none = some p) (hst : ∀ j, i + k ≤ j → j < L → StoredR L e j (L - 1 - j)) :
    ∀ t, t ≤ k → ∀ acc, acc = (List.range t).foldl (rpFoldStep e i k) (p, e) →
      WF L acc.2 ∧ acc.2.ver = e.ver ∧ acc.2.lp = e.lp ∧ acc.2.rp.getD (i + k - t) none = some acc.1 ∧
      (∀ j, i + k - t ≤ j → j < L → StoredR L acc.2 j (L - 1 - j)) := by
  intro t
  induction t with
  | zero =>
    intro _ acc hacc
    subst hacc
    exact ⟨w, rfl, rfl, hp, fun j h1 h2 => hst j (by omega) h2⟩
  | succ t ih =>
    intro ht acc hacc
    rw [List.range_succ, List.foldl_append] at hacc
    obtain ⟨w', hv, hlp, hcur, hall⟩ := ih (by omega) _ rfl
    generalize (List.range t).foldl (rpFoldStep e i k) (p, e) = acc0 at hacc w' hv hlp hcur hall
    obtain ⟨p0, e0⟩ := acc0
    simp only at w' hv hlp hcur hall
    have m1 : (i + k - t) % L = i + k - t := Nat.mod_eq_of_lt (by omega)
    have m2 : (i + k - t - 1) % L = i + k - t - 1 := Nat.mod_eq_of_lt (by omega)
    have hacc' : acc = (absorb L e0.ver (i + k - t) p0,
        { e0 with rp := setAt e0.rp (i + k - t - 1) (some (absorb L e0.ver (i + k - t) p0)) }) := by
      rw [hacc]
      simp only [List.foldl_cons, List.foldl_nil, rpFoldStep, w.hL, m1, m2, if_true, absorb, Env.verOf]
    subst hacc'
    have hidx : i + k - (t + 1) = i + k - t - 1 := by omega
    refine ⟨⟨w'.hL, w'.hfin, w'.hlp, by simp [length_setAt, w'.hrp]⟩, hv, hlp, ?_, ?_⟩
    · simp only [hidx]
      exact getD_setAt_self _ _ _ _ (by rw [w'.hrp]; omega)
    · intro j hj hjL
      by_cases hjj : j = i + k - t - 1
      · subst hjj
        obtain ⟨q, hq1, hq2⟩ := hall (i + k - t) le_rfl (by omega)
        rw [hcur] at hq1
        injection hq1 with hq1
        subst hq1
        refine ⟨absorb L e0.ver (i + k - t) p0, getD_setAt_self _ _ _ _ (by rw [w'.hrp]; omega), ?_⟩
        have := FreshR_absorb L e0.ver (i + k - t - 1) (i + k - t) (L - 1 - (i + k - t)) p0 (by omega) (by omega)
          (by unfold slotR
              rw [show i + k - t - 1 + 1 + 0 = i + k - t from by omega, m1]) hq2 (by omega)
        rw [show L - 1 - (i + k - t) + 1 = L - 1 - (i + k - t - 1) from by omega] at this
        exact this
      · obtain ⟨q, hq1, hq2⟩ := hall j (by omega) hjL
        exact ⟨q, by simp only; rw [getD_setAt_ne _ _ _ _ _ (Ne.symm hjj)]; exact hq1, hq2⟩

/-- the first `get_RP` of a sweep: if `RP[i … m-1]` are missing and `RP[m … L-1]` are stored and fresh, all of
`RP[i … L-1]` are stored and fresh afterwards; nothing else changes -/
theorem getRP_prep (L : Nat) (e : Env) (w : WF L e) (i m : Nat) (him : i ≤ m) (hm : m < L)
    (hnone : ∀ j, i ≤ j → j < m → e.rp.getD j none = none)
    (hst : ∀ j, m ≤ j → j < L → StoredR L e j (L - 1 - j)) :
    ∃ pr e2, getRP e i true = some (pr, e2) ∧ WF L e2 ∧ e2.ver = e.ver ∧ e2.lp = e.lp ∧
      e2.rp.getD i none = some pr ∧ ∀ j, i ≤ j → j < L → StoredR L e2 j (L - 1 - j) := by
  obtain ⟨p, hp, _⟩ := hst m le_rfl hm
  have hfind : findRP e i e.L 0 = some (m - i, p) := by
    apply findRP_found e w.hfin i e.L 0 (m - i) p
    · intro k' _ hk'
      rw [w.hL, Nat.mod_eq_of_lt (by omega)]
      exact hnone (i + k') (by omega) (by omega)
    · rw [w.hL, show i + (m - i) = m from by omega, Nat.mod_eq_of_lt hm]; exact hp
    · omega
    · rw [w.hL]; omega
  have him' : i + (m - i) = m := by omega
  obtain ⟨w', hv, hlp, hcur, hall⟩ := rpFold_inv L e w i (m - i) p (by omega) (by rw [him']; exact hp)
    (by rw [him']; exact hst) (m - i) le_rfl _ rfl
  refine ⟨_, _, getRP_of_find e i (m - i) p hfind, w', hv, hlp, ?_, ?_⟩
  · rw [show i + (m - i) - (m - i) = i from by omega] at hcur; exact hcur
  · intro j hj hjL
    exact hall j (by omega) hjL

/-- repeating the two reads of `make_eff_H` on the state they produced changes nothing -/
theorem step_reads_idem (n : Nat) (e e1 e2 : Env) (i0 : Nat) (mr a b : Bool) (pl pr : EnvPart)
    (h1 : getLP e i0 true = some (pl, e1)) (h2 : getRP e1 (i0 + n - 1) true = some (pr, e2))
    (h3 : getLP e2 i0 true = some (pl, e2)) (h4 : getRP e2 (i0 + n - 1) true = some (pr, e2)) :
    step n e (i0, mr, (a, b)) = step n e2 (i0, mr, (a, b)) := by
  unfold step
  simp only [h1, h2, h3, h4]

/-- state between two sweeps (`m = L - 1`: new engine; `m = n - 1`: after a sweep) -/
def Between (L n : Nat) (e : Env) : Prop :=
  WF L e ∧ StoredL L e 0 0 ∧ ∃ m, n - 1 ≤ m ∧ m < L ∧ (∀ j, n - 1 ≤ j → j < m → e.rp.getD j none = none) ∧
    ∀ j, m ≤ j → j < L → StoredR L e j (L - 1 - j)

/-- state after the reads of the first step of a sweep -/
def Start (L n : Nat) (e : Env) : Prop :=
  WF L e ∧ StoredL L e 0 0 ∧ ∀ j, n - 1 ≤ j → j < L → StoredR L e j (L - 1 - j)

theorem Start.between {L n : Nat} {e : Env} (hn : n ≤ L) (hn1 : 1 ≤ n) (h : Start L n e) : Between L n e :=
  ⟨h.1, h.2.1, n - 1, le_rfl, by omega, fun j h1 h2 => by omega, h.2.2⟩

theorem step_prep (L n : Nat) (hn1 : 1 ≤ n) (hL : n ≤ L) (e : Env) (h : Between L n e) (mr a b : Bool) :
    ∃ e2, step n e (0, mr, (a, b)) = step n e2 (0, mr, (a, b)) ∧ Start L n e2 := by
  obtain ⟨w, ⟨pl, hpl, fl⟩, m, hm1, hm2, hnone, hst⟩ := h
  have r1 := getLP_hit L e w (by omega) 0 pl (by rw [Nat.zero_mod]; exact hpl)
  obtain ⟨pr, e2, r2, w2, hv, hlp, hcur, hall⟩ := getRP_prep L e w (n - 1) m hm1 hm2 hnone hst
  have r3 := getLP_hit L e2 w2 (by omega) 0 pl (by rw [Nat.zero_mod, hlp]; exact hpl)
  have r4 := getRP_hit L e2 w2 (by omega) (n - 1) pr (by rw [Nat.mod_eq_of_lt (by omega)]; exact hcur)
  refine ⟨e2, step_reads_idem n e e e2 0 mr a b pl pr r1 (by rw [Nat.zero_add]; exact r2) r3
    (by rw [Nat.zero_add]; exact r4), w2, ⟨pl, by rw [hlp]; exact hpl, by rw [hv]; exact fl⟩, hall⟩

theorem init_between (L n : Nat) (hn1 : 1 ≤ n) (hL : n ≤ L) : Between L n (Env.init L false 0 0) := by
  have hlen : ((List.range L).map (fun i => if i + 1 = L then some (⟨[], 0⟩ : EnvPart) else none)).length = L := by simp
  refine ⟨⟨rfl, rfl, by simp [Env.init], by simp [Env.init]⟩, ⟨⟨[], 0⟩, ?_, fun t ht => by omega⟩, L - 1, by omega,
    by omega, ?_, ?_⟩
  · simp [Env.init, List.getD_eq_getElem?_getD, show 0 < L by omega]
  · intro j _ hj
    simp only [Env.init, List.getD_eq_getElem?_getD]
    rw [List.getElem?_map, List.getElem?_range (by omega)]
    simp [show ¬ (j + 1 = L) by omega]
  · intro j hj hjL
    have : j = L - 1 := by omega
    subst this
    refine ⟨⟨[], 0⟩, ?_, fun t ht => by omega⟩
    simp only [Env.init, List.getD_eq_getElem?_getD]
    rw [List.getElem?_map, List.getElem?_range (by omega)]
    simp [show L - 1 + 1 = L by omega]

end TenpyModel.C13.P2
