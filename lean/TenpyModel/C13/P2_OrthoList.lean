import TenpyModel.C16.Props
/-!
# C13 / orthogonal projector — list model (`TenpyModel/C16/Lanczos.lean`: `Op.ortho`, `Op.apply`, `runGS`)

`OrthogonalNpcLinearOperator.matvec` = `projOut os.reverse ∘ A ∘ projOut os`.  With an orthonormal list `os` (what
`OrthogonalNpcLinearOperator.__init__` establishes by `gram_schmidt`) every result is orthogonal to every `o`; hence,
when the start vector is orthogonal to every `o`, so are all Lanczos vectors and the returned Ritz vector (exact
arithmetic in the normalisations: `ar.rnd = id`; the square-root oracle `ar.sq` is arbitrary).
-/
open TenpyModel.C16

namespace TenpyModel.C13.P2b

/-- `x` has `n` entries and is orthogonal to every vector of `os` -/
def Perp (n : Nat) (os : List Vec) (x : Vec) : Prop := x.length = n ∧ ∀ o ∈ os, dot o x = 0

theorem ortho_ON_reverse {n : Nat} {os : List Vec} (h : ON n os) : ON n os.reverse := by
  refine ⟨fun o ho => h.1 o (List.mem_reverse.1 ho), ?_⟩
  rw [List.pairwise_reverse]
  exact h.2.imp fun {a b} hab => by rw [dot_comm]; exact hab

theorem perp_axpy {n : Nat} {os : List Vec} (a : Rat) {x y : Vec} (hx : Perp n os x) (hy : Perp n os y) :
    Perp n os (axpy a x y) := by
  have hl : x.length = y.length := by rw [hx.1, hy.1]
  refine ⟨by rw [axpy_length _ _ _ hl, hy.1], fun o ho => ?_⟩
  rw [dot_axpy_right _ _ _ _ hl, hy.2 o ho, hx.2 o ho]; ring

theorem perp_scale {n : Nat} {os : List Vec} (a : Rat) {x : Vec} (hx : Perp n os x) : Perp n os (scale a x) := by
  refine ⟨by rw [scale_length, hx.1], fun o ho => ?_⟩
  rw [dot_scale_right, hx.2 o ho, mul_zero]

theorem perp_normalize {n : Nat} {os : List Vec} (ar : Arith) (hr : ∀ x, ar.rnd x = x) (nrm : Rat) {x : Vec}
    (hx : Perp n os x) : Perp n os (normalize ar nrm x) := by
  unfold normalize
  rw [map_rnd_id ar hr]
  exact perp_scale _ hx

theorem perp_projOut {n : Nat} {os : List Vec} (L : List Vec) (hL : ∀ c ∈ L, Perp n os c) {w : Vec}
    (hw : Perp n os w) : Perp n os (projOut L w) := by
  induction L generalizing w with
  | nil => exact hw
  | cons c L ih =>
    rw [projOut_cons]
    exact ih (fun c' hc' => hL c' (List.mem_cons_of_mem _ hc')) (perp_axpy _ (hL c (List.mem_cons_self ..)) hw)

/-- the re-orthogonalisation text shared by `_build_krylov` and `_rebuild_krylov_for_result_full` -/
theorem perp_orth {n : Nat} {os : List Vec} (re : Bool) (k : Nat) (beta : Rat) (c : List Vec)
    (hc : ∀ x ∈ c, Perp n os x) (hne : c ≠ []) {w : Vec} (hw : Perp n os w) : Perp n os (orth re k beta c w) := by
  unfold orth
  split
  · exact perp_projOut _ (fun x hx => hc x ((List.dropLast_sublist c).subset hx)) hw
  · split
    · apply perp_axpy _ _ hw
      apply hc
      have hpos : 0 < c.length := List.length_pos_iff.2 hne
      have hi : c.length - 2 < c.length := by omega
      rw [List.getD_eq_getElem?_getD, List.getElem?_eq_getElem hi]
      exact List.getElem_mem hi
    · exact hw

/-- **`OrthogonalNpcLinearOperator.matvec`**: orthonormal `os`, inner operator keeps the number of entries ⇒ the
result is orthogonal to every `o` (whatever the input vector of the right size is). -/
theorem ortho_apply_perp (B : Op) (os : List Vec) (n : Nat) (hON : ON n os)
    (hB : ∀ u : Vec, u.length = n → (B.apply u).length = n) (v : Vec) (hv : v.length = n) :
    Perp n os ((Op.ortho B os).apply v) := by
  rw [C16_ortho_matvec]
  have hlen : ∀ o ∈ os, o.length = n := fun o ho => (hON.1 o ho).1
  have h1 : (projOut os v).length = n := projOut_length n os hlen v hv
  have h2 := hB _ h1
  have hrev := ortho_ON_reverse hON
  refine ⟨projOut_length n os.reverse (fun o ho => (hrev.1 o ho).1) _ h2, fun o ho => ?_⟩
  exact dot_projOut_eq_zero n os.reverse hrev _ h2 o (List.mem_reverse.2 ho)

/-- `KrylovBased.__init__` keeps an `OrthogonalNpcLinearOperator` outermost (shift inside) -/
theorem ortho_withShift (A : Op) (os : List Vec) (n : Nat) (hA : ∀ u : Vec, u.length = n → (A.apply u).length = n)
    (eShift : Option Rat) :
    ∃ B : Op, withShift (.ortho A os) eShift = .ortho B os ∧ ∀ u : Vec, u.length = n → (B.apply u).length = n := by
  cases eShift with
  | none => exact ⟨A, rfl, hA⟩
  | some s =>
    refine ⟨.shift A s, rfl, fun u hu => ?_⟩
    rw [C16_shift_matvec, axpy_length _ _ _ (by rw [hu, hA u hu]), hA u hu]

/-! ### the Lanczos iteration with an operator whose results are orthogonal to `os` -/

section lanczos
variable {n : Nat} {os : List Vec} (A' : Vec → Vec) (hA : ∀ v : Vec, v.length = n → Perp n os (A' v))
  (ar : Arith) (hr : ∀ x, ar.rnd x = x) (re : Bool) (nc : Nat) (hnc : 1 ≤ nc) (psi0 : Vec) (h0 : Perp n os psi0)
include hA hr hnc h0

theorem ortho_refState_perp (k : Nat) :
    (∀ v ∈ (refState A' ar re nc psi0 k).vs, Perp n os v) ∧ Perp n os (refState A' ar re nc psi0 k).w := by
  induction k with
  | zero => exact ⟨fun v hv => (by cases hv), h0⟩
  | succ k ih =>
    obtain ⟨hvs, hw⟩ := ih
    have hv := perp_normalize (n := n) (os := os) ar hr (refState A' ar re nc psi0 k).beta hw
    have hvs' : ∀ v ∈ (refState A' ar re nc psi0 k).vs ++
        [normalize ar (refState A' ar re nc psi0 k).beta (refState A' ar re nc psi0 k).w], Perp n os v := by
      intro v hmem
      rcases List.mem_append.1 hmem with h | h
      · exact hvs v h
      · rw [List.mem_singleton] at h; subst h; exact hv
    refine ⟨hvs', ?_⟩
    show Perp n os (refStep A' ar re nc k (refState A' ar re nc psi0 k)).w
    simp only [refStep]
    apply perp_orth
    · intro x hx
      exact hvs' x (List.mem_of_mem_drop hx)
    · intro hnil
      have := congrArg List.length hnil
      rw [takeLast_length] at this
      simp at this
      omega
    · exact perp_axpy _ hv (hA _ hv.1)

/-- every Lanczos vector `v_j` -/
theorem ortho_vAt_perp (j : Nat) : Perp n os (vAt A' ar re nc psi0 j) :=
  perp_normalize ar hr _ (ortho_refState_perp A' hA ar hr re nc hnc psi0 h0 j).2

theorem ortho_acc_foldl_perp (vf : List Rat) (l : List Nat) {p : Vec} (hp : Perp n os p) :
    Perp n os (l.foldl (acc A' ar re nc psi0 vf) p) := by
  induction l generalizing p with
  | nil => exact hp
  | cons i l ih =>
    rw [List.foldl_cons]
    exact ih (perp_axpy _ (ortho_vAt_perp A' hA ar hr re nc hnc psi0 h0 i) hp)

end lanczos

/-- the vector returned by the specification run `runRef` (= `runGS`, `C16_rebuild_consistent`) -/
theorem ortho_runRef_perp {n : Nat} {os : List Vec} (H : Op) (ar : Arith) (hr : ∀ x, ar.rnd x = x) (o : Opts)
    (hnc : 1 ≤ o.nCache) (eShift : Option Rat)
    (hA : ∀ v : Vec, v.length = n → Perp n os ((withShift H eShift).apply v))
    (conv : Nat → List Rat → List Rat → Bool) (eig : Nat → List Rat → List Rat → Rat × List Rat)
    (psi0 : Vec) (h0 : Perp n os psi0) (res : GSResult) (h : runRef H ar o eShift conv eig psi0 = some res) :
    Perp n os res.psi := by
  unfold runRef at h
  simp only at h
  split at h
  · cases h
  · simp only [Option.some.injEq] at h
    rw [← h]
    simp only
    split
    · exact ortho_vAt_perp _ hA ar hr _ _ hnc psi0 h0 0
    · apply perp_normalize ar hr
      apply ortho_acc_foldl_perp _ hA ar hr _ _ hnc psi0 h0
      exact perp_scale _ (ortho_vAt_perp _ hA ar hr _ _ hnc psi0 h0 0)

/-- the FIFO cache of the coded build loop holds Lanczos vectors only -/
theorem ortho_build_cache_perp {n : Nat} {os : List Vec} (A' : Vec → Vec)
    (hA : ∀ v : Vec, v.length = n → Perp n os (A' v)) (ar : Arith) (hr : ∀ x, ar.rnd x = x) (o : Opts)
    (hnc : 1 ≤ o.nCache) (conv : Nat → List Rat → List Rat → Bool) (psi0 : Vec) (h0 : Perp n os psi0)
    (N : Nat) (s : BState) (h : build A' ar o conv psi0 = some (N, s)) :
    (∀ v ∈ s.cache, Perp n os v) ∧ Perp n os s.w := by
  unfold build at h
  simp only at h
  split at h
  · cases h
  · simp only [Option.some.injEq] at h
    obtain ⟨_, hsim⟩ := sim_loop A' ar o hnc conv psi0 o.nMax 0 (initState ar psi0) (sim_init _ _ _)
    rw [h] at hsim
    obtain ⟨hc, hw, _⟩ := hsim
    simp only at hc hw
    have hg := ortho_refState_perp A' hA ar hr o.reortho o.nCache hnc psi0 h0
      (refLoop (refState A' ar o.reortho o.nCache psi0) o conv o.nMax 0)
    rw [hc, hw]
    exact ⟨fun v hv => hg.1 v (List.mem_of_mem_drop hv), hg.2⟩

end TenpyModel.C13.P2b
