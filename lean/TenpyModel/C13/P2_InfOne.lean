import TenpyModel.C13.P2_InfPrep
/-!
# C13 / Props2 — single-site sweep on an infinite system: invariant along the schedule (`L ≥ 2`)

Phases: `R_0` `(T,T)` (sites `0,1`), `R_1 … R_{L-2}` `(T,F)`, `R_{L-1}` `(T,F)` (sites `L-1, 0`),
`L_L` `(T,T)` (sites `L-1, 0` again), `L_{L-1} … L_1` `(F,T)` (sites `i0-1, i0`).
-/
set_option linter.unusedSimpArgs false
namespace TenpyModel.C13.P2
open TenpyModel.C13

/-- before right-moving step `i` (`0 ≤ i ≤ L-1`) -/
def IR1 (L : Nat) (e : Env) (i : Nat) : Prop :=
  WF L e ∧ StoredL L e i i ∧ (∀ j, 1 ≤ j → j ≤ i → StoredL L e j j) ∧
  (∀ j, i ≤ j → j < L → StoredR L e j (L - 1 - j)) ∧ StoredR L e 0 0

/-- before the first left-moving step (`i0 = L`) -/
def ILa1 (L : Nat) (e : Env) : Prop :=
  WF L e ∧ StoredL L e 0 (L - 1) ∧ (∀ j, 1 ≤ j → j < L → StoredL L e j (j - 1)) ∧ StoredR L e 0 0

/-- before left-moving step `i` (`1 ≤ i ≤ L-1`) -/
def IL1 (L : Nat) (e : Env) (i : Nat) : Prop :=
  WF L e ∧ StoredL L e 0 0 ∧ (∀ j, 1 ≤ j → j ≤ i → StoredL L e j (j - 1)) ∧
  (∀ j, i ≤ j → j < L → StoredR L e j (L - j))

theorem Start.toIR1 {L : Nat} {e : Env} (hL : 1 ≤ L) (h : Start L 1 e) : IR1 L e 0 :=
  ⟨h.1, h.2.1, fun j h1 h2 => by omega, fun j h1 h2 => h.2.2 j (by omega) h2,
    (h.2.2 0 (by omega) (by omega)).mono (Nat.zero_le _)⟩

theorem stepR1 (L : Nat) (hL : 2 ≤ L) (e : Env) (i : Nat) (u : Bool) (hi : i + 2 ≤ L)
    (hu1 : i = 0 → u = true) (hu2 : 1 ≤ i → u = false) (h : IR1 L e i) :
    ∃ e7 log, step 1 e (i, true, (true, u)) = some (e7, log) ∧ IR1 L e7 (i + 1) ∧ GoodInf L 1 log := by
  obtain ⟨w, hl, hls, hrs, hr0⟩ := h
  obtain ⟨pl, hpl, fl⟩ := hl
  obtain ⟨pr, hpr, fr⟩ := hrs i le_rfl (by omega)
  obtain ⟨qR, hqR, fqR⟩ := hrs (i + 1) (by omega) (by omega)
  have mi : i % L = i := Nat.mod_eq_of_lt (by omega)
  have mi1 : (i + 1) % L = i + 1 := Nat.mod_eq_of_lt (by omega)
  obtain ⟨e7, hs, P⟩ := step_spec L 1 e w hL (Or.inl rfl) i true true u i i (i + 1) rfl mi mi1 pl pr pl qR
    (by rw [mi]; exact hpl) (by rw [show i + 1 - 1 = i from rfl, mi]; exact hpr) hpl hqR
  have avL : ∀ t, t < i → slotL L i t ≠ i ∧ slotL L i t ≠ i + 1 := by slot_omega
  refine ⟨e7, _, hs, ⟨P.wf, ?_, ?_, ?_, ?_⟩, ?_⟩
  · exact P.newL rfl fl avL (by omega)
  · intro j hj1 hj
    by_cases hji : j = i + 1
    · subst hji; exact P.newL rfl fl avL (by omega)
    · by_cases hji2 : j = i
      · subst hji2
        have : u = false := hu2 hj1
        subst this
        exact P.keepL rfl fl avL
      · exact P.frameL (hls j hj1 (by omega)) hji2 hji (by slot_omega)
  · intro j hj hjL
    by_cases hji : j = i + 1
    · subst hji
      exact P.keepR rfl fqR (by slot_omega)
    · exact P.frameR (hrs j (by omega) hjL) (by omega) hji (by slot_omega)
  · by_cases hi0 : i = 0
    · subst hi0
      have : u = true := hu1 rfl
      exact (P.newR this (fqR.mono (Nat.zero_le _)) (by intro t ht; omega) (by omega)).mono (Nat.zero_le _)
    · exact P.frameR hr0 (by omega) (by omega) (by intro t ht; omega)
  · exact good_of_fresh L 1 e i true pl pr i (L - 1 - i) (by omega) (by omega) (by rw [mi]; exact fl)
      (by rw [show i + 1 - 1 = i from rfl, mi]; exact fr) (by omega)

theorem stepRwrap1 (L : Nat) (hL : 2 ≤ L) (e : Env) (h : IR1 L e (L - 1)) :
    ∃ e7 log, step 1 e (L - 1, true, (true, false)) = some (e7, log) ∧ ILa1 L e7 ∧ GoodInf L 1 log := by
  obtain ⟨w, hl, hls, hrs, hr0⟩ := h
  obtain ⟨pl, hpl, fl⟩ := hl
  obtain ⟨pr, hpr, fr⟩ := hrs (L - 1) le_rfl (by omega)
  obtain ⟨qR, hqR, fqR⟩ := hr0
  have mi : (L - 1) % L = L - 1 := Nat.mod_eq_of_lt (by omega)
  have mi1 : (L - 1 + 1) % L = 0 := by rw [show L - 1 + 1 = L from by omega, Nat.mod_self]
  obtain ⟨e7, hs, P⟩ := step_spec L 1 e w hL (Or.inl rfl) (L - 1) true true false (L - 1) (L - 1) 0 rfl mi mi1
    pl pr pl qR (by rw [mi]; exact hpl) (by rw [show L - 1 + 1 - 1 = L - 1 from rfl, mi]; exact hpr) hpl hqR
  have fl' : FreshL L e.ver (L - 1) (L - 2) pl := fl.mono (by omega)
  have avL : ∀ t, t < L - 2 → slotL L (L - 1) t ≠ L - 1 ∧ slotL L (L - 1) t ≠ 0 := by slot_omega
  refine ⟨e7, _, hs, ⟨P.wf, ?_, ?_, ?_⟩, ?_⟩
  · have := P.newL rfl fl' avL (by omega)
    rw [show L - 2 + 1 = L - 1 from by omega] at this
    exact this
  · intro j hj1 hjL
    by_cases hj : j = L - 1
    · subst hj
      rw [show L - 1 - 1 = L - 2 from by omega]
      exact P.keepL rfl fl' avL
    · exact P.frameL ((hls j hj1 (by omega)).mono (by omega)) hj (by omega) (by slot_omega)
  · exact P.keepR rfl fqR (by intro t ht; omega)
  · exact good_of_fresh L 1 e (L - 1) true pl pr (L - 1) 0 (by omega) (by omega) (by rw [mi]; exact fl)
      (by rw [show L - 1 + 1 - 1 = L - 1 from rfl, mi]; exact fr.mono (by omega)) (by omega)

theorem stepLa1 (L : Nat) (hL : 2 ≤ L) (e : Env) (h : ILa1 L e) :
    ∃ e7 log, step 1 e (L, false, (true, true)) = some (e7, log) ∧ IL1 L e7 (L - 1) ∧ GoodInf L 1 log := by
  obtain ⟨w, hl, hls, hr0⟩ := h
  obtain ⟨pl, hpl, fl⟩ := hl
  obtain ⟨pr, hpr, fr⟩ := hr0
  obtain ⟨qL, hqL, fqL⟩ := hls (L - 1) (by omega) (by omega)
  have mi0 : L % L = 0 := Nat.mod_self L
  have mi : (L - 1) % L = L - 1 := Nat.mod_eq_of_lt (by omega)
  have mi1 : (L - 1 + 1) % L = 0 := by rw [show L - 1 + 1 = L from by omega, Nat.mod_self]
  have hinds : updateEnvInds 1 L false = (L - 1, L - 1 + 1) := by
    simp only [updateEnvInds, show (1 = 2) = False from by simp, decide_false, Bool.or_false, Bool.false_eq_true,
      if_false, Prod.mk.injEq, true_and]
    omega
  obtain ⟨e7, hs, P⟩ := step_spec L 1 e w hL (Or.inl rfl) L false true true (L - 1) (L - 1) 0 hinds mi mi1
    pl pr qL pr (by rw [mi0]; exact hpl) (by rw [show L + 1 - 1 = L from rfl, mi0]; exact hpr) hqL hpr
  have fqL' : FreshL L e.ver (L - 1) (L - 2) qL := fqL.mono (by omega)
  refine ⟨e7, _, hs, ⟨P.wf, ?_, ?_, ?_⟩, ?_⟩
  · exact (P.newL rfl (fqL.mono (Nat.zero_le _)) (by intro t ht; omega) (by omega)).mono (Nat.zero_le _)
  · intro j hj1 hj
    by_cases hjj : j = L - 1
    · subst hjj
      rw [show L - 1 - 1 = L - 2 from by omega]
      exact P.keepL rfl fqL' (by slot_omega)
    · exact P.frameL (hls j hj1 (by omega)) hjj (by omega) (by slot_omega)
  · intro j hj hjL
    have : j = L - 1 := by omega
    subst this
    have := P.newR rfl (fr.mono (Nat.zero_le _)) (by intro t ht; omega) (by omega)
    rw [show L - (L - 1) = 0 + 1 from by omega]
    exact this
  · exact good_of_fresh L 1 e L false pl pr (L - 1) 0 (by omega) (by omega) (by rw [mi0]; exact fl)
      (by rw [show L + 1 - 1 = L from rfl, mi0]; exact fr) (by omega)

theorem updateEnvInds_one_left (i : Nat) (hi : 1 ≤ i) : updateEnvInds 1 i false = (i - 1, i - 1 + 1) := by
  simp only [updateEnvInds, show (1 = 2) = False from by simp, decide_false, Bool.or_false, Bool.false_eq_true,
    if_false, Prod.mk.injEq, true_and]
  omega

theorem stepL1 (L : Nat) (hL : 2 ≤ L) (e : Env) (i : Nat) (hi2 : 2 ≤ i) (hi : i < L) (h : IL1 L e i) :
    ∃ e7 log, step 1 e (i, false, (false, true)) = some (e7, log) ∧ IL1 L e7 (i - 1) ∧ GoodInf L 1 log := by
  obtain ⟨w, hl0, hls, hrs⟩ := h
  obtain ⟨pl, hpl, fl⟩ := hls i (by omega) le_rfl
  obtain ⟨pr, hpr, fr⟩ := hrs i le_rfl hi
  obtain ⟨qL, hqL, fqL⟩ := hls (i - 1) (by omega) (by omega)
  have mi : i % L = i := Nat.mod_eq_of_lt hi
  have mi' : (i - 1) % L = i - 1 := Nat.mod_eq_of_lt (by omega)
  have mi1 : (i - 1 + 1) % L = i := by rw [show i - 1 + 1 = i from by omega, mi]
  obtain ⟨e7, hs, P⟩ := step_spec L 1 e w hL (Or.inl rfl) i false false true (i - 1) (i - 1) i
    (updateEnvInds_one_left i (by omega)) mi' mi1 pl pr qL pr
    (by rw [mi]; exact hpl) (by rw [show i + 1 - 1 = i from rfl, mi]; exact hpr) hqL hpr
  have avR : ∀ t, t < L - i → slotR L i t ≠ i - 1 ∧ slotR L i t ≠ i := by slot_omega
  refine ⟨e7, _, hs, ⟨P.wf, ?_, ?_, ?_⟩, ?_⟩
  · exact P.frameL hl0 (by omega) (by omega) (by intro t ht; omega)
  · intro j hj1 hj
    by_cases hjj : j = i - 1
    · subst hjj
      exact P.keepL rfl fqL (by slot_omega)
    · exact P.frameL (hls j hj1 (by omega)) hjj (by omega) (by slot_omega)
  · intro j hj hjL
    by_cases hjj : j = i - 1
    · subst hjj
      have := P.newR rfl fr avR (by omega)
      rw [show L - (i - 1) = L - i + 1 from by omega]
      exact this
    · by_cases hji : j = i
      · subst hji
        exact P.keepR rfl fr avR
      · exact P.frameR (hrs j (by omega) hjL) hjj hji (by slot_omega)
  · exact good_of_fresh L 1 e i false pl pr (i - 1) (L - i) (by omega) (by omega) (by rw [mi]; exact fl)
      (by rw [show i + 1 - 1 = i from rfl, mi]; exact fr) (by omega)

theorem stepL1_last (L : Nat) (hL : 2 ≤ L) (e : Env) (h : IL1 L e 1) :
    ∃ e7 log, step 1 e (1, false, (false, true)) = some (e7, log) ∧ Start L 1 e7 ∧ GoodInf L 1 log := by
  obtain ⟨w, hl0, hls, hrs⟩ := h
  obtain ⟨pl, hpl, fl⟩ := hls 1 le_rfl le_rfl
  obtain ⟨pr, hpr, fr⟩ := hrs 1 le_rfl (by omega)
  obtain ⟨qL, hqL, fqL⟩ := hl0
  have mi : 1 % L = 1 := Nat.mod_eq_of_lt (by omega)
  have mi' : 0 % L = 0 := Nat.zero_mod L
  obtain ⟨e7, hs, P⟩ := step_spec L 1 e w hL (Or.inl rfl) 1 false false true 0 0 1 rfl mi' mi pl pr qL pr
    (by rw [mi]; exact hpl) (by rw [show 1 + 1 - 1 = 1 from rfl, mi]; exact hpr) hqL hpr
  have fr' : FreshR L e.ver 1 (L - 2) pr := fr.mono (by omega)
  have avR : ∀ t, t < L - 2 → slotR L 1 t ≠ 0 ∧ slotR L 1 t ≠ 1 := by slot_omega
  refine ⟨e7, _, hs, ⟨P.wf, ?_, ?_⟩, ?_⟩
  · exact P.keepL rfl fqL (by intro t ht; omega)
  · intro j _ hjL
    by_cases hj0 : j = 0
    · subst hj0
      have := P.newR rfl fr' avR (by omega)
      exact this.mono (by omega)
    · by_cases hj1 : j = 1
      · subst hj1
        exact (P.keepR rfl fr' avR).mono (by omega)
      · exact P.frameR ((hrs j (by omega) hjL).mono (by omega)) hj0 hj1 (by slot_omega)
  · exact good_of_fresh L 1 e 1 false pl pr 0 (L - 1) (by omega) (by omega) (by rw [mi]; exact fl.mono (by omega))
      (by rw [show 1 + 1 - 1 = 1 from rfl, mi]; exact fr) (by omega)

end TenpyModel.C13.P2
