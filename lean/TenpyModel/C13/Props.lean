import TenpyModel.C13.SweepProofs
/-!
# C13 — sweep schedule and environment bookkeeping (list model `TenpyModel/C13/Sweep.lean`)

* `C13_schedule_finite`, `C13_schedule_infinite`  shape of the regenerated `get_sweep_schedule`: right-moving pass over
  every bond followed by a left-moving pass, flags as coded.
* `C13_env_fresh`  finite systems, `n = 1, 2`, every `L ≥ n + 1`, any number of sweeps: no environment is ever missing and
  the `LP`/`RP` read by `update_local` contain *all* sites to the left / right, each at its current version.
* `C13_env_fresh_infinite_partial`  infinite systems, `n = 1, 2`, `2 ≤ L ≤ 7`, three sweeps (kernel evaluation): the leading
  current dependencies of the `LP` and `RP` that are read cover every other site of the unit cell.
-/
open TenpyModel.C13

/-- **Finite sweep schedule** = right-moving pass `i0 = 0 … L-n-1` with `(update_LP, update_RP) = (True, False)`, then
left-moving pass `i0 = L-n … 1` with `(False, True)`. -/
theorem C13_schedule_finite (L n : Nat) :
    Gen.schedule true L n
      = (List.range' 0 (L - n)).map (fun i => (i, true, (true, false)))
        ++ ((List.range' 1 (L - n)).reverse).map (fun i => (i, false, (false, true))) :=
  schedule_finite L n

/-- every bond (`n = 2`) / site (`n = 1`) start index `0 … L-n` is visited, the inner ones in both directions -/
theorem C13_schedule_finite_visits (L n : Nat) (h : n + 1 ≤ L) (i : Nat) (hi : i ≤ L - n) :
    i ∈ (Gen.schedule true L n).map (·.1) ∧ (Gen.schedule true L n).length = 2 * (L - n) := by
  rw [schedule_finite]
  constructor
  · simp only [List.map_append, List.map_map, List.mem_append, List.mem_map, List.mem_range'_1, List.mem_reverse,
      Function.comp]
    by_cases h1 : i < L - n
    · left; exact ⟨i, by omega, rfl⟩
    · right; exact ⟨i, by omega, rfl⟩
  · simp; omega

example : Gen.schedule true 5 2 =
    [(0, true, (true, false)), (1, true, (true, false)), (2, true, (true, false)),
     (3, false, (false, true)), (2, false, (false, true)), (1, false, (false, true))] := by decide

namespace TenpyModel.C13

theorem zip3_map_fst (xs : List Nat) (bs : List Bool) (cs : List (Bool × Bool)) (h1 : xs.length ≤ bs.length)
    (h2 : xs.length ≤ cs.length) : (zip3 xs bs cs).map (·.1) = xs := by
  induction xs generalizing bs cs with
  | nil => cases bs <;> cases cs <;> rfl
  | cons x xs ih =>
    cases bs with
    | nil => simp at h1
    | cons b bs =>
      cases cs with
      | nil => simp at h2
      | cons c cs =>
        simp only [zip3, List.map_cons, List.cons.injEq, true_and]
        exact ih bs cs (by simpa using h1) (by simpa using h2)

theorem sweeps_finite (L n : Nat) (hn : n = 1 ∨ n = 2) (hL : n + 1 ≤ L) (k : Nat) (e : Env) (he : Between L e) :
    ∃ e' logs, sweeps n k e = some (e', logs) ∧ Between L e' ∧ logs.length = k * (2 * (L - n)) ∧
      ∀ l ∈ logs, Good L n l := by
  induction k generalizing e with
  | zero => exact ⟨e, [], rfl, he, by simp, fun _ h => nomatch h⟩
  | succ k ih =>
    obtain ⟨e1, g1, h1, b1, l1, f1⟩ := sweep_finite L n hn hL e he
    obtain ⟨e2, g2, h2, b2, l2, f2⟩ := ih e1 b1
    refine ⟨e2, g1 ++ g2, by simp [sweeps, h1, h2], b2, by simp [l1, l2]; ring, ?_⟩
    intro l hl
    rcases List.mem_append.1 hl with h | h
    · exact f1 l h
    · exact f2 l h

end TenpyModel.C13

/-- **Infinite sweep schedule**: `i0 = 0 … L-1` right-moving then `L … 1` left-moving, `2L` steps. -/
theorem C13_schedule_infinite (L n : Nat) (hn : n = 1 ∨ n = 2) (hL : 2 ≤ L) :
    (Gen.schedule false L n).map (·.1) = List.range' 0 L ++ (List.range' 1 L).reverse := by
  rcases hn with rfl | rfl
  · simp only [Gen.schedule, Bool.false_eq_true, if_false, if_true, show (1 = 2) = False from by simp]
    rw [zip3_map_fst]
    · simp [Gen.i0sInfiniteOne, pyRange, pyRangeDown]
    · simp [Gen.i0sInfiniteOne, Gen.moveRightInfiniteOne, pyRange, pyRangeDown]
    · simp [Gen.i0sInfiniteOne, Gen.updateLPRPInfiniteOne, pyRange, pyRangeDown]; omega
  · simp only [Gen.schedule, Bool.false_eq_true, if_false, if_true]
    rw [zip3_map_fst]
    · simp [Gen.i0sInfiniteTwo, pyRange, pyRangeDown]
    · simp [Gen.i0sInfiniteTwo, Gen.moveRightInfiniteTwo, pyRange, pyRangeDown]
    · simp [Gen.i0sInfiniteTwo, Gen.updateLPRPInfiniteTwo, pyRange, pyRangeDown]; omega

example : Gen.schedule false 3 2 =
    [(0, true, (true, true)), (1, true, (true, true)), (2, true, (true, false)),
     (3, false, (true, true)), (2, false, (true, true)), (1, false, (false, true))] := by decide

/-- **Environments are fresh (finite systems).**  Start from the environments of a new engine (`LP[0]`, `RP[L-1]` only),
run any number of sweeps of the regenerated schedule with `n = 1` or `2` on any `L ≥ n + 1`: no `get_LP/get_RP` ever
fails, and at every step the `LP` read by `make_eff_H` was contracted from exactly the sites `i0-1, …, 0` and the `RP`
from exactly the sites `i0+n, …, L-1`, every one of them at the version the site tensor has at that moment. -/
theorem C13_env_fresh (L n : Nat) (hn : n = 1 ∨ n = 2) (hL : n + 1 ≤ L) (k : Nat) :
    ∃ e logs, sweeps n k (Env.init L true 0 0) = some (e, logs) ∧ logs.length = k * (2 * (L - n)) ∧
      ∀ l ∈ logs, l.freshL = l.readLP.deps.length ∧ l.readLP.deps.length = l.i0 ∧
                  l.freshR = l.readRP.deps.length ∧ l.readRP.deps.length = L - 1 - (l.i0 + n - 1) := by
  obtain ⟨e, logs, h1, _, h3, h4⟩ := sweeps_finite L n hn hL k (Env.init L true 0 0)
    ⟨0, L - 1, List.replicate L 0, init_canon L, by omega, by omega⟩
  exact ⟨e, logs, h1, h3, h4⟩

/-- concrete run (kernel evaluation): `L = 5`, two-site, two sweeps: 12 steps, all reads complete and current -/
example : ((sweeps 2 2 (Env.init 5 true 0 0)).map (fun r => r.2.map (fun l => (l.i0, l.freshL, l.freshR)))) =
    some [(0, 0, 3), (1, 1, 2), (2, 2, 1), (3, 3, 0), (2, 2, 1), (1, 1, 2),
          (0, 0, 3), (1, 1, 2), (2, 2, 1), (3, 3, 0), (2, 2, 1), (1, 1, 2)] := by decide +kernel

namespace TenpyModel.C13

/-- the slots of the unit cell other than the `n` optimised ones all occur among the leading current dependencies of
the two environments that were read -/
def coverOK (L n : Nat) (l : StepLog) : Bool :=
  (List.range L).all (fun s =>
    (List.range n).any (fun t => (l.i0 + t) % L == s) ||
    ((l.readLP.deps.take l.freshL).map (·.1)).contains s || ((l.readRP.deps.take l.freshR).map (·.1)).contains s)

def infiniteOK (L n k : Nat) : Bool :=
  match sweeps n k (Env.init L false 0 0) with
  | none => false
  | some (_, logs) => logs.length == k * (2 * L) && logs.all (coverOK L n)

end TenpyModel.C13

/- Full statement (not proved for all `L`): for every `L ≥ 2`, `n ∈ {1, 2}` and every number of sweeps `k`,
   `infiniteOK L n k = true`.  The invariant needs a closed form of the stored set after each of the `2L` steps including
   the wrap-around steps with `(update_LP, update_RP) = (True, True)`; the finite case above has that closed form
   (`canon`).  Proved below for `2 ≤ L ≤ 7` and three sweeps by kernel evaluation; the harness compares the model trace
   with the real engine for the lengths it runs. -/
theorem C13_env_fresh_infinite_partial :
    ∀ L ∈ [2, 3, 4, 5, 6, 7], ∀ n ∈ [1, 2], infiniteOK L n 3 = true := by decide +kernel
