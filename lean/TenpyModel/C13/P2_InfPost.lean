import TenpyModel.C13.P2_InfStep
import TenpyModel.C13.Props
/-!
# C13 / Props2 — consequences of `step_spec`: which freshness facts survive a step, which are created;
coverage of the unit cell by the fresh prefixes of the two parts that were read.
-/
set_option linter.unusedSimpArgs false
namespace TenpyModel.C13.P2
open TenpyModel.C13

namespace Post
variable {L n : Nat} {e : Env} {mr uLP uRP : Bool} {sL sR : Nat} {qL qR : EnvPart} {e7 : Env}

/-- a stored `LP[j]`, `j` not one of the two updated slots, stays; its fresh prefix survives if it avoids them -/
theorem frameL (P : Post L n e mr uLP uRP sL sR qL qR e7) {j d : Nat} (h : StoredL L e j d)
    (h1 : j ≠ sL) (h2 : j ≠ sR) (hav : ∀ t, t < d → slotL L j t ≠ sL ∧ slotL L j t ≠ sR) : StoredL L e7 j d := by
  obtain ⟨p, hp, hf⟩ := h
  refine ⟨p, ?_, ?_⟩
  · rw [P.lp j, if_neg h1, if_neg h2]; exact hp
  · rw [P.ver]; exact FreshL_bump L e.ver sL sR j d p hf hav

theorem frameR (P : Post L n e mr uLP uRP sL sR qL qR e7) {j d : Nat} (h : StoredR L e j d)
    (h1 : j ≠ sL) (h2 : j ≠ sR) (hav : ∀ t, t < d → slotR L j t ≠ sL ∧ slotR L j t ≠ sR) : StoredR L e7 j d := by
  obtain ⟨p, hp, hf⟩ := h
  refine ⟨p, ?_, ?_⟩
  · rw [P.rp j, if_neg h2, if_neg h1]; exact hp
  · rw [P.ver]; exact FreshR_bump L e.ver sL sR j d p hf hav

/-- `LP[i_L]` stays unless `free_no_longer_needed_envs` removes it -/
theorem keepL (P : Post L n e mr uLP uRP sL sR qL qR e7) (hfree : freeL n mr uRP = false) {d : Nat}
    (h : FreshL L e.ver sL d qL) (hav : ∀ t, t < d → slotL L sL t ≠ sL ∧ slotL L sL t ≠ sR) :
    StoredL L e7 sL d := by
  refine ⟨qL, ?_, ?_⟩
  · rw [P.lp sL, if_pos rfl, hfree]; rfl
  · rw [P.ver]; exact FreshL_bump L e.ver sL sR sL d qL h hav

theorem keepR (P : Post L n e mr uLP uRP sL sR qL qR e7) (hfree : freeR n mr uLP = false) {d : Nat}
    (h : FreshR L e.ver sR d qR) (hav : ∀ t, t < d → slotR L sR t ≠ sL ∧ slotR L sR t ≠ sR) :
    StoredR L e7 sR d := by
  refine ⟨qR, ?_, ?_⟩
  · rw [P.rp sR, if_pos rfl, hfree]; rfl
  · rw [P.ver]; exact FreshR_bump L e.ver sL sR sR d qR h hav

/-- `update_LP`: the new `LP[i_R]` = new tensor on `i_L` absorbed into the old `LP[i_L]` -/
theorem newL (P : Post L n e mr uLP uRP sL sR qL qR e7) (hu : uLP = true) {d : Nat}
    (h : FreshL L e.ver sL d qL) (hav : ∀ t, t < d → slotL L sL t ≠ sL ∧ slotL L sL t ≠ sR) (hd : d + 1 ≤ L) :
    StoredL L e7 sR (d + 1) := by
  refine ⟨absorb L (bumpVer e.ver sL sR) sL qL, ?_, ?_⟩
  · rw [P.lp sR, if_neg (Ne.symm P.ne), if_pos rfl, if_pos hu]
  · rw [P.ver]
    exact FreshL_absorb L _ sR sL d qL (by omega) P.ltR P.prevR (FreshL_bump L e.ver sL sR sL d qL h hav) hd

theorem newR (P : Post L n e mr uLP uRP sL sR qL qR e7) (hu : uRP = true) {d : Nat}
    (h : FreshR L e.ver sR d qR) (hav : ∀ t, t < d → slotR L sR t ≠ sL ∧ slotR L sR t ≠ sR) (hd : d + 1 ≤ L) :
    StoredR L e7 sL (d + 1) := by
  refine ⟨absorb L (bumpVer e.ver sL sR) sR qR, ?_, ?_⟩
  · rw [P.rp sL, if_neg P.ne, if_pos rfl, if_pos hu]
  · rw [P.ver]
    exact FreshR_absorb L _ sL sR d qR (by omega) P.ltL P.nextL (FreshR_bump L e.ver sL sR sR d qR h hav) hd

end Post

/-! ### coverage -/

/-- what is proved about every step: the slots of the unit cell other than the `n` optimised ones all occur among the
leading current dependencies of the two environments that were read; these prefixes have total length `≥ L - n` -/
def GoodInf (L n : Nat) (l : StepLog) : Prop := coverOK L n l = true ∧ L - n ≤ l.freshL + l.freshR

theorem add_offset_mod (L a s : Nat) (ha : a < L) (hs : s < L) :
    (a + (if a ≤ s then s - a else s + L - a)) % L = s := by
  rw [mod_wrap L _ (by split <;> omega)]
  split <;> split <;> omega

theorem good_of_fresh (L n : Nat) (e : Env) (i0 : Nat) (mr : Bool) (pl pr : EnvPart) (dl dr : Nat)
    (hn : 1 ≤ n) (hL : 1 ≤ L)
    (hl : FreshL L e.ver (i0 % L) dl pl) (hr : FreshR L e.ver ((i0 + n - 1) % L) dr pr) (hsum : L - n ≤ dl + dr) :
    GoodInf L n ⟨i0, mr, pl, pr, freshDepth e pl.deps, freshDepth e pr.deps⟩ := by
  have gl := freshDepth_ge e pl.deps (fun t => slotL L (i0 % L) t) dl hl
  have gr := freshDepth_ge e pr.deps (fun t => slotR L ((i0 + n - 1) % L) t) dr hr
  refine ⟨?_, by simp only; omega⟩
  unfold coverOK
  rw [List.all_eq_true]
  intro s hs
  rw [List.mem_range] at hs
  have ha : i0 % L < L := Nat.mod_lt _ (by omega)
  simp only [Bool.or_eq_true, List.any_eq_true, List.mem_range, beq_iff_eq, List.contains_iff_mem]
  -- offset of `s` from `i0` around the ring
  obtain ⟨u, hu, hulen⟩ : ∃ u, (i0 % L + u) % L = s ∧ u < L :=
    ⟨if i0 % L ≤ s then s - i0 % L else s + L - i0 % L, add_offset_mod L _ s ha hs, by split <;> omega⟩
  have hu' : (i0 + u) % L = s := by rw [← Nat.mod_add_mod]; exact hu
  by_cases h1 : u < n
  · left; left; exact ⟨u, h1, hu'⟩
  · by_cases h2 : u - n < dr
    · right
      have := mem_fresh_prefix e pr.deps (fun t => slotR L ((i0 + n - 1) % L) t) dr hr (u - n) h2
      have e1 : slotR L ((i0 + n - 1) % L) (u - n) = s := by
        unfold slotR
        rw [Nat.add_assoc, Nat.mod_add_mod]
        have : i0 + n - 1 + (1 + (u - n)) = i0 + u := by omega
        rw [this, hu']
      simp only [e1] at this
      exact this
    · left; right
      have ht : L - 1 - u < dl := by omega
      have := mem_fresh_prefix e pl.deps (fun t => slotL L (i0 % L) t) dl hl (L - 1 - u) ht
      have e1 : slotL L (i0 % L) (L - 1 - u) = s := by
        unfold slotL
        have : i0 % L + L - 1 - (L - 1 - u) = i0 % L + u := by omega
        rw [this, hu]
      simp only [e1] at this
      exact this

/-- tactic for the side conditions "the first `d` slots of this part avoid the two updated slots" -/
macro "slot_omega" : tactic =>
  `(tactic| (intro t ht
             first
               | (rw [slotL_eq _ _ _ (by omega) (by omega)]; constructor <;> split <;> omega)
               | (rw [slotR_eq _ _ _ (by omega) (by omega)]; constructor <;> split <;> omega)))

end TenpyModel.C13.P2
