import TenpyModel.C13.P2_SectorEffH
import TenpyModel.C13.P2_OrthoGS
import TenpyModel.C13.P2_OrthoAbs
/-!
# C13 — `C13_sector` and `C13_orthogonal_projector` (final statements; helpers in `P2_SectorChain`, `P2_SectorEffH`,
`P2_OrthoList`, `P2_OrthoAbs`; everything in namespace `TenpyModel.C13.P2b`)

## sector
* `sector_main`    the five `matvec` bodies of `OneSiteH` / `TwoSiteH` (`combine` on/off, both directions), line by
                   line over the C02 structure model: sane operands, the call returns ⇒ the result is sane, over the
                   same `chinfo`, `qtotal = make_valid(Σ qtotal(network tensors) + theta.qtotal)`; hence equal to
                   `theta.qtotal` when the charges of the network tensors add up to 0 modulo the charge moduli (in
                   particular when each of them is 0) — any number of charges, any moduli.
* `sector_main_a`  the same for ANY chain of `tensordot`s followed by an `itranspose`.
* `sector_main_b`  every vector a Krylov solver builds from `theta` (matvec, `iscale_prefactor`,
                   `iadd_prefactor_other`) is sane and in the sector of `theta`; two such vectors never trip the
                   `qtotal` check of `iadd_prefactor_other`.
* `sector_main_c`  `to_matrix()` has `qtotal = make_valid(Σ qtotal(network tensors))`: "H.qtotal = 0" is the
                   hypothesis of `sector_main`.

## orthogonal projector
* `orthogonal_projector_main`    list model (`Op.ortho`, `Op.apply`, `runGS` of C16): orthonormal `os` ⇒ every `matvec`
                   result ⟂ every `o`; start vector ⟂ every `o`, exact normalisation ⇒ all Lanczos vectors, the FIFO
                   cache and the returned vector ⟂ every `o` (any `E_shift`, `reortho`, cache size, oracles).
* `orthogonal_projector_main_a`  abstract inner product space over `RCLike 𝕜`: coded double loop = `P H P`, results ⟂
                   `o i`; for everything generated from `ψ0`: `⟪o i, x⟫ = c ⟪o i, ψ0⟫`; three-term recurrence.
* `orthogonal_projector_main_b`  with `os = gram_schmidt(vecs)` — what `OrthogonalNpcLinearOperator.__init__` does to
                   the (not orthonormal) `ortho_vecs` handed over by `Sweep._wrap_ortho_eff_H`.
* `orthogonal_projector_counterexample`  the hypothesis "start vector ⟂ os" cannot be dropped (and the engine does not
                   project `theta_guess`): a concrete run whose returned vector has overlap with `o`.
-/
namespace TenpyModel.C13.P2b

section Sector
open TenpyModel.Core TenpyModel.C02 TenpyModel.C02P2

/-! ## 1. sector -/

/-- **`matvec` with `H.qtotal = 0` preserves `theta.qtotal`** — `OneSiteH.matvec` / `TwoSiteH.matvec` as coded. -/
theorem sector_main (cy : Bool) (H : EffH) (θ r : ArrS) (labels : List Int)
    (hH : ∀ X ∈ H.parts, X.WF) (hθ : θ.WF) (h : H.matvec cy θ labels = some r) :
    r.WF ∧ r.mods = θ.mods ∧ (∀ X ∈ H.parts, X.mods = θ.mods) ∧
    r.qtotal = makeValid θ.mods (cadd H.qsum θ.qtotal) ∧
    (makeValid θ.mods H.qsum = czero θ.mods.length → r.qtotal = θ.qtotal) ∧
    ((∀ X ∈ H.parts, X.qtotal = czero θ.mods.length) → r.qtotal = θ.qtotal) := by
  rw [EffH.matvec_eq_steps] at h
  cases hrun : runSteps cy H.steps θ with
  | none => simp [hrun] at h
  | some t =>
    simp only [hrun, Option.bind_some] at h
    obtain ⟨tw, ms, tm, tq⟩ :=
      sect_runSteps_spec H.steps (fun s hs => hH _ (EffH.mem_steps_arr H s hs)) hθ hrun
    obtain ⟨rw', rm, rq⟩ := sect_itranspose_spec tw h
    have hq : r.qtotal = makeValid θ.mods (cadd H.qsum θ.qtotal) := by
      rw [rq, tq, sect_chainCharge_steps]
    have hneutral : makeValid θ.mods H.qsum = czero θ.mods.length → r.qtotal = θ.qtotal := fun hz => by
      rw [hq]; exact sect_add_trivial _ _ _ ((WF_iff θ).1 hθ).qtotal_valid hz
    refine ⟨rw', rm.trans tm, ?_, hq, hneutral, fun hz => hneutral (sect_qsum_zero H θ.mods hz)⟩
    intro X hX
    obtain ⟨s, hs, rfl⟩ := EffH.mem_parts_steps H X hX
    exact ms s hs

/-- **any chain of contractions** `theta = tensordot(X, theta)` / `theta = tensordot(theta, X)` followed by
`itranspose`: the total charges add up; neutral operands keep the sector. -/
theorem sector_main_a (cy : Bool) (steps : List TdStep) (θ r : ArrS) (labels : Option (List Int))
    (hs : ∀ s ∈ steps, s.arr.WF) (hθ : θ.WF)
    (h : (runSteps cy steps θ).bind (fun t => t.itranspose labels) = some r) :
    r.WF ∧ r.mods = θ.mods ∧ r.qtotal = makeValid θ.mods (chainCharge steps θ.qtotal) ∧
    ((∀ s ∈ steps, s.arr.qtotal = czero θ.mods.length) → r.qtotal = θ.qtotal) := by
  cases hrun : runSteps cy steps θ with
  | none => simp [hrun] at h
  | some t =>
    simp only [hrun, Option.bind_some] at h
    obtain ⟨tw, _, tm, tq⟩ := sect_runSteps_spec steps hs hθ hrun
    obtain ⟨rw', rm, rq⟩ := sect_itranspose_spec tw h
    have hv := ((WF_iff θ).1 hθ).qtotal_valid
    refine ⟨rw', rm.trans tm, by rw [rq, tq], fun hz => ?_⟩
    rw [rq, tq, sect_chainCharge_zero _ steps hz _ (C02.checkValid_length hv), C02.makeValid_of_checkValid _ _ hv]

/-- **every Krylov vector stays in the sector of the start vector** (and is sane, over the same `chinfo`); hence
`iadd_prefactor_other` between two of them never raises for unequal `qtotal`.  `mv` is any `matvec` that keeps
sanity, `chinfo` and `qtotal` — by `sector_main` each of the five coded ones with neutral network tensors. -/
theorem sector_main_b (cy : Bool) (mv : ArrS → Option ArrS) (θ0 : ArrS) (hθ : θ0.WF)
    (hmv : ∀ x r, x.WF → x.mods = θ0.mods → mv x = some r → r.WF ∧ r.mods = x.mods ∧ r.qtotal = x.qtotal) :
    (∀ x, SectorReach cy mv θ0 x → x.WF ∧ x.mods = θ0.mods ∧ x.qtotal = θ0.qtotal) ∧
    (∀ x y, SectorReach cy mv θ0 x → SectorReach cy mv θ0 y → x.qtotal = y.qtotal) := by
  have key : ∀ x, SectorReach cy mv θ0 x → x.WF ∧ x.mods = θ0.mods ∧ x.qtotal = θ0.qtotal := by
    intro x hx
    induction hx with
    | start => exact ⟨hθ, rfl, rfl⟩
    | matvec _ hr ih =>
      obtain ⟨w, m, q⟩ := ih
      obtain ⟨w', m', q'⟩ := hmv _ _ w m hr
      exact ⟨w', m'.trans m, q'.trans q⟩
    | scale z _ ih =>
      obtain ⟨w, m, q⟩ := ih
      refine ⟨C02_WF_iscalePrefactor _ z w, ?_, (sect_iscale_qtotal _ z).trans q⟩
      unfold ArrS.mods; rw [sect_iscale_legs]; exact m
    | axpyL perm z _ _ hperm hadd ihx ihy =>
      obtain ⟨wx, mx, qx⟩ := ihx
      obtain ⟨wy, _, _⟩ := ihy
      refine ⟨(C02_WF_iaddPrefactorOther cy _ _ perm z _ _ wx wy hperm hadd).1, ?_,
        (sect_iadd_qtotal hadd).1.trans qx⟩
      unfold ArrS.mods; rw [(sect_iadd_legs hadd).1]; exact mx
    | axpyR perm z _ _ hperm hadd ihx ihy =>
      obtain ⟨wx, _, _⟩ := ihx
      obtain ⟨wy, my, qy⟩ := ihy
      refine ⟨(C02_WF_iaddPrefactorOther cy _ _ perm z _ _ wx wy hperm hadd).2, ?_,
        (sect_iadd_qtotal hadd).2.trans qy⟩
      unfold ArrS.mods; rw [(sect_iadd_legs hadd).2]; exact my
  exact ⟨key, fun x y hx hy => (key x hx).2.2.trans (key y hy).2.2.symm⟩

/-- the hypothesis of `sector_main_b` for the coded effective Hamiltonians with neutral total charge -/
theorem sector_main_b_hyp (cy : Bool) (H : EffH) (labels : List Int) (θ0 : ArrS) (hH : ∀ X ∈ H.parts, X.WF)
    (hz : makeValid θ0.mods H.qsum = czero θ0.mods.length) :
    ∀ x r, x.WF → x.mods = θ0.mods → H.matvec cy x labels = some r → r.WF ∧ r.mods = x.mods ∧ r.qtotal = x.qtotal := by
  intro x r hx hm h
  obtain ⟨w, m, _, _, hn, _⟩ := sector_main cy H x r labels hH hx h
  exact ⟨w, m, hn (by rw [hm]; exact hz)⟩

/-- **`to_matrix()`**: the effective Hamiltonian as one tensor has `qtotal = make_valid(Σ qtotal(network tensors))`
(`chinfo` = that of its first tensor): `H.qtotal = 0` is exactly the hypothesis `make_valid(H.qsum) = 0` of
`sector_main` (there `chinfo` of `theta` = `chinfo` of every network tensor). -/
theorem sector_main_c (cy : Bool) (H : EffH) (axes : List TdAxes) (groups : List (List Nat)) (m : ArrS)
    (hH : ∀ X ∈ H.parts, X.WF) (hax : axes.length = H.rest.length)
    (h : H.toMatrix cy axes groups = some m) :
    m.WF ∧ m.qtotal = makeValid H.first.mods H.qsum := by
  unfold EffH.toMatrix at h
  cases hrun : runSteps cy ((H.rest.zip axes).map (fun p => TdStep.post p.1 p.2)) H.first with
  | none => simp [hrun] at h
  | some t =>
    simp only [hrun, Option.bind_some] at h
    have hfirst : H.first.WF := hH _ (List.mem_cons_self ..)
    have hsteps : ∀ s ∈ (H.rest.zip axes).map (fun p => TdStep.post p.1 p.2), s.arr.WF := by
      intro s hs
      obtain ⟨p, hp, rfl⟩ := List.mem_map.1 hs
      exact hH _ (List.mem_cons_of_mem _ (List.of_mem_zip hp).1)
    obtain ⟨tw, _, _, tq⟩ := sect_runSteps_spec _ hsteps hfirst hrun
    have hqc : ∀ v, some v ∈ [some (1 : Int), some (-1)] → v = 1 ∨ v = -1 := by
      intro v hv; simp at hv; exact hv
    refine ⟨C02_WF_combineLegs t groups none _ m tw hqc h, ?_⟩
    rw [C02_qtotal_combineLegs t groups none _ m tw hqc h, tq]
    congr 1
    cases H <;> simp only [EffH.rest, EffH.first, EffH.qsum] at hax ⊢
    all_goals
      (repeat (cases axes with
        | nil => simp at hax
        | cons a axes => ?_))
      simp only [List.zip_cons_cons, List.zip_nil_left, List.map_cons, List.map_nil, chainCharge, TdStep.arr]
      ac_rfl

/-! ### non-vacuity: a `U(1) × Z₂` network (virtual legs with two sectors, physical leg with two sectors, trivial MPO
leg), `theta.qtotal = (1, 1)`; all tensors hold every block their total charge allows (`from_func`) -/
namespace SectorEx

def M : List Nat := [1, 2]
def vLeg (qc : Int) : LegS := .plain (Leg.fromQflat M [[0, 0], [0, 1]] qc)
def pLeg (qc : Int) : LegS := .plain (Leg.fromQflat M [[0, 0], [1, 1]] qc)
def wLeg (qc : Int) : LegS := .plain (Leg.fromQflat M [[0, 0]] qc)
def mk (legs : List LegS) (q : Charge) : ArrS :=
  match fromFunc legs (some q) with
  | some a => a
  | none => { legs := [], qtotal := [], qdata := [], sorted := true }

/-- labels `vL, p0, vR` -/
def theta : ArrS := mk [vLeg 1, pLeg 1, vLeg (-1)] [1, 1]
/-- labels `vR*, wR, vR` -/
def LP (q : Charge) : ArrS := mk [vLeg 1, wLeg 1, vLeg (-1)] q
/-- labels `wL, wR, p0, p0*` -/
def W0 : ArrS := mk [wLeg (-1), wLeg 1, pLeg 1, pLeg (-1)] [0, 0]
/-- labels `wL, vL, vL*` -/
def RP (q : Charge) : ArrS := mk [wLeg (-1), vLeg 1, vLeg (-1)] q

/-- `OneSiteH` with the label axes of `matvec` resolved to positions -/
def H1 (qL qR : Charge) : EffH :=
  .one (LP qL) W0 (RP qR) (.inr ([2], [0])) (.inr ([0, 3], [1, 2])) (.inr ([0, 3], [0, 1]))

end SectorEx

open SectorEx in
/-- neutral network: the hypotheses of `sector_main` hold, the call returns a tensor with stored blocks on the legs
and in the sector of `theta` -/
example : (∀ X ∈ (H1 [0, 0] [0, 0]).parts, X.WF) ∧ theta.WF ∧ theta.qdata.length = 2 ∧
    (∀ X ∈ (H1 [0, 0] [0, 0]).parts, X.qtotal = czero theta.mods.length) ∧
    (((H1 [0, 0] [0, 0]).matvec false theta [1, 0, 2]).map fun r => (r.legs == theta.legs, r.qtotal, r.qdata.length))
      = some (true, [1, 1], 2) := by
  decide +kernel

open SectorEx in
/-- charged environments whose charges cancel modulo the moduli (`(0,1) + (0,0) + (0,1) = (0,2) ≡ 0`): the weaker
hypothesis of `sector_main` holds and the result has blocks -/
example : (∀ X ∈ (H1 [0, 1] [0, 1]).parts, X.WF) ∧
    makeValid theta.mods (H1 [0, 1] [0, 1]).qsum = czero theta.mods.length ∧
    (((H1 [0, 1] [0, 1]).matvec true theta [1, 0, 2]).map fun r => (r.legs == theta.legs, r.qtotal, r.qdata.length))
      = some (true, [1, 1], 2) := by
  decide +kernel

namespace SectorEx
/-- labels `vL, p0, p1, vR` -/
def theta2 : ArrS := mk [vLeg 1, pLeg 1, pLeg 1, vLeg (-1)] [1, 1]
/-- `TwoSiteH`: `W1` with labels `wL, wR, p1, p1*` is the same tensor as `W0` -/
def H2 : EffH :=
  .two (LP [0, 0]) W0 W0 (RP [0, 0]) (.inr ([2], [0])) (.inr ([0, 3], [1, 2])) (.inr ([0, 3], [0, 3]))
    (.inr ([3, 2], [0, 1]))
/-- `LHeff.make_pipe(['vR*', p], qconj=+1)` -/
def pipeL : Pipe := Pipe.init [(vLeg 1).leg, (pLeg 1).leg] 1 true true
/-- a tensor on the legs of `env._contract_LHeff(i0)`: labels `(vR*.p0), wR, (vR.p0*)` (pipe, MPO leg, conjugate pipe) -/
def LHeff : ArrS := mk [.pipe pipeL, wLeg 1, .pipe pipeL.conj] [0, 0]
/-- `combine_theta`: labels `(vL.p0), vR` -/
def thetaC : Option ArrS := theta.combineLegs [[0, 1]] none [some 1]
end SectorEx

open SectorEx in
/-- two-site network, compiled-kernel variant of `_tensordot_transpose_axes` -/
example : (∀ X ∈ H2.parts, X.WF) ∧ theta2.WF ∧ (∀ X ∈ H2.parts, X.qtotal = czero theta2.mods.length) ∧
    ((H2.matvec true theta2 [1, 0, 2, 3]).map fun r => (r.legs == theta2.legs, r.qtotal, decide (0 < r.qdata.length)))
      = some (true, [1, 1], true) := by
  decide +kernel

open SectorEx in
/-- `combine=True`, `move_right=True`: `theta` combined by `combine_theta` (`make_pipe` yields `pipeL` again) -/
example : LHeff.WF ∧ (RP [0, 0]).WF ∧ LHeff.qtotal = [0, 0] ∧ decide (0 < LHeff.qdata.length) = true ∧
    (thetaC.bind fun t =>
      ((EffH.oneR LHeff (RP [0, 0]) (.inr ([2], [0])) (.inr ([1, 2], [0, 1]))).matvec false t [0, 1]).map fun r =>
        (decide t.WF, r.legs == t.legs, r.qtotal, decide (0 < r.qdata.length)))
      = some (true, true, [1, 1], true) := by
  decide +kernel

open SectorEx in
/-- `sector_main_b`: its hypothesis holds for the example network (`sector_main_b_hyp`), and a Krylov step
`w = H theta; w.iadd_prefactor_other(-alpha, theta)` goes through -/
example : (∀ x r, x.WF → x.mods = theta.mods → (H1 [0, 1] [0, 1]).matvec false x [1, 0, 2] = some r →
      r.WF ∧ r.mods = x.mods ∧ r.qtotal = x.qtotal) ∧
    (((H1 [0, 1] [0, 1]).matvec false theta [1, 0, 2]).bind fun w =>
      ArrS.iaddPrefactorOther false w theta none false).isSome = true :=
  ⟨sector_main_b_hyp false (H1 [0, 1] [0, 1]) [1, 0, 2] theta (by decide +kernel) (by decide +kernel), by decide +kernel⟩

/-- `List.mergeSort` is defined by well-founded recursion, which `decide` cannot evaluate: two elements by hand -/
theorem sect_mergeSort_two (f : Nat → Nat → Bool) (h : f 0 1 = true) : (List.range 2).mergeSort f = [0, 1] := by
  have : List.range 2 = [0, 1] := rfl
  rw [this]
  simp [List.mergeSort, List.MergeSort.Internal.splitInTwo, h]

namespace SectorEx
def tmAxes : List TdAxes := [.inr ([1], [0]), .inr ([2], [0])]
/-- `contr` of `OneSiteH.to_matrix` before `combine_legs`: labels `vR*, vR, p0, p0*, vL, vL*` -/
def contr : ArrS :=
  match runSteps false (((H1 [0, 1] [0, 1]).rest.zip tmAxes).map (fun p => TdStep.post p.1 p.2)) (H1 [0, 1] [0, 1]).first with
  | some t => t
  | none => W0
end SectorEx

open SectorEx in
/-- `to_matrix` of the one-site network with charged environments:
`contr.combine_legs([['vR*', 'p0', 'vL*'], ['vR', 'p0*', 'vL']], qconj=[+1, -1])` is a sane matrix with blocks and
`qtotal = 0` -/
example : (∀ X ∈ (H1 [0, 1] [0, 1]).parts, X.WF) ∧ tmAxes.length = (H1 [0, 1] [0, 1]).rest.length ∧
    (((H1 [0, 1] [0, 1]).toMatrix false tmAxes [[0, 2, 5], [1, 3, 4]]).map fun m =>
      (decide m.WF, m.rank, m.qtotal, decide (0 < m.qdata.length))) = some (true, 2, [0, 0], true) := by
  refine ⟨by decide +kernel, by decide +kernel, ?_⟩
  have hA : runSteps false (((H1 [0, 1] [0, 1]).rest.zip tmAxes).map (fun p => TdStep.post p.1 p.2))
      (H1 [0, 1] [0, 1]).first = some contr := by decide +kernel
  have hna : ArrS.combineNewAxes contr.rank [[0, 2, 5], [1, 3, 4]] none = some ([0, 1], [0, 2, 5, 1, 3, 4]) := by
    unfold ArrS.combineNewAxes
    simp only [List.map_cons, List.map_nil, List.length_cons, List.length_nil]
    rw [sect_mergeSort_two _ (by decide +kernel)]
    decide +kernel
  unfold EffH.toMatrix
  rw [hA]
  simp only [Option.bind_some]
  unfold ArrS.combineLegs ArrS.combineWithPipes
  rw [hna]
  simp only [List.length_cons, List.length_nil]
  rw [sect_mergeSort_two _ (by decide)]
  decide +kernel

end Sector

/-! ## 2. orthogonal projector — list model of C16 -/

section OrthoList
open TenpyModel.C16

/-- **`OrthogonalNpcLinearOperator` keeps everything orthogonal to the `o`s** (list model: `Op.ortho A os`,
`Op.apply`, `build`, `runGS`).  `os` orthonormal with `n` entries each (established in `__init__` by `gram_schmidt`,
see `orthogonal_projector_main_b`), the wrapped operator keeps the number of entries.  Then
1. every `matvec` result is orthogonal to every `o` — for every input vector;
2. for a start vector orthogonal to every `o`, exact normalisation (`ar.rnd = id`; the square-root oracle `ar.sq`, the
   convergence oracle, the eigen-solver oracle, `E_shift`, `reortho`, `N_cache ≥ 1` are arbitrary): every Lanczos
   vector `v_j`, every vector in the FIFO cache when the build loop exits, and the returned vector (a combination of
   the `v_j`, partly rebuilt by `_rebuild_krylov_for_result_full`) are orthogonal to every `o`. -/
theorem orthogonal_projector_main (A : Op) (os : List Vec) (n : Nat) (hON : ON n os)
    (hA : ∀ u : Vec, u.length = n → (A.apply u).length = n) :
    (∀ v : Vec, v.length = n →
      ((Op.ortho A os).apply v).length = n ∧ ∀ c ∈ os, dot c ((Op.ortho A os).apply v) = 0) ∧
    (∀ (ar : Arith) (o : Opts) (eShift : Option Rat) (conv : Nat → List Rat → List Rat → Bool)
        (eig : Nat → List Rat → List Rat → Rat × List Rat) (psi0 : Vec),
      (∀ x, ar.rnd x = x) → 1 ≤ o.nCache → 1 ≤ o.nMax → psi0.length = n → (∀ c ∈ os, dot c psi0 = 0) →
      (∀ j, ∀ c ∈ os, dot c (vAt (withShift (.ortho A os) eShift).apply ar o.reortho o.nCache psi0 j) = 0) ∧
      (∀ N s, build (withShift (.ortho A os) eShift).apply ar o conv psi0 = some (N, s) →
        ∀ v ∈ s.cache, ∀ c ∈ os, dot c v = 0) ∧
      (∀ res, runGS (.ortho A os) ar o eShift conv eig psi0 = some res →
        res.psi.length = n ∧ ∀ c ∈ os, dot c res.psi = 0)) := by
  refine ⟨fun v hv => ortho_apply_perp A os n hON hA v hv, ?_⟩
  intro ar o eShift conv eig psi0 hr hnc hmax hlen hperp
  obtain ⟨B, hB, hBlen⟩ := ortho_withShift A os n hA eShift
  have hA' : ∀ v : Vec, v.length = n → Perp n os ((withShift (.ortho A os) eShift).apply v) := by
    intro v hv; rw [hB]; exact ortho_apply_perp B os n hON hBlen v hv
  have h0 : Perp n os psi0 := ⟨hlen, hperp⟩
  refine ⟨fun j => (ortho_vAt_perp _ hA' ar hr _ _ hnc psi0 h0 j).2, ?_, ?_⟩
  · intro N s hs v hv
    exact ((ortho_build_cache_perp _ hA' ar hr o hnc conv psi0 h0 N s hs).1 v hv).2
  · intro res hres
    rw [C16_rebuild_consistent _ ar o hnc hmax] at hres
    exact ortho_runRef_perp _ ar hr o hnc eShift hA' conv eig psi0 h0 res hres

namespace OrthoEx
/-- exact roots of the squares met in the two runs below; `√2 ≈ 99/70` (final normalisation only) -/
def ar : Arith :=
  { sq := fun x => if x = 25 then 5 else if x = 49 / 625 then 7 / 25 else if x = 16 / 25 then 4 / 5
            else if x = 9 / 25 then 3 / 5 else if x = 2 then 99 / 70 else 0,
    rnd := id }
/-- open chain of three sites -/
def path3 : Op := .mat [[0, 1, 0], [1, 0, 1], [0, 1, 0]]
def opts : Opts := ⟨2, 2, 2, false, 0⟩
def eig : Nat → List Rat → List Rat → Rat × List Rat := fun _ _ _ => (-1, [1, -1])
theorem on_e0 : ON 3 [[1, 0, 0]] := by
  refine ⟨fun c hc => ?_, List.pairwise_singleton _ _⟩
  rw [List.mem_singleton] at hc
  subst hc
  exact ⟨rfl, by decide +kernel⟩
theorem path3_len (u : Vec) : (path3.apply u).length = 3 := by simp [path3, Op.apply, matvec]
end OrthoEx

open OrthoEx in
/-- non-vacuity: `os = [e₀]`, start vector `(0, 3, 4) ⟂ e₀`: hypotheses hold; the run makes two Lanczos steps and
returns `(0, -14/99, 98/99)` -/
example : ON 3 [[1, 0, 0]] ∧ (∀ u : Vec, u.length = 3 → (path3.apply u).length = 3) ∧ (∀ x, ar.rnd x = x) ∧
    dot [1, 0, 0] [0, 3, 4] = 0 ∧
    (runGS (.ortho path3 [[1, 0, 0]]) ar opts none (fun _ _ _ => false) eig [0, 3, 4]).map (fun r => (r.N, r.psi))
      = some (2, [0, -14 / 99, 98 / 99]) := by
  exact ⟨on_e0, fun u _ => path3_len u, fun _ => rfl, by decide +kernel, by decide +kernel⟩

/-- **the hypothesis "start vector ⟂ os" cannot be dropped**: the same operator, orthonormal `os = [e₀]`, exact
normalisations in the build loop, start vector `(3, 4, 0)`: the returned vector has overlap `14/33` with `e₀`
(only `matvec` *results* are projected; the first Lanczos vector is the normalised start vector itself, and
`DMRGEngine`/`KrylovBased.__init__` do not project `theta_guess`/`psi0`). -/
theorem orthogonal_projector_counterexample :
    ∃ (A : Op) (os : List Vec) (ar : Arith) (o : Opts) (conv : Nat → List Rat → List Rat → Bool)
      (eig : Nat → List Rat → List Rat → Rat × List Rat) (psi0 : Vec) (res : GSResult),
      ON 3 os ∧ (∀ u : Vec, u.length = 3 → (A.apply u).length = 3) ∧ (∀ x, ar.rnd x = x) ∧ psi0.length = 3 ∧
      runGS (.ortho A os) ar o none conv eig psi0 = some res ∧ ∃ c ∈ os, dot c res.psi ≠ 0 := by
  have h : (runGS (.ortho OrthoEx.path3 [[1, 0, 0]]) OrthoEx.ar OrthoEx.opts none (fun _ _ _ => false) OrthoEx.eig
      [3, 4, 0]).map (fun r => r.psi) = some [14 / 33, 56 / 99, -70 / 99] := by decide +kernel
  obtain ⟨res, hres, hpsi⟩ := Option.map_eq_some_iff.1 h
  refine ⟨OrthoEx.path3, [[1, 0, 0]], OrthoEx.ar, OrthoEx.opts, fun _ _ _ => false, OrthoEx.eig, [3, 4, 0], res,
    OrthoEx.on_e0, fun u _ => OrthoEx.path3_len u, fun _ => rfl, rfl, hres, [1, 0, 0], List.mem_singleton.2 rfl, ?_⟩
  rw [hpsi]
  decide +kernel

/-- **what the constructor establishes**: `OrthogonalNpcLinearOperator.__init__` stores
`gram_schmidt(ortho_vecs)`; the `ortho_vecs` of `Sweep._wrap_ortho_eff_H` (`LP · theta_ortho · RP`) are neither
normalised nor mutually orthogonal.  Exact square roots, no rounding, `rcond ≥ 0`: the stored list is orthonormal, so
`orthogonal_projector_main` applies to it.  If moreover `rcond = 0` and the roots are `≥ 0`, a vector orthogonal to
the stored list is orthogonal to every given vector — in particular every `matvec` result is. -/
theorem orthogonal_projector_main_b (A : Op) (ar : Arith) (hr : ∀ x, ar.rnd x = x) (rcond : Rat) (hrc : 0 ≤ rcond)
    (n : Nat) (vecs : List Vec) (hv : ∀ v ∈ vecs, v.length = n) (hex : GSExact ar rcond [] vecs)
    (hA : ∀ u : Vec, u.length = n → (A.apply u).length = n) :
    ON n (gramSchmidt ar rcond vecs) ∧
    (∀ v : Vec, v.length = n → ∀ c ∈ gramSchmidt ar rcond vecs,
      dot c ((Op.ortho A (gramSchmidt ar rcond vecs)).apply v) = 0) ∧
    (rcond = 0 → (∀ x, 0 ≤ ar.sq x) →
      (∀ y : Vec, (∀ c ∈ gramSchmidt ar rcond vecs, dot c y = 0) → ∀ w ∈ vecs, dot w y = 0) ∧
      (∀ v : Vec, v.length = n → ∀ w ∈ vecs, dot w ((Op.ortho A (gramSchmidt ar rcond vecs)).apply v) = 0)) := by
  have hON := C16_gram_schmidt_orthonormal ar hr rcond hrc n vecs hv hex
  have h1 := (orthogonal_projector_main A _ n hON hA).1
  refine ⟨hON, fun v hv' => (h1 v hv').2, ?_⟩
  intro h0 hsq
  subst h0
  have hgs : ∀ y : Vec, (∀ c ∈ gramSchmidt ar 0 vecs, dot c y = 0) → ∀ w ∈ vecs, dot w y = 0 := fun y hy =>
    gs_perp_inputs ar hr hsq n vecs [] ⟨fun _ h => (nomatch h), List.Pairwise.nil⟩ hv hex y hy
  exact ⟨hgs, fun v hv' => hgs _ (h1 v hv').2⟩

/-- non-vacuity: the non-orthonormal pair `(3, 4), (1, 0)` with `rcond = 0` (the example of `C16_gram_schmidt`) -/
example :
    let ar : Arith := { sq := fun x => if x = 25 then 5 else if x = 16 / 25 then 4 / 5 else 0, rnd := id }
    (∀ x, ar.rnd x = x) ∧ (∀ x, 0 ≤ ar.sq x) ∧ GSExact ar 0 [] [[3, 4], [1, 0]] ∧
    gramSchmidt ar 0 [[3, 4], [1, 0]] = [[3 / 5, 4 / 5], [4 / 5, -3 / 5]] := by
  refine ⟨fun _ => rfl, fun x => ?_, ⟨by decide +kernel, by decide +kernel, trivial⟩, by decide +kernel⟩
  simp only
  split_ifs <;> norm_num

end OrthoList

/-! ## 3. orthogonal projector — abstract inner product space -/

section OrthoAbs
open scoped InnerProductSpace
open TenpyModel.C16.Abs
variable {𝕜 E : Type*} [RCLike 𝕜] [NormedAddCommGroup E] [InnerProductSpace 𝕜 E]

/-- **abstract version** (`𝕜 = ℝ` or `ℂ`, any inner product space, `H` any map — linearity is not needed).
`orthoMatvec 𝕜 H os` is the coded `matvec` (`seqProj` over `os`, `H`, `seqProj` over `os[::-1]`).  For orthonormal
`o`: (1) it equals `P ∘ H ∘ P` with `P = 1 - Σ |o i⟩⟨o i|` (`C16_projection_seq`); (2) its results are orthogonal to
every `o i`; (3) every vector generated from a start vector `ψ0` by `matvec`, sums and scalar multiples — all Lanczos /
Arnoldi vectors and every Ritz vector — has overlaps `⟪o i, x⟫ = c ⟪o i, ψ0⟫` with one scalar `c`, hence (4) is
orthogonal to every `o i` when `ψ0` is; (5) the three-term recurrence of `LanczosGroundState` (the hypotheses of
`C16_lanczos_orthonormal`, with or without the `γ` term) started at `v 0 ⟂ o` produces `v j ⟂ o` and `Σ y j • v j ⟂ o`. -/
theorem orthogonal_projector_main_a {k : ℕ} (H : E → E) (o : Fin k → E) (ho : Orthonormal 𝕜 o) :
    (∀ x, orthoMatvec 𝕜 H (List.ofFn o) x = projCompl 𝕜 o (H (projCompl 𝕜 o x))) ∧
    (∀ x i, ⟪o i, orthoMatvec 𝕜 H (List.ofFn o) x⟫_𝕜 = 0) ∧
    (∀ ψ0 x, KrylovGen 𝕜 (orthoMatvec 𝕜 H (List.ofFn o)) ψ0 x → ∃ c : 𝕜, ∀ i, ⟪o i, x⟫_𝕜 = c * ⟪o i, ψ0⟫_𝕜) ∧
    (∀ ψ0 x, (∀ i, ⟪o i, ψ0⟫_𝕜 = 0) → KrylovGen 𝕜 (orthoMatvec 𝕜 H (List.ofFn o)) ψ0 x → ∀ i, ⟪o i, x⟫_𝕜 = 0) ∧
    (∀ (v : ℕ → E) (α β γ : ℕ → 𝕜) (m : ℕ),
      (∀ j < m, β j • v (j + 1) = orthoMatvec 𝕜 H (List.ofFn o) (v j) - α j • v j - γ j • v (j - 1)) →
      (∀ j < m, β j ≠ 0) → (∀ i, ⟪o i, v 0⟫_𝕜 = 0) →
      (∀ j ≤ m, ∀ i, ⟪o i, v j⟫_𝕜 = 0) ∧ ∀ y : Fin (m + 1) → 𝕜, ∀ i, ⟪o i, ∑ j, y j • v j⟫_𝕜 = 0) := by
  have hperp := orthoMatvec_inner H o ho
  refine ⟨orthoMatvec_eq H o ho, hperp, fun ψ0 x hx => krylovGen_overlap _ o hperp ψ0 x hx, ?_, ?_⟩
  · intro ψ0 x h0 hx i
    obtain ⟨c, hc⟩ := krylovGen_overlap _ o hperp ψ0 x hx
    rw [hc i, h0 i, mul_zero]
  · intro v α β γ m hrec hβ h0
    exact lanczos_rec_perp _ o hperp v α β γ m hrec hβ h0

/-- for a linear `H` the wrapped operator is the one of `C16_projection` (symmetric if `H` is, kills every `o i`) -/
theorem orthogonal_projector_main_a_linear {k : ℕ} (H : E →ₗ[𝕜] E) (o : Fin k → E) (ho : Orthonormal 𝕜 o) :
    (H.IsSymmetric → ∀ x y, ⟪orthoMatvec 𝕜 H (List.ofFn o) x, y⟫_𝕜 = ⟪x, orthoMatvec 𝕜 H (List.ofFn o) y⟫_𝕜) ∧
    (∀ i, orthoMatvec 𝕜 H (List.ofFn o) (o i) = 0) := by
  obtain ⟨h1, h2, _, _⟩ := C16_projection H o ho
  refine ⟨fun hH x y => ?_, fun i => ?_⟩
  · rw [orthoMatvec_eq (H : E → E) o ho, orthoMatvec_eq (H : E → E) o ho]; exact h1 hH x y
  · rw [orthoMatvec_eq (H : E → E) o ho]; exact h2 i

/-- non-vacuity: in `ℝ²`, `o = (e₀)` is orthonormal, `ψ0 = e₁ ≠ 0` is orthogonal to it, and `2 • A ψ0 + ψ0` is
generated from `ψ0` (`A` = the coded `matvec` around the identity map) -/
example : ∃ (o : Fin 1 → EuclideanSpace ℝ (Fin 2)) (ψ0 : EuclideanSpace ℝ (Fin 2)),
    Orthonormal ℝ o ∧ (∀ i, ⟪o i, ψ0⟫_ℝ = 0) ∧ ψ0 ≠ 0 ∧
    KrylovGen ℝ (orthoMatvec ℝ (fun x => x) (List.ofFn o)) ψ0 ((2 : ℝ) • orthoMatvec ℝ (fun x => x) (List.ofFn o) ψ0 + ψ0) := by
  refine ⟨fun _ => EuclideanSpace.single 0 1, EuclideanSpace.single 1 1, ?_, ?_, ?_, ?_⟩
  · rw [orthonormal_iff_ite]
    intro i j
    have : i = j := Subsingleton.elim i j
    simp [this]
  · intro i; simp [EuclideanSpace.inner_single_left]
  · intro h
    have := congrArg (fun v => v 1) h
    simp at this
  · exact KrylovGen.add (KrylovGen.smul 2 (KrylovGen.matvec KrylovGen.start)) KrylovGen.start

end OrthoAbs

end TenpyModel.C13.P2b
