import TenpyModel.C02.Props2
import TenpyModel.C02.PropsMerge
/-!
# C13 / sector — helper lemmas: chains of `npc.tensordot` over the C02 structure model (`ArrS`)

The effective-Hamiltonian `matvec`s of `tenpy/algorithms/mps_common.py` (`OneSiteH.matvec`, `TwoSiteH.matvec`)
are chains
```
theta = npc.tensordot(X, theta, axes=…)      -- "pre"  step
theta = npc.tensordot(theta, X, axes=…)      -- "post" step
…
theta.ireplace_labels(…)                     -- labels only (not part of `ArrS`)
theta.itranspose(labels)
```
Here: one step keeps `WF` (= `test_sanity`) and `chinfo`, and gives `qtotal = make_valid(X.qtotal + theta.qtotal)`
(reusing `C02_WF_tensordot`, `C02_qtotal_tensordot_axes`); the fold over any list of steps; `itranspose`.
-/
open TenpyModel.Core TenpyModel.C02 TenpyModel.C02P2

namespace TenpyModel.C13.P2b

/-- the `axes` argument of `npc.tensordot`: an integer or a pair of lists of leg indices (the leg labels of the source,
resolved to positions: `ArrS` carries no labels) -/
abbrev TdAxes := Nat ⊕ (List Int × List Int)

/-- `npc.tensordot` whose result is used as a tensor afterwards (a full contraction returns a scalar, on which the
next `npc.tensordot` / `itranspose` of the chain raises) -/
def tdArr (cy : Bool) (a b : ArrS) (axes : TdAxes) : Option ArrS :=
  match tensordot cy a b axes with
  | some (some c) => some c
  | _ => none

theorem tdArr_eq {cy : Bool} {a b c : ArrS} {axes : TdAxes} (h : tdArr cy a b axes = some c) :
    tensordot cy a b axes = some (some c) := by
  unfold tdArr at h
  split at h
  · rename_i c' hc; cases h; exact hc
  · cases h

/-! ### `chinfo` of a contraction result -/

theorem sect_tdTranspose_mods2 {cy : Bool} {a b : ArrS} (hb : WFP b) (axA axB : List Nat) (hndB : axB.Nodup)
    (hltB : ∀ k ∈ axB, k < b.rank) : (tdTranspose cy a b axA axB).2.mods = b.mods := by
  have hpB : (axB ++ (List.range b.rank).filter (fun k => !axB.contains k)).Perm (List.range b.rank) :=
    List.perm_append_comm.trans (perm_not_append axB b.rank hndB hltB)
  unfold tdTranspose
  simp only
  split
  · rfl
  · exact (permuteAxes_mods hb _ hpB).1

/-- `tensordot_unpack` of C02 with the `chinfo` of the second operand as well -/
theorem sect_tensordot_unpack {cy : Bool} {a b : ArrS} {axes : TdAxes} {c : Option ArrS}
    (ha : WFP a) (hb : WFP b) (h : tensordot cy a b axes = some c) :
    ∃ a' b' n, WFP a' ∧ WFP b' ∧ a'.mods = a.mods ∧ b'.mods = b.mods ∧ tensordotStd a' b' n = some c := by
  unfold tensordot at h
  cases axes with
  | inl n => exact ⟨a, b, n, ha, hb, rfl, rfl, h⟩
  | inr p =>
    obtain ⟨axA, axB⟩ := p
    simp only at h
    cases hA : axA.mapM a.legIndex with
    | none => simp [hA] at h
    | some nA =>
      cases hB : axB.mapM b.legIndex with
      | none => simp [hA, hB] at h
      | some nB =>
        simp only [hA, hB] at h
        split at h
        · cases h
        · rename_i hc
          simp only [ne_eq, Bool.or_eq_true, decide_eq_true_eq, Bool.not_eq_true', decide_eq_false_iff_not, not_or,
            Decidable.not_not] at hc
          have hltA : ∀ k ∈ nA, k < a.rank := by
            intro k hk; obtain ⟨j, _, hj⟩ := mapM_some_mem hA k hk; exact legIndex_lt hj
          have hltB : ∀ k ∈ nB, k < b.rank := by
            intro k hk; obtain ⟨j, _, hj⟩ := mapM_some_mem hB k hk; exact legIndex_lt hj
          obtain ⟨w1, w2, w3, _, _⟩ := tdTranspose_WFP (cy := cy) ha hb nA nB hc.1.2 hc.2 hltA hltB
          exact ⟨_, _, _, w1, w2, w3, sect_tdTranspose_mods2 (cy := cy) (a := a) hb nA nB hc.2 hltB, h⟩

/-- the first check of `tensordot`: `a.chinfo != b.chinfo → ValueError` -/
theorem sect_tensordotStd_mods_eq {a b : ArrS} {n : Nat} {c : Option ArrS} (h : tensordotStd a b n = some c) :
    a.mods = b.mods := by
  unfold tensordotStd at h
  split at h
  · cases h
  · rename_i hc
    simp only [ne_eq, Bool.or_eq_true, decide_eq_true_eq, not_or, Decidable.not_not] at hc
    exact hc.1.1

/-- every leg of the result is a leg of one of the operands -/
theorem sect_tensordotStd_legs_mem {a b c : ArrS} {n : Nat} (h : tensordotStd a b n = some (some c)) :
    ∀ l ∈ c.legs, l ∈ a.legs ∨ l ∈ b.legs := by
  have key : ∀ l ∈ a.legs.take (a.rank - n) ++ b.legs.drop n, l ∈ a.legs ∨ l ∈ b.legs := by
    intro l hl
    rcases List.mem_append.1 hl with hl | hl
    · exact Or.inl (List.mem_of_mem_take hl)
    · exact Or.inr (List.mem_of_mem_drop hl)
  unfold tensordotStd at h
  simp only at h
  repeat' (split at h)
  all_goals first
    | (cases h; done)
    | (simp only [Option.some.injEq] at h; rw [← h]; exact key)
    | (simp only [Option.map_eq_some_iff, Option.some.injEq] at h
       obtain ⟨o, ho, rfl⟩ := h
       unfold outer at ho
       split at ho
       · cases ho
       · cases ho
         intro l hl
         exact List.mem_append.1 hl)

/-- **one contraction**: `c = npc.tensordot(a, b, axes)` of two sane tensors is sane, lives over the same
`chinfo`, and has `qtotal = make_valid(a.qtotal + b.qtotal)`; the call can only succeed for equal `chinfo`. -/
theorem sect_td_spec {cy : Bool} {a b c : ArrS} {axes : TdAxes} (ha : a.WF) (hb : b.WF)
    (h : tdArr cy a b axes = some c) :
    c.WF ∧ a.mods = b.mods ∧ c.mods = a.mods ∧ c.qtotal = makeValid a.mods (cadd a.qtotal b.qtotal) := by
  have h' := tdArr_eq h
  have hcW : c.WF := C02_WF_tensordot cy a b c axes ha hb h'
  have hq := C02_qtotal_tensordot_axes cy a b c axes ha hb h'
  have hcP := (WF_iff c).1 hcW
  obtain ⟨a', b', n, ha', hb', hma, hmb, hstd⟩ := sect_tensordot_unpack ((WF_iff a).1 ha) ((WF_iff b).1 hb) h'
  have hmm : a'.mods = b'.mods := sect_tensordotStd_mods_eq hstd
  have hab : a.mods = b.mods := by rw [← hma, ← hmb]; exact hmm
  refine ⟨hcW, hab, ?_, hq⟩
  obtain ⟨l, hl⟩ := List.exists_mem_of_ne_nil _ hcP.rank_pos
  have h1 := (hcP.legs_ok l hl).2
  rcases sect_tensordotStd_legs_mem hstd l hl with hl' | hl'
  · rw [← h1, (ha'.legs_ok l hl').2, hma]
  · rw [← h1, (hb'.legs_ok l hl').2, hmb, hab]

/-! ### `itranspose` -/

theorem sect_itranspose_spec {a b : ArrS} {axes : Option (List Int)} (ha : a.WF) (h : a.itranspose axes = some b) :
    b.WF ∧ b.mods = a.mods ∧ b.qtotal = a.qtotal := by
  have hbW := C02_WF_itranspose a axes b ha h
  have haP := (WF_iff a).1 ha
  have hbP := (WF_iff b).1 hbW
  have hq : b.qtotal = a.qtotal ∧ ∀ l ∈ b.legs, l ∈ a.legs := by
    have hperm : ∀ ax : List Nat, (a.permuteAxes ax).qtotal = a.qtotal ∧ ∀ l ∈ (a.permuteAxes ax).legs, l ∈ a.legs := by
      intro ax
      refine ⟨rfl, ?_⟩
      intro l hl
      simp only [ArrS.permuteAxes] at hl
      obtain ⟨i, _, hi⟩ := List.mem_filterMap.mp hl
      exact List.mem_of_getElem? hi
    unfold ArrS.itranspose at h
    cases axes with
    | none =>
      simp only [Option.some.injEq] at h
      subst h
      exact hperm _
    | some ax =>
      simp only at h
      cases hax : ax.mapM a.legIndex with
      | none => simp [hax] at h
      | some axn =>
        simp only [hax] at h
        split at h
        · cases h
        · split at h
          · cases h; exact ⟨rfl, fun l hl => hl⟩
          · cases h; exact hperm _
  refine ⟨hbW, ?_, hq.1⟩
  obtain ⟨l, hl⟩ := List.exists_mem_of_ne_nil _ hbP.rank_pos
  rw [← (hbP.legs_ok l hl).2, (haP.legs_ok l (hq.2 l hl)).2]

/-! ### charge arithmetic -/

theorem sect_mv1_zero (m : Nat) : mv1 m 0 = 0 := by
  unfold mv1; split <;> simp

theorem sect_makeValid_czero (M : List Nat) : makeValid M (czero M.length) = czero M.length := by
  unfold makeValid czero
  induction M with
  | nil => rfl
  | cons m M ih =>
    simp only [List.length_cons, List.replicate_succ, List.zipWith_cons_cons, sect_mv1_zero]
    rw [ih]

/-- adding a charge that is trivial modulo the charge moduli does not change a valid charge -/
theorem sect_add_trivial (M : List Nat) (h q : Charge) (hq : checkValid M q = true)
    (hh : makeValid M h = czero M.length) : makeValid M (cadd h q) = q := by
  rw [← C02.makeValid_add_left, hh, C02.cadd_czero_left _ _ (C02.checkValid_length hq),
    C02.makeValid_of_checkValid _ _ hq]

/-! ### a chain of contractions -/

/-- one line of a `matvec`: `theta = npc.tensordot(X, theta, axes)` (`pre`) or
`theta = npc.tensordot(theta, X, axes)` (`post`) -/
inductive TdStep where
  | pre (X : ArrS) (axes : TdAxes)
  | post (X : ArrS) (axes : TdAxes)

def TdStep.arr : TdStep → ArrS
  | .pre X _ => X
  | .post X _ => X

def TdStep.run (cy : Bool) : TdStep → ArrS → Option ArrS
  | .pre X ax, θ => tdArr cy X θ ax
  | .post X ax, θ => tdArr cy θ X ax

/-- the lines in source order; `none` = some call raised -/
def runSteps (cy : Bool) : List TdStep → ArrS → Option ArrS
  | [], θ => some θ
  | s :: rest, θ => (s.run cy θ).bind (runSteps cy rest)

/-- the total charge accumulated along the chain, before `make_valid`: `Xk + (… + (X1 + q))` -/
def chainCharge : List TdStep → Charge → Charge
  | [], q => q
  | s :: rest, q => chainCharge rest (cadd s.arr.qtotal q)

theorem sect_step_spec {cy : Bool} {s : TdStep} {θ t : ArrS} (hs : s.arr.WF) (hθ : θ.WF) (h : s.run cy θ = some t) :
    t.WF ∧ s.arr.mods = θ.mods ∧ t.mods = θ.mods ∧ t.qtotal = makeValid θ.mods (cadd s.arr.qtotal θ.qtotal) := by
  cases s with
  | pre X ax =>
    obtain ⟨w, m1, m2, q⟩ := sect_td_spec hs hθ h
    exact ⟨w, m1, m2.trans m1, by rw [q, m1]⟩
  | post X ax =>
    obtain ⟨w, m1, m2, q⟩ := sect_td_spec hθ hs h
    exact ⟨w, m1.symm, m2, by rw [q, C02.cadd_comm]⟩

theorem sect_chainCharge_mv (M : List Nat) (steps : List TdStep) (q : Charge) :
    makeValid M (chainCharge steps (makeValid M q)) = makeValid M (chainCharge steps q) := by
  induction steps generalizing q with
  | nil => exact C02.makeValid_idem M q
  | cons s rest ih =>
    simp only [chainCharge]
    rw [← ih (cadd s.arr.qtotal (makeValid M q)), C02.makeValid_add, ih]

/-- **any chain of contractions**: sane operands, all calls succeed ⇒ the result is sane, every operand and the
result live over the `chinfo` of `theta`, and `qtotal = make_valid(Σ X.qtotal + theta.qtotal)`. -/
theorem sect_runSteps_spec {cy : Bool} (steps : List TdStep) {θ r : ArrS} (hs : ∀ s ∈ steps, s.arr.WF) (hθ : θ.WF)
    (h : runSteps cy steps θ = some r) :
    r.WF ∧ (∀ s ∈ steps, s.arr.mods = θ.mods) ∧ r.mods = θ.mods ∧
      r.qtotal = makeValid θ.mods (chainCharge steps θ.qtotal) := by
  induction steps generalizing θ with
  | nil =>
    simp only [runSteps, Option.some.injEq] at h
    subst h
    refine ⟨hθ, ?_, rfl, ?_⟩
    · intro s hs; cases hs
    · exact (C02.makeValid_of_checkValid _ _ ((WF_iff θ).1 hθ).qtotal_valid).symm
  | cons s rest ih =>
    simp only [runSteps] at h
    cases hrun : s.run cy θ with
    | none => simp [hrun] at h
    | some t =>
      simp only [hrun, Option.bind_some] at h
      obtain ⟨tw, m1, m2, tq⟩ := sect_step_spec (hs s (List.mem_cons_self ..)) hθ hrun
      obtain ⟨rw', ms, rm, rq⟩ := ih (fun s' h' => hs s' (List.mem_cons_of_mem _ h')) tw h
      refine ⟨rw', ?_, rm.trans m2, ?_⟩
      · intro s' hs'
        rcases List.mem_cons.1 hs' with rfl | hs'
        · exact m1
        · exact (ms s' hs').trans m2
      · rw [rq, m2, tq, sect_chainCharge_mv]
        rfl

end TenpyModel.C13.P2b
