import TenpyModel.C13.P2_SectorChain
/-!
# C13 / sector — the effective Hamiltonians of `tenpy/algorithms/mps_common.py` over the C02 structure model

`EffH` = the tensors of `OneSiteH` / `TwoSiteH` (with and without `combine`) and the `axes` of the `npc.tensordot`
calls of `matvec` (labels resolved to leg positions); `EffH.matvec` = the five bodies of `matvec` line by line;
`EffH.toMatrix` = `to_matrix`; `SectorReach` = everything a Krylov solver can build from a start vector with
`matvec`, `iscale_prefactor`, `iadd_prefactor_other`.
-/
open TenpyModel.Core TenpyModel.C02 TenpyModel.C02P2

namespace TenpyModel.C13.P2b

inductive EffH where
  /-- `OneSiteH`, `combine=False` -/
  | one (LP W0 RP : ArrS) (a1 a2 a3 : TdAxes)
  /-- `OneSiteH`, `combine=True`, `move_right=True` -/
  | oneR (LHeff RP : ArrS) (a1 a2 : TdAxes)
  /-- `OneSiteH`, `combine=True`, `move_right=False` -/
  | oneL (LP RHeff : ArrS) (a1 a2 : TdAxes)
  /-- `TwoSiteH`, `combine=False` -/
  | two (LP W0 W1 RP : ArrS) (a1 a2 a3 a4 : TdAxes)
  /-- `TwoSiteH`, `combine=True` -/
  | twoC (LHeff RHeff : ArrS) (a1 a2 : TdAxes)

namespace EffH

/-- `OneSiteH.matvec` / `TwoSiteH.matvec`; `labels` = the permutation of the final `theta.itranspose(labels)`.
`theta.ireplace_labels(…)` only renames labels, which `ArrS` does not carry. -/
def matvec (cy : Bool) : EffH → ArrS → List Int → Option ArrS
  | .one LP W0 RP a1 a2 a3, θ, labels =>
    (tdArr cy LP θ a1).bind fun θ =>     -- theta = npc.tensordot(self.LP, theta, axes=['vR', 'vL'])
    (tdArr cy W0 θ a2).bind fun θ =>     -- theta = npc.tensordot(self.W0, theta, axes=[['wL', 'p0*'], ['wR', 'p0']])
    (tdArr cy θ RP a3).bind fun θ =>     -- theta = npc.tensordot(theta, self.RP, axes=[['wR', 'vR'], ['wL', 'vL']])
    θ.itranspose (some labels)           -- theta.itranspose(labels)
  | .oneR LHeff RP a1 a2, θ, labels =>
    (tdArr cy LHeff θ a1).bind fun θ =>  -- theta = npc.tensordot(self.LHeff, theta, axes=['(vR.p0*)', '(vL.p0)'])
    (tdArr cy θ RP a2).bind fun θ =>     -- theta = npc.tensordot(theta, self.RP, axes=[['wR', 'vR'], ['wL', 'vL']])
    θ.itranspose (some labels)
  | .oneL LP RHeff a1 a2, θ, labels =>
    (tdArr cy θ RHeff a1).bind fun θ =>  -- theta = npc.tensordot(theta, self.RHeff, axes=['(p0.vR)', '(p0*.vL)'])
    (tdArr cy LP θ a2).bind fun θ =>     -- theta = npc.tensordot(self.LP, theta, axes=[['vR', 'wR'], ['vL', 'wL']])
    θ.itranspose (some labels)
  | .two LP W0 W1 RP a1 a2 a3 a4, θ, labels =>
    (tdArr cy LP θ a1).bind fun θ =>     -- theta = npc.tensordot(self.LP, theta, axes=['vR', 'vL'])
    (tdArr cy W0 θ a2).bind fun θ =>     -- theta = npc.tensordot(self.W0, theta, axes=[['wL', 'p0*'], ['wR', 'p0']])
    (tdArr cy θ W1 a3).bind fun θ =>     -- theta = npc.tensordot(theta, self.W1, axes=[['wR', 'p1'], ['wL', 'p1*']])
    (tdArr cy θ RP a4).bind fun θ =>     -- theta = npc.tensordot(theta, self.RP, axes=[['wR', 'vR'], ['wL', 'vL']])
    θ.itranspose (some labels)
  | .twoC LHeff RHeff a1 a2, θ, labels =>
    (tdArr cy LHeff θ a1).bind fun θ =>  -- theta = npc.tensordot(self.LHeff, theta, axes=['(vR.p0*)', '(vL.p0)'])
    (tdArr cy θ RHeff a2).bind fun θ =>  -- theta = npc.tensordot(theta, self.RHeff, axes=[['wR', '(p1.vR)'], ['wL', '(p1*.vL)']])
    θ.itranspose (some labels)

/-- the same lines as a list of steps -/
def steps : EffH → List TdStep
  | .one LP W0 RP a1 a2 a3 => [.pre LP a1, .pre W0 a2, .post RP a3]
  | .oneR LHeff RP a1 a2 => [.pre LHeff a1, .post RP a2]
  | .oneL LP RHeff a1 a2 => [.post RHeff a1, .pre LP a2]
  | .two LP W0 W1 RP a1 a2 a3 a4 => [.pre LP a1, .pre W0 a2, .post W1 a3, .post RP a4]
  | .twoC LHeff RHeff a1 a2 => [.pre LHeff a1, .post RHeff a2]

/-- the first tensor of `to_matrix` -/
def first : EffH → ArrS
  | .one LP _ _ _ _ _ => LP
  | .oneR LHeff _ _ _ => LHeff
  | .oneL LP _ _ _ => LP
  | .two LP _ _ _ _ _ _ _ => LP
  | .twoC LHeff _ _ _ => LHeff

/-- the tensors contracted onto `first` by `to_matrix`, in source order -/
def rest : EffH → List ArrS
  | .one _ W0 RP _ _ _ => [W0, RP]
  | .oneR _ RP _ _ => [RP]
  | .oneL _ RHeff _ _ => [RHeff]
  | .two _ W0 W1 RP _ _ _ _ => [W0, W1, RP]
  | .twoC _ RHeff _ _ => [RHeff]

/-- all tensors of the network -/
def parts (H : EffH) : List ArrS := H.first :: H.rest

/-- sum of the total charges of the tensors of the network (before `make_valid`) -/
def qsum : EffH → Charge
  | .one LP W0 RP _ _ _ => cadd (cadd LP.qtotal W0.qtotal) RP.qtotal
  | .oneR LHeff RP _ _ => cadd LHeff.qtotal RP.qtotal
  | .oneL LP RHeff _ _ => cadd LP.qtotal RHeff.qtotal
  | .two LP W0 W1 RP _ _ _ _ => cadd (cadd (cadd LP.qtotal W0.qtotal) W1.qtotal) RP.qtotal
  | .twoC LHeff RHeff _ _ => cadd LHeff.qtotal RHeff.qtotal

/-- `to_matrix`: `contr = npc.tensordot(first, rest[0], axes=['wR', 'wL'])`, `contr = npc.tensordot(contr, rest[1], …)`,
…, `contr.combine_legs([bra legs, ket legs], qconj=[+1, -1])` -/
def toMatrix (cy : Bool) (H : EffH) (axes : List TdAxes) (groups : List (List Nat)) : Option ArrS :=
  (runSteps cy ((H.rest.zip axes).map (fun p => TdStep.post p.1 p.2)) H.first).bind fun contr =>
  contr.combineLegs groups none [some 1, some (-1)]

theorem matvec_eq_steps (cy : Bool) (H : EffH) (θ : ArrS) (labels : List Int) :
    H.matvec cy θ labels = (runSteps cy H.steps θ).bind (fun t => t.itranspose (some labels)) := by
  cases H <;>
    simp only [matvec, steps, runSteps, TdStep.run, Option.bind_assoc, Option.bind_fun_some]

theorem mem_steps_arr (H : EffH) : ∀ s ∈ H.steps, s.arr ∈ H.parts := by
  cases H <;> simp [steps, parts, first, rest, TdStep.arr]

theorem mem_parts_steps (H : EffH) : ∀ X ∈ H.parts, ∃ s ∈ H.steps, s.arr = X := by
  cases H <;> simp [steps, parts, first, rest, TdStep.arr]

end EffH

instance sectCaddComm : Std.Commutative cadd := ⟨C02.cadd_comm⟩
instance sectCaddAssoc : Std.Associative cadd := ⟨C02.cadd_assoc⟩

theorem sect_chainCharge_steps (H : EffH) (q : Charge) : chainCharge H.steps q = cadd H.qsum q := by
  cases H <;> simp only [EffH.steps, chainCharge, TdStep.arr, EffH.qsum] <;> ac_rfl

/-- all tensors of the network neutral ⇒ the sum of their charges is neutral -/
theorem sect_qsum_zero (H : EffH) (M : List Nat) (h : ∀ X ∈ H.parts, X.qtotal = czero M.length) :
    makeValid M H.qsum = czero M.length := by
  have hz : cadd (czero M.length) (czero M.length) = czero M.length :=
    C02.cadd_czero_left _ _ (C02.czero_length _)
  have hq : H.qsum = czero M.length := by
    cases H <;> simp only [EffH.parts, EffH.first, EffH.rest, List.mem_cons, List.not_mem_nil, or_false,
      forall_eq_or_imp, forall_eq] at h <;> simp only [EffH.qsum, h, hz]
  rw [hq, sect_makeValid_czero]

/-! ### what a Krylov solver builds -/

/-- the vectors a Krylov solver (`tenpy/linalg/krylov_based.py`) can hold: the start vector, results of `H.matvec`,
`w.iscale_prefactor(a)`, and both operands after `w.iadd_prefactor_other(a, v)` (`isZero`: the prefactor is `0`;
`perm`: `v` has the labels of `w` in another order). -/
inductive SectorReach (cy : Bool) (mv : ArrS → Option ArrS) (θ0 : ArrS) : ArrS → Prop
  | start : SectorReach cy mv θ0 θ0
  | matvec {x r : ArrS} : SectorReach cy mv θ0 x → mv x = some r → SectorReach cy mv θ0 r
  | scale {x : ArrS} (isZero : Bool) : SectorReach cy mv θ0 x → SectorReach cy mv θ0 (x.iscalePrefactor isZero)
  | axpyL {x y x' y' : ArrS} (perm : Option (List Nat)) (isZero : Bool) :
      SectorReach cy mv θ0 x → SectorReach cy mv θ0 y → (∀ ax, perm = some ax → ax.Perm (List.range y.rank)) →
      ArrS.iaddPrefactorOther cy x y perm isZero = some (x', y') → SectorReach cy mv θ0 x'
  | axpyR {x y x' y' : ArrS} (perm : Option (List Nat)) (isZero : Bool) :
      SectorReach cy mv θ0 x → SectorReach cy mv θ0 y → (∀ ax, perm = some ax → ax.Perm (List.range y.rank)) →
      ArrS.iaddPrefactorOther cy x y perm isZero = some (x', y') → SectorReach cy mv θ0 y'

theorem sect_isortQdata_qtotal (a : ArrS) : a.isortQdata.qtotal = a.qtotal := by
  unfold ArrS.isortQdata
  split
  · rfl
  · split <;> rfl

theorem sect_transposeSame_qtotal (b : ArrS) (perm : Option (List Nat)) : (ArrS.transposeSame b perm).qtotal = b.qtotal := by
  cases perm <;> rfl

theorem sect_iscale_qtotal (a : ArrS) (z : Bool) : (a.iscalePrefactor z).qtotal = a.qtotal := by
  unfold ArrS.iscalePrefactor; split <;> rfl

theorem sect_ibinary_qtotal {a b a' b' : ArrS} {perm : Option (List Nat)} (h : a.ibinary b perm = some (a', b')) :
    a'.qtotal = a.qtotal ∧ b'.qtotal = b.qtotal := by
  unfold ArrS.ibinary at h
  simp only at h
  split at h
  · cases h
  · simp only [Option.some.injEq, Prod.mk.injEq] at h
    obtain ⟨h1, h2⟩ := h
    subst h1
    refine ⟨sect_isortQdata_qtotal a, ?_⟩
    split at h2
    · rw [← h2]
    · rw [← h2, sect_isortQdata_qtotal, sect_transposeSame_qtotal]

/-- `iadd_prefactor_other` keeps the total charge of both operands -/
theorem sect_iadd_qtotal {cy : Bool} {a b a' b' : ArrS} {perm : Option (List Nat)} {z : Bool}
    (h : ArrS.iaddPrefactorOther cy a b perm z = some (a', b')) : a'.qtotal = a.qtotal ∧ b'.qtotal = b.qtotal := by
  unfold ArrS.iaddPrefactorOther at h
  cases cy with
  | true =>
    simp only [↓reduceIte] at h
    split at h
    · cases h
    · split at h
      · simp only [Option.some.injEq, Prod.mk.injEq] at h
        exact ⟨h.1 ▸ rfl, h.2 ▸ rfl⟩
      · exact sect_ibinary_qtotal h
  | false =>
    simp only [Bool.false_eq_true, ↓reduceIte] at h
    cases hib : a.ibinary (b.iscalePrefactor z) perm with
    | none => simp [hib] at h
    | some p =>
      obtain ⟨p1, p2⟩ := p
      simp only [hib, Option.some.injEq, Prod.mk.injEq] at h
      exact ⟨h.1 ▸ (sect_ibinary_qtotal hib).1, h.2 ▸ rfl⟩

/-- `iadd_prefactor_other(a, b)` raises unless the total charges agree
(`if np.any(self.qtotal != other.qtotal): raise ValueError`) -/
theorem sect_iadd_requires {cy : Bool} {a b : ArrS} {perm : Option (List Nat)} {z : Bool} {p : ArrS × ArrS}
    (h : ArrS.iaddPrefactorOther cy a b perm z = some p) : a.qtotal = b.qtotal := by
  unfold ArrS.iaddPrefactorOther at h
  cases cy with
  | true =>
    simp only [↓reduceIte] at h
    split at h
    · cases h
    · rename_i hc
      simp only [Bool.or_eq_true, Bool.not_eq_true', bne_iff_ne, ne_eq, not_or, Bool.not_eq_false,
        Decidable.not_not] at hc
      rw [hc.2, sect_transposeSame_qtotal]
  | false =>
    simp only [Bool.false_eq_true, ↓reduceIte] at h
    cases hib : a.ibinary (b.iscalePrefactor z) perm with
    | none => simp [hib] at h
    | some q =>
      unfold ArrS.ibinary at hib
      simp only at hib
      split at hib
      · cases hib
      · rename_i hc
        simp only [Bool.or_eq_true, Bool.not_eq_true', bne_iff_ne, ne_eq, not_or, Bool.not_eq_false,
          Decidable.not_not] at hc
        rw [hc.2, sect_transposeSame_qtotal, sect_iscale_qtotal]

/-! ### the legs (hence `chinfo`) are kept as well -/

theorem sect_isortQdata_legs (a : ArrS) : a.isortQdata.legs = a.legs := by
  unfold ArrS.isortQdata
  split
  · rfl
  · split <;> rfl

theorem sect_iscale_legs (a : ArrS) (z : Bool) : (a.iscalePrefactor z).legs = a.legs := by
  unfold ArrS.iscalePrefactor; split <;> rfl

theorem sect_ibinary_legs {a b a' b' : ArrS} {perm : Option (List Nat)} (h : a.ibinary b perm = some (a', b')) :
    a'.legs = a.legs ∧ b'.legs = b.legs := by
  unfold ArrS.ibinary at h
  simp only at h
  split at h
  · cases h
  · simp only [Option.some.injEq, Prod.mk.injEq] at h
    obtain ⟨h1, h2⟩ := h
    subst h1
    refine ⟨sect_isortQdata_legs a, ?_⟩
    cases perm with
    | none =>
      simp only [Option.isSome_none, Bool.false_eq_true, ↓reduceIte] at h2
      rw [← h2, sect_isortQdata_legs]; rfl
    | some ax =>
      simp only [Option.isSome_some, ↓reduceIte] at h2
      rw [← h2]

/-- `iadd_prefactor_other` keeps the legs of both operands -/
theorem sect_iadd_legs {cy : Bool} {a b a' b' : ArrS} {perm : Option (List Nat)} {z : Bool}
    (h : ArrS.iaddPrefactorOther cy a b perm z = some (a', b')) : a'.legs = a.legs ∧ b'.legs = b.legs := by
  unfold ArrS.iaddPrefactorOther at h
  cases cy with
  | true =>
    simp only [↓reduceIte] at h
    split at h
    · cases h
    · split at h
      · simp only [Option.some.injEq, Prod.mk.injEq] at h
        exact ⟨h.1 ▸ rfl, h.2 ▸ rfl⟩
      · exact sect_ibinary_legs h
  | false =>
    simp only [Bool.false_eq_true, ↓reduceIte] at h
    cases hib : a.ibinary (b.iscalePrefactor z) perm with
    | none => simp [hib] at h
    | some p =>
      obtain ⟨p1, p2⟩ := p
      simp only [hib, Option.some.injEq, Prod.mk.injEq] at h
      exact ⟨h.1 ▸ (sect_ibinary_legs hib).1, h.2 ▸ rfl⟩

/-- neutral operands do not change the accumulated charge -/
theorem sect_chainCharge_zero (n : Nat) (steps : List TdStep) (hz : ∀ s ∈ steps, s.arr.qtotal = czero n) (q : Charge)
    (hq : q.length = n) : chainCharge steps q = q := by
  induction steps with
  | nil => rfl
  | cons s rest ih =>
    simp only [chainCharge]
    rw [hz s (List.mem_cons_self ..), C02.cadd_czero_left _ _ hq]
    exact ih (fun s' h' => hz s' (List.mem_cons_of_mem _ h'))

end TenpyModel.C13.P2b
