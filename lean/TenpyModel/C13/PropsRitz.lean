import TenpyModel.C16.PropsRitz
/-!
# C13 — the variational bound behind "the reported energy is never below the exact ground-state energy"

`V` is the isometry that embeds a local tensor `θ` (one or two sites, bond legs in canonical form) into the full
Hilbert space of the charge sector, `H_eff = V† H V` the effective Hamiltonian DMRG/VUMPS diagonalise.
-/
open scoped InnerProductSpace
open Module.End

variable {𝕜 E F : Type*} [RCLike 𝕜] [NormedAddCommGroup E] [InnerProductSpace 𝕜 E]
  [NormedAddCommGroup F] [InnerProductSpace 𝕜 F]

/-- **Effective Hamiltonian = compression.**  If `V` preserves inner products and `⟪a, H_eff b⟫ = ⟪V a, H (V b)⟫`, then
the local Rayleigh quotient is the energy expectation of the embedded state, whose norm is the norm of `θ`. -/
theorem C13_effH_projection (H : E →ₗ[𝕜] E) (V : F →ₗ[𝕜] E) (Heff : F →ₗ[𝕜] F)
    (hV : ∀ a b, ⟪V a, V b⟫_𝕜 = ⟪a, b⟫_𝕜) (hH : ∀ a b, ⟪a, Heff b⟫_𝕜 = ⟪V a, H (V b)⟫_𝕜) (θ : F) :
    ⟪θ, Heff θ⟫_𝕜 = ⟪V θ, H (V θ)⟫_𝕜 ∧ ‖V θ‖ = ‖θ‖ := by
  refine ⟨hH θ θ, ?_⟩
  have h := hV θ θ
  rw [inner_self_eq_norm_sq_to_K, inner_self_eq_norm_sq_to_K] at h
  have h2 : ‖V θ‖ ^ 2 = ‖θ‖ ^ 2 := by exact_mod_cast h
  have h3 : 0 ≤ ‖V θ‖ := norm_nonneg _
  have h4 : 0 ≤ ‖θ‖ := norm_nonneg _
  nlinarith [sq_nonneg (‖V θ‖ - ‖θ‖), sq_nonneg (‖V θ‖ + ‖θ‖)]

/-- **Variational bound.**  For a Hermitian `H` on a finite-dimensional sector: the energy expectation of every
normalised state is `≥` the smallest eigenvalue (the exact ground-state energy of the sector).  Hence an energy that
is the Rayleigh quotient of the returned state is never below it. -/
theorem C13_ritz_bound [FiniteDimensional 𝕜 E] [Nontrivial E] (H : E →ₗ[𝕜] E) (hH : H.IsSymmetric) :
    ∃ E0 : ℝ, HasEigenvalue H (E0 : 𝕜) ∧ (∀ ν : ℝ, HasEigenvalue H (ν : 𝕜) → E0 ≤ ν) ∧
      ∀ ψ : E, ‖ψ‖ = 1 → E0 ≤ RCLike.re ⟪ψ, H ψ⟫_𝕜 := by
  obtain ⟨μ, h1, h2, h3⟩ := C16_rayleigh_ge_min H hH
  refine ⟨μ, h1, h2, ?_⟩
  intro ψ hψ
  have h0 : ψ ≠ 0 := by
    intro h; rw [h, norm_zero] at hψ; exact zero_ne_one hψ
  have := h3 ψ h0
  rw [hψ, one_pow, div_one, ← inner_conj_symm, RCLike.conj_re] at this
  exact this

/-- … in particular for the local optimisation: the lowest eigenvalue of `H_eff` (what Lanczos/ED return for the
normalised `θ`) is bounded below by the exact ground-state energy. -/
theorem C13_local_energy_bound [FiniteDimensional 𝕜 E] [Nontrivial E] (H : E →ₗ[𝕜] E) (hH : H.IsSymmetric)
    (V : F →ₗ[𝕜] E) (Heff : F →ₗ[𝕜] F) (hV : ∀ a b, ⟪V a, V b⟫_𝕜 = ⟪a, b⟫_𝕜)
    (hHe : ∀ a b, ⟪a, Heff b⟫_𝕜 = ⟪V a, H (V b)⟫_𝕜) (θ : F) (hθ : ‖θ‖ = 1) (Eloc : 𝕜) (hE : Heff θ = Eloc • θ) :
    ∃ E0 : ℝ, HasEigenvalue H (E0 : 𝕜) ∧ (∀ ν : ℝ, HasEigenvalue H (ν : 𝕜) → E0 ≤ ν) ∧ E0 ≤ RCLike.re Eloc := by
  obtain ⟨E0, h1, h2, h3⟩ := C13_ritz_bound H hH
  obtain ⟨hq, hn⟩ := C13_effH_projection H V Heff hV hHe θ
  refine ⟨E0, h1, h2, ?_⟩
  have := h3 (V θ) (by rw [hn, hθ])
  rw [← hq, hE, inner_smul_right, inner_self_eq_norm_sq_to_K, hθ] at this
  simpa using this

/-- non-vacuity: `H = id` on `ℝ²` is symmetric, `V = id`, `H_eff = id`, `θ = e₀`, `E_loc = 1`. -/
example : ∃ (θ : EuclideanSpace ℝ (Fin 2)), ‖θ‖ = 1 ∧
    (LinearMap.id : EuclideanSpace ℝ (Fin 2) →ₗ[ℝ] _) θ = (1 : ℝ) • θ ∧
    (LinearMap.id : EuclideanSpace ℝ (Fin 2) →ₗ[ℝ] EuclideanSpace ℝ (Fin 2)).IsSymmetric :=
  ⟨EuclideanSpace.single 0 1, by simp, by simp, fun _ _ => rfl⟩
