import TenpyModel.C13.P2_InfOne
import TenpyModel.C13.P2_InfTwo
/-!
# C13 / Props2 — infinite boundary conditions: the regenerated schedule in explicit form, one sweep, any number of sweeps
-/
set_option linter.unusedSimpArgs false
namespace TenpyModel.C13.P2
open TenpyModel.C13

/-! ### the schedule -/

theorem zip3_append (xs xs' : List Nat) (bs bs' : List Bool) (cs cs' : List (Bool × Bool))
    (h1 : xs.length = bs.length) (h2 : xs.length = cs.length) :
    zip3 (xs ++ xs') (bs ++ bs') (cs ++ cs') = zip3 xs bs cs ++ zip3 xs' bs' cs' := by
  induction xs generalizing bs cs with
  | nil =>
    cases bs with
    | nil => cases cs with
      | nil => rfl
      | cons c cs => simp at h2
    | cons b bs => simp at h1
  | cons x xs ih =>
    cases bs with
    | nil => simp at h1
    | cons b bs =>
      cases cs with
      | nil => simp at h2
      | cons c cs =>
        simp only [List.cons_append, zip3, List.cons.injEq, true_and]
        exact ih bs cs (by simpa using h1) (by simpa using h2)

theorem zip3_rep (xs : List Nat) (b : Bool) (c : Bool × Bool) (k : Nat) (hk : k = xs.length) :
    zip3 xs (List.replicate k b) (List.replicate k c) = xs.map (fun i => (i, b, c)) := by
  subst hk
  induction xs with
  | nil => rfl
  | cons x xs ih => simp only [List.length_cons, List.replicate_succ, zip3, ih, List.map_cons]

theorem schedule_two (m : Nat) :
    Gen.schedule false (m + 2) 2
      = [(0, true, (true, true)), (1, true, (true, true))]
        ++ (List.range' 2 m).map (fun i => (i, true, (true, false)))
        ++ [(m + 2, false, (true, true)), (m + 1, false, (true, true))]
        ++ ((List.range' 1 m).reverse).map (fun i => (i, false, (false, true))) := by
  have hA : Gen.i0sInfiniteTwo (m + 2) 2 = (([0, 1] ++ List.range' 2 m) ++ [m + 2, m + 1]) ++ (List.range' 1 m).reverse := by
    simp only [Gen.i0sInfiniteTwo, pyRange, pyRangeDown, Nat.sub_zero, Nat.zero_add]
    rw [List.range'_succ, List.range'_succ, List.range'_1_concat, List.range'_1_concat]
    simp [List.reverse_append, Nat.add_comm]
    omega
  have hB : Gen.moveRightInfiniteTwo (m + 2) 2 = ((List.replicate 2 true ++ List.replicate m true)
      ++ List.replicate 2 false) ++ List.replicate m false := by
    simp only [Gen.moveRightInfiniteTwo]
    rw [show m + 2 = 2 + m from by omega, List.replicate_add, List.replicate_add, List.append_assoc,
      List.append_assoc, List.append_assoc]
  have hC : Gen.updateLPRPInfiniteTwo (m + 2) 2 = ((List.replicate 2 (true, true) ++ List.replicate m (true, false))
      ++ List.replicate 2 (true, true)) ++ List.replicate m (false, true) := by
    simp only [Gen.updateLPRPInfiniteTwo, Nat.add_sub_cancel]
  simp only [Gen.schedule, Bool.false_eq_true, if_false, if_true]
  rw [hA, hB, hC, zip3_append _ _ _ _ _ _ (by simp) (by simp), zip3_append _ _ _ _ _ _ (by simp) (by simp),
    zip3_append _ _ _ _ _ _ (by simp) (by simp), zip3_rep _ _ _ m (by simp), zip3_rep _ _ _ m (by simp)]
  rfl

theorem schedule_one (m : Nat) :
    Gen.schedule false (m + 1) 1
      = [(0, true, (true, true))]
        ++ (List.range' 1 m).map (fun i => (i, true, (true, false)))
        ++ [(m + 1, false, (true, true))]
        ++ ((List.range' 1 m).reverse).map (fun i => (i, false, (false, true))) := by
  have hA : Gen.i0sInfiniteOne (m + 1) 1 = (([0] ++ List.range' 1 m) ++ [m + 1]) ++ (List.range' 1 m).reverse := by
    simp only [Gen.i0sInfiniteOne, pyRange, pyRangeDown, Nat.sub_zero, Nat.zero_add]
    rw [List.range'_succ, List.range'_1_concat]
    simp [List.reverse_append, Nat.add_comm]
  have hB : Gen.moveRightInfiniteOne (m + 1) 1 = ((List.replicate 1 true ++ List.replicate m true)
      ++ List.replicate 1 false) ++ List.replicate m false := by
    simp only [Gen.moveRightInfiniteOne]
    rw [show m + 1 = 1 + m from by omega, List.replicate_add, List.replicate_add, List.append_assoc,
      List.append_assoc, List.append_assoc]
  have hC : Gen.updateLPRPInfiniteOne (m + 1) 1 = ((List.replicate 1 (true, true) ++ List.replicate m (true, false))
      ++ List.replicate 1 (true, true)) ++ List.replicate m (false, true) := by
    simp only [Gen.updateLPRPInfiniteOne, Nat.add_sub_cancel]
    rfl
  simp only [Gen.schedule, Bool.false_eq_true, if_false, if_true, show (1 = 2) = False from by simp]
  rw [hA, hB, hC, zip3_append _ _ _ _ _ _ (by simp) (by simp), zip3_append _ _ _ _ _ _ (by simp) (by simp),
    zip3_append _ _ _ _ _ _ (by simp) (by simp), zip3_rep _ _ _ m (by simp), zip3_rep _ _ _ m (by simp)]
  rfl

/-! ### running a monotone range of steps under an indexed invariant -/

theorem runSteps_up (n : Nat) (I : Nat → Env → Prop) (G : StepLog → Prop) (f : Nat → Nat × Bool × (Bool × Bool))
    (lo hi : Nat)
    (hstep : ∀ i e, lo ≤ i → i < hi → I i e → ∃ e' l, step n e (f i) = some (e', l) ∧ I (i + 1) e' ∧ G l) :
    ∀ (m k : Nat) (e : Env), lo ≤ k → k + m ≤ hi → I k e →
      ∃ e' logs, runSteps n e ((List.range' k m).map f) = some (e', logs) ∧ I (k + m) e' ∧ logs.length = m ∧
        ∀ l ∈ logs, G l := by
  intro m
  induction m with
  | zero => intro k e _ _ h; exact ⟨e, [], rfl, h, rfl, fun _ h => nomatch h⟩
  | succ m ih =>
    intro k e hk hkm h
    obtain ⟨e1, l1, s1, i1, g1⟩ := hstep k e hk (by omega) h
    obtain ⟨e2, ls, s2, i2, len2, g2⟩ := ih (k + 1) e1 (by omega) (by omega) i1
    refine ⟨e2, l1 :: ls, ?_, by rw [show k + (m + 1) = k + 1 + m from by omega]; exact i2, by simp [len2], ?_⟩
    · simp only [List.range'_succ, List.map_cons, runSteps, s1, s2]
    · intro l hl
      rcases List.mem_cons.1 hl with rfl | hl
      · exact g1
      · exact g2 l hl

theorem runSteps_down (n : Nat) (I : Nat → Env → Prop) (G : StepLog → Prop) (f : Nat → Nat × Bool × (Bool × Bool))
    (hi : Nat)
    (hstep : ∀ i e, 1 ≤ i → i ≤ hi → I i e → ∃ e' l, step n e (f i) = some (e', l) ∧ I (i - 1) e' ∧ G l) :
    ∀ (m : Nat) (e : Env), m ≤ hi → I m e →
      ∃ e' logs, runSteps n e (((List.range' 1 m).reverse).map f) = some (e', logs) ∧ I 0 e' ∧ logs.length = m ∧
        ∀ l ∈ logs, G l := by
  intro m
  induction m with
  | zero => intro e _ h; exact ⟨e, [], rfl, h, rfl, fun _ h => nomatch h⟩
  | succ m ih =>
    intro e hm h
    obtain ⟨e1, l1, s1, i1, g1⟩ := hstep (m + 1) e (by omega) hm h
    obtain ⟨e2, ls, s2, i2, len2, g2⟩ := ih e1 (by omega) i1
    refine ⟨e2, l1 :: ls, ?_, i2, by simp [len2], ?_⟩
    · have e : (List.range' 1 (m + 1)).reverse = (m + 1) :: (List.range' 1 m).reverse := by
        rw [List.range'_1_concat, List.reverse_append]; simp [Nat.add_comm]
      simp only [e, List.map_cons, runSteps, s1, s2]
    · intro l hl
      rcases List.mem_cons.1 hl with rfl | hl
      · exact g1
      · exact g2 l hl

theorem runSteps_cons_of (n : Nat) (e e1 : Env) (st : Nat × Bool × (Bool × Bool)) (l : StepLog)
    (sts : List (Nat × Bool × (Bool × Bool))) (h : step n e st = some (e1, l)) :
    runSteps n e (st :: sts) = (runSteps n e1 sts).map (fun r => (r.1, l :: r.2)) := by
  simp only [runSteps, h]
  cases runSteps n e1 sts <;> rfl


/-! ### one sweep, single-site -/

theorem sweep_one (L : Nat) (hL : 2 ≤ L) (e : Env) (h : Between L 1 e) :
    ∃ e' logs, sweep 1 e = some (e', logs) ∧ Between L 1 e' ∧ logs.length = 2 * L ∧ ∀ l ∈ logs, GoodInf L 1 l := by
  obtain ⟨m, rfl⟩ : ∃ m, L = m + 1 := ⟨L - 1, by omega⟩
  have hm : 1 ≤ m := by omega
  have w := h.1
  -- R_0
  obtain ⟨e2, hprep, hstart⟩ := step_prep (m + 1) 1 le_rfl (by omega) e h true true true
  obtain ⟨e3, l0, s0, i3, g0⟩ := stepR1 (m + 1) hL e2 0 true (by omega) (fun _ => rfl) (fun h => by omega)
    (hstart.toIR1 (by omega))
  rw [← hprep] at s0
  -- R_1 … R_{L-2}
  obtain ⟨e4, gA, sA, i4, lenA, gA'⟩ := runSteps_up 1 (fun i e => IR1 (m + 1) e i) (GoodInf (m + 1) 1)
    (fun i => (i, true, (true, false))) 1 m
    (fun i e h1 h2 hI => stepR1 (m + 1) hL e i false (by omega) (fun h => by omega) (fun _ => rfl) hI)
    (m - 1) 1 e3 le_rfl (by omega) i3
  rw [show 1 + (m - 1) = m from by omega] at i4
  -- R_{L-1}
  have hw := stepRwrap1 (m + 1) hL e4
  rw [Nat.add_sub_cancel] at hw
  obtain ⟨e5, l4, s4, i5, g4⟩ := hw i4
  -- L_L
  obtain ⟨e6, l5, s5, i6, g5⟩ := stepLa1 (m + 1) hL e5 i5
  rw [Nat.add_sub_cancel] at i6
  -- L_{L-1} … L_1
  obtain ⟨e7, gB, sB, i7, lenB, gB'⟩ := runSteps_down 1
    (fun i e => if i = 0 then Start (m + 1) 1 e else IL1 (m + 1) e i) (GoodInf (m + 1) 1)
    (fun i => (i, false, (false, true))) m
    (fun i e h1 h2 hI => by
      simp only [show ¬ (i = 0) by omega, if_false] at hI
      by_cases hi1 : i = 1
      · subst hi1
        obtain ⟨e', l, s, hS, g⟩ := stepL1_last (m + 1) hL e hI
        exact ⟨e', l, s, by simpa using hS, g⟩
      · obtain ⟨e', l, s, hS, g⟩ := stepL1 (m + 1) hL e i (by omega) (by omega) hI
        exact ⟨e', l, s, by simp only [show ¬ (i - 1 = 0) by omega, if_false]; exact hS, g⟩)
    m e6 le_rfl (by simp only [show ¬ (m = 0) by omega, if_false]; exact i6)
  simp only [if_true] at i7
  -- assemble
  have hsched : Gen.schedule e.finite e.L 1 = (0, true, (true, true)) ::
      ((List.range' 1 (m - 1)).map (fun i => (i, true, (true, false))) ++
        ((m, true, (true, false)) :: (m + 1, false, (true, true)) ::
          ((List.range' 1 m).reverse).map (fun i => (i, false, (false, true))))) := by
    rw [w.hfin, w.hL, schedule_one m]
    have : List.range' 1 m = List.range' 1 (m - 1) ++ [m] := by
      conv => lhs; rw [show m = (m - 1) + 1 from by omega, List.range'_1_concat]
      rw [show 1 + (m - 1) = m from by omega]
    have hmap : (List.range' 1 m).map (fun i => (i, true, (true, false)))
        = (List.range' 1 (m - 1)).map (fun i => (i, true, (true, false))) ++ [(m, true, (true, false))] := by
      rw [this, List.map_append]; rfl
    rw [hmap]
    simp [List.append_assoc]
  have r5 := runSteps_cons_of 1 e5 e6 _ l5 (((List.range' 1 m).reverse).map (fun i => (i, false, (false, true)))) s5
  rw [sB] at r5
  have r4 := runSteps_cons_of 1 e4 e5 _ l4 ((m + 1, false, (true, true)) ::
    ((List.range' 1 m).reverse).map (fun i => (i, false, (false, true)))) s4
  rw [r5] at r4
  have r3 := runSteps_append 1 e3 _ ((m, true, (true, false)) :: (m + 1, false, (true, true)) ::
    ((List.range' 1 m).reverse).map (fun i => (i, false, (false, true)))) e4 gA sA
  rw [r4] at r3
  have r0 := runSteps_cons_of 1 e e3 _ l0 ((List.range' 1 (m - 1)).map (fun i => (i, true, (true, false))) ++
        ((m, true, (true, false)) :: (m + 1, false, (true, true)) ::
          ((List.range' 1 m).reverse).map (fun i => (i, false, (false, true))))) s0
  rw [r3] at r0
  refine ⟨e7, l0 :: (gA ++ (l4 :: l5 :: gB)), ?_, i7.between (by omega) le_rfl, ?_, ?_⟩
  · unfold sweep
    rw [hsched, r0]
    rfl
  · simp [lenA, lenB]; omega
  · intro l hl
    simp only [List.mem_cons, List.mem_append] at hl
    rcases hl with rfl | hl | rfl | rfl | hl
    · exact g0
    · exact gA' l hl
    · exact g4
    · exact g5
    · exact gB' l hl


/-! ### one sweep, two-site, `L ≥ 3` -/

theorem Start.toIR2 {L : Nat} {e : Env} (h : Start L 2 e) : IR2 L e 0 :=
  ⟨h.1, h.2.1, fun j h1 h2 => by omega, fun j h1 h2 => h.2.2 j (by omega) h2, fun h => by omega, fun h => by omega⟩

theorem IR2.toStart {L : Nat} {e : Env} (h : IR2 L e 0) : Start L 2 e :=
  ⟨h.1, h.2.1, fun j h1 h2 => h.2.2.2.1 j (by omega) h2⟩

theorem sweep_two (L : Nat) (hL : 3 ≤ L) (e : Env) (h : Between L 2 e) :
    ∃ e' logs, sweep 2 e = some (e', logs) ∧ Between L 2 e' ∧ logs.length = 2 * L ∧ ∀ l ∈ logs, GoodInf L 2 l := by
  obtain ⟨m, rfl⟩ : ∃ m, L = m + 2 := ⟨L - 2, by omega⟩
  have hm : 1 ≤ m := by omega
  have w := h.1
  -- R_0, R_1
  obtain ⟨e2, hprep, hstart⟩ := step_prep (m + 2) 2 (by omega) (by omega) e h true true true
  obtain ⟨e3, l0, s0, i3, g0⟩ := stepR2 (m + 2) hL e2 0 true (by omega) (fun _ => rfl) (fun h => by omega)
    hstart.toIR2
  rw [← hprep] at s0
  obtain ⟨e3', l1, s1, i3', g1⟩ := stepR2 (m + 2) hL e3 1 true (by omega) (fun _ => rfl) (fun h => by omega) i3
  -- R_2 … R_{L-2}
  obtain ⟨e4, gA, sA, i4, lenA, gA'⟩ := runSteps_up 2 (fun i e => IR2 (m + 2) e i) (GoodInf (m + 2) 2)
    (fun i => (i, true, (true, false))) 2 (m + 1)
    (fun i e h1 h2 hI => stepR2 (m + 2) hL e i false (by omega) (fun h => by omega) (fun _ => rfl) hI)
    (m - 1) 2 e3' le_rfl (by omega) i3'
  rw [show 2 + (m - 1) = m + 1 from by omega] at i4
  -- R_{L-1}
  have hw := stepRwrap2 (m + 2) hL e4
  rw [show m + 2 - 1 = m + 1 from rfl] at hw
  obtain ⟨e5, l4, s4, i5, g4⟩ := hw i4
  -- L_L, L_{L-1}
  obtain ⟨e6, l5, s5, i6, g5⟩ := stepLa2 (m + 2) hL e5 i5
  have hw2 := stepLb2 (m + 2) hL e6 i6
  rw [show m + 2 - 1 = m + 1 from rfl, Nat.add_sub_cancel] at hw2
  obtain ⟨e6', l6, s6, i6', g6⟩ := hw2
  -- L_{L-2} … L_1
  obtain ⟨e7, gB, sB, i7, lenB, gB'⟩ := runSteps_down 2
    (fun i e => if i = 0 then IR2 (m + 2) e 0 else IL2 (m + 2) e i) (GoodInf (m + 2) 2)
    (fun i => (i, false, (false, true))) m
    (fun i e h1 h2 hI => by
      simp only [show ¬ (i = 0) by omega, if_false] at hI
      by_cases hi1 : i = 1
      · subst hi1
        obtain ⟨e', l, s, hS, g⟩ := stepL2_last (m + 2) hL e hI
        exact ⟨e', l, s, by simpa using hS, g⟩
      · obtain ⟨e', l, s, hS, g⟩ := stepL2 (m + 2) hL e i (by omega) (by omega) hI
        exact ⟨e', l, s, by simp only [show ¬ (i - 1 = 0) by omega, if_false]; exact hS, g⟩)
    m e6' le_rfl (by simp only [show ¬ (m = 0) by omega, if_false]; exact i6')
  simp only [if_true] at i7
  -- assemble
  have hsched : Gen.schedule e.finite e.L 2 = (0, true, (true, true)) :: (1, true, (true, true)) ::
      ((List.range' 2 (m - 1)).map (fun i => (i, true, (true, false))) ++
        ((m + 1, true, (true, false)) :: (m + 2, false, (true, true)) :: (m + 1, false, (true, true)) ::
          ((List.range' 1 m).reverse).map (fun i => (i, false, (false, true))))) := by
    rw [w.hfin, w.hL, schedule_two m]
    have : List.range' 2 m = List.range' 2 (m - 1) ++ [m + 1] := by
      conv => lhs; rw [show m = (m - 1) + 1 from by omega, List.range'_1_concat]
      rw [show 2 + (m - 1) = m + 1 from by omega]
    have hmap : (List.range' 2 m).map (fun i => (i, true, (true, false)))
        = (List.range' 2 (m - 1)).map (fun i => (i, true, (true, false))) ++ [(m + 1, true, (true, false))] := by
      rw [this, List.map_append]; rfl
    rw [hmap]
    simp [List.append_assoc]
  have r6 := runSteps_cons_of 2 e6 e6' _ l6 (((List.range' 1 m).reverse).map (fun i => (i, false, (false, true)))) s6
  rw [sB] at r6
  have r5 := runSteps_cons_of 2 e5 e6 _ l5 ((m + 1, false, (true, true)) ::
    ((List.range' 1 m).reverse).map (fun i => (i, false, (false, true)))) s5
  rw [r6] at r5
  have r4 := runSteps_cons_of 2 e4 e5 _ l4 ((m + 2, false, (true, true)) :: (m + 1, false, (true, true)) ::
    ((List.range' 1 m).reverse).map (fun i => (i, false, (false, true)))) s4
  rw [r5] at r4
  have r3 := runSteps_append 2 e3' _ ((m + 1, true, (true, false)) :: (m + 2, false, (true, true)) ::
    (m + 1, false, (true, true)) :: ((List.range' 1 m).reverse).map (fun i => (i, false, (false, true)))) e4 gA sA
  rw [r4] at r3
  have r1 := runSteps_cons_of 2 e3 e3' _ l1 ((List.range' 2 (m - 1)).map (fun i => (i, true, (true, false))) ++
        ((m + 1, true, (true, false)) :: (m + 2, false, (true, true)) :: (m + 1, false, (true, true)) ::
          ((List.range' 1 m).reverse).map (fun i => (i, false, (false, true))))) s1
  rw [r3] at r1
  have r0 := runSteps_cons_of 2 e e3 _ l0 ((1, true, (true, true)) ::
      ((List.range' 2 (m - 1)).map (fun i => (i, true, (true, false))) ++
        ((m + 1, true, (true, false)) :: (m + 2, false, (true, true)) :: (m + 1, false, (true, true)) ::
          ((List.range' 1 m).reverse).map (fun i => (i, false, (false, true)))))) s0
  rw [r1] at r0
  refine ⟨e7, l0 :: l1 :: (gA ++ (l4 :: l5 :: l6 :: gB)), ?_, i7.toStart.between (by omega) (by omega), ?_, ?_⟩
  · unfold sweep
    rw [hsched, r0]
    rfl
  · simp [lenA, lenB]; omega
  · intro l hl
    simp only [List.mem_cons, List.mem_append] at hl
    rcases hl with rfl | rfl | hl | rfl | rfl | rfl | hl
    · exact g0
    · exact g1
    · exact gA' l hl
    · exact g4
    · exact g5
    · exact g6
    · exact gB' l hl

/-! ### two-site sweep on a two-site unit cell: only existence of the parts matters (no other slot to cover) -/

def T2 (e : Env) : Prop := WF 2 e ∧ StoredL 2 e 0 0 ∧ StoredR 2 e 1 0
def U2 (e : Env) : Prop := WF 2 e ∧ StoredL 2 e 1 0 ∧ StoredR 2 e 0 0

theorem stepT2 (e : Env) (i0 : Nat) (mr : Bool) (hi : i0 = 0 ∨ i0 = 2) (h : T2 e) :
    ∃ e7 log, step 2 e (i0, mr, (true, true)) = some (e7, log) ∧ U2 e7 ∧ GoodInf 2 2 log := by
  obtain ⟨w, ⟨pl, hpl, fl⟩, ⟨pr, hpr, fr⟩⟩ := h
  have m0 : i0 % 2 = 0 := by rcases hi with rfl | rfl <;> rfl
  have m1 : (i0 + 1) % 2 = 1 := by rcases hi with rfl | rfl <;> rfl
  have hinds : updateEnvInds 2 i0 mr = (i0, i0 + 1) := by simp [updateEnvInds]
  obtain ⟨e7, hs, P⟩ := step_spec 2 2 e w le_rfl (Or.inr rfl) i0 mr true true i0 0 1 hinds m0 m1 pl pr pl pr
    (by rw [m0]; exact hpl) (by rw [show i0 + 2 - 1 = i0 + 1 from rfl, m1]; exact hpr) hpl hpr
  refine ⟨e7, _, hs, ⟨P.wf, ?_, ?_⟩, ?_⟩
  · exact (P.newL rfl fl (by intro t ht; omega) (by omega)).mono (Nat.zero_le _)
  · exact (P.newR rfl fr (by intro t ht; omega) (by omega)).mono (Nat.zero_le _)
  · exact good_of_fresh 2 2 e i0 mr pl pr 0 0 (by omega) (by omega) (by rw [m0]; exact fl)
      (by rw [show i0 + 2 - 1 = i0 + 1 from rfl, m1]; exact fr) (by omega)

theorem stepU2 (e : Env) (mr : Bool) (h : U2 e) :
    ∃ e7 log, step 2 e (1, mr, (true, true)) = some (e7, log) ∧ T2 e7 ∧ GoodInf 2 2 log := by
  obtain ⟨w, ⟨pl, hpl, fl⟩, ⟨pr, hpr, fr⟩⟩ := h
  have hinds : updateEnvInds 2 1 mr = (1, 1 + 1) := by simp [updateEnvInds]
  obtain ⟨e7, hs, P⟩ := step_spec 2 2 e w le_rfl (Or.inr rfl) 1 mr true true 1 1 0 hinds rfl rfl pl pr pl pr
    hpl hpr hpl hpr
  refine ⟨e7, _, hs, ⟨P.wf, ?_, ?_⟩, ?_⟩
  · exact (P.newL rfl fl (by intro t ht; omega) (by omega)).mono (Nat.zero_le _)
  · exact (P.newR rfl fr (by intro t ht; omega) (by omega)).mono (Nat.zero_le _)
  · exact good_of_fresh 2 2 e 1 mr pl pr 0 0 (by omega) (by omega) fl fr (by omega)

theorem sweep_two_two (e : Env) (h : Between 2 2 e) :
    ∃ e' logs, sweep 2 e = some (e', logs) ∧ Between 2 2 e' ∧ logs.length = 2 * 2 ∧ ∀ l ∈ logs, GoodInf 2 2 l := by
  have w := h.1
  have hT : T2 e := by
    obtain ⟨w, hl, m, hm1, hm2, _, hst⟩ := h
    exact ⟨w, hl, (hst 1 (by omega) (by omega)).mono (Nat.zero_le _)⟩
  obtain ⟨e1, l1, s1, u1, g1⟩ := stepT2 e 0 true (Or.inl rfl) hT
  obtain ⟨e2, l2, s2, t2, g2⟩ := stepU2 e1 true u1
  obtain ⟨e3, l3, s3, u3, g3⟩ := stepT2 e2 2 false (Or.inr rfl) t2
  obtain ⟨e4, l4, s4, t4, g4⟩ := stepU2 e3 false u3
  have hsched : Gen.schedule e.finite e.L 2 = [(0, true, (true, true)), (1, true, (true, true)),
      (2, false, (true, true)), (1, false, (true, true))] := by
    rw [w.hfin, w.hL]; decide
  refine ⟨e4, [l1, l2, l3, l4], ?_, ⟨t4.1, t4.2.1, 1, le_rfl, by omega, fun j h1 h2 => by omega,
    fun j h1 h2 => by
      have : j = 1 := by omega
      subst this
      exact t4.2.2⟩, rfl, ?_⟩
  · unfold sweep
    rw [hsched]
    simp only [runSteps, s1, s2, s3, s4]
  · intro l hl
    simp only [List.mem_cons, List.not_mem_nil, or_false] at hl
    rcases hl with rfl | rfl | rfl | rfl <;> assumption

end TenpyModel.C13.P2
