import TenpyModel.C13.P2_InfSweep
import TenpyModel.C13.P2_SectorOrtho
/-!
# C13 — Props2

* `C13_env_fresh_infinite`  infinite boundary conditions, `n = 1, 2`, EVERY `L ≥ 2`, any number of sweeps from the
  environments of a new engine: no `get_LP/get_RP` fails, and at every step the leading *current* dependencies of the
  `LP` and `RP` read by `make_eff_H` cover every slot of the unit cell other than the `n` optimised ones (their total
  length is `≥ L - n`).  This is the statement that was only evaluated for `2 ≤ L ≤ 7` in `Props.lean`
  (`C13_env_fresh_infinite_partial`); `C13_env_fresh_infinite_ok` is literally that statement for all `L`, `k`.

  Invariant (files `P2_Inf*.lean`): a stored part is described only by the length of its *fresh prefix*
  (`FreshL/FreshR`: first `d` dependencies are the slots `j∓1, j∓2, …` mod `L` at their current versions) — older
  dependencies (neighbouring unit cells) are left unconstrained.  `step_spec` executes one iteration of the loop
  symbolically for all flag combinations (reads at distance 0, `update_LP/RP` at distance 1); the phase invariants
  `IR*/ILa*/ILb*/IL*` give the fresh depth of every stored part before each step of the periodic schedule:
  two-site, before `R_i`: `LP[j] ↦ j (2 ≤ j ≤ i)`, `RP[j] ↦ L-1-j (j > i)`, `RP[0], RP[1]` stored;
  before `L_L`: `LP[0] ↦ L-1`, `LP[j] ↦ j-1`; before `L_{L-1}`: `LP[j] ↦ j-2`, `RP[0] ↦ 1`;
  before `L_i`: `LP[j] ↦ j-2 (j ≤ i)`, `RP[j] ↦ L+1-j (j > i)`; single-site analogously.
* `C13_sector`, `C13_sector_chain`, `C13_sector_krylov`, `C13_sector_to_matrix`  the five coded `matvec` bodies of
  `OneSiteH/TwoSiteH` over the C02 structure model: `qtotal(result) = make_valid(Σ qtotal(network) + theta.qtotal)`;
  neutral network ⇒ the sector of `theta` is kept, for every vector a Krylov solver builds (helpers `P2_Sector*.lean`).
* `C13_orthogonal_projector`, `…_gram_schmidt`, `…_abstract`, `…_counterexample`  `OrthogonalNpcLinearOperator`
  (helpers `P2_Ortho*.lean`).
-/

section InfiniteEnv
open TenpyModel.C13 TenpyModel.C13.P2

namespace TenpyModel.C13.P2

theorem sweep_inf (L n : Nat) (hn : n = 1 ∨ n = 2) (hL : 2 ≤ L) (e : Env) (h : Between L n e) :
    ∃ e' logs, sweep n e = some (e', logs) ∧ Between L n e' ∧ logs.length = 2 * L ∧ ∀ l ∈ logs, GoodInf L n l := by
  rcases hn with rfl | rfl
  · exact sweep_one L hL e h
  · by_cases h3 : 3 ≤ L
    · exact sweep_two L h3 e h
    · have : L = 2 := by omega
      subst this
      exact sweep_two_two e h

theorem sweeps_inf (L n : Nat) (hn : n = 1 ∨ n = 2) (hL : 2 ≤ L) (k : Nat) (e : Env) (he : Between L n e) :
    ∃ e' logs, sweeps n k e = some (e', logs) ∧ Between L n e' ∧ logs.length = k * (2 * L) ∧
      ∀ l ∈ logs, GoodInf L n l := by
  induction k generalizing e with
  | zero => exact ⟨e, [], rfl, he, by simp, fun _ h => nomatch h⟩
  | succ k ih =>
    obtain ⟨e1, g1, h1, b1, l1, f1⟩ := sweep_inf L n hn hL e he
    obtain ⟨e2, g2, h2, b2, l2, f2⟩ := ih e1 b1
    refine ⟨e2, g1 ++ g2, by simp [sweeps, h1, h2], b2, by simp [l1, l2]; ring, ?_⟩
    intro l hl
    rcases List.mem_append.1 hl with h | h
    · exact f1 l h
    · exact f2 l h

end TenpyModel.C13.P2

/-- **Environments are fresh (infinite systems), all unit-cell sizes.**  Start from the environments of a new engine
(`LP[0]`, `RP[L-1]` only), run any number `k` of sweeps of the regenerated schedule with `n = 1` or `2` on any unit
cell `L ≥ 2`: no `get_LP/get_RP` ever fails (`sweeps … = some …`, `2L` steps per sweep), and at every step every slot of
the unit cell other than the `n` optimised ones occurs among the leading *current* dependencies of the `LP` or of the `RP`
that `make_eff_H` read (`coverOK`); the two fresh prefixes have total length `≥ L - n`. -/
theorem C13_env_fresh_infinite (L n : Nat) (hn : n = 1 ∨ n = 2) (hL : 2 ≤ L) (k : Nat) :
    ∃ e logs, sweeps n k (Env.init L false 0 0) = some (e, logs) ∧ logs.length = k * (2 * L) ∧
      ∀ l ∈ logs, coverOK L n l = true ∧ L - n ≤ l.freshL + l.freshR := by
  obtain ⟨e, logs, h1, _, h3, h4⟩ := sweeps_inf L n hn hL k (Env.init L false 0 0)
    (init_between L n (by omega) (by omega))
  exact ⟨e, logs, h1, h3, h4⟩

/-- the executable check of `Props.lean` (`infiniteOK`, evaluated there for `2 ≤ L ≤ 7` and three sweeps) holds for
every `L ≥ 2` and every number of sweeps -/
theorem C13_env_fresh_infinite_ok (L n : Nat) (hn : n = 1 ∨ n = 2) (hL : 2 ≤ L) (k : Nat) :
    infiniteOK L n k = true := by
  obtain ⟨e, logs, h1, h2, h3⟩ := C13_env_fresh_infinite L n hn hL k
  unfold infiniteOK
  rw [h1]
  simp only [Bool.and_eq_true, beq_iff_eq, List.all_eq_true]
  exact ⟨h2, fun l hl => (h3 l hl).1⟩

/-- concrete run (kernel evaluation): `L = 5`, two-site, two sweeps = 20 steps; `(i0, freshL, freshR)` of every step:
the fresh prefixes are genuinely shorter than the stored dependency lists (older unit cells), and sum to `≥ L - 2`. -/
example : ((sweeps 2 2 (Env.init 5 false 0 0)).map (fun r => r.2.map (fun l => (l.i0, l.freshL, l.freshR)))) =
    some [(0, 0, 3), (1, 1, 2), (2, 2, 1), (3, 3, 0), (4, 4, 0), (5, 4, 0), (4, 2, 1), (3, 1, 2), (2, 0, 3), (1, 0, 4),
          (0, 0, 4), (1, 1, 2), (2, 2, 1), (3, 3, 0), (4, 4, 0), (5, 4, 0), (4, 2, 1), (3, 1, 2), (2, 0, 3), (1, 0, 4)] := by
  decide +kernel

example : infiniteOK 9 1 2 = true ∧ infiniteOK 8 2 2 = true := by decide +kernel

end InfiniteEnv

/-! ## sector -/
section Sector
open TenpyModel.Core TenpyModel.C02 TenpyModel.C02P2 TenpyModel.C13.P2b

/-- **`matvec` with `H.qtotal = 0` preserves `theta.qtotal`.**  `H : EffH` is one of the five coded bodies
(`OneSiteH.matvec` without / with `combine` in both directions, `TwoSiteH.matvec` without / with `combine`), executed
line by line over the C02 structure model (`tensordot`, `itranspose`; both kernels `cy`).  Sane operands, the call
returns ⇒ the result is sane, over the same `chinfo` as `theta` and every network tensor, and
`qtotal = make_valid(Σ qtotal(network tensors) + theta.qtotal)`; it equals `theta.qtotal` when the charges of the network
tensors cancel modulo the charge moduli (`H.qtotal = 0`, see `C13_sector_to_matrix`), in particular when each is `0` —
any number of charges, any moduli. -/
theorem C13_sector (cy : Bool) (H : EffH) (θ r : ArrS) (labels : List Int)
    (hH : ∀ X ∈ H.parts, X.WF) (hθ : θ.WF) (h : H.matvec cy θ labels = some r) :
    r.WF ∧ r.mods = θ.mods ∧ (∀ X ∈ H.parts, X.mods = θ.mods) ∧
    r.qtotal = makeValid θ.mods (cadd H.qsum θ.qtotal) ∧
    (makeValid θ.mods H.qsum = czero θ.mods.length → r.qtotal = θ.qtotal) ∧
    ((∀ X ∈ H.parts, X.qtotal = czero θ.mods.length) → r.qtotal = θ.qtotal) :=
  sector_main cy H θ r labels hH hθ h

open SectorEx in
/-- non-vacuity (`U(1) × Z₂`, one-site network, environments with charges `(0,1)` that cancel mod 2; compiled-kernel
variant): hypotheses hold, the call returns a tensor with blocks, in the sector `(1,1)` of `theta` -/
example : (∀ X ∈ (H1 [0, 1] [0, 1]).parts, X.WF) ∧ theta.WF ∧
    makeValid theta.mods (H1 [0, 1] [0, 1]).qsum = czero theta.mods.length ∧
    (((H1 [0, 1] [0, 1]).matvec true theta [1, 0, 2]).map fun r => (r.legs == theta.legs, r.qtotal, r.qdata.length))
      = some (true, [1, 1], 2) := by
  decide +kernel

/-- the same for ANY chain of `theta = tensordot(X, theta, axes)` / `theta = tensordot(theta, X, axes)` followed by a
transpose: total charges add up; neutral operands keep the sector -/
theorem C13_sector_chain (cy : Bool) (steps : List TdStep) (θ r : ArrS) (labels : Option (List Int))
    (hs : ∀ s ∈ steps, s.arr.WF) (hθ : θ.WF)
    (h : (TenpyModel.C13.P2b.runSteps cy steps θ).bind (fun t => t.itranspose labels) = some r) :
    r.WF ∧ r.mods = θ.mods ∧ r.qtotal = makeValid θ.mods (chainCharge steps θ.qtotal) ∧
    ((∀ s ∈ steps, s.arr.qtotal = czero θ.mods.length) → r.qtotal = θ.qtotal) :=
  sector_main_a cy steps θ r labels hs hθ h

open SectorEx in
example : (∀ X ∈ H2.parts, X.WF) ∧ theta2.WF ∧ (∀ X ∈ H2.parts, X.qtotal = czero theta2.mods.length) ∧
    ((H2.matvec true theta2 [1, 0, 2, 3]).map fun r => (r.legs == theta2.legs, r.qtotal, decide (0 < r.qdata.length)))
      = some (true, [1, 1], true) := by
  decide +kernel

/-- **every Krylov vector stays in the sector of the start vector**: everything reachable from `θ0` by the coded
`matvec` of a network with neutral charge sum, `iscale_prefactor` and `iadd_prefactor_other` (both outputs) is sane, over
the `chinfo` of `θ0` and has `qtotal = θ0.qtotal`; two such vectors never trip the `qtotal` check of
`iadd_prefactor_other`. -/
theorem C13_sector_krylov (cy : Bool) (H : EffH) (labels : List Int) (θ0 : ArrS) (hθ : θ0.WF)
    (hH : ∀ X ∈ H.parts, X.WF) (hz : makeValid θ0.mods H.qsum = czero θ0.mods.length) :
    (∀ x, SectorReach cy (fun x => H.matvec cy x labels) θ0 x → x.WF ∧ x.mods = θ0.mods ∧ x.qtotal = θ0.qtotal) ∧
    (∀ x y, SectorReach cy (fun x => H.matvec cy x labels) θ0 x →
      SectorReach cy (fun x => H.matvec cy x labels) θ0 y → x.qtotal = y.qtotal) :=
  sector_main_b cy (fun x => H.matvec cy x labels) θ0 hθ (sector_main_b_hyp cy H labels θ0 hH hz)

open SectorEx in
/-- non-vacuity: the hypotheses hold for the example network and the Krylov step
`w = H theta; w.iadd_prefactor_other(-alpha, theta)` goes through -/
example : theta.WF ∧ (∀ X ∈ (H1 [0, 1] [0, 1]).parts, X.WF) ∧
    makeValid theta.mods (H1 [0, 1] [0, 1]).qsum = czero theta.mods.length ∧
    (((H1 [0, 1] [0, 1]).matvec false theta [1, 0, 2]).bind fun w =>
      ArrS.iaddPrefactorOther false w theta none false).isSome = true := by
  decide +kernel

/-- **`to_matrix()`**: the effective Hamiltonian as one matrix has `qtotal = make_valid(Σ qtotal(network tensors))`, so
"`H.qtotal = 0`" is exactly the hypothesis `make_valid(H.qsum) = 0` of `C13_sector` -/
theorem C13_sector_to_matrix (cy : Bool) (H : EffH) (axes : List TdAxes) (groups : List (List Nat)) (m : ArrS)
    (hH : ∀ X ∈ H.parts, X.WF) (hax : axes.length = H.rest.length)
    (h : H.toMatrix cy axes groups = some m) :
    m.WF ∧ m.qtotal = makeValid H.first.mods H.qsum :=
  sector_main_c cy H axes groups m hH hax h

open SectorEx in
example : (∀ X ∈ (H1 [0, 1] [0, 1]).parts, X.WF) ∧ tmAxes.length = (H1 [0, 1] [0, 1]).rest.length ∧
    makeValid (H1 [0, 1] [0, 1]).first.mods (H1 [0, 1] [0, 1]).qsum = [0, 0] := by
  decide +kernel

end Sector

/-! ## orthogonal projector -/
section OrthoList
open TenpyModel.C16 TenpyModel.C13.P2b

/-- **`OrthogonalNpcLinearOperator` keeps results orthogonal to the given vectors** (list model of C16: `Op.ortho A os`,
`Op.apply`, `build`, `runGS`).  `os` orthonormal (established by `__init__` via `gram_schmidt`, see
`C13_orthogonal_projector_gram_schmidt`), `A` keeps the number of entries.  (1) every `matvec` result is orthogonal to
every `o`, for every input; (2) start vector orthogonal to every `o`, exact normalisation (`rnd = id`; root oracle,
convergence oracle, eigen-solver oracle, `E_shift`, `reortho`, `N_cache ≥ 1` arbitrary): every Lanczos vector, the FIFO
cache at loop exit and the returned ground state are orthogonal to every `o`. -/
theorem C13_orthogonal_projector (A : Op) (os : List Vec) (n : Nat) (hON : ON n os)
    (hA : ∀ u : Vec, u.length = n → (A.apply u).length = n) :
    (∀ v : Vec, v.length = n →
      ((Op.ortho A os).apply v).length = n ∧ ∀ c ∈ os, dot c ((Op.ortho A os).apply v) = 0) ∧
    (∀ (ar : Arith) (o : Opts) (eShift : Option Rat) (conv : Nat → List Rat → List Rat → Bool)
        (eig : Nat → List Rat → List Rat → Rat × List Rat) (psi0 : Vec),
      (∀ x, ar.rnd x = x) → 1 ≤ o.nCache → 1 ≤ o.nMax → psi0.length = n → (∀ c ∈ os, dot c psi0 = 0) →
      (∀ j, ∀ c ∈ os, dot c (vAt (withShift (.ortho A os) eShift).apply ar o.reortho o.nCache psi0 j) = 0) ∧
      (∀ N s, build (withShift (.ortho A os) eShift).apply ar o conv psi0 = some (N, s) →
        ∀ v ∈ s.cache, ∀ c ∈ os, dot c v = 0) ∧
      (∀ res, runGS (.ortho A os) ar o eShift conv eig psi0 = some res →
        res.psi.length = n ∧ ∀ c ∈ os, dot c res.psi = 0)) :=
  orthogonal_projector_main A os n hON hA

open OrthoEx in
/-- non-vacuity: `os = [e₀]`, start `(0,3,4) ⟂ e₀`: two Lanczos steps, returned vector `(0, -14/99, 98/99)` -/
example : ON 3 [[1, 0, 0]] ∧ (∀ u : Vec, u.length = 3 → (path3.apply u).length = 3) ∧ (∀ x, ar.rnd x = x) ∧
    dot [1, 0, 0] [0, 3, 4] = 0 ∧
    (runGS (.ortho path3 [[1, 0, 0]]) ar opts none (fun _ _ _ => false) eig [0, 3, 4]).map (fun r => (r.N, r.psi))
      = some (2, [0, -14 / 99, 98 / 99]) :=
  ⟨on_e0, fun u _ => path3_len u, fun _ => rfl, by decide +kernel, by decide +kernel⟩

/-- **the start vector must be orthogonal to `os`** — only `matvec` results are projected and neither `KrylovBased.__init__`
nor the DMRG engine projects `theta_guess`: a run with orthonormal `os` whose returned vector overlaps with `o` -/
theorem C13_orthogonal_projector_counterexample :
    ∃ (A : Op) (os : List Vec) (ar : Arith) (o : Opts) (conv : Nat → List Rat → List Rat → Bool)
      (eig : Nat → List Rat → List Rat → Rat × List Rat) (psi0 : Vec) (res : GSResult),
      ON 3 os ∧ (∀ u : Vec, u.length = 3 → (A.apply u).length = 3) ∧ (∀ x, ar.rnd x = x) ∧ psi0.length = 3 ∧
      runGS (.ortho A os) ar o none conv eig psi0 = some res ∧ ∃ c ∈ os, dot c res.psi ≠ 0 :=
  orthogonal_projector_counterexample

/-- **what the constructor establishes**: `__init__` stores `gram_schmidt(ortho_vecs)` (the `ortho_vecs` of
`Sweep._wrap_ortho_eff_H` are neither normalised nor orthogonal).  Exact roots, `rcond ≥ 0`: the stored list is
orthonormal and every `matvec` result is orthogonal to it; with `rcond = 0` and non-negative roots every `matvec` result is
orthogonal to every GIVEN vector. -/
theorem C13_orthogonal_projector_gram_schmidt (A : Op) (ar : Arith) (hr : ∀ x, ar.rnd x = x) (rcond : Rat)
    (hrc : 0 ≤ rcond) (n : Nat) (vecs : List Vec) (hv : ∀ v ∈ vecs, v.length = n) (hex : GSExact ar rcond [] vecs)
    (hA : ∀ u : Vec, u.length = n → (A.apply u).length = n) :
    ON n (gramSchmidt ar rcond vecs) ∧
    (∀ v : Vec, v.length = n → ∀ c ∈ gramSchmidt ar rcond vecs,
      dot c ((Op.ortho A (gramSchmidt ar rcond vecs)).apply v) = 0) ∧
    (rcond = 0 → (∀ x, 0 ≤ ar.sq x) →
      (∀ y : Vec, (∀ c ∈ gramSchmidt ar rcond vecs, dot c y = 0) → ∀ w ∈ vecs, dot w y = 0) ∧
      (∀ v : Vec, v.length = n → ∀ w ∈ vecs, dot w ((Op.ortho A (gramSchmidt ar rcond vecs)).apply v) = 0)) :=
  orthogonal_projector_main_b A ar hr rcond hrc n vecs hv hex hA

/-- non-vacuity: the non-orthonormal pair `(3,4), (1,0)`, `rcond = 0` -/
example :
    let ar : Arith := { sq := fun x => if x = 25 then 5 else if x = 16 / 25 then 4 / 5 else 0, rnd := id }
    (∀ x, ar.rnd x = x) ∧ GSExact ar 0 [] [[3, 4], [1, 0]] ∧
    gramSchmidt ar 0 [[3, 4], [1, 0]] = [[3 / 5, 4 / 5], [4 / 5, -3 / 5]] :=
  ⟨fun _ => rfl, ⟨by decide +kernel, by decide +kernel, trivial⟩, by decide +kernel⟩

end OrthoList

section OrthoAbs
open scoped InnerProductSpace
open TenpyModel.C16.Abs TenpyModel.C13.P2b
variable {𝕜 E : Type*} [RCLike 𝕜] [NormedAddCommGroup E] [InnerProductSpace 𝕜 E]

/-- **abstract version** (`𝕜 = ℝ` or `ℂ`, any inner product space, `H` any map).  `orthoMatvec 𝕜 H os` is the coded
`matvec` (project along `os`, apply `H`, project along `os[::-1]`).  For orthonormal `o`: it equals `P H P` with
`P = 1 - Σ |o i⟩⟨o i|`; its results are orthogonal to every `o i`; every vector generated from `ψ0` by `matvec`, sums and
multiples has overlaps `⟪o i, x⟫ = c ⟪o i, ψ0⟫`, hence is orthogonal to every `o i` when `ψ0` is; the three-term
recurrence started at `v 0 ⟂ o` gives `v j ⟂ o` and `Σ y j • v j ⟂ o`. -/
theorem C13_orthogonal_projector_abstract {k : ℕ} (H : E → E) (o : Fin k → E) (ho : Orthonormal 𝕜 o) :
    (∀ x, orthoMatvec 𝕜 H (List.ofFn o) x = projCompl 𝕜 o (H (projCompl 𝕜 o x))) ∧
    (∀ x i, ⟪o i, orthoMatvec 𝕜 H (List.ofFn o) x⟫_𝕜 = 0) ∧
    (∀ ψ0 x, KrylovGen 𝕜 (orthoMatvec 𝕜 H (List.ofFn o)) ψ0 x → ∃ c : 𝕜, ∀ i, ⟪o i, x⟫_𝕜 = c * ⟪o i, ψ0⟫_𝕜) ∧
    (∀ ψ0 x, (∀ i, ⟪o i, ψ0⟫_𝕜 = 0) → KrylovGen 𝕜 (orthoMatvec 𝕜 H (List.ofFn o)) ψ0 x → ∀ i, ⟪o i, x⟫_𝕜 = 0) ∧
    (∀ (v : ℕ → E) (α β γ : ℕ → 𝕜) (m : ℕ),
      (∀ j < m, β j • v (j + 1) = orthoMatvec 𝕜 H (List.ofFn o) (v j) - α j • v j - γ j • v (j - 1)) →
      (∀ j < m, β j ≠ 0) → (∀ i, ⟪o i, v 0⟫_𝕜 = 0) →
      (∀ j ≤ m, ∀ i, ⟪o i, v j⟫_𝕜 = 0) ∧ ∀ y : Fin (m + 1) → 𝕜, ∀ i, ⟪o i, ∑ j, y j • v j⟫_𝕜 = 0) :=
  orthogonal_projector_main_a H o ho

/-- non-vacuity: in `ℝ²`, `o = (e₀)` orthonormal, `ψ0 = e₁ ≠ 0` orthogonal to it -/
example : ∃ (o : Fin 1 → EuclideanSpace ℝ (Fin 2)) (ψ0 : EuclideanSpace ℝ (Fin 2)),
    Orthonormal ℝ o ∧ (∀ i, ⟪o i, ψ0⟫_ℝ = 0) ∧ ψ0 ≠ 0 := by
  refine ⟨fun _ => EuclideanSpace.single 0 1, EuclideanSpace.single 1 1, ?_, ?_, ?_⟩
  · rw [orthonormal_iff_ite]
    intro i j
    have : i = j := Subsingleton.elim i j
    simp [this]
  · intro i; simp [EuclideanSpace.inner_single_left]
  · intro h
    have := congrArg (fun v => v 1) h
    simp at this

end OrthoAbs
