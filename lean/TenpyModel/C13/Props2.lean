import TenpyModel.C13.P2_InfSweep
/-!
# C13 — Props2

* `C13_env_fresh_infinite`  infinite boundary conditions, `n = 1, 2`, EVERY `L ≥ 2`, any number of sweeps from the
  environments of a new engine: no `get_LP/get_RP` fails, and at every step the leading *current* dependencies of the
  `LP` and `RP` read by `make_eff_H` cover every slot of the unit cell other than the `n` optimised ones (their total
  length is `≥ L - n`).  This is the statement that was only evaluated for `2 ≤ L ≤ 7` in `Props.lean`
  (`C13_env_fresh_infinite_partial`); `C13_env_fresh_infinite_ok` is literally that statement for all `L`, `k`.

  Invariant (files `P2_Inf*.lean`): a stored part is described only by the length of its *fresh prefix*
  (`FreshL/FreshR`: first `d` dependencies are the slots `j∓1, j∓2, …` mod `L` at their current versions) — older
  dependencies (neighbouring unit cells) are left unconstrained.  `step_spec` executes one iteration of the loop
  symbolically for all flag combinations (reads at distance 0, `update_LP/RP` at distance 1); the phase invariants
  `IR*/ILa*/ILb*/IL*` give the fresh depth of every stored part before each step of the periodic schedule:
  two-site, before `R_i`: `LP[j] ↦ j (2 ≤ j ≤ i)`, `RP[j] ↦ L-1-j (j > i)`, `RP[0], RP[1]` stored;
  before `L_L`: `LP[0] ↦ L-1`, `LP[j] ↦ j-1`; before `L_{L-1}`: `LP[j] ↦ j-2`, `RP[0] ↦ 1`;
  before `L_i`: `LP[j] ↦ j-2 (j ≤ i)`, `RP[j] ↦ L+1-j (j > i)`; single-site analogously.
-/
open TenpyModel.C13 TenpyModel.C13.P2

namespace TenpyModel.C13.P2

theorem sweep_inf (L n : Nat) (hn : n = 1 ∨ n = 2) (hL : 2 ≤ L) (e : Env) (h : Between L n e) :
    ∃ e' logs, sweep n e = some (e', logs) ∧ Between L n e' ∧ logs.length = 2 * L ∧ ∀ l ∈ logs, GoodInf L n l := by
  rcases hn with rfl | rfl
  · exact sweep_one L hL e h
  · by_cases h3 : 3 ≤ L
    · exact sweep_two L h3 e h
    · have : L = 2 := by omega
      subst this
      exact sweep_two_two e h

theorem sweeps_inf (L n : Nat) (hn : n = 1 ∨ n = 2) (hL : 2 ≤ L) (k : Nat) (e : Env) (he : Between L n e) :
    ∃ e' logs, sweeps n k e = some (e', logs) ∧ Between L n e' ∧ logs.length = k * (2 * L) ∧
      ∀ l ∈ logs, GoodInf L n l := by
  induction k generalizing e with
  | zero => exact ⟨e, [], rfl, he, by simp, fun _ h => nomatch h⟩
  | succ k ih =>
    obtain ⟨e1, g1, h1, b1, l1, f1⟩ := sweep_inf L n hn hL e he
    obtain ⟨e2, g2, h2, b2, l2, f2⟩ := ih e1 b1
    refine ⟨e2, g1 ++ g2, by simp [sweeps, h1, h2], b2, by simp [l1, l2]; ring, ?_⟩
    intro l hl
    rcases List.mem_append.1 hl with h | h
    · exact f1 l h
    · exact f2 l h

end TenpyModel.C13.P2

/-- **Environments are fresh (infinite systems), all unit-cell sizes.**  Start from the environments of a new engine
(`LP[0]`, `RP[L-1]` only), run any number `k` of sweeps of the regenerated schedule with `n = 1` or `2` on any unit
cell `L ≥ 2`: no `get_LP/get_RP` ever fails (`sweeps … = some …`, `2L` steps per sweep), and at every step every slot of
the unit cell other than the `n` optimised ones occurs among the leading *current* dependencies of the `LP` or of the `RP`
that `make_eff_H` read (`coverOK`); the two fresh prefixes have total length `≥ L - n`. -/
theorem C13_env_fresh_infinite (L n : Nat) (hn : n = 1 ∨ n = 2) (hL : 2 ≤ L) (k : Nat) :
    ∃ e logs, sweeps n k (Env.init L false 0 0) = some (e, logs) ∧ logs.length = k * (2 * L) ∧
      ∀ l ∈ logs, coverOK L n l = true ∧ L - n ≤ l.freshL + l.freshR := by
  obtain ⟨e, logs, h1, _, h3, h4⟩ := sweeps_inf L n hn hL k (Env.init L false 0 0)
    (init_between L n (by omega) (by omega))
  exact ⟨e, logs, h1, h3, h4⟩

/-- the executable check of `Props.lean` (`infiniteOK`, evaluated there for `2 ≤ L ≤ 7` and three sweeps) holds for
every `L ≥ 2` and every number of sweeps -/
theorem C13_env_fresh_infinite_ok (L n : Nat) (hn : n = 1 ∨ n = 2) (hL : 2 ≤ L) (k : Nat) :
    infiniteOK L n k = true := by
  obtain ⟨e, logs, h1, h2, h3⟩ := C13_env_fresh_infinite L n hn hL k
  unfold infiniteOK
  rw [h1]
  simp only [Bool.and_eq_true, beq_iff_eq, List.all_eq_true]
  exact ⟨h2, fun l hl => (h3 l hl).1⟩

/-- concrete run (kernel evaluation): `L = 5`, two-site, two sweeps = 20 steps; `(i0, freshL, freshR)` of every step:
the fresh prefixes are genuinely shorter than the stored dependency lists (older unit cells), and sum to `≥ L - 2`. -/
example : ((sweeps 2 2 (Env.init 5 false 0 0)).map (fun r => r.2.map (fun l => (l.i0, l.freshL, l.freshR)))) =
    some [(0, 0, 3), (1, 1, 2), (2, 2, 1), (3, 3, 0), (4, 4, 0), (5, 4, 0), (4, 2, 1), (3, 1, 2), (2, 0, 3), (1, 0, 4),
          (0, 0, 4), (1, 1, 2), (2, 2, 1), (3, 3, 0), (4, 4, 0), (5, 4, 0), (4, 2, 1), (3, 1, 2), (2, 0, 3), (1, 0, 4)] := by
  decide +kernel

example : infiniteOK 9 1 2 = true ∧ infiniteOK 8 2 2 = true := by decide +kernel
