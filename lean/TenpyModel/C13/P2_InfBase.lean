import TenpyModel.C13.Sweep
import Mathlib.Data.List.Basic
/-!
# C13 / Props2 — infinite boundary conditions: basic vocabulary

For infinite systems the stored environments wrap around the unit cell and carry dependencies on *older* versions of
the tensors (the neighbouring unit cells), so there is no closed form of the whole state like `canon` in the finite case.
The invariant used here only speaks about the **leading fresh dependencies** of a stored part:

* `FreshL L ver j d p`: the first `d` dependencies of the part `p` stored as `LP[j]` are the slots `j-1, j-2, …`
  (mod `L`), each at its current version;
* `FreshR L ver j d p`: the first `d` dependencies of `RP[j]` are the slots `j+1, j+2, …` (mod `L`), current.

This file: arithmetic of the slots, the two read cases that occur in steady state (`get_LP/get_RP` find the part at
distance 0 or 1), transfer of freshness through `set_B` (`bump`).
-/
namespace TenpyModel.C13.P2
open TenpyModel.C13

structure WF (L : Nat) (e : Env) : Prop where
  hL : e.L = L
  hfin : e.finite = false
  hlp : e.lp.length = L
  hrp : e.rp.length = L

/-- slot of the `t`-th dependency of `LP[j]` -/
def slotL (L j t : Nat) : Nat := (j + L - 1 - t) % L
/-- slot of the `t`-th dependency of `RP[j]` -/
def slotR (L j t : Nat) : Nat := (j + 1 + t) % L

theorem mod_wrap (L x : Nat) (h : x < 2 * L) : x % L = if x < L then x else x - L := by
  split
  · exact Nat.mod_eq_of_lt ‹_›
  · rw [Nat.mod_eq_sub_mod (by omega), Nat.mod_eq_of_lt (by omega)]

theorem slotL_eq (L j t : Nat) (hj : j < L) (ht : t < L) :
    slotL L j t = if t < j then j - 1 - t else j + L - 1 - t := by
  unfold slotL
  rw [mod_wrap L _ (by omega)]
  split <;> split <;> omega

theorem slotR_eq (L j t : Nat) (hj : j < L) (ht : t < L) :
    slotR L j t = if j + 1 + t < L then j + 1 + t else j + 1 + t - L := by
  unfold slotR
  rw [mod_wrap L _ (by omega)]

theorem slotL_lt (L j t : Nat) (hL : 0 < L) : slotL L j t < L := Nat.mod_lt _ hL
theorem slotR_lt (L j t : Nat) (hL : 0 < L) : slotR L j t < L := Nat.mod_lt _ hL

def FreshL (L : Nat) (ver : List Nat) (j d : Nat) (p : EnvPart) : Prop :=
  ∀ t, t < d → p.deps[t]? = some (slotL L j t, ver.getD (slotL L j t) 0)

def FreshR (L : Nat) (ver : List Nat) (j d : Nat) (p : EnvPart) : Prop :=
  ∀ t, t < d → p.deps[t]? = some (slotR L j t, ver.getD (slotR L j t) 0)

/-- `LP[j]` is stored and its first `d` dependencies are current -/
def StoredL (L : Nat) (e : Env) (j d : Nat) : Prop :=
  ∃ p, e.lp.getD j none = some p ∧ FreshL L e.ver j d p

def StoredR (L : Nat) (e : Env) (j d : Nat) : Prop :=
  ∃ p, e.rp.getD j none = some p ∧ FreshR L e.ver j d p

theorem FreshL.mono {L ver j d d' p} (h : FreshL L ver j d p) (hd : d' ≤ d) : FreshL L ver j d' p :=
  fun t ht => h t (by omega)
theorem FreshR.mono {L ver j d d' p} (h : FreshR L ver j d p) (hd : d' ≤ d) : FreshR L ver j d' p :=
  fun t ht => h t (by omega)
theorem StoredL.mono {L e j d d'} (h : StoredL L e j d) (hd : d' ≤ d) : StoredL L e j d' := by
  obtain ⟨p, h1, h2⟩ := h; exact ⟨p, h1, h2.mono hd⟩
theorem StoredR.mono {L e j d d'} (h : StoredR L e j d) (hd : d' ≤ d) : StoredR L e j d' := by
  obtain ⟨p, h1, h2⟩ := h; exact ⟨p, h1, h2.mono hd⟩

/-! ### the search loops: distance 0 and distance 1 -/

theorem findLP_hit (e : Env) (i fuel k : Nat) (hfin : e.finite = false) (p : EnvPart)
    (h : e.lp.getD ((i + e.L - k) % e.L) none = some p) : findLP e i (fuel + 1) k = some (k, p) := by
  unfold findLP
  simp only [hfin, Bool.false_and, Bool.false_eq_true, if_false, h]

theorem findLP_miss (e : Env) (i fuel k : Nat) (hfin : e.finite = false)
    (h : e.lp.getD ((i + e.L - k) % e.L) none = none) : findLP e i (fuel + 1) k = findLP e i fuel (k + 1) := by
  conv => lhs; unfold findLP
  simp only [hfin, Bool.false_and, Bool.false_eq_true, if_false, h]

theorem findRP_hit (e : Env) (i fuel k : Nat) (hfin : e.finite = false) (p : EnvPart)
    (h : e.rp.getD ((i + k) % e.L) none = some p) : findRP e i (fuel + 1) k = some (k, p) := by
  unfold findRP
  simp only [hfin, Bool.false_and, Bool.false_eq_true, if_false, h]

theorem findRP_miss (e : Env) (i fuel k : Nat) (hfin : e.finite = false)
    (h : e.rp.getD ((i + k) % e.L) none = none) : findRP e i (fuel + 1) k = findRP e i fuel (k + 1) := by
  conv => lhs; unfold findRP
  simp only [hfin, Bool.false_and, Bool.false_eq_true, if_false, h]

theorem add_sub_one_mod_succ (L i : Nat) (hL : 1 ≤ L) : ((i + L - 1) % L + 1) % L = i % L := by
  rw [Nat.mod_add_mod]
  have : i + L - 1 + 1 = i + L := by omega
  rw [this, Nat.add_mod_right]

/-- `get_LP(i)` when `LP[i]` is stored: returned as is, nothing changes -/
theorem getLP_hit (L : Nat) (e : Env) (w : WF L e) (hL : 1 ≤ L) (i : Nat) (p : EnvPart)
    (h : e.lp.getD (i % L) none = some p) : getLP e i true = some (p, e) := by
  obtain ⟨f, hf⟩ : ∃ f, L = f + 1 := ⟨L - 1, by omega⟩
  have h0 : findLP e i e.L 0 = some (0, p) := by
    rw [show findLP e i e.L 0 = findLP e i (f + 1) 0 from by rw [w.hL, hf]]
    apply findLP_hit e i f 0 w.hfin
    rw [w.hL, Nat.sub_zero, Nat.add_mod_right]; exact h
  unfold getLP
  rw [h0]
  rfl

theorem getRP_hit (L : Nat) (e : Env) (w : WF L e) (hL : 1 ≤ L) (i : Nat) (p : EnvPart)
    (h : e.rp.getD (i % L) none = some p) : getRP e i true = some (p, e) := by
  obtain ⟨f, hf⟩ : ∃ f, L = f + 1 := ⟨L - 1, by omega⟩
  have h0 : findRP e i e.L 0 = some (0, p) := by
    rw [show findRP e i e.L 0 = findRP e i (f + 1) 0 from by rw [w.hL, hf]]
    apply findRP_hit e i f 0 w.hfin
    rw [w.hL, Nat.add_zero]; exact h
  unfold getRP
  rw [h0]
  rfl

/-- the part obtained by absorbing the site on slot `s` into `q` -/
def absorb (L : Nat) (ver : List Nat) (s : Nat) (q : EnvPart) : EnvPart :=
  ⟨capDeps L ((s, ver.getD s 0) :: q.deps), q.age + 1⟩

/-- `get_LP(i)` when `LP[i]` is missing and `LP[i-1]` is stored: one contraction, result stored as `LP[i]` -/
theorem getLP_miss1 (L : Nat) (e : Env) (w : WF L e) (hL : 2 ≤ L) (i : Nat) (q : EnvPart)
    (h0 : e.lp.getD (i % L) none = none) (h1 : e.lp.getD ((i + L - 1) % L) none = some q) :
    getLP e i true = some (absorb L e.ver ((i + L - 1) % L) q,
      { e with lp := setAt e.lp (i % L) (some (absorb L e.ver ((i + L - 1) % L) q)) }) := by
  obtain ⟨f, hf⟩ : ∃ f, L = f + 2 := ⟨L - 2, by omega⟩
  have hfind : findLP e i e.L 0 = some (1, q) := by
    rw [show findLP e i e.L 0 = findLP e i (f + 1 + 1) 0 from by rw [w.hL, hf]]
    rw [findLP_miss e i (f + 1) 0 w.hfin (by rw [w.hL, Nat.sub_zero, Nat.add_mod_right]; exact h0)]
    apply findLP_hit e i f 1 w.hfin
    rw [w.hL]; exact h1
  unfold getLP
  rw [hfind]
  simp only [List.range_one, List.foldl_cons, List.foldl_nil, if_true, w.hL, Nat.add_zero, absorb, Env.verOf,
    add_sub_one_mod_succ L i (by omega)]

theorem getRP_miss1 (L : Nat) (e : Env) (w : WF L e) (hL : 2 ≤ L) (i : Nat) (q : EnvPart)
    (h0 : e.rp.getD (i % L) none = none) (h1 : e.rp.getD ((i + 1) % L) none = some q) :
    getRP e i true = some (absorb L e.ver ((i + 1) % L) q,
      { e with rp := setAt e.rp (i % L) (some (absorb L e.ver ((i + 1) % L) q)) }) := by
  obtain ⟨f, hf⟩ : ∃ f, L = f + 2 := ⟨L - 2, by omega⟩
  have hfind : findRP e i e.L 0 = some (1, q) := by
    rw [show findRP e i e.L 0 = findRP e i (f + 1 + 1) 0 from by rw [w.hL, hf]]
    rw [findRP_miss e i (f + 1) 0 w.hfin (by rw [w.hL, Nat.add_zero]; exact h0)]
    apply findRP_hit e i f 1 w.hfin
    rw [w.hL]; exact h1
  unfold getRP
  rw [hfind]
  simp only [List.range_one, List.foldl_cons, List.foldl_nil, if_true, w.hL, Nat.sub_zero, absorb, Env.verOf,
    Nat.add_sub_cancel]

/-! ### freshness of an absorbed part, and through `set_B` -/

theorem absorb_getElem? (L : Nat) (ver : List Nat) (s : Nat) (q : EnvPart) (t : Nat) (ht : t < L) :
    (absorb L ver s q).deps[t]? = ((s, ver.getD s 0) :: q.deps)[t]? := by
  simp only [absorb, capDeps, List.getElem?_take, ht, if_true]

theorem FreshL_absorb (L : Nat) (ver : List Nat) (j s d : Nat) (q : EnvPart) (hL : 1 ≤ L) (hj : j < L)
    (hs : s = slotL L j 0) (hq : FreshL L ver s d q) (hd : d + 1 ≤ L) :
    FreshL L ver j (d + 1) (absorb L ver s q) := by
  intro t ht
  rw [absorb_getElem? L ver s q t (by omega)]
  cases t with
  | zero => simp [hs]
  | succ t =>
    rw [List.getElem?_cons_succ, hq t (by omega)]
    have e : slotL L s t = slotL L j (t + 1) := by
      have hs' : s < L := by rw [hs]; exact slotL_lt L j 0 (by omega)
      rw [slotL_eq L s t hs' (by omega), slotL_eq L j (t + 1) hj (by omega)]
      rw [slotL_eq L j 0 hj (by omega)] at hs
      split at hs <;> split <;> split <;> omega
    rw [e]

theorem FreshR_absorb (L : Nat) (ver : List Nat) (j s d : Nat) (q : EnvPart) (hL : 1 ≤ L) (hj : j < L)
    (hs : s = slotR L j 0) (hq : FreshR L ver s d q) (hd : d + 1 ≤ L) :
    FreshR L ver j (d + 1) (absorb L ver s q) := by
  intro t ht
  rw [absorb_getElem? L ver s q t (by omega)]
  cases t with
  | zero => simp [hs]
  | succ t =>
    rw [List.getElem?_cons_succ, hq t (by omega)]
    have e : slotR L s t = slotR L j (t + 1) := by
      have hs' : s < L := by rw [hs]; exact slotR_lt L j 0 (by omega)
      rw [slotR_eq L s t hs' (by omega), slotR_eq L j (t + 1) hj (by omega)]
      rw [slotR_eq L j 0 hj (by omega)] at hs
      split at hs <;> split <;> split <;> omega
    rw [e]

/-- versions after `set_B` on the slots `a` and `b` -/
def bumpVer (ver : List Nat) (a b : Nat) : List Nat :=
  setAt (setAt ver a (ver.getD a 0 + 1)) b ((setAt ver a (ver.getD a 0 + 1)).getD b 0 + 1)

theorem bumpVer_getD (ver : List Nat) (a b s : Nat) (ha : s ≠ a) (hb : s ≠ b) :
    (bumpVer ver a b).getD s 0 = ver.getD s 0 := by
  simp only [bumpVer, setAt, List.getD_eq_getElem?_getD, List.getElem?_set]
  have h1 : ¬ (b = s) := fun h => hb h.symm
  have h2 : ¬ (a = s) := fun h => ha h.symm
  simp [h1, h2]

theorem FreshL_bump (L : Nat) (ver : List Nat) (a b j d : Nat) (p : EnvPart) (h : FreshL L ver j d p)
    (hav : ∀ t, t < d → slotL L j t ≠ a ∧ slotL L j t ≠ b) : FreshL L (bumpVer ver a b) j d p := by
  intro t ht
  rw [h t ht, bumpVer_getD ver a b _ (hav t ht).1 (hav t ht).2]

theorem FreshR_bump (L : Nat) (ver : List Nat) (a b j d : Nat) (p : EnvPart) (h : FreshR L ver j d p)
    (hav : ∀ t, t < d → slotR L j t ≠ a ∧ slotR L j t ≠ b) : FreshR L (bumpVer ver a b) j d p := by
  intro t ht
  rw [h t ht, bumpVer_getD ver a b _ (hav t ht).1 (hav t ht).2]

theorem bump_bump_ver (e : Env) (a b : Nat) :
    (bump (bump e a) b).ver = bumpVer e.ver (a % e.L) (b % e.L) := rfl

/-! ### `freshDepth` dominates a `Fresh` bound; the fresh prefix contains the expected slots -/

theorem freshDepth_ge (e : Env) : ∀ (deps : Deps) (f : Nat → Nat) (d : Nat),
    (∀ t, t < d → deps[t]? = some (f t, e.ver.getD (f t) 0)) → d ≤ freshDepth e deps := by
  intro deps
  induction deps with
  | nil =>
    intro f d h
    cases d with
    | zero => exact Nat.zero_le _
    | succ d => have := h 0 (by omega); simp at this
  | cons x deps ih =>
    intro f d h
    cases d with
    | zero => exact Nat.zero_le _
    | succ d =>
      obtain ⟨s, v⟩ := x
      have h0 := h 0 (by omega)
      simp only [List.getElem?_cons_zero, Option.some.injEq, Prod.mk.injEq] at h0
      have hv : e.verOf s = v := by rw [h0.1, h0.2]; rfl
      simp only [freshDepth, hv, if_true]
      have := ih (fun t => f (t + 1)) d (fun t ht => by
        have := h (t + 1) (by omega)
        simpa using this)
      omega

theorem mem_fresh_prefix (e : Env) (deps : Deps) (f : Nat → Nat) (d : Nat)
    (h : ∀ t, t < d → deps[t]? = some (f t, e.ver.getD (f t) 0)) (t : Nat) (ht : t < d) :
    f t ∈ (deps.take (freshDepth e deps)).map (·.1) := by
  have hd := freshDepth_ge e deps f d h
  rw [List.mem_map]
  refine ⟨(f t, e.ver.getD (f t) 0), ?_, rfl⟩
  rw [List.mem_iff_getElem?]
  exact ⟨t, by rw [List.getElem?_take]; simp [show t < freshDepth e deps by omega, h t ht]⟩

end TenpyModel.C13.P2
