import TenpyModel.Gen.C13Schedule
/-
Executable model of the environment bookkeeping of `tenpy/algorithms/mps_common.py :: Sweep`
(`sweep`, `update_env`, `_update_env_inds`, `free_no_longer_needed_envs`) on top of
`tenpy/networks/mps.py :: BaseEnvironment.{get_LP, get_RP, set_LP, set_RP, del_LP, del_RP}`.

Tensors are abstracted to version counters: every site tensor (slot of the unit cell) carries a version that is
bumped whenever `set_B` replaces it; a stored environment carries the list of `(slot, version)` pairs of the site
tensors it was contracted from, most recently absorbed first (capped at `L` entries for infinite systems, whose
environments grow without bound), and its `age` exactly as the code counts it.  The schedule is the regenerated
`Gen.schedule`.
-/
namespace TenpyModel.C13

abbrev Deps := List (Nat × Nat)

structure EnvPart where
  deps : Deps
  age : Nat
deriving Repr, DecidableEq

structure Env where
  L : Nat
  finite : Bool
  ver : List Nat                   -- version of the tensor on each slot
  lp : List (Option EnvPart)       -- `LP[i]`: everything strictly left of site i
  rp : List (Option EnvPart)       -- `RP[i]`: everything strictly right of site i
deriving Repr, DecidableEq

def setAt {α : Type} (l : List α) (i : Nat) (v : α) : List α := l.set i v

def Env.verOf (e : Env) (s : Nat) : Nat := e.ver.getD s 0

/-- initial environments of a sweep engine: only `LP[0]` and `RP[L-1]` are stored -/
def Env.init (L : Nat) (finite : Bool) (ageL ageR : Nat) : Env :=
  { L := L, finite := finite, ver := List.replicate L 0,
    lp := (List.range L).map (fun i => if i = 0 then some ⟨[], ageL⟩ else none),
    rp := (List.range L).map (fun i => if i + 1 = L then some ⟨[], ageR⟩ else none) }

/-- `for i0 in range(i, i - L, -1)`: distance `k` of the nearest stored `LP` at or left of `i`.
(finite: positions below 0 do not exist; infinite: indices are taken modulo `L`) -/
def findLP (e : Env) (i : Nat) : Nat → Nat → Option (Nat × EnvPart)
  | 0, _ => none
  | fuel + 1, k =>
    if e.finite && i < k then none else
    match (e.lp.getD ((i + e.L - k) % e.L) none) with
    | some p => some (k, p)
    | none => findLP e i fuel (k + 1)

def findRP (e : Env) (i : Nat) : Nat → Nat → Option (Nat × EnvPart)
  | 0, _ => none
  | fuel + 1, k =>
    if e.finite && e.L ≤ i + k then none else
    match (e.rp.getD ((i + k) % e.L) none) with
    | some p => some (k, p)
    | none => findRP e i fuel (k + 1)

def capDeps (L : Nat) (d : Deps) : Deps := d.take L

/-- `get_LP(i, store)`: contract the sites `i-k … i-1` onto the nearest stored part, storing every
intermediate `LP[j+1]` (with `age + 1`) when `store`.  `none` = `ValueError('No left part in the system???')`. -/
def getLP (e : Env) (i : Nat) (store : Bool) : Option (EnvPart × Env) :=
  match findLP e i e.L 0 with
  | none => none
  | some (k, p) =>
    some ((List.range k).foldl (fun (acc : EnvPart × Env) t =>
        let s := (i + e.L - k + t) % e.L                    -- slot of site j = i - k + t
        let p' : EnvPart := ⟨capDeps e.L ((s, acc.2.verOf s) :: acc.1.deps), acc.1.age + 1⟩
        let e' := if store then { acc.2 with lp := setAt acc.2.lp ((s + 1) % e.L) (some p') } else acc.2
        (p', e')) (p, e))

/-- `get_RP(i, store)`: contract the sites `i+k … i+1` -/
def getRP (e : Env) (i : Nat) (store : Bool) : Option (EnvPart × Env) :=
  match findRP e i e.L 0 with
  | none => none
  | some (k, p) =>
    some ((List.range k).foldl (fun (acc : EnvPart × Env) t =>
        let s := (i + k - t) % e.L                          -- slot of site j = i + k - t
        let p' : EnvPart := ⟨capDeps e.L ((s, acc.2.verOf s) :: acc.1.deps), acc.1.age + 1⟩
        let e' := if store then { acc.2 with rp := setAt acc.2.rp ((i + k - t - 1) % e.L) (some p') } else acc.2
        (p', e')) (p, e))

def delLP (e : Env) (i : Nat) : Env := { e with lp := setAt e.lp (i % e.L) none }
def delRP (e : Env) (i : Nat) : Env := { e with rp := setAt e.rp (i % e.L) none }

/-- `set_B` on site `i`: the tensor changes -/
def bump (e : Env) (i : Nat) : Env := { e with ver := setAt e.ver (i % e.L) (e.verOf (i % e.L) + 1) }

/-- `_update_env_inds` -/
def updateEnvInds (n : Nat) (i0 : Nat) (moveRight : Bool) : Nat × Nat :=
  if n = 2 || moveRight then (i0, i0 + 1) else (i0 - 1, i0)

/-- number of leading dependencies that are the current versions -/
def freshDepth (e : Env) : Deps → Nat
  | [] => 0
  | (s, v) :: d => if e.verOf s = v then freshDepth e d + 1 else 0

structure StepLog where
  i0 : Nat
  moveRight : Bool
  readLP : EnvPart          -- what `EffectiveH.__init__` got from `env.get_LP(i0)`
  readRP : EnvPart          -- … from `env.get_RP(i0 + n - 1)`
  freshL : Nat              -- leading current dependencies of `readLP` at the time of the read
  freshR : Nat
deriving Repr, DecidableEq

/-- one iteration of the `for i0, move_right, update_LP_RP in schedule` loop of `Sweep.sweep`:
`make_eff_H` (reads), `update_local` (new tensors on `i_L, i_R`), `update_env`, `free_no_longer_needed_envs`.
`none` = an environment could not be found. -/
def step (n : Nat) (e : Env) (st : Nat × Bool × (Bool × Bool)) : Option (Env × StepLog) :=
  let (i0, mr, (uLP, uRP)) := st
  match getLP e i0 true with
  | none => none
  | some (pl, e1) =>
  match getRP e1 (i0 + n - 1) true with
  | none => none
  | some (pr, e2) =>
  let log : StepLog := ⟨i0, mr, pl, pr, freshDepth e2 pl.deps, freshDepth e2 pr.deps⟩
  let (iL, iR) := updateEnvInds n i0 mr
  -- update_local / set_B
  let e3 := bump (bump e2 iL) iR
  -- update_env
  let e4 := delRP (delLP e3 iR) iL
  match (if uLP then (getLP e4 iR true).map (·.2) else some e4) with
  | none => none
  | some e5 =>
  match (if uRP then (getRP e5 iL true).map (·.2) else some e5) with
  | none => none
  | some e6 =>
  -- free_no_longer_needed_envs
  let e7 :=
    if n = 2 then
      let a := if uRP then delLP e6 iL else e6
      if uLP then delRP a iR else a
    else
      if mr && uRP then delLP e6 iL
      else if (!mr) && uLP then delRP e6 iR
      else e6
  some (e7, log)

def runSteps (n : Nat) : Env → List (Nat × Bool × (Bool × Bool)) → Option (Env × List StepLog)
  | e, [] => some (e, [])
  | e, st :: sts =>
    match step n e st with
    | none => none
    | some (e', l) =>
      match runSteps n e' sts with
      | none => none
      | some (e'', ls) => some (e'', l :: ls)

/-- one sweep -/
def sweep (n : Nat) (e : Env) : Option (Env × List StepLog) := runSteps n e (Gen.schedule e.finite e.L n)

def sweeps (n : Nat) : Nat → Env → Option (Env × List StepLog)
  | 0, e => some (e, [])
  | k + 1, e =>
    match sweep n e with
    | none => none
    | some (e', l) =>
      match sweeps n k e' with
      | none => none
      | some (e'', ls) => some (e'', l ++ ls)

end TenpyModel.C13
