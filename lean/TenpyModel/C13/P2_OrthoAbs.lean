import TenpyModel.C16.PropsRitz
/-!
# C13 / orthogonal projector — abstract version (inner product space over `𝕜 = ℝ` or `ℂ`)

`orthoMatvec` is `OrthogonalNpcLinearOperator.matvec` as coded (two sequential loops, the second over the reversed
list); by `C16_projection_seq` it is `P ∘ H ∘ P` with `P = projCompl o` for orthonormal `o`.  Everything a Krylov
solver can build from a start vector `ψ0` with that `matvec`, sums and scalar multiples (`KrylovGen`) has overlaps
`⟪o i, x⟫ = c · ⟪o i, ψ0⟫` with one scalar `c` — in particular it is orthogonal to every `o i` when `ψ0` is.
-/
open scoped InnerProductSpace
open TenpyModel.C16.Abs

namespace TenpyModel.C13.P2b
variable {𝕜 E : Type*} [RCLike 𝕜] [NormedAddCommGroup E] [InnerProductSpace 𝕜 E]

variable (𝕜) in
/-- `OrthogonalNpcLinearOperator.matvec`: `for o in os: x -= ⟨o|x⟩ o`, apply `H`, `for o in os[::-1]: …` -/
def orthoMatvec (H : E → E) (os : List E) (x : E) : E := seqProj 𝕜 os.reverse (H (seqProj 𝕜 os x))

variable (𝕜) in
/-- what a Krylov solver can hold: the start vector, `matvec` results, linear combinations -/
inductive KrylovGen (A : E → E) (ψ0 : E) : E → Prop
  | start : KrylovGen A ψ0 ψ0
  | matvec {x : E} : KrylovGen A ψ0 x → KrylovGen A ψ0 (A x)
  | add {x y : E} : KrylovGen A ψ0 x → KrylovGen A ψ0 y → KrylovGen A ψ0 (x + y)
  | smul (c : 𝕜) {x : E} : KrylovGen A ψ0 x → KrylovGen A ψ0 (c • x)

theorem orthoMatvec_eq {k : ℕ} (H : E → E) (o : Fin k → E) (ho : Orthonormal 𝕜 o) (x : E) :
    orthoMatvec 𝕜 H (List.ofFn o) x = projCompl 𝕜 o (H (projCompl 𝕜 o x)) := by
  unfold orthoMatvec
  rw [(C16_projection_seq o ho _).2, (C16_projection_seq o ho x).1]

/-- the coded `matvec` returns vectors orthogonal to every `o i` — for every map `H` (linearity is not used) -/
theorem orthoMatvec_inner {k : ℕ} (H : E → E) (o : Fin k → E) (ho : Orthonormal 𝕜 o) (x : E) (i : Fin k) :
    ⟪o i, orthoMatvec 𝕜 H (List.ofFn o) x⟫_𝕜 = 0 := by
  rw [orthoMatvec_eq H o ho]
  exact projCompl_inner o ho _ i

theorem krylovGen_overlap {k : ℕ} (A : E → E) (o : Fin k → E) (hA : ∀ x i, ⟪o i, A x⟫_𝕜 = 0) (ψ0 x : E)
    (hx : KrylovGen 𝕜 A ψ0 x) : ∃ c : 𝕜, ∀ i, ⟪o i, x⟫_𝕜 = c * ⟪o i, ψ0⟫_𝕜 := by
  induction hx with
  | start => exact ⟨1, fun i => (one_mul _).symm⟩
  | matvec _ _ => exact ⟨0, fun i => by rw [hA, zero_mul]⟩
  | add _ _ ihx ihy =>
    obtain ⟨c1, h1⟩ := ihx
    obtain ⟨c2, h2⟩ := ihy
    exact ⟨c1 + c2, fun i => by rw [inner_add_right, h1, h2, add_mul]⟩
  | smul c _ ih =>
    obtain ⟨c1, h1⟩ := ih
    exact ⟨c * c1, fun i => by rw [inner_smul_right, h1, mul_assoc]⟩

/-- three-term recurrence (the hypotheses of `C16_lanczos_orthonormal`, coefficients in `𝕜`) with an operator whose
results are orthogonal to the `o i`: if `v 0` is orthogonal to them, so are all `v k` and all their combinations -/
theorem lanczos_rec_perp {k : ℕ} (A : E → E) (o : Fin k → E) (hA : ∀ x i, ⟪o i, A x⟫_𝕜 = 0)
    (v : ℕ → E) (α β γ : ℕ → 𝕜) (m : ℕ)
    (hrec : ∀ j < m, β j • v (j + 1) = A (v j) - α j • v j - γ j • v (j - 1))
    (hβ : ∀ j < m, β j ≠ 0) (h0 : ∀ i, ⟪o i, v 0⟫_𝕜 = 0) :
    (∀ j ≤ m, ∀ i, ⟪o i, v j⟫_𝕜 = 0) ∧
    ∀ y : Fin (m + 1) → 𝕜, ∀ i, ⟪o i, ∑ j, y j • v j⟫_𝕜 = 0 := by
  have key : ∀ n ≤ m, ∀ j ≤ n, ∀ i, ⟪o i, v j⟫_𝕜 = 0 := by
    intro n
    induction n with
    | zero =>
      intro _ j hj i
      obtain rfl : j = 0 := by omega
      exact h0 i
    | succ n ih =>
      intro hn j hj i
      rcases Nat.lt_or_eq_of_le hj with hj' | rfl
      · exact ih (by omega) j (by omega) i
      · have hn' : n < m := by omega
        have h1 := congrArg (fun z => ⟪o i, z⟫_𝕜) (hrec n hn')
        simp only [inner_smul_right, inner_sub_right, hA, ih (by omega) n le_rfl i,
          ih (by omega) (n - 1) (Nat.sub_le _ _) i, mul_zero, sub_zero] at h1
        exact (mul_eq_zero.1 h1).resolve_left (hβ n hn')
  refine ⟨fun j hj i => key m le_rfl j hj i, fun y i => ?_⟩
  rw [inner_sum]
  apply Finset.sum_eq_zero
  intro j _
  rw [inner_smul_right, key m le_rfl j (Nat.lt_succ_iff.1 j.2) i, mul_zero]

end TenpyModel.C13.P2b
