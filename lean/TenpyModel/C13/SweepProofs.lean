import TenpyModel.C13.Sweep
import Mathlib.Tactic.Ring
import Mathlib.Data.List.Basic
/-!
Finite boundary conditions: every state reached along the sweep schedule is *canonical*: `LP[j]` is stored exactly for
`j ≤ a`, `RP[j]` exactly for `b ≤ j`, and every stored part carries the current versions of all sites it contains.
-/
namespace TenpyModel.C13

/-- `LP[j]` contracted from the current tensors of sites `j-1, …, 0` -/
def partL (ver : List Nat) (j : Nat) : EnvPart :=
  ⟨(List.range j).reverse.map (fun s => (s, ver.getD s 0)), j⟩

/-- `RP[j]` contracted from the current tensors of sites `j+1, …, L-1` -/
def partR (L : Nat) (ver : List Nat) (j : Nat) : EnvPart :=
  ⟨(List.range' (j + 1) (L - 1 - j)).map (fun s => (s, ver.getD s 0)), L - 1 - j⟩

def canon (L a b : Nat) (ver : List Nat) : Env :=
  { L := L, finite := true, ver := ver,
    lp := (List.range L).map (fun j => if j ≤ a then some (partL ver j) else none),
    rp := (List.range L).map (fun j => if b ≤ j then some (partR L ver j) else none) }

theorem init_canon (L : Nat) : Env.init L true 0 0 = canon L 0 (L - 1) (List.replicate L 0) := by
  simp only [Env.init, canon, Env.mk.injEq, true_and]
  constructor
  · apply List.map_congr_left
    intro j hj
    by_cases h : j = 0
    · subst h; simp [partL]
    · have : ¬ j ≤ 0 := by omega
      simp [h, this]
  · apply List.map_congr_left
    intro j hj
    rw [List.mem_range] at hj
    by_cases h : j + 1 = L
    · have h1 : L - 1 ≤ j := by omega
      have h2 : L - 1 - j = 0 := by omega
      simp [h, h1, partR, h2]
    · have : ¬ L - 1 ≤ j := by omega
      simp [h, this]

theorem canon_lp_getD (L a b : Nat) (ver : List Nat) (j : Nat) (hj : j < L) :
    (canon L a b ver).lp.getD j none = if j ≤ a then some (partL ver j) else none := by
  simp [canon, List.getD_eq_getElem?_getD, hj]

theorem canon_rp_getD (L a b : Nat) (ver : List Nat) (j : Nat) (hj : j < L) :
    (canon L a b ver).rp.getD j none = if b ≤ j then some (partR L ver j) else none := by
  simp [canon, List.getD_eq_getElem?_getD, hj]

theorem sub_add_mod (i L k : Nat) (hk : k ≤ i) (hi : i < L) : (i + L - k) % L = i - k := by
  have : i + L - k = (i - k) + L := by omega
  rw [this, Nat.add_mod_right, Nat.mod_eq_of_lt (by omega)]

/-- the search loop of `get_LP` on a canonical state: the nearest stored part is `LP[min a i]` -/
theorem findLP_canon (L a b : Nat) (ver : List Nat) (i : Nat) (hi : i < L) (fuel k : Nat)
    (hk : k ≤ i - min a i) (hf : i - min a i - k < fuel) :
    findLP (canon L a b ver) i fuel k = some (i - min a i, partL ver (min a i)) := by
  induction fuel generalizing k with
  | zero => omega
  | succ fuel ih =>
    unfold findLP
    have h1 : ¬ (i < k) := by omega
    have hfin : (canon L a b ver).finite = true := rfl
    have hL : (canon L a b ver).L = L := rfl
    simp only [hfin, Bool.true_and, decide_eq_true_eq, h1, if_false, hL]
    rw [sub_add_mod i L k (by omega) hi, canon_lp_getD L a b ver (i - k) (by omega)]
    by_cases h : i - k ≤ a
    · have : k = i - min a i := by omega
      have e : i - k = min a i := by omega
      simp only [h, if_true]
      rw [e, ← this]
    · simp only [h, if_false]
      exact ih (k + 1) (by omega) (by omega)

theorem partL_succ (ver : List Nat) (j : Nat) :
    partL ver (j + 1) = ⟨(j, ver.getD j 0) :: (partL ver j).deps, (partL ver j).age + 1⟩ := by
  simp [partL, List.range_succ]

theorem partL_deps_length (ver : List Nat) (j : Nat) : (partL ver j).deps.length = j := by simp [partL]

theorem capDeps_of_le (L : Nat) (d : Deps) (h : d.length ≤ L) : capDeps L d = d := by
  simp [capDeps, List.take_of_length_le h]

theorem canon_lp_set (L a b : Nat) (ver : List Nat) :
    setAt (canon L a b ver).lp (a + 1) (some (partL ver (a + 1))) = (canon L (a + 1) b ver).lp := by
  apply List.ext_getElem
  · simp [setAt, canon]
  · intro j h1 h2
    simp only [setAt, canon, List.getElem_set, List.getElem_map, List.getElem_range]
    by_cases h : a + 1 = j
    · subst h; simp
    · have : (j ≤ a + 1) = (j ≤ a) := by apply propext; omega
      simp [h, this]

theorem getLP_canon (L a b : Nat) (ver : List Nat) (i : Nat) (hi : i < L) :
    getLP (canon L a b ver) i true = some (partL ver i, canon L (max a i) b ver) := by
  unfold getLP
  have hL : (canon L a b ver).L = L := rfl
  rw [hL, findLP_canon L a b ver i hi L 0 (by omega) (by omega)]
  simp only
  by_cases hai : i ≤ a
  · have h1 : min a i = i := by omega
    have h2 : max a i = a := by omega
    simp [h1, h2]
  · have h1 : min a i = a := by omega
    have h2 : max a i = i := by omega
    rw [h1, h2]
    -- the fold absorbs the sites a, a+1, …, i-1
    have key : ∀ t, t ≤ i - a →
        (List.range t).foldl (fun (acc : EnvPart × Env) t =>
          let s := (i + L - (i - a) + t) % L
          let p' : EnvPart := ⟨capDeps L ((s, acc.2.verOf s) :: acc.1.deps), acc.1.age + 1⟩
          let e' := if true = true then { acc.2 with lp := setAt acc.2.lp ((s + 1) % L) (some p') } else acc.2
          (p', e')) (partL ver a, canon L a b ver) = (partL ver (a + t), canon L (a + t) b ver) := by
      intro t ht
      induction t with
      | zero => rfl
      | succ t ih =>
        rw [List.range_succ, List.foldl_append, ih (by omega)]
        simp only [List.foldl_cons, List.foldl_nil, if_true]
        have hs : (i + L - (i - a) + t) % L = a + t := by
          have : i + L - (i - a) + t = (a + t) + L := by omega
          rw [this, Nat.add_mod_right, Nat.mod_eq_of_lt (by omega)]
        have hs1 : (a + t + 1) % L = a + t + 1 := Nat.mod_eq_of_lt (by omega)
        rw [hs, hs1]
        have hv : (canon L (a + t) b ver).verOf (a + t) = ver.getD (a + t) 0 := rfl
        rw [hv, capDeps_of_le L _ (by simp [partL_deps_length]; omega)]
        have hp : (⟨(a + t, ver.getD (a + t) 0) :: (partL ver (a + t)).deps, (partL ver (a + t)).age + 1⟩ : EnvPart)
            = partL ver (a + t + 1) := (partL_succ ver (a + t)).symm
        rw [hp]
        have := canon_lp_set L (a + t) b ver
        simp only [canon] at this ⊢
        rw [this]
        rfl
    have := key (i - a) le_rfl
    have e : a + (i - a) = i := by omega
    rw [e] at this
    rw [← this]
    rfl

/-! ### the same for `RP` -/

theorem findRP_canon (L a b : Nat) (ver : List Nat) (i : Nat) (hi : i < L) (hb : b < L) (fuel k : Nat)
    (hk : k ≤ max b i - i) (hf : max b i - i - k < fuel) :
    findRP (canon L a b ver) i fuel k = some (max b i - i, partR L ver (max b i)) := by
  induction fuel generalizing k with
  | zero => omega
  | succ fuel ih =>
    unfold findRP
    have hfin : (canon L a b ver).finite = true := rfl
    have hL : (canon L a b ver).L = L := rfl
    have h1 : ¬ (L ≤ i + k) := by omega
    simp only [hfin, Bool.true_and, decide_eq_true_eq, h1, if_false, hL]
    rw [Nat.mod_eq_of_lt (by omega : i + k < L), canon_rp_getD L a b ver (i + k) (by omega)]
    by_cases h : b ≤ i + k
    · have : k = max b i - i := by omega
      have e : i + k = max b i := by omega
      simp only [h, if_true]
      rw [e, ← this]
    · simp only [h, if_false]
      exact ih (k + 1) (by omega) (by omega)

theorem partR_pred (L : Nat) (ver : List Nat) (j : Nat) (hj : j < L) (hj1 : 1 ≤ j) :
    partR L ver (j - 1) = ⟨(j, ver.getD j 0) :: (partR L ver j).deps, (partR L ver j).age + 1⟩ := by
  have e1 : j - 1 + 1 = j := by omega
  have e2 : L - 1 - (j - 1) = (L - 1 - j) + 1 := by omega
  simp only [partR, e1, e2, List.range'_succ, List.map_cons]

theorem partR_deps_length (L : Nat) (ver : List Nat) (j : Nat) : (partR L ver j).deps.length = L - 1 - j := by
  simp [partR]

theorem canon_rp_set (L a b : Nat) (ver : List Nat) (hb : 1 ≤ b) :
    setAt (canon L a b ver).rp (b - 1) (some (partR L ver (b - 1))) = (canon L a (b - 1) ver).rp := by
  apply List.ext_getElem
  · simp [setAt, canon]
  · intro j h1 h2
    simp only [setAt, canon, List.getElem_set, List.getElem_map, List.getElem_range]
    by_cases h : b - 1 = j
    · subst h; simp
    · have : (b - 1 ≤ j) = (b ≤ j) := by apply propext; omega
      simp [h, this]

theorem getRP_canon (L a b : Nat) (ver : List Nat) (i : Nat) (hi : i < L) (hb : b < L) :
    getRP (canon L a b ver) i true = some (partR L ver i, canon L a (min b i) ver) := by
  unfold getRP
  have hL : (canon L a b ver).L = L := rfl
  rw [hL, findRP_canon L a b ver i hi hb L 0 (by omega) (by omega)]
  simp only
  by_cases hbi : b ≤ i
  · have h1 : max b i = i := by omega
    have h2 : min b i = b := by omega
    simp [h1, h2]
  · have h1 : max b i = b := by omega
    have h2 : min b i = i := by omega
    rw [h1, h2]
    have key : ∀ t, t ≤ b - i →
        (List.range t).foldl (fun (acc : EnvPart × Env) t =>
          let s := (i + (b - i) - t) % L
          let p' : EnvPart := ⟨capDeps L ((s, acc.2.verOf s) :: acc.1.deps), acc.1.age + 1⟩
          let e' := if true = true then { acc.2 with rp := setAt acc.2.rp ((i + (b - i) - t - 1) % L) (some p') } else acc.2
          (p', e')) (partR L ver b, canon L a b ver) = (partR L ver (b - t), canon L a (b - t) ver) := by
      intro t ht
      induction t with
      | zero => rfl
      | succ t ih =>
        rw [List.range_succ, List.foldl_append, ih (by omega)]
        simp only [List.foldl_cons, List.foldl_nil, if_true]
        have hs : (i + (b - i) - t) % L = b - t := by
          have : i + (b - i) - t = b - t := by omega
          rw [this, Nat.mod_eq_of_lt (by omega)]
        have hs1 : (i + (b - i) - t - 1) % L = b - t - 1 := by
          have : i + (b - i) - t - 1 = b - t - 1 := by omega
          rw [this, Nat.mod_eq_of_lt (by omega)]
        rw [hs, hs1]
        have hv : (canon L a (b - t) ver).verOf (b - t) = ver.getD (b - t) 0 := rfl
        rw [hv, capDeps_of_le L _ (by simp [partR_deps_length]; omega)]
        have hp : (⟨(b - t, ver.getD (b - t) 0) :: (partR L ver (b - t)).deps, (partR L ver (b - t)).age + 1⟩ : EnvPart)
            = partR L ver (b - t - 1) := (partR_pred L ver (b - t) (by omega) (by omega)).symm
        rw [hp]
        have := canon_rp_set L a (b - t) ver (by omega)
        simp only [canon] at this ⊢
        rw [this]
        rfl
    have := key (b - i) le_rfl
    have e : b - (b - i) = i := by omega
    rw [e] at this
    rw [← this]
    rfl

/-! ### `set_B` on two neighbouring sites followed by `del_LP(i_R)`, `del_RP(i_L)` -/

/-- versions after `set_B(i_L)`, `set_B(i_L + 1)` -/
def bump2 (ver : List Nat) (iL : Nat) : List Nat :=
  setAt (setAt ver iL (ver.getD iL 0 + 1)) (iL + 1) ((setAt ver iL (ver.getD iL 0 + 1)).getD (iL + 1) 0 + 1)

theorem bump2_getD_of_lt (ver : List Nat) (iL s : Nat) (h : s < iL) : (bump2 ver iL).getD s 0 = ver.getD s 0 := by
  simp only [bump2, setAt, List.getD_eq_getElem?_getD, List.getElem?_set]
  have h1 : ¬ (iL + 1 = s) := by omega
  have h2 : ¬ (iL = s) := by omega
  simp [h1, h2]

theorem bump2_getD_of_gt (ver : List Nat) (iL s : Nat) (h : iL + 1 < s) : (bump2 ver iL).getD s 0 = ver.getD s 0 := by
  simp only [bump2, setAt, List.getD_eq_getElem?_getD, List.getElem?_set]
  have h1 : ¬ (iL + 1 = s) := by omega
  have h2 : ¬ (iL = s) := by omega
  simp [h1, h2]

theorem partL_congr (ver ver' : List Nat) (j : Nat) (h : ∀ s < j, ver'.getD s 0 = ver.getD s 0) :
    partL ver' j = partL ver j := by
  simp only [partL, EnvPart.mk.injEq, and_true]
  apply List.map_congr_left
  intro s hs
  simp only [List.mem_reverse, List.mem_range] at hs
  rw [h s hs]

theorem partR_congr (L : Nat) (ver ver' : List Nat) (j : Nat) (h : ∀ s, j < s → ver'.getD s 0 = ver.getD s 0) :
    partR L ver' j = partR L ver j := by
  simp only [partR, EnvPart.mk.injEq, and_true]
  apply List.map_congr_left
  intro s hs
  rw [List.mem_range'_1] at hs
  rw [h s (by omega)]

theorem update_clean (L a b : Nat) (ver : List Nat) (iL : Nat) (hL : iL + 1 < L) (ha : a ≤ iL + 1) (hb : iL ≤ b) :
    delRP (delLP (bump (bump (canon L a b ver) iL) (iL + 1)) (iL + 1)) iL
      = canon L (min a iL) (max b (iL + 1)) (bump2 ver iL) := by
  have m1 : iL % L = iL := Nat.mod_eq_of_lt (by omega)
  have m2 : (iL + 1) % L = iL + 1 := Nat.mod_eq_of_lt hL
  simp only [delRP, delLP, bump, canon, Env.verOf, m1, m2, Env.mk.injEq, true_and]
  refine ⟨rfl, ?_, ?_⟩
  · apply List.ext_getElem
    · simp [setAt]
    · intro j h1 h2
      simp only [setAt, List.getElem_set, List.getElem_map, List.getElem_range]
      by_cases h : iL + 1 = j
      · have : ¬ (j ≤ min a iL) := by omega
        simp [h, this]
      · by_cases hj : j ≤ iL
        · have e1 : j ≤ a ↔ j ≤ min a iL := by omega
          by_cases hja : j ≤ a
          · have := partL_congr ver (bump2 ver iL) j (fun s hs => bump2_getD_of_lt ver iL s (by omega))
            simp [h, hja, e1.1 hja, this]
          · have : ¬ (j ≤ min a iL) := by omega
            simp [h, hja, this]
        · have h3 : ¬ (j ≤ a) := by omega
          have h4 : ¬ (j ≤ min a iL) := by omega
          simp [h, h3, h4]
  · apply List.ext_getElem
    · simp [setAt]
    · intro j h1 h2
      simp only [setAt, List.getElem_set, List.getElem_map, List.getElem_range]
      by_cases h : iL = j
      · have : ¬ (max b (iL + 1) ≤ j) := by omega
        simp [h, this]
      · by_cases hj : iL + 1 ≤ j
        · have e1 : b ≤ j ↔ max b (iL + 1) ≤ j := by omega
          by_cases hjb : b ≤ j
          · have := partR_congr L ver (bump2 ver iL) j (fun s hs => bump2_getD_of_gt ver iL s (by omega))
            simp [h, hjb, e1.1 hjb, this]
          · have : ¬ (max b (iL + 1) ≤ j) := by omega
            simp [h, hjb, this]
        · have h3 : ¬ (b ≤ j) := by omega
          have h4 : ¬ (max b (iL + 1) ≤ j) := by omega
          simp [h, h3, h4]

theorem delLP_canon_top (L a b : Nat) (ver : List Nat) (ha : 1 ≤ a) (haL : a < L) :
    delLP (canon L a b ver) a = canon L (a - 1) b ver := by
  have m : a % L = a := Nat.mod_eq_of_lt haL
  simp only [delLP, canon, m, Env.mk.injEq, true_and, and_true]
  apply List.ext_getElem
  · simp [setAt]
  · intro j h1 h2
    simp only [setAt, List.getElem_set, List.getElem_map, List.getElem_range]
    by_cases h : a = j
    · subst h
      have : ¬ (a ≤ a - 1) := by omega
      simp [this]
    · have : (j ≤ a) = (j ≤ a - 1) := by apply propext; omega
      simp [h, this]

theorem delRP_canon_bot (L a b : Nat) (ver : List Nat) (hb : b < L) :
    delRP (canon L a b ver) b = canon L a (b + 1) ver := by
  have m : b % L = b := Nat.mod_eq_of_lt hb
  simp only [delRP, canon, m, Env.mk.injEq, true_and]
  apply List.ext_getElem
  · simp [setAt]
  · intro j h1 h2
    simp only [setAt, List.getElem_set, List.getElem_map, List.getElem_range]
    by_cases h : b = j
    · have : ¬ (b + 1 ≤ j) := by omega
      simp [h, this]
    · have : (b ≤ j) = (b + 1 ≤ j) := by apply propext; omega
      simp [h, this]

/-! ### freshness of canonical parts -/

theorem freshDepth_all (e : Env) (d : Deps) (h : ∀ p ∈ d, e.verOf p.1 = p.2) : freshDepth e d = d.length := by
  induction d with
  | nil => rfl
  | cons p d ih =>
    obtain ⟨s, v⟩ := p
    have hp := h (s, v) (List.mem_cons_self ..)
    simp only at hp
    simp only [freshDepth, hp, if_true, List.length_cons]
    rw [ih (fun q hq => h q (List.mem_cons_of_mem _ hq))]

theorem freshDepth_partL (L a b : Nat) (ver : List Nat) (j : Nat) :
    freshDepth (canon L a b ver) (partL ver j).deps = j := by
  rw [freshDepth_all, partL_deps_length]
  intro p hp
  simp only [partL, List.mem_map] at hp
  obtain ⟨s, _, rfl⟩ := hp
  rfl

theorem freshDepth_partR (L a b : Nat) (ver : List Nat) (j : Nat) :
    freshDepth (canon L a b ver) (partR L ver j).deps = L - 1 - j := by
  rw [freshDepth_all, partR_deps_length]
  intro p hp
  simp only [partR, List.mem_map] at hp
  obtain ⟨s, _, rfl⟩ := hp
  rfl

/-! ### symbolic execution of one step of the schedule on a canonical state -/

theorem step_right_two (L a b : Nat) (ver : List Nat) (i0 : Nat) (h1 : i0 + 1 < L) (ha : a ≤ i0 + 1) (hb : i0 ≤ b)
    (hbL : b < L) :
    step 2 (canon L a b ver) (i0, true, (true, false))
      = some (canon L (i0 + 1) (i0 + 2) (bump2 ver i0),
              ⟨i0, true, partL ver i0, partR L ver (i0 + 1), i0, L - 1 - (i0 + 1)⟩) := by
  unfold step
  simp only [getLP_canon L a b ver i0 (by omega)]
  have e1 : i0 + 2 - 1 = i0 + 1 := rfl
  simp only [e1, getRP_canon L (max a i0) b ver (i0 + 1) h1 hbL, updateEnvInds, Bool.or_true, if_true,
    freshDepth_partL, freshDepth_partR]
  rw [update_clean L (max a i0) (min b (i0 + 1)) ver i0 h1 (by omega) (by omega)]
  simp only [if_true, Bool.false_eq_true, if_false]
  rw [getLP_canon L _ _ _ (i0 + 1) h1]
  simp only [Option.map_some]
  have e2 : max (min (max a i0) i0) (i0 + 1) = i0 + 1 := by omega
  have e3 : max (min b (i0 + 1)) (i0 + 1) = i0 + 1 := by omega
  rw [e2, e3, delRP_canon_bot L (i0 + 1) (i0 + 1) _ h1]

theorem step_left_two (L a b : Nat) (ver : List Nat) (i0 : Nat) (h0 : 1 ≤ i0) (h1 : i0 + 1 < L) (ha : a ≤ i0 + 1)
    (hb : i0 ≤ b) (hbL : b < L) :
    step 2 (canon L a b ver) (i0, false, (false, true))
      = some (canon L (i0 - 1) i0 (bump2 ver i0),
              ⟨i0, false, partL ver i0, partR L ver (i0 + 1), i0, L - 1 - (i0 + 1)⟩) := by
  unfold step
  simp only [getLP_canon L a b ver i0 (by omega)]
  have e1 : i0 + 2 - 1 = i0 + 1 := rfl
  have hinds : updateEnvInds 2 i0 false = (i0, i0 + 1) := rfl
  simp only [e1, getRP_canon L (max a i0) b ver (i0 + 1) h1 hbL, hinds,
    freshDepth_partL, freshDepth_partR]
  rw [update_clean L (max a i0) (min b (i0 + 1)) ver i0 h1 (by omega) (by omega)]
  simp only [if_true, Bool.false_eq_true, if_false]
  have e3 : max (min b (i0 + 1)) (i0 + 1) = i0 + 1 := by omega
  have e2 : min (max a i0) i0 = i0 := by omega
  rw [e2, e3, getRP_canon L i0 (i0 + 1) _ i0 (by omega) h1]
  simp only [Option.map_some]
  have e4 : min (i0 + 1) i0 = i0 := by omega
  rw [e4, delLP_canon_top L i0 i0 _ h0 (by omega)]

theorem step_right_one (L a b : Nat) (ver : List Nat) (i0 : Nat) (h1 : i0 + 1 < L) (ha : a ≤ i0 + 1) (hb : i0 ≤ b)
    (hbL : b < L) :
    step 1 (canon L a b ver) (i0, true, (true, false))
      = some (canon L (i0 + 1) (i0 + 1) (bump2 ver i0),
              ⟨i0, true, partL ver i0, partR L ver i0, i0, L - 1 - i0⟩) := by
  unfold step
  simp only [getLP_canon L a b ver i0 (by omega)]
  have e1 : i0 + 1 - 1 = i0 := rfl
  have hinds : updateEnvInds 1 i0 true = (i0, i0 + 1) := rfl
  simp only [e1, getRP_canon L (max a i0) b ver i0 (by omega) hbL, hinds,
    freshDepth_partL, freshDepth_partR]
  rw [update_clean L (max a i0) (min b i0) ver i0 h1 (by omega) (by omega)]
  simp only [if_true, Bool.false_eq_true, if_false]
  rw [getLP_canon L _ _ _ (i0 + 1) h1]
  simp only [Option.map_some]
  have e2 : max (min (max a i0) i0) (i0 + 1) = i0 + 1 := by omega
  have e3 : max (min b i0) (i0 + 1) = i0 + 1 := by omega
  rw [e2, e3]
  simp

theorem step_left_one (L a b : Nat) (ver : List Nat) (i0 : Nat) (h0 : 1 ≤ i0) (h1 : i0 < L) (ha : a ≤ i0)
    (hb : i0 - 1 ≤ b) (hbL : b < L) :
    step 1 (canon L a b ver) (i0, false, (false, true))
      = some (canon L (i0 - 1) (i0 - 1) (bump2 ver (i0 - 1)),
              ⟨i0, false, partL ver i0, partR L ver i0, i0, L - 1 - i0⟩) := by
  unfold step
  simp only [getLP_canon L a b ver i0 h1]
  have e1 : i0 + 1 - 1 = i0 := rfl
  have e0 : i0 - 1 + 1 = i0 := by omega
  have hinds : updateEnvInds 1 i0 false = (i0 - 1, i0) := rfl
  simp only [e1, getRP_canon L (max a i0) b ver i0 h1 hbL, hinds,
    freshDepth_partL, freshDepth_partR]
  have hu := update_clean L (max a i0) (min b i0) ver (i0 - 1) (by omega) (by omega) (by omega)
  rw [e0] at hu
  simp only [show (1 = 2) = False from by simp, if_false]
  rw [hu]
  simp only [if_true, Bool.false_eq_true, if_false]
  have e3 : max (min b i0) i0 = i0 := by omega
  have e2 : min (max a i0) (i0 - 1) = i0 - 1 := by omega
  rw [e2, e3, getRP_canon L (i0 - 1) i0 _ (i0 - 1) (by omega) h1]
  simp only [Option.map_some]
  have e4 : min i0 (i0 - 1) = i0 - 1 := by omega
  rw [e4]
  simp

/-! ### the schedule as two explicit phases -/

theorem zip3_replicate (xs ys : List Nat) (p q : Bool) (u v : Bool × Bool) :
    zip3 (xs ++ ys) (List.replicate xs.length p ++ List.replicate ys.length q)
      (List.replicate xs.length u ++ List.replicate ys.length v)
    = xs.map (fun i => (i, p, u)) ++ ys.map (fun i => (i, q, v)) := by
  induction xs with
  | nil =>
    simp only [List.nil_append, List.length_nil, List.replicate_zero, List.map_nil]
    induction ys with
    | nil => rfl
    | cons y ys ih => simp only [List.length_cons, List.replicate_succ, zip3, ih, List.map_cons]
  | cons x xs ih =>
    simp only [List.cons_append, List.length_cons, List.replicate_succ, zip3, ih, List.map_cons]

theorem schedule_finite (L n : Nat) :
    Gen.schedule true L n
      = (List.range' 0 (L - n)).map (fun i => (i, true, (true, false)))
        ++ ((List.range' 1 (L - n)).reverse).map (fun i => (i, false, (false, true))) := by
  have h1 : (pyRange 0 (L - n)).length = L - n := by simp [pyRange]
  have h2 : (pyRangeDown (L - n) 0).length = L - n := by simp [pyRangeDown]
  have := zip3_replicate (pyRange 0 (L - n)) (pyRangeDown (L - n) 0) true false (true, false) (false, true)
  rw [h1, h2] at this
  simp only [Gen.schedule, if_true, Gen.i0sFinite, Gen.moveRightFinite, Gen.updateLPRPFinite]
  rw [this]
  simp [pyRange, pyRangeDown]

theorem runSteps_append (n : Nat) (e : Env) (l1 l2 : List (Nat × Bool × (Bool × Bool))) (e1 : Env)
    (g1 : List StepLog) (h : runSteps n e l1 = some (e1, g1)) :
    runSteps n e (l1 ++ l2) = (runSteps n e1 l2).map (fun r => (r.1, g1 ++ r.2)) := by
  induction l1 generalizing e g1 with
  | nil =>
    simp only [runSteps, Option.some.injEq, Prod.mk.injEq] at h
    obtain ⟨rfl, rfl⟩ := h
    cases hh : runSteps n e l2 <;> simp [hh]
  | cons st l1 ih =>
    simp only [List.cons_append, runSteps] at h ⊢
    cases hs : step n e st with
    | none => simp [hs] at h
    | some r =>
      obtain ⟨e', lg⟩ := r
      simp only [hs] at h ⊢
      cases hr : runSteps n e' l1 with
      | none => simp [hr] at h
      | some r2 =>
        obtain ⟨e'', lgs⟩ := r2
        simp only [hr, Option.some.injEq, Prod.mk.injEq] at h
        obtain ⟨rfl, rfl⟩ := h
        rw [ih e' lgs hr]
        cases hh : runSteps n e'' l2 <;> simp [hh]

/-- a step read environments that contain *all* sites to the left / right, all at their current versions -/
def Good (L n : Nat) (l : StepLog) : Prop :=
  l.freshL = l.readLP.deps.length ∧ l.readLP.deps.length = l.i0 ∧
  l.freshR = l.readRP.deps.length ∧ l.readRP.deps.length = L - 1 - (l.i0 + n - 1)

theorem right_phase_two (L : Nat) (m : Nat) : ∀ (k a b : Nat) (ver : List Nat), k + m + 2 ≤ L → a ≤ k + 1 → k ≤ b → b < L →
    ∃ ver' logs, runSteps 2 (canon L a b ver) ((List.range' k m).map (fun i => (i, true, (true, false))))
        = some (if m = 0 then canon L a b ver else canon L (k + m) (k + m + 1) ver', logs) ∧
      logs.length = m ∧ ∀ l ∈ logs, Good L 2 l := by
  induction m with
  | zero => intro k a b ver _ _ _ _; exact ⟨ver, [], rfl, rfl, fun _ h => nomatch h⟩
  | succ m ih =>
    intro k a b ver hk ha hb hbL
    obtain ⟨ver', logs, h1, h2, h3⟩ := ih (k + 1) (k + 1) (k + 2) (bump2 ver k) (by omega) (by omega) (by omega) (by omega)
    refine ⟨if m = 0 then bump2 ver k else ver',
      ⟨k, true, partL ver k, partR L ver (k + 1), k, L - 1 - (k + 1)⟩ :: logs, ?_, by simp [h2], ?_⟩
    · simp only [List.range'_succ, List.map_cons, runSteps, step_right_two L a b ver k (by omega) ha hb hbL, h1]
      by_cases hm : m = 0
      · subst hm; simp
      · have e : k + 1 + m = k + (m + 1) := by omega
        simp [hm, e]
    · intro l hl
      rcases List.mem_cons.1 hl with rfl | hl
      · simp [Good, partL_deps_length, partR_deps_length]
      · exact h3 l hl

theorem left_phase_two (L : Nat) (m : Nat) : ∀ (a b : Nat) (ver : List Nat), m + 1 < L → a ≤ m + 1 → m ≤ b → b < L →
    ∃ ver' logs, runSteps 2 (canon L a b ver) (((List.range' 1 m).reverse).map (fun i => (i, false, (false, true))))
        = some (if m = 0 then canon L a b ver else canon L 0 1 ver', logs) ∧
      logs.length = m ∧ ∀ l ∈ logs, Good L 2 l := by
  induction m with
  | zero => intro a b ver _ _ _ _; exact ⟨ver, [], rfl, rfl, fun _ h => nomatch h⟩
  | succ m ih =>
    intro a b ver hk ha hb hbL
    obtain ⟨ver', logs, h1, h2, h3⟩ := ih m (m + 1) (bump2 ver (m + 1)) (by omega) (by omega) (by omega) (by omega)
    refine ⟨if m = 0 then bump2 ver (m + 1) else ver',
      ⟨m + 1, false, partL ver (m + 1), partR L ver (m + 1 + 1), m + 1, L - 1 - (m + 1 + 1)⟩ :: logs, ?_, by simp [h2], ?_⟩
    · have e : (List.range' 1 (m + 1)).reverse = (m + 1) :: (List.range' 1 m).reverse := by
        rw [List.range'_1_concat, List.reverse_append]; simp [Nat.add_comm]
      simp only [e, List.map_cons, runSteps, step_left_two L a b ver (m + 1) (by omega) (by omega) ha hb hbL,
        Nat.add_sub_cancel, h1]
      by_cases hm : m = 0
      · subst hm; simp
      · simp [hm]
    · intro l hl
      rcases List.mem_cons.1 hl with rfl | hl
      · simp [Good, partL_deps_length, partR_deps_length]
      · exact h3 l hl

theorem right_phase_one (L : Nat) (m : Nat) : ∀ (k a b : Nat) (ver : List Nat), k + m + 1 ≤ L → a ≤ k + 1 → k ≤ b → b < L →
    ∃ ver' logs, runSteps 1 (canon L a b ver) ((List.range' k m).map (fun i => (i, true, (true, false))))
        = some (if m = 0 then canon L a b ver else canon L (k + m) (k + m) ver', logs) ∧
      logs.length = m ∧ ∀ l ∈ logs, Good L 1 l := by
  induction m with
  | zero => intro k a b ver _ _ _ _; exact ⟨ver, [], rfl, rfl, fun _ h => nomatch h⟩
  | succ m ih =>
    intro k a b ver hk ha hb hbL
    obtain ⟨ver', logs, h1, h2, h3⟩ := ih (k + 1) (k + 1) (k + 1) (bump2 ver k) (by omega) (by omega) (by omega) (by omega)
    refine ⟨if m = 0 then bump2 ver k else ver',
      ⟨k, true, partL ver k, partR L ver k, k, L - 1 - k⟩ :: logs, ?_, by simp [h2], ?_⟩
    · simp only [List.range'_succ, List.map_cons, runSteps, step_right_one L a b ver k (by omega) ha hb hbL, h1]
      by_cases hm : m = 0
      · subst hm; simp
      · have e : k + 1 + m = k + (m + 1) := by omega
        simp [hm, e]
    · intro l hl
      rcases List.mem_cons.1 hl with rfl | hl
      · simp [Good, partL_deps_length, partR_deps_length]
      · exact h3 l hl

theorem left_phase_one (L : Nat) (m : Nat) : ∀ (a b : Nat) (ver : List Nat), m < L → a ≤ m → m - 1 ≤ b → b < L →
    ∃ ver' logs, runSteps 1 (canon L a b ver) (((List.range' 1 m).reverse).map (fun i => (i, false, (false, true))))
        = some (if m = 0 then canon L a b ver else canon L 0 0 ver', logs) ∧
      logs.length = m ∧ ∀ l ∈ logs, Good L 1 l := by
  induction m with
  | zero => intro a b ver _ _ _ _; exact ⟨ver, [], rfl, rfl, fun _ h => nomatch h⟩
  | succ m ih =>
    intro a b ver hk ha hb hbL
    obtain ⟨ver', logs, h1, h2, h3⟩ := ih m m (bump2 ver m) (by omega) (by omega) (by omega) (by omega)
    refine ⟨if m = 0 then bump2 ver m else ver',
      ⟨m + 1, false, partL ver (m + 1), partR L ver (m + 1), m + 1, L - 1 - (m + 1)⟩ :: logs, ?_, by simp [h2], ?_⟩
    · have e : (List.range' 1 (m + 1)).reverse = (m + 1) :: (List.range' 1 m).reverse := by
        rw [List.range'_1_concat, List.reverse_append]; simp [Nat.add_comm]
      simp only [e, List.map_cons, runSteps, step_left_one L a b ver (m + 1) (by omega) (by omega) ha (by omega) hbL,
        Nat.add_sub_cancel, h1]
      by_cases hm : m = 0
      · subst hm; simp
      · simp [hm]
    · intro l hl
      rcases List.mem_cons.1 hl with rfl | hl
      · simp [Good, partL_deps_length, partR_deps_length]
      · exact h3 l hl

/-- state between two sweeps -/
def Between (L : Nat) (e : Env) : Prop := ∃ a b ver, e = canon L a b ver ∧ a ≤ 1 ∧ b < L

theorem sweep_finite (L n : Nat) (hn : n = 1 ∨ n = 2) (hL : n + 1 ≤ L) (e : Env) (he : Between L e) :
    ∃ e' logs, sweep n e = some (e', logs) ∧ Between L e' ∧ logs.length = 2 * (L - n) ∧ ∀ l ∈ logs, Good L n l := by
  obtain ⟨a, b, ver, rfl, ha, hb⟩ := he
  have hsch : sweep n (canon L a b ver) = runSteps n (canon L a b ver) (Gen.schedule true L n) := rfl
  rw [hsch, schedule_finite]
  rcases hn with rfl | rfl
  · obtain ⟨v1, g1, r1, l1, f1⟩ := right_phase_one L (L - 1) 0 a b ver (by omega) (by omega) (by omega) hb
    have hm : ¬ (L - 1 = 0) := by omega
    simp only [hm, if_false, Nat.zero_add] at r1
    obtain ⟨v2, g2, r2, l2, f2⟩ := left_phase_one L (L - 1) (L - 1) (L - 1) v1 (by omega) (by omega) (by omega) (by omega)
    simp only [hm, if_false] at r2
    rw [runSteps_append 1 _ _ _ _ _ r1, r2]
    refine ⟨canon L 0 0 v2, g1 ++ g2, rfl, ⟨0, 0, v2, rfl, by omega, by omega⟩, by simp [l1, l2]; omega, ?_⟩
    intro l hl
    rcases List.mem_append.1 hl with h | h
    · exact f1 l h
    · exact f2 l h
  · obtain ⟨v1, g1, r1, l1, f1⟩ := right_phase_two L (L - 2) 0 a b ver (by omega) (by omega) (by omega) hb
    obtain ⟨v2, g2, r2, l2, f2⟩ := left_phase_two L (L - 2) (if L - 2 = 0 then a else 0 + (L - 2))
      (if L - 2 = 0 then b else 0 + (L - 2) + 1) (if L - 2 = 0 then ver else v1)
      (by omega) (by split <;> omega) (by split <;> omega) (by split <;> omega)
    by_cases hm : L - 2 = 0
    · -- L = 2 is excluded by L ≥ 3
      omega
    · simp only [hm, if_false] at r1 r2
      rw [runSteps_append 2 _ _ _ _ _ r1, r2]
      refine ⟨canon L 0 1 v2, g1 ++ g2, rfl, ⟨0, 1, v2, rfl, by omega, by omega⟩, by simp [l1, l2]; omega, ?_⟩
      intro l hl
      rcases List.mem_append.1 hl with h | h
      · exact f1 l h
      · exact f2 l h

end TenpyModel.C13
