/-
Python list primitives used by the regenerated sweep schedule (import-free).
-/
namespace TenpyModel.C13

/-- `list(range(a, b))` -/
def pyRange (a b : Nat) : List Nat := List.range' a (b - a)

/-- `list(range(a, b, -1))` for `b ≤ a`: `[a, a-1, …, b+1]` -/
def pyRangeDown (a b : Nat) : List Nat := (List.range' (b + 1) (a - b)).reverse

/-- `zip(i0s, move_right, update_LP_RP)` -/
def zip3 : List Nat → List Bool → List (Bool × Bool) → List (Nat × Bool × (Bool × Bool))
  | a :: as, b :: bs, c :: cs => (a, b, c) :: zip3 as bs cs
  | _, _, _ => []

end TenpyModel.C13
