import TenpyModel.C13.P2_OrthoList
/-!
# C13 / orthogonal projector — `gram_schmidt` does not lose directions (`rcond = 0`, exact non-negative roots)

`OrthogonalNpcLinearOperator.__init__` replaces the given `ortho_vecs` by `gram_schmidt(ortho_vecs)`.  A vector that
is orthogonal to every output vector is orthogonal to every input vector, provided no input direction is dropped for
a reason other than being linearly dependent on the earlier ones: `rcond = 0`, exact square roots `≥ 0`, no rounding.
(The code uses `rcond = 1e-14`: a vector whose remainder has norm `≤ rcond` is dropped, and then the overlap with it
is only bounded by `rcond · ‖y‖`; that bound is not stated here.)
-/
open TenpyModel.C16

namespace TenpyModel.C13.P2b

theorem gs_dot_self_nonneg (v : Vec) : 0 ≤ dot v v := by
  induction v with
  | nil => rw [dot_nil_left]
  | cons a v ih => rw [dot_cons]; exact add_nonneg (mul_self_nonneg a) ih

theorem gs_dot_zero_of_self_zero (v : Vec) (h : dot v v = 0) (y : Vec) : dot y v = 0 := by
  induction v generalizing y with
  | nil => exact dot_nil_right y
  | cons a v ih =>
    rw [dot_cons] at h
    have h1 : 0 ≤ a * a := mul_self_nonneg a
    have h2 := gs_dot_self_nonneg v
    have ha : a * a = 0 := by linarith
    have hv : dot v v = 0 := by linarith
    have ha0 : a = 0 := mul_self_eq_zero.1 ha
    cases y with
    | nil => exact dot_nil_left _
    | cons b y => rw [dot_cons, ha0, ih hv y]; ring

theorem gs_step_subset (ar : Arith) (rcond : Rat) (res : List Vec) (vec : Vec) :
    ∀ c ∈ res, c ∈ gsStep ar rcond res vec := by
  intro c hc
  unfold gsStep
  simp only
  split
  · exact List.mem_append_left _ hc
  · exact hc

theorem gs_subset (ar : Arith) (rcond : Rat) (vecs res : List Vec) :
    ∀ c ∈ res, c ∈ vecs.foldl (gsStep ar rcond) res := by
  induction vecs generalizing res with
  | nil => exact fun c hc => hc
  | cons vec vecs ih =>
    intro c hc
    rw [List.foldl_cons]
    exact ih _ c (gs_step_subset ar rcond res vec c hc)

/-- orthogonal to the Gram-Schmidt output ⇒ orthogonal to the input vectors -/
theorem gs_perp_inputs (ar : Arith) (hr : ∀ x, ar.rnd x = x) (hsq : ∀ x, 0 ≤ ar.sq x) (n : Nat)
    (vecs res : List Vec) (hres : ON n res) (hv : ∀ v ∈ vecs, v.length = n) (hex : GSExact ar 0 res vecs)
    (y : Vec) (hperp : ∀ c ∈ vecs.foldl (gsStep ar 0) res, dot c y = 0) :
    ∀ v ∈ vecs, dot v y = 0 := by
  induction vecs generalizing res with
  | nil => intro v hv'; cases hv'
  | cons vec vecs ih =>
    rw [List.foldl_cons] at hperp
    obtain ⟨hsqx, hex'⟩ := hex
    have hres' : ON n (gsStep ar 0 res vec) :=
      gs_orthonormal ar hr 0 le_rfl n [vec] res hres
        (fun v hv' => by rw [List.mem_singleton] at hv'; subst hv'; exact hv _ (List.mem_cons_self ..))
        ⟨hsqx, trivial⟩
    intro v hv'
    rcases List.mem_cons.1 hv' with rfl | hv'
    · have hstep : ∀ c ∈ gsStep ar 0 res v, dot c y = 0 := fun c hc => hperp c (gs_subset ar 0 vecs _ c hc)
      have hL : ∀ c ∈ res, c.length = n ∧ dot y c = 0 := fun c hc =>
        ⟨(hres.1 c hc).1, by rw [dot_comm]; exact hstep c (gs_step_subset ar 0 res v c hc)⟩
      have hlenv := hv v (List.mem_cons_self ..)
      rw [dot_comm, ← dot_projOut_of_orth n y res hL v hlenv]
      unfold gsStep at hstep
      simp only at hstep
      split at hstep
      · rename_i hgt
        have h1 := hstep _ (List.mem_append_right _ (List.mem_singleton.2 rfl))
        unfold normalize at h1
        rw [map_rnd_id ar hr, dot_scale_left] at h1
        have hne : (1 : Rat) / ar.sq (dot (projOut res v) (projOut res v)) ≠ 0 :=
          one_div_ne_zero (ne_of_gt hgt)
        rw [dot_comm]
        exact (mul_eq_zero.1 h1).resolve_left hne
      · rename_i hngt
        have h0 : ar.sq (dot (projOut res v) (projOut res v)) = 0 :=
          le_antisymm (not_lt.1 hngt) (hsq _)
        rw [h0, mul_zero] at hsqx
        exact gs_dot_zero_of_self_zero _ hsqx.symm y
    · exact ih _ hres' (fun v hv'' => hv v (List.mem_cons_of_mem _ hv'')) hex' hperp v hv'

end TenpyModel.C13.P2b
