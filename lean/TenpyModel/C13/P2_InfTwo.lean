import TenpyModel.C13.P2_InfPost
/-!
# C13 / Props2 — two-site sweep on an infinite system: invariant along the schedule (`L ≥ 3`; `L = 2` at the end)

Phases of one sweep (`i0`, direction, `(update_LP, update_RP)`):
`R_0, R_1` `(T,T)`, `R_2 … R_{L-2}` `(T,F)` (sites `i0, i0+1`), `R_{L-1}` `(T,F)` (sites `L-1, 0`: wrap),
`L_L` `(T,T)` (sites `0, 1`), `L_{L-1}` `(T,T)` (sites `L-1, 0`), `L_{L-2} … L_1` `(F,T)`.
-/
set_option linter.unusedSimpArgs false
namespace TenpyModel.C13.P2
open TenpyModel.C13

/-- before right-moving step `i` (`0 ≤ i ≤ L-1`) -/
def IR2 (L : Nat) (e : Env) (i : Nat) : Prop :=
  WF L e ∧ StoredL L e i i ∧ (∀ j, 2 ≤ j → j ≤ i → StoredL L e j j) ∧
  (∀ j, i + 1 ≤ j → j < L → StoredR L e j (L - 1 - j)) ∧ (1 ≤ i → StoredR L e 0 0) ∧ (2 ≤ i → StoredR L e 1 0)

/-- before the first left-moving step (`i0 = L`, sites `0, 1`) -/
def ILa2 (L : Nat) (e : Env) : Prop :=
  WF L e ∧ StoredL L e 0 (L - 1) ∧ (∀ j, 2 ≤ j → j < L → StoredL L e j (j - 1)) ∧ StoredR L e 1 0

/-- before the second left-moving step (`i0 = L - 1`, sites `L-1, 0`) -/
def ILb2 (L : Nat) (e : Env) : Prop :=
  WF L e ∧ StoredL L e 1 0 ∧ (∀ j, 2 ≤ j → j < L → StoredL L e j (j - 2)) ∧ StoredR L e 0 1

/-- before left-moving step `i` (`1 ≤ i ≤ L-2`) -/
def IL2 (L : Nat) (e : Env) (i : Nat) : Prop :=
  WF L e ∧ StoredL L e 0 0 ∧ (1 ≤ i → StoredL L e 1 0) ∧ (∀ j, 2 ≤ j → j ≤ i → StoredL L e j (j - 2)) ∧
  (∀ j, i + 1 ≤ j → j < L → StoredR L e j (L + 1 - j))

theorem stepR2 (L : Nat) (hL : 3 ≤ L) (e : Env) (i : Nat) (u : Bool) (hi : i + 2 ≤ L)
    (hu1 : i ≤ 1 → u = true) (hu2 : 2 ≤ i → u = false) (h : IR2 L e i) :
    ∃ e7 log, step 2 e (i, true, (true, u)) = some (e7, log) ∧ IR2 L e7 (i + 1) ∧ GoodInf L 2 log := by
  obtain ⟨w, hl, hls, hrs, hr0, hr1⟩ := h
  obtain ⟨pl, hpl, fl⟩ := hl
  obtain ⟨pr, hpr, fr⟩ := hrs (i + 1) (by omega) (by omega)
  have mi : i % L = i := Nat.mod_eq_of_lt (by omega)
  have mi1 : (i + 1) % L = i + 1 := Nat.mod_eq_of_lt (by omega)
  obtain ⟨e7, hs, P⟩ := step_spec L 2 e w (by omega) (Or.inr rfl) i true true u i i (i + 1) rfl mi mi1 pl pr pl pr
    (by rw [mi]; exact hpl) (by rw [show i + 2 - 1 = i + 1 from rfl, mi1]; exact hpr) hpl hpr
  have avL : ∀ t, t < i → slotL L i t ≠ i ∧ slotL L i t ≠ i + 1 := by slot_omega
  refine ⟨e7, _, hs, ⟨P.wf, ?_, ?_, ?_, ?_, ?_⟩, ?_⟩
  · exact P.newL rfl fl avL (by omega)
  · intro j hj2 hj
    by_cases hji : j = i + 1
    · subst hji; exact P.newL rfl fl avL (by omega)
    · by_cases hji2 : j = i
      · subst hji2
        have : u = false := hu2 hj2
        subst this
        exact P.keepL rfl fl avL
      · exact P.frameL (hls j hj2 (by omega)) hji2 hji (by slot_omega)
  · intro j hj hjL
    exact P.frameR (hrs j (by omega) hjL) (by omega) (by omega) (by slot_omega)
  · intro _
    by_cases hi0 : i = 0
    · subst hi0
      have : u = true := hu1 (by omega)
      exact (P.newR this (fr.mono (Nat.zero_le _)) (by intro t ht; omega) (by omega)).mono (Nat.zero_le _)
    · exact P.frameR (hr0 (by omega)) (by omega) (by omega) (by intro t ht; omega)
  · intro _
    by_cases hi1 : i = 1
    · subst hi1
      have : u = true := hu1 (by omega)
      exact (P.newR this (fr.mono (Nat.zero_le _)) (by intro t ht; omega) (by omega)).mono (Nat.zero_le _)
    · exact P.frameR (hr1 (by omega)) (by omega) (by omega) (by intro t ht; omega)
  · exact good_of_fresh L 2 e i true pl pr i (L - 2 - i) (by omega) (by omega) (by rw [mi]; exact fl)
      (by rw [show i + 2 - 1 = i + 1 from rfl, mi1]; exact fr.mono (by omega)) (by omega)

theorem stepRwrap2 (L : Nat) (hL : 3 ≤ L) (e : Env) (h : IR2 L e (L - 1)) :
    ∃ e7 log, step 2 e (L - 1, true, (true, false)) = some (e7, log) ∧ ILa2 L e7 ∧ GoodInf L 2 log := by
  obtain ⟨w, hl, hls, hrs, hr0, hr1⟩ := h
  obtain ⟨pl, hpl, fl⟩ := hl
  obtain ⟨pr, hpr, fr⟩ := hr0 (by omega)
  have mi : (L - 1) % L = L - 1 := Nat.mod_eq_of_lt (by omega)
  have mi1 : (L - 1 + 1) % L = 0 := by rw [show L - 1 + 1 = L from by omega, Nat.mod_self]
  have mi2 : (L - 1 + 2 - 1) % L = 0 := by rw [show L - 1 + 2 - 1 = L from by omega, Nat.mod_self]
  obtain ⟨e7, hs, P⟩ := step_spec L 2 e w (by omega) (Or.inr rfl) (L - 1) true true false (L - 1) (L - 1) 0 rfl mi mi1
    pl pr pl pr (by rw [mi]; exact hpl) (by rw [mi2]; exact hpr) hpl hpr
  have fl' : FreshL L e.ver (L - 1) (L - 2) pl := fl.mono (by omega)
  have avL : ∀ t, t < L - 2 → slotL L (L - 1) t ≠ L - 1 ∧ slotL L (L - 1) t ≠ 0 := by slot_omega
  refine ⟨e7, _, hs, ⟨P.wf, ?_, ?_, ?_⟩, ?_⟩
  · have := P.newL rfl fl' avL (by omega)
    rw [show L - 2 + 1 = L - 1 from by omega] at this
    exact this
  · intro j hj2 hjL
    by_cases hj : j = L - 1
    · subst hj
      rw [show L - 1 - 1 = L - 2 from by omega]
      exact P.keepL rfl fl' avL
    · exact P.frameL ((hls j hj2 (by omega)).mono (by omega)) hj (by omega) (by slot_omega)
  · exact P.frameR (hr1 (by omega)) (by omega) (by omega) (by intro t ht; omega)
  · exact good_of_fresh L 2 e (L - 1) true pl pr (L - 1) 0 (by omega) (by omega) (by rw [mi]; exact fl)
      (by rw [mi2]; exact fr) (by omega)

theorem stepLa2 (L : Nat) (hL : 3 ≤ L) (e : Env) (h : ILa2 L e) :
    ∃ e7 log, step 2 e (L, false, (true, true)) = some (e7, log) ∧ ILb2 L e7 ∧ GoodInf L 2 log := by
  obtain ⟨w, hl, hls, hr1⟩ := h
  obtain ⟨pl, hpl, fl⟩ := hl
  obtain ⟨pr, hpr, fr⟩ := hr1
  have mi : L % L = 0 := Nat.mod_self L
  have mi1 : (L + 1) % L = 1 := by rw [Nat.add_mod_left, Nat.mod_eq_of_lt (by omega)]
  have mi2 : (L + 2 - 1) % L = 1 := by rw [show L + 2 - 1 = L + 1 from rfl, mi1]
  obtain ⟨e7, hs, P⟩ := step_spec L 2 e w (by omega) (Or.inr rfl) L false true true L 0 1 rfl mi mi1
    pl pr pl pr (by rw [mi]; exact hpl) (by rw [mi2]; exact hpr) hpl hpr
  refine ⟨e7, _, hs, ⟨P.wf, ?_, ?_, ?_⟩, ?_⟩
  · exact (P.newL rfl (fl.mono (Nat.zero_le _)) (by intro t ht; omega) (by omega)).mono (Nat.zero_le _)
  · intro j hj2 hjL
    exact P.frameL ((hls j hj2 hjL).mono (by omega)) (by omega) (by omega) (by slot_omega)
  · exact P.newR rfl (fr.mono (Nat.zero_le _)) (by intro t ht; omega) (by omega)
  · exact good_of_fresh L 2 e L false pl pr (L - 1) 0 (by omega) (by omega) (by rw [mi]; exact fl)
      (by rw [mi2]; exact fr) (by omega)

theorem stepLb2 (L : Nat) (hL : 3 ≤ L) (e : Env) (h : ILb2 L e) :
    ∃ e7 log, step 2 e (L - 1, false, (true, true)) = some (e7, log) ∧ IL2 L e7 (L - 2) ∧ GoodInf L 2 log := by
  obtain ⟨w, hl1, hls, hr0⟩ := h
  obtain ⟨pl, hpl, fl⟩ := hls (L - 1) (by omega) (by omega)
  obtain ⟨pr, hpr, fr⟩ := hr0
  have mi : (L - 1) % L = L - 1 := Nat.mod_eq_of_lt (by omega)
  have mi1 : (L - 1 + 1) % L = 0 := by rw [show L - 1 + 1 = L from by omega, Nat.mod_self]
  have mi2 : (L - 1 + 2 - 1) % L = 0 := by rw [show L - 1 + 2 - 1 = L from by omega, Nat.mod_self]
  obtain ⟨e7, hs, P⟩ := step_spec L 2 e w (by omega) (Or.inr rfl) (L - 1) false true true (L - 1) (L - 1) 0 rfl mi mi1
    pl pr pl pr (by rw [mi]; exact hpl) (by rw [mi2]; exact hpr) hpl hpr
  refine ⟨e7, _, hs, ⟨P.wf, ?_, ?_, ?_, ?_⟩, ?_⟩
  · exact (P.newL rfl (fl.mono (Nat.zero_le _)) (by intro t ht; omega) (by omega)).mono (Nat.zero_le _)
  · intro _
    exact P.frameL hl1 (by omega) (by omega) (by intro t ht; omega)
  · intro j hj2 hj
    exact P.frameL (hls j hj2 (by omega)) (by omega) (by omega) (by slot_omega)
  · intro j hj hjL
    have : j = L - 1 := by omega
    subst this
    have := P.newR rfl fr (by slot_omega) (by omega)
    rw [show L + 1 - (L - 1) = 1 + 1 from by omega]
    exact this
  · exact good_of_fresh L 2 e (L - 1) false pl pr (L - 3) 1 (by omega) (by omega)
      (by rw [mi]; exact fl.mono (by omega)) (by rw [mi2]; exact fr) (by omega)

theorem stepL2 (L : Nat) (hL : 3 ≤ L) (e : Env) (i : Nat) (hi2 : 2 ≤ i) (hi : i + 2 ≤ L) (h : IL2 L e i) :
    ∃ e7 log, step 2 e (i, false, (false, true)) = some (e7, log) ∧ IL2 L e7 (i - 1) ∧ GoodInf L 2 log := by
  obtain ⟨w, hl0, hl1, hls, hrs⟩ := h
  obtain ⟨pl, hpl, fl⟩ := hls i hi2 (by omega)
  obtain ⟨pr, hpr, fr⟩ := hrs (i + 1) (by omega) (by omega)
  have mi : i % L = i := Nat.mod_eq_of_lt (by omega)
  have mi1 : (i + 1) % L = i + 1 := Nat.mod_eq_of_lt (by omega)
  obtain ⟨e7, hs, P⟩ := step_spec L 2 e w (by omega) (Or.inr rfl) i false false true i i (i + 1) rfl mi mi1 pl pr pl pr
    (by rw [mi]; exact hpl) (by rw [show i + 2 - 1 = i + 1 from rfl, mi1]; exact hpr) hpl hpr
  have fr' : FreshR L e.ver (i + 1) (L - i) pr := fr.mono (by omega)
  have avR : ∀ t, t < L - i → slotR L (i + 1) t ≠ i ∧ slotR L (i + 1) t ≠ i + 1 := by slot_omega
  refine ⟨e7, _, hs, ⟨P.wf, ?_, ?_, ?_, ?_⟩, ?_⟩
  · exact P.frameL hl0 (by omega) (by omega) (by intro t ht; omega)
  · intro _
    exact P.frameL (hl1 (by omega)) (by omega) (by omega) (by intro t ht; omega)
  · intro j hj2 hj
    exact P.frameL (hls j hj2 (by omega)) (by omega) (by omega) (by slot_omega)
  · intro j hj hjL
    by_cases hji : j = i
    · subst hji
      have := P.newR rfl fr' avR (by omega)
      rw [show L + 1 - j = L - j + 1 from by omega]
      exact this
    · by_cases hji1 : j = i + 1
      · subst hji1
        rw [show L + 1 - (i + 1) = L - i from by omega]
        exact P.keepR rfl fr' avR
      · exact P.frameR (hrs j (by omega) hjL) hji hji1 (by slot_omega)
  · exact good_of_fresh L 2 e i false pl pr (i - 2) (L - i) (by omega) (by omega) (by rw [mi]; exact fl)
      (by rw [show i + 2 - 1 = i + 1 from rfl, mi1]; exact fr') (by omega)

/-- the last step of the sweep (`i0 = 1`) leads back to the invariant before `R_0` -/
theorem stepL2_last (L : Nat) (hL : 3 ≤ L) (e : Env) (h : IL2 L e 1) :
    ∃ e7 log, step 2 e (1, false, (false, true)) = some (e7, log) ∧ IR2 L e7 0 ∧ GoodInf L 2 log := by
  obtain ⟨w, hl0, hl1, hls, hrs⟩ := h
  obtain ⟨pl, hpl, fl⟩ := hl1 (by omega)
  obtain ⟨pr, hpr, fr⟩ := hrs 2 (by omega) (by omega)
  have mi : 1 % L = 1 := Nat.mod_eq_of_lt (by omega)
  have mi1 : (1 + 1) % L = 2 := Nat.mod_eq_of_lt (by omega)
  obtain ⟨e7, hs, P⟩ := step_spec L 2 e w (by omega) (Or.inr rfl) 1 false false true 1 1 2 rfl mi mi1 pl pr pl pr
    (by rw [mi]; exact hpl) (by rw [show 1 + 2 - 1 = 2 from rfl, mi1]; exact hpr) hpl hpr
  refine ⟨e7, _, hs, ⟨P.wf, ?_, ?_, ?_, ?_, ?_⟩, ?_⟩
  · exact P.frameL hl0 (by omega) (by omega) (by intro t ht; omega)
  · intro j hj2 hj; omega
  · intro j hj hjL
    by_cases hj1 : j = 1
    · subst hj1
      have := P.newR rfl (fr.mono (by omega : L - 2 ≤ L + 1 - 2)) (by slot_omega) (by omega)
      exact this.mono (by omega)
    · by_cases hj2 : j = 2
      · subst hj2
        exact P.keepR rfl (fr.mono (by omega)) (by slot_omega)
      · exact P.frameR ((hrs j (by omega) hjL).mono (by omega)) hj1 hj2 (by slot_omega)
  · intro h0; omega
  · intro h0; omega
  · exact good_of_fresh L 2 e 1 false pl pr 0 (L - 1) (by omega) (by omega) (by rw [mi]; exact fl)
      (by rw [show 1 + 2 - 1 = 2 from rfl, mi1]; exact fr.mono (by omega)) (by omega)

end TenpyModel.C13.P2
