import TenpyModel.C13.P2_InfBase
/-!
# C13 / Props2 — one iteration of the sweep loop on an infinite system, symbolically

`step_spec`: if the two environments read by `make_eff_H` and the two neighbours needed by `update_LP/update_RP` are
stored, the step succeeds, and the new state is described slot by slot (which parts are deleted, which are new, which
are untouched), for every combination of `n ∈ {1,2}`, direction and `(update_LP, update_RP)`.
-/
set_option linter.unusedSimpArgs false
set_option linter.unusedTactic false
namespace TenpyModel.C13.P2
open TenpyModel.C13

theorem getD_setAt_self {α : Type} (l : List α) (i : Nat) (v d : α) (h : i < l.length) :
    (setAt l i v).getD i d = v := by
  simp [setAt, List.getD_eq_getElem?_getD, h]

theorem getD_setAt_ne {α : Type} (l : List α) (i j : Nat) (v d : α) (h : i ≠ j) :
    (setAt l i v).getD j d = l.getD j d := by
  simp [setAt, List.getD_eq_getElem?_getD, List.getElem?_set, h]

theorem getD_setAt {α : Type} (l : List α) (i j : Nat) (v d : α) :
    (setAt l i v).getD j d = if i = j ∧ i < l.length then v else l.getD j d := by
  by_cases h : i = j
  · subst h
    by_cases h2 : i < l.length
    · simp [setAt, List.getD_eq_getElem?_getD, h2]
    · simp [setAt, List.getD_eq_getElem?_getD, h2]
  · simp [setAt, List.getD_eq_getElem?_getD, List.getElem?_set, h]

theorem length_setAt {α : Type} (l : List α) (i : Nat) (v : α) : (setAt l i v).length = l.length := by
  simp [setAt]

theorem succ_mod_ne (L x : Nat) (hL : 2 ≤ L) : x % L ≠ (x + 1) % L := by
  intro h
  have h1 := Nat.mod_lt x (by omega : 0 < L)
  rw [Nat.add_mod, Nat.mod_eq_of_lt (by omega : 1 < L)] at h
  by_cases h2 : x % L + 1 < L
  · rw [Nat.mod_eq_of_lt h2] at h; omega
  · have : x % L + 1 = L := by omega
    rw [this, Nat.mod_self] at h; omega

/-- which `LP[i_L]` / `RP[i_R]` the `free_no_longer_needed_envs` step removes -/
def freeL (n : Nat) (mr uRP : Bool) : Bool := uRP && (n == 2 || mr)
def freeR (n : Nat) (mr uLP : Bool) : Bool := uLP && (n == 2 || !mr)

/-- the state after one step, slot by slot -/
structure Post (L n : Nat) (e : Env) (mr uLP uRP : Bool) (sL sR : Nat) (qL qR : EnvPart) (e7 : Env) : Prop where
  wf : WF L e7
  ver : e7.ver = bumpVer e.ver sL sR
  lp : ∀ j, e7.lp.getD j none =
        if j = sL then (if freeL n mr uRP then none else some qL)
        else if j = sR then (if uLP then some (absorb L (bumpVer e.ver sL sR) sL qL) else none)
        else e.lp.getD j none
  rp : ∀ j, e7.rp.getD j none =
        if j = sR then (if freeR n mr uLP then none else some qR)
        else if j = sL then (if uRP then some (absorb L (bumpVer e.ver sL sR) sR qR) else none)
        else e.rp.getD j none
  ne : sL ≠ sR
  ltL : sL < L
  ltR : sR < L
  prevR : sL = slotL L sR 0
  nextL : sR = slotR L sL 0

theorem step_spec (L n : Nat) (e : Env) (w : WF L e) (hL : 2 ≤ L) (hn : n = 1 ∨ n = 2)
    (i0 : Nat) (mr uLP uRP : Bool) (iL sL sR : Nat)
    (hinds : updateEnvInds n i0 mr = (iL, iL + 1)) (hsL : iL % L = sL) (hsR : (iL + 1) % L = sR)
    (pl pr qL qR : EnvPart)
    (hpl : e.lp.getD (i0 % L) none = some pl) (hpr : e.rp.getD ((i0 + n - 1) % L) none = some pr)
    (hqL : e.lp.getD sL none = some qL) (hqR : e.rp.getD sR none = some qR) :
    ∃ e7, step n e (i0, mr, (uLP, uRP))
        = some (e7, ⟨i0, mr, pl, pr, freshDepth e pl.deps, freshDepth e pr.deps⟩) ∧
      Post L n e mr uLP uRP sL sR qL qR e7 := by
  obtain ⟨eL, fin, ver, lp, rp⟩ := e
  obtain ⟨h1, h2, h3, h4⟩ := w
  simp only at h1 h2 h3 h4 hpl hpr hqL hqR
  subst h1 h2
  have hne : sL ≠ sR := by rw [← hsL, ← hsR]; exact succ_mod_ne eL iL hL
  have hsLlt : sL < eL := by rw [← hsL]; exact Nat.mod_lt _ (by omega)
  have hsRlt : sR < eL := by rw [← hsR]; exact Nat.mod_lt _ (by omega)
  have hprevR : sL = slotL eL sR 0 := by
    unfold slotL
    rw [← hsL, ← hsR, Nat.sub_zero, Nat.add_sub_assoc (by omega : 1 ≤ eL), Nat.mod_add_mod]
    have : iL + 1 + (eL - 1) = iL + eL := by omega
    rw [this, Nat.add_mod_right]
  have hnextL : sR = slotR eL sL 0 := by
    unfold slotR
    rw [← hsL, ← hsR]
    simp only [Nat.add_zero, Nat.mod_add_mod]
  -- the two reads
  have w0 : WF eL ⟨eL, false, ver, lp, rp⟩ := ⟨rfl, rfl, h3, h4⟩
  have r1 := getLP_hit eL _ w0 (by omega) i0 pl hpl
  have r2 := getRP_hit eL _ w0 (by omega) (i0 + n - 1) pr hpr
  -- state after `set_B`, `del_LP(i_R)`, `del_RP(i_L)`
  let e4 : Env := ⟨eL, false, bumpVer ver sL sR, setAt lp sR none, setAt rp sL none⟩
  have he4 : delRP (delLP (bump (bump ⟨eL, false, ver, lp, rp⟩ iL) (iL + 1)) (iL + 1)) iL = e4 := by
    simp only [delRP, delLP, bump, Env.verOf, hsL, hsR, e4, bumpVer]
  have w4 : WF eL e4 := ⟨rfl, rfl, by simp [e4, length_setAt, h3], by simp [e4, length_setAt, h4]⟩
  -- update_LP
  let nl := absorb eL (bumpVer ver sL sR) sL qL
  let nr := absorb eL (bumpVer ver sL sR) sR qR
  have hprev : (iL + 1 + eL - 1) % eL = sL := by
    have : iL + 1 + eL - 1 = iL + eL := by omega
    rw [this, Nat.add_mod_right, hsL]
  have g5 : getLP e4 (iL + 1) true = some (nl, { e4 with lp := setAt e4.lp sR (some nl) }) := by
    have := getLP_miss1 eL e4 w4 hL (iL + 1) qL
      (by rw [hsR]; simp only [e4]; exact getD_setAt_self lp sR none none (by omega))
      (by rw [hprev]; simp only [e4]; rw [getD_setAt_ne lp sR sL none none (Ne.symm hne)]; exact hqL)
    rw [hprev, hsR] at this
    exact this
  -- update_RP (on the state with or without the new LP)
  have g6 : ∀ lp', lp'.length = eL →
      getRP ⟨eL, false, bumpVer ver sL sR, lp', setAt rp sL none⟩ iL true
        = some (nr, ⟨eL, false, bumpVer ver sL sR, lp', setAt (setAt rp sL none) sL (some nr)⟩) := by
    intro lp' hlp'
    have w5 : WF eL ⟨eL, false, bumpVer ver sL sR, lp', setAt rp sL none⟩ :=
      ⟨rfl, rfl, hlp', by simp [length_setAt, h4]⟩
    have := getRP_miss1 eL _ w5 hL iL qR
      (by rw [hsL]; exact getD_setAt_self rp sL none none (by omega))
      (by rw [hsR]; simp only; rw [getD_setAt_ne rp sL sR none none hne]; exact hqR)
    rw [hsR, hsL] at this
    exact this
  unfold step
  simp only [r1, r2, hinds, he4]
  rcases hn with rfl | rfl <;> cases mr <;> cases uLP <;> cases uRP <;>
    simp only [g5, g6 _ (by simp [e4, length_setAt, h3] : (setAt e4.lp sR (some nl)).length = eL),
      g6 _ w4.hlp, e4, Option.map_some, if_true, if_false, Bool.false_eq_true, Bool.and_true, Bool.and_false,
      Bool.not_true, Bool.not_false, Bool.true_and, Bool.false_and, delLP, delRP, hsL, hsR,
      show (1 = 2) = False from by simp, freeL, freeR, Bool.or_true, Bool.or_false, Bool.true_or, Bool.false_or,
      beq_self_eq_true, show ((1 : Nat) == 2) = false from rfl] <;>
    refine ⟨_, rfl, ⟨rfl, rfl, by simp [length_setAt, h3], by simp [length_setAt, h4]⟩, rfl, ?_, ?_,
      hne, hsLlt, hsRlt, hprevR, hnextL⟩ <;>
    intro j <;> simp only [getD_setAt, length_setAt, h3, h4, hsLlt, hsRlt, and_true, freeL, freeR,
      Bool.or_true, Bool.or_false, Bool.true_or, Bool.false_or, Bool.and_true, Bool.and_false, Bool.true_and,
      Bool.false_and, Bool.not_true, Bool.not_false, beq_self_eq_true, show ((1 : Nat) == 2) = false from rfl,
      Bool.false_eq_true] <;>
    by_cases hjL : j = sL <;> by_cases hjR : j = sR <;>
    first
      | (exfalso; exact hne (hjL.symm.trans hjR))
      | (rw [hjL]; simp only [hne, Ne.symm hne, eq_self_iff_true, if_true, if_false, hqL, hqR, nl, nr]; done)
      | (rw [hjR]; simp only [hne, Ne.symm hne, eq_self_iff_true, if_true, if_false, hqL, hqR, nl, nr]; done)
      | (simp only [hjL, hjR, Ne.symm hjL, Ne.symm hjR, if_false]; done)

end TenpyModel.C13.P2
