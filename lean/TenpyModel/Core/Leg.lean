import TenpyModel.Core.Charge
/-
Core model (import-free): `LegCharge` of `tenpy/linalg/charges.py`, as coded.
-/
namespace TenpyModel.Core

structure Leg where
  mods    : List Nat          -- chinfo.mod
  slices  : List Nat          -- block_number + 1 entries
  charges : List Charge       -- block_number rows
  qconj   : Int
  sorted  : Bool
  bunched : Bool
deriving Repr, DecidableEq

namespace Leg

def qnumber (l : Leg) : Nat := l.mods.length
def blockNumber (l : Leg) : Nat := l.charges.length
def indLen (l : Leg) : Nat := l.slices.getLastD 0
def blockSizes (l : Leg) : List Nat := sizesOfSlices l.slices

def isSortedRows (qnumber : Nat) (rows : List Charge) : Bool :=
  qnumber == 0 || lexsort rows == List.range rows.length

/-- `LegCharge.is_sorted` -/
def isSorted (l : Leg) : Bool := isSortedRows l.qnumber l.charges

/-- `LegCharge.is_bunched` -/
def isBunched (l : Leg) : Bool :=
  (findRowDifferences l.qnumber l.charges).length == l.blockNumber + 1

/-- `LegCharge.is_blocked` -/
def isBlocked (l : Leg) : Bool :=
  (l.sorted && l.bunched) || l.charges.eraseDups.length == l.blockNumber

/-- `LegCharge.__init__` (flags as set there) -/
def mk' (mods : List Nat) (slices : List Nat) (charges : List Charge) (qconj : Int) : Leg :=
  let one := decide (charges.length ≤ 1)
  { mods, slices, charges, qconj, sorted := one, bunched := one }

/-- `LegCharge.test_sanity` at optimisation level 0 -/
def sane (l : Leg) : Bool :=
  l.slices.length == l.blockNumber + 1 && l.slices.head? == some 0
  && l.charges.all (fun c => checkValid l.mods c)
  && (l.qconj == 1 || l.qconj == -1)
  && (!l.sorted || l.isSorted) && (!l.bunched || l.isBunched)

/-- `from_qind` -/
def fromQind (mods : List Nat) (slices : List Nat) (charges : List Charge) (qconj : Int) : Leg :=
  let l := mk' mods slices charges qconj
  { l with sorted := l.isSorted, bunched := l.isBunched }

/-- `from_qflat` -/
def fromQflat (mods : List Nat) (qflat : List Charge) (qconj : Int) : Leg :=
  fromQind mods (List.range (qflat.length + 1)) qflat qconj

/-- `from_trivial` -/
def fromTrivial (n : Nat) (mods : List Nat) (qconj : Int) : Leg :=
  mk' mods [0, n] [czero mods.length] qconj

/-- `to_qflat` -/
def toQflat (l : Leg) : List Charge :=
  (l.blockSizes.zip l.charges).flatMap (fun sc => List.replicate sc.1 sc.2)

/-- `get_charge(qindex)` -/
def getCharge (l : Leg) (qi : Nat) : Charge := cscale l.qconj (l.charges.getD qi [])

def conj (l : Leg) : Leg := { l with qconj := -l.qconj }

def flipChargesQconj (l : Leg) : Leg :=
  { l with qconj := -l.qconj, charges := l.charges.map (fun c => makeValid l.mods (cneg c)), sorted := false }

/-- physical charge attached to block rows: `make_valid(charges * qconj)` (used by `__eq__`) -/
def physCharges (l : Leg) : List Charge := l.charges.map (fun c => makeValid l.mods (cscale l.qconj c))

/-- `LegCharge.__eq__` (without the identity shortcut; chinfo mismatch is an error → `none`) -/
def eq? (a b : Leg) : Option Bool :=
  if a.mods ≠ b.mods then none
  else some (a.slices == b.slices && a.physCharges == b.physCharges)

def testEqual (a b : Leg) : Bool := a.eq? b == some true
def testContractible (a b : Leg) : Bool := a.testEqual b.conj

/-- number of slice boundaries `≤ i` (= `bisect.bisect(slices, i)`, slices ascending) -/
def bisectRight (slices : List Nat) (i : Nat) : Nat := (slices.takeWhile (fun s => s ≤ i)).length

/-- `get_qindex(flat_index)` → `(qindex, index within block)`; `none` = IndexError. -/
def getQindex (l : Leg) (i : Int) : Option (Nat × Nat) :=
  let n : Int := l.indLen
  let i' := if i < 0 then i + n else i
  if i' < 0 then none
  else if i' ≥ n then none
  else
    let k := i'.toNat
    let q := bisectRight l.slices k - 1
    some (q, k - l.slices.getD q 0)

/-- `perm_flat_from_perm_qind` -/
def permFlatFromPermQind (l : Leg) (permQind : List Nat) : List Nat :=
  permQind.flatMap (fun q =>
    let b := l.slices.getD q 0
    let e := l.slices.getD (q + 1) 0
    (List.range (e - b)).map (· + b))

/-- `bunch()` → `(idx, leg)` -/
def bunch (l : Leg) : List Nat × Leg :=
  if l.bunched then (List.range (l.blockNumber + 1), l)
  else
    let idx := findRowDifferences l.qnumber l.charges
    (idx, { l with charges := take? l.charges idx.dropLast [], slices := take? l.slices idx 0, bunched := true })

/-- `sort(bunch)` → `(perm_qind, leg)` -/
def sort (l : Leg) (doBunch : Bool) : List Nat × Leg :=
  if l.sorted && (!doBunch || l.bunched) then (List.range l.blockNumber, l)
  else
    let p := lexsort l.charges
    let cp : Leg := { l with charges := take? l.charges p [],
                             slices := slicesOfSizes (take? l.blockSizes p 0),
                             sorted := true, bunched := false }
    if doBunch then (p, cp.bunch.2) else (p, cp)

def splitAtSizes : List Nat → List α → List (List α)
  | [], _ => []
  | s :: ss, xs => xs.take s :: splitAtSizes ss (xs.drop s)

/-- `project(mask)` → `(map_qind (−1 = dropped), block_masks, leg)`; mask has length `ind_len` -/
def project (l : Leg) (mask : List Bool) : List Int × List (List Bool) × Leg :=
  let bms := splitAtSizes l.blockSizes mask
  let lens := bms.map (fun bm => bm.count true)
  let keep := (List.range lens.length).filter (fun i => lens.getD i 0 ≠ 0)
  let mapQ : List Int := (List.range l.blockNumber).map (fun i =>
    if keep.contains i then (keep.idxOf i : Int) else -1)
  (mapQ, take? bms keep [],
   { l with charges := take? l.charges keep [], slices := slicesOfSizes (take? lens keep 0),
            bunched := l.isBlocked })

/-- `extend(extra)` with `extra` a leg -/
def extend (l e : Leg) : Leg :=
  mk' l.mods (l.slices ++ (e.slices.tail.map (· + l.indLen)))
    (l.charges ++ (if l.qconj = e.qconj then e.charges else e.charges.map (fun c => makeValid l.mods (cneg c))))
    l.qconj

end Leg
end TenpyModel.Core
