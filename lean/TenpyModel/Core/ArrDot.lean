import TenpyModel.Core.ArrOps
/-
Core model, part 3: `split_legs` (+ worker), `sort_legcharge`, `concatenate`, `outer`, `inner`
(`_inner_worker`), `trace`, `tensordot` (`_tensordot_transpose_axes`, special cases, `_tensordot_pre_worker`,
`_tensordot_worker`), `norm` — as coded in `tenpy/linalg/np_conserved.py` / `_npc_helper.pyx`.
-/
namespace TenpyModel.Core
namespace Arr
variable {α : Type}

/-! ### split_legs -/

def splitLabel (l : Label) (count : Nat) : Except Err (List Label) :=
  match Label.splitChars (l.map String.toList) count with
  | .ok ls => .ok (ls.map (fun o => o.map String.ofList))
  | .valueError => .error .valueError
  | .indexError => .error .indexError
  | .nameError => .error .nameError

def subLegs : ALeg → List ALeg
  | .pipe _ subs => subs
  | .plain l => [.plain l]

def pipeOf : ALeg → Pipe
  | .pipe p _ => p
  | .plain l => { leg := l, legs := [l], qMap := [], qMapSlices := [], perm := none, strides := [] }

/-- replace the legs at the (ascending) `axes` by their incoming legs -/
def splitLegList (legs : List ALeg) (axes : List Nat) : List ALeg :=
  (List.range legs.length).flatMap (fun k =>
    let l := legs.getD k default
    if axes.contains k then subLegs l else [l])

/-- `_split_legs_worker(self, split_axes, cutoff)` (the cutoff is not used by the code) -/
def splitWorker [Zero α] (a : Arr α) (axes : List Nat) : Arr α :=
  let legs' := splitLegList a.legs axes
  let lcs' := legs'.map ALeg.leg
  let res : Arr α := { a with legs := legs' }
  if a.storedBlocks = 0 then res
  else
    let pipes := axes.map (fun k => pipeOf (a.legs.getD k default))
    let out := (a.qdata.zip a.data).flatMap (fun rb =>
      let q := rb.1
      let begs := List.zipWith (fun (p : Pipe) k => p.qMapSlices.getD (q.getD k 0) 0) pipes axes
      let cnts := List.zipWith (fun (p : Pipe) k =>
        p.qMapSlices.getD (q.getD k 0 + 1) 0 - p.qMapSlices.getD (q.getD k 0) 0) pipes axes
      (gridC cnts).map (fun combo =>
        let rows := List.zipWith (fun (p : Pipe) (rb : Nat × Nat) => p.qMap.getD (rb.1 + rb.2) []) pipes (combo.zip begs)
        let newrow := (List.range a.rank).flatMap (fun k =>
          if axes.contains k then (rows.getD (axes.idxOf k) []).drop 3 else [q.getD k 0])
        let beg := (List.range a.rank).map (fun k =>
          if axes.contains k then (rows.getD (axes.idxOf k) []).getD 0 0 else 0)
        let shp := (List.range a.rank).map (fun k =>
          if axes.contains k then (rows.getD (axes.idxOf k) []).getD 1 0 - (rows.getD (axes.idxOf k) []).getD 0 0
          else rb.2.shape.getD k 0)
        (newrow, (rb.2.getBlock beg shp).reshape (blockShapeOf lcs' newrow))))
    { res with qdata := out.map (·.1), data := out.map (·.2), qdataSorted := false }

/-- `Array.split_legs(axes)` -/
def splitLegs [Zero α] (a : Arr α) (axes : Option (List Ax)) : Except Err (Arr α) := do
  let ax ← match axes with
    | none => pure ((List.range a.rank).filter (fun k => (a.legs.getD k default).isPipe))
    | some xs => do
      let idx ← a.getLegIndices xs
      let s := pick idx (argsortInt (idx.map Int.ofNat)) 0
      if s.eraseDups.length ≠ s.length then throw .valueError
      pure s
  if ax.any (fun k => !(a.legs.getD k default).isPipe) then throw .valueError
  if ax.isEmpty then return a
  let res : Arr α :=
    if a.storedBlocks = 0 then { a with legs := splitLegList a.legs ax }
    else if a.storedBlocks = 1 ∧ ax.all (fun k => (pipeOf (a.legs.getD k default)).qMap.length == 1) then
      let legs' := splitLegList a.legs ax
      let q := a.qdata.headD []
      let row := (List.range a.rank).flatMap (fun k =>
        if ax.contains k then ((pipeOf (a.legs.getD k default)).qMap.headD []).drop 3 else [q.getD k 0])
      { a with legs := legs', qdata := [row],
               data := [(a.data.headD ⟨[], []⟩).reshape (blockShapeOf (legs'.map ALeg.leg) row)] }
    else a.splitWorker ax
  -- labels: `for a in sorted(axes, reverse=True): labels[a:a+1] = _split_leg_label(labels[a], nlegs)`
  let labels ← ax.reverse.foldlM (fun (ls : List Label) k => do
    let parts ← splitLabel (ls.getD k none) (subLegs (a.legs.getD k default)).length
    pure (ls.take k ++ parts ++ ls.drop (k + 1))) a.labels
  res.isetLegLabels labels

/-- `Array.sort_legcharge(sort, bunch)` with one bool per leg → `(perms, cp)` -/
def sortLegcharge [Zero α] (a : Arr α) (sort bunch : List Bool) : Except Err (List (List Nat) × Arr α) := do
  if sort.length ≠ a.rank ∨ bunch.length ≠ a.rank then throw .valueError
  let axes := (List.range a.rank).filter (fun k => sort.getD k false || bunch.getD k false)
  let pipes := axes.map (fun k =>
    let l := a.legs.getD k default
    ALeg.mkPipe [l] l.leg.qconj (sort.getD k false) (bunch.getD k false))
  let cp ← a.combineLegs (axes.map (fun k => [Ax.idx (Int.ofNat k)])) none (some (pipes.map some)) [none]
  let perms := (List.range a.rank).map (fun k =>
    if axes.contains k then
      match (pipeOf (cp.legs.getD k default)).perm with
      | none => List.range (a.shape.getD k 0)
      | some pm => (a.lc k).permFlatFromPermQind (inversePerm pm)
    else List.range (a.shape.getD k 0))
  let legs := (List.range a.rank).map (fun k =>
    let l := cp.legs.getD k default
    if axes.contains k then l.toLegCharge else l)
  return (perms, { cp with labels := a.labels, legs })

/-- `concatenate(arrays, axis)` -/
def concatenate (arrays : List (Arr α)) (axis : Ax) : Except Err (Arr α) := do
  match arrays with
  | [] => throw .indexError
  | first :: _ =>
    let k ← first.getLegIndex axis
    let notAxis := (List.range first.rank).filter (· ≠ k)
    for a in arrays do
      if a.shape.take k ≠ first.shape.take k ∨ a.shape.drop (k + 1) ≠ first.shape.drop (k + 1) then
        throw .valueError
      if a.mods ≠ first.mods then throw .valueError
      if a.qtotal ≠ first.qtotal then throw .valueError
      if !legsEqual (pick a.lcs notAxis default) (pick first.lcs notAxis default) then throw .valueError
    let axisQconj := (first.lc k).qconj
    let sizes := arrays.flatMap (fun a => (a.lc k).blockSizes)
    let charges := arrays.flatMap (fun a =>
      let l := a.lc k
      if l.qconj = axisQconj then l.charges else l.charges.map (fun c => makeValid first.mods (cneg c)))
    let shifts := (arrays.map (fun a => (a.lc k).blockNumber)).foldl
      (fun (acc : List Nat × Nat) n => (acc.1 ++ [acc.2], acc.2 + n)) ([], 0)
    let qdata := (arrays.zip shifts.1).flatMap (fun as =>
      as.1.qdata.map (fun r => r.set k (r.getD k 0 + as.2)))
    let leg := Leg.fromQind first.mods (slicesOfSizes sizes) charges axisQconj
    return { first with legs := first.legs.set k (.plain leg), qdata, data := arrays.flatMap (·.data),
                        qdataSorted := false }

/-! ### products -/

/-- `outer(a, b)` -/
def outer [Add α] [Mul α] [Zero α] (a b : Arr α) : Except Err (Arr α) := do
  if a.mods ≠ b.mods then throw .valueError
  let res : Arr α ← zeros a.mods (a.legs ++ b.legs) (some (cadd a.qtotal b.qtotal)) none
  -- grid rows (i, j) with the block index i of `a` running fastest
  let pairs := (b.qdata.zip b.data).flatMap (fun rbB => (a.qdata.zip a.data).map (fun rbA => (rbA, rbB)))
  return { res with qdata := pairs.map (fun p => p.1.1 ++ p.2.1),
                    data := pairs.map (fun p => Dense.outer p.1.2 p.2.2),
                    qdataSorted := a.qdataSorted && b.qdataSorted,
                    labels := Label.dropDuplicate a.labels b.labels }

/-- stable sort of (key, value) pairs by key (`np.argsort` on distinct keys) -/
def sortByKey (l : List (Nat × β)) : List (Nat × β) :=
  pick' l (lexsort (l.map (fun kv => [Int.ofNat kv.1])))
where pick' (l : List (Nat × β)) (idx : List Nat) : List (Nat × β) := idx.filterMap (fun i => l[i]?)

/-- `_iter_common_sorted` on two (key, value) lists: pairs of values with equal keys -/
def commonSorted : List (Nat × β) → List (Nat × γ) → List (β × γ)
  | [], _ => []
  | _ :: _, [] => []
  | a :: as, b :: bs =>
    if a.1 < b.1 then commonSorted as (b :: bs)
    else if b.1 < a.1 then commonSorted (a :: as) bs
    else (a.2, b.2) :: commonSorted as bs
termination_by as bs => as.length + bs.length

/-- `_inner_worker(a, b, do_conj)`: legs already in matching order; `st` = complex conjugation -/
def innerWorker [Add α] [Mul α] [Zero α] (st : α → α) (a b : Arr α) (doConj : Bool) : α :=
  let check := if doConj then csub b.qtotal a.qtotal else cadd b.qtotal a.qtotal
  if makeValid a.mods check ≠ czero a.mods.length then 0
  else if a.storedBlocks = 0 ∨ b.storedBlocks = 0 then 0
  else
    let bn := a.blockNumbers
    let ka := (a.qdata.zip a.data).map (fun rb => (fKey bn rb.1, rb.2))
    let ka := if a.qdataSorted then ka else sortByKey ka
    let kb := (b.qdata.zip b.data).map (fun rb => (fKey bn rb.1, rb.2))
    let kb := if b.qdataSorted then kb else sortByKey kb
    Dense.sum ((commonSorted ka kb).map (fun (p : Blk α × Blk α) =>
      Dense.inner (if doConj then p.1.map st else p.1) p.2))

/-- `axes` argument of `inner` -/
inductive InnerAxes where
  | range
  | labels
  | pair (axesA axesB : List Ax)
deriving Repr

/-- `inner(a, b, axes, do_conj)` -/
def inner [Add α] [Mul α] [Zero α] (st : α → α) (a b : Arr α) (axes : InnerAxes) (doConj : Bool) :
    Except Err α := do
  if a.rank ≠ b.rank then throw .valueError
  let a' ← match axes with
    | .range => pure a
    | _ => do
      let (xa, xb) ← match axes with
        | .pair xa xb => pure (xa, xb)
        | _ =>
          if a.labels.contains none then throw .typeError     -- `_conj_leg_label(None)` / `.index(None)` games
          let la := a.labels.map (fun l => Ax.lbl (l.getD ""))
          if doConj then pure (la, la)
          else pure (la, a.labels.map (fun l => Ax.lbl (Label.conj (l.getD ""))))
      let ia ← a.getLegIndices xa
      let ib ← b.getLegIndices xb
      if ia.length ≠ a.rank ∨ ib.length ≠ b.rank then throw .valueError
      let ia := pick ia (argsortInt (ib.map Int.ofNat)) 0
      if ia ≠ List.range a.rank then a.itranspose (some (ia.map (fun i => Ax.idx (Int.ofNat i)))) else pure a
  if a'.mods ≠ b.mods then throw .valueError
  let ok := if doConj then legsEqual a'.lcs b.lcs
            else (List.zipWith Leg.testContractible a'.lcs b.lcs).all id
  if !ok then throw .valueError
  return innerWorker st a' b doConj

/-- `trace(a, leg1, leg2)` -/
def trace [Add α] [Zero α] (a : Arr α) (l1 l2 : Ax) : Except Err (Val α) := do
  let ax1 ← a.getLegIndex l1
  let ax2 ← a.getLegIndex l2
  if ax1 = ax2 then throw .valueError
  if !(a.lc ax1).testContractible (a.lc ax2) then throw .valueError
  if a.rank = 2 then
    return .scalar (Dense.sum ((a.qdata.zip a.data).map (fun rb =>
      if rb.1.getD 0 0 = rb.1.getD 1 0 then Dense.sum ((rb.2.trace 0 1).vals) else 0)))
  let keep := (List.range a.rank).filter (fun k => k ≠ ax1 ∧ k ≠ ax2)
  let res : Arr α ← zeros a.mods (pick a.legs keep default) (some a.qtotal) none
  -- dictionary `new row -> block` in insertion order
  let acc := (a.qdata.zip a.data).foldl (fun (acc : List (List Nat × Blk α)) rb =>
    if rb.1.getD ax1 0 ≠ rb.1.getD ax2 0 then acc
    else
      let row := pick rb.1 keep 0
      let t := rb.2.trace ax1 ax2
      if acc.any (fun e => e.1 == row) then acc.map (fun e => if e.1 == row then (e.1, Dense.add e.2 t) else e)
      else acc ++ [(row, t)]) []
  let res := if acc.isEmpty then res
             else { res with qdata := acc.map (·.1), data := acc.map (·.2), qdataSorted := false }
  return .arr { res with labels := pick a.labels keep none }

/-- `axes` argument of `tensordot` -/
inductive DotAxes where
  | int (k : Int)
  | pair (axesA axesB : List Ax)
deriving Repr

/-- `_tensordot_transpose_axes(a, b, axes)` → `(a', b', axes)`. Both kernels validate the axes and leave an
operand untouched when its permutation is the identity (the compiled version after
pending_fixes/C04-tensordot-axes-validation.diff; before, it transposed unconditionally and without validation).
The parameter `cy` is kept for the signature only. -/
def tensordotTransposeAxes [Zero α] (cy : Bool) (a b : Arr α) (axes : DotAxes) :
    Except Err (Arr α × Arr α × Nat) := do
  if a.mods ≠ b.mods then throw .valueError
  let (a', b', k) ← match axes with
    | .int k =>
      if k < 0 then throw .valueError else pure (a, b, k.toNat)
    | .pair xa xb => do
      let ia ← a.getLegIndices xa
      let ib ← b.getLegIndices xb
      if ia.length ≠ ib.length then throw .valueError
      let na := (List.range a.rank).filter (fun i => !ia.contains i)
      let nb := (List.range b.rank).filter (fun i => !ib.contains i)
      let pa := na ++ ia
      let pb := ib ++ nb
      if pa.length ≠ a.rank ∨ pa.eraseDups.length ≠ a.rank ∨ pb.length ≠ b.rank ∨ pb.eraseDups.length ≠ b.rank then
        throw .valueError
      let _ := cy
      let tr (x : Arr α) (p : List Nat) : Arr α :=
        if p = List.range x.rank then x else x.itransposeFast p
      pure (tr a pa, tr b pb, ia.length)
  if k > a'.rank ∨ k > b'.rank then throw .valueError
  let la := a'.lcs.drop (a'.rank - k)
  let lb := b'.lcs.take k
  if !(List.zipWith Leg.testContractible la lb).all id then throw .valueError
  return (a', b', k)

/-- `_partial_qtotal(chinfo, legs, qdata_row, qconj, add_qtotal)` for one row -/
def partialQtotal (mods : List Nat) (legs : List Leg) (row : List Nat) (qconj : Int) (add : Charge) : Charge :=
  makeValid mods (cadd (cscale qconj (csum mods.length (List.zipWith (fun l qi => l.getCharge qi) legs row))) add)

/-- group a sorted list of (keep-row, contr-key, block) by equal keep-rows (`_find_row_differences`) -/
def groupKeep (l : List (List Nat × Nat × Blk α)) : List (List Nat × List (Nat × Blk α)) :=
  groupRuns (l.map (fun x => (x.1, (x.2.1, x.2.2))))

/-- `_tensordot_worker(a, b, axes)` (both block lists non-empty, not both single) -/
def tensordotWorker [Add α] [Mul α] [Zero α] (a b : Arr α) (k : Nat) : Except Err (Arr α) := do
  let cutA := a.rank - k
  let contrBn := (a.lcs.drop cutA).map Leg.blockNumber
  -- `_tensordot_pre_worker`
  let aRows := (a.qdata.zip a.data).map (fun rb => (rb.1.take cutA, fKey contrBn (rb.1.drop cutA), rb.2))
  let aSort := lexsort (aRows.map (fun r => (Int.ofNat r.2.1) :: r.1.map Int.ofNat))
  let aRows := aSort.filterMap (fun i => aRows[i]?)
  let bRows := (b.qdata.zip b.data).map (fun rb => (rb.1.drop k, fKey contrBn (rb.1.take k), rb.2))
  let bRows := if b.qdataSorted then bRows
    else (lexsort (bRows.map (fun r => (Int.ofNat r.2.1) :: r.1.map Int.ofNat))).filterMap (fun i => bRows[i]?)
  let aGroups := groupKeep aRows
  let bGroups := groupKeep bRows
  let qtotal := makeValid a.mods (cadd a.qtotal b.qtotal)
  let aCharges := aGroups.map (fun g => partialQtotal a.mods (a.lcs.take cutA) g.1 1 (czero a.mods.length))
  let res : Arr α ← zeros a.mods (a.legs.take cutA ++ b.legs.drop k) (some qtotal) none
  let out := bGroups.flatMap (fun gb =>
    let cm := partialQtotal a.mods (b.lcs.drop k) gb.1 (-1) qtotal
    ((List.range aGroups.length).filter (fun i => aCharges.getD i [] == cm)).filterMap (fun i =>
      let ga := aGroups.getD i ([], [])
      match commonSorted ga.2 gb.2 with
      | [] => none
      | p :: ps =>
        some (ga.1 ++ gb.1, ps.foldl (fun (s : Blk α) (q : Blk α × Blk α) => Dense.add s (Dense.tensordot q.1 q.2 k))
          (Dense.tensordot p.1 p.2 k))))
  if out.isEmpty then return res
  return { res with qdata := out.map (·.1), data := out.map (·.2), qdataSorted := true }

/-- `tensordot(a, b, axes)` -/
def tensordot [Add α] [Mul α] [Zero α] (cy : Bool) (a b : Arr α) (axes : DotAxes) : Except Err (Val α) := do
  let (a, b, k) ← tensordotTransposeAxes cy a b axes
  let noBlock := a.storedBlocks = 0 ∨ b.storedBlocks = 0
  let oneBlock := a.storedBlocks = 1 ∧ b.storedBlocks = 1
  let labels := Label.dropDuplicate (a.labels.take (a.rank - k)) (b.labels.drop k)
  if k = a.rank ∧ k = b.rank then
    return .scalar (innerWorker id a b false)
  else if noBlock ∨ oneBlock then
    let cutA := a.rank - k
    let res : Arr α ← zeros a.mods (a.legs.take cutA ++ b.legs.drop k) (some (cadd a.qtotal b.qtotal)) none
    let res := if oneBlock ∧ (a.qdata.headD []).drop cutA = (b.qdata.headD []).take k then
        { res with data := [Dense.tensordot (a.data.headD ⟨[], []⟩) (b.data.headD ⟨[], []⟩) k],
                   qdata := [(a.qdata.headD []).take cutA ++ (b.qdata.headD []).drop k], qdataSorted := true }
      else res
    return .arr { res with labels }
  else if k = 0 then
    return .arr (← outer a b)
  else
    let res ← tensordotWorker a b k
    return .arr { res with labels }

/-! ### norm -/

/-- `norm(ord=0)`: number of non-zero stored entries -/
def norm0 [Zero α] [DecidableEq α] (a : Arr α) : Nat :=
  (a.data.map (fun b => b.vals.countP (fun x => x ≠ 0))).foldl (· + ·) 0

/-- `norm(ord=None)²` (Frobenius) with `absSq x = |x|²` -/
def normSq (absSq : α → Nat) (a : Arr α) : Nat :=
  (a.data.map (fun b => (b.vals.map absSq).foldl (· + ·) 0)).foldl (· + ·) 0

/-- `norm(ord=inf)²`: largest `|x|²` over the stored entries (0 without blocks) -/
def normInfSq (absSq : α → Nat) (a : Arr α) : Nat :=
  (a.data.map (fun b => (b.vals.map absSq).foldl max 0)).foldl max 0

end Arr
end TenpyModel.Core
