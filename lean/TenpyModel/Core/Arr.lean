import TenpyModel.Core.Pipe
import TenpyModel.Core.Dense
import TenpyModel.Core.ArrLabel
/-
Core model (no Mathlib): the block-sparse tensor `Array` of `tenpy/linalg/np_conserved.py`, as coded,
block by block. Part 1: types, `toDense`, construction, label/axis helpers, transposition, conjugation,
scaling, `isort_qdata`, the merge of `ibinary_blockwise` / `iadd_prefactor_other`.

A block is a dense tensor (`Blk α = Dense α`: shape + row-major values). Operations that can reject their
arguments return `Except Err _`, with `Err` = the class of the Python exception.

Kernel variants: a few *cached-claim* details (`_qdata_sorted` of operands / of `self` for a zero prefactor in
`iadd_prefactor_other`) differ between the compiled kernels of `_npc_helper.pyx` and the pure-Python fallbacks;
the function concerned takes `cy : Bool` (true = compiled). Values, legs, labels, total charge and the set of
stored blocks never depend on it.
-/
namespace TenpyModel.Core

inductive Err where
  | valueError | indexError | keyError | assertion | typeError | nameError
deriving Repr, DecidableEq, BEq

def Err.name : Err → String
  | .valueError => "ValueError" | .indexError => "IndexError" | .keyError => "KeyError"
  | .assertion => "Assertion" | .typeError => "TypeError" | .nameError => "Other:UnboundLocalError"

instance : Inhabited Leg := ⟨⟨[], [0, 1], [[]], 1, true, true⟩⟩

/-- a leg of a tensor: a plain `LegCharge`, or a `LegPipe` together with its (possibly nested) incoming legs -/
inductive ALeg where
  | plain (l : Leg)
  | pipe (p : Pipe) (subs : List ALeg)
deriving Repr

namespace ALeg

/-- the `LegCharge` view (a `LegPipe` *is a* `LegCharge`) -/
def leg : ALeg → Leg
  | plain l => l
  | pipe p _ => p.leg

def isPipe : ALeg → Bool
  | plain _ => false
  | pipe _ _ => true

/-- `LegCharge.conj` / `LegPipe.conj` (incoming legs conjugated recursively) -/
def conj : ALeg → ALeg
  | plain l => plain l.conj
  | pipe p subs => pipe p.conj (subs.map conj)

/-- `LegPipe.to_LegCharge` (identity on a `LegCharge`) -/
def toLegCharge (a : ALeg) : ALeg := plain a.leg

/-- `LegPipe(legs, qconj, sort, bunch)` -/
def mkPipe (subs : List ALeg) (qconj : Int) (sort bunch : Bool) : ALeg :=
  pipe (Pipe.init (subs.map leg) qconj sort bunch) subs

instance : Inhabited ALeg := ⟨plain default⟩

end ALeg

abbrev Blk (α : Type) := Dense α

/-- axis argument: integer index or label -/
inductive Ax where
  | idx (i : Int)
  | lbl (s : String)
deriving Repr, DecidableEq

structure Arr (α : Type) where
  mods        : List Nat               -- chinfo.mod
  legs        : List ALeg
  qtotal      : Charge
  labels      : List Label
  qdata       : List (List Nat)        -- `_qdata` rows, in stored order
  data        : List (Blk α)           -- `_data`, aligned with `qdata`
  qdataSorted : Bool                   -- `_qdata_sorted`
deriving Repr

def natRows (rows : List (List Nat)) : List (List Int) := rows.map (fun r => r.map Int.ofNat)

/-- `np.lexsort(qdata.T)` -/
def lexsortNat (rows : List (List Nat)) : List Nat := lexsort (natRows rows)

def isLexsorted (rows : List (List Nat)) : Bool := lexsortNat rows == List.range rows.length

/-- position of the block containing flat index `i` and the index within it -/
def Leg.locate (l : Leg) (i : Nat) : Nat × Nat :=
  let q := Leg.bisectRight l.slices i - 1
  (q, i - l.slices.getD q 0)

def blockShapeOf (legs : List Leg) (q : List Nat) : List Nat :=
  List.zipWith (fun l qi => l.blockSizes.getD qi 0) legs q

def blockStartOf (legs : List Leg) (q : List Nat) : List Nat :=
  List.zipWith (fun l qi => l.slices.getD qi 0) legs q

/-- `Array._get_block_charge(qindices)` -/
def blockChargeOf (mods : List Nat) (legs : List Leg) (q : List Nat) : Charge :=
  makeValid mods (csum mods.length (List.zipWith (fun l qi => l.getCharge qi) legs q))

def pick (l : List β) (idx : List Nat) (d : β) : List β := idx.map (fun i => l.getD i d)

namespace Arr
variable {α : Type}

def rank (a : Arr α) : Nat := a.legs.length
def lcs (a : Arr α) : List Leg := a.legs.map ALeg.leg
def shape (a : Arr α) : List Nat := a.lcs.map Leg.indLen
def lc (a : Arr α) (i : Nat) : Leg := (a.legs.getD i default).leg
def storedBlocks (a : Arr α) : Nat := a.data.length
def blockNumbers (a : Arr α) : List Nat := a.lcs.map Leg.blockNumber

/-- entry at a multi-index: 0 when the block is not stored (as `to_ndarray`: a later stored block wins) -/
def entry [Zero α] (a : Arr α) (idx : List Nat) : α :=
  let qw := List.zipWith (fun l i => l.locate i) a.lcs idx
  let q := qw.map (·.1)
  match (a.qdata.zip a.data).reverse.find? (fun rb => rb.1 == q) with
  | none => 0
  | some (_, b) => b.get 0 (qw.map (·.2))

/-- `Array.to_ndarray()` -/
def toDense [Zero α] (a : Arr α) : Dense α := Dense.ofFn a.shape a.entry

/-- same values as `toDense`, computed by writing the blocks into a zero array (used by the driver) -/
def toDenseFast [Zero α] (a : Arr α) : Dense α :=
  let shape := a.shape
  let strides := Dense.strides shape
  let arr0 : Array α := Array.replicate (Dense.prod shape) 0
  let arr := (a.qdata.zip a.data).foldl (fun (arr : Array α) (rb : List Nat × Blk α) =>
    let start := blockStartOf a.lcs rb.1
    let off := dot start strides
    (List.zip (Dense.allIdx rb.2.shape) rb.2.vals).foldl (fun (arr : Array α) (iv : List Nat × α) =>
      arr.setIfInBounds (off + dot iv.1 strides) iv.2) arr) arr0
  ⟨shape, arr.toList⟩

/-! ### labels and axes -/

/-- `Array.get_leg_index` (with `>=` for the upper bound, see pending_fixes/C01-get-leg-index.diff) -/
def getLegIndex (a : Arr α) : Ax → Except Err Nat
  | .lbl s =>
    let i := a.labels.idxOf (some s)
    if i < a.labels.length then .ok i else .error .keyError
  | .idx i =>
    let i' := if i < 0 then i + a.rank else i
    if i' ≥ a.rank ∨ i' < 0 then .error .valueError else .ok i'.toNat

def getLegIndices (a : Arr α) (axes : List Ax) : Except Err (List Nat) := axes.mapM a.getLegIndex

/-- `iset_leg_labels` -/
def isetLegLabels (a : Arr α) (labels : List Label) : Except Err (Arr α) :=
  if labels.length ≠ a.rank then .error .valueError
  else if !Label.validList labels then .error .valueError
  else .ok { a with labels := labels }

/-- `Array(legcharges, dtype, qtotal, labels)` = `zeros` -/
def zeros (mods : List Nat) (legs : List ALeg) (qtotal : Option Charge) (labels : Option (List Label)) :
    Except Err (Arr α) :=
  if legs.isEmpty then .error .valueError
  else if legs.any (fun l => l.leg.mods ≠ mods) then .error .valueError
  else
    let a : Arr α := { mods, legs, qtotal := makeValid mods (qtotal.getD (czero mods.length)),
                       labels := legs.map (fun _ => none), qdata := [], data := [], qdataSorted := true }
    match labels with
    | none => .ok a
    | some ls => a.isetLegLabels ls

/-- `_iter_all_blocks`: all block-index tuples, first leg fastest (= lexsorted order) -/
def iterAllBlocks (blockNumbers : List Nat) : List (List Nat) :=
  (gridC blockNumbers.reverse).map List.reverse

/-- the sub-tensor `d[slices of block q]` -/
def sliceBlock [Zero α] (d : Dense α) (legs : List Leg) (q : List Nat) : Blk α :=
  let start := blockStartOf legs q
  Dense.gather 0 d (blockShapeOf legs q) (fun idx => List.zipWith (· + ·) start idx)

/-- `Array.from_ndarray(data_flat, legcharges, dtype, qtotal, labels=labels)` with `qtotal` given -/
def fromNdarray [Zero α] [DecidableEq α] (mods : List Nat) (legs : List ALeg) (qtotal : Option Charge)
    (labels : Option (List Label)) (d : Dense α) : Except Err (Arr α) := do
  let res : Arr α ← zeros mods legs qtotal labels
  if res.shape ≠ d.shape then throw .valueError
  let lcs := res.lcs
  let qs := (iterAllBlocks res.blockNumbers).filter (fun q => blockChargeOf mods lcs q == res.qtotal)
  let r : Arr α := { res with qdata := qs, data := qs.map (sliceBlock d lcs), qdataSorted := true }
  -- entries outside the admissible blocks must vanish
  if List.zipWith (fun (x y : α) => decide (x = y)) d.vals r.toDenseFast.vals |>.all id then return r
  else throw .valueError

/-- `copy(deep=True)` (values are immutable in the model) -/
def copy (a : Arr α) : Arr α := a

/-- `zeros_like` -/
def zerosLike (a : Arr α) : Arr α := { a with qdata := [], data := [], qdataSorted := true }

/-! ### transposition -/

def permuteList (l : List β) (axes : List Nat) (d : β) : List β := axes.map (fun i => l.getD i d)

/-- the body of `itranspose` for a valid permutation `axes` (`Array_itranspose_fast`) -/
def itransposeFast [Zero α] (a : Arr α) (axes : List Nat) : Arr α :=
  { a with legs := permuteList a.legs axes default,
           labels := permuteList a.labels axes none,
           qdata := a.qdata.map (fun r => permuteList r axes 0),
           qdataSorted := false,
           data := a.data.map (fun b => b.transpose axes) }

/-- `Array.itranspose(axes)` -/
def itranspose [Zero α] (a : Arr α) (axes : Option (List Ax)) : Except Err (Arr α) :=
  match axes with
  | none => .ok (a.itransposeFast (List.range a.rank).reverse)
  | some axs => do
    let ax ← a.getLegIndices axs
    if ax.length ≠ a.rank ∨ ax.eraseDups.length ≠ a.rank then throw .valueError
    if ax = List.range a.rank then return a
    return a.itransposeFast ax

/-- `Array.transpose(axes)` -/
def transpose [Zero α] (a : Arr α) (axes : Option (List Ax)) : Except Err (Arr α) := a.copy.itranspose axes

def swapList (l : List β) (i j : Nat) (d : β) : List β := (l.set i (l.getD j d)).set j (l.getD i d)

/-- `Array.iswapaxes(axis1, axis2)` -/
def iswapaxes [Zero α] (a : Arr α) (x1 x2 : Ax) : Except Err (Arr α) := do
  let i ← a.getLegIndex x1
  let j ← a.getLegIndex x2
  if i = j then return a
  let swap := swapList (List.range a.rank) i j 0
  return { a with legs := swapList a.legs i j default, labels := swapList a.labels i j none,
                  qdata := a.qdata.map (fun r => permuteList r swap 0), qdataSorted := false,
                  data := a.data.map (fun b => b.transpose swap) }

/-! ### block-wise unary operations -/

/-- `iunary_blockwise(func)` -/
def iunaryBlockwise (f : α → α) (a : Arr α) : Arr α := { a with data := a.data.map (Dense.map f) }

/-- `Array.conj(complex_conj=True)`; `st` = complex conjugation of the scalars -/
def conj (st : α → α) (a : Arr α) : Arr α :=
  { (a.iunaryBlockwise st) with qtotal := makeValid a.mods (cneg a.qtotal),
                                 legs := a.legs.map ALeg.conj,
                                 labels := a.labels.map Label.conjOpt }

/-- `complex_conj()`: data only -/
def complexConj (st : α → α) (a : Arr α) : Arr α := a.iunaryBlockwise st

/-- `-a` -/
def neg [Neg α] (a : Arr α) : Arr α := a.iunaryBlockwise (fun x => -x)

/-- `iscale_prefactor(prefactor)` (also `a * s`, `s * a`): prefactor 0 drops all blocks -/
def iscalePrefactor [Mul α] [Zero α] [DecidableEq α] (a : Arr α) (s : α) : Arr α :=
  if s = 0 then { a with qdata := [], data := [], qdataSorted := true }
  else a.iunaryBlockwise (fun x => x * s)

/-- `isort_qdata()` -/
def isortQdata (a : Arr α) : Arr α :=
  if a.qdataSorted then a
  else if a.qdata.length < 2 then { a with qdataSorted := true }
  else
    let perm := lexsortNat a.qdata
    { a with qdata := pick a.qdata perm [], data := pick a.data perm ⟨[], []⟩, qdataSorted := true }

/-! ### binary block-wise operations: the merge of two lexsorted block lists -/

/-- `LegCharge.test_equal` for all legs (`chinfo` mismatch and unequal legs are both `ValueError`s) -/
def legsEqual (xs ys : List Leg) : Bool := (List.zipWith Leg.testEqual xs ys).all id

/-- `_transpose_same_labels(other_labels)`; second component: whether a transposed copy was made -/
def transposeSameLabels [Zero α] (a : Arr α) (other : List Label) : Arr α × Bool :=
  if a.labels = other then (a, false)
  else if a.labels.contains none ∨ other.contains none then (a, false)
  else if a.labels.all (other.contains ·) ∧ other.all (a.labels.contains ·) then
    match a.transpose (some (other.map (fun l => Ax.lbl (l.getD "")))) with
    | .ok t => (t, true)
    | .error _ => (a, false)
  else (a, false)

/-- F-style key of a block-index row (`np.sum(qdata * stride, axis=1)`) -/
def fKey (blockNumbers : List Nat) (row : List Nat) : Nat := dot row (makeStrideF blockNumbers)

/-- the `while i < Na or j < Nb` loop of `ibinary_blockwise`: inputs are (key, row, block) triples -/
def mergeGo [Zero α] (f : α → α → α) :
    List (Nat × List Nat × Blk α) → List (Nat × List Nat × Blk α) → List (List Nat × Blk α)
  | [], [] => []
  | [], b :: bs => (b.2.1, b.2.2.map (f 0)) :: mergeGo f [] bs
  | a :: as, [] => (a.2.1, a.2.2.map (fun x => f x 0)) :: mergeGo f as []
  | a :: as, b :: bs =>
    if a.1 = b.1 then (a.2.1, Dense.zipWith f a.2.2 b.2.2) :: mergeGo f as bs
    else if a.1 > b.1 then (b.2.1, b.2.2.map (f 0)) :: mergeGo f (a :: as) bs
    else (a.2.1, a.2.2.map (fun x => f x 0)) :: mergeGo f as (b :: bs)
termination_by as bs => as.length + bs.length

/-- the data part of `ibinary_blockwise` after both block lists have been sorted -/
def mergeBlocks [Zero α] (f : α → α → α) (blockNumbers : List Nat) (aq : List (List Nat)) (ad : List (Blk α))
    (bq : List (List Nat)) (bd : List (Blk α)) : List (List Nat) × List (Blk α) :=
  if aq = bq then (aq, List.zipWith (Dense.zipWith f) ad bd)
  else
    let ka := (aq.zip ad).map (fun rb => (fKey blockNumbers rb.1, rb.1, rb.2))
    let kb := (bq.zip bd).map (fun rb => (fKey blockNumbers rb.1, rb.1, rb.2))
    let m := mergeGo f ka kb
    (m.map (·.1), m.map (·.2))

/-- argument checks shared by `ibinary_blockwise` and `iadd_prefactor_other` -/
def binaryCheck (a b : Arr α) : Except Err Unit :=
  if a.rank ≠ b.rank then .error .valueError
  else if !legsEqual a.lcs b.lcs then .error .valueError
  else if a.qtotal ≠ b.qtotal then .error .valueError
  else .ok ()

/-- `self.ibinary_blockwise(func, other)` for `func` with `func(0,0) = 0`.
Returns the new `self` and the new state of the operand `other` (which is lexsorted in place unless a
transposed copy had to be made). -/
def ibinaryBlockwise [Zero α] (f : α → α → α) (a b : Arr α) : Except Err (Arr α × Arr α) := do
  let (b1, transposed) := b.transposeSameLabels a.labels
  binaryCheck a b1
  let a1 := a.isortQdata
  let b2 := b1.isortQdata
  let (q, d) := mergeBlocks f a.blockNumbers a1.qdata a1.data b2.qdata b2.data
  return ({ a1 with qdata := q, data := d }, if transposed then b else b2)

/-- `self.iadd_prefactor_other(prefactor, other)`; `cy` selects the kernel variant (see file header):
* Python: `self.ibinary_blockwise(np.add, other * prefactor)` — the operand `other` is never touched, and a
  zero prefactor still lexsorts `self`;
* compiled: `other` is lexsorted in place (unless transposed), a zero prefactor returns `self` untouched.
(The compiled kernel is modelled with the transposition of `other` *before* the argument checks and the
sorting, see pending_fixes/C04-iadd-transpose-order.diff.) -/
def iaddPrefactorOther [Add α] [Mul α] [Zero α] [DecidableEq α] (cy : Bool) (a : Arr α) (p : α) (b : Arr α) :
    Except Err (Arr α × Arr α) := do
  if cy then
    let (b1, transposed) := b.transposeSameLabels a.labels
    binaryCheck a b1
    if p = 0 then return (a, b)
    let a1 := a.isortQdata
    let b2 := b1.isortQdata
    let (q, d) := mergeBlocks (fun x y => x + y * p) a.blockNumbers a1.qdata a1.data b2.qdata b2.data
    return ({ a1 with qdata := q, data := d }, if transposed then b else b2)
  else
    let r ← ibinaryBlockwise (· + ·) a (b.copy.iscalePrefactor p)
    return (r.1, b)

end Arr
end TenpyModel.Core
