import TenpyModel.Core.Arr
/-
Core model, part 2: slicing, trivial legs, squeeze, axis scaling, projection, permutation, charge gauging,
`combine_legs` / `split_legs` (+ workers), `sort_legcharge`, `concatenate` — as coded in
`tenpy/linalg/np_conserved.py` (block order of `_qdata`, flag updates, special-case branches).
-/
namespace TenpyModel.Core

def csub (a b : Charge) : Charge := cadd a (cneg b)

namespace Dense
variable {α : Type}

/-- `d[sl]` with integer entries `vals` at the axes `ax` (those axes disappear) -/
def fixAxes [Zero α] (d : Dense α) (ax vals : List Nat) : Dense α :=
  let keep := (List.range d.rank).filter (fun k => !ax.contains k)
  gather 0 d (keep.map (fun k => d.shape.getD k 0)) (fun idx =>
    (List.range d.rank).map (fun k => if ax.contains k then vals.getD (ax.idxOf k) 0 else idx.getD (keep.idxOf k) 0))

/-- `d[start : start + src.shape] = src` -/
def setBlock [Zero α] (d : Dense α) (start : List Nat) (src : Dense α) : Dense α :=
  let sa := src.vals.toArray
  ⟨d.shape, List.zipWith (fun idx v =>
      if (List.zipWith (fun (p : Nat × Nat) n => decide (p.1 ≤ p.2 ∧ p.2 < p.1 + n)) (start.zip idx) src.shape).all id
        && idx.length == start.length
      then sa.getD (flatIdx src.shape (List.zipWith (fun i s => i - s) idx start)) v else v)
    (allIdx d.shape) d.vals⟩

/-- `d[start : start + shape]` -/
def getBlock [Zero α] (d : Dense α) (start shape : List Nat) : Dense α :=
  gather 0 d shape (fun idx => List.zipWith (· + ·) start idx)

/-- `d[…, k, …] = src` along `axis` (`src` has the axis removed) -/
def setAlong [Zero α] (d : Dense α) (axis k : Nat) (src : Dense α) : Dense α :=
  let sa := src.vals.toArray
  ⟨d.shape, List.zipWith (fun idx v =>
      if idx.getD axis 0 = k then sa.getD (flatIdx src.shape (removeAt idx axis)) v else v)
    (allIdx d.shape) d.vals⟩

end Dense

/-- result of an operation that may return a tensor or a scalar -/
inductive Val (α : Type) where
  | arr (a : Arr α)
  | scalar (x : α)
deriving Repr

namespace Arr
variable {α : Type}

def qindexOf (l : Leg) (i : Int) : Except Err (Nat × Nat) :=
  match l.getQindex i with
  | some p => .ok p
  | none => .error .indexError

/-- `Array.take_slice(indices, axes)` -/
def takeSlice [Zero α] (a : Arr α) (indices : List Int) (axes : List Ax) : Except Err (Arr α) := do
  let ax ← a.getLegIndices axes
  if ax.length ≠ indices.length then throw .valueError
  if ax.isEmpty then return a
  let pos ← (ax.zip indices).mapM (fun xi => qindexOf (a.lc xi.1) xi.2)
  let keep := (List.range a.rank).filter (fun x => !ax.contains x)
  if keep.isEmpty then throw .valueError            -- `_set_shape`: no rank-0 tensors
  let qtotal := makeValid a.mods
    ((ax.zip pos).foldl (fun q xp => csub q ((a.lc xp.1).getCharge xp.2.1)) a.qtotal)
  let rows := (a.qdata.zip a.data).filter (fun rb => (ax.zip pos).all (fun xp => rb.1.getD xp.1 0 == xp.2.1))
  return { a with legs := pick a.legs keep default, labels := pick a.labels keep none, qtotal,
                  qdata := rows.map (fun rb => pick rb.1 keep 0),
                  data := rows.map (fun rb => rb.2.fixAxes ax (pos.map (·.2))) }

/-- Python `list.insert` position for index `i` on a list of length `n` -/
def insertPos (n : Nat) (i : Int) : Nat :=
  if i < 0 then (if i + n < 0 then 0 else (i + n).toNat) else (if i > n then n else i.toNat)

/-- `Array.add_trivial_leg(axis, label, qconj)` -/
def addTrivialLeg (a : Arr α) (axis : Int) (label : Label) (qconj : Int) : Except Err (Arr α) :=
  let ax := if axis < 0 then axis + a.rank else axis
  let pos := insertPos a.rank ax
  let leg := Leg.fromQflat a.mods [czero a.mods.length] qconj
  if label.isSome ∧ a.labels.contains label then .error .valueError
  else .ok { a with legs := Dense.insertAt a.legs pos (.plain leg),
                    labels := Dense.insertAt a.labels pos label,
                    data := a.data.map (fun b => b.expandDims pos),
                    qdata := a.qdata.map (fun r => Dense.insertAt r pos 0) }

/-- basic `__getitem__` with integers only -/
def getItemInt [Zero α] (a : Arr α) (inds : List Int) : Except Err α := do
  if inds.length > a.rank then throw .indexError                      -- `_pre_indexing`: too many indices
  let pos ← (a.lcs.zip inds).mapM (fun li => qindexOf li.1 li.2)
  let q := pos.map (·.1)
  if blockChargeOf a.mods a.lcs q ≠ a.qtotal then return 0          -- IndexError of get_block is caught
  match (a.qdata.zip a.data).find? (fun rb => rb.1 == q) with
  | none => return 0
  | some (_, b) => return b.get 0 (pos.map (·.2))

/-- `Array.squeeze(axes)` -/
def squeeze [Zero α] (a : Arr α) (axes : Option (List Ax)) : Except Err (Val α) := do
  let ax ← match axes with
    | none => pure ((List.range a.rank).filter (fun k => a.shape.getD k 0 == 1))
    | some xs => a.getLegIndices xs
  if ax.any (fun k => a.shape.getD k 0 ≠ 1) then throw .valueError
  let keep := (List.range a.rank).filter (fun x => !ax.contains x)
  if keep.isEmpty then
    return .scalar (← a.getItemInt (List.replicate a.rank 0))
  if ax.eraseDups.length ≠ ax.length then throw .valueError          -- np.squeeze: duplicate axis
  let qtotal := makeValid a.mods (ax.foldl (fun q k => csub q ((a.lc k).getCharge 0)) a.qtotal)
  let r ← ({ a with legs := pick a.legs keep default, qtotal } : Arr α).isetLegLabels (pick a.labels keep none)
  return .arr { r with data := a.data.map (fun b => b.squeeze ax), qdata := a.qdata.map (fun r => pick r keep 0) }

/-- `Array.iscale_axis(s, axis)` -/
def iscaleAxis [Mul α] [Zero α] (a : Arr α) (s : List α) (axis : Ax) : Except Err (Arr α) := do
  let k ← a.getLegIndex axis
  if s.length ≠ a.shape.getD k 0 then throw .valueError
  let l := a.lc k
  return { a with data := List.zipWith (fun r b =>
      let qi := r.getD k 0
      b.scaleAxis ((s.drop (l.slices.getD qi 0)).take (l.blockSizes.getD qi 0)) k) a.qdata a.data }

/-- a mask argument of `iproject`: booleans, or integer indices (`np.put(mask, m, True)`) -/
inductive Mask where
  | bools (m : List Bool)
  | ints (m : List Int)
deriving Repr

def Mask.toBools (n : Nat) : Mask → Except Err (List Bool)
  | .bools m => .ok m
  | .ints m =>
    if m.any (fun (i : Int) => i ≥ (n : Int) ∨ i < -(n : Int)) then .error .indexError
    else
      let pos := m.map (fun (i : Int) => if i < 0 then (i + (n : Int)).toNat else i.toNat)
      .ok ((List.range n).map (fun i => pos.contains i))

/-- one step of the loop in `iproject`: project leg `k` with `mask`, remap/drop `_qdata` rows.
State: legs, rows = (qdata row, original data index). -/
def iprojectStep (st : List ALeg × List (List Nat × Nat)) (mk : List Bool × Nat) :
    (List ALeg × List (List Nat × Nat)) × List (List Bool) :=
  let (legs, rows) := st
  let (mask, k) := mk
  let (mapQ, bm, leg') := (legs.getD k default).leg.project mask
  let rows' := rows.filterMap (fun ri =>
    let q := mapQ.getD (ri.1.getD k 0) (-1)
    if q < 0 then none else some (ri.1.set k q.toNat, ri.2))
  ((legs.set k (.plain leg'), rows'), bm)

/-- `Array.iproject(mask, axes)` (returns the projected tensor; `map_qind`/`block_masks` are those of
`Leg.project`) -/
def iproject [Zero α] (a : Arr α) (masks : List Mask) (axes : List Ax) : Except Err (Arr α) := do
  let ax ← a.getLegIndices axes
  if ax.length ≠ masks.length then throw .valueError
  if ax.isEmpty then return a
  let bmasks ← (masks.zip ax).mapM (fun mk => mk.1.toBools (a.shape.getD mk.2 0))
  if (bmasks.zip ax).any (fun mk => mk.1.length ≠ a.shape.getD mk.2 0) then throw .indexError
  let init : List ALeg × List (List Nat × Nat) := (a.legs, a.qdata.zip (List.range a.qdata.length))
  let (st, bms) := (bmasks.zip ax).foldl (fun (acc : (List ALeg × List (List Nat × Nat)) × List (List (List Bool))) mk =>
      let (st', bm) := iprojectStep acc.1 mk
      (st', acc.2 ++ [bm])) (init, [])
  let data := st.2.map (fun ri =>
    (bms.zip ax).foldl (fun (b : Blk α) mk => b.compress mk.2 (mk.1.getD (ri.1.getD mk.2 0) [])) (a.data.getD ri.2 ⟨[], []⟩))
  return { a with legs := st.1, qdata := st.2.map (·.1), data }

/-- `Array.permute(perm, axis)` -/
def permute [Zero α] (a : Arr α) (perm : List Nat) (axis : Ax) : Except Err (Arr α) := do
  let k ← a.getLegIndex axis
  let old := a.lc k
  if perm.length ≠ old.indLen then throw .valueError
  let inv := inversePerm perm
  let newleg := (Leg.fromQflat a.mods (pick old.toQflat perm []) old.qconj).bunch.2
  let lcs' := a.lcs.set k newleg
  -- loop order: old qindex, then data index (ascending), then flat index inside the old block
  let jobs : List (Nat × Nat × Nat) := (List.range old.blockNumber).flatMap (fun oq =>
    let beg := old.slices.getD oq 0
    let en := old.slices.getD (oq + 1) 0
    ((List.range a.qdata.length).filter (fun di => (a.qdata.getD di []).getD k 0 == oq)).flatMap (fun di =>
      (List.range (en - beg)).map (fun w => (di, beg + w, w))))
  let res : List (List Nat × Blk α) := jobs.foldl (fun (acc : List (List Nat × Blk α)) job =>
    let (di, iold, w) := job
    let oldrow := a.qdata.getD di []
    let oldblk := a.data.getD di ⟨[], []⟩
    let (qn, wn) := newleg.locate (inv.getD iold 0)
    let row := oldrow.set k qn
    let acc := if acc.any (fun rb => rb.1 == row) then acc
               else acc ++ [(row, Dense.zeros (blockShapeOf lcs' row))]
    acc.map (fun rb => if rb.1 == row then (rb.1, rb.2.setAlong k wn (oldblk.take k w)) else rb)) []
  return { a with legs := a.legs.set k (.plain newleg), qdata := res.map (·.1), data := res.map (·.2),
                  qdataSorted := false }

/-- `Array.gauge_total_charge(axis, newqtotal, new_qconj)` -/
def gaugeTotalCharge (a : Arr α) (axis : Ax) (newq : Option Charge) (newQconj : Option Int) :
    Except Err (Arr α) := do
  let k ← a.getLegIndex axis
  let l := a.lc k
  let nq := newQconj.getD l.qconj
  if nq ≠ 1 ∧ nq ≠ -1 then throw .valueError
  let newqtotal := makeValid a.mods (newq.getD (czero a.mods.length))
  let chdiff := csub newqtotal a.qtotal
  let ch := l.charges.map (fun c =>
    let c1 := cadd c (cscale l.qconj chdiff)
    makeValid a.mods (if l.qconj ≠ nq then cneg c1 else c1))
  return { a with qtotal := newqtotal, legs := a.legs.set k (.plain (Leg.fromQind a.mods l.slices ch nq)) }

/-! ### combine_legs -/

/-- `_combine_legs_make_pipes` -/
def combineMakePipes (a : Arr α) (cl : List (List Ax)) (pipes : Option (List (Option ALeg)))
    (qconj : List (Option Int)) : Except Err (List ALeg) := do
  let n := cl.length
  let pipes := pipes.getD (List.replicate n none)
  if pipes.length ≠ n then throw .valueError
  let qc := if qconj.length = 1 ∧ 1 < n then List.replicate n (qconj.headD none) else qconj
  if qc.length ≠ n then throw .valueError
  (List.range n).mapM (fun i => do
    let axs := cl.getD i []
    match pipes.getD i none with
    | none =>
      let q ← match qc.getD i none with
        | some q => pure q
        | none => match axs with
          | [] => throw .indexError
          | x :: _ => do pure (a.lc (← a.getLegIndex x)).qconj
      let idx ← a.getLegIndices axs
      pure (ALeg.mkPipe (pick a.legs idx default) q true true)
    | some p =>
      let idx ← a.getLegIndices axs
      match p with
      | .plain _ => throw .typeError
      | .pipe pp subs =>
        if subs.length ≠ idx.length then throw .valueError
        let p' := if (a.lc (idx.headD 0)).qconj ≠ (pp.legs.headD default).qconj then p.conj else p
        let pl := match p' with | .pipe q _ => q.legs | .plain _ => []
        if !legsEqual (idx.map a.lc) pl then throw .valueError
        pure p')

/-- stable argsort of integers -/
def argsortInt (l : List Int) : List Nat := lexsort (l.map (fun x => [x]))

/-- `_combine_legs_new_axes` → `(new_axes, transp)` -/
def combineNewAxes (rank : Nat) (cl : List (List Nat)) (newAxes : Option (List Int)) :
    Except Err (List Nat × List Nat) := do
  let all := cl.flatten
  let nonComb := (List.range rank).filter (fun x => !all.contains x)
  let na ← match newAxes with
    | none =>
      let first := cl.map (fun c => c.headD 0)
      pure (first.map (fun x => (nonComb.filter (· < x)).length + (first.filter (· < x)).length))
    | some nas =>
      if nas.length ≠ cl.length then throw .valueError
      let newRank : Int := cl.length + nonComb.length
      nas.mapM (fun x =>
        if x < 0 then (if x + newRank < 0 then throw .valueError else pure (x + newRank).toNat)
        else if x ≥ newRank then throw .valueError else pure x.toNat)
  let order := argsortInt (na.map Int.ofNat)
  let transp := order.foldl (fun (t : List (List Nat)) s =>
    Dense.insertAt t (insertPos t.length (na.getD s 0)) (cl.getD s [])) (nonComb.map (fun x => [x]))
  return (na, transp.flatten)

/-- one source block in `_combine_legs_worker`: new `_qdata` row, where it starts in the new block, and its
shape seen from the new block -/
def combineRow (lcs : List Leg) (resRank : Nat) (cl : List (List Nat)) (nonComb newAxes nonNew : List Nat)
    (pipes : List Pipe) (q : List Nat) : List Nat × List Nat × List Nat :=
  let inds := List.zipWith (fun (p : Pipe) c => p.qMap.getD (p.mapIncomingQind (pick q c 0)) []) pipes cl
  let sel (k : Nat) (fp : List Nat → Nat) (fn : Nat → Nat) : Nat :=
    if newAxes.contains k then fp (inds.getD (newAxes.idxOf k) [])
    else fn (nonComb.getD (nonNew.idxOf k) 0)
  let row := (List.range resRank).map (fun k => sel k (fun r => r.getD 2 0) (fun x => q.getD x 0))
  let start := (List.range resRank).map (fun k => sel k (fun r => r.getD 0 0) (fun _ => 0))
  let shape := (List.range resRank).map (fun k =>
    sel k (fun r => r.getD 1 0 - r.getD 0 0) (fun x => (lcs.getD x default).blockSizes.getD (q.getD x 0) 0))
  (row, start, shape)

/-- group consecutive equal keys -/
def groupRuns [DecidableEq κ] : List (κ × β) → List (κ × List β)
  | [] => []
  | (k, v) :: rest =>
    match groupRuns rest with
    | (k', vs) :: gs => if k = k' then (k, v :: vs) :: gs else (k, [v]) :: (k', vs) :: gs
    | [] => [(k, [v])]

/-- `combine_legs` in standard form (arguments normalised, no transposition needed): the new tensor -/
def combineStd [Zero α] (a : Arr α) (cl : List (List Nat)) (newAxes : List Nat) (pipes : List ALeg)
    (labels : List String) : Except Err (Arr α) := do
  let all := cl.flatten
  let nonComb := (List.range a.rank).filter (fun x => !all.contains x)
  let legs := (newAxes.zip pipes).foldl (fun (ls : List ALeg) np => Dense.insertAt ls (insertPos ls.length np.1) np.2)
    (pick a.legs nonComb default)
  let nonNew := (List.range legs.length).filter (fun i => !newAxes.contains i)
  let pipeLabels := cl.map (fun c => Label.combine (pick labels c ""))
  -- `labels[na : na + p.nlegs] = [plab]`
  let labs := ((newAxes.zip pipes).zip pipeLabels).foldl (fun (ls : List String) npl =>
    let na := npl.1.1
    let nl := match npl.1.2 with | .pipe p _ => p.nlegs | .plain _ => 1
    ls.take na ++ npl.2 :: ls.drop (na + nl)) labels
  -- non-combined legs inherit their label: the '?#' placeholders only serve the pipe labels
  -- (see pending_fixes/C01-combine-legs-anonymous-labels.diff)
  let labs' : List Label := (List.range labs.length).map (fun i =>
    let s := labs.getD i ""
    if nonNew.contains i ∧ s.toList.head? = some '?' then none else some s)
  let res : Arr α ← zeros a.mods legs (some a.qtotal) (some labs')
  let ps := pipes.filterMap (fun p => match p with | .pipe q _ => some q | .plain _ => none)
  let lcsRes := res.lcs
  if a.storedBlocks = 0 then return res
  let rows := (a.qdata.zip a.data).map (fun rb =>
    (combineRow a.lcs res.rank cl nonComb newAxes nonNew ps rb.1, rb.2))
  if a.storedBlocks = 1 then
    -- `stored_blocks == 1` branch
    match rows with
    | [((row, start, shape), blk)] =>
      return { res with qdata := [row], qdataSorted := true,
                        data := [(Dense.zeros (blockShapeOf lcsRes row)).setBlock start (blk.reshape shape)] }
    | _ => return res
  else
    -- `_combine_legs_worker`
    let perm := lexsortNat (rows.map (·.1.1))
    let sorted := pick rows perm (([], [], []), ⟨[], []⟩)
    let groups := groupRuns (sorted.map (fun r => (r.1.1, (r.1.2.1, r.1.2.2, r.2))))
    return { res with qdata := groups.map (·.1), qdataSorted := true,
                      data := groups.map (fun g => g.2.foldl (fun (nb : Blk α) s =>
                        nb.setBlock s.1 (s.2.2.reshape s.2.1)) (Dense.zeros (blockShapeOf lcsRes g.1))) }

/-- `Array.combine_legs(combine_legs, new_axes, pipes, qconj)`; `cl` already in list-of-lists form -/
def combineLegs [Zero α] (a : Arr α) (cl : List (List Ax)) (newAxes : Option (List Int))
    (pipes : Option (List (Option ALeg))) (qconj : List (Option Int)) : Except Err (Arr α) := do
  if cl.isEmpty then throw .indexError                                  -- `combine_legs[0]`
  let ps ← a.combineMakePipes cl pipes qconj
  let cli ← cl.mapM a.getLegIndices
  let all := cli.flatten
  if all.eraseDups.length ≠ all.length then throw .valueError
  let (na, transp) ← combineNewAxes a.rank cli newAxes
  let order := argsortInt (na.map Int.ofNat)
  let cli := pick cli order []
  let ps := pick ps order default
  let na := pick na order 0
  let labels := (List.range a.rank).map (fun i => match a.labels.getD i none with
    | some l => l
    | none => "?" ++ toString i)
  if transp ≠ List.range a.rank then
    let r ← a.isetLegLabels (labels.map some)
    let r ← r.itranspose (some (transp.map (fun i => Ax.idx (Int.ofNat i))))
    let inv := inversePerm transp
    let cl' := cli.map (fun c => c.map (fun x => inv.getD x 0))
    -- the recursive call is in standard form (its `transp` is the identity)
    r.combineStd cl' na ps (r.labels.map (fun l => l.getD ""))
  else a.combineStd cli na ps labels

end Arr
end TenpyModel.Core
