/-
Core model (import-free): label bookkeeping of `tenpy/linalg/np_conserved.py`, as coded:
`Array._combine_leg_labels`, `Array._split_leg_label`, `Array._conj_leg_label`, `_drop_duplicate_labels`,
`Array.iset_leg_labels` (argument check), `Array.get_leg_index`.

Labels are `Option String` in the tensor model; the string algorithms are written over `List Char`
(`…Chars`) so that they can be reasoned about, with thin `String` wrappers.
-/
namespace TenpyModel.Core

abbrev Label := Option String

namespace Label

/-- `'.'.join(labels)` -/
def joinDots : List (List Char) → List Char
  | [] => []
  | [p] => p
  | p :: q :: r => p ++ '.' :: joinDots (q :: r)

/-- `'(' + '.'.join(labels) + ')'` -/
def combineChars (ls : List (List Char)) : List Char := '(' :: (joinDots ls ++ [')'])

/-- the loop of `_split_leg_label` over the characters strictly between the outer parentheses:
`depth` = number of unclosed '(' to the left (may go negative, as in the code), `cur` = characters of the
current piece in reverse. -/
def splitTop (depth : Int) (cur : List Char) : List Char → List (List Char)
  | [] => [cur.reverse]
  | c :: cs =>
    if c = '(' then splitTop (depth + 1) (c :: cur) cs
    else if c = ')' then splitTop (depth - 1) (c :: cur) cs
    else if c = '.' ∧ depth = 0 then cur.reverse :: splitTop 0 [] cs
    else splitTop depth (c :: cur) cs

/-- outcome of `_split_leg_label` -/
inductive SplitRes where
  | ok (ls : List (Option (List Char)))
  | valueError            -- wrong number of pieces
  | indexError            -- an empty piece (`res[i][0]`), or the empty label (`label[0]`)
  | nameError             -- label "()" : loop variable `i` unbound
deriving Repr, DecidableEq

/-- `Array._split_leg_label(label, count)` -/
def splitChars (label : Option (List Char)) (count : Nat) : SplitRes :=
  match label with
  | none => .ok (List.replicate count none)
  | some l =>
    match l with
    | [] => .indexError
    | c0 :: _ =>
      if c0 ≠ '(' ∨ l.getLast? ≠ some ')' then .ok (List.replicate count none)   -- (warning)
      else if l.length ≤ 2 then (if l.length = 1 then .ok (List.replicate count none) else .nameError)
      else
        let inner := (l.drop 1).dropLast
        let pieces := splitTop 0 [] inner
        if pieces.length ≠ count then .valueError
        else if pieces.any (·.isEmpty) then .indexError
        else .ok (pieces.map (fun p => if p.head? = some '?' then none else some p))

/-- first pass of `_conj_leg_label`: put a '*' in front of every `.`/`)` that does not follow a `)`.
`prev` = previous character (`none` at the start: the loop starts at `i = 1`). -/
def conjInsert (prev : Option Char) : List Char → List Char
  | [] => []
  | c :: cs =>
    (match prev with
     | some p => if p ≠ ')' ∧ (c = '.' ∨ c = ')') then ['*', c] else [c]
     | none => [c]) ++ conjInsert (some c) cs

/-- `str.replace('**', '')` (left to right, non-overlapping) -/
def removeStarStar : List Char → List Char
  | '*' :: '*' :: rest => removeStarStar rest
  | c :: rest => c :: removeStarStar rest
  | [] => []

/-- `Array._conj_leg_label(label)` for a non-empty label -/
def conjChars (l : List Char) : List Char :=
  let s := conjInsert none l
  let s := if s.getLast? ≠ some ')' then s ++ ['*'] else s
  removeStarStar s

def conj (s : String) : String := String.ofList (conjChars s.toList)

def conjOpt : Label → Label
  | none => none
  | some s => some (conj s)

def combine (ls : List String) : String := String.ofList (combineChars (ls.map String.toList))

/-- `_drop_duplicate_labels(a_labels, b_labels)` (generic in the label type) -/
def dropDupGo [DecidableEq β] : List (Option β) → List (Option β) → List (Option β) × List (Option β)
  | [], b => ([], b)
  | l :: as, b =>
    if b.contains l then
      let r := dropDupGo as (b.set (b.idxOf l) none)
      (none :: r.1, r.2)
    else
      let r := dropDupGo as b
      (l :: r.1, r.2)

def dropDuplicate [DecidableEq β] (a b : List (Option β)) : List (Option β) :=
  let r := dropDupGo a b
  r.1 ++ r.2

/-- the check of `iset_leg_labels` (without the length test): `some ""` is rejected, and a label
occurring again later in the list is rejected. `true` = accepted. -/
def validList : List Label → Bool
  | [] => true
  | none :: rest => validList rest
  | some s :: rest => s ≠ "" && !rest.contains (some s) && validList rest

end Label
end TenpyModel.Core
