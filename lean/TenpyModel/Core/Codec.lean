import TenpyModel.Util.J
import TenpyModel.Core.Pipe
/-! JSON codec for the core model types (drivers only). -/
namespace TenpyModel.Core.Codec
open Lean TenpyModel.J TenpyModel.Core

def chargeList (j : Json) : Except String (List Charge) := listOf intList j

def legOfJson (j : Json) : Except String Leg := do
  return { mods := ← natList (← field j "mods"), slices := ← natList (← field j "slices"),
           charges := ← chargeList (← field j "charges"), qconj := ← getInt (← field j "qconj"),
           sorted := ← getBool (← field j "sorted"), bunched := ← getBool (← field j "bunched") }

def ofCharges (cs : List Charge) : Json := ofList ofIntList cs

def legToJson (l : Leg) : Json :=
  obj [("mods", ofNatList l.mods), ("slices", ofNatList l.slices), ("charges", ofCharges l.charges),
       ("qconj", Json.num (JsonNumber.fromInt l.qconj)), ("sorted", l.sorted), ("bunched", l.bunched)]

def optNatList : Option (List Nat) → Json
  | none => Json.null
  | some l => ofNatList l

def pipeToJson (p : Pipe) : Json :=
  obj [("leg", legToJson p.leg), ("legs", ofList legToJson p.legs), ("q_map", ofList ofNatList p.qMap),
       ("q_map_slices", ofNatList p.qMapSlices), ("perm", optNatList p.perm), ("strides", ofNatList p.strides)]

def optNat : Option Nat → Json
  | none => Json.null
  | some n => Json.num (JsonNumber.fromNat n)

end TenpyModel.Core.Codec
