import TenpyModel.Core.ArrDot
/-!
Well-formedness of the tensor model (decidable): what `Array.test_sanity` checks about the storage scheme, plus
uniqueness of the stored block rows and truthfulness of the cached `_qdata_sorted` claim. (The charge rule
`make_valid(Σ charges) = qtotal` per stored block belongs to property C02 and is stated separately as
`Arr.ChargeRule`.)
-/
namespace TenpyModel.Core

/-- slices of a leg: one more than blocks, start at 0, ascending -/
def Leg.ShapeOK (l : Leg) : Prop :=
  l.slices.length = l.charges.length + 1 ∧ l.slices.head? = some 0 ∧ l.slices.Pairwise (· ≤ ·)

instance (l : Leg) : Decidable l.ShapeOK := by unfold Leg.ShapeOK; infer_instance

namespace Arr
variable {α : Type}

/-- storage invariants of a tensor -/
def WF (a : Arr α) : Prop :=
  a.labels.length = a.rank
  ∧ a.qdata.length = a.data.length
  ∧ a.qdata.Nodup
  ∧ (∀ l ∈ a.lcs, l.ShapeOK)
  ∧ (∀ r ∈ a.qdata, r.length = a.rank ∧ ∀ k, k < a.rank → r.getD k 0 < (a.lc k).blockNumber)
  ∧ (∀ rb ∈ a.qdata.zip a.data, rb.2.shape = blockShapeOf a.lcs rb.1 ∧ rb.2.vals.length = Dense.prod rb.2.shape)
  ∧ (a.qdataSorted = true → isLexsorted a.qdata = true)

instance (a : Arr α) : Decidable a.WF := by unfold WF; infer_instance

/-- every stored block obeys the charge rule -/
def ChargeRule (a : Arr α) : Prop := ∀ r ∈ a.qdata, blockChargeOf a.mods a.lcs r = a.qtotal

instance (a : Arr α) : Decidable a.ChargeRule := by unfold ChargeRule; infer_instance

end Arr
end TenpyModel.Core
