import TenpyModel.Core.Leg
/-
Core model (import-free): `LegPipe` of `tenpy/linalg/charges.py`, as coded
(`__init__` both branches, `_init_from_legs`, `_map_incoming_qind`, `map_incoming_flat`,
`conj`, `outer_conj`, `to_LegCharge`).
-/
namespace TenpyModel.Core

structure Pipe where
  leg        : Leg                 -- the outgoing LegCharge
  legs       : List Leg            -- incoming legs (their LegCharge view)
  qMap       : List (List Nat)     -- rows `[b_j, b_{j+1}, I_s, i_1, …, i_n]`
  qMapSlices : List Nat
  perm       : Option (List Nat)   -- `_perm`
  strides    : List Nat            -- `_strides`
deriving Repr, DecidableEq

namespace Pipe

def nlegs (p : Pipe) : Nat := p.legs.length
def subshape (p : Pipe) : List Nat := p.legs.map Leg.indLen
def subqshape (p : Pipe) : List Nat := p.legs.map Leg.blockNumber

/-- fused charge of the block combination `qis` before `make_valid`:
`qconj * Σ_l l.qconj * l.charges[qi_l]` -/
def fuseRaw (qn : Nat) (legs : List Leg) (qconj : Int) (qis : List Nat) : Charge :=
  csum qn ((legs.zip qis).map (fun lq => cscale (qconj * lq.1.qconj) (lq.1.charges.getD lq.2 [])))

def fuse (mods : List Nat) (legs : List Leg) (qconj : Int) (qis : List Nat) : Charge :=
  makeValid mods (fuseRaw mods.length legs qconj qis)

def blockSizeOf (legs : List Leg) (qis : List Nat) : Nat :=
  ((legs.zip qis).map (fun lq => lq.1.blockSizes.getD lq.2 0)).foldl (· * ·) 1

/-- `q_map_Qi`: `zeros(n); [idx[1:-1]] = 1; cumsum` -/
def qiOfIdx (n : Nat) (idx : List Nat) : List Nat :=
  let inner := idx.tail.dropLast
  cumsum ((List.range n).map (fun i => if inner.contains i then 1 else 0))

/-- `LegPipe.__init__` -/
def init (legs : List Leg) (qconj : Int) (sort bunch : Bool) : Pipe :=
  let mods := (legs.headD (Leg.fromTrivial 1 [] 1)).mods
  let qn := mods.length
  let subq := legs.map Leg.blockNumber
  if subq.all (· == 1) then
    -- special case: every incoming leg has a single block
    let n := (legs.map Leg.indLen).foldl (· * ·) 1
    let z := legs.map (fun _ => 0)
    { leg := { mods, slices := [0, n], charges := [fuse mods legs qconj z], qconj,
               sorted := true, bunched := true },
      legs, qMap := [[0, n, 0] ++ z], qMapSlices := [0, 1], perm := none, strides := z }
  else
    let strides := makeStrideC subq
    let grid := gridC subq
    let sizes0 := grid.map (blockSizeOf legs)
    let charges0 : List Charge :=
      if qn > 0 then grid.map (fuse mods legs qconj) else grid.map (fun _ => [])
    let doSort := sort && qn > 0
    let permQ := if doSort then lexsort charges0 else List.range grid.length
    let grid1 := take? grid permQ []
    let charges1 := take? charges0 permQ []
    let sizes1 := take? sizes0 permQ 0
    let perm := if doSort then some (inversePerm permQ) else none
    let slices1 := slicesOfSizes sizes1
    let sortedFlag := sort || qn == 0
    if bunch then
      let idx := findRowDifferences qn charges1
      let charges2 := take? charges1 idx.dropLast []
      let slices2 := take? slices1 idx 0
      let qi := qiOfIdx grid1.length idx
      let rows := (List.range grid1.length).map (fun j =>
        let off := slices2.getD (qi.getD j 0) 0
        [slices1.getD j 0 - off, slices1.getD (j + 1) 0 - off, qi.getD j 0] ++ grid1.getD j [])
      { leg := { mods, slices := slices2, charges := charges2, qconj, sorted := sortedFlag, bunched := true },
        legs, qMap := rows, qMapSlices := idx, perm, strides }
    else
      let rows := (List.range grid1.length).map (fun j =>
        [0, slices1.getD (j + 1) 0 - slices1.getD j 0, j] ++ grid1.getD j [])
      { leg := { mods, slices := slices1, charges := charges1, qconj, sorted := sortedFlag, bunched := false },
        legs, qMap := rows, qMapSlices := List.range (grid1.length + 1), perm, strides }

/-- `_map_incoming_qind` for one row of qindices -/
def mapIncomingQind (p : Pipe) (qis : List Nat) : Nat :=
  let i := dot qis p.strides
  match p.perm with
  | none => i
  | some pm => pm.getD i 0

/-- `map_incoming_flat(incoming_indices)`; `none` = IndexError/ValueError -/
def mapIncomingFlat (p : Pipe) (idx : List Int) : Option Nat :=
  if idx.length ≠ p.nlegs then none else
  match (p.legs.zip idx).mapM (fun li => li.1.getQindex li.2) with
  | none => none
  | some qw =>
    let qis := qw.map (·.1)
    -- C order within the block: last leg fastest
    let sizes := (p.legs.zip qis).map (fun lq => lq.1.blockSizes.getD lq.2 0)
    let within := dot (qw.map (·.2)) (makeStrideC sizes)
    let j := p.mapIncomingQind qis
    let row := p.qMap.getD j []
    some (p.leg.slices.getD (row.getD 2 0) 0 + row.getD 0 0 + within)

/-- `conj()` -/
def conj (p : Pipe) : Pipe := { p with leg := p.leg.conj, legs := p.legs.map Leg.conj }

/-- `outer_conj()`: flips the outgoing leg only (charges negated, direction reversed) -/
def outerConj (p : Pipe) : Pipe :=
  { p with leg := { p.leg with qconj := -p.leg.qconj,
                               charges := p.leg.charges.map (fun c => makeValid p.leg.mods (cneg c)),
                               sorted := false } }

def toLegCharge (p : Pipe) : Leg := p.leg

end Pipe
end TenpyModel.Core
