import TenpyModel.Util.J
import TenpyModel.Core.Codec
import TenpyModel.Core.ArrChecked
/-! JSON codec for the tensor model (drivers only) and the Gaussian-integer scalar type used for exact
comparison with complex dtypes. -/
namespace TenpyModel.Core

/-- Gaussian integers -/
structure GInt where
  re : Int
  im : Int
deriving Repr, DecidableEq

namespace GInt
instance : Zero GInt := ⟨⟨0, 0⟩⟩
instance : Add GInt := ⟨fun a b => ⟨a.re + b.re, a.im + b.im⟩⟩
instance : Neg GInt := ⟨fun a => ⟨-a.re, -a.im⟩⟩
instance : Mul GInt := ⟨fun a b => ⟨a.re * b.re - a.im * b.im, a.re * b.im + a.im * b.re⟩⟩
def star (a : GInt) : GInt := ⟨a.re, -a.im⟩
def absSq (a : GInt) : Nat := (a.re * a.re + a.im * a.im).toNat
end GInt

namespace ArrCodec
open Lean TenpyModel.J TenpyModel.Core.Codec

/-- scalar ⇄ JSON -/
structure SC (α : Type) where
  parse : Json → Except String α
  emit  : α → Json

def scInt : SC Int := ⟨getInt, fun x => Json.num (JsonNumber.fromInt x)⟩

def scGInt : SC GInt :=
  ⟨fun j => match j with
     | Json.arr #[a, b] => do return ⟨← getInt a, ← getInt b⟩
     | _ => do return ⟨← getInt j, 0⟩,
   fun x => if x.im = 0 then Json.num (JsonNumber.fromInt x.re)
            else Json.arr #[Json.num (JsonNumber.fromInt x.re), Json.num (JsonNumber.fromInt x.im)]⟩

def hasKey (j : Json) (k : String) : Bool := (j.getObjVal? k).toOption.isSome

def optNatListOfJson (j : Json) : Except String (Option (List Nat)) := optOf natList j

partial def alegOfJson (j : Json) : Except String ALeg := do
  let l ← legOfJson j
  if hasKey j "legs" then
    let subs ← (← getArr (← field j "legs")).mapM alegOfJson
    let p : Pipe := { leg := l, legs := subs.map ALeg.leg, qMap := ← listOf natList (← field j "q_map"),
                      qMapSlices := ← natList (← field j "q_map_slices"),
                      perm := ← optNatListOfJson (fieldD j "perm" Json.null),
                      strides := ← natList (← field j "strides") }
    return .pipe p subs
  else return .plain l

partial def alegToJson : ALeg → Json
  | .plain l => legToJson l
  | .pipe p subs =>
    (legToJson p.leg).mergeObj (obj [("legs", ofList alegToJson subs), ("q_map", ofList ofNatList p.qMap),
      ("q_map_slices", ofNatList p.qMapSlices), ("perm", optNatList p.perm), ("strides", ofNatList p.strides)])

def labelOfJson (j : Json) : Except String Label := optOf getStr j
def labelToJson : Label → Json
  | none => Json.null
  | some s => Json.str s

def denseOfJson (sc : SC α) (j : Json) : Except String (Dense α) := do
  return ⟨← natList (← field j "shape"), ← listOf sc.parse (← field j "vals")⟩

def denseToJson (sc : SC α) (d : Dense α) : Json :=
  obj [("shape", ofNatList d.shape), ("vals", ofList sc.emit d.vals)]

def arrOfJson (sc : SC α) (j : Json) : Except String (Arr α) := do
  return { mods := ← natList (← field j "mods"),
           legs := ← listOf alegOfJson (← field j "legs"),
           qtotal := ← intList (← field j "qtotal"),
           labels := ← listOf labelOfJson (← field j "labels"),
           qdata := ← listOf natList (← field j "qdata"),
           data := ← listOf (denseOfJson sc) (← field j "blocks"),
           qdataSorted := ← getBool (← field j "sorted") }

/-- canonical form of the block list: rows lexsorted (stable), blocks carried along -/
def canonBlocks (a : Arr α) : List (List Nat) × List (Blk α) :=
  let perm := lexsortNat a.qdata
  (pick a.qdata perm [], pick a.data perm ⟨[], []⟩)

/-- the dense form is computed by `toDenseFast`; for small tensors the specification `toDense` (the function the
theorems are about) is evaluated as well and any difference is reported (`dense_spec_mismatch`) -/
def arrToJson [Zero α] [DecidableEq α] (sc : SC α) (a : Arr α) : Json :=
  let (q, d) := canonBlocks a
  let fast := a.toDenseFast
  let ok := if Dense.prod a.shape ≤ 48 then decide (a.toDense = fast) else true
  obj ([("mods", ofNatList a.mods), ("legs", ofList alegToJson a.legs), ("qtotal", ofIntList a.qtotal),
        ("labels", ofList labelToJson a.labels), ("qdata", ofList ofNatList q),
        ("blocks", ofList (denseToJson sc) d), ("sorted", a.qdataSorted),
        ("dense", denseToJson sc fast)] ++ (if ok then [] else [("dense_spec_mismatch", Json.bool true)]))

def axOfJson (j : Json) : Except String Ax :=
  match j with
  | Json.str s => .ok (.lbl s)
  | _ => do return .idx (← getInt j)

def axList := listOf axOfJson
def boolList := listOf getBool

end ArrCodec
end TenpyModel.Core
