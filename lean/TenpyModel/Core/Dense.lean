/-
Core (import-free): dense tensors = `shape` + row-major (C order) value list, generic over the scalar type.
This is the numpy semantics the tensor properties (C01…) refer to: `transpose`, `reshape`, `tensordot`,
`outer`, `inner`, `trace`, `take`, `compress`, `concatenate`, scaling along an axis, index permutation along
an axis, pointwise operations. Every operation is defined entry-wise through `Dense.ofFn` / `Dense.get`, i.e.
"result[idx] = formula in the operands' entries" — which is exactly the documented meaning of the numpy call.
-/
namespace TenpyModel.Core

structure Dense (α : Type) where
  shape : List Nat
  vals  : List α          -- row-major, `vals.length = shape.prod`
deriving Repr, DecidableEq

namespace Dense

def prod (l : List Nat) : Nat := l.foldl (· * ·) 1

/-- C-order strides of a shape -/
def strides : List Nat → List Nat
  | [] => []
  | _ :: rest => prod rest :: strides rest

/-- all multi-indices of `shape` in C order (last index fastest) -/
def allIdx : List Nat → List (List Nat)
  | [] => [[]]
  | n :: rest => (List.range n).flatMap (fun i => (allIdx rest).map (fun t => i :: t))

def flatIdx (shape idx : List Nat) : Nat :=
  (List.zipWith (· * ·) idx (strides shape)).foldl (· + ·) 0

def inRange (shape idx : List Nat) : Bool :=
  idx.length == shape.length && (List.zipWith (fun i n => decide (i < n)) idx shape).all id

variable {α : Type}

def size (d : Dense α) : Nat := prod d.shape
def rank (d : Dense α) : Nat := d.shape.length

/-- entry at a multi-index (`z` outside the range) -/
def get (z : α) (d : Dense α) (idx : List Nat) : α :=
  if inRange d.shape idx then d.vals.getD (flatIdx d.shape idx) z else z

/-- build from a function of the multi-index -/
def ofFn (shape : List Nat) (f : List Nat → α) : Dense α := ⟨shape, (allIdx shape).map f⟩

/-- as `ofFn`, random access into `src` through an array (same values as `ofFn shape (f ∘ get src)`) -/
def gather (z : α) (src : Dense α) (shape : List Nat) (f : List Nat → List Nat) : Dense α :=
  let arr := src.vals.toArray
  ⟨shape, (allIdx shape).map (fun idx =>
    let j := f idx
    if inRange src.shape j then arr.getD (flatIdx src.shape j) z else z)⟩

def zeros [Zero α] (shape : List Nat) : Dense α := ⟨shape, List.replicate (prod shape) 0⟩

def map (f : α → β) (d : Dense α) : Dense β := ⟨d.shape, d.vals.map f⟩

/-- pointwise binary operation of equally shaped tensors -/
def zipWith (f : α → β → γ) (a : Dense α) (b : Dense β) : Dense γ := ⟨a.shape, List.zipWith f a.vals b.vals⟩

def add [Add α] (a b : Dense α) : Dense α := zipWith (· + ·) a b
def sub [Add α] [Neg α] (a b : Dense α) : Dense α := zipWith (fun x y => x + -y) a b
def neg [Neg α] (a : Dense α) : Dense α := map (fun x => -x) a
def scale [Mul α] (s : α) (a : Dense α) : Dense α := map (fun x => s * x) a

/-- `np.transpose(d, axes)`: `res[i_0,…] = d[j]` with `j[axes[k]] = i_k` -/
def transpose [Zero α] (d : Dense α) (axes : List Nat) : Dense α :=
  let shape' := axes.map (fun a => d.shape.getD a 0)
  let inv := (List.range d.rank).map (fun a => axes.idxOf a)
  gather 0 d shape' (fun idx => inv.map (fun k => idx.getD k 0))

/-- `np.reshape(d, shape)` (C order): same values, new shape -/
def reshape (d : Dense α) (shape : List Nat) : Dense α := ⟨shape, d.vals⟩

def sum [Add α] [Zero α] (l : List α) : α := l.foldl (· + ·) 0

/-- `np.tensordot(a, b, axes=k)`: contract the last `k` axes of `a` with the first `k` of `b` -/
def tensordot [Add α] [Mul α] [Zero α] (a b : Dense α) (k : Nat) : Dense α :=
  let ka := a.rank - k
  let sa := a.shape.take ka
  let sc := a.shape.drop ka
  let sb := b.shape.drop k
  let aa := a.vals.toArray
  let ba := b.vals.toArray
  let nc := prod sc
  let nb := prod sb
  ⟨sa ++ sb, (List.range (prod sa)).flatMap (fun i => (List.range nb).map (fun j =>
      sum ((List.range nc).map (fun c => aa.getD (i * nc + c) 0 * ba.getD (c * nb + j) 0))))⟩

/-- `np.multiply.outer` / `np.tensordot(a, b, 0)` -/
def outer [Add α] [Mul α] [Zero α] (a b : Dense α) : Dense α := tensordot a b 0

/-- full contraction `Σ_i a[i] * b[i]` (`np.tensordot(a, b, rank)` / `np.inner` of flattened) -/
def inner [Add α] [Mul α] [Zero α] (a b : Dense α) : α := sum (List.zipWith (· * ·) a.vals b.vals)

def insertAt (l : List β) (i : Nat) (x : β) : List β := l.take i ++ x :: l.drop i
def removeAt (l : List β) (i : Nat) : List β := l.take i ++ l.drop (i + 1)

/-- `np.trace(d, axis1, axis2)` (axes removed, remaining in order) -/
def trace [Add α] [Zero α] (d : Dense α) (ax1 ax2 : Nat) : Dense α :=
  let n := min (d.shape.getD ax1 0) (d.shape.getD ax2 0)
  let keep := (List.range d.rank).filter (fun a => a ≠ ax1 ∧ a ≠ ax2)
  let shape' := keep.map (fun a => d.shape.getD a 0)
  ofFn shape' (fun idx =>
    sum ((List.range n).map (fun t =>
      d.get 0 ((List.range d.rank).map (fun a =>
        if a = ax1 ∨ a = ax2 then t else idx.getD (keep.idxOf a) 0)))))

/-- `np.take(d, i, axis)` for a single index: removes the axis -/
def take [Zero α] (d : Dense α) (axis i : Nat) : Dense α :=
  gather 0 d (removeAt d.shape axis) (fun idx => insertAt idx axis i)

/-- `np.take(d, inds, axis)` for an index list: `res[…, k, …] = d[…, inds[k], …]` -/
def takeList [Zero α] (d : Dense α) (axis : Nat) (inds : List Nat) : Dense α :=
  gather 0 d (d.shape.set axis inds.length) (fun idx => idx.set axis (inds.getD (idx.getD axis 0) 0))

/-- indices where the mask is true -/
def maskIdx (mask : List Bool) : List Nat := (List.range mask.length).filter (fun i => mask.getD i false)

/-- `np.compress(mask, d, axis)` -/
def compress [Zero α] (d : Dense α) (axis : Nat) (mask : List Bool) : Dense α := takeList d axis (maskIdx mask)

/-- `np.concatenate([a, b], axis)` -/
def concat2 [Zero α] (a b : Dense α) (axis : Nat) : Dense α :=
  let na := a.shape.getD axis 0
  let shape' := a.shape.set axis (na + b.shape.getD axis 0)
  ofFn shape' (fun idx =>
    let i := idx.getD axis 0
    if i < na then a.get 0 idx else b.get 0 (idx.set axis (i - na)))

def concatenate [Zero α] (ds : List (Dense α)) (axis : Nat) : Dense α :=
  match ds with
  | [] => ⟨[], []⟩
  | d :: rest => rest.foldl (fun acc x => concat2 acc x axis) d

/-- `d * s` broadcast along `axis`: `res[…, i, …] = s[i] * d[…, i, …]` -/
def scaleAxis [Mul α] [Zero α] (d : Dense α) (s : List α) (axis : Nat) : Dense α :=
  ⟨d.shape, List.zipWith (fun idx v => v * s.getD (idx.getD axis 0) 0) (allIdx d.shape) d.vals⟩

/-- insert an axis of length 1 (`np.expand_dims`) -/
def expandDims (d : Dense α) (axis : Nat) : Dense α := ⟨insertAt d.shape axis 1, d.vals⟩

/-- remove axes of length 1 (`np.squeeze(d, axes)`) -/
def squeeze (d : Dense α) (axes : List Nat) : Dense α :=
  ⟨((List.range d.rank).filter (fun a => !axes.contains a)).map (fun a => d.shape.getD a 0), d.vals⟩

/-- `d[np.ix_(perm_0, perm_1, …)]` -/
def ix [Zero α] (d : Dense α) (perms : List (List Nat)) : Dense α :=
  gather 0 d (perms.map List.length) (fun idx => List.zipWith (fun p i => p.getD i 0) perms idx)

/-- write `src` into `d` at the sub-grid `np.ix_(inds_0, …)`: `d[np.ix_(…)] = src` -/
def setIx [Zero α] (d src : Dense α) (inds : List (List Nat)) : Dense α :=
  ofFn d.shape (fun idx =>
    let pos := List.zipWith (fun p i => p.idxOf i) inds idx
    if (List.zipWith (fun p k => decide (k < p.length)) inds pos).all id then src.get 0 pos else d.get 0 idx)

def count (p : α → Bool) (d : Dense α) : Nat := d.vals.countP p

end Dense
end TenpyModel.Core
