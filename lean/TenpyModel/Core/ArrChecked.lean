import TenpyModel.Core.ArrDot
/-!
Core model, part 4: *checked* entry points used by the driver. They add argument checks / early exits of the real
code that the base definitions (about which the C01/C02/C04 theorems are stated) do not perform, without changing
those definitions:

* `concatenateChecked`      — an array of lower rank makes `a.legs[axis]` fail (IndexError) after the compatibility loop;
* `sortLegchargeOrCopy`     — nothing to sort or bunch: a shallow copy and identity permutations;
* `getItemIntPartial`       — fewer integer indices than legs: the sub-tensor `take_slice(inds, range(len(inds)))`;
* `combineLegsChecked`      — a newly made pipe with `qconj ∉ {+1, -1}` is rejected (`LegCharge.test_sanity`);
* `addTrivialLegChecked`    — likewise for the new trivial leg;
* `…Named` variants of the binary operations — `ChargeInfo.__eq__` also compares the charge *names* (missing names
  are ignored); the driver keeps the names next to each value and passes `same : Bool`.

Each wrapper agrees with its base function whenever it succeeds (`C01_wrapper_*` in C01/PropsWrappers.lean).
-/
namespace TenpyModel.Core

/-- `ChargeInfo.__eq__` on the names (the `mod`s are compared by the model itself) -/
def namesCompatible (a b : List String) : Bool :=
  a.length == b.length && (List.zipWith (fun l r => l == r || l == "" || r == "") a b).all id

namespace Arr
variable {α : Type}

/-- `concatenate(arrays, axis)` with the charge-name check and the rank failure of `a.legs[axis]` -/
def concatenateChecked (same : Bool) (arrays : List (Arr α)) (axis : Ax) : Except Err (Arr α) :=
  match arrays with
  | [] => .error .indexError
  | first :: _ =>
    match first.getLegIndex axis with
    | .error e => .error e
    | .ok k =>
      match concatenate arrays axis with
      | .error e => .error e
      | .ok r =>
        if !same then .error .valueError
        else if arrays.any (fun a => decide (a.rank ≤ k)) then .error .indexError
        else .ok r

/-- `sort_legcharge(sort, bunch)`; nothing selected → `(identity permutations, shallow copy)` -/
def sortLegchargeOrCopy [Zero α] (a : Arr α) (sort bunch : List Bool) : Except Err (List (List Nat) × Arr α) :=
  if sort.length ≠ a.rank ∨ bunch.length ≠ a.rank then .error .valueError
  else if (List.range a.rank).all (fun k => !(sort.getD k false || bunch.getD k false)) then
    .ok (a.shape.map List.range, a)
  else a.sortLegcharge sort bunch

/-- `a[i_0, …, i_{n-1}]` with `n ≤ rank` integers -/
def getItemIntPartial [Zero α] (a : Arr α) (inds : List Int) : Except Err (Val α) :=
  if inds.length > a.rank then .error .indexError
  else if inds.length = a.rank then
    match a.getItemInt inds with
    | .ok x => .ok (.scalar x)
    | .error e => .error e
  else
    match a.takeSlice inds ((List.range inds.length).map (fun k => Ax.idx (Int.ofNat k))) with
    | .ok r => .ok (.arr r)
    | .error e => .error e

def qconjOK (q : Int) : Bool := q == 1 || q == -1

/-- `_combine_legs_make_pipes` with the sanity check of every newly made pipe -/
def combineMakePipesChecked (a : Arr α) (cl : List (List Ax)) (pipes : Option (List (Option ALeg)))
    (qconj : List (Option Int)) : Except Err Unit := do
  let n := cl.length
  let pipes := pipes.getD (List.replicate n none)
  if pipes.length ≠ n then throw .valueError
  let qc := if qconj.length = 1 ∧ 1 < n then List.replicate n (qconj.headD none) else qconj
  if qc.length ≠ n then throw .valueError
  for i in List.range n do
    let axs := cl.getD i []
    match pipes.getD i none with
    | none =>
      let q ← match qc.getD i none with
        | some q => pure q
        | none => match axs with
          | [] => throw .indexError
          | x :: _ => do pure (a.lc (← a.getLegIndex x)).qconj
      let _ ← a.getLegIndices axs
      if !qconjOK q then throw .valueError
    | some p =>
      let idx ← a.getLegIndices axs
      match p with
      | .plain _ => throw .typeError
      | .pipe pp subs =>
        if subs.length ≠ idx.length then throw .valueError
        let p' := if (a.lc (idx.headD 0)).qconj ≠ (pp.legs.headD default).qconj then p.conj else p
        let pl := match p' with | .pipe q _ => q.legs | .plain _ => []
        if !legsEqual (idx.map a.lc) pl then throw .valueError

/-- `combine_legs` rejecting `qconj ∉ {+1, -1}` for the pipes it creates -/
def combineLegsChecked [Zero α] (a : Arr α) (cl : List (List Ax)) (newAxes : Option (List Int))
    (pipes : Option (List (Option ALeg))) (qconj : List (Option Int)) : Except Err (Arr α) :=
  if cl.isEmpty then .error .indexError
  else
    match a.combineMakePipesChecked cl pipes qconj with
    | .error e => .error e
    | .ok _ => a.combineLegs cl newAxes pipes qconj

/-- `add_trivial_leg` rejecting `qconj ∉ {+1, -1}` (the new `LegCharge` fails its sanity check first) -/
def addTrivialLegChecked (a : Arr α) (axis : Int) (label : Label) (qconj : Int) : Except Err (Arr α) :=
  if !qconjOK qconj then .error .valueError else a.addTrivialLeg axis label qconj

/-- after everything else succeeded, differing charge names are a ValueError; errors raised before the
`ChargeInfo` comparison keep their class, those after it are ValueErrors anyway -/
def thenNames {β : Type} (same : Bool) (r : Except Err β) : Except Err β :=
  match r with
  | .error e => .error e
  | .ok x => if same then .ok x else .error .valueError

def iaddPrefactorOtherNamed [Add α] [Mul α] [Zero α] [DecidableEq α] (same cy : Bool) (a : Arr α) (p : α)
    (b : Arr α) : Except Err (Arr α × Arr α) := thenNames same (iaddPrefactorOther cy a p b)

def ibinaryBlockwiseNamed [Zero α] (same : Bool) (f : α → α → α) (a b : Arr α) : Except Err (Arr α × Arr α) :=
  thenNames same (ibinaryBlockwise f a b)

def innerNamed [Add α] [Mul α] [Zero α] (same : Bool) (st : α → α) (a b : Arr α) (axes : InnerAxes)
    (doConj : Bool) : Except Err α := thenNames same (inner st a b axes doConj)

/-- `tensordot` / `outer` compare the `ChargeInfo` first -/
def tensordotNamed [Add α] [Mul α] [Zero α] (same cy : Bool) (a b : Arr α) (axes : DotAxes) : Except Err (Val α) :=
  if !same then .error .valueError else tensordot cy a b axes

def outerNamed [Add α] [Mul α] [Zero α] (same : Bool) (a b : Arr α) : Except Err (Arr α) :=
  if !same then .error .valueError else outer a b

end Arr
end TenpyModel.Core
