/-
Core model (import-free): charges, lexsort, row differences, strides.
Mirrors `tenpy/linalg/charges.py` (`ChargeInfo.make_valid/check_valid`, `_find_row_differences`,
`_make_stride`, `_map_blocks`) and `tenpy/tools/misc.py` (`lexsort`, `inverse_permutation`).
-/
namespace TenpyModel.Core

abbrev Charge := List Int

/-- one component of `ChargeInfo.make_valid`: `x % m`, with `x % 1 := x` (U(1)). `m ≥ 1`. -/
def mv1 (m : Nat) (x : Int) : Int := if m = 1 then x else x % (m : Int)

/-- `ChargeInfo.make_valid` on one charge vector (`mods = chinfo.mod`). -/
def makeValid (mods : List Nat) (q : Charge) : Charge := List.zipWith mv1 mods q

def cv1 (m : Nat) (x : Int) : Bool := m == 1 || (decide (0 ≤ x) && decide (x < (m : Int)))

/-- `ChargeInfo.check_valid` on one charge vector -/
def checkValid (mods : List Nat) (q : Charge) : Bool :=
  q.length == mods.length && (List.zipWith cv1 mods q).all id

def cadd (a b : Charge) : Charge := List.zipWith (· + ·) a b
def cneg (a : Charge) : Charge := a.map (fun x => -x)
def cscale (s : Int) (a : Charge) : Charge := a.map (fun x => s * x)
def czero (n : Nat) : Charge := List.replicate n 0
def csum (n : Nat) (cs : List Charge) : Charge := cs.foldl cadd (czero n)

/-- comparison used by `np.lexsort(charges.T)`: the LAST column is the primary key. -/
def lexLE (a b : List Int) : Bool :=
  let rec go : List Int → List Int → Bool
    | [], _ => true
    | _ :: _, [] => false
    | x :: xs, y :: ys => if x < y then true else if y < x then false else go xs ys
  go a.reverse b.reverse

/-- stable insertion of `x` (coming later in the input than all of `l`... no: `x` precedes `l`) -/
def insertLE (le : α → α → Bool) (x : α) : List α → List α
  | [] => [x]
  | y :: ys => if le x y then x :: y :: ys else y :: insertLE le x ys

/-- stable insertion sort (a stable sort is unique, so this equals numpy's stable lexsort) -/
def stableSort (le : α → α → Bool) : List α → List α
  | [] => []
  | x :: xs => insertLE le x (stableSort le xs)

/-- `tools.misc.lexsort(rows.T)`: indices that sort the rows, stable. -/
def lexsort (rows : List (List Int)) : List Nat :=
  ((stableSort (fun a b => lexLE a.1 b.1) (rows.zip (List.range rows.length))).map (·.2))

/-- `inverse_permutation` -/
def inversePerm (p : List Nat) : List Nat :=
  (List.range p.length).map (fun j => (p.idxOf j))

/-- `a[idx]` for an index list (numpy advanced indexing along axis 0) -/
def take? (a : List α) (idx : List Nat) (d : α) : List α := idx.map (fun i => a.getD i d)

def rowDiffAux : Nat → List (List Int) → List Nat
  | _, [] => []
  | i, [_] => [i + 1]
  | i, a :: b :: rest => (if a ≠ b then [i + 1] else []) ++ rowDiffAux (i + 1) (b :: rest)

/-- `_find_row_differences(qflat)`: `[0] ++ [i | rows[i-1] ≠ rows[i]] ++ [n]`, and `[0]` for zero rows.
(`qnumber = qflat.shape[1]` is kept as an argument to mirror the code's early exit; with zero
columns all rows are equal, so the general formula gives the same `[0, n]`.) -/
def findRowDifferences (qnumber : Nat) (rows : List (List Int)) : List Nat :=
  if rows.isEmpty then [0] else if qnumber = 0 then [0, rows.length] else 0 :: rowDiffAux 0 rows

/-- `_make_stride(shape, cstyle)` -/
def makeStrideC : List Nat → List Nat
  | [] => []
  | _ :: rest => (rest.foldl (· * ·) 1) :: makeStrideC rest

def makeStrideF (shape : List Nat) : List Nat :=
  let rec go (acc : Nat) : List Nat → List Nat
    | [] => []
    | s :: rest => acc :: go (acc * s) rest
  go 1 shape

def dot (a b : List Nat) : Nat := (List.zipWith (· * ·) a b).foldl (· + ·) 0

def cumsum (l : List Nat) : List Nat :=
  let rec go (acc : Nat) : List Nat → List Nat
    | [] => []
    | x :: xs => (acc + x) :: go (acc + x) xs
  go 0 l

/-- slices `[0, s0, s0+s1, …]` from block sizes (`_set_block_sizes`) -/
def slicesOfSizes (sizes : List Nat) : List Nat := 0 :: cumsum sizes

/-- block sizes from slices (`get_block_sizes`) -/
def sizesOfSlices (slices : List Nat) : List Nat := List.zipWith (fun e b => e - b) slices.tail slices

/-- all multi-indices of a grid of the given shape in C order (`np.indices(shape).reshape(n,-1).T`) -/
def gridC : List Nat → List (List Nat)
  | [] => [[]]
  | n :: rest => (List.range n).flatMap (fun i => (gridC rest).map (fun t => i :: t))

end TenpyModel.Core
