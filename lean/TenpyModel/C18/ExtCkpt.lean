/-!
# C18 extension — `Simulation.save_at_checkpoint` and `handle_abort_signal`
(tenpy/simulations/simulation.py l.1189–1228, l.290–317)

When is a checkpoint saved?  `save_every_x_seconds` (`None` = never, `0.` = always, otherwise when more than that
many seconds passed since `_last_save`), the SIGINT flag (save at the next checkpoint, then `KeyboardInterrupt`),
and the self-adaptation of the interval (`save_every = 20 * time_to_save` when a save took more than 10 % of it).

Times are integers (any unit: all comparisons of the code are homogeneous — `tts > 0.1 * e` is `10 * tts > e`).
The clock is an input: every checkpoint comes with the readings of `time.time()` the code takes
(`now` on entry, `tLast` = the value `save_results` stores into `_last_save`, `tAfter` = the reading after the
save).  Import-free.
-/
namespace TenpyModel.C18.ExtCkpt

structure St where
  last : Int              -- self._last_save
  every : Option Int      -- options['save_every_x_seconds'] (none = None)
  sigint : Bool           -- self.received_signal_sigint
  saves : List Nat        -- (observable) indices of the checkpoints at which save_results ran
  deriving DecidableEq, Repr

structure Clock where
  now : Int
  tLast : Int
  tAfter : Int
  deriving DecidableEq, Repr

inductive Step
  | ok (st : St)            -- returns normally
  | interrupt (st : St)     -- saved, then raise KeyboardInterrupt
  deriving DecidableEq, Repr

/-- `save_every is not None and now - self._last_save > save_every` -/
def due (st : St) (now : Int) : Bool :=
  match st.every with
  | none => false
  | some e => decide (now - st.last > e)

/-- checkpoint number `i` -/
def checkpoint (i : Nat) (st : St) (c : Clock) : Step :=
  if due st c.now || st.sigint then
    let st1 : St := { st with last := c.tLast, saves := st.saves ++ [i] }      -- self.save_results()
    if st.sigint then .interrupt st1
    else match st.every with
      | none => .ok st1           -- not reachable (`due` needs an interval); kept total
      | some e =>
        let tts := c.tAfter - c.now
        if 10 * tts > e ∧ e > 0 then .ok { st1 with every := some (20 * tts) } else .ok st1
  else .ok st

inductive Ev
  | ckpt (c : Clock)
  | signal (isSigint : Bool)     -- handle_abort_signal(signum, frame)
  deriving DecidableEq, Repr

inductive Stop
  | savedAndInterrupted     -- KeyboardInterrupt raised by save_at_checkpoint after saving
  | secondSigint            -- KeyboardInterrupt raised by the handler itself
  | badSignal               -- ValueError('unexpected signal to handle')
  deriving DecidableEq, Repr

/-- a run: events in order, checkpoints numbered from `i`; stops at the first exception -/
def runEvs : Nat → St → List Ev → St × Option Stop
  | _, st, [] => (st, none)
  | i, st, .ckpt c :: rest =>
    match checkpoint i st c with
    | .ok st' => runEvs (i + 1) st' rest
    | .interrupt st' => (st', some .savedAndInterrupted)
  | i, st, .signal isInt :: rest =>
    if !isInt then (st, some .badSignal)
    else if st.sigint then (st, some .secondSigint)
    else runEvs i { st with sigint := true } rest

end TenpyModel.C18.ExtCkpt
