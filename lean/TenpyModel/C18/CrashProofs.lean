import TenpyModel.C18.FSProofs
/-! Helper definitions and lemmas for `PropsCrash.lean`. -/
namespace TenpyModel.C18


/-- Entry condition of `save_results` w.r.t. the last completely saved content `p`: `out` is the
complete file (whatever `backup` holds: nothing, the start-up stub, a stale file), or `out` is absent
and the complete file sits under the backup name (a crash happened between `rename` and `create`). -/
def GoodEntry (fs : FS) (p : Nat) : Prop :=
  fs.out = some (.complete p) ∨ (fs.out = none ∧ fs.backup = some (.complete p))

/-- what every completed save leaves behind -/
def Clean (fs : FS) (p : Nat) : Prop := fs.out = some (.complete p) ∧ fs.backup = none

theorem Clean.good {fs : FS} {p : Nat} (h : Clean fs p) : GoodEntry fs p := Or.inl h.1

theorem hasComplete_of_out {fs : FS} {c : Nat} (h : fs.out = some (.complete c)) : fs.hasComplete c = true := by
  simp [FS.hasComplete, h]

theorem hasComplete_of_backup {fs : FS} {c : Nat} (h : fs.backup = some (.complete c)) :
    fs.hasComplete c = true := by
  simp [FS.hasComplete, h]

/-- the write part of a save (create, chunks, close, clean-up) started with the complete file `p`
under the backup name -/
theorem tail_safe (p cur : Nat) (chunks : List Nat) (fs : FS) (k : Nat)
    (hb : fs.backup = some (.complete p)) :
    let st := crashState (writeThen cur chunks (cleanupThen true .done)) fs k
    st.hasComplete p = true ∨ st.hasComplete cur = true := by
  cases k with
  | zero => exact Or.inl (by simpa [crashState, writeThen_eq, exec] using hasComplete_of_backup hb)
  | succ k =>
    have h := writeLoop_keeps cur (.complete p) chunks (applyAct fs (.create .out cur)) k
      (by simp [applyAct, FS.set, hb])
    simp only [crashState, writeThen_eq, exec] at h ⊢
    rcases h with h | ⟨h, _⟩
    · exact Or.inl (hasComplete_of_backup h)
    · exact Or.inr (hasComplete_of_out h)

theorem save_safe (fs : FS) (p cur : Nat) (chunks : List Nat) (k : Nat) (h : GoodEntry fs p) :
    let st := crashState (saveProg true cur chunks) fs k
    st.hasComplete p = true ∨ st.hasComplete cur = true := by
  obtain ⟨o, b⟩ := fs
  rcases h with h | ⟨ho, hb⟩
  · -- `out` is the complete file
    simp only at h
    subst h
    cases k with
    | zero => exact Or.inl (by simp [crashState, saveProg, saveThen, exec, FS.hasComplete])
    | succ k =>
      cases b with
      | none =>
        cases k with
        | zero => exact Or.inl (by simp [crashState, saveProg, saveThen, exec, FS.get, FS.hasComplete])
        | succ k =>
          cases k with
          | zero => exact Or.inl (by simp [crashState, saveProg, saveThen, exec, FS.get, FS.hasComplete])
          | succ k =>
            have := tail_safe p cur chunks ⟨none, some (.complete p)⟩ k rfl
            simpa [crashState, saveProg, saveThen, exec, FS.get, applyAct, FS.set] using this
      | some bf =>
        cases k with
        | zero => exact Or.inl (by simp [crashState, saveProg, saveThen, exec, FS.get, FS.hasComplete])
        | succ k =>
          cases k with
          | zero => exact Or.inl (by simp [crashState, saveProg, saveThen, exec, FS.get, FS.hasComplete])
          | succ k =>
            cases k with
            | zero =>
              exact Or.inl (by simp [crashState, saveProg, saveThen, exec, FS.get, FS.hasComplete, applyAct, FS.set])
            | succ k =>
              have := tail_safe p cur chunks ⟨none, some (.complete p)⟩ k rfl
              simpa [crashState, saveProg, saveThen, exec, FS.get, applyAct, FS.set] using this
  · -- `out` absent, the complete file is the backup
    simp only at ho hb
    subst ho hb
    cases k with
    | zero => exact Or.inl (by simp [crashState, saveProg, saveThen, exec, FS.hasComplete])
    | succ k =>
      have := tail_safe p cur chunks ⟨none, some (.complete p)⟩ k rfl
      simpa [crashState, saveProg, saveThen, exec, FS.get] using this

/-- a save that is not interrupted ends in the clean state `{out: complete cur, backup: absent}`,
from ANY entry state -/
theorem save_done_clean (fs : FS) (cur : Nat) (chunks : List Nat) (k : Nat)
    (hk : (saveProg true cur chunks).size ≤ k) :
    crashState (saveProg true cur chunks) fs k = ⟨some (.complete cur), none⟩ := by
  obtain ⟨o, b⟩ := fs
  have hsz : ∀ j, (writeThen cur chunks (cleanupThen true .done)).size ≤ j + 1 →
      (writeLoop cur chunks (.act (.close .out cur) (cleanupThen true .done))).size ≤ j := by
    intro j hj
    simp only [writeThen_eq, Prog.size] at hj
    omega
  have tail : ∀ (fs' : FS) (j : Nat), (writeThen cur chunks (cleanupThen true .done)).size ≤ j →
      crashState (writeThen cur chunks (cleanupThen true .done)) fs' j = ⟨some (.complete cur), none⟩ := by
    intro fs' j hj
    cases j with
    | zero => simp [writeThen_eq, Prog.size] at hj
    | succ j =>
      have := writeLoop_done cur chunks (applyAct fs' (.create .out cur)) j (hsz j hj)
      simpa [crashState, writeThen_eq, exec] using this
  simp only [saveProg, saveThen, if_true, Prog.size] at hk
  cases k with
  | zero => omega
  | succ k =>
    cases o with
    | none =>
      have := tail ⟨none, b⟩ k (by omega)
      simpa [crashState, saveProg, saveThen, exec, FS.get] using this
    | some f =>
      cases k with
      | zero => omega
      | succ k =>
        cases b with
        | none =>
          cases k with
          | zero => omega
          | succ k =>
            have := tail ⟨none, some f⟩ k (by omega)
            simpa [crashState, saveProg, saveThen, exec, FS.get, applyAct, FS.set] using this
        | some g =>
          cases k with
          | zero => omega
          | succ k =>
            cases k with
            | zero => omega
            | succ k =>
              have := tail ⟨none, some f⟩ k (by omega)
              simpa [crashState, saveProg, saveThen, exec, FS.get, applyAct, FS.set] using this

/-- number of completed saves and what is left of the budget: a save counts as completed when its last
step (removal of the backup) has been executed. -/
def progress (fs : FS) : List (Nat × List Nat) → Nat → Nat × FS × Nat
  | [], k => (0, fs, k)
  | (c, ch) :: more, k =>
    let r := exec (saveProg true c ch) fs k
    if r.2.2 then
      let r' := progress r.1 more (k - r.2.1.length)
      (r'.1 + 1, r'.2)
    else (0, fs, k)

/-- decomposition of a process with a global crash budget: the first `d` saves are completed, the
crash happens inside save number `d` (if there is one) with the remaining budget. -/
theorem process_decompose (saves : List (Nat × List Nat)) (fs : FS) (k : Nat) :
    let d := (progress fs saves k).1
    let fs' := (progress fs saves k).2.1
    let k' := (progress fs saves k).2.2
    crashState (processProg true saves) fs k =
      match saves.drop d with
      | [] => fs'
      | (c, ch) :: _ => crashState (saveProg true c ch) fs' k' := by
  induction saves generalizing fs k with
  | nil => simp [progress, processProg, crashState, exec]
  | cons s more ih =>
    obtain ⟨c, ch⟩ := s
    simp only [processProg, saveThen_eq_andThen, crashState, exec_andThen, progress]
    by_cases hc : (exec (saveProg true c ch) fs k).2.2 = true
    · simp only [hc, if_true, List.drop_succ_cons]
      exact ih _ _
    · simp only [hc]
      rfl


/-- entry condition with an optional previous checkpoint (none: first save of a fresh run) -/
def Entry (fs : FS) : Option Nat → Prop
  | none => True
  | some p => GoodEntry fs p

/-- last completed content: the last element of the list, `prev` if the list is empty -/
def lastDone (prev : Option Nat) : List Nat → Option Nat
  | [] => prev
  | c :: l => lastDone (some c) l

/-- a save that ran to its end within budget `k` leaves the clean state -/
theorem save_completed_clean (fs : FS) (c : Nat) (ch : List Nat) (k : Nat)
    (hc : (exec (saveProg true c ch) fs k).2.2 = true) :
    (exec (saveProg true c ch) fs k).1 = ⟨some (.complete c), none⟩ := by
  rcases Nat.le_total k (saveProg true c ch).size with hle | hle
  · have := exec_mono (saveProg true c ch) fs k _ hle hc
    have h2 := save_done_clean fs c ch _ (Nat.le_refl _)
    simp only [crashState] at h2
    rw [this] at h2
    exact h2
  · exact save_done_clean fs c ch k hle

/-- invariant of `progress`: the state handed to the next save is good for the last completed content -/
theorem progress_good (saves : List (Nat × List Nat)) (fs : FS) (prev : Option Nat) (k : Nat)
    (h : Entry fs prev) :
    Entry (progress fs saves k).2.1 (lastDone prev ((saves.take (progress fs saves k).1).map (·.1))) := by
  induction saves generalizing fs prev k with
  | nil => simpa [progress, lastDone] using h
  | cons s more ih =>
    obtain ⟨c, ch⟩ := s
    simp only [progress]
    by_cases hc : (exec (saveProg true c ch) fs k).2.2 = true
    · simp only [hc, if_true, List.take_succ_cons, List.map_cons, lastDone]
      have hclean := save_completed_clean fs c ch k hc
      have hg : Entry (exec (saveProg true c ch) fs k).1 (some c) := Or.inl (by rw [hclean])
      exact ih (exec (saveProg true c ch) fs k).1 (some c) (k - (exec (saveProg true c ch) fs k).2.1.length) hg
    · simpa [hc, lastDone] using h

/-! ### shape of the crash states of one save (needed for the second-crash analysis) -/

/-- `out` is being written with content `cur` (or already complete), the backup still holds `b`;
or the save is finished. -/
theorem writeLoop_shape (cur : Nat) (b : File) (chunks : List Nat) (fs : FS) (k : Nat) (j0 : Nat)
    (ho : fs.out = some (.partialW cur j0)) (hb : fs.backup = some b) :
    let st := crashState (writeLoop cur chunks (.act (.close .out cur) (cleanupThen true .done))) fs k
    (st.backup = some b ∧ ((∃ j, st.out = some (.partialW cur j)) ∨ st.out = some (.complete cur))) ∨
    (st.out = some (.complete cur) ∧ st.backup = none) := by
  induction chunks generalizing fs k j0 with
  | nil =>
    simp only [writeLoop, List.foldr, crashState, cleanupThen, if_true]
    cases k with
    | zero => simp [exec, hb, ho]
    | succ k =>
      cases k with
      | zero => simp [exec, applyAct, FS.set, hb]
      | succ k =>
        cases k with
        | zero => simp [exec, applyAct, FS.set, FS.get, hb]
        | succ k => simp [exec, applyAct, FS.set, FS.get, hb]
  | cons c cs ih =>
    cases k with
    | zero => simp [crashState, writeLoop, exec, hb, ho]
    | succ k =>
      have := ih (applyAct fs (.write .out cur c)) k c (by simp [applyAct, FS.set])
        (by simp [applyAct, FS.set, hb])
      simpa [crashState, writeLoop, exec] using this

/-- the possible states after a crash of one save started from a good entry state -/
inductive CrashShape (p cur : Nat) (st : FS) : Prop where
  | old      (h : GoodEntry st p)
  | writing  (j : Nat) (ho : st.out = some (.partialW cur j)) (hb : st.backup = some (.complete p))
  | both     (ho : st.out = some (.complete cur)) (hb : st.backup = some (.complete p))
  | new      (h : Clean st cur)

theorem tail_shape (p cur : Nat) (chunks : List Nat) (k : Nat) :
    CrashShape p cur (crashState (writeThen cur chunks (cleanupThen true .done)) ⟨none, some (.complete p)⟩ k) := by
  cases k with
  | zero => exact .old (Or.inr (by simp [crashState, writeThen_eq, exec]))
  | succ k =>
    have h := writeLoop_shape cur (.complete p) chunks
      (applyAct ⟨none, some (.complete p)⟩ (.create .out cur)) k 0
      (by simp [applyAct, FS.set]) (by simp [applyAct, FS.set])
    simp only [crashState, writeThen_eq, exec] at h ⊢
    rcases h with ⟨hb, ⟨j, ho⟩ | ho⟩ | ⟨ho, hb⟩
    · exact .writing j ho hb
    · exact .both ho hb
    · exact .new ⟨ho, hb⟩

theorem save_shape (fs : FS) (p cur : Nat) (chunks : List Nat) (k : Nat) (h : GoodEntry fs p) :
    CrashShape p cur (crashState (saveProg true cur chunks) fs k) := by
  obtain ⟨o, b⟩ := fs
  rcases h with h | ⟨ho, hb⟩
  · simp only at h
    subst h
    cases k with
    | zero => exact .old (Or.inl (by simp [crashState, saveProg, saveThen, exec]))
    | succ k =>
      cases b with
      | none =>
        cases k with
        | zero => exact .old (Or.inl (by simp [crashState, saveProg, saveThen, exec, FS.get]))
        | succ k =>
          cases k with
          | zero => exact .old (Or.inl (by simp [crashState, saveProg, saveThen, exec, FS.get]))
          | succ k =>
            have := tail_shape p cur chunks k
            simpa [crashState, saveProg, saveThen, exec, FS.get, applyAct, FS.set] using this
      | some bf =>
        cases k with
        | zero => exact .old (Or.inl (by simp [crashState, saveProg, saveThen, exec, FS.get]))
        | succ k =>
          cases k with
          | zero => exact .old (Or.inl (by simp [crashState, saveProg, saveThen, exec, FS.get]))
          | succ k =>
            cases k with
            | zero =>
              exact .old (Or.inl (by simp [crashState, saveProg, saveThen, exec, FS.get, applyAct, FS.set]))
            | succ k =>
              have := tail_shape p cur chunks k
              simpa [crashState, saveProg, saveThen, exec, FS.get, applyAct, FS.set] using this
  · simp only at ho hb
    subst ho hb
    cases k with
    | zero => exact .old (Or.inr (by simp [crashState, saveProg, saveThen, exec]))
    | succ k =>
      have := tail_shape p cur chunks k
      simpa [crashState, saveProg, saveThen, exec, FS.get] using this

/-- start-up of the resumed process (`fix_output_filenames`, run to its end) -/
def resumeStart (fs : FS) : FS := crashState (startupThen true .done) fs 3

theorem resumeStart_out (fs : FS) : (resumeStart fs).out = fs.out := by
  obtain ⟨o, b⟩ := fs
  cases o <;> cases b <;> simp [resumeStart, crashState, startupThen, exec, FS.get, applyAct, FS.set]

theorem resumeStart_backup (fs : FS) (f : File) (h : fs.backup = some f) : (resumeStart fs).backup = some f := by
  obtain ⟨o, b⟩ := fs
  simp only at h
  subst h
  cases o <;> simp [resumeStart, crashState, startupThen, exec, FS.get]

theorem resumeStart_good (fs : FS) (p : Nat) (h : GoodEntry fs p) : GoodEntry (resumeStart fs) p := by
  rcases h with h | ⟨ho, hb⟩
  · exact Or.inl (by rw [resumeStart_out, h])
  · exact Or.inr ⟨by rw [resumeStart_out, ho], resumeStart_backup fs _ hb⟩

end TenpyModel.C18
