import TenpyModel.C18.P2_SortProofs
import TenpyModel.C18.PropsResume
/-!
Lemmas for Part 2 of `Props2.lean`:
* the `…E` machine with `E = emit cfg` is the machine of `Loop.lean`; `emitL cfg (lsOf cfg) = emit cfg`;
* resume equivalence of the `…E` machine for every checkpoint function `E` that leaves loop counter and
  `finished` alone and whose save writes the state the checkpoint ends in (`GoodE`);
* `emitL cfg ls` is such an `E` when the save runs last (`SaveLastL`) and the `other` listeners are `Harmless`;
* the call order restricted to the non-neutral listeners is the sort of the non-neutral listeners
  (stability), hence `SaveLastL`/`MeasureThenSave` from priorities and connection order.
-/
namespace TenpyModel.C18.Loop

/-! ### the generalised machine contains the machine of `Loop.lean` -/

theorem runE_emit (cfg : Cfg) : runE cfg (emit cfg) = run cfg := rfl
theorem snapshotAtE_emit (cfg : Cfg) (j : Nat) : snapshotAtE cfg (emit cfg) j = snapshotAt cfg j := rfl
theorem resumeE_emit (cfg : Cfg) (sn : Snap) : resumeE cfg (emit cfg) sn = resume cfg sn := rfl

theorem callOrderL_lsOf (cfg : Cfg) : callOrderL (lsOf cfg) = (callOrder cfg).map LAct.ofListener := by
  unfold callOrderL lsOf callOrder
  rw [sortByPrioG_map, ← sortByPrioG_eq]
  simp [List.map_map, Function.comp_def]

theorem emitL_lsOf (cfg : Cfg) : emitL cfg (lsOf cfg) = emit cfg := by
  funext s
  unfold emitL emit
  rw [callOrderL_lsOf, List.foldl_map]
  congr
  funext acc l
  cases l <;> rfl

/-! ### what the proofs need of a checkpoint function -/

structure GoodE (cfg : Cfg) (E : Ckpt) : Prop where
  steps : ∀ s, (E s).1.st.steps = s.st.steps
  fin   : ∀ s, (E s).1.finished = s.finished
  snap  : ∀ s, (E s).2 = some (takeSnap cfg (E s).1)

section
variable {cfg : Cfg} {E : Ckpt}

theorem teE_body_steps (h : GoodE cfg E) (s : Sim) : (teBodyE cfg E s).st.steps = s.st.steps + 1 := by
  simp [teBodyE, h.steps, measure, iterate]

theorem teE_body_finished (h : GoodE cfg E) (s : Sim) : (teBodyE cfg E s).finished = s.finished := by
  simp [teBodyE, h.fin, measure, iterate]

theorem te_resume_equivE (h : GoodE cfg E) (hcarry : cfg.carryErr = true)
    (j : Nat) (sn : Snap) (hs : teSnapshotE cfg E j = some sn) : teResumeE cfg E sn = teRunE cfg E := by
  cases j with
  | zero => simp [teSnapshotE] at hs
  | succ j' =>
    simp only [teSnapshotE] at hs
    cases hy : loopG (teStop cfg) (teBodyE cfg E) j' (teStart cfg) with
    | none => simp [hy] at hs
    | some y =>
      simp only [hy] at hs
      split at hs
      next hcond =>
        obtain ⟨hstop, hsteps⟩ := hcond
        have hfin : y.finished = false :=
          loopG_inv (teStop cfg) (teBodyE cfg E) (fun s => s.finished = false)
            (fun x hx => by rw [teE_body_finished h]; exact hx) j' _ y (te_start_finished cfg) hy
        rw [h.snap] at hs
        simp only [Option.some.injEq] at hs
        have hz : restore sn = teBodyE cfg E y := by
          rw [← hs]
          exact restore_takeSnap cfg hcarry _ (by rw [h.fin]; simpa [measure, iterate] using hfin)
        have hlt : j' < cfg.n := by
          simp only [teStop, Option.some.injEq, decide_eq_false_iff_not] at hstop
          omega
        have hμ1 : ∀ x, teStop cfg x = some false →
            cfg.n - (teBodyE cfg E x).st.steps < cfg.n - x.st.steps := by
          intro x hx
          simp only [teStop, Option.some.injEq, decide_eq_false_iff_not] at hx
          rw [teE_body_steps h]; omega
        have hμ0 : ∀ x, cfg.n - x.st.steps = 0 → teStop cfg x = some true := by
          intro x hx
          simp only [teStop, Option.some.injEq, decide_eq_true_eq]
          omega
        have hzsteps : (teBodyE cfg E y).st.steps = j' + 1 := by rw [teE_body_steps h, hsteps]
        have hplain : loopG (teStop cfg) (teBodyE cfg E) cfg.n (teStart cfg)
            = loopG (teStop cfg) (teBodyE cfg E) (cfg.n - (j' + 1)) (teBodyE cfg E y) := by
          have hn : cfg.n = j' + ((cfg.n - (j' + 1)) + 1) := by omega
          conv => lhs; rw [hn]
          rw [loopG_add, hy]
          simp only [Option.bind_some, loopG, hstop]
        have hres : loopG (teStop cfg) (teBodyE cfg E) cfg.n (teBodyE cfg E y)
            = loopG (teStop cfg) (teBodyE cfg E) (cfg.n - (j' + 1)) (teBodyE cfg E y) := by
          have hn : cfg.n = (cfg.n - (j' + 1)) + (j' + 1) := by omega
          conv => lhs; rw [hn]
          exact loopG_fuel (teStop cfg) (teBodyE cfg E) (fun s => cfg.n - s.st.steps) hμ1 hμ0 _ _ _
            (by simp only [hzsteps]; omega)
        simp only [teResumeE, teRunE, hz, hplain, hres]
      next => simp at hs

theorem gsE_body_steps (h : GoodE cfg E) (x : GS) : (gsBodyE cfg E x).sim.st.steps = x.sim.st.steps + 1 := by
  unfold gsBodyE
  cases x.first <;> simp [h.steps, iterate]

theorem gsE_body_finished (h : GoodE cfg E) (x : GS) : (gsBodyE cfg E x).sim.finished = x.sim.finished := by
  unfold gsBodyE
  cases x.first <;> simp [h.fin, iterate]

theorem gs_resume_equivE (h : GoodE cfg E) (hcarry : cfg.carryErr = true) (hdet : GsDet cfg)
    (j : Nat) (sn : Snap) (hs : gsSnapshotE cfg E j = some sn) : gsResumeE cfg E sn = gsRunE cfg E := by
  simp only [gsSnapshotE] at hs
  cases hy : loopG (gsStop cfg) (gsBodyE cfg E) j (gsStart cfg) with
  | none => simp [hy] at hs
  | some y =>
    simp only [hy] at hs
    split at hs
    next hcond =>
      obtain ⟨hstop, hfirst, hsteps⟩ := hcond
      have hfin : y.sim.finished = false :=
        loopG_inv (gsStop cfg) (gsBodyE cfg E) (fun x => x.sim.finished = false)
          (fun x hx => by rw [gsE_body_finished h]; exact hx) j _ y (gs_start_finished cfg) hy
      rw [h.snap y.sim] at hs
      simp only [Option.some.injEq] at hs
      have hz : restore sn = (E y.sim).1 := by
        rw [← hs]
        exact restore_takeSnap cfg hcarry _ (by rw [h.fin]; exact hfin)
      have hle : j ≤ cfg.maxSweeps := by
        rw [gsStop_det cfg hdet] at hstop
        simp only [Option.some.injEq, decide_eq_false_iff_not] at hstop
        omega
      have hμ1 : ∀ x, gsStop cfg x = some false →
          cfg.maxSweeps + 1 - (gsBodyE cfg E x).sim.st.steps < cfg.maxSweeps + 1 - x.sim.st.steps := by
        intro x hx
        rw [gsStop_det cfg hdet] at hx
        simp only [Option.some.injEq, decide_eq_false_iff_not] at hx
        rw [gsE_body_steps h]; omega
      have hμ0 : ∀ x, cfg.maxSweeps + 1 - x.sim.st.steps = 0 → gsStop cfg x = some true := by
        intro x hx
        rw [gsStop_det cfg hdet]
        simp only [Option.some.injEq, decide_eq_true_eq]
        omega
      let z := iterate cfg (E y.sim).1
      have hzsteps : z.st.steps = j + 1 := by simp [z, iterate, h.steps, hsteps]
      have hbody_y : gsBodyE cfg E y = ⟨false, y.since + 1, z⟩ := by simp [gsBodyE, hfirst, z]
      have hbody_r : gsBodyE cfg E ⟨true, 0, restore sn⟩ = ⟨false, 1, z⟩ := by simp [gsBodyE, hz, z]
      have hstop_r : gsStop cfg ⟨true, 0, restore sn⟩ = some false := by
        rw [gsStop_det cfg hdet, hz, h.steps, hsteps]
        simp only [Option.some.injEq, decide_eq_false_iff_not]
        omega
      let c := cfg.maxSweeps - j
      have hplain : loopG (gsStop cfg) (gsBodyE cfg E) (gsFuel cfg) (gsStart cfg)
          = loopG (gsStop cfg) (gsBodyE cfg E) c ⟨false, y.since + 1, z⟩ := by
        have hn : gsFuel cfg = j + ((c + 1) + 1) := by simp only [gsFuel, c]; omega
        rw [hn, loopG_add, hy]
        simp only [Option.bind_some]
        rw [show c + 1 + 1 = (c + 1) + 1 from rfl]
        simp only [loopG, hstop, hbody_y]
        have := loopG_fuel (gsStop cfg) (gsBodyE cfg E) (fun x => cfg.maxSweeps + 1 - x.sim.st.steps) hμ1 hμ0
          c 1 ⟨false, y.since + 1, z⟩ (by simp only [hzsteps, c]; omega)
        exact this
      have hres : loopG (gsStop cfg) (gsBodyE cfg E) (gsFuel cfg) ⟨true, 0, restore sn⟩
          = loopG (gsStop cfg) (gsBodyE cfg E) c ⟨false, 1, z⟩ := by
        have hn : gsFuel cfg = (c + (j + 1)) + 1 := by simp only [gsFuel, c]; omega
        rw [hn]
        simp only [loopG, hstop_r, hbody_r]
        exact loopG_fuel (gsStop cfg) (gsBodyE cfg E) (fun x => cfg.maxSweeps + 1 - x.sim.st.steps) hμ1 hμ0
          c (j + 1) ⟨false, 1, z⟩ (by simp only [hzsteps, c]; omega)
      have hsim := loopG_sim (gsStop cfg) (gsBodyE cfg E) (fun a b => a.first = b.first ∧ a.sim = b.sim)
        (fun a b hab => by
          obtain ⟨h1, h2⟩ := hab
          refine ⟨?_, ?_, ?_⟩
          · rw [gsStop_det cfg hdet, gsStop_det cfg hdet, h2]
          · simp [gsBodyE]
          · simp [gsBodyE, h1, h2])
        c ⟨false, 1, z⟩ ⟨false, y.since + 1, z⟩ ⟨rfl, rfl⟩
      simp only [gsResumeE, gsRunE, hplain, hres]
      rcases hsim with ⟨h1, h2⟩ | ⟨x', y', h1, h2, _, hxy⟩
      · rw [h1, h2]
      · rw [h1, h2]
        simp [gsFinish, hxy]
    next => simp at hs

/-- resume equivalence for every good checkpoint function -/
theorem resume_equivE (h : GoodE cfg E) (hcarry : cfg.carryErr = true) (hgs : cfg.kind = .gs → GsDet cfg)
    (j : Nat) (sn : Snap) (hs : snapshotAtE cfg E j = some sn) : resumeE cfg E sn = runE cfg E := by
  unfold snapshotAtE at hs
  unfold resumeE runE
  cases hk : cfg.kind with
  | te => rw [hk] at hs; exact te_resume_equivE h hcarry j sn hs
  | gs => rw [hk] at hs; exact gs_resume_equivE h hcarry (hgs hk) j sn hs

end

/-! ### `emitL` -/

theorem effective_cons (a : LAct) (l : List LAct) :
    effective (a :: l) = if a.isNeutral then effective l else a.kind :: effective l := by
  cases h : a.isNeutral <;> simp [effective, h]

/-- neutral listeners only: nothing happens -/
theorem fold_neutral (cfg : Cfg) (order : List LAct) (acc : Sim × Option Snap) (h : effective order = []) :
    order.foldl (LAct.apply cfg) acc = acc := by
  induction order generalizing acc with
  | nil => rfl
  | cons a rest ih =>
    rw [effective_cons] at h
    cases a with
    | neutral t =>
      simp only [LAct.isNeutral, LAct.kind, LKind.isNeutral, if_true] at h
      simpa [List.foldl, LAct.apply] using ih acc h
    | save => simp [LAct.isNeutral, LAct.kind, LKind.isNeutral] at h
    | measure => simp [LAct.isNeutral, LAct.kind, LKind.isNeutral] at h
    | other f => simp [LAct.isNeutral, LAct.kind, LKind.isNeutral] at h

/-- **the save runs last ⇒ what it writes is the state the checkpoint ends in** -/
theorem fold_snap (cfg : Cfg) (order : List LAct) (acc : Sim × Option Snap) (h : SaveLastL order) :
    (order.foldl (LAct.apply cfg) acc).2 = some (takeSnap cfg (order.foldl (LAct.apply cfg) acc).1) := by
  induction order generalizing acc with
  | nil => simp [SaveLastL, effective] at h
  | cons a rest ih =>
    simp only [List.foldl]
    cases hE : effective rest with
    | nil =>
      rw [fold_neutral cfg rest _ hE]
      simp only [SaveLastL, effective_cons, hE] at h
      cases a with
      | save => rfl
      | neutral t => simp [LAct.isNeutral, LAct.kind, LKind.isNeutral] at h
      | measure => simp [LAct.isNeutral, LAct.kind, LKind.isNeutral] at h
      | other f => simp [LAct.isNeutral, LAct.kind, LKind.isNeutral] at h
    | cons b bs =>
      apply ih
      simp only [SaveLastL, effective_cons, hE] at h ⊢
      split at h
      · exact h
      · simpa [List.getLast?_cons_cons] using h

theorem fold_inv (cfg : Cfg) (order : List LAct) (hh : ∀ f, LAct.other f ∈ order → Harmless f)
    (acc : Sim × Option Snap) :
    (order.foldl (LAct.apply cfg) acc).1.st.steps = acc.1.st.steps ∧
    (order.foldl (LAct.apply cfg) acc).1.finished = acc.1.finished := by
  induction order generalizing acc with
  | nil => exact ⟨rfl, rfl⟩
  | cons a rest ih =>
    have ih' := fun acc => ih (fun f hf => hh f (List.mem_cons_of_mem _ hf)) acc
    simp only [List.foldl]
    cases a with
    | save => exact ih' _
    | neutral t => exact ih' _
    | measure =>
      have := ih' (LAct.apply cfg acc .measure)
      simpa [LAct.apply, measure] using this
    | other f =>
      have := ih' (LAct.apply cfg acc (.other f))
      have hf := hh f (by simp)
      simp only [LAct.apply] at this
      exact ⟨this.1.trans (hf acc.1).1, this.2.trans (hf acc.1).2⟩

theorem mem_callOrderL (ls : List (LAct × Int)) (a : LAct) : a ∈ callOrderL ls ↔ ∃ p, (a, p) ∈ ls := by
  simp only [callOrderL, List.mem_map, mem_sortByPrioG]
  constructor
  · rintro ⟨⟨a', p⟩, hm, rfl⟩; exact ⟨p, hm⟩
  · rintro ⟨p, hm⟩; exact ⟨(a, p), hm, rfl⟩

theorem goodE_emitL (cfg : Cfg) (ls : List (LAct × Int)) (hlast : SaveLastL (callOrderL ls))
    (hh : HarmlessAll ls) : GoodE cfg (emitL cfg ls) := by
  have hh' : ∀ f, LAct.other f ∈ callOrderL ls → Harmless f := by
    intro f hf
    obtain ⟨p, hp⟩ := (mem_callOrderL ls _).1 hf
    exact hh f p hp
  exact ⟨fun s => (fold_inv cfg _ hh' (s, none)).1, fun s => (fold_inv cfg _ hh' (s, none)).2,
    fun s => fold_snap cfg _ (s, none) hlast⟩

/-! ### call order of the non-neutral listeners -/

/-- **Stability, for listeners**: the non-neutral listeners are called in the order in which the
priority sort would call them if they were connected alone. -/
theorem effective_callOrderL (ls : List (LAct × Int)) :
    effective (callOrderL ls) = (sortByPrioG (effectiveL ls)).map (·.1) := by
  unfold effective callOrderL effectiveL
  rw [List.filter_map, sortByPrioG_map, List.map_map, List.map_map]
  have : ((fun a : LAct => !a.isNeutral) ∘ fun x : LAct × Int => x.1) = fun p : LAct × Int => !p.1.isNeutral := rfl
  rw [this, filter_sortByPrioG]
  rfl

theorem effectiveL_append (l1 l2 : List (LAct × Int)) : effectiveL (l1 ++ l2) = effectiveL l1 ++ effectiveL l2 := by
  simp [effectiveL]

theorem mem_effectiveL (ls : List (LAct × Int)) (q : LKind × Int) :
    q ∈ effectiveL ls ↔ ∃ p ∈ ls, p.1.isNeutral = false ∧ q = (p.1.kind, p.2) := by
  simp only [effectiveL, List.mem_map, List.mem_filter, Bool.not_eq_true']
  constructor
  · rintro ⟨p, ⟨hp, hn⟩, rfl⟩; exact ⟨p, hp, hn, rfl⟩
  · rintro ⟨p, hp, hn, rfl⟩; exact ⟨p, ⟨hp, hn⟩, rfl⟩

/-- **save last, from priorities and connection order** -/
theorem saveLastL_of_prio (l1 l2 : List (LAct × Int)) (ps : Int)
    (h1 : ∀ p ∈ l1, p.1.isNeutral = false → ps ≤ p.2)
    (h2 : ∀ p ∈ l2, p.1.isNeutral = false → ps < p.2) :
    SaveLastL (callOrderL (l1 ++ (LAct.save, ps) :: l2)) := by
  unfold SaveLastL
  rw [effective_callOrderL, effectiveL_append]
  have hc : effectiveL ((LAct.save, ps) :: l2) = (LKind.save, ps) :: effectiveL l2 := by
    simp [effectiveL, LAct.isNeutral, LAct.kind, LKind.isNeutral]
  rw [hc, sort_last (LKind.save, ps) (effectiveL l1) (effectiveL l2)]
  · simp
  · intro q hq
    obtain ⟨p, hp, hn, rfl⟩ := (mem_effectiveL l1 q).1 hq
    exact h1 p hp hn
  · intro q hq
    obtain ⟨p, hp, hn, rfl⟩ := (mem_effectiveL l2 q).1 hq
    exact h2 p hp hn

/-- exactly one measure and one save listener, measure connected first -/
theorem effective_ms (ls : List (LAct × Int)) (pm ps : Int)
    (h : effectiveL ls = [(.measure, pm), (.save, ps)]) :
    effective (callOrderL ls) = if ps ≤ pm then [.measure, .save] else [.save, .measure] := by
  rw [effective_callOrderL, h]
  by_cases hp : ps ≤ pm
  · have : pm ≥ ps := hp
    simp [sortByPrioG, insertByPrioG, this]
  · have : ¬ pm ≥ ps := hp
    simp [sortByPrioG, insertByPrioG, this]

/-- exactly one measure and one save listener, save connected first (as in the source) -/
theorem effective_sm (ls : List (LAct × Int)) (pm ps : Int)
    (h : effectiveL ls = [(.save, ps), (.measure, pm)]) :
    effective (callOrderL ls) = if ps < pm then [.measure, .save] else [.save, .measure] := by
  rw [effective_callOrderL, h]
  by_cases hp : ps < pm
  · have : ¬ ps ≥ pm := by omega
    simp [sortByPrioG, insertByPrioG, this, hp]
  · have : ps ≥ pm := by omega
    simp [sortByPrioG, insertByPrioG, this, hp]

theorem MeasureThenSave.saveLast {order : List LAct} (h : MeasureThenSave order) : SaveLastL order := by
  unfold MeasureThenSave at h
  simp [SaveLastL, h]

/-- with only `save`, `measure` and neutral listeners there is nothing to check for `HarmlessAll` -/
theorem harmlessAll_of_effectiveL (ls : List (LAct × Int)) (h : ∀ q ∈ effectiveL ls, q.1 ≠ LKind.other) :
    HarmlessAll ls := by
  intro f p hp
  exact absurd rfl (h (LKind.other, p) ((mem_effectiveL ls _).2 ⟨(LAct.other f, p), hp, rfl, rfl⟩))

end TenpyModel.C18.Loop
