/-
C18 — the simulation loop as a machine over checkpoints (import-free, executable).

Mirrors
  `Simulation.run / resume_run / init_measurements / make_measurements / save_at_checkpoint`
  `RealTimeEvolution.run_algorithm`          (kind `te`):  while t < final: engine.run(); make_measurements(); checkpoint.emit()
  `IterativeSweeps.run` under `GroundStateSearch` (kind `gs`):
        first = True
        while True: if stopping_criterion(): break
                    if not first: checkpoint.emit()
                    run_iteration(); first = False
        ... final_measurements()
  `Simulation.init_algorithm`:  `engine.checkpoint.connect(self.save_at_checkpoint, priority=-100)`
  `Simulation._connect_measurements`:  with `measure_at_algorithm_checkpoints`,
                                       `engine.checkpoint.connect(make_simulation_measurements)`  (priority 0)
  `EventHandler.emit`: listeners by descending priority, ties in connection order (save was connected first)
  `Algorithm/TimeEvolutionAlgorithm/Sweep.get_resume_data` and the `__init__`s reading `resume_data`.

Abstractions: `psi` after `j` iterations is the number `j` (the state is a deterministic function of
the initial state and the number of iterations as long as it is carried through `resume_data`);
the accumulated truncation error `engine.trunc_err` is a natural number, the error of iteration `i` is
`stepErr i`; a measurement records (measurement_index, evolved_time|sweeps, psi, eps_error).
-/
namespace TenpyModel.C18.Loop

inductive Kind where
  | te
  | gs
deriving Repr, DecidableEq

/-- the engine state components that later iterations or measurements read -/
structure St where
  steps : Nat   -- `evolved_time / (N_steps*dt)` resp. `sweeps`
  psi   : Nat
  err   : Nat   -- `engine.trunc_err` (time evolution)
deriving Repr, DecidableEq

structure Meas where
  index : Nat   -- `measurement_index` = number of measurements made before
  tag   : Nat   -- `evolved_time` resp. `sweeps` when measured
  psi   : Nat
  eps   : Nat   -- `eps_error` = `engine.trunc_err.eps`
deriving Repr, DecidableEq

/-- simulation state: engine + `results['measurements']` + `results['finished_run']` -/
structure Sim where
  st       : St
  meas     : List Meas
  finished : Bool
deriving Repr, DecidableEq

/-- what a checkpoint save writes: `resume_data` (psi, evolved_time|sweeps, trunc_err if carried) and the
measurements so far -/
structure Snap where
  steps : Nat
  psi   : Nat
  err   : Option Nat
  meas  : List Meas
deriving Repr, DecidableEq

structure Cfg where
  kind : Kind
  n : Nat                       -- te: number of `engine.run()` calls until `final_time`
  maxSweeps : Nat               -- gs
  minSweeps : Nat               -- gs
  conv : Nat → Bool             -- gs: convergence criterion on the statistics after `sweeps` sweeps
  guardEmpty : Bool             -- gs: `is_converged` answers False when there are no statistics yet
                                --     (repaired); false = today's code: IndexError
  measureInitial : Bool
  measureAtCheckpoints : Bool
  prioMeasure : Int             -- 0
  prioSave : Int                -- -100
  carryErr : Bool               -- `trunc_err` is part of `resume_data` (repaired); false = today's code
  stepErr : Nat → Nat

def init : Sim := ⟨⟨0, 0, 0⟩, [], false⟩

/-- `make_measurements` -/
def measure (s : Sim) : Sim :=
  { s with meas := s.meas ++ [⟨s.meas.length, s.st.steps, s.st.psi, s.st.err⟩] }

/-- one `engine.run()` / `run_iteration()` -/
def iterate (cfg : Cfg) (s : Sim) : Sim :=
  { s with st := ⟨s.st.steps + 1, s.st.psi + 1, s.st.err + cfg.stepErr s.st.steps⟩ }

def takeSnap (cfg : Cfg) (s : Sim) : Snap :=
  ⟨s.st.steps, s.st.psi, if cfg.carryErr then some s.st.err else none, s.meas⟩

/-- `from_saved_checkpoint` + engine `__init__` with `resume_data`: `trunc_err` starts at 0 unless carried -/
def restore (sn : Snap) : Sim := ⟨⟨sn.steps, sn.psi, sn.err.getD 0⟩, sn.meas, false⟩

inductive Listener where
  | save
  | measure
deriving Repr, DecidableEq

/-- listeners of `engine.checkpoint` in connection order -/
def listeners (cfg : Cfg) : List (Listener × Int) :=
  (Listener.save, cfg.prioSave) :: (if cfg.measureAtCheckpoints then [(Listener.measure, cfg.prioMeasure)] else [])

/-- stable insertion sort by descending priority (`sorted(listeners, key=lambda l: -l.priority)`) -/
def insertByPrio (x : Listener × Int) : List (Listener × Int) → List (Listener × Int)
  | [] => [x]
  | y :: ys => if x.2 ≥ y.2 then x :: y :: ys else y :: insertByPrio x ys

def sortByPrio : List (Listener × Int) → List (Listener × Int)
  | [] => []
  | x :: xs => insertByPrio x (sortByPrio xs)

def callOrder (cfg : Cfg) : List Listener := (sortByPrio (listeners cfg)).map (·.1)

def checkpointOrder (cfg : Cfg) : List String :=
  (callOrder cfg).map (fun | .save => "save" | .measure => "measure")

/-- `engine.checkpoint.emit(engine)`: returns the simulation and what was saved (if a save ran) -/
def emit (cfg : Cfg) (s : Sim) : Sim × Option Snap :=
  (callOrder cfg).foldl
    (fun acc l => match l with
      | .save => (acc.1, some (takeSnap cfg acc.1))
      | .measure => (measure acc.1, acc.2))
    (s, none)

/-- generic `while True: if stop: break; body` with fuel; `none` = an exception was raised -/
def loopG {α : Type} (stop : α → Option Bool) (body : α → α) : Nat → α → Option α
  | 0, x => some x
  | f + 1, x =>
    match stop x with
    | none => none
    | some true => some x
    | some false => loopG stop body f (body x)

/-! ### time evolution -/

def teStop (cfg : Cfg) (s : Sim) : Option Bool := some (decide (cfg.n ≤ s.st.steps))

def teBody (cfg : Cfg) (s : Sim) : Sim := (emit cfg (measure (iterate cfg s))).1

def teStart (cfg : Cfg) : Sim := if cfg.measureInitial then measure init else init

def teFinish (s : Sim) : Sim := { s with finished := true }   -- `final_measurements` does nothing here

def teRun (cfg : Cfg) : Option Sim := (loopG (teStop cfg) (teBody cfg) cfg.n (teStart cfg)).map teFinish

/-- the save at the `j`-th checkpoint (`1 ≤ j ≤ n`) -/
def teSnapshot (cfg : Cfg) (j : Nat) : Option Snap :=
  match j with
  | 0 => none
  | j' + 1 =>
    match loopG (teStop cfg) (teBody cfg) j' (teStart cfg) with
    | some y => if teStop cfg y = some false ∧ y.st.steps = j' then (emit cfg (measure (iterate cfg y))).2 else none
    | none => none

def teResume (cfg : Cfg) (sn : Snap) : Option Sim :=
  (loopG (teStop cfg) (teBody cfg) cfg.n (restore sn)).map teFinish

/-! ### ground-state search (iterative sweeps) -/

/-- loop state: `is_first_sweep`, number of iterations since the (re)start (= `len(sweep_stats['E'])`) -/
structure GS where
  first : Bool
  since : Nat
  sim   : Sim
deriving Repr, DecidableEq

/-- `DMRGEngine.is_converged`: reads `sweep_stats[...][-1]`; `Delta_E` is NaN after the first iteration since
the (re)start, so the criterion can hold from the second one on -/
def isConv (cfg : Cfg) (steps since : Nat) : Option Bool :=
  if since = 0 then (if cfg.guardEmpty then some false else none)
  else some (decide (2 ≤ since) && cfg.conv steps)

/-- `IterativeSweeps.stopping_criterion` (no mixer, no time limit) -/
def gsStop (cfg : Cfg) (x : GS) : Option Bool :=
  if cfg.maxSweeps < x.sim.st.steps then (isConv cfg x.sim.st.steps x.since).map (fun _ => true)
  else if cfg.minSweeps < x.sim.st.steps then isConv cfg x.sim.st.steps x.since
  else some false

def gsBody (cfg : Cfg) (x : GS) : GS :=
  let s' := if x.first then x.sim else (emit cfg x.sim).1
  ⟨false, x.since + 1, iterate cfg s'⟩

def gsStart (cfg : Cfg) : GS := ⟨true, 0, if cfg.measureInitial then measure init else init⟩

def gsFinish (x : GS) : Sim := { measure x.sim with finished := true }   -- `final_measurements`

def gsFuel (cfg : Cfg) : Nat := cfg.maxSweeps + 2

def gsRun (cfg : Cfg) : Option Sim := (loopG (gsStop cfg) (gsBody cfg) (gsFuel cfg) (gsStart cfg)).map gsFinish

/-- the save at the checkpoint after `j` sweeps -/
def gsSnapshot (cfg : Cfg) (j : Nat) : Option Snap :=
  match loopG (gsStop cfg) (gsBody cfg) j (gsStart cfg) with
  | some y =>
    if gsStop cfg y = some false ∧ y.first = false ∧ y.sim.st.steps = j then (emit cfg y.sim).2 else none
  | none => none

def gsResume (cfg : Cfg) (sn : Snap) : Option Sim :=
  (loopG (gsStop cfg) (gsBody cfg) (gsFuel cfg) ⟨true, 0, restore sn⟩).map gsFinish

/-! ### both kinds -/

def run (cfg : Cfg) : Option Sim :=
  match cfg.kind with
  | .te => teRun cfg
  | .gs => gsRun cfg

def snapshotAt (cfg : Cfg) (j : Nat) : Option Snap :=
  match cfg.kind with
  | .te => teSnapshot cfg j
  | .gs => gsSnapshot cfg j

def resume (cfg : Cfg) (sn : Snap) : Option Sim :=
  match cfg.kind with
  | .te => teResume cfg sn
  | .gs => gsResume cfg sn

def resumeFrom (cfg : Cfg) (j : Nat) : Option Sim := (snapshotAt cfg j).bind (resume cfg)

end TenpyModel.C18.Loop
