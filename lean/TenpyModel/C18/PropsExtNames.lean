import TenpyModel.C18.ExtNames
/-!
# C18 extension — theorems about `fix_output_filenames` (model `ExtNames.lean`)

What a user relies on at start-up, for EVERY directory content (any map names → files) and every option set:

* `C18_names_fresh_never_clobbers`  a fresh run without `overwrite_output` never selects an existing file
* `C18_names_minimal`               it selects the first free one of `root, root_1, …, root_99`
* `C18_names_refuse_iff`            it refuses exactly when all 100 candidates exist
* `C18_names_resume_keeps_name`     a run loaded from a checkpoint keeps its output name (with the `Skip` guard);
  `C18_names_resume_skip_counterexample`: without the guard it raises `Skip` — the defect found in this round
* `C18_names_results_untouched`     start-up never changes, creates or removes a results file `out j`, and no
                                    backup name other than the selected one (only the stub, only if absent)
* `C18_names_log_survives`          the previous log survives start-up under `root.log` or `root.backup.log`
* `C18_names_raise_leaves_directory` `Skip` / refusal / no output name: the directory is not touched at all
-/
open TenpyModel.C18.ExtNames

namespace TenpyModel.C18.ExtNames

theorem findFree_some {d : Dir} : ∀ {fuel lo i : Nat}, findFree d lo fuel = some i →
    lo ≤ i ∧ i < lo + fuel ∧ d (.out i) = none ∧ ∀ j, lo ≤ j → j < i → (d (.out j)).isSome = true := by
  intro fuel
  induction fuel with
  | zero => intro lo i h; simp [findFree] at h
  | succ n ih =>
    intro lo i h
    unfold findFree at h
    split at h
    · rename_i hn
      cases h
      refine ⟨Nat.le_refl _, by omega, by simpa using hn, ?_⟩
      intro j h1 h2; omega
    · rename_i hn
      obtain ⟨a, b, c, e⟩ := ih h
      refine ⟨by omega, by omega, c, ?_⟩
      intro j h1 h2
      by_cases hj : j = lo
      · subst hj; cases hd : d (.out j) <;> simp_all
      · exact e j (by omega) h2

theorem findFree_none {d : Dir} : ∀ {fuel lo : Nat}, findFree d lo fuel = none →
    ∀ j, lo ≤ j → j < lo + fuel → (d (.out j)).isSome = true := by
  intro fuel
  induction fuel with
  | zero => intro lo _ j h1 h2; omega
  | succ n ih =>
    intro lo h j h1 h2
    unfold findFree at h
    split at h
    · cases h
    · rename_i hn
      by_cases hj : j = lo
      · subst hj; cases hd : d (.out j) <;> simp_all
      · exact ih h j (by omega) (by omega)

theorem findFree_none_of_all {d : Dir} : ∀ {fuel lo : Nat},
    (∀ j, lo ≤ j → j < lo + fuel → (d (.out j)).isSome = true) → findFree d lo fuel = none := by
  intro fuel
  induction fuel with
  | zero => intro lo _; rfl
  | succ n ih =>
    intro lo h
    unfold findFree
    have h0 := h lo (Nat.le_refl _) (by omega)
    split
    · rename_i hn; cases hd : d (.out lo) <;> simp_all
    · exact ih (fun j h1 h2 => h j (by omega) (by omega))

theorem stub_out (c : Nat) (s : Bool) (d : Dir) (i j : Nat) : stub c s d i (.out j) = d (.out j) := by
  unfold stub; split <;> simp [Dir.set]

theorem stub_log (c : Nat) (s : Bool) (d : Dir) (i : Nat) :
    stub c s d i .log = d .log ∧ stub c s d i .bakLog = d .bakLog := by
  unfold stub; split <;> simp [Dir.set]

theorem stub_bak (c : Nat) (s : Bool) (d : Dir) (i j : Nat) :
    stub c s d i (.bak j) = d (.bak j) ∨ (j = i ∧ d (.bak j) = none ∧ stub c s d i (.bak j) = some c) := by
  unfold stub
  split
  · rename_i h
    by_cases hj : j = i
    · subst hj; right; simp_all [Dir.set]
    · left; simp [Dir.set, hj]
  · left; rfl

theorem rotateLog_out (s : Bool) (d : Dir) (j : Nat) :
    rotateLog s d (.out j) = d (.out j) ∧ rotateLog s d (.bak j) = d (.bak j) := by
  unfold rotateLog; split <;> (try split) <;> simp [Dir.set]

theorem rotateLog_log (s : Bool) (d : Dir) (c : Nat) (h : d .log = some c) :
    rotateLog s d .log = some c ∨ rotateLog s d .bakLog = some c := by
  unfold rotateLog
  split
  · right; split <;> simp [Dir.set, h]
  · left; exact h

theorem fix_ok_or_same (c : Nat) (o : Opts) (d : Dir) :
    (∃ i b, (fixNames c o d).1 = .ok i b) ∨ (fixNames c o d).2 = d := by
  unfold fixNames
  split
  · exact Or.inr rfl
  · split
    · split
      · exact Or.inr rfl
      · split
        · split
          · exact Or.inr rfl
          · exact Or.inl ⟨_, _, rfl⟩
        · exact Or.inl ⟨_, _, rfl⟩
    · exact Or.inl ⟨_, _, rfl⟩

end TenpyModel.C18.ExtNames

/-- **A fresh run never selects an existing file.**  Not loaded from a checkpoint, `overwrite_output` off: whatever
the directory holds, the selected `output_filename` did not exist on entry. -/
theorem C18_names_fresh_never_clobbers (c : Nat) (o : Opts) (d d' : Dir) (i : Nat) (b : Bool)
    (h : fixNames c o d = (.ok i b, d')) (ho : o.overwrite = false) (hl : o.loaded = false) :
    d (.out i) = none := by
  unfold fixNames at h
  simp only [ho, hl] at h
  split at h
  · cases h
  · split at h
    · rename_i h0
      split at h
      · cases h
      · simp only [Bool.not_false, Bool.and_self, ↓reduceIte] at h
        split at h
        · cases h
        · rename_i j hj
          cases h
          exact (findFree_some hj).2.2.1
    · rename_i h0
      cases h
      cases hd : d (.out 0) <;> simp_all

example : (fixNames 9 ⟨true, false, false, false, true, true⟩ (ofList [(.out 0, 5), (.out 1, 6), (.out 3, 7)])).1
    = .ok 2 true := by decide

/-- **First free candidate.**  Under the same hypotheses the selected index is at most 99 and every earlier
candidate `root, root_1, …, root_{i-1}` exists. -/
theorem C18_names_minimal (c : Nat) (o : Opts) (d d' : Dir) (i : Nat) (b : Bool)
    (h : fixNames c o d = (.ok i b, d')) (ho : o.overwrite = false) (hl : o.loaded = false) :
    i ≤ 99 ∧ ∀ j, j < i → (d (.out j)).isSome = true := by
  unfold fixNames at h
  simp only [ho, hl] at h
  split at h
  · cases h
  · split at h
    · rename_i h0
      split at h
      · cases h
      · simp only [Bool.not_false, Bool.and_self, ↓reduceIte] at h
        split at h
        · cases h
        · rename_i j hj
          cases h
          obtain ⟨a1, a2, _, a4⟩ := findFree_some hj
          refine ⟨by omega, ?_⟩
          intro j' hj'
          by_cases hz : j' = 0
          · subst hz; exact h0
          · exact a4 j' (by omega) hj'
    · cases h
      exact ⟨by omega, fun j hj => by omega⟩

example : (fixNames 9 ⟨true, false, false, false, true, true⟩ (ofList [(.out 0, 5), (.out 1, 6)])).1 = .ok 2 true := by
  decide

/-- **Refusal exactly when all 100 candidates exist** (`root` and `root_1 … root_99`), for a fresh run that neither
skips nor overwrites. -/
theorem C18_names_refuse_iff (c : Nat) (o : Opts) (d : Dir) :
    (fixNames c o d).1 = .refused ↔
      (o.hasName = true ∧ o.skip = false ∧ o.overwrite = false ∧ o.loaded = false ∧
        ∀ j, j ≤ 99 → (d (.out j)).isSome = true) := by
  constructor
  · intro h
    unfold fixNames at h
    split at h
    · cases h
    · rename_i hn
      split at h
      · rename_i h0
        split at h
        · cases h
        · rename_i hs
          split at h
          · rename_i hol
            split at h
            · rename_i hf
              have hall := findFree_none hf
              have hl : o.loaded = false := by cases hx : o.loaded <;> simp_all
              have ho : o.overwrite = false := by cases hx : o.overwrite <;> simp_all
              have hsk : o.skip = false := by cases hx : o.skip <;> simp_all
              refine ⟨by simpa using hn, hsk, ho, hl, ?_⟩
              intro j hj
              by_cases hz : j = 0
              · subst hz; exact h0
              · exact hall j (by omega) (by omega)
            · cases h
          · cases h
      · cases h
  · rintro ⟨h1, h2, h3, h4, h5⟩
    have hf : findFree d 1 99 = none := findFree_none_of_all (fun j a b => h5 j (by omega))
    have h0 := h5 0 (by omega)
    unfold fixNames
    simp [h1, h2, h3, h4, h0, hf]

-- non-vacuity: a directory in which every candidate exists
example : (fixNames 9 ⟨true, false, false, false, true, true⟩ (fun n => match n with | .out _ => some 1 | _ => none)).1
    = .refused := by decide

/-- **A resumed run keeps its file name** (with the `Skip` guard of the pending fix): loaded from a checkpoint,
whatever `skip_if_output_exists` / `overwrite_output` say and whatever the directory holds, the output name is the
one in the options and the backup name is the one the interrupted run used. -/
theorem C18_names_resume_keeps_name (c : Nat) (o : Opts) (d : Dir)
    (hn : o.hasName = true) (hl : o.loaded = true) (hg : o.guardSkip = true) :
    (fixNames c o d).1 = .ok 0 o.safe := by
  unfold fixNames
  simp only [hn, hl, hg]
  cases hd : d (.out 0) <;> simp

/-- The code as found (no guard): a run started with `skip_if_output_exists=True` cannot be resumed from its own
output file — start-up raises `Skip`. -/
theorem C18_names_resume_skip_counterexample :
    (fixNames 9 ⟨true, true, false, true, true, false⟩ (ofList [(.out 0, 5)])).1 = .skipped := by decide

example : (fixNames 9 ⟨true, true, false, true, true, true⟩ (ofList [(.out 0, 5)])).1 = .ok 0 true := by decide

/-- **Start-up never touches a results file**: for every outcome, every results name `out j` holds afterwards
exactly what it held before, and so does every backup name except possibly the selected one, which only changes
from absent to the stub. -/
theorem C18_names_results_untouched (c : Nat) (o : Opts) (d : Dir) (j : Nat) :
    (fixNames c o d).2 (.out j) = d (.out j) ∧
    ((fixNames c o d).2 (.bak j) = d (.bak j) ∨
      (d (.bak j) = none ∧ (fixNames c o d).2 (.bak j) = some c ∧ ∃ b, (fixNames c o d).1 = .ok j b)) := by
  unfold fixNames
  split
  · exact ⟨rfl, Or.inl rfl⟩
  · split
    · split
      · exact ⟨rfl, Or.inl rfl⟩
      · split
        · split
          · exact ⟨rfl, Or.inl rfl⟩
          · rename_i i _
            refine ⟨stub_out .., ?_⟩
            rcases stub_bak c o.safe d i j with h | ⟨h1, h2, h3⟩
            · exact Or.inl h
            · subst h1; exact Or.inr ⟨h2, h3, _, rfl⟩
        · refine ⟨?_, ?_⟩
          · dsimp only; rw [stub_out]; split
            · exact (rotateLog_out ..).1
            · rfl
          · have hb : (if (o.overwrite && !o.loaded) = true then rotateLog o.safe d else d) (.bak j) = d (.bak j) := by
              split
              · exact (rotateLog_out ..).2
              · rfl
            rcases stub_bak c o.safe (if (o.overwrite && !o.loaded) = true then rotateLog o.safe d else d) 0 j
              with h | ⟨h1, h2, h3⟩
            · exact Or.inl (h.trans hb)
            · subst h1; exact Or.inr ⟨hb ▸ h2, h3, _, rfl⟩
    · refine ⟨stub_out .., ?_⟩
      rcases stub_bak c o.safe d 0 j with h | ⟨h1, h2, h3⟩
      · exact Or.inl h
      · subst h1; exact Or.inr ⟨h2, h3, _, rfl⟩

example : (fixNames 9 ⟨true, false, true, false, true, true⟩ (ofList [(.out 0, 5), (.log, 3), (.bakLog, 2)])).2 (.bak 0)
    = some 9 := by decide

/-- **The previous log survives**: whatever start-up does (rotation to `root.backup.log` under `overwrite_output`,
nothing otherwise), the content of the old log file is afterwards under `root.log` or `root.backup.log`. -/
theorem C18_names_log_survives (c : Nat) (o : Opts) (d : Dir) (l : Nat) (h : d .log = some l) :
    (fixNames c o d).2 .log = some l ∨ (fixNames c o d).2 .bakLog = some l := by
  unfold fixNames
  split
  · exact Or.inl h
  · split
    · split
      · exact Or.inl h
      · split
        · split
          · exact Or.inl h
          · exact Or.inl ((stub_log ..).1.trans h)
        · dsimp only; rw [(stub_log ..).1, (stub_log ..).2]
          split
          · exact rotateLog_log _ _ _ h
          · exact Or.inl h
    · exact Or.inl ((stub_log ..).1.trans h)

example : (fixNames 9 ⟨true, false, true, false, true, true⟩ (ofList [(.out 0, 5), (.log, 3), (.bakLog, 2)])).2 .bakLog
    = some 3 := by decide

/-- **A start-up that raises (or has no output name) leaves the directory alone.** -/
theorem C18_names_raise_leaves_directory (c : Nat) (o : Opts) (d : Dir)
    (h : ∀ i b, (fixNames c o d).1 ≠ .ok i b) : (fixNames c o d).2 = d := by
  rcases fix_ok_or_same c o d with ⟨i, b, hh⟩ | h'
  · exact absurd hh (h i b)
  · exact h'

example : (fixNames 9 ⟨true, true, false, false, true, true⟩ (ofList [(.out 0, 5)])).1 = .skipped := by decide
