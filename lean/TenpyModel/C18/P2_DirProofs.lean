import TenpyModel.C18.P2_Dir
import TenpyModel.C18.CrashProofs
/-!
Refinement lemma for `P2_Dir.lean`: the step-by-step directory semantics `execLift` is the two-file
semantics `exec` on the projection `{out, backup}`, with every other name untouched (`execDir`).
-/
namespace TenpyModel.C18

variable {N : Type} [DecidableEq N]

omit [DecidableEq N] in
theorem Two.ne' (T : Two N) : T.backup ≠ T.out := fun h => T.ne h.symm

omit [DecidableEq N] in
theorem Dir.get_nm (d : Dir N) (T : Two N) (n : Name) : d (T.nm n) = (d.proj T).get n := by
  cases n <;> rfl

omit [DecidableEq N] in
theorem Two.nm_inj (T : Two N) (s t : Name) : T.nm s = T.nm t ↔ s = t := by
  cases s <;> cases t <;> simp [Two.nm, T.ne, T.ne']

@[simp] theorem Dir.proj_put (d : Dir N) (T : Two N) (fs : FS) : (d.put T fs).proj T = fs := by
  obtain ⟨o, b⟩ := fs
  simp [Dir.proj, Dir.put, T.ne']

@[simp] theorem Dir.put_put (d : Dir N) (T : Two N) (fs fs' : FS) : (d.put T fs).put T fs' = d.put T fs' := by
  funext x
  simp only [Dir.put]
  split
  · rfl
  · split <;> rfl

@[simp] theorem Dir.put_proj (d : Dir N) (T : Two N) : d.put T (d.proj T) = d := by
  funext x
  simp only [Dir.put, Dir.proj]
  split
  · next h => rw [h]
  · split
    · next h => rw [h]
    · rfl

/-- the frame property of `put` -/
theorem Dir.put_other (d : Dir N) (T : Two N) (fs : FS) (x : N) (ho : x ≠ T.out) (hb : x ≠ T.backup) :
    (d.put T fs) x = d x := by
  simp [Dir.put, ho, hb]

theorem Dir.put_out (d : Dir N) (T : Two N) (fs : FS) : (d.put T fs) T.out = fs.out := by
  simp [Dir.put]

theorem Dir.put_backup (d : Dir N) (T : Two N) (fs : FS) : (d.put T fs) T.backup = fs.backup := by
  simp [Dir.put, T.ne']

/-- writing one of the two names in the directory = writing it in the two-file view -/
theorem Dir.set_nm (d : Dir N) (T : Two N) (n : Name) (v : Option File) :
    d.set (T.nm n) v = d.put T ((d.proj T).set n v) := by
  funext x
  have hne := T.ne
  have hne' := T.ne'
  cases n
  · simp only [Dir.set, Two.nm, Dir.put, FS.set, Dir.proj]
    by_cases h1 : x = T.out
    · subst h1; simp
    · by_cases h2 : x = T.backup
      · subst h2; simp [hne']
      · simp [h1, h2]
  · simp only [Dir.set, Two.nm, Dir.put, FS.set, Dir.proj]
    by_cases h1 : x = T.out
    · subst h1; simp [hne]
    · by_cases h2 : x = T.backup
      · subst h2; simp [hne']
      · simp [h1, h2]

/-- **one atomic step commutes with the projection** -/
theorem applyActDir_eq (T : Two N) (d : Dir N) (a : Act) :
    applyActDir T d a = d.put T (applyAct (d.proj T) a) := by
  cases a with
  | unlink n => simp only [applyActDir, applyAct, Dir.set_nm]
  | create n c => simp only [applyActDir, applyAct, Dir.set_nm]
  | write n c k => simp only [applyActDir, applyAct, Dir.set_nm]
  | close n c => simp only [applyActDir, applyAct, Dir.set_nm]
  | stub n => simp only [applyActDir, applyAct, Dir.set_nm]
  | rename s t =>
    simp only [applyActDir, applyAct, Dir.get_nm, Two.nm_inj]
    cases (d.proj T).get s with
    | none => simp
    | some f =>
      simp only
      split
      · simp
      · rw [Dir.set_nm, Dir.set_nm, Dir.proj_put, Dir.put_put]

/-- **Refinement.**  Running a program step by step in the directory = running the two-file model on
the projection and putting its result back; same trace, same completion flag. -/
theorem execLift_eq_execDir (T : Two N) (p : Prog) (d : Dir N) (k : Nat) :
    execLift T p d k = execDir T p d k := by
  induction p generalizing d k with
  | done => simp [execLift, execDir, exec]
  | ifExists n t e iht ihe =>
    cases k with
    | zero => simp [execLift, execDir, exec]
    | succ k =>
      simp only [execLift, execDir, exec, Dir.get_nm]
      by_cases hb : ((d.proj T).get n).isSome = true
      · simp only [hb, if_true, iht, execDir]
      · have hb' : ((d.proj T).get n).isSome = false := by simpa using hb
        simp only [hb', Bool.false_eq_true, if_false, ihe, execDir]
  | act a r ih =>
    cases k with
    | zero => simp [execLift, execDir, exec]
    | succ k =>
      simp only [execLift, execDir, exec, ih, applyActDir_eq, Dir.proj_put, Dir.put_put]

theorem crashStateDir_eq (T : Two N) (p : Prog) (d : Dir N) (k : Nat) :
    crashStateDir T p d k = d.put T (crashState p (d.proj T) k) := by
  simp [crashStateDir, execLift_eq_execDir, execDir, crashState]

/-- the frame: no program touches a name other than the two distinguished ones -/
theorem crashStateDir_frame (T : Two N) (p : Prog) (d : Dir N) (k : Nat) :
    SameElsewhere T d (crashStateDir T p d k) := by
  intro x ho hb
  rw [crashStateDir_eq, Dir.put_other _ _ _ _ ho hb]

theorem crashStateDir_proj (T : Two N) (p : Prog) (d : Dir N) (k : Nat) :
    (crashStateDir T p d k).proj T = crashState p (d.proj T) k := by
  rw [crashStateDir_eq, Dir.proj_put]

omit [DecidableEq N] in
theorem dirHasComplete_iff (T : Two N) (d : Dir N) (c : Nat) :
    DirHasComplete T d c ↔ (d.proj T).hasComplete c = true := by
  simp [DirHasComplete, FS.hasComplete, Dir.proj]

end TenpyModel.C18
