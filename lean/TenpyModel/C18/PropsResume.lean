import TenpyModel.C18.LoopProofs
/-!
# C18 — resume equivalence in the loop machine

"Resuming from any checkpoint finishes the simulation with the same final state, energies and the same
sequence of measurements, none lost and none duplicated, as an uninterrupted run."

`Sim` = engine state (`steps`, `psi`, accumulated `trunc_err`) + the list of measurement records + the
`finished_run` flag, so `resume cfg sn = run cfg` says all of that at once.

* `C18_resume_equiv`     every checkpoint `j`, both loop kinds, under the hypotheses the proof needs:
    - `SaveLast`   the measurement listener runs before the save listener (priorities 0 > -100)
    - `carryErr`   `trunc_err` is part of `resume_data` (repaired; today's code: counterexample below)
    - ground-state search: `is_converged` answers False without statistics (repaired; today: IndexError) and
      the loop is in the deterministic class (stops by `max_sweeps`, criterion never fires)
* `C18_resume_trunc_err_counterexample`, `C18_resume_priority_counterexample`,
  `C18_resume_unguarded_counterexample`: each hypothesis is necessary (concrete runs, `decide`)
* `C18_listener_order`   with the priorities of the source (0 and -100) the call order is measure, save
-/
open TenpyModel.C18.Loop

namespace TenpyModel.C18.Loop

theorem te_body_steps (cfg : Cfg) (s : Sim) : (teBody cfg s).st.steps = s.st.steps + 1 := by
  simp [teBody, emit_st, measure, iterate]

theorem te_body_finished (cfg : Cfg) (s : Sim) : (teBody cfg s).finished = s.finished := by
  simp [teBody, emit_finished, measure, iterate]

theorem te_start_finished (cfg : Cfg) : (teStart cfg).finished = false := by
  unfold teStart; split <;> simp [measure, init]

theorem te_resume_equiv (cfg : Cfg) (horder : SaveLast cfg) (hcarry : cfg.carryErr = true)
    (j : Nat) (sn : Snap) (hs : teSnapshot cfg j = some sn) : teResume cfg sn = teRun cfg := by
  cases j with
  | zero => simp [teSnapshot] at hs
  | succ j' =>
    simp only [teSnapshot] at hs
    cases hy : loopG (teStop cfg) (teBody cfg) j' (teStart cfg) with
    | none => simp [hy] at hs
    | some y =>
      simp only [hy] at hs
      split at hs
      next hcond =>
        obtain ⟨hstop, hsteps⟩ := hcond
        -- the snapshot is the state after the body of iteration j'+1
        have hfin : y.finished = false :=
          loopG_inv (teStop cfg) (teBody cfg) (fun s => s.finished = false)
            (fun x hx => by rw [te_body_finished]; exact hx) j' _ y (te_start_finished cfg) hy
        have hsnap := emit_snap cfg horder (measure (iterate cfg y))
        rw [hsnap] at hs
        simp only [Option.some.injEq] at hs
        have hz : restore sn = teBody cfg y := by
          rw [← hs]
          exact restore_takeSnap cfg hcarry _ (by rw [emit_finished]; simpa [measure, iterate] using hfin)
        -- y is not stopped: j' < n
        have hlt : j' < cfg.n := by
          simp only [teStop, Option.some.injEq, decide_eq_false_iff_not] at hstop
          omega
        have hμ1 : ∀ x, teStop cfg x = some false → cfg.n - (teBody cfg x).st.steps < cfg.n - x.st.steps := by
          intro x hx
          simp only [teStop, Option.some.injEq, decide_eq_false_iff_not] at hx
          rw [te_body_steps]; omega
        have hμ0 : ∀ x, cfg.n - x.st.steps = 0 → teStop cfg x = some true := by
          intro x hx
          simp only [teStop, Option.some.injEq, decide_eq_true_eq]
          omega
        have hzsteps : (teBody cfg y).st.steps = j' + 1 := by rw [te_body_steps, hsteps]
        -- plain run: j' iterations, then one more, then the rest
        have hplain : loopG (teStop cfg) (teBody cfg) cfg.n (teStart cfg)
            = loopG (teStop cfg) (teBody cfg) (cfg.n - (j' + 1)) (teBody cfg y) := by
          have hn : cfg.n = j' + ((cfg.n - (j' + 1)) + 1) := by omega
          conv => lhs; rw [hn]
          rw [loopG_add, hy]
          simp only [Option.bind_some, loopG, hstop]
        have hres : loopG (teStop cfg) (teBody cfg) cfg.n (teBody cfg y)
            = loopG (teStop cfg) (teBody cfg) (cfg.n - (j' + 1)) (teBody cfg y) := by
          have hn : cfg.n = (cfg.n - (j' + 1)) + (j' + 1) := by omega
          conv => lhs; rw [hn]
          exact loopG_fuel (teStop cfg) (teBody cfg) (fun s => cfg.n - s.st.steps) hμ1 hμ0 _ _ _
            (by simp only [hzsteps]; omega)
        simp only [teResume, teRun, hz, hplain, hres]
      next => simp at hs

/-! ground-state search -/

theorem gs_body_steps (cfg : Cfg) (x : GS) : (gsBody cfg x).sim.st.steps = x.sim.st.steps + 1 := by
  unfold gsBody
  cases x.first <;> simp [emit_st, iterate]

/-- deterministic class: the convergence criterion never fires, `is_converged` is guarded -/
structure GsDet (cfg : Cfg) : Prop where
  guard : cfg.guardEmpty = true
  conv  : ∀ s, cfg.conv s = false

theorem isConv_det (cfg : Cfg) (h : GsDet cfg) (steps since : Nat) : isConv cfg steps since = some false := by
  unfold isConv
  by_cases hs : since = 0
  · simp [hs, h.guard]
  · simp [hs, h.conv]

theorem gsStop_det (cfg : Cfg) (h : GsDet cfg) (x : GS) :
    gsStop cfg x = some (decide (cfg.maxSweeps < x.sim.st.steps)) := by
  unfold gsStop
  by_cases h1 : cfg.maxSweeps < x.sim.st.steps
  · simp [h1, isConv_det cfg h]
  · by_cases h2 : cfg.minSweeps < x.sim.st.steps <;> simp [h1, h2, isConv_det cfg h]

theorem gs_start_finished (cfg : Cfg) : (gsStart cfg).sim.finished = false := by
  unfold gsStart; split <;> simp [measure, init]

theorem gs_body_finished (cfg : Cfg) (x : GS) : (gsBody cfg x).sim.finished = x.sim.finished := by
  unfold gsBody
  cases x.first <;> simp [emit_finished, iterate]

theorem gs_resume_equiv (cfg : Cfg) (horder : SaveLast cfg) (hcarry : cfg.carryErr = true) (hdet : GsDet cfg)
    (j : Nat) (sn : Snap) (hs : gsSnapshot cfg j = some sn) : gsResume cfg sn = gsRun cfg := by
  simp only [gsSnapshot] at hs
  cases hy : loopG (gsStop cfg) (gsBody cfg) j (gsStart cfg) with
  | none => simp [hy] at hs
  | some y =>
    simp only [hy] at hs
    split at hs
    next hcond =>
      obtain ⟨hstop, hfirst, hsteps⟩ := hcond
      have hfin : y.sim.finished = false :=
        loopG_inv (gsStop cfg) (gsBody cfg) (fun x => x.sim.finished = false)
          (fun x hx => by rw [gs_body_finished]; exact hx) j _ y (gs_start_finished cfg) hy
      rw [emit_snap cfg horder y.sim] at hs
      simp only [Option.some.injEq] at hs
      have hz : restore sn = (emit cfg y.sim).1 := by
        rw [← hs]
        exact restore_takeSnap cfg hcarry _ (by rw [emit_finished]; exact hfin)
      have hle : j ≤ cfg.maxSweeps := by
        rw [gsStop_det cfg hdet] at hstop
        simp only [Option.some.injEq, decide_eq_false_iff_not] at hstop
        omega
      -- measure and its two properties
      have hμ1 : ∀ x, gsStop cfg x = some false →
          cfg.maxSweeps + 1 - (gsBody cfg x).sim.st.steps < cfg.maxSweeps + 1 - x.sim.st.steps := by
        intro x hx
        rw [gsStop_det cfg hdet] at hx
        simp only [Option.some.injEq, decide_eq_false_iff_not] at hx
        rw [gs_body_steps]; omega
      have hμ0 : ∀ x, cfg.maxSweeps + 1 - x.sim.st.steps = 0 → gsStop cfg x = some true := by
        intro x hx
        rw [gsStop_det cfg hdet]
        simp only [Option.some.injEq, decide_eq_true_eq]
        omega
      -- the two states after the first iteration following checkpoint j
      let z := iterate cfg (emit cfg y.sim).1
      have hzsteps : z.st.steps = j + 1 := by simp [z, iterate, emit_st, hsteps]
      have hbody_y : gsBody cfg y = ⟨false, y.since + 1, z⟩ := by simp [gsBody, hfirst, z]
      have hbody_r : gsBody cfg ⟨true, 0, restore sn⟩ = ⟨false, 1, z⟩ := by simp [gsBody, hz, z]
      have hstop_r : gsStop cfg ⟨true, 0, restore sn⟩ = some false := by
        rw [gsStop_det cfg hdet, hz, emit_st, hsteps]
        simp only [Option.some.injEq, decide_eq_false_iff_not]
        omega
      let c := cfg.maxSweeps - j
      have hplain : loopG (gsStop cfg) (gsBody cfg) (gsFuel cfg) (gsStart cfg)
          = loopG (gsStop cfg) (gsBody cfg) c ⟨false, y.since + 1, z⟩ := by
        have hn : gsFuel cfg = j + ((c + 1) + 1) := by simp only [gsFuel, c]; omega
        rw [hn, loopG_add, hy]
        simp only [Option.bind_some]
        rw [show c + 1 + 1 = (c + 1) + 1 from rfl]
        simp only [loopG, hstop, hbody_y]
        have := loopG_fuel (gsStop cfg) (gsBody cfg) (fun x => cfg.maxSweeps + 1 - x.sim.st.steps) hμ1 hμ0
          c 1 ⟨false, y.since + 1, z⟩ (by simp only [hzsteps, c]; omega)
        exact this
      have hres : loopG (gsStop cfg) (gsBody cfg) (gsFuel cfg) ⟨true, 0, restore sn⟩
          = loopG (gsStop cfg) (gsBody cfg) c ⟨false, 1, z⟩ := by
        have hn : gsFuel cfg = (c + (j + 1)) + 1 := by simp only [gsFuel, c]; omega
        rw [hn]
        simp only [loopG, hstop_r, hbody_r]
        exact loopG_fuel (gsStop cfg) (gsBody cfg) (fun x => cfg.maxSweeps + 1 - x.sim.st.steps) hμ1 hμ0
          c (j + 1) ⟨false, 1, z⟩ (by simp only [hzsteps, c]; omega)
      -- simulation relation: same `first`, same simulation; `since` is invisible in the deterministic class
      have hsim := loopG_sim (gsStop cfg) (gsBody cfg) (fun a b => a.first = b.first ∧ a.sim = b.sim)
        (fun a b hab => by
          obtain ⟨h1, h2⟩ := hab
          refine ⟨?_, ?_, ?_⟩
          · rw [gsStop_det cfg hdet, gsStop_det cfg hdet, h2]
          · simp [gsBody]
          · simp [gsBody, h1, h2])
        c ⟨false, 1, z⟩ ⟨false, y.since + 1, z⟩ ⟨rfl, rfl⟩
      simp only [gsResume, gsRun, hplain, hres]
      rcases hsim with ⟨h1, h2⟩ | ⟨x', y', h1, h2, _, hxy⟩
      · rw [h1, h2]
      · rw [h1, h2]
        simp [gsFinish, hxy]
    next => simp at hs

end TenpyModel.C18.Loop

/-- **Resume ≡ uninterrupted run, every checkpoint.**  If the save at checkpoint `j` of the plain run wrote
`sn`, then resuming from `sn` ends in exactly the simulation state of the plain run: same engine state
(`steps`, `psi`, accumulated truncation error), same list of measurement records (index, loop counter,
state, eps) — none lost, none duplicated — and `finished_run`.  Hypotheses = the state components the
proof had to find in `resume_data` / the order it needed:
measure-before-save, `trunc_err` carried, and for ground-state searches the guarded `is_converged`
in the deterministic loop class. -/
theorem C18_resume_equiv (cfg : Cfg) (horder : SaveLast cfg) (hcarry : cfg.carryErr = true)
    (hgs : cfg.kind = .gs → GsDet cfg) (j : Nat) (sn : Snap) (hs : snapshotAt cfg j = some sn) :
    resume cfg sn = run cfg := by
  unfold snapshotAt at hs
  unfold resume run
  cases hk : cfg.kind with
  | te => rw [hk] at hs; exact te_resume_equiv cfg horder hcarry j sn hs
  | gs => rw [hk] at hs; exact gs_resume_equiv cfg horder hcarry (hgs hk) j sn hs

instance (cfg : Cfg) : Decidable (SaveLast cfg) := by unfold SaveLast; exact inferInstance

/-- the configuration of the source: priorities 0 and -100, repaired resume data -/
def cfgTE : Cfg where
  kind := .te
  n := 4
  maxSweeps := 0
  minSweeps := 0
  conv := fun _ => false
  guardEmpty := true
  measureInitial := true
  measureAtCheckpoints := false
  prioMeasure := 0
  prioSave := -100
  carryErr := true
  stepErr := fun i => 2 ^ i

def cfgGS : Cfg where
  kind := .gs
  n := 0
  maxSweeps := 4
  minSweeps := 1
  conv := fun _ => false
  guardEmpty := true
  measureInitial := true
  measureAtCheckpoints := true
  prioMeasure := 0
  prioSave := -100
  carryErr := true
  stepErr := fun _ => 0

-- non-vacuity: snapshots exist at the checkpoints, and the resumed runs are the plain run
example : (snapshotAt cfgTE 2).isSome = true ∧ resumeFrom cfgTE 2 = run cfgTE ∧ (run cfgTE).isSome = true := by
  decide +kernel
example : ((run cfgTE).map (fun s => s.meas.map (·.eps))) = some [0, 1, 3, 7, 15] := by decide +kernel
example : (snapshotAt cfgGS 3).isSome = true ∧ resumeFrom cfgGS 3 = run cfgGS ∧ (run cfgGS).isSome = true := by
  decide +kernel
example : ((run cfgGS).map (fun s => s.meas.map (·.tag))) = some [0, 1, 2, 3, 4, 5] := by decide +kernel

/-- **With the priorities of the source the measurement runs before the save.** -/
theorem C18_listener_order (cfg : Cfg) (hm : cfg.measureAtCheckpoints = true) (h0 : cfg.prioMeasure = 0)
    (h100 : cfg.prioSave = -100) : callOrder cfg = [.measure, .save] := by
  have hs : SaveLast cfg := fun _ => by rw [h0, h100]; decide
  rcases callOrder_cases cfg hs with h | h
  · simp [callOrder, listeners, hm, sortByPrio, insertByPrio, h0, h100] at h
  · exact h

/-- **`trunc_err` missing from `resume_data` (today's code) breaks the equivalence**: the `eps_error`
measurements after the resume restart from 0. -/
theorem C18_resume_trunc_err_counterexample :
    ∃ cfg j, SaveLast cfg ∧ cfg.kind = .te ∧ cfg.carryErr = false ∧ (snapshotAt cfg j).isSome = true ∧
      resumeFrom cfg j ≠ run cfg :=
  ⟨{ cfgTE with carryErr := false }, 2, by decide +kernel⟩

example : ((resumeFrom { cfgTE with carryErr := false } 2).map (fun s => s.meas.map (·.eps)))
    = some [0, 1, 3, 4, 12] := by decide +kernel

/-- **Saving before measuring loses a measurement**: with the save listener first, the file written at
checkpoint `j` lacks the measurement of that checkpoint and the resumed run never makes it. -/
theorem C18_resume_priority_counterexample :
    ∃ cfg j, ¬ SaveLast cfg ∧ cfg.carryErr = true ∧ GsDet cfg ∧ (snapshotAt cfg j).isSome = true ∧
      resumeFrom cfg j ≠ run cfg :=
  ⟨{ cfgGS with prioSave := 0 }, 2,
    by simp [SaveLast, cfgGS], rfl, ⟨rfl, fun _ => rfl⟩, by decide +kernel, by decide +kernel⟩

example : ((resumeFrom { cfgGS with prioSave := 0 } 2).map (fun s => s.meas.map (·.tag)))
    = some [0, 1, 3, 4, 5] := by decide +kernel

/-- **Unguarded `is_converged` (today's code)**: resuming a DMRG run from a checkpoint with
`sweeps > min_sweeps` raises (modelled as `none`) although the plain run is fine. -/
theorem C18_resume_unguarded_counterexample :
    ∃ cfg j, SaveLast cfg ∧ cfg.carryErr = true ∧ cfg.guardEmpty = false ∧
      (snapshotAt cfg j).isSome = true ∧ (run cfg).isSome = true ∧ resumeFrom cfg j = none :=
  ⟨{ cfgGS with guardEmpty := false }, 2, by decide +kernel⟩

/-! ### convergence-controlled loops: no checkpoint measured twice, none skipped -/

namespace TenpyModel.C18.Loop

/-- bookkeeping invariant at the top of the sweep loop: the measurements made so far carry the loop-counter
tags `0, 1, …` and the indices `0, 1, …` without gap or repetition; before the first iteration of a
(re)started loop the measurement of the current counter value is already there. -/
def Tagged (x : GS) : Prop :=
  x.sim.meas.map (·.tag) = List.range (x.sim.st.steps + (if x.first then 1 else 0)) ∧
  x.sim.meas.map (·.index) = List.range (x.sim.st.steps + (if x.first then 1 else 0))

theorem measure_tagged (s : Sim) (n : Nat) (ht : s.meas.map (·.tag) = List.range n)
    (hi : s.meas.map (·.index) = List.range n) (hn : s.st.steps = n) :
    (measure s).meas.map (·.tag) = List.range (n + 1) ∧ (measure s).meas.map (·.index) = List.range (n + 1) := by
  have hlen : s.meas.length = n := by
    have := congrArg List.length ht
    simpa using this
  simp [measure, ht, hi, hn, hlen, List.range_succ]

theorem emit_measure_save (cfg : Cfg) (hm : cfg.measureAtCheckpoints = true) (h : SaveLast cfg) (s : Sim) :
    (emit cfg s).1 = measure s := by
  have hc : callOrder cfg = [.measure, .save] := by
    rcases callOrder_cases cfg h with h' | h'
    · simp [callOrder, listeners, hm, sortByPrio, insertByPrio] at h'
      split at h' <;> simp at h'
    · exact h'
  simp [emit, hc]

theorem gsBody_tagged (cfg : Cfg) (hm : cfg.measureAtCheckpoints = true) (h : SaveLast cfg) (x : GS)
    (hx : Tagged x) : Tagged (gsBody cfg x) ∧ (gsBody cfg x).first = false := by
  refine ⟨?_, rfl⟩
  obtain ⟨ht, hi⟩ := hx
  cases hf : x.first with
  | true =>
    simp only [hf, if_true] at ht hi
    simp [Tagged, gsBody, hf, iterate, ht, hi]
  | false =>
    simp only [hf, Bool.false_eq_true, if_false, Nat.add_zero] at ht hi
    have := measure_tagged x.sim x.sim.st.steps ht hi rfl
    simp only [Tagged, gsBody, hf, Bool.false_eq_true, if_false, emit_measure_save cfg hm h, iterate, Nat.add_zero]
    simpa [measure] using this

theorem gs_no_dup_no_skip (cfg : Cfg) (hm : cfg.measureAtCheckpoints = true) (hi : cfg.measureInitial = true)
    (horder : SaveLast cfg) (hcarry : cfg.carryErr = true) (j : Nat) (sn : Snap) (s : Sim)
    (hs : gsSnapshot cfg j = some sn) (hr : gsResume cfg sn = some s) :
    s.meas.map (·.tag) = List.range (s.st.steps + 1) ∧ s.meas.map (·.index) = List.range (s.st.steps + 1) := by
  -- the plain prefix up to checkpoint j satisfies the invariant
  simp only [gsSnapshot] at hs
  cases hy : loopG (gsStop cfg) (gsBody cfg) j (gsStart cfg) with
  | none => simp [hy] at hs
  | some y =>
    simp only [hy] at hs
    split at hs
    next hcond =>
      obtain ⟨hstop, hfirst, hsteps⟩ := hcond
      have hstart : Tagged (gsStart cfg) := by
        simp [Tagged, gsStart, hi, measure, init]
      have hyT : Tagged y :=
        loopG_inv (gsStop cfg) (gsBody cfg) Tagged (fun x hx => (gsBody_tagged cfg hm horder x hx).1) j _ y hstart hy
      have hfin : y.sim.finished = false :=
        loopG_inv (gsStop cfg) (gsBody cfg) (fun x => x.sim.finished = false)
          (fun x hx => by rw [gs_body_finished]; exact hx) j _ y (gs_start_finished cfg) hy
      rw [emit_snap cfg horder y.sim] at hs
      simp only [Option.some.injEq] at hs
      have hz : restore sn = measure y.sim := by
        rw [← hs, restore_takeSnap cfg hcarry _ (by rw [emit_finished]; exact hfin), emit_measure_save cfg hm horder]
      -- the resumed start state satisfies the invariant (first = true: checkpoint j is already measured)
      have hx0 : Tagged ⟨true, 0, restore sn⟩ := by
        obtain ⟨ht, hi'⟩ := hyT
        simp only [hfirst, Bool.false_eq_true, if_false, Nat.add_zero] at ht hi'
        have := measure_tagged y.sim y.sim.st.steps ht hi' rfl
        simp only [Tagged, hz, if_true]
        simpa [measure] using this
      -- the resumed loop performs at least one iteration or raises
      simp only [gsResume, gsFuel] at hr
      cases hl : loopG (gsStop cfg) (gsBody cfg) (cfg.maxSweeps + 2) ⟨true, 0, restore sn⟩ with
      | none => simp [hl] at hr
      | some w =>
        simp only [hl, Option.map_some, Option.some.injEq] at hr
        have hw : Tagged w ∧ w.first = false := by
          rw [show cfg.maxSweeps + 2 = (cfg.maxSweeps + 1) + 1 from rfl, loopG] at hl
          cases hst : gsStop cfg ⟨true, 0, restore sn⟩ with
          | none => simp [hst] at hl
          | some t =>
            cases t with
            | true =>
              -- impossible: j ≤ max_sweeps (the plain run did not stop at j)
              exfalso
              simp only [gsStop, hz] at hst hstop
              simp only [measure] at hst
              rw [hsteps] at hstop
              by_cases h1 : cfg.maxSweeps < j
              · simp only [h1, if_true] at hstop
                cases hc : isConv cfg j y.since <;> simp [hc] at hstop
              · simp only [hsteps, h1, if_false] at hst
                by_cases h2 : cfg.minSweeps < j
                · simp only [h2, if_true, isConv, if_true] at hst
                  split at hst <;> simp at hst
                · simp [h2] at hst
            | false =>
              simp only [hst] at hl
              have hb := gsBody_tagged cfg hm horder _ hx0
              exact loopG_inv (gsStop cfg) (gsBody cfg) (fun x => Tagged x ∧ x.first = false)
                (fun x hx => gsBody_tagged cfg hm horder x hx.1) _ _ w hb hl
        obtain ⟨⟨ht, hi'⟩, hwf⟩ := hw
        simp only [hwf, Bool.false_eq_true, if_false, Nat.add_zero] at ht hi'
        have := measure_tagged w.sim w.sim.st.steps ht hi' rfl
        rw [← hr]
        simpa [gsFinish, measure] using this
    next => simp at hs

end TenpyModel.C18.Loop

/-- **No checkpoint is measured twice and none is skipped — for ANY stopping behaviour.**
Ground-state search with measurements at the checkpoints, the convergence criterion `conv` arbitrary
(so the resumed run may well do a different number of sweeps than the plain one — `sweep_stats` are
not in `resume_data` by design): whenever the run resumed from the checkpoint after `j` sweeps finishes,
its measurement list carries the sweep tags `0, 1, …, steps` and the indices `0, 1, …, steps`, each
exactly once, in order (initial state, every checkpoint, final state). -/
theorem C18_resume_no_dup_no_skip (cfg : Cfg) (hm : cfg.measureAtCheckpoints = true) (hi : cfg.measureInitial = true)
    (horder : SaveLast cfg) (hcarry : cfg.carryErr = true) (j : Nat) (sn : Snap) (s : Sim)
    (hs : gsSnapshot cfg j = some sn) (hr : gsResume cfg sn = some s) :
    s.meas.map (·.tag) = List.range (s.st.steps + 1) ∧ s.meas.map (·.index) = List.range (s.st.steps + 1) :=
  gs_no_dup_no_skip cfg hm hi horder hcarry j sn s hs hr

/-- a convergence-controlled configuration: the criterion fires after 3 sweeps -/
def cfgConv : Cfg := { cfgGS with minSweeps := 1, maxSweeps := 8, conv := fun s => decide (3 ≤ s) }

-- non-vacuity: the plain run stops after 3 sweeps, the run resumed at checkpoint 2 needs 4 (its statistics
-- restart), both have contiguous tags
example : ((run cfgConv).map (fun s => s.meas.map (·.tag))) = some [0, 1, 2, 3] := by decide +kernel
example : ((resumeFrom cfgConv 2).map (fun s => s.meas.map (·.tag))) = some [0, 1, 2, 3, 4] := by decide +kernel
