/-!
# C18 extension — `Simulation.fix_output_filenames` in full (tenpy/simulations/simulation.py l.993–1060)

`FS.lean`'s `startupThen` covers only runs that keep their file name.  Here: `output_filename = None`,
`skip_if_output_exists` (`Skip`), the `_1 … _99` renaming of a fresh run that finds its output name taken
(`ValueError('Refuse to make another copy')` after 99), `overwrite_output` with the rotation of the log file to
`*.backup.log`, `loaded_from_checkpoint` (a resumed run keeps its name), `safe_write` off (no backup name, no
stub, no log rotation), the start-up stub under the backup name.

A directory is ANY map from names to `Option content` (`Nat` = content id); the names that the function can touch:
`out i` (`i = 0`: the requested name `root.ext`, `i ≥ 1`: `root_i.ext`), `bak i` (`get_backup_filename (out i)`),
`log` / `bakLog` (`root.log`, `root.backup.log`).  They are assumed pairwise distinct paths (the harness generates
such names).  Import-free.

`Opts.guardSkip`: whether `skip_if_output_exists` is ignored for a run loaded from a checkpoint.  `false` = the
code as found (a resumed run whose options contain `skip_if_output_exists=True` raises `Skip`, because the
checkpoint it resumes from IS the existing output file); `true` = `pending_fixes/C18-resume-skip-if-output-exists.diff`.
-/
namespace TenpyModel.C18.ExtNames

inductive FName
  | out (i : Nat) | bak (i : Nat) | log | bakLog
  deriving DecidableEq, Repr

abbrev Dir := FName → Option Nat

def Dir.set (d : Dir) (n : FName) (v : Option Nat) : Dir := fun m => if m = n then v else d m

structure Opts where
  hasName : Bool      -- output_filename is not None
  skip : Bool         -- skip_if_output_exists
  overwrite : Bool    -- overwrite_output
  loaded : Bool       -- self.loaded_from_checkpoint
  safe : Bool         -- safe_write
  guardSkip : Bool
  deriving DecidableEq, Repr

inductive Outcome
  | noFile                          -- output_filename = _backup_filename = None
  | skipped                         -- raise Skip
  | refused                         -- raise ValueError('Refuse to make another copy. CLEAN UP!')
  | ok (i : Nat) (backup : Bool)    -- output_filename = out i, _backup_filename = bak i (if `backup`)
  deriving DecidableEq, Repr

/-- `for i in range(lo, lo + fuel): if not out(i).exists(): break` / `else: raise` -/
def findFree (d : Dir) : Nat → Nat → Option Nat
  | _, 0 => none
  | i, fuel + 1 => if (d (.out i)).isNone then some i else findFree d (i + 1) fuel

/-- `if log_fn.exists() and backup_log_fn is not None: (backup_log_fn.unlink() if exists); log_fn.rename(backup_log_fn)` -/
def rotateLog (safe : Bool) (d : Dir) : Dir :=
  if (d .log).isSome && safe then
    let d1 := if (d .bakLog).isSome then d.set .bakLog none else d
    (d1.set .bakLog (d1 .log)).set .log none
  else d

/-- `if self._backup_filename is not None and not self._backup_filename.exists(): write the one-line stub` -/
def stub (stubC : Nat) (safe : Bool) (d : Dir) (i : Nat) : Dir :=
  if safe && (d (.bak i)).isNone then d.set (.bak i) (some stubC) else d

def fixNames (stubC : Nat) (o : Opts) (d : Dir) : Outcome × Dir :=
  if !o.hasName then (.noFile, d)
  else if (d (.out 0)).isSome then
    if o.skip && !(o.guardSkip && o.loaded) then (.skipped, d)
    else if !o.overwrite && !o.loaded then
      match findFree d 1 99 with
      | none => (.refused, d)
      | some i => (.ok i o.safe, stub stubC o.safe d i)
    else
      (.ok 0 o.safe, stub stubC o.safe (if o.overwrite && !o.loaded then rotateLog o.safe d else d) 0)
  else (.ok 0 o.safe, stub stubC o.safe d 0)

/-- a directory given by a finite listing (driver / examples) -/
def ofList (l : List (FName × Nat)) : Dir := fun n => (l.find? (fun p => p.1 = n)).map Prod.snd

end TenpyModel.C18.ExtNames
