import TenpyModel.C18.FS
/-!
Helper lemmas for the crash-safety theorems of C18: sequencing of programs (`andThen`), the write
loop, one save from a good entry state.
-/
namespace TenpyModel.C18

/-- sequential composition: replace every `done` leaf of `p` by `q` -/
def Prog.andThen : Prog → Prog → Prog
  | .done, q => q
  | .ifExists n t e, q => .ifExists n (t.andThen q) (e.andThen q)
  | .act a r, q => .act a (r.andThen q)

/-- `exec` of a sequential composition: run `p`; if it finished within the budget, run `q` with what
is left of the budget. -/
theorem exec_andThen (p q : Prog) (fs : FS) (k : Nat) :
    exec (p.andThen q) fs k =
      (if (exec p fs k).2.2 then
        let r' := exec q (exec p fs k).1 (k - (exec p fs k).2.1.length)
        (r'.1, (exec p fs k).2.1 ++ r'.2.1, r'.2.2)
       else exec p fs k) := by
  induction p generalizing fs k with
  | done => simp [Prog.andThen, exec]
  | ifExists n t e iht ihe =>
    cases k with
    | zero => simp [Prog.andThen, exec]
    | succ k =>
      simp only [Prog.andThen, exec]
      by_cases hb : (fs.get n).isSome = true
      · simp only [hb, if_true, iht]
        split <;> simp
      · have hb' : (fs.get n).isSome = false := by simpa using hb
        simp only [hb', Bool.false_eq_true, if_false, ihe]
        split <;> simp
  | act a r ih =>
    cases k with
    | zero => simp [Prog.andThen, exec]
    | succ k =>
      simp only [Prog.andThen, exec, ih]
      split <;> simp_all

/-- the trace of an execution is never longer than the budget -/
theorem exec_trace_le (p : Prog) (fs : FS) (k : Nat) : (exec p fs k).2.1.length ≤ k := by
  induction p generalizing fs k with
  | done => simp [exec]
  | ifExists n t e iht ihe =>
    cases k with
    | zero => simp [exec]
    | succ k =>
      simp only [exec]
      by_cases hb : (fs.get n).isSome = true
      · simpa [hb] using iht fs k
      · have hb' : (fs.get n).isSome = false := by simpa using hb
        simpa [hb'] using ihe fs k
  | act a r ih =>
    cases k with
    | zero => simp [exec]
    | succ k => simpa [exec] using ih (applyAct fs a) k

/-- with a budget of at least `size`, the program runs to its end -/
theorem exec_complete (p : Prog) (fs : FS) (k : Nat) (h : p.size ≤ k) : (exec p fs k).2.2 = true := by
  induction p generalizing fs k with
  | done => simp [exec]
  | ifExists n t e iht ihe =>
    cases k with
    | zero => simp [Prog.size] at h
    | succ k =>
      simp only [Prog.size] at h
      simp only [exec]
      by_cases hb : (fs.get n).isSome = true
      · simp only [hb, if_true]; exact iht fs k (by omega)
      · have hb' : (fs.get n).isSome = false := by simpa using hb
        simp only [hb', Bool.false_eq_true, if_false]; exact ihe fs k (by omega)
  | act a r ih =>
    cases k with
    | zero => simp [Prog.size] at h
    | succ k =>
      simp only [Prog.size] at h
      simpa [exec] using ih (applyAct fs a) k (by omega)

/-- once a program has run to its end, a larger budget changes nothing -/
theorem exec_mono (p : Prog) (fs : FS) (k k' : Nat) (hk : k ≤ k') (h : (exec p fs k).2.2 = true) :
    exec p fs k' = exec p fs k := by
  induction p generalizing fs k k' with
  | done => simp [exec]
  | ifExists n t e iht ihe =>
    cases k with
    | zero => simp [exec] at h
    | succ k =>
      cases k' with
      | zero => omega
      | succ k' =>
        simp only [exec] at h ⊢
        by_cases hb : (fs.get n).isSome = true
        · simp only [hb, if_true] at h ⊢; rw [iht fs k k' (by omega) h]
        · have hb' : (fs.get n).isSome = false := by simpa using hb
          simp only [hb', Bool.false_eq_true, if_false] at h ⊢; rw [ihe fs k k' (by omega) h]
  | act a r ih =>
    cases k with
    | zero => simp [exec] at h
    | succ k =>
      cases k' with
      | zero => omega
      | succ k' =>
        simp only [exec] at h ⊢
        rw [ih (applyAct fs a) k k' (by omega) h]

/-! ### the write loop -/

def writeLoop (cur : Nat) (chunks : List Nat) (rest : Prog) : Prog :=
  chunks.foldr (fun k r => .act (.write .out cur k) r) rest

theorem writeThen_eq (cur : Nat) (chunks : List Nat) (rest : Prog) :
    writeThen cur chunks rest = .act (.create .out cur) (writeLoop cur chunks (.act (.close .out cur) rest)) := rfl

theorem writeLoop_andThen (cur : Nat) (chunks : List Nat) (r q : Prog) :
    (writeLoop cur chunks r).andThen q = writeLoop cur chunks (r.andThen q) := by
  induction chunks with
  | nil => rfl
  | cons c cs ih => simp [writeLoop, Prog.andThen] at ih ⊢; exact ih

theorem cleanupThen_andThen (safe : Bool) (q : Prog) :
    (cleanupThen safe .done).andThen q = cleanupThen safe q := by
  cases safe <;> simp [cleanupThen, Prog.andThen]

/-- `saveThen … rest` is `saveProg` followed by `rest` -/
theorem saveThen_eq_andThen (safe : Bool) (cur : Nat) (chunks : List Nat) (rest : Prog) :
    saveThen safe cur chunks rest = (saveProg safe cur chunks).andThen rest := by
  have hw : ∀ r, (writeThen cur chunks (cleanupThen safe .done)).andThen r
      = writeThen cur chunks (cleanupThen safe r) := by
    intro r
    simp only [writeThen_eq, Prog.andThen, writeLoop_andThen, cleanupThen_andThen]
  cases safe <;> simp [saveProg, saveThen, Prog.andThen, hw]

/-- While the chunks are written (and after `close`, and after the final clean-up) the backup is
untouched until the very last step, which removes it only after `out` is complete. -/
theorem writeLoop_keeps (cur : Nat) (b : File) (chunks : List Nat) (fs : FS) (k : Nat)
    (hb : fs.backup = some b) :
    let st := crashState (writeLoop cur chunks (.act (.close .out cur) (cleanupThen true .done))) fs k
    st.backup = some b ∨ (st.out = some (.complete cur) ∧ st.backup = none) := by
  induction chunks generalizing fs k with
  | nil =>
    simp only [writeLoop, List.foldr, crashState, cleanupThen, if_true]
    cases k with
    | zero => simp [exec, hb]
    | succ k =>
      cases k with
      | zero => simp [exec, applyAct, FS.set, hb]
      | succ k =>
        cases k with
        | zero => simp [exec, applyAct, FS.set, FS.get, hb]
        | succ k => simp [exec, applyAct, FS.set, FS.get, hb]
  | cons c cs ih =>
    cases k with
    | zero => simp [crashState, writeLoop, exec, hb]
    | succ k =>
      have := ih (applyAct fs (.write .out cur c)) k (by simp [applyAct, FS.set, hb])
      simpa [crashState, writeLoop, exec] using this

/-- the same loop when there is no backup at all (first save of a run without stub) -/
theorem writeLoop_nobackup (cur : Nat) (chunks : List Nat) (fs : FS) (k : Nat)
    (hb : fs.backup = none) :
    let st := crashState (writeLoop cur chunks (.act (.close .out cur) (cleanupThen true .done))) fs k
    st.backup = none := by
  induction chunks generalizing fs k with
  | nil =>
    simp only [writeLoop, List.foldr, crashState, cleanupThen, if_true]
    cases k with
    | zero => simp [exec, hb]
    | succ k =>
      cases k with
      | zero => simp [exec, applyAct, FS.set, hb]
      | succ k =>
        cases k with
        | zero => simp [exec, applyAct, FS.set, FS.get, hb]
        | succ k => simp [exec, applyAct, FS.set, FS.get, hb]
  | cons c cs ih =>
    cases k with
    | zero => simp [crashState, writeLoop, exec, hb]
    | succ k =>
      have := ih (applyAct fs (.write .out cur c)) k (by simp [applyAct, FS.set, hb])
      simpa [crashState, writeLoop, exec] using this

/-- the write loop run to its end -/
theorem writeLoop_done (cur : Nat) (chunks : List Nat) (fs : FS) (k : Nat)
    (hk : (writeLoop cur chunks (.act (.close .out cur) (cleanupThen true .done))).size ≤ k) :
    crashState (writeLoop cur chunks (.act (.close .out cur) (cleanupThen true .done))) fs k
      = ⟨some (.complete cur), none⟩ := by
  induction chunks generalizing fs k with
  | nil =>
    simp only [writeLoop, List.foldr, cleanupThen, if_true, Prog.size] at hk
    simp only [writeLoop, List.foldr, crashState, cleanupThen, if_true]
    cases k with
    | zero => omega
    | succ k =>
      cases k with
      | zero => omega
      | succ k =>
        cases hb : fs.backup with
        | none => simp [exec, applyAct, FS.set, FS.get, hb]
        | some b =>
          cases k with
          | zero => simp at hk
          | succ k => simp [exec, applyAct, FS.set, FS.get, hb]
  | cons c cs ih =>
    cases k with
    | zero => simp [writeLoop, Prog.size] at hk
    | succ k =>
      have hk' : (writeLoop cur cs (.act (.close .out cur) (cleanupThen true .done))).size ≤ k := by
        simp only [writeLoop, List.foldr, Prog.size] at hk ⊢
        omega
      have := ih (applyAct fs (.write .out cur c)) k hk'
      simpa [crashState, writeLoop, exec] using this

end TenpyModel.C18
