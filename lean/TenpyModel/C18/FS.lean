/-
C18 — file-system model of `tenpy/simulations/simulation.py :: Simulation.save_results`
(+ `fix_output_filenames`, `get_backup_filename`).  Import-free, executable.

Only the two names between which results alternate are modelled:
  `out`    = `Simulation.output_filename`
  `backup` = `Simulation._backup_filename` = `out.with_suffix('.backup' + out.suffix)` (safe_write on)
A file-system state is a map `Name → Option File`; since `Name` has two elements it is stored as a
structure with two fields (`FS.get`/`FS.set` are the map view) so that states have decidable equality.

Atomic steps (POSIX: `rename` and `unlink` atomic, `write` not): `exists`, `unlink`, `rename`,
`create` (open with mode 'w': truncate/create), `write` (one more chunk reached the disk), `close`
(the file is complete), `stub` (the one-line start-up text of `fix_output_filenames`).
A *program* is the branching step list of the Python code (branching only on the result of `exists`);
a *crash* is the execution of at most `k` atomic steps (`exec … k`), for any `k`.  Every byte prefix of
the file being written is covered because the chunk list of a save is an arbitrary list: a crash after
the first `j` chunks leaves `partialW cur (chunks[j-1])`.
-/
namespace TenpyModel.C18

inductive Name where
  | out
  | backup
deriving Repr, DecidableEq

/-- What a name can hold.  `complete c`: a closed, loadable results file with content `c`
(contents are numbered; `c` = which checkpoint was saved).  `partialW c k`: the first `k` bytes of the
serialisation of `c` (created, not yet closed).  `other`: anything that is not a results file (the
start-up stub text). -/
inductive File where
  | complete (c : Nat)
  | partialW (c : Nat) (k : Nat)
  | other
deriving Repr, DecidableEq

structure FS where
  out    : Option File
  backup : Option File
deriving Repr, DecidableEq

def FS.get (fs : FS) : Name → Option File
  | .out => fs.out
  | .backup => fs.backup

def FS.set (fs : FS) (n : Name) (v : Option File) : FS :=
  match n with
  | .out => { fs with out := v }
  | .backup => { fs with backup := v }

def FS.empty : FS := ⟨none, none⟩

/-- state-changing atomic steps -/
inductive Act where
  | unlink (n : Name)
  | rename (src dst : Name)
  | create (n : Name) (c : Nat)            -- `open(n, 'wb')` / `h5py.File(n, 'w')`
  | write  (n : Name) (c : Nat) (k : Nat)  -- now `k` bytes of content `c` are on disk
  | close  (n : Name) (c : Nat)            -- end of the `with` block: file complete
  | stub   (n : Name)                      -- `fix_output_filenames`: `backup.open('w').write(text)`
deriving Repr, DecidableEq

/-- POSIX semantics of the steps.  `rename` onto an existing name replaces it atomically; `unlink`
and `rename` of a missing source do not occur in the programs below (they are guarded by `exists`)
and are modelled as no-ops. -/
def applyAct (fs : FS) : Act → FS
  | .unlink n => fs.set n none
  | .rename s d =>
    match fs.get s with
    | none => fs
    | some f => if s = d then fs else (fs.set d (some f)).set s none
  | .create n c => fs.set n (some (.partialW c 0))
  | .write n c k => fs.set n (some (.partialW c k))
  | .close n c => fs.set n (some (.complete c))
  | .stub n => fs.set n (some .other)

/-- Branching step list: every constructor except `done` is exactly one atomic file-system step. -/
inductive Prog where
  | done
  | ifExists (n : Name) (thenP elseP : Prog)
  | act (a : Act) (rest : Prog)
deriving Repr

/-- what the fault injector records -/
inductive Ev where
  | exists (n : Name) (b : Bool)
  | did (a : Act)
deriving Repr, DecidableEq

/-- Run at most `k` atomic steps (crash after `k` steps, or normal end if the program is shorter).
Returns the final state, the trace, and whether the program ran to its end. -/
def exec : Prog → FS → Nat → FS × List Ev × Bool
  | .done, fs, _ => (fs, [], true)
  | .ifExists _ _ _, fs, 0 => (fs, [], false)
  | .act _ _, fs, 0 => (fs, [], false)
  | .ifExists n t e, fs, k + 1 =>
    let b := (fs.get n).isSome
    let r := exec (if b then t else e) fs k
    (r.1, .exists n b :: r.2.1, r.2.2)
  | .act a rest, fs, k + 1 =>
    let r := exec rest (applyAct fs a) k; (r.1, .did a :: r.2.1, r.2.2)

/-- state after a crash that let `k` steps through -/
def crashState (p : Prog) (fs : FS) (k : Nat) : FS := (exec p fs k).1

/-- `hdf5_io.save(results, output_filename)`: create, chunks, close — then `rest`. -/
def writeThen (cur : Nat) (chunks : List Nat) (rest : Prog) : Prog :=
  .act (.create .out cur) (chunks.foldr (fun k r => .act (.write .out cur k) r) (.act (.close .out cur) rest))

/-- the tail of `save_results` after the write:
`if backup_filename is not None and backup_filename.exists(): backup_filename.unlink()` -/
def cleanupThen (safe : Bool) (rest : Prog) : Prog :=
  if safe then .ifExists .backup (.act (.unlink .backup) rest) rest else rest

/-- `Simulation.save_results` (with `output_filename` set), continuation-passing:
```
if output_filename.exists():
    if backup_filename is not None:
        if backup_filename.exists():
            backup_filename.unlink()
        output_filename.rename(backup_filename)
    else:
        output_filename.unlink()
self._save_to_file(results, output_filename)
if backup_filename is not None and backup_filename.exists():
    backup_filename.unlink()
```
`safe` = `safe_write` (then `backup_filename` is not None). -/
def saveThen (safe : Bool) (cur : Nat) (chunks : List Nat) (rest : Prog) : Prog :=
  let tail := writeThen cur chunks (cleanupThen safe rest)
  .ifExists .out
    (if safe then
      .ifExists .backup
        (.act (.unlink .backup) (.act (.rename .out .backup) tail))
        (.act (.rename .out .backup) tail)
     else .act (.unlink .out) tail)
    tail

def saveProg (safe : Bool) (cur : Nat) (chunks : List Nat) : Prog := saveThen safe cur chunks .done

/-- `Simulation.fix_output_filenames` for a run that keeps its file name (fresh directory, or
`overwrite_output`, or `loaded_from_checkpoint`):
`out_fn.exists()` (only observed), then
`if self._backup_filename is not None and not self._backup_filename.exists(): write the stub`. -/
def startupThen (safe : Bool) (rest : Prog) : Prog :=
  .ifExists .out
    (if safe then .ifExists .backup rest (.act (.stub .backup) rest) else rest)
    (if safe then .ifExists .backup rest (.act (.stub .backup) rest) else rest)

/-- a whole process: start-up, then the saves in order -/
def processProg (safe : Bool) : List (Nat × List Nat) → Prog
  | [] => .done
  | (c, ch) :: more => saveThen safe c ch (processProg safe more)

def runProg (safe : Bool) (saves : List (Nat × List Nat)) : Prog :=
  startupThen safe (processProg safe saves)

/-- large enough budget = no crash -/
def Prog.size : Prog → Nat
  | .done => 0
  | .ifExists _ t e => 1 + max t.size e.size
  | .act _ r => 1 + r.size

/-- completed (uncrashed) save -/
def saveDone (safe : Bool) (fs : FS) (cur : Nat) (chunks : List Nat) : FS :=
  crashState (saveProg safe cur chunks) fs (saveProg safe cur chunks).size

def File.isComplete : File → Bool
  | .complete _ => true
  | _ => false

/-- some name holds a complete file with content `c` -/
def FS.hasComplete (fs : FS) (c : Nat) : Bool :=
  fs.out == some (.complete c) || fs.backup == some (.complete c)

/-- some name holds a complete file (any content) -/
def FS.anyComplete (fs : FS) : Bool :=
  (match fs.out with | some f => f.isComplete | none => false) ||
  (match fs.backup with | some f => f.isComplete | none => false)

end TenpyModel.C18
