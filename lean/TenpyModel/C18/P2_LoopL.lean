import TenpyModel.C18.Loop
/-!
C18 / Props2 — the loop machine of `Loop.lean` with an ARBITRARY list of checkpoint listeners.

`Loop.lean` connects exactly the listeners of the source: `save_at_checkpoint` (priority -100) and, with
`measure_at_algorithm_checkpoints`, `make_simulation_measurements` (priority 0).  The real
`engine.checkpoint` is an `EventHandler` to which anything can be connected
(`Simulation.init_algorithm`: option `connect_algorithm_checkpoint`, entries `(module, function, kwargs,
priority)`; user code: `engine.checkpoint.connect(f, priority)`).  Here:

* `LAct`  what a listener does: `save`, `measure`, `neutral tag` (reads only: logging, printing),
          `other f` (anything that rewrites the simulation, e.g. writes its own records into the results);
* a listener list `List (LAct × Int)` in CONNECTION order, priorities arbitrary;
* `sortByPrioG` = `sortByPrio` of `Loop.lean` for an arbitrary payload type (stable insertion sort by
  descending priority = `EventHandler._prepare_emit`), `callOrderL`, `emitL`;
* the two loops and `run/snapshotAt/resume` over an abstract checkpoint function `E` (`…E`), instantiated
  with `emitL` (`…L`).  With `E = emit cfg` the `…E` machine IS the machine of `Loop.lean` (by `rfl`, see
  `P2_LoopLProofs.lean`), and `emitL cfg (lsOf cfg) = emit cfg`.

Model-like, no Mathlib import.  (Not run by the driver.)
-/
namespace TenpyModel.C18.Loop

/-- what a checkpoint listener does -/
inductive LAct where
  | save                       -- `Simulation.save_at_checkpoint`
  | measure                    -- `make_simulation_measurements`
  | neutral (tag : Nat)        -- a listener that does not change the simulation (tag = which one)
  | other (f : Sim → Sim)      -- any other listener

/-- decidable shadow of `LAct` (to display and compare call orders) -/
inductive LKind where
  | save
  | measure
  | neutral (tag : Nat)
  | other
deriving Repr, DecidableEq

def LAct.kind : LAct → LKind
  | .save => .save
  | .measure => .measure
  | .neutral t => .neutral t
  | .other _ => .other

def LKind.isNeutral : LKind → Bool
  | .neutral _ => true
  | _ => false

def LAct.isNeutral (a : LAct) : Bool := a.kind.isNeutral

/-- stable insertion sort by descending priority, any payload (`insertByPrio` of `Loop.lean`) -/
def insertByPrioG {α : Type} (x : α × Int) : List (α × Int) → List (α × Int)
  | [] => [x]
  | y :: ys => if x.2 ≥ y.2 then x :: y :: ys else y :: insertByPrioG x ys

def sortByPrioG {α : Type} : List (α × Int) → List (α × Int)
  | [] => []
  | x :: xs => insertByPrioG x (sortByPrioG xs)

/-- order in which `emit` calls the listeners `ls` (given in connection order) -/
def callOrderL (ls : List (LAct × Int)) : List LAct := (sortByPrioG ls).map (·.1)

/-- one listener call: the simulation and what the last save wrote -/
def LAct.apply (cfg : Cfg) (acc : Sim × Option Snap) : LAct → Sim × Option Snap
  | .save => (acc.1, some (takeSnap cfg acc.1))
  | .measure => (Loop.measure acc.1, acc.2)
  | .neutral _ => acc
  | .other f => (f acc.1, acc.2)

/-- `engine.checkpoint.emit(engine)` with the listeners `ls` -/
def emitL (cfg : Cfg) (ls : List (LAct × Int)) (s : Sim) : Sim × Option Snap :=
  (callOrderL ls).foldl (LAct.apply cfg) (s, none)

/-- the listeners of `Loop.lean` as a listener list of this file -/
def LAct.ofListener : Listener → LAct
  | .save => .save
  | .measure => .measure

def lsOf (cfg : Cfg) : List (LAct × Int) := (listeners cfg).map (fun p => (LAct.ofListener p.1, p.2))

/-! ### the loops over an abstract checkpoint function `E` (same clauses as in `Loop.lean`) -/

abbrev Ckpt := Sim → Sim × Option Snap

def teBodyE (cfg : Cfg) (E : Ckpt) (s : Sim) : Sim := (E (measure (iterate cfg s))).1

def teRunE (cfg : Cfg) (E : Ckpt) : Option Sim :=
  (loopG (teStop cfg) (teBodyE cfg E) cfg.n (teStart cfg)).map teFinish

def teSnapshotE (cfg : Cfg) (E : Ckpt) (j : Nat) : Option Snap :=
  match j with
  | 0 => none
  | j' + 1 =>
    match loopG (teStop cfg) (teBodyE cfg E) j' (teStart cfg) with
    | some y => if teStop cfg y = some false ∧ y.st.steps = j' then (E (measure (iterate cfg y))).2 else none
    | none => none

def teResumeE (cfg : Cfg) (E : Ckpt) (sn : Snap) : Option Sim :=
  (loopG (teStop cfg) (teBodyE cfg E) cfg.n (restore sn)).map teFinish

def gsBodyE (cfg : Cfg) (E : Ckpt) (x : GS) : GS :=
  let s' := if x.first then x.sim else (E x.sim).1
  ⟨false, x.since + 1, iterate cfg s'⟩

def gsRunE (cfg : Cfg) (E : Ckpt) : Option Sim :=
  (loopG (gsStop cfg) (gsBodyE cfg E) (gsFuel cfg) (gsStart cfg)).map gsFinish

def gsSnapshotE (cfg : Cfg) (E : Ckpt) (j : Nat) : Option Snap :=
  match loopG (gsStop cfg) (gsBodyE cfg E) j (gsStart cfg) with
  | some y =>
    if gsStop cfg y = some false ∧ y.first = false ∧ y.sim.st.steps = j then (E y.sim).2 else none
  | none => none

def gsResumeE (cfg : Cfg) (E : Ckpt) (sn : Snap) : Option Sim :=
  (loopG (gsStop cfg) (gsBodyE cfg E) (gsFuel cfg) ⟨true, 0, restore sn⟩).map gsFinish

def runE (cfg : Cfg) (E : Ckpt) : Option Sim :=
  match cfg.kind with
  | .te => teRunE cfg E
  | .gs => gsRunE cfg E

def snapshotAtE (cfg : Cfg) (E : Ckpt) (j : Nat) : Option Snap :=
  match cfg.kind with
  | .te => teSnapshotE cfg E j
  | .gs => gsSnapshotE cfg E j

def resumeE (cfg : Cfg) (E : Ckpt) (sn : Snap) : Option Sim :=
  match cfg.kind with
  | .te => teResumeE cfg E sn
  | .gs => gsResumeE cfg E sn

/-! ### the machine with a listener list (`cfg.prioMeasure/prioSave/measureAtCheckpoints` are not read) -/

def runL (cfg : Cfg) (ls : List (LAct × Int)) : Option Sim := runE cfg (emitL cfg ls)

def snapshotAtL (cfg : Cfg) (ls : List (LAct × Int)) (j : Nat) : Option Snap := snapshotAtE cfg (emitL cfg ls) j

def resumeL (cfg : Cfg) (ls : List (LAct × Int)) (sn : Snap) : Option Sim := resumeE cfg (emitL cfg ls) sn

def resumeFromL (cfg : Cfg) (ls : List (LAct × Int)) (j : Nat) : Option Sim :=
  (snapshotAtL cfg ls j).bind (resumeL cfg ls)

/-! ### conditions on a call order -/

/-- the listeners that do something, in call order, as kinds -/
def effective (order : List LAct) : List LKind := (order.filter (fun a => !a.isNeutral)).map LAct.kind

/-- the non-neutral listeners of a listener list in connection order, as (kind, priority) -/
def effectiveL (ls : List (LAct × Int)) : List (LKind × Int) :=
  (ls.filter (fun p => !p.1.isNeutral)).map (fun p => (p.1.kind, p.2))

/-- "the save runs last": the last listener called that is not neutral is the save -/
def SaveLastL (order : List LAct) : Prop := (effective order).getLast? = some .save

/-- "measure, then save, everything else neutral" -/
def MeasureThenSave (order : List LAct) : Prop := effective order = [.measure, .save]

instance (order : List LAct) : Decidable (SaveLastL order) := by unfold SaveLastL; exact inferInstance
instance (order : List LAct) : Decidable (MeasureThenSave order) := by unfold MeasureThenSave; exact inferInstance

/-- an `other` listener may rewrite results and state, but neither the loop counter
(`evolved_time`/`sweeps`) nor the `finished_run` flag -/
def Harmless (f : Sim → Sim) : Prop := ∀ s, (f s).st.steps = s.st.steps ∧ (f s).finished = s.finished

def HarmlessAll (ls : List (LAct × Int)) : Prop := ∀ f p, (LAct.other f, p) ∈ ls → Harmless f

end TenpyModel.C18.Loop
