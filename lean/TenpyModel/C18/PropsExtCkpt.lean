import TenpyModel.C18.ExtCkpt
/-!
# C18 extension — theorems about `save_at_checkpoint` / `handle_abort_signal` (model `ExtCkpt.lean`)

For every clock (any readings of `time.time()`), every state and every run:

* `C18_ckpt_sigint_graceful`        first SIGINT, then the next checkpoint: results are saved AT that checkpoint and
                                    only then `KeyboardInterrupt` is raised — whatever `save_every_x_seconds` is
* `C18_ckpt_off_never_saves`        `save_every_x_seconds=None`, no signal: no checkpoint ever saves
* `C18_ckpt_not_due_no_save`        no save before the interval has passed
* `C18_ckpt_zero_saves_every_checkpoint`  `0.` forces a save at every checkpoint of a run whose clock advances between
                                    checkpoints; `C18_ckpt_zero_needs_clock_progress`: the hypothesis is needed (`>`)
* `C18_ckpt_interval_never_shrinks` along any run (checkpoints and signals) the interval only grows
* `C18_ckpt_save_overhead_bounded`  after a save that took `tts`, the next interval-triggered save is more than
                                    `10 * tts` later (for a positive interval): saving costs < 1/10 of the run time
-/
open TenpyModel.C18.ExtCkpt

/-- **Graceful abort.**  The handler only sets the flag; at the next checkpoint `save_results` runs (recorded with
that checkpoint's index, `_last_save` updated) and then `KeyboardInterrupt` is raised — for every interval setting,
every clock, whatever follows. -/
theorem C18_ckpt_sigint_graceful (i : Nat) (st : St) (c : Clock) (rest : List Ev) (h : st.sigint = false) :
    runEvs i st (.signal true :: .ckpt c :: rest)
      = ({ st with sigint := true, last := c.tLast, saves := st.saves ++ [i] }, some .savedAndInterrupted) := by
  simp [runEvs, checkpoint, h]

example : runEvs 3 ⟨0, none, false, [1]⟩ [.signal true, .ckpt ⟨5, 6, 7⟩, .ckpt ⟨8, 9, 10⟩]
    = (⟨6, none, true, [1, 3]⟩, some .savedAndInterrupted) := by decide

/-- a second SIGINT before the checkpoint aborts immediately (nothing saved), another signal is rejected -/
theorem C18_ckpt_second_sigint_immediate (i : Nat) (st : St) (rest : List Ev) (h : st.sigint = false) :
    runEvs i st (.signal true :: .signal true :: rest) = ({ st with sigint := true }, some .secondSigint) := by
  simp [runEvs, h]

/-- **Switched off means off**: `save_every_x_seconds=None` and no signal — no checkpoint saves, whatever the clock. -/
theorem C18_ckpt_off_never_saves (cs : List Clock) : ∀ (i : Nat) (st : St), st.every = none → st.sigint = false →
    runEvs i st (cs.map .ckpt) = (st, none) := by
  induction cs with
  | nil => intro i st _ _; rfl
  | cons c cs ih =>
    intro i st h1 h2
    have : checkpoint i st c = .ok st := by simp [checkpoint, due, h1, h2]
    simp only [List.map_cons, runEvs, this]
    exact ih (i + 1) st h1 h2

example : runEvs 0 ⟨0, none, false, []⟩ ([⟨100, 101, 102⟩, ⟨1000, 1001, 1002⟩].map .ckpt) = (⟨0, none, false, []⟩, none) := by
  decide

/-- **No premature save**: while no more than the interval has passed since the last save (and no signal came),
the checkpoint changes nothing. -/
theorem C18_ckpt_not_due_no_save (i : Nat) (st : St) (c : Clock) (e : Int) (h1 : st.every = some e)
    (h2 : c.now - st.last ≤ e) (h3 : st.sigint = false) : checkpoint i st c = .ok st := by
  have : ¬ (c.now - st.last > e) := by omega
  simp [checkpoint, due, h1, h3, this]

example : checkpoint 4 ⟨10, some 5, false, []⟩ ⟨15, 16, 17⟩ = .ok ⟨10, some 5, false, []⟩ := by decide

namespace TenpyModel.C18.ExtCkpt
/-- the clock advances between the last save and every following checkpoint -/
def Advancing : Int → List Clock → Prop
  | _, [] => True
  | last, c :: cs => last < c.now ∧ Advancing c.tLast cs
end TenpyModel.C18.ExtCkpt

/-- **`save_every_x_seconds = 0.` saves at every checkpoint** of a run during which the clock advances between the
end of a save and the next checkpoint; the interval stays `0.` (never adapted). -/
theorem C18_ckpt_zero_saves_every_checkpoint (cs : List Clock) : ∀ (i : Nat) (st : St), st.every = some 0 →
    st.sigint = false → Advancing st.last cs →
    (runEvs i st (cs.map .ckpt)).2 = none ∧
    (runEvs i st (cs.map .ckpt)).1.saves = st.saves ++ List.range' i cs.length ∧
    (runEvs i st (cs.map .ckpt)).1.every = some 0 := by
  induction cs with
  | nil => intro i st h1 _ _; simp [runEvs, h1]
  | cons c cs ih =>
    intro i st h1 h2 h3
    obtain ⟨ha, hb⟩ := h3
    have hd : ¬ c.now ≤ st.last := by omega
    have : checkpoint i st c = .ok { st with last := c.tLast, saves := st.saves ++ [i] } := by
      simp [checkpoint, due, h1, h2, hd]
    simp only [List.map_cons, runEvs, this]
    obtain ⟨r1, r2, r3⟩ := ih (i + 1) { st with last := c.tLast, saves := st.saves ++ [i] } h1 h2 hb
    refine ⟨r1, ?_, r3⟩
    rw [r2]
    simp [List.range'_succ]

example : (runEvs 0 ⟨0, some 0, false, []⟩ ([⟨1, 2, 3⟩, ⟨4, 5, 6⟩, ⟨7, 8, 9⟩].map .ckpt)).1.saves = [0, 1, 2] := by decide
example : Advancing 0 [⟨1, 2, 3⟩, ⟨4, 5, 6⟩, ⟨7, 8, 9⟩] := by simp [Advancing]

/-- the hypothesis is needed: the comparison is strict, a checkpoint reached at the very clock reading of the last
save is not saved even with `save_every_x_seconds = 0.` -/
theorem C18_ckpt_zero_needs_clock_progress :
    checkpoint 1 ⟨7, some 0, false, [0]⟩ ⟨7, 8, 9⟩ = .ok ⟨7, some 0, false, [0]⟩ := by decide

namespace TenpyModel.C18.ExtCkpt
theorem checkpoint_every_mono (i : Nat) (st : St) (c : Clock) (e : Int) (h : st.every = some e) :
    (∃ st' e', (checkpoint i st c = .ok st' ∨ checkpoint i st c = .interrupt st') ∧ st'.every = some e' ∧ e ≤ e') := by
  unfold checkpoint
  split
  · split
    · exact ⟨_, e, Or.inr rfl, by simp [h], Int.le_refl _⟩
    · simp only [h]
      split
      · rename_i hc
        exact ⟨_, _, Or.inl rfl, rfl, by omega⟩
      · exact ⟨_, e, Or.inl rfl, by simp, Int.le_refl _⟩
  · exact ⟨_, e, Or.inl rfl, h, Int.le_refl _⟩
end TenpyModel.C18.ExtCkpt

/-- **The interval never shrinks**: along any run — checkpoints with any clock, signals — the value of
`save_every_x_seconds` at the end is at least the value at the start. -/
theorem C18_ckpt_interval_never_shrinks (evs : List Ev) : ∀ (i : Nat) (st : St) (e : Int), st.every = some e →
    ∃ e', (runEvs i st evs).1.every = some e' ∧ e ≤ e' := by
  induction evs with
  | nil => intro i st e h; exact ⟨e, h, Int.le_refl _⟩
  | cons ev evs ih =>
    intro i st e h
    cases ev with
    | ckpt c =>
      obtain ⟨st', e', hc, h1, h2⟩ := checkpoint_every_mono i st c e h
      rcases hc with hc | hc
      · simp only [runEvs, hc]
        obtain ⟨e'', h3, h4⟩ := ih (i + 1) st' e' h1
        exact ⟨e'', h3, by omega⟩
      · simp only [runEvs, hc]
        exact ⟨e', h1, h2⟩
    | signal b =>
      simp only [runEvs]
      split
      · exact ⟨e, h, Int.le_refl _⟩
      · split
        · exact ⟨e, h, Int.le_refl _⟩
        · exact ih i { st with sigint := true } e h

example : (runEvs 0 ⟨0, some 10, false, []⟩ [.ckpt ⟨11, 14, 15⟩, .ckpt ⟨20, 21, 22⟩]).1.every = some 80 := by decide

/-- **Saving costs less than a tenth of the run time.**  Positive interval, no signal: if checkpoint `i` saved and
that took `tts = tAfter - now`, then a later checkpoint is saved for the interval's sake only if more than
`10 * tts` passed since that save ended (either the save was short relative to the interval, or the interval was
raised to `20 * tts`). -/
theorem C18_ckpt_save_overhead_bounded (i : Nat) (st st1 : St) (c c' : Clock) (e : Int)
    (he : st.every = some e) (hpos : e > 0) (hs : st.sigint = false)
    (h1 : checkpoint i st c = .ok st1) (hsaved : st1.saves = st.saves ++ [i]) (h2 : due st1 c'.now = true) :
    c'.now - c.tLast > 10 * (c.tAfter - c.now) := by
  unfold checkpoint at h1
  simp only [hs, Bool.or_false, Bool.false_eq_true, ↓reduceIte, he] at h1
  split at h1
  · split at h1
    · rename_i hc
      cases h1
      simp only [due, gt_iff_lt, decide_eq_true_eq] at h2
      omega
    · rename_i hc
      cases h1
      simp only [due, gt_iff_lt, decide_eq_true_eq] at h2
      omega
  · cases h1
    have := congrArg List.length hsaved
    simp at this

example : checkpoint 0 ⟨0, some 10, false, []⟩ ⟨11, 14, 15⟩ = .ok ⟨14, some 80, false, [0]⟩ := by decide
example : due ⟨14, some 80, false, [0]⟩ 95 = true := by decide
