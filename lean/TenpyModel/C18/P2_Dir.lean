import TenpyModel.C18.FS
/-!
C18 / Props2 — the file-system model of `FS.lean` lifted to an ARBITRARY directory.

`FS.lean` models exactly the two names between which the results alternate.  Here a directory is a map
`N → Option File` over an arbitrary name type `N` (decidable equality); two distinct names of it are the
output file and its backup (`Two N`), arbitrarily many other names hold arbitrary other files.

* `applyActDir` / `execLift`: the atomic steps and the crash-bounded execution of the SAME programs
  (`Prog`, `saveProg`, `runProg`, … of `FS.lean`) defined step by step on the directory;
* `execDir`: the same execution obtained by projecting the directory on the two names, running the
  two-file `exec`, and putting the two results back.
`P2_DirProofs.lean` proves `execLift = execDir` (the lifted semantics is simulated by the two-file model,
step by step), which is what makes the two-file theorems theorems about every directory.

Model-like, no Mathlib import.  (Not run by the driver.)
-/
namespace TenpyModel.C18

/-- a directory: what every name holds (`none` = no such file) -/
abbrev Dir (N : Type) := N → Option File

/-- the two distinguished names: `output_filename` and `_backup_filename` (always different:
`backup = out.with_suffix('.backup' + suffix)`) -/
structure Two (N : Type) where
  out    : N
  backup : N
  ne     : out ≠ backup

section
variable {N : Type} [DecidableEq N]

def Dir.set (d : Dir N) (x : N) (v : Option File) : Dir N := fun y => if y = x then v else d y

/-- the name of the directory a program name denotes -/
def Two.nm (T : Two N) : Name → N
  | .out => T.out
  | .backup => T.backup

/-- POSIX semantics of the atomic steps on a directory (same clauses as `applyAct`) -/
def applyActDir (T : Two N) (d : Dir N) : Act → Dir N
  | .unlink n => d.set (T.nm n) none
  | .rename s t =>
    match d (T.nm s) with
    | none => d
    | some f => if T.nm s = T.nm t then d else (d.set (T.nm t) (some f)).set (T.nm s) none
  | .create n c => d.set (T.nm n) (some (.partialW c 0))
  | .write n c k => d.set (T.nm n) (some (.partialW c k))
  | .close n c => d.set (T.nm n) (some (.complete c))
  | .stub n => d.set (T.nm n) (some .other)

/-- run at most `k` atomic steps of a program in a directory (same clauses as `exec`) -/
def execLift (T : Two N) : Prog → Dir N → Nat → Dir N × List Ev × Bool
  | .done, d, _ => (d, [], true)
  | .ifExists _ _ _, d, 0 => (d, [], false)
  | .act _ _, d, 0 => (d, [], false)
  | .ifExists n t e, d, k + 1 =>
    let b := (d (T.nm n)).isSome
    let r := execLift T (if b then t else e) d k
    (r.1, .exists n b :: r.2.1, r.2.2)
  | .act a rest, d, k + 1 =>
    let r := execLift T rest (applyActDir T d a) k; (r.1, .did a :: r.2.1, r.2.2)

/-- directory after a crash that let `k` steps through -/
def crashStateDir (T : Two N) (p : Prog) (d : Dir N) (k : Nat) : Dir N := (execLift T p d k).1

/-- the two-file view of a directory -/
def Dir.proj (d : Dir N) (T : Two N) : FS := ⟨d T.out, d T.backup⟩

/-- overwrite the two distinguished names with a two-file state, keep everything else -/
def Dir.put (d : Dir N) (T : Two N) (fs : FS) : Dir N :=
  fun x => if x = T.out then fs.out else if x = T.backup then fs.backup else d x

/-- execution through the two-file model: project, run `exec`, put the result back -/
def execDir (T : Two N) (p : Prog) (d : Dir N) (k : Nat) : Dir N × List Ev × Bool :=
  let r := exec p (d.proj T) k
  (d.put T r.1, r.2.1, r.2.2)

/-- completed (uncrashed) save in a directory -/
def saveDoneDir (T : Two N) (d : Dir N) (cur : Nat) (chunks : List Nat) : Dir N :=
  crashStateDir T (saveProg true cur chunks) d (saveProg true cur chunks).size

/-- one of the two names holds a complete results file with content `c` -/
def DirHasComplete (T : Two N) (d : Dir N) (c : Nat) : Prop :=
  d T.out = some (.complete c) ∨ d T.backup = some (.complete c)

instance (T : Two N) (d : Dir N) (c : Nat) : Decidable (DirHasComplete T d c) := by
  unfold DirHasComplete; exact inferInstance

/-- entry condition of `save_results` in a directory (cf. `GoodEntry`): `out` is the complete file of
checkpoint `p` (the backup name may hold anything), or `out` is absent and the backup is that file.
Nothing is assumed about any other name. -/
def GoodEntryDir (T : Two N) (d : Dir N) (p : Nat) : Prop :=
  d T.out = some (.complete p) ∨ (d T.out = none ∧ d T.backup = some (.complete p))

/-- the frame: every name other than the two distinguished ones holds what it held before -/
def SameElsewhere (T : Two N) (d d' : Dir N) : Prop :=
  ∀ x, x ≠ T.out → x ≠ T.backup → d' x = d x

end

end TenpyModel.C18
