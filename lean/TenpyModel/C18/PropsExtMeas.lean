import TenpyModel.C18.ExtMeas
/-!
# C18 extension — theorems about `_merge_measurement_results` (model `ExtMeas.lean`)

"the same sequence of measurements, none lost and none duplicated" at the level of the stored series, for ANY
sequence of measurement dictionaries (keys may appear late, disappear, come back):

* `C18_merge_series_exact`   after any run of merges that did not raise, the series stored under key `k` is, entry
                             by entry, what measurement `j` returned for `k` — `None` exactly where it returned
                             nothing; in particular every series has one entry per measurement
* `C18_merge_keys_unique_and_cover`  the stored keys are distinct and every key any measurement ever returned is stored
* `C18_merge_never_raises`   if the very first measurement returned at least one key, no later merge raises
* `C18_merge_empty_first_raises`     (witness) an empty first measurement followed by a non-empty one raises
                             `StopIteration` — the count of measurements made so far is lost with an empty dict
* `C18_merge_resume_split`   the stored series alone determine the continuation: merging `a ++ b` from scratch =
                             merging `b` onto the store saved after `a` (what a resumed run does)
-/
open TenpyModel.C18.ExtMeas

namespace TenpyModel.C18.ExtMeas

theorem look_none_iff (r : Row) (k : Key) : look r k = none ↔ k ∉ rowKeys r := by
  induction r with
  | nil => simp [look, rowKeys]
  | cons p r ih =>
    obtain ⟨a, b⟩ := p
    unfold look
    by_cases h : a = k
    · simp [h, rowKeys]
    · simp only [h, ↓reduceIte, ih, rowKeys, List.map_cons, List.mem_cons, not_or]
      constructor
      · intro h2; exact ⟨fun e => h e.symm, h2⟩
      · intro h2; exact h2.2

theorem look_of_mem {r : Row} (hn : (rowKeys r).Nodup) {k : Key} {v : Int} (h : (k, v) ∈ r) : look r k = some v := by
  induction r with
  | nil => cases h
  | cons p r ih =>
    obtain ⟨a, b⟩ := p
    simp only [rowKeys, List.map_cons, List.nodup_cons] at hn
    unfold look
    rcases List.mem_cons.1 h with h1 | h1
    · cases h1; simp
    · have : a ≠ k := by
        intro e; subst e
        exact hn.1 (List.mem_map.2 ⟨(a, v), h1, rfl⟩)
      simp only [this, ↓reduceIte]
      exact ih hn.2 h1

/-- phase (2) in closed form -/
theorem appendRow_eq (r : Row) (hn : (rowKeys r).Nodup) (s : Cols) :
    appendRow s r = s.map (fun c => (c.1, c.2 ++ (match look r c.1 with | some v => [some v] | none => []))) := by
  induction r generalizing s with
  | nil =>
    simp only [appendRow, List.foldl_nil, look, List.append_nil]
    exact (List.map_id' s).symm
  | cons p r ih =>
    obtain ⟨a, b⟩ := p
    simp only [rowKeys, List.map_cons, List.nodup_cons] at hn
    have ih' := ih hn.2 (appendAt s a (some b))
    simp only [appendRow, List.foldl_cons] at ih' ⊢
    rw [ih']
    unfold appendAt
    rw [List.map_map]
    apply List.map_congr_left
    intro c _
    simp only [Function.comp]
    by_cases h : c.1 = a
    · have hl : look r a = none := (look_none_iff r a).2 hn.1
      simp [h, look, hl]
    · have h' : ¬ a = c.1 := fun e => h e.symm
      simp [h, h', look]

/-- phases (2)+(3) in closed form: every column gets exactly `results.get(key)` appended -/
theorem pad_append_eq (r : Row) (hn : (rowKeys r).Nodup) (s : Cols) (pk : List Key)
    (h : ∀ c ∈ s, c.1 ∉ rowKeys r → c.1 ∈ pk) :
    padMissing pk r (appendRow s r) = s.map (fun c => (c.1, c.2 ++ [look r c.1])) := by
  rw [appendRow_eq r hn]
  unfold padMissing
  rw [List.map_map]
  apply List.map_congr_left
  intro c hc
  simp only [Function.comp]
  cases hl : look r c.1 with
  | none =>
    have h1 : c.1 ∉ rowKeys r := (look_none_iff r c.1).1 hl
    have h2 := h c hc h1
    simp [h1, h2]
  | some v =>
    have h1 : ¬ (c.1 ∉ rowKeys r) := by
      intro hh; rw [(look_none_iff r c.1).2 hh] at hl; cases hl
    simp [h1]

theorem mem_newKeys {prev : Cols} {r : Row} {k : Key} : k ∈ newKeys prev r ↔ k ∈ rowKeys r ∧ k ∉ colKeys prev := by
  simp [newKeys]

/-- one merge onto an existing store, closed form -/
theorem merge_some_eq (prev : Cols) (r : Row) (hn : (rowKeys r).Nodup) (st' : Option Cols)
    (h : merge (some prev) r = some st') :
    ∃ n, (∀ c0 ∈ prev.head?, n = c0.2.length) ∧
      st' = some ((prev ++ (newKeys prev r).map (fun k => (k, List.replicate n (none : Val)))).map
        (fun c => (c.1, c.2 ++ [look r c.1]))) := by
  unfold merge at h
  simp only at h
  split at h
  · rename_i he
    have he' : newKeys prev r = [] := by simpa using he
    refine ⟨(prev.head?.map (fun c => c.2.length)).getD 0, ?_, ?_⟩
    · intro c0 hc; simp [Option.mem_def.1 hc]
    · cases h
      rw [he', List.map_nil, List.append_nil]
      congr 1
      apply pad_append_eq r hn
      intro c hc _
      exact List.mem_map.2 ⟨c, hc, rfl⟩
  · split at h
    · cases h
    · rename_i c0 rest hne
      cases h
      refine ⟨c0.2.length, by simp, ?_⟩
      congr 1
      apply pad_append_eq r hn
      intro c hc hnot
      rcases List.mem_append.1 hc with h1 | h1
      · exact List.mem_map.2 ⟨c, h1, rfl⟩
      · obtain ⟨k, hk, rfl⟩ := List.mem_map.1 h1
        exact absurd (mem_newKeys.1 hk).1 hnot

/-- the invariant of the stored series after the measurements `rows` -/
def Inv (rows : List Row) : Option Cols → Prop
  | none => rows = []
  | some cols => (colKeys cols).Nodup ∧ (∀ c ∈ cols, c.2 = rows.map (fun r => look r c.1)) ∧
      (∀ r ∈ rows, ∀ k ∈ rowKeys r, k ∈ colKeys cols)

theorem inv_step (pre : List Row) (st st' : Option Cols) (r : Row) (hn : (rowKeys r).Nodup)
    (hi : Inv pre st) (h : merge st r = some st') : Inv (pre ++ [r]) st' := by
  cases st with
  | none =>
    have hp : pre = [] := hi
    subst hp
    simp only [merge, Option.some.injEq] at h
    subst h
    refine ⟨?_, ?_, ?_⟩
    · simpa [colKeys, rowKeys, List.map_map, Function.comp_def] using hn
    · intro c hc
      obtain ⟨kv, hkv, rfl⟩ := List.mem_map.1 hc
      simp [look_of_mem hn hkv]
    · intro r' hr' k hk
      simp only [List.nil_append, List.mem_singleton] at hr'
      subst hr'
      simpa [colKeys, rowKeys, List.map_map, Function.comp_def] using hk
  | some prev =>
    obtain ⟨hnd, hex, hcov⟩ := hi
    obtain ⟨n, hn0, rfl⟩ := merge_some_eq prev r hn st' h
    have hkeys : colKeys ((prev ++ (newKeys prev r).map (fun k => (k, List.replicate n (none : Val)))).map
        (fun c => (c.1, c.2 ++ [look r c.1]))) = colKeys prev ++ newKeys prev r := by
      simp [colKeys, List.map_map, Function.comp_def]
    refine ⟨?_, ?_, ?_⟩
    · rw [hkeys]
      refine List.nodup_append.2 ⟨hnd, hn.filter _, ?_⟩
      intro a ha b hb e
      subst e
      exact (mem_newKeys.1 hb).2 ha
    · intro c' hc'
      obtain ⟨c, hc, rfl⟩ := List.mem_map.1 hc'
      rcases List.mem_append.1 hc with h1 | h1
      · simp [hex c h1]
      · obtain ⟨k, hk, rfl⟩ := List.mem_map.1 h1
        have hk' := mem_newKeys.1 hk
        -- the padding has the length of the history, and no earlier measurement had key `k`
        have hlen : n = pre.length := by
          cases prev with
          | nil =>
            -- no column at all: then no earlier row had a key; the padding length is irrelevant only if pre = []
            exfalso
            unfold merge at h
            have : (newKeys [] r).isEmpty = false := by
              cases hq : newKeys [] r with
              | nil => rw [hq] at hk; cases hk
              | cons _ _ => rfl
            simp [this] at h
          | cons c0 rest =>
            have := hn0 c0 (by simp)
            rw [this, hex c0 (by simp)]
            simp
        have hnone : pre.map (fun r' => look r' k) = List.replicate pre.length none := by
          apply List.ext_getElem
          · simp
          · intro i h1 h2
            simp only [List.getElem_map, List.getElem_replicate]
            apply (look_none_iff _ _).2
            intro hmem
            exact hk'.2 (hcov _ (List.getElem_mem _) k hmem)
        simp [hlen, hnone]
    · intro r' hr' k hk
      rw [hkeys]
      rcases List.mem_append.1 hr' with h1 | h1
      · exact List.mem_append.2 (Or.inl (hcov r' h1 k hk))
      · simp only [List.mem_singleton] at h1
        subst h1
        by_cases hin : k ∈ colKeys prev
        · exact List.mem_append.2 (Or.inl hin)
        · exact List.mem_append.2 (Or.inr (mem_newKeys.2 ⟨hk, hin⟩))

theorem inv_all (rows : List Row) : ∀ (pre : List Row) (st st' : Option Cols),
    (∀ r ∈ rows, (rowKeys r).Nodup) → Inv pre st → mergeAll st rows = some st' → Inv (pre ++ rows) st' := by
  induction rows with
  | nil => intro pre st st' _ hi h; simp only [mergeAll, Option.some.injEq] at h; subst h; simpa using hi
  | cons r rs ih =>
    intro pre st st' hn hi h
    unfold mergeAll at h
    split at h
    · cases h
    · rename_i st1 hm
      have h1 := inv_step pre st st1 r (hn r (by simp)) hi hm
      have h2 := ih (pre ++ [r]) st1 st' (fun r' hr' => hn r' (by simp [hr'])) h1 h
      simpa using h2

theorem appendRow_length (r : Row) : ∀ s : Cols, (appendRow s r).length = s.length := by
  induction r with
  | nil => intro s; rfl
  | cons p r ih =>
    intro s
    simp only [appendRow, List.foldl_cons] at ih ⊢
    rw [ih]; simp [appendAt]

theorem merge_nonempty (prev : Cols) (r : Row) (hp : prev ≠ []) :
    ∃ cols, merge (some prev) r = some (some cols) ∧ cols ≠ [] := by
  unfold merge
  simp only
  split
  · refine ⟨_, rfl, ?_⟩
    intro e
    have := congrArg List.length e
    simp [padMissing, appendRow_length] at this
    exact hp this
  · cases prev with
    | nil => exact absurd rfl hp
    | cons c0 rest =>
      refine ⟨_, rfl, ?_⟩
      intro e
      have := congrArg List.length e
      simp [padMissing, appendRow_length] at this

theorem mergeAll_nonempty (rows : List Row) : ∀ (prev : Cols), prev ≠ [] → mergeAll (some prev) rows ≠ none := by
  induction rows with
  | nil => intro prev _; simp [mergeAll]
  | cons r rs ih =>
    intro prev hp
    obtain ⟨cols, hm, hc⟩ := merge_nonempty prev r hp
    unfold mergeAll
    rw [hm]
    exact ih cols hc

end TenpyModel.C18.ExtMeas

/-- **The stored series are exactly the measurements, in order, none lost, none duplicated.**  For every sequence of
measurement dictionaries (distinct keys within one dictionary, as in Python): if no merge raised, the series stored
under each key `k` has one entry per measurement, and entry `j` is what measurement `j` returned for `k` — `None`
exactly where measurement `j` did not return `k`. -/
theorem C18_merge_series_exact (rows : List Row) (hn : ∀ r ∈ rows, (rowKeys r).Nodup) (cols : Cols)
    (h : mergeAll none rows = some (some cols)) :
    ∀ c ∈ cols, c.2 = rows.map (fun r => look r c.1) := by
  have := inv_all rows [] none (some cols) hn rfl h
  exact this.2.1

example : mergeAll none [[(0, 5), (1, 7)], [(0, 6), (2, 9)], [(1, 8)]]
    = some (some [(0, [some 5, some 6, none]), (1, [some 7, none, some 8]), (2, [none, some 9, none])]) := by decide

/-- every series has one entry per measurement made -/
theorem C18_merge_series_length (rows : List Row) (hn : ∀ r ∈ rows, (rowKeys r).Nodup) (cols : Cols)
    (h : mergeAll none rows = some (some cols)) : ∀ c ∈ cols, c.2.length = rows.length := by
  intro c hc
  rw [C18_merge_series_exact rows hn cols h c hc]
  simp

/-- **Keys**: the stored keys are pairwise distinct, and every key that any measurement returned is stored. -/
theorem C18_merge_keys_unique_and_cover (rows : List Row) (hn : ∀ r ∈ rows, (rowKeys r).Nodup) (cols : Cols)
    (h : mergeAll none rows = some (some cols)) :
    (colKeys cols).Nodup ∧ ∀ r ∈ rows, ∀ k ∈ rowKeys r, k ∈ colKeys cols := by
  have := inv_all rows [] none (some cols) hn rfl h
  exact ⟨this.1, this.2.2⟩

/-- **No merge raises once the first measurement returned a key** (the default measurements always return
`measurement_index`): the `StopIteration` branch is unreachable. -/
theorem C18_merge_never_raises (r0 : Row) (rest : List Row) (h0 : r0 ≠ []) : mergeAll none (r0 :: rest) ≠ none := by
  unfold mergeAll
  simp only [merge]
  apply mergeAll_nonempty
  intro e
  apply h0
  simpa using e

example : mergeAll none [[(0, 1)], [], [(3, 4)]]
    = some (some [(0, [some 1, none, none]), (3, [none, none, some 4])]) := by decide

/-- witness for the guard: an EMPTY first measurement (e.g. every measurement function failed) followed by a
non-empty one raises `StopIteration` in `next(iter(previous_results.values()))`. -/
theorem C18_merge_empty_first_raises : mergeAll none [[], [(0, 1)]] = none := by decide

/-- **The stored series determine the continuation** (resume): merging the measurements `a ++ b` from scratch is
merging `b` onto the store that was saved after `a`. -/
theorem C18_merge_resume_split (a b : List Row) (st : Option Cols) :
    mergeAll st (a ++ b) = (mergeAll st a).bind (fun saved => mergeAll saved b) := by
  induction a generalizing st with
  | nil => rfl
  | cons r a ih =>
    simp only [List.cons_append, mergeAll]
    cases merge st r with
    | none => rfl
    | some st1 => exact ih st1

example : (mergeAll none [[(0, 5)], [(0, 6), (1, 1)]]).bind (fun s => mergeAll s [[(1, 2)]])
    = some (some [(0, [some 5, some 6, none]), (1, [none, some 1, some 2])]) := by decide
