import TenpyModel.C18.P2_LoopL
/-!
Lemmas about the stable priority sort `sortByPrioG` (= `EventHandler._prepare_emit`):
it is the `sortByPrio` of `Loop.lean`, it is sorted, it has the same members, it commutes with relabelling
the payload and — the characteristic property of a STABLE sort — with filtering.
-/
namespace TenpyModel.C18.Loop

variable {α β : Type}

theorem insertByPrioG_eq (x : Listener × Int) (l : List (Listener × Int)) :
    insertByPrioG x l = insertByPrio x l := by
  induction l with
  | nil => rfl
  | cons y ys ih => simp [insertByPrioG, insertByPrio, ih]

/-- on the listeners of `Loop.lean` the generic sort is the sort of `Loop.lean` -/
theorem sortByPrioG_eq (l : List (Listener × Int)) : sortByPrioG l = sortByPrio l := by
  induction l with
  | nil => rfl
  | cons x xs ih => simp [sortByPrioG, sortByPrio, ih, insertByPrioG_eq]

theorem mem_insertByPrioG (x z : α × Int) (l : List (α × Int)) :
    z ∈ insertByPrioG x l ↔ z = x ∨ z ∈ l := by
  induction l with
  | nil => simp [insertByPrioG]
  | cons y ys ih =>
    simp only [insertByPrioG]
    split
    · simp
    · simp only [List.mem_cons, ih]
      constructor
      · rintro (h | h | h)
        · exact Or.inr (Or.inl h)
        · exact Or.inl h
        · exact Or.inr (Or.inr h)
      · rintro (h | h | h)
        · exact Or.inr (Or.inl h)
        · exact Or.inl h
        · exact Or.inr (Or.inr h)

/-- `emit` calls exactly the connected listeners -/
theorem mem_sortByPrioG (z : α × Int) (l : List (α × Int)) : z ∈ sortByPrioG l ↔ z ∈ l := by
  induction l with
  | nil => simp [sortByPrioG]
  | cons x xs ih => simp [sortByPrioG, mem_insertByPrioG, ih]

/-- relabelling the payload commutes with sorting (the sort looks at priorities only) -/
theorem insertByPrioG_map (f : α → β) (x : α × Int) (l : List (α × Int)) :
    insertByPrioG (f x.1, x.2) (l.map (fun p => (f p.1, p.2))) =
      (insertByPrioG x l).map (fun p => (f p.1, p.2)) := by
  induction l with
  | nil => rfl
  | cons y ys ih =>
    simp only [List.map_cons, insertByPrioG]
    split
    · simp
    · simp [ih]

theorem sortByPrioG_map (f : α → β) (l : List (α × Int)) :
    sortByPrioG (l.map (fun p => (f p.1, p.2))) = (sortByPrioG l).map (fun p => (f p.1, p.2)) := by
  induction l with
  | nil => rfl
  | cons x xs ih => simp only [List.map_cons, sortByPrioG, ih, insertByPrioG_map]

/-- descending priorities -/
def SortedP (l : List (α × Int)) : Prop := l.Pairwise (fun u v => u.2 ≥ v.2)

theorem sortedP_insert (x : α × Int) (l : List (α × Int)) (h : SortedP l) : SortedP (insertByPrioG x l) := by
  induction l with
  | nil => simp [insertByPrioG, SortedP]
  | cons y ys ih =>
    simp only [SortedP, List.pairwise_cons] at h
    obtain ⟨hy, hys⟩ := h
    simp only [insertByPrioG]
    split
    · next hge =>
      simp only [SortedP, List.pairwise_cons, List.mem_cons]
      refine ⟨?_, hy, hys⟩
      rintro z (rfl | hz)
      · exact hge
      · have := hy z hz; omega
    · next hlt =>
      simp only [SortedP, List.pairwise_cons, mem_insertByPrioG]
      refine ⟨?_, ih hys⟩
      rintro z (rfl | hz)
      · omega
      · exact hy z hz

theorem sortedP_sort (l : List (α × Int)) : SortedP (sortByPrioG l) := by
  induction l with
  | nil => simp [sortByPrioG, SortedP]
  | cons x xs ih => exact sortedP_insert x _ ih

/-- a listener whose priority is at least that of everything connected goes first -/
theorem insert_of_ge_all (x : α × Int) (l : List (α × Int)) (h : ∀ z ∈ l, x.2 ≥ z.2) :
    insertByPrioG x l = x :: l := by
  cases l with
  | nil => rfl
  | cons y ys => simp [insertByPrioG, h y (by simp)]

/-- a listener whose priority is strictly below everything else goes last -/
theorem insert_of_lt_all (x : α × Int) (l : List (α × Int)) (h : ∀ z ∈ l, x.2 < z.2) :
    insertByPrioG x l = l ++ [x] := by
  induction l with
  | nil => rfl
  | cons y ys ih =>
    have hy := h y (by simp)
    have : ¬ x.2 ≥ y.2 := by omega
    simp only [insertByPrioG, this, if_false, List.cons_append]
    rw [ih (fun z hz => h z (by simp [hz]))]

/-- a later-connected listener of priority ≤ stays behind an earlier one -/
theorem insert_append_singleton (y x : α × Int) (l : List (α × Int)) (h : y.2 ≥ x.2) :
    insertByPrioG y (l ++ [x]) = insertByPrioG y l ++ [x] := by
  induction l with
  | nil => simp [insertByPrioG, h]
  | cons m ms ih =>
    simp only [List.cons_append, insertByPrioG]
    split
    · rfl
    · simp [ih]

/-- **Who is called last.**  If every listener connected before `x` has priority ≥ that of `x` and every
listener connected after `x` has strictly greater priority, `x` is called last. -/
theorem sort_last (x : α × Int) (w1 w2 : List (α × Int)) (h1 : ∀ p ∈ w1, x.2 ≤ p.2)
    (h2 : ∀ p ∈ w2, x.2 < p.2) :
    sortByPrioG (w1 ++ x :: w2) = sortByPrioG (w1 ++ w2) ++ [x] := by
  induction w1 with
  | nil =>
    simp only [List.nil_append, sortByPrioG]
    exact insert_of_lt_all x _ (fun z hz => h2 z ((mem_sortByPrioG z w2).1 hz))
  | cons y ys ih =>
    simp only [List.cons_append, sortByPrioG]
    rw [ih (fun p hp => h1 p (by simp [hp]))]
    exact insert_append_singleton y x _ (h1 y (by simp))

/-- filtering an insertion into a sorted list -/
theorem filter_insert (q : α × Int → Bool) (x : α × Int) (l : List (α × Int)) (h : SortedP l) :
    (insertByPrioG x l).filter q = if q x then insertByPrioG x (l.filter q) else l.filter q := by
  induction l with
  | nil => cases hq : q x <;> simp [insertByPrioG, hq]
  | cons y ys ih =>
    simp only [SortedP, List.pairwise_cons] at h
    obtain ⟨hy, hys⟩ := h
    simp only [insertByPrioG]
    split
    · next hge =>
      -- `x` in front of everything; also in front of the filtered list
      have hall : ∀ z ∈ (y :: ys).filter q, x.2 ≥ z.2 := by
        intro z hz
        have hz' : z ∈ y :: ys := (List.mem_filter.1 hz).1
        rcases List.mem_cons.1 hz' with rfl | hz''
        · exact hge
        · have := hy z hz''; omega
      cases hq : q x
      · simp [List.filter_cons, hq]
      · rw [if_pos rfl, insert_of_ge_all x _ hall, List.filter_cons, hq, if_pos rfl]
    · next hlt =>
      rw [List.filter_cons, ih hys]
      cases hqy : q y
      · simp [hqy]
      · cases hq : q x
        · simp [hqy]
        · simp only [if_true, List.filter_cons, hqy, insertByPrioG, hlt, if_false]

/-- **Stability.**  A stable sort commutes with filtering: the call order restricted to any class of
listeners is the call order of that class alone. -/
theorem filter_sortByPrioG (q : α × Int → Bool) (l : List (α × Int)) :
    (sortByPrioG l).filter q = sortByPrioG (l.filter q) := by
  induction l with
  | nil => rfl
  | cons x xs ih =>
    simp only [sortByPrioG, filter_insert q x _ (sortedP_sort xs), ih, List.filter_cons]
    cases q x <;> simp [sortByPrioG]

end TenpyModel.C18.Loop
