import TenpyModel.C18.P2_DirProofs
import TenpyModel.C18.PropsCrash
import TenpyModel.C18.P2_LoopLProofs
import TenpyModel.C18.P2_Examples
/-!
# C18 — Props2: generalised theorems

Part 1 (crash safety in an ARBITRARY directory).  `FS.lean` has exactly two names.  Here the directory is
any map `N → Option File` (`N` any type with decidable equality, finitely or infinitely many other
files), `T : Two N` are the two distinct names `output_filename`/`_backup_filename`; the programs are the
SAME `Prog`s (`saveProg`, `processProg`, `runProg`), executed step by step on the directory (`execLift`).

* `C18_dir_refinement`          `execLift` = two-file `exec` on the projection, result put back
                                 (same trace, same completion flag) — the lifting is not vacuous
* `C18_crash_safe_dir`          every crash point of one save: a complete file of `p` or `cur` under one
                                 of the two names AND every other name holds exactly what it held
* `C18_save_reestablishes_dir`  a completed save: `out = complete cur`, no backup, rest untouched
* `C18_history_dir`, `C18_history_fresh_dir`   whole processes with a global crash budget

Part 2 (resume equivalence with ARBITRARILY MANY checkpoint listeners).  `Loop.lean` connects exactly
`save_at_checkpoint` (−100) and optionally `make_simulation_measurements` (0).  `P2_LoopL.lean`: any list
`ls : List (LAct × Int)` of listeners in connection order with arbitrary priorities, actions `save`,
`measure`, `neutral tag`, `other f`; `emitL` = stable sort by descending priority (`sortByPrioG`, which IS
`sortByPrio` on the listeners of `Loop.lean`), then the calls.

* `C18_listeners_extend_model`        with the listeners of `Loop.lean` the generalised machine is that machine
* `C18_call_order_stable`             stability: the non-neutral listeners are called in the order of their own sort
* `C18_measure_before_save_of_prio`   one measure, one save, others neutral, any connection order:
                                      `prio(measure) > prio(save)` ⇒ call order …measure…save…
* `C18_measure_before_save_tie`       equal priorities ⇒ connection order decides
* `C18_measure_before_save_iff`       both together, as an equivalence (so `<` ⇒ save first)
* `C18_save_last_of_prio`             any listeners: every non-neutral listener has priority > the save's, or
                                      = and connected earlier ⇒ the save is the last non-neutral call
* `C18_resume_equiv_listeners`        measure before save in call order ⇒ `resumeL (snapshot j) = runL`, every `j`
* `C18_resume_equiv_listeners_writers` the same with arbitrary result-writing listeners: save last suffices
* `C18_resume_equiv_listeners_prio`   final corollary, hypotheses on priorities/connection order only
* `C18_resume_equiv_from_listeners`   `C18_resume_equiv` (`SaveLast`) is the two-listener instance
* `C18_resume_listeners_priority_counterexample`  four listeners, `prio(measure) < prio(save)`: a measurement
                                      is lost (cf. `C18_resume_priority_counterexample` in `PropsResume.lean`)
-/
open TenpyModel.C18

/-- **Refinement: the two-file model is exact for every directory.**  Executing a program step by step
in a directory (`exists/unlink/rename/create/write/close/stub` acting on the map `N → Option File`)
gives: on the two distinguished names what the two-file `exec` computes from the projection, on every
other name the old content; the same trace of observed steps and the same completion flag. -/
theorem C18_dir_refinement {N : Type} [DecidableEq N] (T : Two N) (p : Prog) (d : Dir N) (k : Nat) :
    execLift T p d k =
      (d.put T (exec p (d.proj T) k).1, (exec p (d.proj T) k).2.1, (exec p (d.proj T) k).2.2) :=
  execLift_eq_execDir T p d k

-- non-vacuity: trace and flag of a crashed save in `dir5` (crash after 6 steps)
example : (execLift two5 (saveProg true 2 [10, 20]) dir5 6).2 =
    ([.exists .out true, .exists .backup true, .did (.unlink .backup), .did (.rename .out .backup),
      .did (.create .out 2), .did (.write .out 2 10)], false) := by decide

/-- **Crash safety of one save in an arbitrary directory.**  If on entry the output name holds the
complete file of checkpoint `p` (backup name: anything), or the output name is absent and the backup
name holds it — and whatever else is in the directory — then after EVERY crash point `k` of
`save_results(cur)` and for every chunking of the write
(1) the output name or the backup name holds a complete file with content `p` or `cur`, and
(2) every other name holds exactly the (`Option`al) file it held on entry. -/
theorem C18_crash_safe_dir {N : Type} [DecidableEq N] (T : Two N) (d : Dir N) (p cur : Nat)
    (chunks : List Nat) (k : Nat) (h : GoodEntryDir T d p) :
    let st := crashStateDir T (saveProg true cur chunks) d k
    (DirHasComplete T st p ∨ DirHasComplete T st cur) ∧
    ∀ x, x ≠ T.out → x ≠ T.backup → st x = d x := by
  intro st
  refine ⟨?_, crashStateDir_frame T _ d k⟩
  have hs := save_safe (d.proj T) p cur chunks k h
  simp only [dirHasComplete_iff, st, crashStateDir_proj]
  exact hs

-- non-vacuity: the entry condition holds for `dir5`; a crash after 6 steps leaves the partial new file
-- under the output name, the old complete file under the backup name, names 0, 2, 4 as before
example : GoodEntryDir two5 dir5 1 := Or.inl rfl
example : [0, 1, 2, 3, 4].map (crashStateDir two5 (saveProg true 2 [10, 20]) dir5 6)
    = [some (.complete 77), some (.complete 1), some (.partialW 5 5), some (.partialW 2 10), none] := by decide
example : DirHasComplete two5 (crashStateDir two5 (saveProg true 2 [10, 20]) dir5 6) 1 := by decide
-- an infinite directory (names = `Nat`, every name except the output name holds some other file)
example : (List.range 6).map (crashStateDir ⟨4, 2, by decide⟩ (saveProg true 9 [3]) (fun x : Nat =>
      if x = 4 then none else some (.complete (x + 100))) 5)
    = [some (.complete 100), some (.complete 101), some (.complete 102), some (.complete 103),
       some (.complete 9), some (.complete 105)] := by decide

/-- **Every completed save re-establishes the entry condition, in any directory**: whatever the two
names held before, an uninterrupted `save_results(cur)` ends with `out = complete cur`, no backup, and
every other name untouched. -/
theorem C18_save_reestablishes_dir {N : Type} [DecidableEq N] (T : Two N) (d : Dir N) (cur : Nat)
    (chunks : List Nat) :
    let st := saveDoneDir T d cur chunks
    st T.out = some (.complete cur) ∧ st T.backup = none ∧ GoodEntryDir T st cur ∧
    ∀ x, x ≠ T.out → x ≠ T.backup → st x = d x := by
  intro st
  have h := save_done_clean (d.proj T) cur chunks _ (Nat.le_refl (saveProg true cur chunks).size)
  have hst : st = d.put T ⟨some (.complete cur), none⟩ := by
    simp only [st, saveDoneDir, crashStateDir_eq, h]
  have ho : st T.out = some (.complete cur) := by rw [hst, Dir.put_out]
  refine ⟨ho, ?_, Or.inl ho, ?_⟩
  · rw [hst, Dir.put_backup]
  · intro x hx hb
    rw [hst, Dir.put_other _ _ _ _ hx hb]

example : [0, 1, 2, 3, 4].map (saveDoneDir two5 dir5 2 [10, 20])
    = [some (.complete 77), none, some (.partialW 5 5), some (.complete 2), none] := by decide

/-- **Histories in an arbitrary directory.**  A process executes the saves `saves` one after the other
in the directory `d` and is killed after `k` atomic file-system steps in total.  `dn` = number of saves
that ran to their end (`progress`, computed on the two-file projection — by `C18_dir_refinement` the
trace is the same), `q` the content of the last of them (`prev` if none).  Then the output or backup name
holds a complete file with content `q`, or a complete file of the save in progress; and every other
name of the directory is untouched. -/
theorem C18_history_dir {N : Type} [DecidableEq N] (T : Two N) (d : Dir N) (prev : Option Nat)
    (h : Entry (d.proj T) prev) (saves : List (Nat × List Nat)) (k : Nat) :
    let dn := (progress (d.proj T) saves k).1
    let st := crashStateDir T (processProg true saves) d k
    (∀ q, lastDone prev ((saves.take dn).map (·.1)) = some q →
      DirHasComplete T st q ∨ ∃ c ch, saves[dn]? = some (c, ch) ∧ DirHasComplete T st c) ∧
    ∀ x, x ≠ T.out → x ≠ T.backup → st x = d x := by
  intro dn st
  refine ⟨?_, crashStateDir_frame T _ d k⟩
  intro q hq
  have := C18_history (d.proj T) prev h saves k q hq
  simp only [dirHasComplete_iff, st, crashStateDir_proj]
  exact this

-- non-vacuity: `Entry … (some 1)` is `GoodEntryDir`; two saves, killed after 15 steps
example : Entry (dir5.proj two5) (some 1) := Or.inl rfl
example : [0, 1, 2, 3, 4].map (crashStateDir two5 (processProg true [(2, [4]), (3, [4, 8])]) dir5 15)
    = [some (.complete 77), some (.complete 2), some (.partialW 5 5), some (.partialW 3 8), none] := by decide
example : (progress (dir5.proj two5) [(2, [4]), (3, [4, 8])] 15).1 = 1 := by decide

/-- **Fresh run in a directory that contains arbitrary other files but neither the output nor the backup
name**: start-up (`fix_output_filenames`: two `exists`, the stub) followed by the saves.  As soon as one
save has completed, a complete file of the last completed or of the current save is on disk at every later
crash point; the other files are never touched. -/
theorem C18_history_fresh_dir {N : Type} [DecidableEq N] (T : Two N) (d : Dir N) (ho : d T.out = none)
    (hb : d T.backup = none) (saves : List (Nat × List Nat)) (k : Nat) :
    let dn := (progress ⟨none, some .other⟩ saves k).1
    let st := crashStateDir T (runProg true saves) d (k + 3)
    (∀ q, lastDone none ((saves.take dn).map (·.1)) = some q →
      DirHasComplete T st q ∨ ∃ c ch, saves[dn]? = some (c, ch) ∧ DirHasComplete T st c) ∧
    ∀ x, x ≠ T.out → x ≠ T.backup → st x = d x := by
  intro dn st
  refine ⟨?_, crashStateDir_frame T _ d (k + 3)⟩
  intro q hq
  have hproj : d.proj T = FS.empty := by simp [Dir.proj, FS.empty, ho, hb]
  have := C18_history_fresh saves k q hq
  simp only [dirHasComplete_iff, st, crashStateDir_proj, hproj]
  exact this

-- non-vacuity: three saves in a directory with three other files, killed after 3 + 19 steps
example : [0, 1, 2, 3, 4].map (crashStateDir ⟨4, 1, by decide⟩
      (runProg true [(1, [4]), (2, [4]), (3, [4, 8])])
      (fun x : Fin 5 => if x = 4 ∨ x = 1 then none else some (.complete (x.val + 50))) 22)
    = [some (.complete 50), some (.complete 2), some (.complete 52), some (.complete 53),
       some (.partialW 3 4)] := by decide

/-! # Part 2 — arbitrarily many checkpoint listeners -/

open TenpyModel.C18.Loop

/-- **The generalised machine contains the executable one.**  With the listener list of `Loop.lean`
(`save` connected first with `prioSave`, then `measure` with `prioMeasure` if
`measure_at_algorithm_checkpoints`) the call order, the run, every snapshot and every resumed run of the
listener-list machine are those of `Loop.lean`. -/
theorem C18_listeners_extend_model (cfg : Cfg) :
    callOrderL (lsOf cfg) = (callOrder cfg).map LAct.ofListener ∧
    runL cfg (lsOf cfg) = run cfg ∧
    (∀ j, snapshotAtL cfg (lsOf cfg) j = snapshotAt cfg j) ∧
    (∀ sn, resumeL cfg (lsOf cfg) sn = resume cfg sn) := by
  refine ⟨callOrderL_lsOf cfg, ?_, ?_, ?_⟩
  · rw [runL, emitL_lsOf]; rfl
  · intro j; rw [snapshotAtL, emitL_lsOf]; rfl
  · intro sn; rw [resumeL, emitL_lsOf]; rfl

example : (callOrderL (lsOf cfgGS)).map LAct.kind = [.measure, .save] := by decide

/-- **Stability of `emit`.**  The non-neutral listeners are called in exactly the order in which the
priority sort calls them when they are connected alone (in the same relative connection order):
interleaving any number of neutral listeners at any priorities changes nothing. -/
theorem C18_call_order_stable (ls : List (LAct × Int)) :
    effective (callOrderL ls) = (sortByPrioG (effectiveL ls)).map (·.1) :=
  effective_callOrderL ls

example : (callOrderL ls4).map LAct.kind = [.neutral 1, .neutral 2, .measure, .save] := by decide
example : effective (callOrderL ls4) = [.measure, .save] ∧ effectiveL ls4 = [(.save, -100), (.measure, 0)] := by decide

/-- **Priorities ⇒ call order.**  Arbitrary listener list with exactly one `measure` listener (priority
`pm`), exactly one `save` listener (priority `ps`), all others neutral, connected in any order.  If
`pm > ps`, `emit` calls …, measure, …, save, … (`MeasureThenSave`: the non-neutral calls are exactly
measure, then save). -/
theorem C18_measure_before_save_of_prio (ls : List (LAct × Int)) (pm ps : Int)
    (hone : effectiveL ls = [(.measure, pm), (.save, ps)] ∨ effectiveL ls = [(.save, ps), (.measure, pm)])
    (hprio : ps < pm) : MeasureThenSave (callOrderL ls) := by
  unfold MeasureThenSave
  rcases hone with h | h
  · rw [effective_ms ls pm ps h, if_pos (by omega)]
  · rw [effective_sm ls pm ps h, if_pos hprio]

example : effectiveL ls4 = [(.save, -100), (.measure, 0)] ∧ MeasureThenSave (callOrderL ls4) := by decide

/-- **Equal priorities ⇒ the connection order decides** (stable sort): measure connected before save ⇒
measure, save; save connected before measure (the connection order of the source) ⇒ save, measure. -/
theorem C18_measure_before_save_tie (ls : List (LAct × Int)) (p : Int) :
    (effectiveL ls = [(.measure, p), (.save, p)] → effective (callOrderL ls) = [.measure, .save]) ∧
    (effectiveL ls = [(.save, p), (.measure, p)] → effective (callOrderL ls) = [.save, .measure]) := by
  constructor
  · intro h; rw [effective_ms ls p p h, if_pos (Int.le_refl p)]
  · intro h; rw [effective_sm ls p p h, if_neg (Int.lt_irrefl p)]

example : effective (callOrderL [(.neutral 1, 5), (.measure, 5), (.neutral 2, 9), (.save, 5)]) = [.measure, .save] := by
  decide
example : effective (callOrderL [(.neutral 1, 5), (.save, 5), (.neutral 2, 9), (.measure, 5)]) = [.save, .measure] := by
  decide

/-- **Call order of measure and save, completely.**  One measure, one save, others neutral: the
measurement is made before the save iff `prio(measure) > prio(save)`, or the priorities are equal and the
measure listener was connected first.  (Otherwise the save runs first.) -/
theorem C18_measure_before_save_iff (ls : List (LAct × Int)) (pm ps : Int)
    (hone : effectiveL ls = [(.measure, pm), (.save, ps)] ∨ effectiveL ls = [(.save, ps), (.measure, pm)]) :
    (MeasureThenSave (callOrderL ls) ↔ (ps < pm ∨ (ps = pm ∧ effectiveL ls = [(.measure, pm), (.save, ps)]))) ∧
    (¬ MeasureThenSave (callOrderL ls) → effective (callOrderL ls) = [.save, .measure]) := by
  unfold MeasureThenSave
  rcases hone with h | h
  · rw [effective_ms ls pm ps h]
    by_cases hp : ps ≤ pm
    · simp only [if_pos hp, true_iff, not_true_eq_false, false_implies, and_true]
      rcases Int.lt_or_eq_of_le hp with hl | he
      · exact Or.inl hl
      · exact Or.inr ⟨he, h⟩
    · simp only [if_neg hp, implies_true, and_true]
      constructor
      · intro hc; simp at hc
      · rintro (hl | ⟨he, _⟩) <;> omega
  · rw [effective_sm ls pm ps h]
    by_cases hp : ps < pm
    · simp only [if_pos hp, true_iff, not_true_eq_false, false_implies, and_true]
      exact Or.inl hp
    · simp only [if_neg hp, implies_true, and_true]
      constructor
      · intro hc; simp at hc
      · rintro (hl | ⟨_, he⟩)
        · exact absurd hl hp
        · rw [h] at he; simp at he

example : ¬ MeasureThenSave (callOrderL [(.neutral 1, 7), (.measure, -100), (.save, 0), (.neutral 2, 3)]) := by decide

/-- **Save last, for arbitrary listeners.**  `l1 ++ (save, ps) :: l2` in connection order, the other
listeners arbitrary (`measure`, `other f`, further saves, neutral ones).  If every non-neutral listener
connected before the save has priority ≥ `ps` and every non-neutral listener connected after it has
priority > `ps`, the save is the last non-neutral listener `emit` calls. -/
theorem C18_save_last_of_prio (l1 l2 : List (LAct × Int)) (ps : Int)
    (h1 : ∀ p ∈ l1, p.1.isNeutral = false → ps ≤ p.2)
    (h2 : ∀ p ∈ l2, p.1.isNeutral = false → ps < p.2) :
    SaveLastL (callOrderL (l1 ++ (LAct.save, ps) :: l2)) :=
  saveLastL_of_prio l1 l2 ps h1 h2

-- `ls5 = [neutral 1 @ -200] ++ (save, -100) :: [logger @ -100, measure @ 0, neutral 2 @ 3]`: the logger has
-- the save's priority but was connected AFTER it, so it runs after the save: the hypothesis fails, and so
-- does the conclusion; raising the logger to -99 repairs both
example : (callOrderL ls5).map LAct.kind = [.neutral 2, .measure, .save, .other, .neutral 1] ∧
    ¬ SaveLastL (callOrderL ls5) := by decide
example : SaveLastL (callOrderL [(.neutral 1, -200), (.save, -100), (.other logger, -99), (.measure, 0), (.neutral 2, 3)]) := by
  decide

/-- **Resume ≡ uninterrupted run with arbitrarily many listeners, every checkpoint.**  Listener list `ls`
arbitrary (any length, any priorities, any connection order).  Whenever `emit` calls the `measure` listener
before the `save` listener and all other listeners are neutral (`MeasureThenSave (callOrderL ls)`), the run
resumed from the file written at ANY checkpoint `j` ends in exactly the simulation state of the plain run
(engine state, whole measurement list, `finished_run`).  Other hypotheses as in `C18_resume_equiv`. -/
theorem C18_resume_equiv_listeners (cfg : Cfg) (ls : List (LAct × Int))
    (horder : MeasureThenSave (callOrderL ls)) (hcarry : cfg.carryErr = true)
    (hgs : cfg.kind = .gs → GsDet cfg) (j : Nat) (sn : Snap) (hs : snapshotAtL cfg ls j = some sn) :
    resumeL cfg ls sn = runL cfg ls := by
  have hh : HarmlessAll ls := by
    apply harmlessAll_of_effectiveL
    intro q hq hk
    have hmem : q.1 ∈ effective (callOrderL ls) := by
      rw [effective_callOrderL]
      exact List.mem_map.2 ⟨q, (mem_sortByPrioG q _).2 hq, rfl⟩
    rw [horder, hk] at hmem
    simp at hmem
  exact resume_equivE (goodE_emitL cfg ls horder.saveLast hh) hcarry hgs j sn hs

-- non-vacuity: four listeners (priorities −100, 7, 0, 3, scrambled connection order), both loop kinds
example : MeasureThenSave (callOrderL ls4) := by decide
example : (snapshotAtL cfgGS ls4 3).isSome = true ∧ resumeFromL cfgGS ls4 3 = runL cfgGS ls4 ∧
    (runL cfgGS ls4).map (fun s => s.meas.map (·.tag)) = some [0, 1, 2, 3, 4, 5] := by decide +kernel
example : (snapshotAtL cfgTE ls4 2).isSome = true ∧ resumeFromL cfgTE ls4 2 = runL cfgTE ls4 ∧
    (runL cfgTE ls4).map (fun s => s.meas.map (·.tag)) = some [0, 1, 1, 2, 2, 3, 3, 4, 4] := by decide +kernel

/-- **The same with arbitrary result-writing listeners.**  `other f` listeners may rewrite results and
state (not the loop counter, not `finished`: `HarmlessAll`); several measure listeners, several saves are
allowed.  If the last non-neutral listener `emit` calls is a save, resuming from any checkpoint equals
the plain run. -/
theorem C18_resume_equiv_listeners_writers (cfg : Cfg) (ls : List (LAct × Int))
    (horder : SaveLastL (callOrderL ls)) (hharm : HarmlessAll ls) (hcarry : cfg.carryErr = true)
    (hgs : cfg.kind = .gs → GsDet cfg) (j : Nat) (sn : Snap) (hs : snapshotAtL cfg ls j = some sn) :
    resumeL cfg ls sn = runL cfg ls :=
  resume_equivE (goodE_emitL cfg ls horder hharm) hcarry hgs j sn hs

example : SaveLastL (callOrderL ls5') := by decide
example : HarmlessAll ls5' := by
  intro f p hp
  simp only [ls5', List.mem_cons, Prod.mk.injEq, reduceCtorEq, false_and, false_or, List.not_mem_nil, or_false] at hp
  obtain ⟨hf, _⟩ := hp
  cases hf
  exact fun s => ⟨rfl, rfl⟩
example : resumeFromL cfgGS ls5' 2 = runL cfgGS ls5' ∧
    (runL cfgGS ls5').map (fun s => s.meas.map (·.tag)) = some [0, 1, 1001, 2, 1002, 3, 1003, 4, 1004, 5] := by
  decide +kernel
-- and with the logger AFTER the save (`ls5`) its record of the checkpoint is lost by the resume
example : (resumeFromL cfgGS ls5 2).map (fun s => s.meas.map (·.tag)) = some [0, 1, 1001, 2, 3, 1003, 4, 1004, 5] ∧
    (runL cfgGS ls5).map (fun s => s.meas.map (·.tag)) = some [0, 1, 1001, 2, 1002, 3, 1003, 4, 1004, 5] := by
  decide +kernel

/-- **Final corollary: priorities only.**  Any listener list with exactly one measure listener (priority
`pm`), exactly one save listener (priority `ps`), arbitrarily many neutral listeners at arbitrary
priorities, connected in any order.  If `pm > ps` — or `pm = ps` and the measure listener was connected
before the save listener — resuming from any checkpoint equals the uninterrupted run.  (The source has
`pm = 0 > ps = -100`.) -/
theorem C18_resume_equiv_listeners_prio (cfg : Cfg) (ls : List (LAct × Int)) (pm ps : Int)
    (hone : effectiveL ls = [(.measure, pm), (.save, ps)] ∨ effectiveL ls = [(.save, ps), (.measure, pm)])
    (hprio : ps < pm ∨ (ps = pm ∧ effectiveL ls = [(.measure, pm), (.save, ps)]))
    (hcarry : cfg.carryErr = true) (hgs : cfg.kind = .gs → GsDet cfg) (j : Nat) (sn : Snap)
    (hs : snapshotAtL cfg ls j = some sn) :
    resumeL cfg ls sn = runL cfg ls :=
  C18_resume_equiv_listeners cfg ls ((C18_measure_before_save_iff ls pm ps hone).1.2 hprio) hcarry hgs j sn hs

example : effectiveL ls4 = [(.save, -100), (.measure, 0)] ∧ (-100 : Int) < 0 := by decide

/-- **`C18_resume_equiv` is the two-listener instance**: its hypothesis `SaveLast cfg` gives `SaveLastL`
for the listener list of `Loop.lean`, and the generalised theorem, transported along
`C18_listeners_extend_model`, is the old statement. -/
theorem C18_resume_equiv_from_listeners (cfg : Cfg) (horder : SaveLast cfg) (hcarry : cfg.carryErr = true)
    (hgs : cfg.kind = .gs → GsDet cfg) (j : Nat) (sn : Snap) (hs : snapshotAt cfg j = some sn) :
    resume cfg sn = run cfg := by
  obtain ⟨hco, hrun, hsnap, hres⟩ := C18_listeners_extend_model cfg
  have hlast : SaveLastL (callOrderL (lsOf cfg)) := by
    rw [hco]
    rcases callOrder_cases cfg horder with h | h <;> rw [h] <;> decide
  have hharm : HarmlessAll (lsOf cfg) := by
    intro f p hp
    simp only [lsOf, List.mem_map] at hp
    obtain ⟨⟨l, q⟩, _, heq⟩ := hp
    cases l <;> simp [LAct.ofListener] at heq
  rw [← hres, ← hrun]
  exact C18_resume_equiv_listeners_writers cfg (lsOf cfg) hlast hharm hcarry hgs j sn (by rw [hsnap]; exact hs)

example : SaveLast cfgGS := by decide

/-- **`prio(measure) < prio(save)` loses a measurement, also among other listeners.**  Four listeners, one
measure (−100) and one save (0): the file written at checkpoint 2 lacks the measurement of that checkpoint
and the resumed run never makes it.  (Two-listener witness: `C18_resume_priority_counterexample`.) -/
theorem C18_resume_listeners_priority_counterexample :
    ∃ (cfg : Cfg) (ls : List (LAct × Int)) (j : Nat),
      effectiveL ls = [(.measure, -100), (.save, 0)] ∧ cfg.carryErr = true ∧ GsDet cfg ∧
      (snapshotAtL cfg ls j).isSome = true ∧ resumeFromL cfg ls j ≠ runL cfg ls :=
  ⟨cfgGS, [(.neutral 1, 7), (.measure, -100), (.save, 0), (.neutral 2, 3)], 2,
    by decide, rfl, ⟨rfl, fun _ => rfl⟩, by decide +kernel, by decide +kernel⟩

example : (resumeFromL cfgGS [(.neutral 1, 7), (.measure, -100), (.save, 0), (.neutral 2, 3)] 2).map
    (fun s => s.meas.map (·.tag)) = some [0, 1, 3, 4, 5] := by decide +kernel
