/-!
# C18 extension — `Simulation._merge_measurement_results` (tenpy/simulations/simulation.py l.740–772)

The bookkeeping that turns the dictionaries returned by successive measurements into the series saved under
`results['measurements']`: "the same sequence of measurements, none lost and none duplicated".

* `Row`  = the `results` dict of ONE measurement (insertion ordered association list; a Python dict has no
  duplicate keys — the theorems assume `(rowKeys r).Nodup`), values abstracted to integers;
* `Cols` = `self.results['measurements']`: key ↦ list of values, `none` = the Python `None` used for padding;
* `Option Cols` = `self.results.get('measurements', None)`;
* `merge st r = none` ⇔ the real code raises (`next(iter(previous_results.values()))` on an EMPTY dict:
  `StopIteration`).

Same three phases as the code: (1) new keys get `[None] * len(first existing series)`, (2) every value of the
row is appended under its key, (3) previous keys missing from the row get `None` appended.
Import-free.
-/
namespace TenpyModel.C18.ExtMeas

abbrev Key := Nat
abbrev Val := Option Int
abbrev Row := List (Key × Int)
abbrev Cols := List (Key × List Val)

def rowKeys (r : Row) : List Key := r.map Prod.fst
def colKeys (s : Cols) : List Key := s.map Prod.fst

/-- `results.get(k)` -/
def look : Row → Key → Option Int
  | [], _ => none
  | (a, b) :: r, k => if a = k then some b else look r k

/-- `new_keys - previous_keys` (a Python set: iteration order unspecified; canonicalised by the harness) -/
def newKeys (prev : Cols) (r : Row) : List Key := (rowKeys r).filter (fun k => decide (k ∉ colKeys prev))

/-- `previous_results[k].append(v)` -/
def appendAt (s : Cols) (k : Key) (v : Val) : Cols :=
  s.map (fun c => if c.1 = k then (c.1, c.2 ++ [v]) else c)

/-- `for k, v in results.items(): previous_results[k].append(v)` -/
def appendRow (s : Cols) (r : Row) : Cols := r.foldl (fun s kv => appendAt s kv.1 (some kv.2)) s

/-- `for key in previous_keys - new_keys: previous_results[key].append(None)` -/
def padMissing (prevKeys : List Key) (r : Row) (s : Cols) : Cols :=
  s.map (fun c => if c.1 ∈ prevKeys ∧ c.1 ∉ rowKeys r then (c.1, c.2 ++ [none]) else c)

/-- one call of `_merge_measurement_results`; outer `none` = the call raises -/
def merge : Option Cols → Row → Option (Option Cols)
  | none, r => some (some (r.map (fun kv => (kv.1, [some kv.2]))))
  | some prev, r =>
    let nk := newKeys prev r
    if nk.isEmpty then some (some (padMissing (colKeys prev) r (appendRow prev r)))
    else match prev with
      | [] => none    -- next(iter({}.values())) : StopIteration
      | c0 :: _ =>
        let padded := prev ++ nk.map (fun k => (k, List.replicate c0.2.length (none : Val)))
        some (some (padMissing (colKeys prev) r (appendRow padded r)))

/-- the measurements of a run, in order -/
def mergeAll (st : Option Cols) : List Row → Option (Option Cols)
  | [] => some st
  | r :: rs => match merge st r with
    | none => none
    | some st' => mergeAll st' rs

end TenpyModel.C18.ExtMeas
