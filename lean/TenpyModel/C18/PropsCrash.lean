import TenpyModel.C18.CrashProofs
/-!
# C18 — crash safety of `Simulation.save_results` (safe_write on)

"If the process dies at any point while a simulation writes its results, a complete, loadable results
file from the previous or the current checkpoint remains on disk; no failure leaves only a partial
file."

* `C18_crash_safe`          one save from a good entry state: every crash point, every chunking of the write
* `C18_save_reestablishes`  every completed save ends in `{out: complete cur, backup: absent}` — from ANY state
* `C18_history`             hence the guarantee holds for a whole process (list of saves) with a *global*
                            crash budget; `C18_history_fresh` is the instance "empty directory, start-up, saves"
* `C18_second_crash_counterexample`  the guarantee is FALSE for the first save of a run resumed after a crash
                            inside the write (known finding; reproduced on the real code by the harness)
* `C18_second_crash_partial`         it holds whenever the first crash did not leave `out` incomplete
-/
open TenpyModel.C18

/-- **Crash safety of one save.**  If on entry `out` is the complete file of the previous checkpoint `p`
(the backup name may hold nothing, the start-up stub or anything stale), or `out` is absent and the
complete file sits under the backup name, then after EVERY crash point `k` of `save_results(cur)` —
every atomic file-system step and, because `chunks` is arbitrary, every byte prefix of the write —
one of the two names holds a complete file with content `p` or `cur`.  In particular no crash leaves
only partial files. -/
theorem C18_crash_safe (fs : FS) (p cur : Nat) (chunks : List Nat) (k : Nat) (h : GoodEntry fs p) :
    (crashState (saveProg true cur chunks) fs k).hasComplete p = true ∨
    (crashState (saveProg true cur chunks) fs k).hasComplete cur = true :=
  save_safe fs p cur chunks k h

-- non-vacuity: a crash after 6 steps (exists, exists, unlink stub, rename, create, one chunk)
example : crashState (saveProg true 2 [10, 20]) ⟨some (.complete 1), some .other⟩ 6
    = ⟨some (.partialW 2 10), some (.complete 1)⟩ := by decide
example : GoodEntry ⟨some (.complete 1), some .other⟩ 1 := Or.inl rfl

/-- **Every completed save re-establishes the entry condition**: whatever the two names held before
(nothing, stub, partial leftovers, old files), an uninterrupted `save_results(cur)` ends with
`out = complete cur` and no backup. -/
theorem C18_save_reestablishes (fs : FS) (cur : Nat) (chunks : List Nat) :
    Clean (saveDone true fs cur chunks) cur ∧ GoodEntry (saveDone true fs cur chunks) cur := by
  have h := save_done_clean fs cur chunks _ (Nat.le_refl (saveProg true cur chunks).size)
  have hc : Clean (saveDone true fs cur chunks) cur := by
    simp only [saveDone, h, Clean, and_self]
  exact ⟨hc, hc.good⟩

example : saveDone true ⟨none, some .other⟩ 1 [5, 9] = ⟨some (.complete 1), none⟩ := by decide

/-- **Histories.**  A process executes the saves `saves` one after the other and is killed after `k`
atomic file-system steps in total (any `k`).  Let `d` be the number of saves that ran to their end and
`q` the content of the last of them (`prev` if `d = 0`).  If the process started from a state that was
good for `prev`, the disk holds a complete file with content `q`, or a complete file of the save in
progress (number `d`). -/
theorem C18_history (fs : FS) (prev : Option Nat) (h : Entry fs prev) (saves : List (Nat × List Nat))
    (k : Nat) :
    let d := (progress fs saves k).1
    let st := crashState (processProg true saves) fs k
    ∀ q, lastDone prev ((saves.take d).map (·.1)) = some q →
      st.hasComplete q = true ∨ ∃ c ch, saves[d]? = some (c, ch) ∧ st.hasComplete c = true := by
  intro d st q hq
  have hdec := process_decompose saves fs k
  have hgood := progress_good saves fs prev k h
  simp only at hdec hgood
  rw [hq] at hgood
  change GoodEntry _ q at hgood
  cases hdrop : saves.drop d with
  | nil =>
    have hst : st = (progress fs saves k).2.1 := by
      simp only [st]; rw [hdec]; simp only [d] at hdrop; rw [hdrop]
    rcases hgood with hg | ⟨_, hg⟩
    · exact Or.inl (by rw [hst]; exact hasComplete_of_out hg)
    · exact Or.inl (by rw [hst]; exact hasComplete_of_backup hg)
  | cons s more =>
    obtain ⟨c, ch⟩ := s
    have hst : st = crashState (saveProg true c ch) (progress fs saves k).2.1 (progress fs saves k).2.2 := by
      simp only [st]; rw [hdec]; simp only [d] at hdrop; rw [hdrop]
    have hget : saves[d]? = some (c, ch) := by
      have := List.getElem?_drop (xs := saves) (i := d) (j := 0)
      rw [hdrop] at this
      simpa using this.symm
    rcases save_safe _ q c ch (progress fs saves k).2.2 hgood with hs | hs
    · exact Or.inl (by rw [hst]; exact hs)
    · exact Or.inr ⟨c, ch, hget, by rw [hst]; exact hs⟩

/-- The same for a fresh run in an empty directory: start-up (`fix_output_filenames`: two `exists`,
the stub) followed by the saves.  As soon as one save has completed, a complete file of the last
completed or of the current save is on disk at every later crash point. -/
theorem C18_history_fresh (saves : List (Nat × List Nat)) (k : Nat) :
    let fs0 : FS := ⟨none, some .other⟩
    let d := (progress fs0 saves k).1
    let st := crashState (runProg true saves) FS.empty (k + 3)
    ∀ q, lastDone none ((saves.take d).map (·.1)) = some q →
      st.hasComplete q = true ∨ ∃ c ch, saves[d]? = some (c, ch) ∧ st.hasComplete c = true := by
  intro fs0 d st
  have hstart : st = crashState (processProg true saves) fs0 k := by
    simp [st, fs0, runProg, startupThen, crashState, exec, FS.empty, FS.get, applyAct, FS.set]
  rw [hstart]
  exact C18_history fs0 none trivial saves k

-- non-vacuity: three saves, killed after 3 + 19 steps: two saves done, the third is being written
example : crashState (runProg true [(1, [4]), (2, [4]), (3, [4, 8])]) FS.empty 22
    = ⟨some (.partialW 3 4), some (.complete 2)⟩ := by decide
example : (progress ⟨none, some .other⟩ [(1, [4]), (2, [4]), (3, [4, 8])] 19).1 = 2 := by decide

/-- The second-crash statement: a save of `c2` from a good state is killed at step `k1`; the run is
resumed (start-up of the new process); the first save `c3` of the resumed run is killed at step `k2`.
Claim: a complete file of `p`, `c2` or `c3` remains. -/
def SecondCrashSafe : Prop :=
  ∀ (fs : FS) (p c2 : Nat) (ch2 : List Nat) (k1 c3 : Nat) (ch3 : List Nat) (k2 : Nat), GoodEntry fs p →
    let fs1 := crashState (saveProg true c2 ch2) fs k1
    let st := crashState (saveProg true c3 ch3) (resumeStart fs1) k2
    st.hasComplete p = true ∨ st.hasComplete c2 = true ∨ st.hasComplete c3 = true

/-- **The second-crash statement is false of today's code.**  Witness: `{out: complete 1}`; save 2 is killed
after `exists(out), exists(backup), rename, create` leaving `{out: partial 2, backup: complete 1}`;
the resumed run's first save does `exists(out), exists(backup), unlink(backup)` — the only complete
file is gone while `out` is still the partial leftover. -/
theorem C18_second_crash_counterexample : ¬ SecondCrashSafe := by
  intro h
  have := h ⟨some (.complete 1), none⟩ 1 2 [10] 4 3 [10] 3 (Or.inl rfl)
  revert this
  decide

example : crashState (saveProg true 2 [10]) ⟨some (.complete 1), none⟩ 4
    = ⟨some (.partialW 2 0), some (.complete 1)⟩ := by decide
example : crashState (saveProg true 3 [10]) (resumeStart ⟨some (.partialW 2 0), some (.complete 1)⟩) 3
    = ⟨some (.partialW 2 0), none⟩ := by decide
-- and later in the same save both names hold partial files
example : crashState (saveProg true 3 [10]) (resumeStart ⟨some (.partialW 2 0), some (.complete 1)⟩) 6
    = ⟨some (.partialW 3 10), some (.partialW 2 0)⟩ := by decide

/-- **Second crash, what does hold.**  If the first crash did not leave `out` as an incomplete file
(i.e. it did not fall between `create` and `close` of the write), the resumed run's first save is crash
safe again: a complete file of `p`, `c2` or `c3` remains at every crash point.  The hypothesis is exactly
what the proof needs: the only bad entry state is `{out: partial, backup: complete}`. -/
theorem C18_second_crash_partial (fs : FS) (p c2 : Nat) (ch2 : List Nat) (k1 c3 : Nat) (ch3 : List Nat)
    (k2 : Nat) (h : GoodEntry fs p)
    (hnp : ∀ c j, (crashState (saveProg true c2 ch2) fs k1).out ≠ some (.partialW c j)) :
    let fs1 := crashState (saveProg true c2 ch2) fs k1
    let st := crashState (saveProg true c3 ch3) (resumeStart fs1) k2
    st.hasComplete p = true ∨ st.hasComplete c2 = true ∨ st.hasComplete c3 = true := by
  intro fs1 st
  rcases save_shape fs p c2 ch2 k1 h with hg | ⟨j, ho, _⟩ | ⟨ho, _⟩ | hc
  · rcases save_safe _ p c3 ch3 k2 (resumeStart_good _ p hg) with hs | hs
    · exact Or.inl hs
    · exact Or.inr (Or.inr hs)
  · exact absurd ho (hnp c2 j)
  · have hg : GoodEntry fs1 c2 := Or.inl ho
    rcases save_safe _ c2 c3 ch3 k2 (resumeStart_good _ c2 hg) with hs | hs
    · exact Or.inr (Or.inl hs)
    · exact Or.inr (Or.inr hs)
  · rcases save_safe _ c2 c3 ch3 k2 (resumeStart_good _ c2 hc.good) with hs | hs
    · exact Or.inr (Or.inl hs)
    · exact Or.inr (Or.inr hs)

-- non-vacuity of the hypothesis: a crash right after the rename leaves `out` absent
example : (crashState (saveProg true 2 [10]) ⟨some (.complete 1), none⟩ 3).out = none := by decide
