import TenpyModel.C18.P2_Dir
import TenpyModel.C18.P2_LoopL
/-! Concrete instances used by the non-vacuity examples of `Props2.lean`. -/
namespace TenpyModel.C18

/-- a directory with five names: `3` = output file (checkpoint 1), `1` = backup name (start-up stub),
`0, 2` other files, `4` absent -/
def dir5 : Dir (Fin 5) := fun x =>
  match x with
  | 0 => some (.complete 77)
  | 1 => some .other
  | 2 => some (.partialW 5 5)
  | 3 => some (.complete 1)
  | 4 => none

def two5 : Two (Fin 5) := ⟨3, 1, by decide⟩

end TenpyModel.C18

namespace TenpyModel.C18.Loop

/-- four listeners connected in scrambled order with priorities −100, 7, 0, 3 -/
def ls4 : List (LAct × Int) := [(.save, -100), (.neutral 1, 7), (.measure, 0), (.neutral 2, 3)]

/-- an `other` listener that writes its own record (tag 1000 + loop counter) into the results -/
def logger : Sim → Sim := fun s => { s with meas := s.meas ++ [⟨s.meas.length, 1000 + s.st.steps, s.st.psi, s.st.err⟩] }

/-- five listeners, two of them write into the results -/
def ls5 : List (LAct × Int) := [(.neutral 1, -200), (.save, -100), (.other logger, -100), (.measure, 0), (.neutral 2, 3)]

/-- `ls5` with the logger at priority −99: save last -/
def ls5' : List (LAct × Int) := [(.neutral 1, -200), (.save, -100), (.other logger, -99), (.measure, 0), (.neutral 2, 3)]

end TenpyModel.C18.Loop
