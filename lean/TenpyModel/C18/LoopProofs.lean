import TenpyModel.C18.Loop
/-! Lemmas about the generic loop `loopG` and the two simulation loops (used by `PropsResume.lean`). -/
namespace TenpyModel.C18.Loop

variable {α : Type}

theorem loopG_stable (stop : α → Option Bool) (body : α → α) (f : Nat) (x : α) (h : stop x = some true) :
    loopG stop body f x = some x := by
  cases f with
  | zero => rfl
  | succ f => simp [loopG, h]

/-- fuel `a + b` = fuel `a`, then fuel `b` -/
theorem loopG_add (stop : α → Option Bool) (body : α → α) (a b : Nat) (x : α) :
    loopG stop body (a + b) x = (loopG stop body a x).bind (loopG stop body b) := by
  induction a generalizing x with
  | zero => simp [loopG]
  | succ a ih =>
    rw [Nat.succ_add]
    simp only [loopG]
    cases h : stop x with
    | none => simp
    | some t =>
      cases t with
      | true => simp [loopG_stable stop body b x h]
      | false => simp [ih]

/-- with a measure that decreases in every iteration and is 0 only at stopped states, fuel beyond the
measure is irrelevant -/
theorem loopG_fuel (stop : α → Option Bool) (body : α → α) (μ : α → Nat)
    (h1 : ∀ x, stop x = some false → μ (body x) < μ x)
    (h0 : ∀ x, μ x = 0 → stop x = some true) :
    ∀ (f c : Nat) (x : α), μ x ≤ f → loopG stop body (f + c) x = loopG stop body f x := by
  intro f
  induction f with
  | zero =>
    intro c x hx
    have hs := h0 x (by omega)
    rw [loopG_stable stop body _ x hs, loopG_stable stop body _ x hs]
  | succ f ih =>
    intro c x hx
    rw [Nat.succ_add]
    simp only [loopG]
    cases h : stop x with
    | none => rfl
    | some t =>
      cases t with
      | true => rfl
      | false =>
        have := h1 x h
        exact ih c (body x) (by omega)

/-- two runs from related states stay related (a simulation relation that `stop` cannot see) -/
theorem loopG_sim (stop : α → Option Bool) (body : α → α) (R : α → α → Prop)
    (hR : ∀ x y, R x y → stop x = stop y ∧ R (body x) (body y)) :
    ∀ (f : Nat) (x y : α), R x y →
      (loopG stop body f x = none ∧ loopG stop body f y = none) ∨
      ∃ x' y', loopG stop body f x = some x' ∧ loopG stop body f y = some y' ∧ R x' y' := by
  intro f
  induction f with
  | zero => intro x y h; exact Or.inr ⟨x, y, rfl, rfl, h⟩
  | succ f ih =>
    intro x y h
    obtain ⟨hs, hb⟩ := hR x y h
    simp only [loopG]
    rw [← hs]
    cases hx : stop x with
    | none => exact Or.inl ⟨rfl, rfl⟩
    | some t =>
      cases t with
      | true => exact Or.inr ⟨x, y, rfl, rfl, h⟩
      | false => exact ih _ _ hb

/-- invariants of the body are invariants of the loop -/
theorem loopG_inv (stop : α → Option Bool) (body : α → α) (P : α → Prop) (hP : ∀ x, P x → P (body x)) :
    ∀ (f : Nat) (x y : α), P x → loopG stop body f x = some y → P y := by
  intro f
  induction f with
  | zero => intro x y hx h; simp only [loopG, Option.some.injEq] at h; exact h ▸ hx
  | succ f ih =>
    intro x y hx h
    simp only [loopG] at h
    cases hs : stop x with
    | none => simp [hs] at h
    | some t =>
      cases t with
      | true => simp only [hs, Option.some.injEq] at h; exact h ▸ hx
      | false => simp only [hs] at h; exact ih _ _ (hP x hx) h

/-! ### `emit` -/

/-- the listeners do not touch the engine state or the `finished` flag -/
theorem emit_fold_st (cfg : Cfg) (l : List Listener) (acc : Sim × Option Snap) :
    (l.foldl (fun acc l => match l with
        | .save => (acc.1, some (takeSnap cfg acc.1))
        | .measure => (measure acc.1, acc.2)) acc).1.st = acc.1.st ∧
    (l.foldl (fun acc l => match l with
        | .save => (acc.1, some (takeSnap cfg acc.1))
        | .measure => (measure acc.1, acc.2)) acc).1.finished = acc.1.finished := by
  induction l generalizing acc with
  | nil => exact ⟨rfl, rfl⟩
  | cons x xs ih =>
    simp only [List.foldl]
    cases x with
    | save => exact ih _
    | measure =>
      have := ih (measure acc.1, acc.2)
      simpa [measure] using this

theorem emit_st (cfg : Cfg) (s : Sim) : (emit cfg s).1.st = s.st := (emit_fold_st cfg _ (s, none)).1

theorem emit_finished (cfg : Cfg) (s : Sim) : (emit cfg s).1.finished = s.finished :=
  (emit_fold_st cfg _ (s, none)).2

/-- "measure before save": the save listener runs last (measure has the strictly higher priority; with
equal priorities the save, connected first, would run first) -/
def SaveLast (cfg : Cfg) : Prop := cfg.measureAtCheckpoints = true → cfg.prioSave < cfg.prioMeasure

theorem callOrder_cases (cfg : Cfg) (h : SaveLast cfg) :
    callOrder cfg = [.save] ∨ callOrder cfg = [.measure, .save] := by
  unfold callOrder listeners
  cases hm : cfg.measureAtCheckpoints with
  | false => left; simp [sortByPrio, insertByPrio]
  | true =>
    right
    have := h hm
    have hn : ¬ cfg.prioSave ≥ cfg.prioMeasure := by omega
    simp [sortByPrio, insertByPrio, hn]

/-- what the checkpoint save writes is the state the simulation is in after the whole checkpoint -/
theorem emit_snap (cfg : Cfg) (h : SaveLast cfg) (s : Sim) :
    (emit cfg s).2 = some (takeSnap cfg (emit cfg s).1) := by
  unfold emit
  rcases callOrder_cases cfg h with hc | hc <;> simp [hc]

theorem restore_takeSnap (cfg : Cfg) (hc : cfg.carryErr = true) (s : Sim) (hf : s.finished = false) :
    restore (takeSnap cfg s) = s := by
  obtain ⟨⟨a, b, c⟩, m, f⟩ := s
  simp only at hf
  subst hf
  simp [restore, takeSnap, hc]

end TenpyModel.C18.Loop
