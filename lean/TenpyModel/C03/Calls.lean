import TenpyModel.C03.Ops
/-
C03 — every public tenpy operation of the check, expressed by the four kinds of `Op` (Ops.lean): which references
are re-used, which objects are fresh, which existing containers are written. Source anchors are given per case
(`np_conserved.py` = npc, `charges.py` = ch, `_npc_helper.pyx` = pyx). Two kernel configurations: `cy = true` is
the compiled build, `cy = false` is TENPY_NO_CYTHON=1.

Arguments (`Args`): `a` tensor references, `g` leg references, `n` numbers, `l` lists of numbers, `b` flags.
Values that depend on the numerical contents (the keys of the result's `_qdata` rows, which blocks are
C-contiguous, which blocks survive a projection) are *hints* computed by the harness.

The behaviour modelled is that of the repaired tree (`ChargeInfo.make_valid` copies in both kernels).
-/
namespace TenpyModel.C03

structure Args where
  a : List Ref := []
  g : List Ref := []
  n : List Nat := []
  l : List (List Nat) := []
  b : List Bool := []
deriving Repr, Inhabited

namespace Args
def A (x : Args) (i : Nat) : Ref := x.a.getD i 0
def G (x : Args) (i : Nat) : Ref := x.g.getD i 0
def N (x : Args) (i : Nat) : Nat := x.n.getD i 0
def L (x : Args) (i : Nat) : List Nat := x.l.getD i []
def B (x : Args) (i : Nat) : Bool := x.b.getD i false
end Args

/-- running state while a call is expanded: later operations of the same call refer to objects created by
earlier ones -/
structure St where
  h   : Heap
  ops : List Op := []

def St.emit (s : St) (op : Op) : St × Ref :=
  ({ h := step s.h op, ops := s.ops ++ [op] }, (stepRes s.h op).getD 0 0)

def nblk (h : Heap) (a : Ref) : Nat := (h.list (h.arr a).data).length
def rank (h : Heap) (a : Ref) : Nat := (h.list (h.arr a).legs).length
def views (k n : Nat) : List BlkSrc := (List.range n).map (BlkSrc.view k)
def copies (k n : Nat) : List BlkSrc := (List.range n).map (BlkSrc.copy k)
def freshBlks (tok n : Nat) : List BlkSrc := (List.range n).map (fun i => BlkSrc.fresh (tok + i))
def srcLegs (k n : Nat) : List LegSrc := (List.range n).map (LegSrc.src k)
def legOf (h : Heap) (a : Ref) (i : Nat) : Ref := (h.list (h.arr a).legs).getD i 0

/-- leg layout of a result. code `4*i + t`: t=0 leg `i` of operand 0, t=1 leg `i` of operand 1, t=2 the `i`-th leg
created by this call, t=3 with `i = 16*axis + j`: the `j`-th incoming leg of the pipe at `axis` of operand 0 -/
def layout (h : Heap) (srcs : List Ref) (newLegs : List Ref) (codes : List Nat) : List LegSrc :=
  codes.map fun c =>
    let i := c / 4
    match c % 4 with
    | 0 => LegSrc.src 0 i
    | 1 => LegSrc.src 1 i
    | 2 => LegSrc.ref (newLegs.getD i 0)
    | _ => LegSrc.ref ((h.leg (legOf h (srcs.getD 0 0) (i / 16))).sub.getD (i % 16) 0)

/-- emit one leg operation per entry, collecting the new leg references -/
def emitLegs (s : St) (ds : List LegDerive) : St × List Ref :=
  ds.foldl (fun (acc : St × List Ref) d => let (s', r) := acc.1.emit (.leg d); (s', acc.2 ++ [r])) (s, [])

/-- `LegCharge.conj` / `LegPipe.conj` (ch): a new leg object sharing `slices` and `charges`; a pipe also gets
conjugated (new) incoming leg objects, recursively for nested pipes (`fuel` bounds the nesting depth) -/
def conjLegF : Nat → St → Ref → St × Ref
  | 0, s, l =>
    let L := s.h.leg l
    s.emit (.leg { src := l, shSlices := true, shCharges := true, qconj := -L.qconj, sorted := L.sorted, bunched := L.bunched,
                   sub := .same })
  | fuel + 1, s, l =>
    let L := s.h.leg l
    if L.sub.isEmpty then
      s.emit (.leg { src := l, shSlices := true, shCharges := true, qconj := -L.qconj, sorted := L.sorted, bunched := L.bunched })
    else
      let acc := L.sub.foldl (fun (acc : St × List Ref) q => let r := conjLegF fuel acc.1 q; (r.1, acc.2 ++ [r.2])) (s, [])
      acc.1.emit (.leg { src := l, shSlices := true, shCharges := true, qconj := -L.qconj, sorted := L.sorted,
                         bunched := L.bunched, sub := .refs acc.2 })

def conjLeg (s : St) (l : Ref) : St × Ref := conjLegF 6 s l

def conjLegs (s : St) (ls : List Ref) : St × List Ref :=
  ls.foldl (fun (acc : St × List Ref) l => let (s', r) := conjLeg acc.1 l; (s', acc.2 ++ [r])) (s, [])

def freshLeg (tok : Nat) (qconj : Int) (sorted bunched : Bool) : LegDerive :=
  { qconj := qconj, sorted := sorted, bunched := bunched, tok := tok }

/-- sorted list of keys: what `isort_qdata` makes of `_qdata` -/
def insertNat (x : Nat) : List Nat → List Nat
  | [] => [x]
  | y :: ys => if x ≤ y then x :: y :: ys else y :: insertNat x ys
def sortNat : List Nat → List Nat
  | [] => []
  | x :: xs => insertNat x (sortNat xs)

/-- merge of two sorted key lists as done by `ibinary_blockwise` / `Array_iadd_prefactor_other`:
(key, index in a | none, index in b | none) -/
def mergeKeys (fuel : Nat) (ka kb : List Nat) (i j : Nat) : List (Nat × Option Nat × Option Nat) :=
  match fuel with
  | 0 => []
  | fuel + 1 =>
    match ka, kb with
    | [], [] => []
    | x :: xs, [] => (x, some i, none) :: mergeKeys fuel xs [] (i + 1) j
    | [], y :: ys => (y, none, some j) :: mergeKeys fuel [] ys i (j + 1)
    | x :: xs, y :: ys =>
      if x = y then (x, some i, some j) :: mergeKeys fuel xs ys (i + 1) (j + 1)
      else if x > y then (y, none, some j) :: mergeKeys fuel (x :: xs) ys i (j + 1)
      else (x, some i, none) :: mergeKeys fuel xs (y :: ys) (i + 1) j

def tokOf (h : Heap) : Nat := 1000 + 7 * h.bufs.length

/-- names of the modelled tenpy operations -/
inductive CN where
  | leg_new
  | leg_pipe
  | leg_conj
  | leg_copy
  | leg_to_LegCharge
  | leg_flip
  | leg_sort
  | leg_bunch
  | leg_project
  | leg_extend
  | new
  | copy
  | transpose
  | conj
  | iconj
  | add_trivial_leg
  | take_slice
  | scale_axis
  | astype
  | replace_label
  | neg
  | zeros_like
  | binary
  | gauge_total_charge
  | change_charge
  | drop_charge_one
  | extend
  | deep_fresh
  | fresh
  | to_LegCharge_legs
  | concat_views
  | resort
  | itranspose
  | iswapaxes
  | iscale_axis
  | iunary
  | iscale_zero
  | iscale_prefactor
  | iadd
  | ipurge_zeros
  | iproject
  | setitem_scalar
  | setitem_write
  | ilabels
  | ibinary
deriving Repr, DecidableEq, Inhabited

def CN.ofString (s : String) : Option CN :=
  [("leg.new", CN.leg_new), ("leg.pipe", CN.leg_pipe), ("leg.conj", CN.leg_conj), ("leg.copy", CN.leg_copy), ("leg.to_LegCharge", CN.leg_to_LegCharge), ("leg.flip", CN.leg_flip), ("leg.sort", CN.leg_sort), ("leg.bunch", CN.leg_bunch), ("leg.project", CN.leg_project), ("leg.extend", CN.leg_extend), ("new", CN.new), ("copy", CN.copy), ("transpose", CN.transpose), ("conj", CN.conj), ("iconj", CN.iconj), ("add_trivial_leg", CN.add_trivial_leg), ("take_slice", CN.take_slice), ("scale_axis", CN.scale_axis), ("astype", CN.astype), ("replace_label", CN.replace_label), ("neg", CN.neg), ("zeros_like", CN.zeros_like), ("binary", CN.binary), ("gauge_total_charge", CN.gauge_total_charge), ("change_charge", CN.change_charge), ("drop_charge_one", CN.drop_charge_one), ("extend", CN.extend), ("deep_fresh", CN.deep_fresh), ("fresh", CN.fresh), ("to_LegCharge_legs", CN.to_LegCharge_legs), ("concat_views", CN.concat_views), ("resort", CN.resort), ("itranspose", CN.itranspose), ("iswapaxes", CN.iswapaxes), ("iscale_axis", CN.iscale_axis), ("iunary", CN.iunary), ("iscale_zero", CN.iscale_zero), ("iscale_prefactor", CN.iscale_prefactor), ("iadd", CN.iadd), ("ipurge_zeros", CN.ipurge_zeros), ("iproject", CN.iproject), ("setitem_scalar", CN.setitem_scalar), ("setitem_write", CN.setitem_write), ("ilabels", CN.ilabels), ("ibinary", CN.ibinary)].lookup s

/-- result of a call: the operations and the reference of the resulting object (tensor or leg) -/
def callSt (cy : Bool) (s : St) (name : CN) (x : Args) : St × Ref :=
  let h := s.h
  let a := x.A 0
  let A := h.arr a
  let n := nblk h a
  let tok := tokOf h
  match name with
  -- ------------------------------------------------------------------ legs (ch)
  | .leg_new =>      -- LegCharge(...) / from_qind / from_qflat: `np.array(slices)`, `np.array(charges)` copy
    s.emit (.leg (freshLeg tok (if x.B 0 then 1 else -1) (x.B 1) (x.B 2)))
  | .leg_pipe =>     -- LegPipe(legs): new slices/charges, `self.legs = tuple(legs)`
    s.emit (.leg { freshLeg tok (if x.B 0 then 1 else -1) (x.B 1) (x.B 2) with sub := .refs x.g })
  | .leg_conj => conjLeg s (x.G 0)
  | .leg_copy =>
    let L := h.leg (x.G 0)
    s.emit (.leg { src := x.G 0, shSlices := true, shCharges := true, qconj := L.qconj, sorted := L.sorted,
                   bunched := L.bunched, sub := .same })
  | .leg_to_LegCharge =>
    let L := h.leg (x.G 0)
    s.emit (.leg { src := x.G 0, shSlices := true, shCharges := true, qconj := L.qconj, sorted := L.sorted,
                   bunched := L.bunched, sub := .none })
  | .leg_flip =>     -- flip_charges_qconj: `res.charges = make_valid(-self.charges)`, slices shared
    let L := h.leg (x.G 0)
    s.emit (.leg { src := x.G 0, shSlices := true, shCharges := false, qconj := -L.qconj, sorted := false,
                   bunched := L.bunched, sub := .same, tok := tok })
  | .leg_sort =>     -- sort(bunch): `if self.sorted and ((not bunch) or self.bunched): return …, self`
    let L := h.leg (x.G 0)
    let bunch := x.B 0
    s.emit (.leg { src := x.G 0, retSelf := L.sorted && (!bunch || L.bunched), qconj := L.qconj, sorted := true,
                   bunched := x.B 1, tok := tok })
  | .leg_bunch =>    -- bunch(): `if self.bunched: return …, self`
    let L := h.leg (x.G 0)
    s.emit (.leg { src := x.G 0, retSelf := L.bunched, qconj := L.qconj, sorted := L.sorted, bunched := true, tok := tok })
  | .leg_project =>  -- project(mask): charges[keep] and new slices
    let L := h.leg (x.G 0)
    s.emit (.leg { src := x.G 0, qconj := L.qconj, sorted := L.sorted, bunched := x.B 0, tok := tok })
  | .leg_extend =>   -- extend(extra): LegCharge(chinfo, new_slices, new_charges)
    let L := h.leg (x.G 0)
    s.emit (.leg (freshLeg tok L.qconj (x.B 0) (x.B 1)))
  -- ------------------------------------------------------------------ constructors (npc)
  | .new =>          -- Array(legs) + from_func: `self.legs = list(legcharges)`
    s.emit (.derive { srcs := [], legs := .newList (x.g.map LegSrc.ref), qtotal := .fresh [tok], labels := .fresh [tok + 1],
                      qdata := .fresh (x.L 0), data := .newList (freshBlks (tok + 2) (x.L 0).length),
                      dtype := some (x.N 0), qsorted := some (x.B 0) })
  -- ------------------------------------------------------------------ not in place (npc)
  | .copy =>         -- Array.copy(deep)
    if x.B 0 then
      s.emit (.derive { srcs := [a], data := .newList (copies 0 n) })
    else
      s.emit (.derive { srcs := [a], qtotal := .shared 0, qdata := .shared 0, data := .sharedList 0 })
  | .transpose =>    -- copy(deep=True) then itranspose; trivial permutation: just the deep copy
    if x.B 0 then s.emit (.derive { srcs := [a], data := .newList (copies 0 n) })
    else s.emit (.derive { srcs := [a], legs := .newList ((x.L 0).map (LegSrc.src 0)), labels := .fresh [tok],
                           qdata := .fresh (x.L 1), data := .newList (copies 0 n), qsorted := some false })
  | .conj =>         -- conj(): complex -> unary_blockwise on a shallow copy (keeps `_qdata`!); real -> deep copy
    let (s, ls) := conjLegs s (h.list A.legs)
    let cplx := x.B 0
    s.emit (.derive { srcs := [a], legs := .newList (ls.map LegSrc.ref), qtotal := .fresh [tok], labels := .fresh [tok + 1],
                      qdata := if cplx then .shared 0 else .copy 0,
                      data := .newList (if cplx then freshBlks (tok + 2) n else copies 0 n) })
  | .iconj =>
    let (s, ls) := conjLegs s (h.list A.legs)
    s.emit (.inplace a { legs := .rebind (ls.map LegSrc.ref), qtotal := .rebind (.fresh [tok]),
                         labels := .rebind (.fresh [tok + 1]),
                         data := if x.B 0 then .rebind (freshBlks (tok + 2) n) else .keep })
  | .add_trivial_leg =>  -- shallow copy; `res.legs.insert`; `res._data = res._data[:]` + reshape (views); new `_qdata`
    let (s, l) := s.emit (.leg (freshLeg tok (if x.B 0 then 1 else -1) true true))
    let ax := x.N 0
    let ls := srcLegs 0 (rank h a)
    s.emit (.derive { srcs := [a], legs := .newList (ls.take ax ++ [LegSrc.ref l] ++ ls.drop ax), qtotal := .shared 0,
                      labels := .fresh [tok + 2], qdata := .fresh (x.L 0), data := .newList (views 0 n) })
  | .take_slice =>   -- deep copy, then views `block[sl]` of the copies; l0 = kept axes, l1 = kept blocks, l2 = keys
    if (x.L 3).isEmpty then s.emit (.derive { srcs := [a], data := .newList (copies 0 n) })
    else s.emit (.derive { srcs := [a], legs := .newList ((x.L 0).map (LegSrc.src 0)), qtotal := .fresh [tok],
                           labels := .fresh [tok + 1], qdata := .fresh (x.L 2),
                           data := .newList ((x.L 1).map (BlkSrc.copy 0)) })
  | .scale_axis =>   -- shallow copy, `res._qdata = res._qdata.copy()`, iscale_axis rebinds `_data`
    s.emit (.derive { srcs := [a], qtotal := .shared 0, data := .newList (freshBlks tok n), dtype := some (x.N 0) })
  | .astype =>       -- shallow copy, `_qdata.copy()`, blocks converted only `if copy or dtype != self.dtype`
    let conv := x.B 0 || x.N 0 != A.dtype
    s.emit (.derive { srcs := [a], qtotal := .shared 0, data := if conv then .newList (copies 0 n) else .sharedList 0,
                      dtype := some (x.N 0) })
  | .replace_label => -- copy(deep=False).ireplace_label
    s.emit (.derive { srcs := [a], qtotal := .shared 0, labels := .fresh [tok], qdata := .shared 0, data := .sharedList 0 })
  | .neg =>          -- unary_blockwise: shallow copy, new blocks
    s.emit (.derive { srcs := [a], qtotal := .shared 0, qdata := .shared 0, data := .newList (freshBlks tok n) })
  | .binary =>       -- binary_blockwise: shallow copy + ibinary_blockwise (other sorted before: "resort"); `_qdata` stays the
                      -- operand's object iff it was sorted already and both have the same block structure (b0)
    s.emit (.derive { srcs := [a], qtotal := .shared 0, qdata := if x.B 0 then .shared 0 else .fresh (x.L 0),
                      data := .newList (freshBlks tok (x.L 0).length), dtype := some (x.N 0), qsorted := some true })
  | .zeros_like =>   -- shallow copy with `_data = []`, new empty `_qdata`
    s.emit (.derive { srcs := [a], qtotal := .shared 0, qdata := .fresh [], data := .newList [], qsorted := some true })
  | .gauge_total_charge => -- shallow copy; new qtotal; `res.legs[ax] = LegCharge.from_qind(…)`
    let (s, l) := s.emit (.leg (freshLeg tok (if x.B 0 then 1 else -1) (x.B 1) (x.B 2)))
    let ls := srcLegs 0 (rank h a)
    s.emit (.derive { srcs := [a], legs := .newList (ls.set (x.N 0) (LegSrc.ref l)), qtotal := .fresh [tok + 2],
                      qdata := .shared 0, data := .sharedList 0 })
  | .change_charge | .drop_charge_one | .extend =>
    -- deep copy; every leg (or the one leg, code list l0) replaced by a new LegCharge (repaired make_valid copies)
    let (s, ls) := emitLegs s ((x.L 1).zipIdx.map fun (f, i) => freshLeg (tok + 2 * i) (if f % 2 = 1 then 1 else -1) (f / 2 % 2 = 1) (f / 4 % 2 = 1))
    s.emit (.derive { srcs := [a], legs := .newList (layout h [a] ls (x.L 0)),
                      qtotal := if name == .drop_charge_one then .fresh [tok + 100] else .copy 0,
                      -- (`_qdata` is copied; for `extend` the abstract row keys are re-computed because they are
                      --  F-stride numbers w.r.t. the block numbers of the legs, and one leg got more blocks)
                      qdata := if name == .extend then .fresh (x.L 2) else .copy 0,
                      data := .newList (copies 0 n) })
  | .deep_fresh =>   -- a + b, a - b, a * s: deep copy of operand 0, then every block and `_qdata` replaced
    s.emit (.derive { srcs := [a], qdata := .fresh (x.L 0), data := .newList (freshBlks tok (x.L 0).length),
                      dtype := some (x.N 0), qsorted := some (x.B 0) })
  | .fresh =>
    -- everything new except the leg *objects* taken from the operands (tensordot, outer, trace, squeeze, __getitem__,
    -- add_charge, drop_charge(None), permute, combine_legs after a transposition, …): l0 = layout, l1 = keys,
    -- l2 = flag codes of legs created by the call, g = pipes: incoming legs given as l3.. (one list per pipe)
    let (s, ls) := emitLegs s ((x.L 2).zipIdx.map fun (f, i) =>
      { freshLeg (tok + 2 * i) (if f % 2 = 1 then 1 else -1) (f / 2 % 2 = 1) (f / 4 % 2 = 1) with
        sub := if f / 8 % 2 = 1 then .refs ((x.L (3 + i)).map (fun c => match (layout h x.a [] [c]) with
                                                            | [LegSrc.src k j] => legOf h (x.a.getD k 0) j
                                                            | [LegSrc.ref r] => r
                                                            | _ => 0)) else .none })
    -- b0: qtotal shared with operand 0 (shallow-copy based functions: permute, split_legs worker, concatenate)
    -- (layout code t=2 with index beyond the created legs: a leg object passed in by the caller, e.g. add_leg)
    s.emit (.derive { srcs := x.a, legs := .newList (layout h x.a (ls ++ x.g) (x.L 0)),
                      qtotal := if x.B 0 then .shared 0 else .fresh [tok + 100], labels := .fresh [tok + 101],
                      qdata := .fresh (x.L 1), data := .newList (freshBlks (tok + 102) (x.L 1).length),
                      dtype := some (x.N 0), qsorted := some (x.B 1) })
  | .to_LegCharge_legs =>
    -- sort_legcharge: `cp.legs[ax] = pipe.to_LegCharge()` on the fresh result of combine_legs: the pipe's arrays are
    -- shared with a new LegCharge object. a0 = fresh tensor, l0 = axes
    let ls := h.list A.legs
    let (s, news) := emitLegs s ((x.L 0).map fun ax =>
      let p := ls.getD ax 0
      let P := h.leg p
      { src := p, shSlices := true, shCharges := true, qconj := P.qconj, sorted := P.sorted, bunched := P.bunched })
    let ls' := ((x.L 0).zip news).foldl (fun acc (ax, r) => acc.set ax r) ls
    s.emit (.inplace a { legs := .mutate (ls'.map LegSrc.ref), labels := .rebind (.fresh [tok]) })
  | .concat_views =>
    -- concatenate(copy=False): `np.asarray(t, dtype)` is `t` for the operands that already have the result dtype
    -- (flags l2), a converted copy for the others; qtotal comes from `arrays[0].zeros_like()` (shallow copy)
    let (s, l) := s.emit (.leg (freshLeg tok (if x.B 2 then 1 else -1) (x.B 3) (x.B 4)))
    let blks := (x.a.zipIdx.map fun (r, k) =>
      if (x.L 2).getD k 0 != 0 then views k (nblk h r) else freshBlks (tok + 10 + 100 * k) (nblk h r)).flatten
    s.emit (.derive { srcs := x.a, legs := .newList ((srcLegs 0 (rank h a)).set (x.N 1) (LegSrc.ref l)), qtotal := .shared 0,
                      qdata := .fresh (x.L 1), data := .newList blks, dtype := some (x.N 0), qsorted := some false })
  -- ------------------------------------------------------------------ re-sorting of operands
  | .resort =>       -- isort_qdata (b0) and/or _imake_contiguous (b1, flags l0)
    s.emit (.resort a (x.B 0) (if x.B 1 then some ((x.L 0).map (· != 0)) else none))
  -- ------------------------------------------------------------------ in place (npc / pyx)
  | .itranspose =>   -- npc: views `np.transpose(block)`; pyx: `PyArray_GETCONTIGUOUS(transpose)`: a view only if contiguous
    let vf := x.L 2
    let blks := (List.range n).map fun i =>
      if !cy || vf.getD i 0 != 0 then BlkSrc.view 0 i else BlkSrc.fresh (tok + i)
    s.emit (.inplace a { legs := .rebind ((x.L 0).map (LegSrc.src 0)), labels := .rebind (.fresh [tok + 500]),
                         qdata := .rebind (.fresh (x.L 1)), data := .rebind blks, qsorted := some false })
  | .iswapaxes =>    -- `legs[axis1], legs[axis2] = …` and `labels[…] = …` write the existing lists; views of the blocks
    let i := x.N 0
    let j := x.N 1
    let ls := srcLegs 0 (rank h a)
    let ls' := (ls.set i (ls.getD j (LegSrc.src 0 0))).set j (ls.getD i (LegSrc.src 0 0))
    s.emit (.inplace a { legs := .mutate ls', labels := .mutate (.fresh [tok]), qdata := .rebind (.fresh (x.L 0)),
                         data := .rebind (views 0 n), qsorted := some false })
  | .iscale_axis | .iunary =>    -- new list of new blocks
    s.emit (.inplace a { data := .rebind (freshBlks tok n), dtype := some (x.N 0) })
  | .iscale_zero =>  -- iscale_prefactor(0.)
    s.emit (.inplace a { data := .rebind [], qdata := .rebind (.fresh []), qsorted := some true })
  | .iscale_prefactor =>
    -- npc: iunary_blockwise(np.multiply): new blocks. pyx: astype if the dtype changes (new blocks), else
    -- `_imake_contiguous` (emitted separately as .resort) and BLAS scal **in place** on every block
    if !cy || x.B 0 then s.emit (.inplace a { data := .rebind (freshBlks tok n), dtype := some (x.N 0) })
    else s.emit (.inplace a { wblocks := (List.range n).map (fun i => (i, tok + i)) })
  | .iadd =>
    -- self += prefactor*other, after both were sorted (.resort emitted before). a0 = self, a1 = other (or its
    -- scaled/converted temporary, which the harness registers with .copy/.astype first).
    -- npc (ibinary_blockwise): new blocks everywhere; `_qdata` kept iff the block structure is identical.
    -- pyx: BLAS axpy in place on the common blocks, `tb.copy()` for blocks only in other, same objects otherwise;
    --      b0: self's blocks were converted to a new dtype before (fresh list of fresh blocks, .iunary emitted before)
    let o := x.A 1
    let ka := h.buf A.qdata
    let kb := h.buf (h.arr o).qdata
    let m := mergeKeys (ka.length + kb.length + 1) ka kb 0 0
    let same := ka == kb
    if !cy then
      s.emit (.inplace a { others := [o], data := .rebind (freshBlks tok m.length),
                           qdata := if same then .keep else .rebind (.fresh (m.map (·.1))), dtype := some (x.N 0) })
    else if same then
      s.emit (.inplace a { others := [o], wblocks := (List.range n).map (fun i => (i, tok + i)) })
    else
      s.emit (.inplace a { others := [o],
                           wblocks := m.filterMap (fun e => match e with | (_, some i, some _) => some (i, tok + i) | _ => none),
                           data := .rebind (m.map fun e => match e with
                                     | (_, some i, _) => BlkSrc.view 0 i
                                     | (k, none, _) => BlkSrc.fresh (tok + 500 + k)),
                           qdata := .rebind (.fresh (m.map (·.1))) })
  | .ipurge_zeros => -- new list of the kept blocks, `_qdata[keep]` (a copy); nothing at all when there is no block
    if n == 0 then (s, a) else
    let ks := h.buf A.qdata
    s.emit (.inplace a { data := .rebind ((x.L 0).map (BlkSrc.view 0)),
                         qdata := .rebind (.fresh ((x.L 0).map (fun i => ks.getD i 0))) })
  | .iproject =>     -- `_qdata` copied first; `self.legs[a] = l.project(m)` writes the legs list; np.compress copies
    let ls := h.list A.legs
    let (s, news) := emitLegs s ((x.L 0).zipIdx.map fun (ax, i) =>
      let P := h.leg (ls.getD ax 0)
      { src := ls.getD ax 0, qconj := P.qconj, sorted := P.sorted, bunched := (x.L 2).getD i 0 != 0, tok := tok + 2 * i })
    let ls' := ((x.L 0).zip news).foldl (fun acc (ax, r) => acc.set ax r) ls
    s.emit (.inplace a { legs := .mutate (ls'.map LegSrc.ref), qdata := .rebind (.fresh (x.L 1)),
                         data := .rebind (freshBlks (tok + 100) (x.L 1).length) })
  | .setitem_scalar =>
    -- a[i, j] = v: write into the block (b0, n0 = its index) or get_block(insert=True): `self._data.append(res)`
    -- (the existing list, b1) / `self._data = self._data + [res]`, `self._qdata = np.append(…)`
    if x.B 0 then s.emit (.inplace a { wblocks := [(x.N 0, tok)] })
    else
      let blks := views 0 n ++ [BlkSrc.fresh tok]
      s.emit (.inplace a { data := if x.B 1 then .mutate blks else .rebind blks, qdata := .rebind (.fresh (x.L 0)),
                           qsorted := some false })
  | .setitem_write =>
    -- first half of a[slices] = other: zero + overwrite existing blocks (l0), insert missing ones (n0 many, keys l1)
    let blks := views 0 n ++ freshBlks tok (x.N 0)
    if x.N 0 == 0 then s.emit (.inplace a { others := x.a.drop 1, wblocks := (x.L 0).map (fun i => (i, tok + i)) })
    else s.emit (.inplace a { others := x.a.drop 1, wblocks := (x.L 0).map (fun i => (i, tok + i)),
                              data := if x.B 1 then .mutate blks else .rebind blks, qdata := .rebind (.fresh (x.L 1)),
                              qsorted := some false })
  | .ilabels =>      -- iset_leg_labels / ireplace_label(s) / idrop_labels: `self._labels = <new list>`
    s.emit (.inplace a { labels := .rebind (.fresh [tok]) })
  | .ibinary =>      -- ibinary_blockwise (Python in both kernels), operands sorted before
    let o := x.A 1
    let ka := h.buf A.qdata
    let kb := h.buf (h.arr o).qdata
    let m := mergeKeys (ka.length + kb.length + 1) ka kb 0 0
    s.emit (.inplace a { others := [o], data := .rebind (freshBlks tok m.length),
                         qdata := if ka == kb then .keep else .rebind (.fresh (m.map (·.1))), dtype := some (x.N 0) })

def callOps (cy : Bool) (h : Heap) (name : CN) (x : Args) : List Op := (callSt cy { h := h } name x).1.ops
def callRes (cy : Bool) (h : Heap) (name : CN) (x : Args) : Ref := (callSt cy { h := h } name x).2

/-- the calls of the table that are in-place methods of operand 0 -/
def inplaceCalls : List CN :=
  [.iconj, .itranspose, .iswapaxes, .iscale_axis, .iunary, .iscale_zero, .iscale_prefactor, .iadd,
   .ipurge_zeros, .iproject, .setitem_scalar, .setitem_write, .ilabels, .ibinary, .to_LegCharge_legs]

end TenpyModel.C03
