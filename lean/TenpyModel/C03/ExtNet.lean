import TenpyModel.C03.Calls
/-
C03 extension — the tensor-network containers on top of the tensor heap: `MPS` and `MPO` objects
(`tenpy/networks/mps.py`, `mpo.py`), their constructors, copies, accessors and the in-place methods that replace
entries / lists, together with the glue around them (index normalisation `_to_valid_site_index` /
`_to_valid_bond_index`, `_parse_form`, `_get_Id`, the early exits and the error branches).

A network object is a record of references, like an `Array`:

  tl  : List (List Ref)            Python lists of tensors (`MPS._B`, `MPO._W`, a caller's `Bs` / `Ws` list);
                                   entries are references into `h.arrs`
  sb  : List (List Nat)            ndarrays of singular values (never part of an `Array`)
  sl  : List (List (Option Ref))   Python lists of singular-value arrays or `None` (`MPS._S`, a caller's `SVs`)
  vl  : List (List Nat)            Python lists of immutable values: `form` (encoded forms), `sites` (site tokens),
                                   `IdL` / `IdR` (encoded indices)
  mps : List MpsObj,  mpo : List MpoObj

Tensor-level work inside the methods (`astype(copy=True)`, `itranspose`, `copy()`, `scale_axis`, `replace_label`,
`transpose`, `sort_legcharge`) is expressed by the calls of `Calls.lean`, i.e. on the same heap `h` and with the same
sharing behaviour as the tensor-level part of the check. Only the trivial charge shift is modelled
(`shift_Array_unit_cells` returns its argument: `chinfo.trivial_shift`).

Value-dependent facts are hints computed by the harness: the permutation that `itranspose(['vL','p','vR'])` has to
perform (labels are abstract here; `ok = false`: a label is missing and tenpy raises), `_qdata` keys, and
`sane = false` when the *generator* built an input whose values fail `test_sanity` (legs / lengths of singular values).
-/
namespace TenpyModel.C03

structure MpsObj where
  B     : Ref := 0   -- tl
  S     : Ref := 0   -- sl
  form  : Ref := 0   -- vl
  sites : Ref := 0   -- vl
  bc    : Nat := 0   -- 0 finite, 1 segment, 2 infinite
  dtype : Nat := 0
deriving Repr, DecidableEq, Inhabited

structure MpoObj where
  W     : Ref := 0   -- tl
  IdL   : Ref := 0   -- vl
  IdR   : Ref := 0   -- vl
  sites : Ref := 0   -- vl
  bc    : Nat := 0
  dtype : Nat := 0
deriving Repr, DecidableEq, Inhabited

structure Net where
  h   : Heap := {}
  tl  : List (List Ref) := []
  sb  : List (List Nat) := []
  sl  : List (List (Option Ref)) := []
  vl  : List (List Nat) := []
  mps : List MpsObj := []
  mpo : List MpoObj := []
deriving Repr, Inhabited

namespace Net
def tlist (n : Net) (r : Ref) : List Ref := n.tl[r]?.getD []
def sbuf  (n : Net) (r : Ref) : List Nat := n.sb[r]?.getD []
def slist (n : Net) (r : Ref) : List (Option Ref) := n.sl[r]?.getD []
def vlist (n : Net) (r : Ref) : List Nat := n.vl[r]?.getD []
def mpsO  (n : Net) (r : Ref) : MpsObj := n.mps[r]?.getD default
def mpoO  (n : Net) (r : Ref) : MpoObj := n.mpo[r]?.getD default
end Net

/-- outcome of a method: a returned reference / value, `None`, or the exception class that is raised
(1 ValueError, 2 IndexError, 3 TypeError, 4 AssertionError, 5 KeyError) -/
inductive Res where
  | ok (r : Nat)
  | none_
  | err (code : Nat)
deriving Repr, DecidableEq, Inhabited

def eValue : Res := .err 1
def eIndex : Res := .err 2
def eType : Res := .err 3
def eAssert : Res := .err 4
def eKey : Res := .err 5

/-! ## index normalisation (`MPSGeometry`) -/

def finiteBc (bc : Nat) : Bool := bc != 2

/-- `_to_valid_site_index(i, return_num_unit_cells=True)`: `divmod(i, L)` (floor division, `L > 0`); for finite
systems index `-L ≤ i < 0` is still accepted (deprecated, `num_unit_cells = -1` is reset to 0) and every other unit
cell raises `ValueError`. Returns (index in the unit cell, unit cell). -/
def validSite (L : Nat) (bc : Nat) (i : Int) : Option (Nat × Int) :=
  if L = 0 then none else
  let q := i / (L : Int)
  let r := (i % (L : Int)).toNat
  if finiteBc bc then
    if q = -1 ∨ q = 0 then some (r, 0) else none
  else some (r, q)

/-- `_to_valid_bond_index(i_site, is_left, return_num_unit_cells=True)`: finite — the site index is checked first and 1
is added *afterwards* for the bond to the right; infinite — 1 is added *before* the index is wrapped. -/
def validBond (L : Nat) (bc : Nat) (i : Int) (left : Bool) : Option (Nat × Int) :=
  if finiteBc bc then (validSite L bc i).map fun x => (x.1 + (if left then 0 else 1), 0)
  else validSite L bc (i + (if left then 0 else 1))

/-! ## forms -/

/-- a canonical form: `none` = not canonical (`None`); `some (l, r)`: exponents of the singular values on the left /
right, doubled (0, 1, 2 for 0., 0.5, 1.); an entry `none` in a *requested* form means "as stored" -/
abbrev Form := Option (Option Nat × Option Nat)

def encE : Option Nat → Nat
  | none => 0
  | some k => k + 1
def decE (k : Nat) : Option Nat := if k = 0 then none else some (k - 1)
def Form.enc : Form → Nat
  | none => 0
  | some (a, b) => 1 + encE a + 4 * encE b
def Form.dec (k : Nat) : Form := if k = 0 then none else some (decE ((k - 1) % 4), decE ((k - 1) / 4))

/-- the `form` argument of the constructor / `_parse_form` -/
inductive FormArg where
  | one (f : Nat)      -- a tuple or a key of `_valid_forms`: `[form] * L`
  | list (r : Ref)     -- a list object (vl) of forms
deriving Repr

/-- `_parse_form`: always a NEW list of length `L`; a list of one entry is repeated, any other wrong length raises
`ValueError` -/
def parseForm (n : Net) (L : Nat) : FormArg → Option (List Nat)
  | .one f => some (List.replicate L f)
  | .list r =>
    let fs := n.vlist r
    if fs.length = 1 then some (List.replicate L (fs.getD 0 0))
    else if fs.length != L then none
    else some fs

/-! ## tensor-level calls used by the containers -/

/-- one call of the table of `Calls.lean` on heap `h`: resulting heap and reference -/
def callH (cy : Bool) (h : Heap) (c : CN) (x : Args) : Heap × Ref :=
  ((callSt cy { h := h } c x).1.h, (callSt cy { h := h } c x).2)

/-- what `itranspose(labels)` has to do with one tensor (hint): `ok = false` — a label is missing (`KeyError`);
`perm` — the permutation (identity or empty: "nothing to do", `return self`), `keys` / `vf` as for the call `itranspose` -/
structure TrHint where
  ok   : Bool := true
  perm : List Nat := []
  keys : List Nat := []
  vf   : List Nat := []
deriving Repr, Inhabited

def isIdPerm (p : List Nat) : Bool := p == List.range p.length

/-- `B.itranspose(labels)` on tensor `b` -/
def transposeH (cy : Bool) (h : Heap) (b : Ref) (t : TrHint) : Heap :=
  if isIdPerm t.perm then h else (callH cy h .itranspose { a := [b], l := [t.perm, t.keys, t.vf] }).1

def dtypeJoin (h : Heap) (bs : List Ref) : Nat := (bs.map fun b => (h.arr b).dtype).foldl max 0

/-- `[B.astype(dtype, copy=True).itranspose(labels) for B in Bs]`; `tr = false`: without the transposition (`MPO`).
`none`: a transposition raised. -/
def copyTensors (cy : Bool) (dtype : Nat) (tr : Bool) : Heap → List Ref → List TrHint → Option (Heap × List Ref)
  | h, [], _ => some (h, [])
  | h, b :: bs, ts =>
    let r := callH cy h .astype { a := [b], n := [dtype], b := [true] }
    let t := ts.headD {}
    if tr && !t.ok then none else
    let h2 := if tr then transposeH cy r.1 r.2 t else r.1
    (copyTensors cy dtype tr h2 bs ts.tail).map fun x => (x.1, r.2 :: x.2)

/-! ## `MPS.__init__`, `MPS.copy` -/

/-- the bonds whose singular values are read from `SVs`: `range(L + 1)[self.nontrivial_bonds]` -/
def ntBonds (L bc : Nat) : List Nat :=
  if bc = 0 then (List.range L).drop 1 else if bc = 1 then List.range (L + 1) else List.range L

/-- `np.array(SVs[i], dtype=float)` for the given bonds: fresh arrays (allocated from address `base`) with the same
contents, `None` stays `None`; `none`: `SVs` is too short (`IndexError`) -/
def copySV (n : Net) (svs : List (Option Ref)) : Nat → List Nat → Option (List (List Nat) × List (Option Ref))
  | _, [] => some ([], [])
  | base, i :: is =>
    match svs[i]? with
    | none => none
    | some none => (copySV n svs base is).map fun x => (x.1, none :: x.2)
    | some (some r) => (copySV n svs (base + 1) is).map fun x => (n.sbuf r :: x.1, some base :: x.2)

/-- `MPS(sites, Bs, SVs, bc, form)`. Order of the real constructor: `list(sites)`, `sites[0]` (IndexError when empty),
`np.result_type` of the dtypes (ValueError without tensors), `_parse_form` (ValueError), copies of the tensors
(KeyError from `itranspose` when a label is missing), `self.finite` (AssertionError for an unknown `bc`), copies of the singular values
(IndexError), trivial outer bonds of a finite MPS (ONE new array stored at both ends), `test_sanity` (number of
tensors; values: hint `sane`). A constructor that raises leaves no object behind. -/
def mpsInit (cy : Bool) (n : Net) (sites : List Nat) (Bs SVs : Ref) (bc : Nat) (form : FormArg) (ts : List TrHint)
    (sane : Bool) : Net × Res :=
  let L := sites.length
  let bs := n.tlist Bs
  if L = 0 then (n, eIndex) else
  if bs.isEmpty then (n, eValue) else
  let dtype := dtypeJoin n.h bs
  match parseForm n L form with
  | none => (n, eValue)
  | some forms =>
    match copyTensors cy dtype true n.h bs ts with
    | none => (n, eKey)
    | some (h', newBs) =>
      if bc > 2 then (n, eAssert) else
      match copySV n (n.slist SVs) n.sb.length (ntBonds L bc) with
      | none => (n, eIndex)
      | some (newS, es) =>
        let ones := n.sb.length + newS.length
        let sb' := n.sb ++ (if bc = 0 then newS ++ [[1]] else newS)
        let S' := if bc = 0 then [some ones] ++ es ++ [some ones] else es
        if newBs.length != L then (n, eValue) else
        if !sane then (n, eValue) else
        ({ n with h := h', tl := n.tl ++ [newBs], sb := sb', sl := n.sl ++ [S'], vl := n.vl ++ [sites, forms],
                  mps := n.mps ++ [{ B := n.tl.length, S := n.sl.length, form := n.vl.length + 1, sites := n.vl.length,
                                     bc := bc, dtype := dtype }] },
         .ok n.mps.length)

/-- `psi.copy()`: the constructor on `psi`'s own lists (stored tensors already have the label order: nothing to transpose) -/
def mpsCopy (cy : Bool) (n : Net) (p : Ref) (sane : Bool := true) : Net × Res :=
  let P := n.mpsO p
  mpsInit cy n (n.vlist P.sites) P.B P.S P.bc (.list P.form) [] sane

/-! ## accessors -/

def mpsL (n : Net) (p : Ref) : Nat := (n.vlist (n.mpsO p).sites).length

/-- `get_SL(i)` / `get_SR(i)`: the stored array itself (or `None`) -/
def getS (n : Net) (p : Ref) (i : Int) (left : Bool) : Res :=
  match validBond (mpsL n p) (n.mpsO p).bc i left with
  | none => eValue
  | some (j, _) =>
    match (n.slist (n.mpsO p).S)[j]? with
    | none => eIndex
    | some none => .none_
    | some (some r) => .ok r

/-- `set_SL(i, S)` / `set_SR(i, S)`: "No copy is made!" -/
def setS (n : Net) (p : Ref) (i : Int) (left : Bool) (s : Option Ref) : Net × Res :=
  match validBond (mpsL n p) (n.mpsO p).bc i left with
  | none => (n, eValue)
  | some (j, _) =>
    let S := (n.mpsO p).S
    if j < (n.slist S).length then ({ n with sl := n.sl.set S ((n.slist S).set j s) }, .none_) else (n, eIndex)

/-- one side of the form conversion in `get_B`: `new_form[k] is not None and new_form[k] - old_form[k] != 0.` →
`_scale_axis_B(B, S, diff, axis)` = `B.scale_axis(S**diff, axis)` for a 1D array `S`. Errors (exception class): an
entry `None` in the stored form (TypeError from the subtraction); singular values `None`: `diff = 1` →
`scale_axis(None)` ValueError, otherwise `1. / None`, `None ** diff` TypeError; an array whose length is not the
dimension of the leg (hint `fit = false`): ValueError from `scale_axis`. Returns the heap and the (new) tensor. -/
def scaleSide (cy : Bool) (h : Heap) (B : Ref) (new old : Option Nat) (S : Res) (fit : Bool) : Except Nat (Heap × Ref) :=
  match new with
  | none => .ok (h, B)
  | some a =>
    match old with
    | none => .error 3
    | some o =>
      if a = o then .ok (h, B) else
      match S with
      | .ok _ => if fit then .ok (callH cy h .scale_axis { a := [B], n := [(h.arr B).dtype] }) else .error 1
      | _ => .error (if a = o + 2 then 1 else 3)

/-- both sides of the conversion, left first -/
def scaleBoth (cy : Bool) (h : Heap) (B : Ref) (nl nr ol orr : Option Nat) (SL SR : Res) (fitL fitR : Bool) :
    Except Nat (Heap × Ref) :=
  match scaleSide cy h B nl ol SL fitL with
  | .error c => .error c
  | .ok r2 => scaleSide cy r2.1 r2.2 nr orr SR fitR

/-- `get_B(i, form, copy, label_p)`. `copy`: `B = B.copy()` first. The stored tensor itself is returned iff nothing had
to be done. -/
def getB (cy : Bool) (n : Net) (p : Ref) (i : Int) (form : Form) (copy : Bool) (labelP : Bool)
    (fitL : Bool := true) (fitR : Bool := true) : Net × Res :=
  let P := n.mpsO p
  match validSite (mpsL n p) P.bc i with
  | none => (n, eValue)
  | some (j, _) =>
    match (n.tlist P.B)[j]? with
    | none => (n, eIndex)
    | some B0 =>
      let r1 := if copy then callH cy n.h .copy { a := [B0], b := [true] } else (n.h, B0)
      let old := Form.dec ((n.vlist P.form).getD j 0)
      let fin (x : Heap × Ref) : Net × Res :=
        let y := if labelP then callH cy x.1 .replace_label { a := [x.2] } else x
        ({ n with h := y.1 }, .ok y.2)
      match form with
      | none => fin r1
      | some (nl, nr) =>
        if old == form then fin r1 else
        match old with
        | none => (n, eValue)      -- "can't convert form of non-canonical state!"
        | some (ol, orr) =>
          match scaleBoth cy r1.1 r1.2 nl nr ol orr (getS n p i true) (getS n p i false) fitL fitR with
          | .error c => (n, .err c)
          | .ok r3 => fin r3

/-- `set_B(i, B, form)`: "No copy is made!" — `self.form[i] = …` and `self.dtype = …` are written BEFORE
`B.itranspose(labels)` (which may raise and which re-orders the legs of the caller's tensor in place). -/
def setB (cy : Bool) (n : Net) (p : Ref) (i : Int) (B : Ref) (form : Form) (t : TrHint) : Net × Res :=
  let P := n.mpsO p
  match validSite (mpsL n p) P.bc i with
  | none => (n, eValue)
  | some (j, _) =>
    if j ≥ (n.vlist P.form).length then (n, eIndex) else
    let n1 : Net := { n with vl := n.vl.set P.form ((n.vlist P.form).set j form.enc),
                             mps := n.mps.set p { P with dtype := max P.dtype (n.h.arr B).dtype } }
    if !t.ok then (n1, eKey) else
    if j ≥ (n.tlist P.B).length then ({ n1 with h := transposeH cy n.h B t }, eIndex) else
    ({ n1 with h := transposeH cy n.h B t, tl := n.tl.set P.B ((n.tlist P.B).set j B) }, .none_)

/-! ## `enlarge_mps_unit_cell`, `roll_mps_unit_cell` -/

def repeatL {α} (f : Nat) (l : List α) : List α := (List.replicate f l).flatten

/-- `enlarge_mps_unit_cell(factor)`: only for infinite MPS (segment: explicit `ValueError`; finite: `get_B(L)` raises
`ValueError`); NEW lists `_B`, `_S`, `sites`, `form` holding the same entries `factor` times. The final `test_sanity`
(hint `sane`: the values stored in the MPS pass it) raises AFTER the attributes were rebound. -/
def mpsEnlarge (n : Net) (p : Ref) (factor : Int) (sane : Bool := true) : Net × Res :=
  let P := n.mpsO p
  if factor ≤ 1 then (n, eValue) else
  if P.bc != 2 then (n, eValue) else
  let f := factor.toNat
  ({ n with tl := n.tl ++ [repeatL f (n.tlist P.B)], sl := n.sl ++ [repeatL f (n.slist P.S)],
            vl := n.vl ++ [repeatL f (n.vlist P.sites), repeatL f (n.vlist P.form)],
            mps := n.mps.set p { P with B := n.tl.length, S := n.sl.length, sites := n.vl.length, form := n.vl.length + 1 } },
   if sane then .none_ else eValue)

/-- indices `(k - shift) % L` for `k < L` -/
def rollInds (L : Nat) (shift : Int) : List Nat := (List.range L).map fun (k : Nat) => (((k : Int) - shift) % (L : Int)).toNat

def pick {α} [Inhabited α] (l : List α) (is : List Nat) : List α := is.map fun i => l.getD i default

/-- `roll_mps_unit_cell(shift)`: infinite MPS only; NEW lists with the entries permuted -/
def mpsRoll (n : Net) (p : Ref) (shift : Int) : Net × Res :=
  let P := n.mpsO p
  if P.bc != 2 then (n, eValue) else
  let is := rollInds (mpsL n p) shift
  ({ n with tl := n.tl ++ [pick (n.tlist P.B) is], sl := n.sl ++ [pick (n.slist P.S) is],
            vl := n.vl ++ [pick (n.vlist P.sites) is, pick (n.vlist P.form) is],
            mps := n.mps.set p { P with B := n.tl.length, S := n.sl.length, sites := n.vl.length, form := n.vl.length + 1 } },
   .none_)

/-! ## `MPO` -/

/-- the `IdL` / `IdR` argument of `MPO.__init__` -/
inductive IdArg where
  | none_                -- `None`
  | list (r : Ref)       -- a list object (vl) of encoded entries
  | scalar (v : Nat)     -- a single (encoded) index, not iterable
deriving Repr

/-- `MPO._get_Id(Id, L)`: always a NEW list with `L + 1` entries (`list(Id)`), `ValueError` for a wrong length.
Encoded entries: 0 = `None`, `2k + 1` = index `k ≥ 0`, `2k` = index `-k < 0`. -/
def getId (n : Net) (L : Nat) : IdArg → Option (List Nat)
  | .none_ => some (List.replicate (L + 1) 0)
  | .list r => if (n.vlist r).length != L + 1 then none else some (n.vlist r)
  | .scalar v => some (List.replicate (L + 1) v)

/-- `MPO(sites, Ws, bc, IdL, IdR)`: `_W = [W.astype(dtype, copy=True) for W in Ws]`, own `IdL` / `IdR` lists;
`test_sanity`: unknown `bc` → ValueError, fewer tensors than sites → IndexError (MORE tensors than sites are accepted),
values: hint `sane`. -/
def mpoInit (cy : Bool) (n : Net) (sites : List Nat) (Ws : Ref) (bc : Nat) (IdL IdR : IdArg) (sane : Bool) : Net × Res :=
  let L := sites.length
  let ws := n.tlist Ws
  if L = 0 then (n, eIndex) else
  if ws.isEmpty then (n, eValue) else
  let dtype := dtypeJoin n.h ws
  match copyTensors cy dtype false n.h ws [] with
  | none => (n, eValue)
  | some (h', newWs) =>
    match getId n L IdL with
    | none => (n, eValue)
    | some idl =>
      match getId n L IdR with
      | none => (n, eValue)
      | some idr =>
        if bc > 2 then (n, eValue) else
        if !sane then (n, eValue) else
        if newWs.length < L then (n, eIndex) else
        ({ n with h := h', tl := n.tl ++ [newWs], vl := n.vl ++ [sites, idl, idr],
                  mpo := n.mpo ++ [{ W := n.tl.length, sites := n.vl.length, IdL := n.vl.length + 1, IdR := n.vl.length + 2,
                                     bc := bc, dtype := dtype }] },
         .ok n.mpo.length)

/-- `MPO.copy()` (after the repair 28d1973): `copy.copy(self)` + own `sites`, `_W`, `IdL`, `IdR` lists; the tensors are shared.
`ownLists = false` is the unrepaired `copy.copy`: a new object holding the SAME four list objects. -/
def mpoCopy (n : Net) (H : Ref) (ownLists : Bool := true) : Net × Res :=
  let O := n.mpoO H
  if ownLists then
    ({ n with tl := n.tl ++ [n.tlist O.W], vl := n.vl ++ [n.vlist O.sites, n.vlist O.IdL, n.vlist O.IdR],
              mpo := n.mpo ++ [{ O with W := n.tl.length, sites := n.vl.length, IdL := n.vl.length + 1, IdR := n.vl.length + 2 }] },
     .ok n.mpo.length)
  else ({ n with mpo := n.mpo ++ [O] }, .ok n.mpo.length)

def mpoL (n : Net) (H : Ref) : Nat := (n.vlist (n.mpoO H).sites).length

/-- `get_W(i, copy)` -/
def getW (cy : Bool) (n : Net) (H : Ref) (i : Int) (copy : Bool) : Net × Res :=
  let O := n.mpoO H
  match validSite (mpoL n H) O.bc i with
  | none => (n, eValue)
  | some (j, _) =>
    match (n.tlist O.W)[j]? with
    | none => (n, eIndex)
    | some W0 =>
      let r := if copy then callH cy n.h .copy { a := [W0], b := [true] } else (n.h, W0)
      ({ n with h := r.1 }, .ok r.2)

/-- `set_W(i, W)` -/
def setW (n : Net) (H : Ref) (i : Int) (W : Ref) : Net × Res :=
  let O := n.mpoO H
  match validSite (mpoL n H) O.bc i with
  | none => (n, eValue)
  | some (j, _) =>
    if j < (n.tlist O.W).length then ({ n with tl := n.tl.set O.W ((n.tlist O.W).set j W) }, .none_) else (n, eIndex)

/-- `get_IdL(i)` = `IdL[valid(i)]`, `get_IdR(i)` = `IdR[valid(i) + 1]` (encoded entry) -/
def getIdLR (n : Net) (H : Ref) (i : Int) (left : Bool) : Res :=
  let O := n.mpoO H
  match validSite (mpoL n H) O.bc i with
  | none => eValue
  | some (j, _) =>
    match (n.vlist (if left then O.IdL else O.IdR))[if left then j else j + 1]? with
    | none => eIndex
    | some v => .ok v

/-- the caller assigns `H.IdL[b] = v` / `H.IdR[b] = v` (a public attribute) -/
def editId (n : Net) (H : Ref) (left : Bool) (b : Nat) (v : Nat) : Net × Res :=
  let r := if left then (n.mpoO H).IdL else (n.mpoO H).IdR
  if b < (n.vlist r).length then ({ n with vl := n.vl.set r ((n.vlist r).set b v) }, .none_) else (n, eIndex)

/-- `factor * l[:-1] + [l[-1]]` -/
def repeatId (f : Nat) (l : List Nat) : List Nat := repeatL f l.dropLast ++ l.drop (l.length - 1)

/-- `MPO.enlarge_mps_unit_cell(factor)`: infinite MPO only; new lists; final `test_sanity` as for the MPS -/
def mpoEnlarge (n : Net) (H : Ref) (factor : Int) (sane : Bool := true) : Net × Res :=
  let O := n.mpoO H
  if factor ≤ 1 then (n, eValue) else
  if O.bc != 2 then (n, eValue) else
  let f := factor.toNat
  ({ n with tl := n.tl ++ [repeatL f ((n.tlist O.W).take (mpoL n H))],
            vl := n.vl ++ [repeatL f (n.vlist O.sites), repeatId f (n.vlist O.IdL), repeatId f (n.vlist O.IdR)],
            mpo := n.mpo.set H { O with W := n.tl.length, sites := n.vl.length, IdL := n.vl.length + 1, IdR := n.vl.length + 2 } },
   if sane then .none_ else eValue)

/-- hints for one tensor of `sort_legcharges`: arguments of the calls `transpose` (on the stored tensor), `fresh` +
`to_LegCharge_legs` (`sort_legcharge` on the transposed copy) -/
structure SortHint where
  tr    : Args := {}
  fresh : Args := {}
  axes  : List Nat := []
deriving Repr, Inhabited

/-- `w.transpose([...])` then `sort_legcharge(...)` for every stored tensor, threading the heap -/
def sortTensors (cy : Bool) : Heap → List Ref → List SortHint → Heap × List Ref
  | h, [], _ => (h, [])
  | h, w :: ws, hs =>
    let t := hs.headD {}
    let r1 := callH cy h .transpose { t.tr with a := [w] }
    let r2 := callH cy r1.1 .fresh { t.fresh with a := [r1.2] }
    let r3 := callH cy r2.1 .to_LegCharge_legs { a := [r2.2], l := [t.axes] }
    let rest := sortTensors cy r3.1 ws hs.tail
    (rest.1, r2.2 :: rest.2)

def idxOf (p : List Nat) (v : Nat) : Nat := (p.findIdx? (· == v)).getD 0

/-- new value of `IdL[b]` / `IdR[b]` under the permutation `p` of bond `b`: `np.nonzero(p == Id % chi)[0][0]`;
`None` stays `None` -/
def permId (p : List Nat) (e : Nat) : Nat :=
  if e = 0 then 0
  else if e % 2 = 1 then 2 * idxOf p ((e / 2) % p.length) + 1
  else 2 * idxOf p ((((- ((e / 2 : Nat) : Int)) % (p.length : Int))).toNat) + 1

def zipPerm (perms : List (List Nat)) (ids : List Nat) : List Nat :=
  ids.zipIdx.map fun (e, b) => match perms[b]? with
    | some p => permId p e
    | none => e

/-- `MPO.sort_legcharges()`: `self._W = new_W` (a NEW list of NEW tensors), then the entries of the EXISTING lists
`self.IdL` / `self.IdR` are re-assigned in place (`self.IdL[b] = …`). `perms`: permutation of every bond (hint). -/
def mpoSort (cy : Bool) (n : Net) (H : Ref) (hs : List SortHint) (perms : List (List Nat)) : Net × Res :=
  let O := n.mpoO H
  let r := sortTensors cy n.h (n.tlist O.W) hs
  let vl1 := n.vl.set O.IdL (zipPerm perms (n.vlist O.IdL))
  let idr := (vl1[O.IdR]?).getD []
  ({ n with h := r.1, tl := n.tl ++ [r.2], vl := vl1.set O.IdR (zipPerm perms idr),
            mpo := n.mpo.set H { O with W := n.tl.length } },
   .none_)

/-! ## observations -/

structure MpsObs where
  B     : List ArrObs
  S     : List (Option (List Nat))
  form  : List Nat
  sites : List Nat
  bc    : Nat
  dtype : Nat
deriving Repr, DecidableEq

/-- observable value of an MPS: the stored tensors (legs, total charge, labels, dtype, blocks), singular values, forms,
sites, boundary conditions, dtype -/
def obsMps (n : Net) (p : Ref) : MpsObs :=
  let P := n.mpsO p
  { B := (n.tlist P.B).map (observe n.h), S := (n.slist P.S).map (Option.map n.sbuf), form := n.vlist P.form,
    sites := n.vlist P.sites, bc := P.bc, dtype := P.dtype }

structure MpoObs where
  W     : List ArrObs
  IdL   : List Nat
  IdR   : List Nat
  sites : List Nat
  bc    : Nat
  dtype : Nat
deriving Repr, DecidableEq

def obsMpo (n : Net) (H : Ref) : MpoObs :=
  let O := n.mpoO H
  { W := (n.tlist O.W).map (observe n.h), IdL := n.vlist O.IdL, IdR := n.vlist O.IdR, sites := n.vlist O.sites,
    bc := O.bc, dtype := O.dtype }

/-- all references reachable from the MPS are allocated -/
def closedMps (n : Net) (p : Ref) : Bool :=
  let P := n.mpsO p
  p < n.mps.length && P.B < n.tl.length && P.S < n.sl.length && P.form < n.vl.length && P.sites < n.vl.length
    && (n.tlist P.B).all (closed n.h)
    && (n.slist P.S).all (fun s => match s with | none => true | some r => r < n.sb.length)

def closedMpo (n : Net) (H : Ref) : Bool :=
  let O := n.mpoO H
  H < n.mpo.length && O.W < n.tl.length && O.IdL < n.vl.length && O.IdR < n.vl.length && O.sites < n.vl.length
    && (n.tlist O.W).all (closed n.h)

end TenpyModel.C03
