import TenpyModel.C03.ResortProofs
/-!
C03 — one step of each kind of operation: which observations it preserves.
-/
namespace TenpyModel.C03

theorem plan_legSafe (h : Heap) (op : Op) : (plan h op).legSafe := by
  cases op with
  | leg d => simp [plan, Plan.legSafe, planLeg_wr]
  | derive d => exact ⟨rfl, rfl⟩
  | inplace t u => exact ⟨(planInplace_writes h t u).1, (planInplace_writes h t u).2.1⟩
  | resort t s c => exact ⟨(planResort_writes h t s c).1, (planResort_writes h t s c).2.1⟩

theorem step_legStable (h : Heap) (op : Op) : LegStable h (step h op) := apply_legStable _ _ (plan_legSafe h op)
theorem step_grows (h : Heap) (op : Op) : Grows h (step h op) := apply_grows _ _

/-- a step whose plan avoids the cells of `r` keeps `observe r` (and `r` stays closed) -/
theorem step_keeps (h : Heap) (op : Op) (r : Ref) (hc : closed h r = true)
    (ha : ∀ w ∈ (plan h op).wr.arrs, w.1 ≠ r) (hl : ∀ w ∈ (plan h op).wr.lists, w.1 ∉ mutLists h r)
    (hb : ∀ w ∈ (plan h op).wr.bufs, w.1 ∉ mutBufs h r) :
    observe (step h op) r = observe h r ∧ closed (step h op) r = true ∧ Agree h (step h op) r := by
  have ag := agree_of_apply (plan h op) h r hc ha hl hb
  exact ⟨observe_congr (step_legStable h op) r hc ag, closed_mono (step_grows h op) (step_legStable h op) r hc ag, ag⟩

/-- operations that are not in place and are not a re-sort write nothing at all -/
theorem pure_keeps (h : Heap) (op : Op) (hw : (plan h op).wr = {}) (r : Ref) (hc : closed h r = true) :
    observe (step h op) r = observe h r ∧ closed (step h op) r = true ∧ Agree h (step h op) r :=
  step_keeps h op r hc (by rw [hw]; simp) (by rw [hw]; simp) (by rw [hw]; simp)

theorem not_overlap {xs ys : List Ref} (h : overlap xs ys = false) : ∀ x ∈ ys, x ∉ xs := by
  intro x hy hx
  have : overlap xs ys = true := by
    simp only [overlap, List.any_eq_true]
    exact ⟨x, hx, by simpa using hy⟩
  rw [h] at this
  cases this

theorem inplace_keeps (h : Heap) (t : Ref) (u : Update) (r : Ref) (hc : closed h r = true)
    (hs : shares h r t = false) :
    observe (step h (.inplace t u)) r = observe h r ∧ closed (step h (.inplace t u)) r = true
      ∧ Agree h (step h (.inplace t u)) r := by
  simp only [shares, Bool.or_eq_false_iff, beq_eq_false_iff_ne, ne_eq] at hs
  obtain ⟨⟨h1, h2⟩, h3⟩ := hs
  obtain ⟨_, _, wa, wl, wb⟩ := planInplace_writes h t u
  refine step_keeps h (.inplace t u) r hc ?_ ?_ ?_
  · intro w hw e; exact h1 (e.symm.trans (wa w hw))
  · intro w hw; exact not_overlap h2 _ (wl w hw)
  · intro w hw; exact not_overlap h3 _ (wb w hw)

/-- an in-place method that only rebinds attributes changes nothing but its target object -/
theorem planInplace_rebindOnly (h : Heap) (t : Ref) (u : Update) (hr : u.rebindOnly = true) :
    (planInplace h t u).wr.lists = [] ∧ (planInplace h t u).wr.bufs = [] := by
  simp only [Update.rebindOnly, Bool.and_eq_true, List.isEmpty_iff] at hr
  obtain ⟨⟨⟨⟨⟨r1, r2⟩, r3⟩, r4⟩, r5⟩, r6⟩ := hr
  constructor
  · simp only [planInplace]
    cases hl : u.legs <;> cases hd : u.data <;> simp_all
  · simp only [planInplace, r6, List.filterMap_nil, List.append_nil]
    cases h2 : u.qtotal <;> cases h3 : u.labels <;> cases h4 : u.qdata <;> simp_all [updBuf]

theorem rebind_keeps (h : Heap) (t : Ref) (u : Update) (hr : u.rebindOnly = true) (r : Ref) (hne : r ≠ t)
    (hc : closed h r = true) :
    observe (step h (.inplace t u)) r = observe h r ∧ closed (step h (.inplace t u)) r = true
      ∧ Agree h (step h (.inplace t u)) r := by
  obtain ⟨e1, e2⟩ := planInplace_rebindOnly h t u hr
  obtain ⟨_, _, wa, _, _⟩ := planInplace_writes h t u
  refine step_keeps h (.inplace t u) r hc ?_ ?_ ?_
  · intro w hw e; exact hne (e.symm.trans (wa w hw))
  · simp only [plan]; rw [e1]; simp
  · simp only [plan]; rw [e2]; simp

/-! ### re-sorting the target -/

theorem flag_obs (h h' : Heap) (t : Ref) (hc : closed h t = true) (flag : Bool)
    (e1 : h'.bufs = h.bufs) (e2 : h'.lists = h.lists) (e3 : h'.arrs = h.arrs.set t { h.arr t with qsorted := flag })
    (e4 : h'.legs = h.legs) (e5 : h'.lbufs = h.lbufs) :
    observe h' t = observe h t ∧ closed h' t = true := by
  obtain ⟨c1, _, _⟩ := closed_bounds hc
  have hA : h'.arr t = { h.arr t with qsorted := flag } := by
    simp only [Heap.arr, e3, List.getElem?_set_self c1, Option.getD_some]
  have oL : ∀ x, h'.list x = h.list x := fun x => by simp only [Heap.list, e2]
  have oB : ∀ x, h'.buf x = h.buf x := fun x => by simp only [Heap.buf, e1]
  have o1 : obsLeg1 h' = obsLeg1 h := funext fun x => by simp only [obsLeg1, Heap.leg, Heap.lbuf, e4, e5]
  have oG : obsLeg h' = obsLeg h := funext fun x => by simp only [obsLeg, o1, Heap.leg, e4]
  have c1f : closedLeg1 h' = closedLeg1 h := funext fun x => by unfold closedLeg1 Heap.leg; rw [e4, e5]
  have oC : closedLeg h' = closedLeg h := funext fun x => by simp only [closedLeg, c1f, Heap.leg, e4]
  constructor
  · simp only [observe, hA, oL, oB, oG]
    congr 2
    exact List.map_congr_left (fun x _ => oB x)
  · have := hc
    simp only [closed, hA, oL, e1, e2, e3, List.length_set, oC] at this ⊢
    exact this

theorem resortMain_self (h : Heap) (t : Ref) (s : Bool) (c : Option (List Bool)) (hc : closed h t = true)
    (hlen : (h.buf (h.arr t).qdata).length = (h.list (h.arr t).data).length)
    (hst : LegStable h ((resortMain h t s c).apply h)) (hgr : Grows h ((resortMain h t s c).apply h)) :
    ObsEq (observe ((resortMain h t s c).apply h) t) (observe h t)
      ∧ closed ((resortMain h t s c).apply h) t = true := by
  obtain ⟨c1, c2, c3⟩ := closed_bounds hc
  have hp : (resortPairs h t s).Perm ((h.buf (h.arr t).qdata).zip (h.list (h.arr t).data)) := by
    unfold resortPairs; split
    · exact sortKeys_perm _
    · exact List.Perm.refl _
  have hq : (h.bufs ++ ((resortFlagged h t c).map h.buf ++ resortExtra h t s))[resortQd h t s c]?
      = some ((resortPairs h t s).map (·.1)) := by
    unfold resortQd resortExtra
    split <;> rename_i hs
    · rw [List.getElem?_append_right (Nat.le_add_right _ _), Nat.add_sub_cancel_left,
        List.getElem?_append_right (by simp)]
      simp
    · have hlt : (h.arr t).qdata < h.bufs.length := c3 _ (by simp [mutBufs])
      rw [List.getElem?_append_left hlt]
      have : resortPairs h t s = (h.buf (h.arr t).qdata).zip (h.list (h.arr t).data) := by
        unfold resortPairs; simp only [hs]; rfl
      rw [this, List.map_fst_zip (Nat.le_of_eq hlen)]
      simp [Heap.buf, List.getElem?_eq_getElem hlt]
  generalize hh' : (resortMain h t s c).apply h = h' at hst hgr ⊢
  have e1 : h'.bufs = h.bufs ++ ((resortFlagged h t c).map h.buf ++ resortExtra h t s) := by
    rw [← hh']; simp [Plan.apply, setMany, resortMain]
  have e2 : h'.lists = h.lists ++ [(resortPairs h t s).map
      (fun p => lookupRef (freshMap h.bufs.length (resortFlagged h t c)) p.2)] := by
    rw [← hh']; simp [Plan.apply, setMany, resortMain]
  have e3 : h'.arrs = h.arrs.set t
      { h.arr t with data := h.lists.length, qdata := resortQd h t s c, qsorted := ((h.arr t).qsorted || s) } := by
    rw [← hh']; simp [Plan.apply, setMany, resortMain]
  refine ⟨resort_obs h t hc _ hp _ _ _ _ hq h' e1 e2 e3 hst, ?_⟩
  generalize resortPairs h t s = pairs at *
  generalize resortFlagged h t c = fl at *
  generalize resortQd h t s c = qd at *
  generalize resortExtra h t s = extra at *
  have hA : h'.arr t =
      { h.arr t with data := h.lists.length, qdata := qd, qsorted := ((h.arr t).qsorted || s) } := by
    simp only [Heap.arr, e3, List.getElem?_set_self c1, Option.getD_some]
  have hlegs : h'.list (h.arr t).legs = h.list (h.arr t).legs := by
    have hl : (h.arr t).legs < h.lists.length := c2 (h.arr t).legs (by simp [mutLists])
    simp only [Heap.list, e2, List.getElem?_append_left hl]
  have hnew : h'.list h.lists.length = pairs.map (fun p => lookupRef (freshMap h.bufs.length fl) p.2) := by
    simp [Heap.list, e2]
  have hqlt : qd < h'.bufs.length := by
    rw [e1]
    rcases List.getElem?_eq_some_iff.1 hq with ⟨hh, _⟩
    exact hh
  have hcl := hc
  simp only [closed, Bool.and_eq_true, List.all_eq_true, decide_eq_true_eq] at hcl ⊢
  obtain ⟨⟨⟨⟨⟨⟨⟨d1, d2⟩, d3⟩, d4⟩, d5⟩, d6⟩, d7⟩, d8⟩ := hcl
  rw [hA]
  simp only [hlegs, hnew]
  refine ⟨⟨⟨⟨⟨⟨⟨?_, ?_⟩, ?_⟩, ?_⟩, ?_⟩, hqlt⟩, ?_⟩, ?_⟩
  · rw [e3, List.length_set]; exact d1
  · exact Nat.lt_of_lt_of_le d2 hgr.lists
  · rw [e2]; simp
  · exact Nat.lt_of_lt_of_le d4 hgr.bufs
  · exact Nat.lt_of_lt_of_le d5 hgr.bufs
  · intro x hx
    simp only [List.mem_map] at hx
    obtain ⟨p, hpm, rfl⟩ := hx
    have hmem : p.2 ∈ h.list (h.arr t).data :=
      (List.of_mem_zip (a := p.1) (b := p.2) ((hp.mem_iff).1 hpm)).2
    rcases lookupRef_freshMap h.bufs.length fl p.2 with h1 | ⟨j, h1, h2⟩
    · rw [h1]; exact Nat.lt_of_lt_of_le (d7 _ hmem) hgr.bufs
    · rw [h1, e1]
      rcases List.getElem?_eq_some_iff.1 h2 with ⟨hj, _⟩
      simp only [List.length_append, List.length_map]
      exact Nat.add_lt_add_left (Nat.lt_of_lt_of_le hj (Nat.le_add_right _ _)) _
  · exact fun x hx => closedLeg_mono hgr hst x (d8 x hx)

theorem resort_self (h : Heap) (t : Ref) (s : Bool) (c : Option (List Bool)) (hc : closed h t = true) :
    ObsEq (observe (step h (.resort t s c)) t) (observe h t) ∧ closed (step h (.resort t s c)) t = true := by
  have obsRefl : ∀ o : ArrObs, ObsEq o o := fun o => ⟨rfl, rfl, rfl, rfl, List.Perm.refl _⟩
  have hst := step_legStable h (.resort t s c)
  have hgr := step_grows h (.resort t s c)
  unfold step plan at hst hgr ⊢
  simp only [] at hst hgr ⊢
  unfold planResort at hst hgr ⊢
  split at hst <;> rename_i hlen
  · rw [if_pos hlen, apply_nop]; exact ⟨obsRefl _, hc⟩
  · rw [if_neg hlen] at hgr ⊢
    simp only [bne_iff_ne, ne_eq, Decidable.not_not] at hlen
    split at hst <;> rename_i hdo
    · rw [if_pos hdo]
      generalize hh : Plan.apply _ h = h'
      have f1 : h'.bufs = h.bufs := by rw [← hh]; simp [Plan.apply, setMany]
      have f2 : h'.lists = h.lists := by rw [← hh]; simp [Plan.apply, setMany]
      have f3 : h'.arrs = h.arrs.set t { h.arr t with qsorted := ((h.arr t).qsorted || s) } := by
        rw [← hh]; simp [Plan.apply, setMany]
      have f4 : h'.legs = h.legs := by rw [← hh]; simp [Plan.apply, setMany]
      have f5 : h'.lbufs = h.lbufs := by rw [← hh]; simp [Plan.apply, setMany]
      obtain ⟨e, cl⟩ := flag_obs h h' t hc _ f1 f2 f3 f4 f5
      exact ⟨e ▸ obsRefl _, cl⟩
    · rw [if_neg hdo] at hgr ⊢
      exact resortMain_self h t s c hc hlen hst hgr

end TenpyModel.C03
