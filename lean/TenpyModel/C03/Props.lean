import TenpyModel.C03.DeriveProofs
/-!
# C03 — operations never corrupt their operands or shared charge data

All statements are about the heap model of `Heap.lean` / `Ops.lean`; `Calls.lean` expresses every public tenpy
operation by the four kinds of `Op`, and the harness checks on every run that the real code shares / copies /
writes exactly what the model says (both kernels).

`closed h r`: every reference reachable from tensor `r` is allocated (a decidable well-formedness condition on
the *observed* object only; nothing is assumed about the rest of the heap).
-/
open TenpyModel.C03

namespace TenpyModel.C03

theorem ObsEq.refl (o : ArrObs) : ObsEq o o := ⟨rfl, rfl, rfl, rfl, List.Perm.refl _⟩
theorem ObsEq.of_eq {o o' : ArrObs} (e : o = o') : ObsEq o o' := e ▸ ObsEq.refl o
theorem ObsEq.trans {a b c : ArrObs} (x : ObsEq a b) (y : ObsEq b c) : ObsEq a c :=
  ⟨x.1.trans y.1, x.2.1.trans y.2.1, x.2.2.1.trans y.2.2.1, x.2.2.2.1.trans y.2.2.2.1, x.2.2.2.2.trans y.2.2.2.2⟩

/-- one step, any kind of operation: `r` stays observably the same unless it is in the footprint of an in-place
method -/
theorem step_obs (h : Heap) (op : Op) (r : Ref) (hc : closed h r = true)
    (hu : ∀ t, op.target = some t → shares h r t = false) :
    ObsEq (observe (step h op) r) (observe h r) ∧ closed (step h op) r = true := by
  cases op with
  | leg d =>
    obtain ⟨e, c, _⟩ := pure_keeps h (.leg d) (planLeg_wr h d) r hc
    exact ⟨ObsEq.of_eq e, c⟩
  | derive d =>
    obtain ⟨e, c, _⟩ := pure_keeps h (.derive d) (planDerive_wr h d) r hc
    exact ⟨ObsEq.of_eq e, c⟩
  | inplace t u =>
    obtain ⟨e, c, _⟩ := inplace_keeps h t u r hc (hu t rfl)
    exact ⟨ObsEq.of_eq e, c⟩
  | resort t s c =>
    by_cases hrt : r = t
    · subst hrt; exact resort_self h r s c hc
    · obtain ⟨_, _, e1, e2, wa⟩ := planResort_writes h t s c
      obtain ⟨e, cl, _⟩ := step_keeps h (.resort t s c) r hc
        (fun w hw e => hrt (e.symm.trans (wa w hw))) (by simp only [plan]; rw [e1]; simp)
        (by simp only [plan]; rw [e2]; simp)
      exact ⟨ObsEq.of_eq e, cl⟩

/-- `r` is outside the footprint of every in-place method of the history (evaluated when that method runs) -/
def Untouched (r : Ref) : Heap → List Op → Prop
  | _, [] => True
  | h, op :: ops => (∀ t, op.target = some t → shares h r t = false) ∧ Untouched r (step h op) ops

theorem run_legStable (ops : List Op) (h : Heap) : LegStable h (run h ops) ∧ Grows h (run h ops) := by
  induction ops generalizing h with
  | nil => exact ⟨LegStable.refl h, Grows.refl h⟩
  | cons op ops ih =>
    obtain ⟨s, g⟩ := ih (step h op)
    exact ⟨LegStable.trans (step_grows h op) (step_legStable h op) s, (step_grows h op).trans g⟩

end TenpyModel.C03

/-- **Frame.** An operation that is not marked in place (a leg-producing function, a function returning a new
tensor, a re-sort of an operand's block list) leaves every tensor allocated before the call observably unchanged:
legs, total charge, labels, dtype and the stored blocks (up to the unobservable storage order). It follows from:
such operations write freshly allocated cells only (`planLeg_wr`, `planDerive_wr`, `planResort_writes`). -/
theorem C03_frame (h : Heap) (op : Op) (hn : op.target = none) (r : Ref) (hc : closed h r = true) :
    ObsEq (observe (step h op) r) (observe h r) :=
  (step_obs h op r hc (fun t ht => by rw [hn] at ht; cases ht)).1

/-- Stronger form of the frame for everything except a re-sort: the observation is *equal*, not just equivalent. -/
theorem C03_frame_eq (h : Heap) (op : Op) (hw : (plan h op).wr = {}) (r : Ref) (hc : closed h r = true) :
    observe (step h op) r = observe h r := (pure_keeps h op hw r hc).1

/-- **In-place footprint.** An in-place method on `t` changes the observation only of tensors that share mutable
state with `t` (`t` itself, its explicit shallow copies and views): every other tensor — a deep copy, an unrelated
tensor — is unchanged. -/
theorem C03_inplace_footprint (h : Heap) (t : Ref) (u : Update) (r : Ref) (hc : closed h r = true)
    (hs : shares h r t = false) : observe (step h (.inplace t u)) r = observe h r :=
  (inplace_keeps h t u r hc hs).1

/-- An in-place method that only *rebinds* attributes of its target (`itranspose`, `iscale_axis`, `iconj`,
`ipurge_zeros`, …: new list / new array objects, no write into an existing container) changes no other tensor at
all — not even a shallow copy that shares every buffer with the target. This is why `_tensordot_transpose_axes`,
`combine_legs`, `inner` may call `itranspose` on a shallow copy of their operand. -/
theorem C03_rebind_only (h : Heap) (t : Ref) (u : Update) (hr : u.rebindOnly = true) (r : Ref) (hne : r ≠ t)
    (hc : closed h r = true) : observe (step h (.inplace t u)) r = observe h r :=
  (rebind_keeps h t u hr r hne hc).1

/-- **Leg objects are immutable.** No modelled operation of any kind writes a leg object or one of the
`slices` / `charges` arrays that existed before the call; leg-producing functions allocate. -/
theorem C03_legs_immutable (h : Heap) (op : Op) :
    (∀ l, l < h.legs.length → (step h op).legs[l]? = h.legs[l]?)
      ∧ (∀ b, b < h.lbufs.length → (step h op).lbufs[b]? = h.lbufs[b]?)
      ∧ (∀ l, closedLeg h l = true → obsLeg (step h op) l = obsLeg h l) :=
  ⟨(step_legStable h op).legs, (step_legStable h op).lbufs, fun l hl => obsLeg_congr (step_legStable h op) l hl⟩

/-- **A deep copy is disjoint.** A derived tensor none of whose attributes is declared shared (`copy(deep=True)`,
`transpose`, `tensordot`, …) shares no mutable cell with any tensor that existed before. -/
theorem C03_deepcopy_disjoint (h : Heap) (d : Derive) (hi : d.isolated = true) (r : Ref) (hc : closed h r = true) :
    shares (step h (.derive d)) r h.arrs.length = false ∧ shares (step h (.derive d)) h.arrs.length r = false := by
  obtain ⟨_, gl, gb⟩ := derive_isolated h d hi
  obtain ⟨_, _, ag⟩ := pure_keeps h (.derive d) (planDerive_wr h d) r hc
  obtain ⟨ml, mb⟩ := mut_congr r ag
  obtain ⟨c1, c2, c3⟩ := closed_bounds hc
  have no1 : ∀ xs ys : List Ref, (∀ x ∈ xs, ∀ y ∈ ys, x ≠ y) → overlap xs ys = false := by
    intro xs ys hxy
    cases ho : overlap xs ys with
    | false => rfl
    | true =>
      simp only [overlap, List.any_eq_true, List.contains_iff_mem] at ho
      obtain ⟨x, hx, hy⟩ := ho
      exact absurd rfl (hxy x hx x hy)
  have ne : r ≠ h.arrs.length := Nat.ne_of_lt c1
  have dl : ∀ x ∈ mutLists (step h (.derive d)) r, ∀ y ∈ mutLists (step h (.derive d)) h.arrs.length, x ≠ y := by
    intro x hx y hy e
    rw [ml] at hx
    have a1 : x < h.lists.length := c2 x hx
    have a2 : h.lists.length ≤ y := gl y hy
    rw [e] at a1; exact Nat.not_lt.2 a2 a1
  have db : ∀ x ∈ mutBufs (step h (.derive d)) r, ∀ y ∈ mutBufs (step h (.derive d)) h.arrs.length, x ≠ y := by
    intro x hx y hy e
    rw [mb] at hx
    have a1 : x < h.bufs.length := c3 x hx
    have a2 : h.bufs.length ≤ y := gb y hy
    rw [e] at a1; exact Nat.not_lt.2 a2 a1
  constructor
  · simp only [shares, Bool.or_eq_false_iff, beq_eq_false_iff_ne]
    exact ⟨⟨ne, no1 _ _ dl⟩, no1 _ _ db⟩
  · simp only [shares, Bool.or_eq_false_iff, beq_eq_false_iff_ne]
    exact ⟨⟨ne.symm, no1 _ _ (fun x hx y hy e => dl y hy x hx e.symm)⟩,
      no1 _ _ (fun x hx y hy e => db y hy x hx e.symm)⟩

/-- … hence no in-place method on the copy can change an older tensor, and no in-place method on an older tensor
can change the copy. -/
theorem C03_deepcopy_independent (h : Heap) (d : Derive) (hi : d.isolated = true) :
    let h' := step h (.derive d)
    let c := h.arrs.length
    (∀ r u, closed h r = true → observe (step h' (.inplace c u)) r = observe h r)
      ∧ (closed h' c = true → ∀ t u, closed h t = true → observe (step h' (.inplace t u)) c = observe h' c) := by
  constructor
  · intro r u hc
    obtain ⟨e, cl, _⟩ := pure_keeps h (.derive d) (planDerive_wr h d) r hc
    rw [← e]
    exact (inplace_keeps _ _ u r cl (C03_deepcopy_disjoint h d hi r hc).1).1
  · intro hcc t u hct
    exact (inplace_keeps _ t u _ hcc (C03_deepcopy_disjoint h d hi t hct).2).1

/-- **Histories.** For every finite history of operations of all kinds and every tensor `r` allocated (and closed)
at its start: if `r` is outside the footprint of each in-place method of the history at the time it runs, then `r`
is observably unchanged at the end. -/
theorem C03_history (ops : List Op) (h : Heap) (r : Ref) (hc : closed h r = true) (hu : Untouched r h ops) :
    ObsEq (observe (run h ops) r) (observe h r) ∧ closed (run h ops) r = true := by
  induction ops generalizing h with
  | nil => exact ⟨ObsEq.refl _, hc⟩
  | cons op ops ih =>
    obtain ⟨o1, c1⟩ := step_obs h op r hc hu.1
    obtain ⟨o2, c2⟩ := ih (step h op) c1 hu.2
    exact ⟨o2.trans o1, c2⟩

/-- Histories without any in-place method (only functions returning new objects and re-sorts of operands) leave
every tensor of the initial heap observably unchanged. -/
theorem C03_history_pure (ops : List Op) (hp : ∀ op ∈ ops, op.target = none) (h : Heap) (r : Ref)
    (hc : closed h r = true) : ObsEq (observe (run h ops) r) (observe h r) := by
  have aux : ∀ (ops : List Op), (∀ op ∈ ops, op.target = none) → ∀ h, Untouched r h ops := by
    intro ops
    induction ops with
    | nil => intro _ _; trivial
    | cons op ops ih =>
      intro hp h
      refine ⟨fun t ht => ?_, ih (fun o ho => hp o (by simp [ho])) _⟩
      rw [hp op (by simp)] at ht; cases ht
  exact (C03_history ops h r hc (aux ops hp h)).1

/-- Leg objects survive every history unchanged, unconditionally. -/
theorem C03_history_legs (ops : List Op) (h : Heap) (l : Ref) (hc : closedLeg h l = true) :
    obsLeg (run h ops) l = obsLeg h l ∧ (run h ops).legs[l]? = h.legs[l]? := by
  have hl : l < h.legs.length := by
    simp only [closedLeg, closedLeg1, Bool.and_eq_true, decide_eq_true_eq] at hc
    exact hc.1.1.1
  exact ⟨obsLeg_congr (run_legStable ops h).1 l hc, (run_legStable ops h).1.legs l hl⟩

/-- The model language *can* express a write into a shared `charges` array — this is what the pure-Python
`ChargeInfo.make_valid` did before the repair (`np.asarray` + in-place `%`), reached through
`LegCharge.from_change_charge`: such a plan is not `legSafe` and does change the observation of an existing leg.
(`C03_legs_immutable` is therefore a statement about the operations, not about the language.) -/
theorem C03_make_valid_alias_counterexample :
    ∃ (h : Heap) (p : Plan) (l : Ref), closedLeg h l = true ∧ obsLeg (p.apply h) l ≠ obsLeg h l :=
  ⟨{ lbufs := [[0], [1]], legs := [{ slices := 0, charges := 1, qconj := 1, sorted := true, bunched := true, sub := [] }] },
   { wr := { lbufs := [(1, [7])] } }, 0, by decide, by decide⟩
