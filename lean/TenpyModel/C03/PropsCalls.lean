import TenpyModel.C03.Props
import TenpyModel.C03.Calls
/-!
# C03 — the table of tenpy operations (`Calls.lean`) and non-vacuity

* every call of the table that is not listed as an in-place method expands to operations without an in-place target,
  so `C03_history_pure` applies to it: it leaves every tensor observably unchanged;
* a concrete history with a shared leg, a shallow copy, a deep copy and in-place methods, on which the hypotheses of
  the theorems are met and their conclusions are not trivial (the shallow copy's sibling *does* change).
-/
open TenpyModel.C03

namespace TenpyModel.C03

def AllPure (ops : List Op) : Prop := ∀ op ∈ ops, op.target = none

theorem emit_pure (s : St) (op : Op) (hs : AllPure s.ops) (ho : op.target = none) : AllPure (s.emit op).1.ops := by
  intro o hm
  simp only [St.emit, List.mem_append, List.mem_singleton] at hm
  rcases hm with hm | rfl
  · exact hs o hm
  · exact ho

theorem emitLegs_pure (s : St) (ds : List LegDerive) (hs : AllPure s.ops) : AllPure (emitLegs s ds).1.ops := by
  unfold emitLegs
  suffices h : ∀ (acc : St × List Ref), AllPure acc.1.ops →
      AllPure (ds.foldl (fun (acc : St × List Ref) d => let (s', r) := acc.1.emit (.leg d); (s', acc.2 ++ [r])) acc).1.ops
    from h (s, []) hs
  induction ds with
  | nil => intro acc h; exact h
  | cons d ds ih => intro acc h; exact ih _ (emit_pure acc.1 (.leg d) h rfl)

theorem conjLegF_pure (fuel : Nat) (s : St) (l : Ref) (hs : AllPure s.ops) : AllPure (conjLegF fuel s l).1.ops := by
  induction fuel generalizing s l with
  | zero => exact emit_pure _ _ hs rfl
  | succ n ih =>
    simp only [conjLegF]
    split
    · exact emit_pure _ _ hs rfl
    · refine emit_pure _ _ ?_ rfl
      suffices h : ∀ (qs : List Ref) (acc : St × List Ref), AllPure acc.1.ops →
          AllPure (qs.foldl (fun (acc : St × List Ref) q => let r := conjLegF n acc.1 q; (r.1, acc.2 ++ [r.2])) acc).1.ops
        from h _ (s, []) hs
      intro qs
      induction qs with
      | nil => intro acc h; exact h
      | cons q qs ihq => intro acc h; exact ihq _ (ih acc.1 q h)

theorem conjLeg_pure (s : St) (l : Ref) (hs : AllPure s.ops) : AllPure (conjLeg s l).1.ops := conjLegF_pure 6 s l hs

theorem conjLegs_pure (s : St) (ls : List Ref) (hs : AllPure s.ops) : AllPure (conjLegs s ls).1.ops := by
  unfold conjLegs
  suffices h : ∀ (acc : St × List Ref), AllPure acc.1.ops →
      AllPure (ls.foldl (fun (acc : St × List Ref) l => let (s', r) := conjLeg acc.1 l; (s', acc.2 ++ [r])) acc).1.ops
    from h (s, []) hs
  induction ls with
  | nil => intro acc h; exact h
  | cons l ls ih => intro acc h; exact ih _ (conjLeg_pure acc.1 l h)

/-! ### a concrete history -/

/-- one leg `l0`, its conjugate `l1` (shares `slices`/`charges`), a tensor `a0` on `[l0, l1]` with two blocks -/
def h0 : Heap :=
  run {} [.leg { qconj := 1, sorted := true, bunched := true, tok := 10 },
          .leg { src := 0, shSlices := true, shCharges := true, qconj := -1, sorted := true, bunched := true },
          .derive { srcs := [], legs := .newList [.ref 0, .ref 1], qtotal := .fresh [0], labels := .fresh [1],
                    qdata := .fresh [3, 0], data := .newList [.fresh 100, .fresh 101], dtype := some 0,
                    qsorted := some false }]

/-- `b = a0.copy(deep=False)` (tensor 1), `c = a0.copy(deep=True)` (tensor 2), `b.itranspose()`, `b[i, j] = v` on an
existing block, `a0.isort_qdata()`, `c *= 2` in the compiled kernel (writes the blocks of `c` in place) -/
def hist : List Op :=
  [.derive { srcs := [0], qtotal := .shared 0, qdata := .shared 0, data := .sharedList 0 },
   .derive { srcs := [0], data := .newList [.copy 0 0, .copy 0 1] },
   .inplace 1 { legs := .rebind [.src 0 1, .src 0 0], labels := .rebind (.fresh [2]), qdata := .rebind (.fresh [0, 3]),
                data := .rebind [.view 0 0, .view 0 1], qsorted := some false },
   .inplace 1 { wblocks := [(0, 777)] },
   .resort 0 true none,
   .inplace 2 { wblocks := [(0, 5), (1, 6)] }]

end TenpyModel.C03

/-- **The table.** Every call of `Calls.lean` that is not listed as an in-place method (`inplaceCalls`) expands —
for both kernels, every heap and all arguments — to operations without an in-place target: leg-producing functions,
derivations of a new tensor, re-sorts of operands. -/
theorem C03_calls_pure (cy : Bool) (h : Heap) (c : CN) (x : Args) (hc : c ∉ inplaceCalls) :
    AllPure (callOps cy h c x) := by
  have e : AllPure ({ h := h } : St).ops := by intro o ho; cases ho
  have emitLegs1 : ∀ ds, AllPure (emitLegs { h := h } ds).1.ops := fun ds => emitLegs_pure _ ds e
  cases c <;> simp only [inplaceCalls, List.mem_cons, List.not_mem_nil, reduceCtorEq, or_self, not_true_eq_false,
    or_false, or_true, not_false_eq_true] at hc
  all_goals first
    | exact emit_pure _ _ e rfl
    | exact conjLeg_pure _ _ e
    | exact emit_pure _ _ (emit_pure _ _ e rfl) rfl
    | exact emit_pure _ _ (conjLegs_pure _ _ e) rfl
    | exact emit_pure _ _ (emitLegs1 _) rfl
    | (simp only [callOps, callSt]; split <;> exact emit_pure _ _ e rfl)

/-- … hence every such call leaves every closed tensor of the heap observably unchanged (legs, total charge, labels,
dtype, blocks up to storage order), in both kernels. -/
theorem C03_call_frame (cy : Bool) (h : Heap) (c : CN) (x : Args) (hc : c ∉ inplaceCalls) (r : Ref)
    (hr : closed h r = true) : ObsEq (observe (run h (callOps cy h c x)) r) (observe h r) :=
  C03_history_pure _ (C03_calls_pure cy h c x hc) h r hr

namespace TenpyModel.C03

def Op.isLeg : Op → Bool
  | .leg _ => true
  | _ => false

/-- leg-producing operations, then at most one in-place method on `t` -/
def InplaceShape (t : Ref) (ops : List Op) : Prop :=
  (∀ op ∈ ops, op.isLeg = true) ∨ ∃ pre u, ops = pre ++ [.inplace t u] ∧ ∀ op ∈ pre, op.isLeg = true

theorem emitLegs_legs (s : St) (ds : List LegDerive) (hs : ∀ op ∈ s.ops, op.isLeg = true) :
    ∀ op ∈ (emitLegs s ds).1.ops, op.isLeg = true := by
  unfold emitLegs
  suffices h : ∀ (acc : St × List Ref), (∀ op ∈ acc.1.ops, op.isLeg = true) →
      ∀ op ∈ (ds.foldl (fun (acc : St × List Ref) d => let (s', r) := acc.1.emit (.leg d); (s', acc.2 ++ [r])) acc).1.ops,
        op.isLeg = true
    from h (s, []) hs
  induction ds with
  | nil => intro acc h; exact h
  | cons d ds ih =>
    intro acc h
    refine ih _ ?_
    intro o ho
    simp only [St.emit, List.mem_append, List.mem_singleton] at ho
    rcases ho with ho | rfl
    · exact h o ho
    · rfl

theorem conjLegF_legs (fuel : Nat) (s : St) (l : Ref) (hs : ∀ op ∈ s.ops, op.isLeg = true) :
    ∀ op ∈ (conjLegF fuel s l).1.ops, op.isLeg = true := by
  have one : ∀ (s : St) d, (∀ op ∈ s.ops, op.isLeg = true) → ∀ op ∈ (s.emit (.leg d)).1.ops, op.isLeg = true := by
    intro s d h o ho
    simp only [St.emit, List.mem_append, List.mem_singleton] at ho
    rcases ho with ho | rfl
    · exact h o ho
    · rfl
  induction fuel generalizing s l with
  | zero => exact one _ _ hs
  | succ n ih =>
    simp only [conjLegF]
    split
    · exact one _ _ hs
    · refine one _ _ ?_
      suffices h : ∀ (qs : List Ref) (acc : St × List Ref), (∀ op ∈ acc.1.ops, op.isLeg = true) →
          ∀ op ∈ (qs.foldl (fun (acc : St × List Ref) q => let r := conjLegF n acc.1 q; (r.1, acc.2 ++ [r.2])) acc).1.ops,
            op.isLeg = true
        from h _ (s, []) hs
      intro qs
      induction qs with
      | nil => intro acc h; exact h
      | cons q qs ihq => intro acc h; exact ihq _ (ih acc.1 q h)

theorem conjLeg_legs (s : St) (l : Ref) (hs : ∀ op ∈ s.ops, op.isLeg = true) :
    ∀ op ∈ (conjLeg s l).1.ops, op.isLeg = true := conjLegF_legs 6 s l hs

theorem conjLegs_legs (s : St) (ls : List Ref) (hs : ∀ op ∈ s.ops, op.isLeg = true) :
    ∀ op ∈ (conjLegs s ls).1.ops, op.isLeg = true := by
  unfold conjLegs
  suffices h : ∀ (acc : St × List Ref), (∀ op ∈ acc.1.ops, op.isLeg = true) →
      ∀ op ∈ (ls.foldl (fun (acc : St × List Ref) l => let (s', r) := conjLeg acc.1 l; (s', acc.2 ++ [r])) acc).1.ops,
        op.isLeg = true
    from h (s, []) hs
  induction ls with
  | nil => intro acc h; exact h
  | cons l ls ih => intro acc h; exact ih _ (conjLeg_legs acc.1 l h)

theorem emit_shape (s : St) (t : Ref) (u : Update) (hs : ∀ op ∈ s.ops, op.isLeg = true) :
    InplaceShape t (s.emit (.inplace t u)).1.ops := Or.inr ⟨s.ops, u, rfl, hs⟩

theorem run_append (h : Heap) (pre : List Op) (op : Op) : run h (pre ++ [op]) = step (run h pre) op := by
  induction pre generalizing h with
  | nil => rfl
  | cons p ps ih => simp only [List.cons_append, run]; exact ih _

/-- leg-producing operations change neither the observation nor the sharing relation of closed tensors -/
theorem legs_keep (pre : List Op) (hp : ∀ op ∈ pre, op.isLeg = true) (h : Heap) (r t : Ref)
    (hr : closed h r = true) (ht : closed h t = true) :
    observe (run h pre) r = observe h r ∧ closed (run h pre) r = true ∧ closed (run h pre) t = true
      ∧ shares (run h pre) r t = shares h r t := by
  induction pre generalizing h with
  | nil => exact ⟨rfl, hr, ht, rfl⟩
  | cons p ps ih =>
    have hl := hp p (by simp)
    cases p with
    | leg d =>
      obtain ⟨e1, c1, a1⟩ := pure_keeps h (.leg d) (planLeg_wr h d) r hr
      obtain ⟨_, c2, a2⟩ := pure_keeps h (.leg d) (planLeg_wr h d) t ht
      obtain ⟨o, cr, ct, sh⟩ := ih (fun o ho => hp o (by simp [ho])) (step h (.leg d)) c1 c2
      refine ⟨o.trans e1, cr, ct, sh.trans ?_⟩
      simp only [shares, (mut_congr r a1).1, (mut_congr r a1).2, (mut_congr t a2).1, (mut_congr t a2).2]
    | derive d => cases hl
    | inplace t u => cases hl
    | resort t s c => cases hl

end TenpyModel.C03

/-- **The table, in-place part.** Every call listed as an in-place method expands to leg-producing operations
followed by at most one in-place method, whose target is operand 0 of the call. -/
theorem C03_calls_inplace_shape (cy : Bool) (h : Heap) (c : CN) (x : Args) (hc : c ∈ inplaceCalls) :
    InplaceShape (x.A 0) (callOps cy h c x) := by
  have e : ∀ op ∈ ({ h := h } : St).ops, op.isLeg = true := by intro o ho; cases ho
  simp only [inplaceCalls, List.mem_cons, List.not_mem_nil, or_false] at hc
  rcases hc with rfl | rfl | rfl | rfl | rfl | rfl | rfl | rfl | rfl | rfl | rfl | rfl | rfl | rfl | rfl
  all_goals first
    | exact emit_shape _ _ _ e
    | exact emit_shape _ _ _ (conjLegs_legs _ _ e)
    | exact emit_shape _ _ _ (emitLegs_legs _ _ e)
    | (simp only [callOps, callSt]; split <;> first | exact emit_shape _ _ _ e | exact Or.inl e)
    | (simp only [callOps, callSt]; split <;> (try split) <;> first | exact emit_shape _ _ _ e | exact Or.inl e)

/-- … hence an in-place call changes the observation only of tensors that share mutable state with its target
(operand 0): every other closed tensor is unchanged, in both kernels. -/
theorem C03_call_inplace_footprint (cy : Bool) (h : Heap) (c : CN) (x : Args) (hc : c ∈ inplaceCalls) (r : Ref)
    (hr : closed h r = true) (ht : closed h (x.A 0) = true) (hs : shares h r (x.A 0) = false) :
    observe (run h (callOps cy h c x)) r = observe h r := by
  rcases C03_calls_inplace_shape cy h c x hc with hl | ⟨pre, u, e, hl⟩
  · exact (legs_keep _ hl h r (x.A 0) hr ht).1
  · rw [e, run_append]
    obtain ⟨o, cr, _, sh⟩ := legs_keep pre hl h r (x.A 0) hr ht
    rw [← o]
    exact C03_inplace_footprint _ _ u r cr (sh.trans hs)

/-! Non-vacuity on the concrete history `hist` from `h0` (tensor 0 = `a0`, 1 = shallow copy, 2 = deep copy). -/

/-- the three tensors are closed, the shallow copy shares state with `a0`, the deep copy with nobody -/
example : closed h0 0 = true ∧ closed (run h0 (hist.take 2)) 1 = true ∧ closed (run h0 (hist.take 2)) 2 = true
    ∧ shares (run h0 (hist.take 2)) 0 1 = true ∧ shares (run h0 (hist.take 2)) 0 2 = false
    ∧ shares (run h0 (hist.take 2)) 1 2 = false := by decide +kernel

/-- the deep copy is outside every in-place footprint of the first five steps: `C03_history` applies to it … -/
example : Untouched 2 (run h0 (hist.take 2)) ((hist.drop 2).take 3) := by
  refine ⟨?_, ?_, ?_, trivial⟩ <;> intro t ht <;> first | (cases ht; decide +kernel) | cases ht

/-- … and indeed it is unchanged, while `a0` — sibling of the shallow copy that was written through — changed:
the footprint condition of `C03_inplace_footprint` cannot be dropped. -/
example : observe (run h0 (hist.take 5)) 2 = observe (run h0 (hist.take 2)) 2
    ∧ observe (run h0 (hist.take 4)) 0 ≠ observe (run h0 (hist.take 3)) 0 := by decide +kernel

/-- `itranspose` on the shallow copy (rebinding only) did not change `a0` although they share every buffer -/
example : observe (run h0 (hist.take 3)) 0 = observe (run h0 (hist.take 2)) 0 := by decide +kernel

/-- `isort_qdata` re-ordered `a0`'s blocks: the observation is equivalent (`ObsEq`) but not equal as a list -/
example : (observe (run h0 (hist.take 5)) 0).blocks ≠ (observe (run h0 (hist.take 4)) 0).blocks
    ∧ (observe (run h0 (hist.take 5)) 0).blocks.length = 2 := by decide +kernel

/-- the leg shared by all three tensors (and its conjugate, which shares its arrays) is untouched by the whole
history; in-place scaling of the deep copy changes only the deep copy -/
example : obsLeg (run h0 hist) 0 = obsLeg h0 0 ∧ obsLeg (run h0 hist) 1 = obsLeg h0 1
    ∧ (h0.leg 0).slices = (h0.leg 1).slices
    ∧ observe (run h0 hist) 0 = observe (run h0 (hist.take 5)) 0
    ∧ observe (run h0 hist) 2 ≠ observe (run h0 (hist.take 5)) 2 := by decide +kernel
