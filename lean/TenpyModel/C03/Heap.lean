/-
C03 — heap model of tenpy's tensors (import-free, executable).

What is modelled is *aliasing*, not arithmetic: a Python object is a cell in one of five stores, an
attribute is a reference (an index into a store), and an operation is a heap transformer that says exactly
which references are re-used, which objects are freshly allocated and which existing objects are written.

stores                      Python objects
  bufs  : List (List Nat)   value containers on the tensor side: `qtotal`, `_qdata` (one key per row),
                            the `_labels` list (a mutable container of immutable strings), and the base
                            buffers of the blocks in `_data` (a view and its base are the same cell)
  lbufs : List (List Nat)   `LegCharge.slices` / `LegCharge.charges` arrays
  lists : List (List Ref)   Python lists of objects: `Array.legs` (refs into `legs`), `Array._data`
                            (refs into `bufs`)
  legs  : List LegObj       LegCharge / LegPipe objects
  arrs  : List ArrObj       np_conserved.Array objects

Objects are never freed (the harness keeps every intermediate object alive), allocation appends.
Contents are abstract tokens: the theorems are about *which* cells an operation may change.
-/
namespace TenpyModel.C03

abbrev Ref := Nat

/-- `LegCharge` (`sub = []`) or `LegPipe` (`sub` = the incoming legs, a tuple of leg references). -/
structure LegObj where
  slices  : Ref
  charges : Ref
  qconj   : Int
  sorted  : Bool
  bunched : Bool
  sub     : List Ref
deriving Repr, DecidableEq, Inhabited

/-- `np_conserved.Array`: every attribute that is an object is a reference. -/
structure ArrObj where
  legs    : Ref   -- lists
  qtotal  : Ref   -- bufs
  labels  : Ref   -- bufs
  data    : Ref   -- lists (of bufs refs)
  qdata   : Ref   -- bufs
  dtype   : Nat
  qsorted : Bool
deriving Repr, DecidableEq, Inhabited

structure Heap where
  bufs  : List (List Nat) := []
  lbufs : List (List Nat) := []
  lists : List (List Ref) := []
  legs  : List LegObj := []
  arrs  : List ArrObj := []
deriving Repr, DecidableEq, Inhabited

namespace Heap
def buf  (h : Heap) (r : Ref) : List Nat := h.bufs[r]?.getD []
def lbuf (h : Heap) (r : Ref) : List Nat := h.lbufs[r]?.getD []
def list (h : Heap) (r : Ref) : List Ref := h.lists[r]?.getD []
def leg  (h : Heap) (r : Ref) : LegObj := h.legs[r]?.getD default
def arr  (h : Heap) (r : Ref) : ArrObj := h.arrs[r]?.getD default
end Heap

/-! ## Plans: the only way the heap changes -/

/-- Objects appended to the stores by one operation. -/
structure Allocs where
  bufs  : List (List Nat) := []
  lbufs : List (List Nat) := []
  lists : List (List Ref) := []
  legs  : List LegObj := []
  arrs  : List ArrObj := []
deriving Repr, Inhabited

/-- Writes to objects that existed before the operation (reference, new value). -/
structure Writes where
  bufs  : List (Ref × List Nat) := []
  lbufs : List (Ref × List Nat) := []
  lists : List (Ref × List Ref) := []
  legs  : List (Ref × LegObj) := []
  arrs  : List (Ref × ArrObj) := []
deriving Repr, Inhabited

structure Plan where
  al  : Allocs := {}
  wr  : Writes := {}
  res : List Ref := []
deriving Repr, Inhabited

def setMany {α} (l : List α) : List (Ref × α) → List α
  | [] => l
  | (r, v) :: ws => setMany (l.set r v) ws

def Plan.apply (p : Plan) (h : Heap) : Heap :=
  { bufs  := setMany h.bufs p.wr.bufs ++ p.al.bufs
    lbufs := setMany h.lbufs p.wr.lbufs ++ p.al.lbufs
    lists := setMany h.lists p.wr.lists ++ p.al.lists
    legs  := setMany h.legs p.wr.legs ++ p.al.legs
    arrs  := setMany h.arrs p.wr.arrs ++ p.al.arrs }

/-- Allocation builder: knows the heap it extends, so that it can hand out the future addresses. -/
structure Bld where
  h  : Heap
  al : Allocs := {}

namespace Bld
def buf (b : Bld) (c : List Nat) : Bld × Ref :=
  ({ b with al := { b.al with bufs := b.al.bufs ++ [c] } }, b.h.bufs.length + b.al.bufs.length)
def lbuf (b : Bld) (c : List Nat) : Bld × Ref :=
  ({ b with al := { b.al with lbufs := b.al.lbufs ++ [c] } }, b.h.lbufs.length + b.al.lbufs.length)
def list (b : Bld) (c : List Ref) : Bld × Ref :=
  ({ b with al := { b.al with lists := b.al.lists ++ [c] } }, b.h.lists.length + b.al.lists.length)
def leg (b : Bld) (c : LegObj) : Bld × Ref :=
  ({ b with al := { b.al with legs := b.al.legs ++ [c] } }, b.h.legs.length + b.al.legs.length)
def arr (b : Bld) (c : ArrObj) : Bld × Ref :=
  ({ b with al := { b.al with arrs := b.al.arrs ++ [c] } }, b.h.arrs.length + b.al.arrs.length)
/-- allocate several buffers at once; returns their addresses in order -/
def bufsMany (b : Bld) (cs : List (List Nat)) : Bld × List Ref :=
  ({ b with al := { b.al with bufs := b.al.bufs ++ cs } },
   (List.range cs.length).map (· + (b.h.bufs.length + b.al.bufs.length)))
end Bld

/-! ## Observation -/

structure LegObs1 where
  slices  : List Nat
  charges : List Nat
  qconj   : Int
  sorted  : Bool
  bunched : Bool
deriving Repr, DecidableEq

structure LegObs where
  top : LegObs1
  sub : List LegObs1
deriving Repr, DecidableEq

def obsLeg1 (h : Heap) (l : Ref) : LegObs1 :=
  let L := h.leg l
  { slices := h.lbuf L.slices, charges := h.lbuf L.charges, qconj := L.qconj, sorted := L.sorted,
    bunched := L.bunched }

/-- observable value of a leg: its charge data, direction and flags, and those of the incoming legs of a pipe -/
def obsLeg (h : Heap) (l : Ref) : LegObs :=
  { top := obsLeg1 h l, sub := (h.leg l).sub.map (obsLeg1 h) }

structure ArrObs where
  legs   : List LegObs
  qtotal : List Nat
  labels : List Nat
  dtype  : Nat
  blocks : List (Nat × List Nat)   -- (key of the `_qdata` row, contents of the block)
deriving Repr, DecidableEq

/-- observable value of a tensor: legs, total charge, labels, dtype and the stored blocks keyed by their
`_qdata` row -/
def observe (h : Heap) (a : Ref) : ArrObs :=
  let A := h.arr a
  { legs := (h.list A.legs).map (obsLeg h), qtotal := h.buf A.qtotal, labels := h.buf A.labels, dtype := A.dtype,
    blocks := (h.buf A.qdata).zip ((h.list A.data).map h.buf) }

/-- "observably equal": the order in which blocks are stored is not observable (`isort_qdata`). -/
def ObsEq (o o' : ArrObs) : Prop :=
  o.legs = o'.legs ∧ o.qtotal = o'.qtotal ∧ o.labels = o'.labels ∧ o.dtype = o'.dtype ∧ o.blocks.Perm o'.blocks

/-! ## Mutable footprint and sharing -/

/-- Python lists reachable from a tensor (its own `legs` list and `_data` list). -/
def mutLists (h : Heap) (a : Ref) : List Ref := [(h.arr a).legs, (h.arr a).data]
/-- value buffers reachable from a tensor: `qtotal`, `_labels`, `_qdata`, base buffers of the blocks. -/
def mutBufs (h : Heap) (a : Ref) : List Ref :=
  let A := h.arr a
  [A.qtotal, A.labels, A.qdata] ++ h.list A.data

def overlap (xs ys : List Ref) : Bool := xs.any (fun x => ys.contains x)

/-- two tensors share mutable state (one is the other, or a shallow copy / view of it) -/
def shares (h : Heap) (r t : Ref) : Bool :=
  r == t || overlap (mutLists h r) (mutLists h t) || overlap (mutBufs h r) (mutBufs h t)

/-- all references reachable from the leg are allocated -/
def closedLeg1 (h : Heap) (l : Ref) : Bool :=
  l < h.legs.length && (h.leg l).slices < h.lbufs.length && (h.leg l).charges < h.lbufs.length
def closedLeg (h : Heap) (l : Ref) : Bool := closedLeg1 h l && (h.leg l).sub.all (closedLeg1 h)

/-- all references reachable from the tensor are allocated -/
def closed (h : Heap) (a : Ref) : Bool :=
  let A := h.arr a
  a < h.arrs.length && A.legs < h.lists.length && A.data < h.lists.length && A.qtotal < h.bufs.length
    && A.labels < h.bufs.length && A.qdata < h.bufs.length && (h.list A.data).all (· < h.bufs.length)
    && (h.list A.legs).all (closedLeg h)

end TenpyModel.C03
